package hostx

import (
	"bytes"
	"context"
	"testing"
	"time"

	proto4 "go.sia.tech/core/rhp/v4"
	"go.sia.tech/core/types"
	rhp4 "go.sia.tech/coreutils/rhp/v4"
)

func TestProbe(t *testing.T) {
	t0 := time.Now()
	e, err := NewEnv(1, DefaultPrices())
	if err != nil {
		t.Fatal(err)
	}
	defer e.Close()
	t.Logf("env %v up=%+v", time.Since(t0), e.UP)
	t0 = time.Now()
	rk := e.Key("renter")
	c, err := e.Form(rk, Units(1000000000), Units(400000000))
	if err != nil {
		t.Fatal(err)
	}
	t.Logf("form %v rev=%+v", time.Since(t0), c.Rev)
	cs := e.CM.TipState()
	acct := proto4.Account(rk.PublicKey())
	t0 = time.Now()
	fr, err := rhp4.RPCFundAccounts(context.Background(), e.Net, cs, rk, c.CR(), []proto4.AccountDeposit{{Account: acct, Amount: Units(100000000)}})
	if err != nil {
		t.Fatal(err)
	}
	e.WaitDone()
	c.Rev = fr.Revision
	t.Logf("fund %v", time.Since(t0))
	token := proto4.NewAccountToken(rk, e.HostKey.PublicKey())
	var roots []types.Hash256
	t0 = time.Now()
	for i := 0; i < 4; i++ {
		data := bytes.Repeat([]byte{byte(i + 1)}, 4096)
		wr, err := rhp4.RPCWriteSector(context.Background(), e.Net, e.Prices, token, bytes.NewReader(data), 4096)
		if err != nil {
			t.Fatal(err)
		}
		e.WaitDone()
		roots = append(roots, wr.Root)
	}
	t.Logf("4 writes %v", time.Since(t0))
	t0 = time.Now()
	ar, err := rhp4.RPCAppendSectors(context.Background(), e.Net, rk, cs, e.Prices, c.CR(), roots)
	if err != nil {
		t.Fatal(err)
	}
	e.WaitDone()
	c.Rev = ar.Revision
	t.Logf("append %v usage=%+v", time.Since(t0), ar.Usage)
	st, _ := e.State(c.ID)
	t.Logf("roots match %v", proto4.MetaRoot(st.Roots) == st.Revision.FileMerkleRoot)

	// raw free with abort after first response
	t0 = time.Now()
	req := proto4.RPCFreeSectorsRequest{ContractID: c.ID, Prices: e.Prices, Indices: []uint64{0}}
	req.ChallengeSignature = rk.SignHash(req.ChallengeSigHash(c.Rev.RevisionNumber + 1))
	s, err := e.Net.DialStream(context.Background())
	if err != nil {
		t.Fatal(err)
	}
	if err := proto4.WriteRequest(s, proto4.RPCFreeSectorsID, &req); err != nil {
		t.Fatal(err)
	}
	var resp proto4.RPCFreeSectorsResponse
	if err := proto4.ReadResponse(s, &resp); err != nil {
		t.Fatal(err)
	}
	s.Close()
	e.WaitDone()
	t.Logf("aborted free %v", time.Since(t0))
	st, _ = e.State(c.ID)
	t.Logf("after abort: roots match %v  roots=%v want=%v", proto4.MetaRoot(st.Roots) == st.Revision.FileMerkleRoot, st.Roots, roots)
	for _, cl := range e.Log.Since(0) {
		t.Logf("%s %d %s ok=%v %s", cl.Comp, cl.Seq, cl.Op, cl.OK, cl.Err)
	}
}
