package hostx

import (
	"context"
	"fmt"
	"sort"
	"sync"
	"time"

	proto4 "go.sia.tech/core/rhp/v4"
	"go.sia.tech/core/types"
	rhp4 "go.sia.tech/coreutils/rhp/v4"
	"verifharness/hx"
)

// driveRevisions: random sequences of revising RPCs (fund, replenish accounts / pools, append,
// free, sector roots, latest revision, and a renew / refresh near the end), about 10 % of the
// requests with one corrupted or replayed field, some abandoned at a random round (C08, sequential).
func (d *driver) driveRevisions(ntraces, nops int) {
	rng := d.rng
	known := []int{1, 2, 3, 4, 5, 6, 7, 8}
	for n := 0; n < ntraces; n++ {
		allowance, collateral := uint64(1000000000), uint64(900000000)
		if n%4 == 2 { // a contract that runs out of money after a few appended sectors
			allowance, collateral = 3*uint64(d.e.UP.StorB*Dur)+5000, 5*uint64(d.e.UP.StorB*Dur)
		}
		tr := d.newTrace(allowance, collateral, known)
		renewA, renewC := int64(allowance/4), int64(allowance/5) // allowance >= collateral / 2, sums stay below 2^31 units
		ops := nops/2 + rng.Intn(nops)
		renewAt := -1
		if n%3 == 0 {
			renewAt = ops/3 + rng.Intn(ops/3+1)
		}
		size := func() int { return len(tr.state().Roots) }
		fl := func(classes ...string) string { return flaw(rng, 4, classes...) }
		// TIME: in every fourth trace the chain is mined to one block before the contract's proof height, then
		// to exactly the proof height, then past it -- with requests in between (from the proof height on
		// every revising request is too late: no revision could be confirmed any more)
		deadline := map[int]int{} // op index -> tip height relative to the proof height to mine to
		if n%4 == 1 {
			at := ops/3 + rng.Intn(ops/6+1)
			deadline[at], deadline[at+3+rng.Intn(3)], deadline[at+8+rng.Intn(3)] = -1, 0, 1
		}
		for op := 0; op < ops && !tr.bad; op++ {
			if rel, ok := deadline[op]; ok {
				st := tr.state()
				if blocks := int(st.Revision.ProofHeight) + rel - int(d.e.CM.Tip().Height); blocks > 0 {
					tr.do(Act{Op: "Mine", N: blocks})
				}
			}
			if op == renewAt {
				d.exchange(Act{Op: "BeginRenew", S: 1, Kind: pick(rng, "renew", "refresh", "refreshpartial"), Pf: flaw(rng, 10, pfClasses...), Cf: flaw(rng, 10, "badsig", "stale"), Rf: flaw(rng, 18, "bad", "poolbad"), NA: renewA, NC: renewC},
					"Round2Renew", flaw(rng, 25, "bad", "other", "replay", "badinput", "badinput"), pick(rng, "finish", "finish", "finish", "abort2", "abort1"))
				continue
			}
			cur := size()
			switch x := rng.Intn(100); {
			case x < 22:
				var deps []Dep
				for i, k := 0, 1+rng.Intn(2); i < k; i++ {
					deps = append(deps, Dep{A: pick(rng, TraceAccounts...), N: int64(1 + rng.Intn(2000))})
				}
				d.exchange(Act{Op: "BeginFund", S: 1, Deps: deps, Sf: fl(sfClasses...), Af: flaw(rng, 3, "ovfLast", "ovfMid", "tooBig")}, "", "", pick(rng, "finish", "finish", "finish", "finish", "abort1"))
			case x < 36:
				kind := pick(rng, "accts", "pools")
				names := TraceAccounts
				if kind == "pools" {
					names = TracePools
				}
				var accs []string
				for _, i := range rng.Perm(len(names))[:1+rng.Intn(len(names))] {
					accs = append(accs, names[i])
				}
				if rng.Intn(4) == 0 { // listed more than once: topped up, and paid for, once
					for i, k := 0, 1+rng.Intn(3); i < k; i++ {
						accs = append(accs, accs[rng.Intn(len(accs))])
					}
				}
				sf := fl(sfClasses...)
				if sf == "ok" && rng.Intn(3) == 0 {
					sf = "dedup"
				}
				d.exchange(Act{Op: "BeginRepl", S: 1, Kind: kind, Accs: accs, Target: int64(1 + rng.Intn(5000)), Cf: fl(cfClasses...), Af: flaw(rng, 3, "ovfLast", "ovfMid")}, "Round2Repl", sf, d.stopPoint())
			case x < 58 && cur < 30:
				var secs []int
				for i, k := 0, 1+rng.Intn(3); i < k; i++ {
					if rng.Intn(8) == 0 {
						secs = append(secs, unknownBase)
					} else {
						secs = append(secs, known[rng.Intn(len(known))])
					}
				}
				d.exchange(Act{Op: "BeginAppend", S: 1, Secs: secs, Pf: fl(pfClasses...), Cf: fl(cfClasses...)}, "Round2Append", fl(sfClasses...), d.stopPoint())
			case x < 76:
				k := rng.Intn(min(cur, 3) + 1)
				idx := rng.Perm(cur)[:k]
				sort.Sort(sort.Reverse(sort.IntSlice(idx)))
				if rng.Intn(15) == 0 {
					idx = append(idx, cur)
				}
				d.exchange(Act{Op: "BeginFree", S: 1, Idx: idx, Pf: fl(pfClasses...), Cf: fl(cfClasses...)}, "Round2Free", fl(sfClasses...), d.stopPoint())
			case x < 90:
				off, ln := 0, 0
				if cur > 0 {
					off = rng.Intn(cur)
					ln = 1 + rng.Intn(cur-off)
				}
				if rng.Intn(12) == 0 {
					ln = cur + 1
				}
				d.exchange(Act{Op: "BeginRoots", S: 1, Off: off, Len: ln, Pf: fl(pfClasses...), Sf: fl(sfClasses...)}, "", "", pick(rng, "finish", "finish", "finish", "abort1"))
			case x < 95:
				d.exchange(Act{Op: "BeginLatest", S: 1}, "", "", "finish")
			case x < 98:
				if len(deadline) == 0 { // (not in the deadline traces: a block more would move their schedule)
					tr.do(Act{Op: "Confirm", S: 1})
					d.res.Count("older_revisions_confirmed", tr.ad.Confirms)
					tr.ad.Confirms = 0
				}
			default:
				tr.do(Act{Op: "Truncated", S: 1})
			}
		}
		if tr.bad {
			d.res.Count("traces_cut_short", 1)
		}
		if n == 0 && d.shard == 0 {
			d.res.Sample(map[string]any{"trace": tr.tag, "events": tr.n, "first_actions": tr.hist[:min(len(tr.hist), 12)]})
		}
	}
}

// ---------------------------------------------------------------- concurrent renters on one contract

type sentReq struct {
	kind   string // "RV" | "CA" | "CP"
	cost   int64
	collat int64
	exact  bool
}

// driveConcurrent: 2-4 renter goroutines hammer ONE contract with honest requests built on the
// revision they last saw; the try-lock refuses the losers (allowed).  The trace is the sequence
// of calls the server made on the recording Contractor, in the recorder's own order: Lock /
// Commit / Unlock.  Every commit must carry the signature of a request some renter really sent,
// and is checked by TLC against that request's priced cost.
func (d *driver) driveConcurrent(ntraces, nops int) {
	for n := 0; n < ntraces; n++ {
		workers := 2 + (n+d.shard)%3
		rk := d.e.Key("renter")
		k, err := d.e.Form(rk, Units(1000000000), Units(900000000))
		if err != nil {
			d.t.Fatal(err)
		}
		ad := NewAdapter(d.e, k)
		known := []int{1, 2, 3, 4, 5, 6}
		for _, id := range known {
			ad.EnsureStored(id)
		}
		if err := ad.Reset([]int{1, 2, 3}, 3); err != nil {
			d.t.Fatal(err)
		}
		d.nTrace++
		tr := &tracer{tw: d.tw, e: d.e, ad: ad, res: d.res, tag: fmt.Sprintf("%s/seed%d/shard%d/trace%d/%dworkers", d.family, hx.Seed(), d.shard, d.nTrace, workers)}
		d.tr = tr
		var accs, pools []proto4.Account
		for _, nm := range TraceAccounts {
			accs = append(accs, ad.Acc(nm))
		}
		for _, nm := range TracePools {
			pools = append(pools, ad.Acc(nm))
		}
		d.e.C.mu.Lock()
		d.e.C.SnapAccts, d.e.C.SnapPools = accs, pools
		d.e.C.mu.Unlock()
		tr.reset(known, nil, nil)
		mark := d.e.Log.Mark()

		var mu sync.Mutex
		sent := map[types.Signature]sentReq{}
		attempts, successes := 0, 0
		record := func(sig types.Signature, kind string, u proto4.Usage) {
			c, ok1 := Scale(u.RenterCost())
			r, ok2 := Scale(u.RiskedCollateral)
			mu.Lock()
			sent[sig] = sentReq{kind, c, r, ok1 && ok2}
			successes++
			mu.Unlock()
		}
		var wg sync.WaitGroup
		for w := 0; w < workers; w++ {
			wg.Add(1)
			rng := hx.Rand(int64(1000*d.shard + 10*n + w))
			go func() {
				defer wg.Done()
				ctx := context.Background()
				for i := 0; i < nops; i++ {
					mu.Lock()
					attempts++
					mu.Unlock()
					lr, err := rhp4.RPCLatestRevision(ctx, d.e.Net, k.ID)
					if err != nil {
						continue // refused: somebody holds the lock
					}
					cr := rhp4.ContractRevision{ID: k.ID, Revision: lr.Contract}
					cs := d.e.CM.TipState()
					cur := int(lr.Contract.Filesize / proto4.SectorSize)
					switch x := rng.Intn(100); {
					case x < 30:
						deps := []proto4.AccountDeposit{{Account: accs[rng.Intn(len(accs))], Amount: Units(uint64(1 + rng.Intn(500)))}}
						if res, err := rhp4.RPCFundAccounts(ctx, d.e.Net, cs, rk, cr, deps); err == nil {
							record(res.Revision.RenterSignature, "CA", res.Usage)
						}
					case x < 45:
						p := rhp4.RPCReplenishAccountsParams{Accounts: []proto4.Account{accs[rng.Intn(len(accs))]}, Target: Units(uint64(1 + rng.Intn(3000))), Contract: cr}
						if res, err := rhp4.RPCReplenishAccounts(ctx, d.e.Net, p, cs, rk); err == nil && res.Revision.RevisionNumber != cr.Revision.RevisionNumber {
							record(res.Revision.RenterSignature, "CA", res.Usage)
						}
					case x < 55:
						p := rhp4.RPCReplenishPoolsParams{Pools: []proto4.Account{pools[rng.Intn(len(pools))]}, Target: Units(uint64(1 + rng.Intn(3000))), Contract: cr}
						if res, err := rhp4.RPCReplenishPools(ctx, d.e.Net, p, cs, rk); err == nil && res.Revision.RevisionNumber != cr.Revision.RevisionNumber {
							record(res.Revision.RenterSignature, "CP", res.Usage)
						}
					case x < 72 && cur < 12:
						roots := []types.Hash256{ad.Root(known[rng.Intn(len(known))])}
						if res, err := rhp4.RPCAppendSectors(ctx, d.e.Net, rk, cs, d.e.Prices, cr, roots); err == nil {
							record(res.Revision.RenterSignature, "RV", res.Usage)
						}
					case x < 86 && cur > 0:
						if res, err := rhp4.RPCFreeSectors(ctx, d.e.Net, rk, cs, d.e.Prices, cr, []uint64{uint64(rng.Intn(cur))}); err == nil {
							record(res.Revision.RenterSignature, "RV", res.Usage)
						}
					case cur > 0:
						off := uint64(rng.Intn(cur))
						if res, err := rhp4.RPCSectorRoots(ctx, d.e.Net, cs, d.e.Prices, rk, cr, off, 1+uint64(rng.Intn(cur-int(off)))); err == nil {
							record(res.Revision.RenterSignature, "RV", res.Usage)
						}
					}
				}
			}()
		}
		wg.Wait()
		if !d.e.Net.WaitAllServerDone(60 * time.Second) {
			d.t.Fatal("host handlers did not return")
		}
		// the trace: contractor calls in the recorder's order
		calls := d.e.Log.Since(mark)
		curRoots := map[int][]types.Hash256{} // lock epoch -> roots returned by the lock
		held := 0
		commits := 0
		for _, c := range calls {
			if c.Comp != "C" || c.ContractID != k.ID {
				continue
			}
			switch c.Op {
			case "Lock":
				tr.tw.Emit(map[string]any{"op": "Lock", "ok": c.OK, "epoch": c.Epoch, "seq": c.Seq})
				if c.OK {
					curRoots[c.Epoch] = c.Roots
					held = c.Epoch
				}
			case "Unlock":
				tr.tw.Emit(map[string]any{"op": "Unlock", "epoch": c.Epoch, "seq": c.Seq})
				delete(curRoots, c.Epoch)
				if held == c.Epoch {
					held = 0
				}
			case "Revise", "CreditAccounts", "CreditPools":
				if !c.OK {
					continue
				}
				commits++
				roots := c.Roots
				kind := "RV"
				if c.Op != "Revise" {
					roots = curRoots[held]
					kind = "CA"
					if c.Op == "CreditPools" {
						kind = "CP"
					}
				}
				o := tr.describe(*c.Revision, roots, false, false)
				for i, nm := range TraceAccounts {
					x, ok := Scale(c.AcctBal[i])
					o.Acct[nm] = x
					o.Exact = o.Exact && ok
				}
				for i, nm := range TracePools {
					x, ok := Scale(c.PoolBal[i])
					o.Pool[nm] = x
					o.Exact = o.Exact && ok
				}
				req, matched := sent[c.Revision.RenterSignature]
				ev := map[string]any{"op": "Commit", "epoch": held, "seq": c.Seq, "kind": kind, "call": c.Op, "matched": matched && req.kind == kind && req.exact,
					"cost": req.cost, "collat": req.collat, "st": o}
				if !matched {
					ev["hint"] = "unmatched"
					d.res.Mismatch("trace:concurrent:Commit:unmatched", fmt.Sprintf("%s: the host committed revision %d whose renter signature no renter request produced", tr.tag, c.Revision.RevisionNumber),
						map[string]any{"kind": "calltrace", "tag": tr.tag})
				}
				tr.tw.Emit(ev)
				d.res.Eval("")
			}
		}
		d.res.Count("concurrent_attempts", attempts)
		d.res.Count("concurrent_successes", successes)
		d.res.Count("concurrent_commits", commits)
		if successes != commits {
			d.res.Mismatch("trace:concurrent:count", fmt.Sprintf("%s: %d requests succeeded at the renters but the contractor saw %d commits", tr.tag, successes, commits), map[string]any{"kind": "calltrace", "tag": tr.tag})
		}
		// final state through LockV2Contract: the last commit is what the contractor holds
		st := tr.state()
		if !SigsOK(st.Revision) || proto4.MetaRoot(st.Roots) != st.Revision.FileMerkleRoot {
			d.res.Mismatch("trace:concurrent:final", tr.tag+": final contractor state is not a doubly signed revision matching its roots", map[string]any{"kind": "calltrace", "tag": tr.tag})
		}
		d.e.C.mu.Lock()
		d.e.C.SnapAccts, d.e.C.SnapPools = nil, nil
		d.e.C.mu.Unlock()
		if n == 0 && d.shard == 0 {
			d.res.Sample(map[string]any{"trace": tr.tag, "workers": workers, "attempts": attempts, "commits": commits})
		}
	}
}

// driveOverflow: the "amount overflow" corruption class, exhaustively: every deposit list of length
// 2..maxLen over {MaxCurrency, MaxCurrency-1, 2^127, 2, 1} (all orders) whose 128-bit sum overflows
// at the last addition, overflows in the middle but not at the end (the wrapped total is small
// and payable), or exceeds the renter payout -- sent with the signature over the revision a host
// with wrapping arithmetic would compute -- and replenish targets near 2^128 over several
// accounts.  Expected for all: error, no commit, no credit (C08, C15).
func (d *driver) driveOverflow(maxLen int) {
	lists := allOverflowLists(maxLen)
	names := TraceAccounts
	var tr *tracer
	inTrace := 0
	for _, amts := range lists {
		if tr == nil || tr.bad || inTrace >= 120 {
			tr = d.newTrace(1000000000, 900000000, nil)
			inTrace = 0
		}
		st := tr.state()
		class, _ := classifyAmounts(amts, st.Revision.RenterOutput.Value)
		if class == "small" {
			d.res.Count("overflow_lists_small_skipped", 1)
			continue
		}
		var deps []Dep
		var raw []string
		for i, a := range amts {
			deps = append(deps, Dep{A: names[i%len(names)], N: 1})
			raw = append(raw, curBig(a).String())
		}
		inTrace++
		d.res.Count("overflow_lists_"+class, 1)
		fin := d.exchange(Act{Op: "BeginFund", S: 1, Deps: deps, Sf: "ok", Af: class, Raw: raw}, "", "", "finish")
		if fin.Reply.K != "rej" {
			d.res.Mismatch("trace:fund:overflow:"+class, fmt.Sprintf("%s: deposits %v (class %s) were not refused: %v", tr.tag, raw, class, fin.Reply),
				map[string]any{"kind": "trace", "tag": tr.tag, "history": append([]string(nil), tr.hist...)})
			tr.bad = true
		}
	}
	for _, kind := range []string{"accts", "pools"} {
		for _, class := range []string{"ovfLast", "ovfMid"} {
			if tr == nil || tr.bad {
				tr = d.newTrace(1000000000, 900000000, nil)
			}
			name := "a1"
			if kind == "pools" {
				name = "p1"
			}
			fin := d.exchange(Act{Op: "BeginRepl", S: 1, Kind: kind, Accs: []string{name}, Target: 1, Cf: "ok", Af: class}, "Round2Repl", "ok", "finish")
			d.res.Count("overflow_replenish", 1)
			if fin.Reply.K != "rej" {
				d.res.Mismatch("trace:repl:overflow:"+class, fmt.Sprintf("%s: replenish %s with an overflowing target (class %s) was not refused: %v", tr.tag, kind, class, fin.Reply),
					map[string]any{"kind": "trace", "tag": tr.tag, "history": append([]string(nil), tr.hist...)})
				tr.bad = true
			}
		}
	}
}
