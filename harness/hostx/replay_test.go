package hostx

import (
	"bytes"
	"context"
	"fmt"
	"strings"
	"testing"
	"time"

	proto4 "go.sia.tech/core/rhp/v4"
	"go.sia.tech/core/types"
	rhp4 "go.sia.tech/coreutils/rhp/v4"
	"verifharness/hx"
)

// ---------------------------------------------------------------- Leg R: spec -> code

type edge struct {
	Act   Act       `json:"act"`
	Reply Reply     `json:"reply"`
	Calls []string  `json:"calls"`
	To    SpecState `json:"to"`
}

type replayIn struct {
	Family     string   `json:"family"`
	Allowance  uint64   `json:"allowance"`  // units
	Collateral uint64   `json:"collateral"` // units
	Listable   string   `json:"listable"`   // "none" | "some" | "all": RPCSectorRoots / read-back after every attempt
	Stub       string   `json:"stub"`       // self-test: deliberately wrong contractor
	Paths      [][]edge `json:"paths"`
}

func rpcOf(a Act) string {
	if strings.HasPrefix(a.Op, "Begin") {
		return rpcName(a)
	}
	return ""
}

func firstField(diffs []string) string {
	if len(diffs) == 0 {
		return ""
	}
	f := diffs[0]
	if i := strings.IndexAny(f, ": "); i > 0 {
		f = f[:i]
	}
	return f
}

type replayer struct {
	t   *testing.T
	res *hx.Result
	in  replayIn
	e   *Env
	ad  *Adapter // roots family: shared contract
	fk  types.PrivateKey
}

func (r *replayer) newContract() *Adapter {
	rk := r.e.Key("renter")
	k, err := r.e.Form(rk, Units(r.in.Allowance), Units(r.in.Collateral))
	if err != nil {
		r.t.Fatalf("form: %v", err)
	}
	return NewAdapter(r.e, k)
}

// setup brings the real host into the spec's post-Setup state.
func (r *replayer) setup(e edge) *Adapter {
	var ad *Adapter
	if r.in.Family == "roots" {
		if r.ad == nil {
			r.ad = r.newContract()
			// an account to read sectors back with
			r.fk = r.ad.Key("reader")
			if _, err := rhp4.RPCFundAccounts(context.Background(), r.e.Net, r.e.CM.TipState(), r.ad.K.RenterKey, r.ad.K.CR(), []proto4.AccountDeposit{{Account: proto4.Account(r.fk.PublicKey()), Amount: Units(10000000)}}); err != nil {
				r.t.Fatalf("fund reader: %v", err)
			}
			r.e.WaitDone()
		}
		ad = r.ad
	} else {
		ad = r.newContract()
	}
	for _, id := range e.To.Stored {
		ad.EnsureStored(id)
	}
	if err := ad.Reset(e.To.Roots, e.To.Rev.Cap); err != nil {
		r.t.Fatalf("setup: %v", err)
	}
	if err := ad.InstallLedger(e.To); err != nil {
		r.t.Fatalf("setup ledger: %v", err)
	}
	// TIME: mine until the chain tip sits at the spec's distance from the contract's proof height
	if want := int(ad.K.Rev.ProofHeight) + e.To.Tipd; e.To.Tipd != -2 && want > int(r.e.CM.Tip().Height) {
		if err := r.e.Mine(types.VoidAddress, want-int(r.e.CM.Tip().Height)); err != nil {
			r.t.Fatalf("setup mining: %v", err)
		}
	}
	if err := ad.SetBase(e.To.Rev); err != nil {
		r.t.Fatalf("setup: %v", err)
	}
	ad.Issues = nil
	return ad
}

// listable: RPCSectorRoots over sub-ranges verifies and every listed sector reads back,
// through the honest client, against the revision the contractor reports.
func (r *replayer) listable(ad *Adapter, all bool, salt int) (problems []string) {
	st, err := r.e.State(ad.K.ID)
	if err != nil {
		return []string{"state: " + err.Error()}
	}
	n := uint64(len(st.Roots))
	cr := rhp4.ContractRevision{ID: ad.K.ID, Revision: st.Revision}
	ranges := [][2]uint64{}
	if all {
		for o := uint64(0); o < n; o++ {
			for l := uint64(1); o+l <= n; l++ {
				ranges = append(ranges, [2]uint64{o, l})
			}
		}
	} else if n > 0 {
		ranges = append(ranges, [2]uint64{0, n})
		o := uint64(salt) % n
		ranges = append(ranges, [2]uint64{o, 1 + uint64(salt/7)%(n-o)})
	}
	cs := r.e.CM.TipState()
	var listed []types.Hash256
	for _, rg := range ranges {
		res, err := rhp4.RPCSectorRoots(context.Background(), r.e.Net, cs, r.e.Prices, ad.K.RenterKey, cr, rg[0], rg[1])
		r.e.WaitDone()
		if err != nil {
			problems = append(problems, fmt.Sprintf("listable: sector roots [%d,+%d) of %d: %v", rg[0], rg[1], n, err))
			return
		}
		cr.Revision = res.Revision
		for i, rt := range res.Roots {
			if rt != st.Roots[rg[0]+uint64(i)] {
				problems = append(problems, "listable: listed root differs from the contractor's")
			}
		}
		if rg[0] == 0 && rg[1] == n {
			listed = res.Roots
		}
	}
	token := proto4.NewAccountToken(r.fk, r.e.HostKey.PublicKey())
	for _, rt := range listed {
		var buf bytes.Buffer
		_, err := rhp4.RPCReadSector(context.Background(), r.e.Net, r.e.Prices, token, &buf, rt, 0, 64)
		r.e.WaitDone()
		if err != nil {
			problems = append(problems, fmt.Sprintf("readable: sector %d: %v", ad.ID(rt), err))
		}
	}
	return
}

func (r *replayer) runPath(pi int, path []edge) {
	var ad *Adapter
	rpcs := map[int]string{}
	freed := false
	fail := func(si int, e edge, field, desc string) {
		rpc := rpcs[e.Act.S]
		if freed && (field == "roots" || field == "rootsmatch") {
			rpc = "free" // only a free can have touched the roots without a commit
		}
		sig := fmt.Sprintf("replay:%s:%s:%s", rpc, e.Act.Op, field)
		r.res.Count("mismatching_paths", 1)
		r.res.Mismatch(sig, fmt.Sprintf("path %d step %d %s: %s", pi, si, hx.JSON(e.Act), desc),
			map[string]any{"kind": "path", "family": r.in.Family, "allowance": r.in.Allowance, "collateral": r.in.Collateral, "stub": r.in.Stub, "path": path[:si+1]})
	}
	for si, e := range path {
		if e.Act.Op == "Setup" {
			ad = r.setup(e)
			diffs, _, err := ad.Project(e.To, true)
			if err != nil {
				r.t.Fatalf("project after setup: %v", err)
			}
			if len(diffs) > 0 {
				r.t.Fatalf("setup does not reach the spec state: %v", diffs)
			}
			continue
		}
		if ad == nil {
			r.t.Fatalf("path %d does not start with Setup", pi)
		}
		if x := rpcOf(e.Act); x != "" {
			rpcs[e.Act.S] = x
			freed = freed || x == "free"
		}
		r.res.Eval(r.in.Family + "|" + hx.JSON(e.Act) + "|" + hx.JSON(e.To.Roots) + hx.JSON(e.To.Rev.Num))
		t0 := time.Now()
		out, err := ad.Step(e.Act)
		if d := time.Since(t0); d > 100*time.Millisecond {
			r.res.Note("slow step %v: path %d step %d %s", d, pi, si, hx.JSON(e.Act))
		}
		if err != nil {
			r.t.Fatalf("path %d step %d %s: harness error: %v", pi, si, hx.JSON(e.Act), err)
		}
		if ad.Switched { // the renewal is now the contract: compare it relative to the spec's renewal
			ad.SpecBase, ad.Switched = e.To.Rev, false
		}
		bad := false
		switch e.Act.Op {
		case "Deliver", "Finish", "Abort", "Truncated":
			if !out.Reply.Equal(e.Reply) {
				fail(si, e, "reply", fmt.Sprintf("renter read %v (%s), spec says %v", out.Reply, out.Why, e.Reply))
				bad = true
			}
		}
		if !bad && hx.JSON(out.Calls) != hx.JSON(e.Calls) {
			fail(si, e, "calls", fmt.Sprintf("host made calls %v, spec says %v", out.Calls, e.Calls))
			bad = true
		}
		if !bad && e.To.Lock == 0 {
			diffs, _, err := ad.Project(e.To, r.in.Family != "roots")
			if err != nil {
				r.t.Fatalf("path %d step %d: project: %v", pi, si, err)
			}
			if len(diffs) > 0 {
				fail(si, e, firstField(diffs), strings.Join(diffs, "; "))
				bad = true
			}
		}
		if !bad && len(ad.Issues) > 0 {
			fail(si, e, "concrete", strings.Join(ad.Issues, "; "))
			bad = true
		}
		ad.Issues = nil
		if bad {
			ad.CloseAll()
			if r.in.Family == "roots" {
				// repair so that the remaining paths start from a consistent state
				if err := ad.Reset(nil, 0); err != nil {
					r.t.Fatalf("repair: %v", err)
				}
			}
			return
		}
	}
	if ad == nil {
		return
	}
	ad.CloseAll()
	if r.in.Family == "roots" && r.in.Listable != "none" && r.in.Listable != "" {
		if p := r.listable(ad, r.in.Listable == "all", pi); len(p) > 0 {
			last := path[len(path)-1]
			fail(len(path)-1, last, "listable", strings.Join(p, "; "))
			ad.Reset(nil, 0)
		}
		r.res.Count("listable_checks", 1)
	}
	if pi == 0 {
		r.res.Sample(map[string]any{"family": r.in.Family, "path": path})
	}
}

func runReplay(t *testing.T, res *hx.Result, in replayIn) {
	e, err := NewEnvStub(hx.Seed(), DefaultPrices(), in.Stub)
	if err != nil {
		t.Fatal(err)
	}
	defer e.Close()
	r := &replayer{t: t, res: res, in: in, e: e}
	for pi, p := range in.Paths {
		r.runPath(pi, p)
	}
	res.Count("paths", len(in.Paths))
}

// TestReplay steps the real host through every path of the edge cover of Host's state graph.
func TestReplay(t *testing.T) {
	res := hx.NewResult()
	defer res.Write()
	var in replayIn
	if err := hx.ReadIn(&in); err != nil {
		t.Fatal(err)
	}
	runReplay(t, res, in)
}

// TestReplayOne re-executes one saved replay record (./check Cxx --replay f).
func TestReplayOne(t *testing.T) {
	res := hx.NewResult()
	defer res.Write()
	var mm struct {
		Replay struct {
			Family     string `json:"family"`
			Allowance  uint64 `json:"allowance"`
			Collateral uint64 `json:"collateral"`
			Stub       string `json:"stub"`
			Path       []edge `json:"path"`
		} `json:"replay"`
	}
	if err := hx.ReadIn(&mm); err != nil {
		t.Fatal(err)
	}
	r := mm.Replay
	runReplay(t, res, replayIn{Family: r.Family, Allowance: r.Allowance, Collateral: r.Collateral, Stub: r.Stub, Listable: "some", Paths: [][]edge{r.Path}})
}
