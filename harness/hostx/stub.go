package hostx

import (
	"errors"
	"sync"

	proto4 "go.sia.tech/core/rhp/v4"
	"go.sia.tech/core/types"
	rhp4 "go.sia.tech/coreutils/rhp/v4"
)

// stubContractor is a deliberately WRONG contractor used only by the self-tests, to show that
// the replay and the trace validation detect a misbehaving implementation:
//
//	keeproots  ReviseV2Contract ignores the new roots (keeps the previous ones)
//	freedebit  DebitAccount succeeds without debiting when funds are insufficient
//	refund     every committed revision gives one unit back to the renter (re-signed)
type stubContractor struct {
	rhp4.Contractor
	kind      string
	mu        sync.Mutex
	armed     bool
	prevRoots map[types.FileContractID][]types.Hash256
	renterKey func(types.PublicKey) (types.PrivateKey, bool)
	hostKey   types.PrivateKey
	sigHash   func(types.V2FileContract) types.Hash256
}

func (s *stubContractor) arm(on bool) { s.mu.Lock(); s.armed = on; s.mu.Unlock() }

func (s *stubContractor) skew(rev types.V2FileContract) types.V2FileContract {
	if s.kind != "refund" || !s.armed {
		return rev
	}
	rk, ok := s.renterKey(rev.RenterPublicKey)
	if !ok || rev.HostOutput.Value.Cmp(Units(1)) < 0 {
		return rev
	}
	rev.RenterOutput.Value = rev.RenterOutput.Value.Add(Units(1))
	rev.HostOutput.Value = rev.HostOutput.Value.Sub(Units(1))
	h := s.sigHash(rev)
	rev.RenterSignature, rev.HostSignature = rk.SignHash(h), s.hostKey.SignHash(h)
	return rev
}

func (s *stubContractor) ReviseV2Contract(id types.FileContractID, rev types.V2FileContract, roots []types.Hash256, usage proto4.Usage) error {
	s.mu.Lock()
	armed := s.armed
	prev := s.prevRoots[id]
	s.mu.Unlock()
	pass := roots
	if s.kind == "keeproots" && armed {
		pass = prev
	}
	err := s.Contractor.ReviseV2Contract(id, s.skew(rev), pass, usage)
	if err == nil {
		s.mu.Lock()
		s.prevRoots[id] = append([]types.Hash256(nil), pass...)
		s.mu.Unlock()
	}
	return err
}

func (s *stubContractor) CreditAccountsWithContract(d []proto4.AccountDeposit, id types.FileContractID, rev types.V2FileContract, u proto4.Usage) ([]types.Currency, error) {
	return s.Contractor.CreditAccountsWithContract(d, id, s.skew(rev), u)
}

func (s *stubContractor) CreditPoolsWithContract(d []proto4.AccountDeposit, id types.FileContractID, rev types.V2FileContract, u proto4.Usage) ([]types.Currency, error) {
	return s.Contractor.CreditPoolsWithContract(d, id, s.skew(rev), u)
}

func (s *stubContractor) DebitAccount(a proto4.Account, u proto4.Usage) error {
	err := s.Contractor.DebitAccount(a, u)
	if s.kind == "freedebit" && errors.Is(err, proto4.ErrNotEnoughFunds) {
		return nil
	}
	return err
}
