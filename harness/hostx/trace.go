package hostx

import (
	"fmt"
	"sort"
	"strings"

	proto4 "go.sia.tech/core/rhp/v4"
	"go.sia.tech/core/types"
	rhp4 "go.sia.tech/coreutils/rhp/v4"
	"verifharness/hx"
)

// Names of the accounts / pools of spec/cfg/HostTrace.cfg.
var (
	TraceAccounts = []string{"a1", "a2", "a3"}
	TracePools    = []string{"p1", "p2"}
)

// obsState is what the harness can see of the host while no handler holds the contract lock.
type obsState struct {
	Num     int64               `json:"num"`
	Rout    int64               `json:"rout"`
	Hout    int64               `json:"hout"`
	Missed  int64               `json:"missed"`
	Coll    int64               `json:"coll"`
	Size    int                 `json:"size"`
	Cap     int                 `json:"cap"`
	Roots   []int               `json:"roots"`
	Ph      int                 `json:"ph"`
	Eh      int                 `json:"eh"`
	Dur     int                 `json:"dur"`
	Tipd    int                 `json:"tipd"` // chain tip height - proof height
	Rk      string              `json:"rk"`
	Hk      string              `json:"hk"`
	Match   bool                `json:"match"`
	Sigs    bool                `json:"sigs"`
	Exact   bool                `json:"exact"`
	Chain   bool                `json:"chain"`
	Renewed bool                `json:"renewed"`
	Others  bool                `json:"others"` // every contract this one was renewed from is exactly as frozen
	Att     map[string][]string `json:"att"`    // account -> attached pools (verif hook of the reference contractor)
	Acct    map[string]int64    `json:"acct"`
	Pool    map[string]int64    `json:"pool"`
}

// tracer records one NDJSON event per spec action performed on the real host (Leg T).
type tracer struct {
	tw   *hx.TraceWriter
	e    *Env
	ad   *Adapter
	res  *hx.Result
	tag  string
	rpc  map[int]string // session -> rpc of the exchange in flight
	n    int            // events of the current trace
	hist []string       // compact history of the current trace (for replay records)
	bad  bool           // the harness itself saw a divergence (match/sigs/exact/chain false or an issue)
	why  string
}

func (tr *tracer) keyName(pk types.PublicKey) string {
	switch pk {
	case tr.ad.K.RenterKey.PublicKey():
		return "rk"
	case tr.e.HostKey.PublicKey():
		return "hk"
	}
	return "other"
}

// describe converts a (revision, roots) pair into the scaled observation.
func (tr *tracer) describe(rev types.V2FileContract, roots []types.Hash256, renewed bool, balances bool) obsState {
	a := tr.ad
	o := obsState{Renewed: renewed, Exact: true, Acct: map[string]int64{}, Pool: map[string]int64{}, Att: map[string][]string{}}
	sc := func(c types.Currency) int64 {
		n, ok := Scale(c)
		if !ok {
			o.Exact = false
		}
		return n
	}
	o.Num = int64(rev.RevisionNumber)
	o.Rout, o.Hout, o.Missed, o.Coll = sc(rev.RenterOutput.Value), sc(rev.HostOutput.Value), sc(rev.MissedHostValue), sc(rev.TotalCollateral)
	o.Size, o.Cap = int(rev.Filesize/proto4.SectorSize), int(rev.Capacity/proto4.SectorSize)
	if rev.Filesize%proto4.SectorSize != 0 || rev.Capacity%proto4.SectorSize != 0 {
		o.Exact = false
	}
	o.Roots = a.IDs(roots)
	o.Ph, o.Eh = int(rev.ProofHeight), int(rev.ExpirationHeight)
	o.Dur = int(rev.ExpirationHeight) - int(tr.e.Prices.TipHeight)
	o.Others = len(a.AuditOthers()) == 0
	o.Att = a.Attachments(TraceAccounts)
	o.Rk, o.Hk = tr.keyName(rev.RenterPublicKey), tr.keyName(rev.HostPublicKey)
	o.Match = proto4.MetaRoot(roots) == rev.FileMerkleRoot && uint64(len(roots))*proto4.SectorSize == rev.Filesize
	o.Sigs = SigsOK(rev)
	o.Tipd = int(tr.e.CM.Tip().Height) - int(rev.ProofHeight)
	// acceptable to consensus on the real chain state -- as long as the proof window has not opened (afterwards
	// no revision can be confirmed any more; every commit is judged when it is made, see CheckCommit)
	o.Chain = rev.RevisionNumber == 0 || renewed || o.Tipd >= 0 || ConsensusAccepts(tr.e, a.K.ID, rev) == nil
	if balances {
		var accs, pools []proto4.Account
		for _, n := range TraceAccounts {
			accs = append(accs, a.Acc(n))
		}
		for _, n := range TracePools {
			pools = append(pools, a.Acc(n))
		}
		ab, _ := tr.e.EC.AccountBalances(accs)
		pb, _ := tr.e.EC.PoolBalances(pools)
		for i, n := range TraceAccounts {
			o.Acct[n] = sc(ab[i])
		}
		for i, n := range TracePools {
			o.Pool[n] = sc(pb[i])
		}
	}
	return o
}

// observe looks at the contractor through LockV2Contract (one try: the lock is either free or a
// blocked handler holds it).
func (tr *tracer) observe() (obsState, bool) {
	rs, unlock, err := tr.e.EC.LockV2Contract(tr.ad.K.ID)
	if err != nil {
		return obsState{Roots: []int{}, Acct: map[string]int64{}, Pool: map[string]int64{}, Att: map[string][]string{}}, false
	}
	roots := cloneRoots(rs.Roots)
	unlock()
	return tr.describe(rs.Revision, roots, rs.Renewed, true), true
}

func (tr *tracer) flag(o obsState) {
	if !(o.Match && o.Sigs && o.Exact && o.Chain && o.Others) && !tr.bad {
		tr.bad = true
		tr.why = fmt.Sprintf("observation flags match=%v sigs=%v exact=%v chain=%v others=%v", o.Match, o.Sigs, o.Exact, o.Chain, o.Others)
	}
}

// argFields copies the arguments of a spec action into its event.
func argFields(ev map[string]any, act Act, renewal func() map[string]int64) {
	switch act.Op {
	case "BeginFree":
		ev["idx"], ev["pf"], ev["cf"] = orEmpty(act.Idx), act.Pf, act.Cf
	case "BeginAppend":
		ev["secs"], ev["pf"], ev["cf"] = orEmpty(act.Secs), act.Pf, act.Cf
	case "Round2Free", "Round2Append", "Round2Repl":
		ev["sf"] = act.Sf
	case "Round2Renew":
		ev["sf"] = act.Sf
		ev["x"] = renewal()
	case "BeginRoots":
		ev["off"], ev["len"], ev["pf"], ev["sf"] = act.Off, act.Len, act.Pf, act.Sf
	case "BeginFund":
		ev["deps"], ev["sf"], ev["af"] = orEmpty(act.Deps), act.Sf, orOK(act.Af)
		if len(act.Raw) > 0 {
			ev["raw"] = act.Raw
		}
	case "BeginRepl":
		ev["kind"], ev["accs"], ev["target"], ev["cf"], ev["af"] = act.Kind, orEmpty(act.Accs), act.Target, act.Cf, orOK(act.Af)
	case "BeginAttach", "BeginDetach":
		ev["b"] = orEmpty(act.B)
	case "BeginRead", "BeginWrite":
		ev["a"], ev["sec"], ev["units"], ev["tf"], ev["pf"] = act.A, act.Sec, act.Units, act.Tf, act.Pf
	case "BeginVerify":
		ev["a"], ev["sec"], ev["tf"], ev["pf"] = act.A, act.Sec, act.Tf, act.Pf
	case "BeginBalance":
		ev["a"] = act.A
	case "Mine":
		ev["n"] = act.N
	case "PartialWrite":
		ev["a"], ev["units"], ev["part"] = act.A, act.Units, act.Part
	case "BeginRenew":
		ev["kind"], ev["pf"], ev["cf"], ev["rf"], ev["na"], ev["nc"] = act.Kind, act.Pf, act.Cf, act.Rf, act.NA, act.NC
	}
}

// emitRaw logs an event of a CONCURRENT history: the harness has put the events of the two renters
// into a linearization order; calls cannot be attributed to one of two handlers running at the
// same time ("nc"), and the state is observed only at the end, when both have finished.
func (tr *tracer) emitRaw(act Act, out Outcome, final bool) {
	if tr.rpc == nil {
		tr.rpc = map[int]string{}
	}
	if x := rpcName(act); x != "" {
		tr.rpc[act.S] = x
	}
	ev := map[string]any{"op": act.Op, "s": act.S, "reply": out.Reply, "calls": []string{}, "nocalls": true, "rpc": tr.rpc[act.S]}
	argFields(ev, act, func() map[string]int64 { return map[string]int64{"hout": 0, "coll": 0, "ph": 0, "eh": 0, "dur": 1} })
	o, ok := obsState{Roots: []int{}, Acct: map[string]int64{}, Pool: map[string]int64{}, Att: map[string][]string{}}, false
	if final {
		o, ok = tr.observe()
		if ok {
			tr.flag(o)
		}
	}
	ev["obs"], ev["st"] = ok, o
	if out.Why != "" {
		ev["why"] = out.Why
	}
	tr.tw.Emit(ev)
	tr.n++
	tr.hist = append(tr.hist, hx.JSON(act))
	tr.res.Eval("")
}

// renewalFields: the host's part of the renewal (valid host payout, total collateral, heights,
// duration) as handed to Contractor.RenewV2Contract during this step; zeros if it was not called.
func (tr *tracer) renewalFields(out Outcome) map[string]int64 {
	x := map[string]int64{"hout": 0, "coll": 0, "ph": 0, "eh": 0, "dur": 1}
	if nc := tr.ad.LastRenewal; nc != nil {
		h, ok1 := Scale(nc.HostOutput.Value)
		c, ok2 := Scale(nc.TotalCollateral)
		if !ok1 || !ok2 {
			tr.ad.Issues = append(tr.ad.Issues, "renew: new contract's payouts are not whole units")
		}
		x["hout"], x["coll"], x["ph"], x["eh"] = h, c, int64(nc.ProofHeight), int64(nc.ExpirationHeight)
		x["dur"] = int64(nc.ExpirationHeight) - int64(tr.e.Prices.TipHeight)
		tr.ad.LastRenewal = nil
	}
	return x
}

// reset starts a new trace: the Reset event installs the real host's current state.
func (tr *tracer) reset(stored []int, pex []string, att map[string][]string) {
	o, ok := tr.observe()
	if !ok {
		panic("reset: contract is locked")
	}
	if stored == nil {
		stored = []int{}
	}
	if pex == nil {
		pex = []string{}
	}
	if att == nil {
		att = map[string][]string{}
	}
	for _, n := range TraceAccounts {
		if att[n] == nil {
			att[n] = []string{}
		}
	}
	sort.Ints(stored)
	tr.n, tr.hist, tr.bad, tr.why = 0, nil, false, ""
	tr.tw.Emit(map[string]any{"op": "Reset", "tag": tr.tag, "tipd": o.Tipd, "st": o, "up": tr.e.UP, "stored": stored, "pex": pex, "att": att})
	tr.res.Traces++
}

func orOK(s string) string {
	if s == "" {
		return "ok"
	}
	return s
}

func orEmpty[T any](x []T) []T {
	if x == nil {
		return []T{}
	}
	return x
}

// do performs one spec action on the real host and logs the event.
func (tr *tracer) do(act Act) Outcome {
	out, err := tr.ad.Step(act)
	if err != nil {
		panic(fmt.Sprintf("harness error on %s: %v", hx.JSON(act), err))
	}
	if act.Op == "Next" {
		act.Op = out.Op
	}
	if tr.rpc == nil {
		tr.rpc = map[int]string{}
	}
	if x := rpcName(act); x != "" {
		tr.rpc[act.S] = x
	}
	ev := map[string]any{"op": act.Op, "s": act.S, "reply": out.Reply, "calls": orEmpty(out.Calls), "rpc": tr.rpc[act.S]}
	argFields(ev, act, func() map[string]int64 { return tr.renewalFields(out) })
	o, ok := tr.observe()
	ev["obs"], ev["st"] = ok, o
	if ok {
		tr.flag(o)
		switch {
		case !o.Match:
			ev["hint"] = "roots"
		case !o.Sigs:
			ev["hint"] = "sigs"
		case !o.Exact:
			ev["hint"] = "exact"
		case !o.Chain:
			ev["hint"] = "chain"
		case !o.Others:
			ev["hint"] = "replaced"
		}
	}
	tr.hist = append(tr.hist, hx.JSON(act))
	if len(tr.ad.Issues) > 0 {
		// what the specification cannot see (proofs, signatures over exact bytes, data) is judged here
		tr.res.Mismatch(fmt.Sprintf("trace:%s:%s:concrete", tr.rpc[act.S], act.Op), fmt.Sprintf("%s: %v", tr.tag, tr.ad.Issues),
			map[string]any{"kind": "trace", "tag": tr.tag, "history": append([]string(nil), tr.hist...)})
		tr.bad, tr.why = true, tr.ad.Issues[0]
	}
	tr.ad.Issues = nil
	if out.Why != "" {
		ev["why"] = out.Why
	}
	tr.tw.Emit(ev)
	tr.n++
	tr.res.Eval("")
	switch act.Op {
	case "Finish", "Abort":
		tr.res.Count("outcome:"+tr.rpc[act.S]+":"+out.Reply.K, 1)
	}
	if len(out.Calls) > 0 {
		tr.res.Count("calls:"+strings.Join(out.Calls, ","), 1)
	}
	return out
}

// rpcName names the exchange an action starts ("" for other actions).  A replenish request that
// lists an account twice is named apart ("repl-dup": open finding C15-replenish-duplicates).
func rpcName(a Act) string {
	if a.Op == "Truncated" {
		return "truncated"
	}
	if !strings.HasPrefix(a.Op, "Begin") {
		return ""
	}
	n := strings.ToLower(a.Op[len("Begin"):])
	if a.Op == "BeginRepl" {
		seen := map[string]bool{}
		for _, x := range a.Accs {
			if seen[x] {
				return n + "-dup"
			}
			seen[x] = true
		}
	}
	return n
}

// RevState is a convenience for drivers.
func (tr *tracer) state() rhp4.RevisionState {
	st, err := tr.e.State(tr.ad.K.ID)
	if err != nil {
		panic(err)
	}
	return st
}
