// Package hostx binds spec/Host.tla to the real RHP4 host (rhp/v4/server.go) with the reference
// Contractor / Sectors / Settings of testutil/host.go (properties C09, C15, C08).
package hostx

import (
	"sync"
	"sync/atomic"

	"go.sia.tech/core/consensus"
	proto4 "go.sia.tech/core/rhp/v4"
	"go.sia.tech/core/types"
	rhp4 "go.sia.tech/coreutils/rhp/v4"
)

// A Call is one recorded call on the rhp4.Contractor or rhp4.Sectors interface.  Seq is the
// per-component sequence number taken under the recorder's own mutex INSIDE the wrapped call
// (the mutex is held across the inner call, so Seq order is execution order of that component);
// G is a global counter ordering calls across the two components.
type Call struct {
	Comp  string `json:"comp"` // "C" contractor, "S" sectors
	Seq   int    `json:"seq"`
	G     int64  `json:"g"`
	Op    string `json:"op"`
	OK    bool   `json:"ok"`
	Err   string `json:"err,omitempty"`
	Epoch int    `json:"epoch,omitempty"` // lock epoch (Lock / Unlock)

	ContractID types.FileContractID    `json:"-"`
	Revision   *types.V2FileContract   `json:"-"` // revision handed to the contractor
	Prev       *types.V2FileContract   `json:"-"` // revision held by the contractor just before (same critical section)
	Roots      []types.Hash256         `json:"-"` // roots handed to / returned by the contractor (copied)
	Usage      proto4.Usage            `json:"-"`
	Deposits   []proto4.AccountDeposit `json:"-"`
	Balances   []types.Currency        `json:"-"`
	Account    proto4.Account          `json:"-"`
	Attach     []proto4.PoolAttachment `json:"-"`
	Detach     []proto4.PoolDetachment `json:"-"`
	Root       types.Hash256           `json:"-"`
	Offset     uint64                  `json:"-"`
	Length     uint64                  `json:"-"`
	Set        *rhp4.TransactionSet    `json:"-"`
	AcctBal    []types.Currency        `json:"-"` // balances of RecContractor.SnapAccts right after a commit
	PoolBal    []types.Currency        `json:"-"` // balances of RecContractor.SnapPools right after a commit
}

var globalSeq int64

// A Log collects calls of both components.
type Log struct {
	mu    sync.Mutex
	calls []Call
}

func (l *Log) add(c Call) {
	l.mu.Lock()
	l.calls = append(l.calls, c)
	l.mu.Unlock()
}

// Mark returns the current length of the log.
func (l *Log) Mark() int {
	l.mu.Lock()
	defer l.mu.Unlock()
	return len(l.calls)
}

// Since returns a copy of the calls recorded from position m on.
func (l *Log) Since(m int) []Call {
	l.mu.Lock()
	defer l.mu.Unlock()
	return append([]Call(nil), l.calls[m:]...)
}

// RecContractor wraps an rhp4.Contractor and records every call.
type RecContractor struct {
	rhp4.Contractor
	log   *Log
	mu    sync.Mutex
	seq   int
	epoch int
	// inspect, when set, returns the revision currently held for a contract (used to fill
	// Call.Prev inside the same critical section).  It must not lock the contract.
	latest map[types.FileContractID]types.V2FileContract
	// SnapAccts / SnapPools: accounts and pools whose balances are read (in the same critical
	// section) right after every committing call
	SnapAccts []proto4.Account
	SnapPools []proto4.Account
	// Gate, when armed, parks ONE call of the server on this contractor (before or after it is
	// delegated) until the harness releases it: the scheduler of the concurrent leg.
	Gate *Gate
}

// A Gate parks the first call that reaches its point ("pre:Lock", "post:Lock", "pre:Bal",
// "post:Bal", "pre:Commit", "post:Commit") after Arm, outside every mutex of the recorder.
type Gate struct {
	mu      sync.Mutex
	point   string
	armed   bool
	parked  chan struct{}
	release chan struct{}
}

// Arm returns the channel that is closed when a call is parked; Release lets it go on.
func (g *Gate) Arm(point string) <-chan struct{} {
	g.mu.Lock()
	defer g.mu.Unlock()
	g.point, g.armed = point, true
	g.parked, g.release = make(chan struct{}), make(chan struct{})
	return g.parked
}

// Release lets the parked call (if any) continue and disarms the gate.
func (g *Gate) Release() {
	g.mu.Lock()
	defer g.mu.Unlock()
	g.armed = false
	if g.release != nil {
		close(g.release)
		g.release = nil
	}
}

func (g *Gate) hit(point string) {
	if g == nil {
		return
	}
	g.mu.Lock()
	if !g.armed || g.point != point {
		g.mu.Unlock()
		return
	}
	g.armed = false
	parked, release := g.parked, g.release
	g.mu.Unlock()
	close(parked)
	<-release
}

// AccountBalances / PoolBalances are gate points only (they are reads: not recorded).
func (r *RecContractor) AccountBalances(as []proto4.Account) ([]types.Currency, error) {
	r.Gate.hit("pre:Bal")
	defer r.Gate.hit("post:Bal")
	return r.Contractor.AccountBalances(as)
}

func (r *RecContractor) PoolBalances(as []proto4.Account) ([]types.Currency, error) {
	r.Gate.hit("pre:Bal")
	defer r.Gate.hit("post:Bal")
	return r.Contractor.PoolBalances(as)
}

func (r *RecContractor) snap(c *Call) {
	if len(r.SnapAccts) > 0 {
		c.AcctBal, _ = r.Contractor.AccountBalances(r.SnapAccts)
	}
	if len(r.SnapPools) > 0 {
		c.PoolBal, _ = r.Contractor.PoolBalances(r.SnapPools)
	}
}

func NewRecContractor(inner rhp4.Contractor, log *Log) *RecContractor {
	return &RecContractor{Contractor: inner, log: log, latest: map[types.FileContractID]types.V2FileContract{}}
}

func (r *RecContractor) stamp(c *Call) {
	r.seq++
	c.Comp = "C"
	c.Seq = r.seq
	c.G = atomic.AddInt64(&globalSeq, 1)
}

func errStr(err error) string {
	if err == nil {
		return ""
	}
	return err.Error()
}

func cloneRoots(r []types.Hash256) []types.Hash256 { return append([]types.Hash256(nil), r...) }

func (r *RecContractor) LockV2Contract(id types.FileContractID) (rhp4.RevisionState, func(), error) {
	r.Gate.hit("pre:Lock")
	defer r.Gate.hit("post:Lock")
	return r.recLockV2Contract(id)
}

func (r *RecContractor) recLockV2Contract(id types.FileContractID) (rhp4.RevisionState, func(), error) {
	r.mu.Lock()
	defer r.mu.Unlock()
	rs, unlock, err := r.Contractor.LockV2Contract(id)
	c := Call{Op: "Lock", OK: err == nil, Err: errStr(err), ContractID: id}
	var ep int
	if err == nil {
		r.epoch++
		ep = r.epoch
		rev := rs.Revision
		c.Revision = &rev
		c.Roots = cloneRoots(rs.Roots)
		r.latest[id] = rev
	}
	c.Epoch = ep
	r.stamp(&c)
	r.log.add(c)
	if err != nil {
		return rs, unlock, err
	}
	var once sync.Once
	return rs, func() {
		once.Do(func() {
			r.mu.Lock()
			defer r.mu.Unlock()
			unlock()
			u := Call{Op: "Unlock", OK: true, Epoch: ep, ContractID: id}
			r.stamp(&u)
			r.log.add(u)
		})
	}, nil
}

func (r *RecContractor) prev(id types.FileContractID) *types.V2FileContract {
	if p, ok := r.latest[id]; ok {
		return &p
	}
	return nil
}

func (r *RecContractor) ReviseV2Contract(id types.FileContractID, rev types.V2FileContract, roots []types.Hash256, usage proto4.Usage) error {
	r.Gate.hit("pre:Commit")
	defer r.Gate.hit("post:Commit")
	return r.recReviseV2Contract(id, rev, roots, usage)
}

func (r *RecContractor) recReviseV2Contract(id types.FileContractID, rev types.V2FileContract, roots []types.Hash256, usage proto4.Usage) error {
	r.mu.Lock()
	defer r.mu.Unlock()
	c := Call{Op: "Revise", ContractID: id, Revision: &rev, Prev: r.prev(id), Roots: cloneRoots(roots), Usage: usage}
	err := r.Contractor.ReviseV2Contract(id, rev, roots, usage)
	c.OK, c.Err = err == nil, errStr(err)
	if err == nil {
		r.latest[id] = rev
	}
	r.snap(&c)
	r.stamp(&c)
	r.log.add(c)
	return err
}

func (r *RecContractor) CreditAccountsWithContract(deps []proto4.AccountDeposit, id types.FileContractID, rev types.V2FileContract, usage proto4.Usage) ([]types.Currency, error) {
	r.Gate.hit("pre:Commit")
	defer r.Gate.hit("post:Commit")
	return r.recCreditAccountsWithContract(deps, id, rev, usage)
}

func (r *RecContractor) recCreditAccountsWithContract(deps []proto4.AccountDeposit, id types.FileContractID, rev types.V2FileContract, usage proto4.Usage) ([]types.Currency, error) {
	r.mu.Lock()
	defer r.mu.Unlock()
	c := Call{Op: "CreditAccounts", ContractID: id, Revision: &rev, Prev: r.prev(id), Usage: usage, Deposits: append([]proto4.AccountDeposit(nil), deps...)}
	bal, err := r.Contractor.CreditAccountsWithContract(deps, id, rev, usage)
	c.OK, c.Err, c.Balances = err == nil, errStr(err), append([]types.Currency(nil), bal...)
	if err == nil {
		r.latest[id] = rev
	}
	r.snap(&c)
	r.stamp(&c)
	r.log.add(c)
	return bal, err
}

func (r *RecContractor) CreditPoolsWithContract(deps []proto4.AccountDeposit, id types.FileContractID, rev types.V2FileContract, usage proto4.Usage) ([]types.Currency, error) {
	r.Gate.hit("pre:Commit")
	defer r.Gate.hit("post:Commit")
	return r.recCreditPoolsWithContract(deps, id, rev, usage)
}

func (r *RecContractor) recCreditPoolsWithContract(deps []proto4.AccountDeposit, id types.FileContractID, rev types.V2FileContract, usage proto4.Usage) ([]types.Currency, error) {
	r.mu.Lock()
	defer r.mu.Unlock()
	c := Call{Op: "CreditPools", ContractID: id, Revision: &rev, Prev: r.prev(id), Usage: usage, Deposits: append([]proto4.AccountDeposit(nil), deps...)}
	bal, err := r.Contractor.CreditPoolsWithContract(deps, id, rev, usage)
	c.OK, c.Err, c.Balances = err == nil, errStr(err), append([]types.Currency(nil), bal...)
	if err == nil {
		r.latest[id] = rev
	}
	r.snap(&c)
	r.stamp(&c)
	r.log.add(c)
	return bal, err
}

func (r *RecContractor) DebitAccount(a proto4.Account, usage proto4.Usage) error {
	r.mu.Lock()
	defer r.mu.Unlock()
	err := r.Contractor.DebitAccount(a, usage)
	c := Call{Op: "Debit", OK: err == nil, Err: errStr(err), Account: a, Usage: usage}
	r.stamp(&c)
	r.log.add(c)
	return err
}

func (r *RecContractor) AttachPools(as []proto4.PoolAttachment) error {
	r.mu.Lock()
	defer r.mu.Unlock()
	err := r.Contractor.AttachPools(as)
	c := Call{Op: "Attach", OK: err == nil, Err: errStr(err), Attach: append([]proto4.PoolAttachment(nil), as...)}
	r.stamp(&c)
	r.log.add(c)
	return err
}

func (r *RecContractor) DetachPools(ds []proto4.PoolDetachment) error {
	r.mu.Lock()
	defer r.mu.Unlock()
	err := r.Contractor.DetachPools(ds)
	c := Call{Op: "Detach", OK: err == nil, Err: errStr(err), Detach: append([]proto4.PoolDetachment(nil), ds...)}
	r.stamp(&c)
	r.log.add(c)
	return err
}

func lastContract(set rhp4.TransactionSet) (types.FileContractID, *types.V2FileContract) {
	if len(set.Transactions) == 0 {
		return types.FileContractID{}, nil
	}
	txn := set.Transactions[len(set.Transactions)-1]
	if len(txn.FileContracts) == 1 {
		fc := txn.FileContracts[0]
		return txn.V2FileContractID(txn.ID(), 0), &fc
	}
	if len(txn.FileContractResolutions) == 1 {
		if rn, ok := txn.FileContractResolutions[0].Resolution.(*types.V2FileContractRenewal); ok {
			fc := rn.NewContract
			return types.FileContractID(txn.FileContractResolutions[0].Parent.ID).V2RenewalID(), &fc
		}
	}
	return types.FileContractID{}, nil
}

func (r *RecContractor) AddV2Contract(set rhp4.TransactionSet, usage proto4.Usage) error {
	r.mu.Lock()
	defer r.mu.Unlock()
	err := r.Contractor.AddV2Contract(set, usage)
	id, fc := lastContract(set)
	c := Call{Op: "AddContract", OK: err == nil, Err: errStr(err), ContractID: id, Revision: fc, Usage: usage, Set: &set}
	if err == nil && fc != nil {
		r.latest[id] = *fc
	}
	r.stamp(&c)
	r.log.add(c)
	return err
}

func (r *RecContractor) RenewV2Contract(set rhp4.TransactionSet, usage proto4.Usage) error {
	r.mu.Lock()
	defer r.mu.Unlock()
	err := r.Contractor.RenewV2Contract(set, usage)
	id, fc := lastContract(set)
	c := Call{Op: "RenewContract", OK: err == nil, Err: errStr(err), ContractID: id, Revision: fc, Usage: usage, Set: &set}
	if len(set.Transactions) > 0 {
		if txn := set.Transactions[len(set.Transactions)-1]; len(txn.FileContractResolutions) == 1 {
			c.Prev = r.prev(types.FileContractID(txn.FileContractResolutions[0].Parent.ID))
		}
	}
	if err == nil && fc != nil {
		r.latest[id] = *fc
	}
	r.stamp(&c)
	r.log.add(c)
	return err
}

// RecSectors wraps an rhp4.Sectors and records ReadSector / StoreSector (and HasSector).
type RecSectors struct {
	rhp4.Sectors
	log *Log
	mu  sync.Mutex
	seq int
}

func NewRecSectors(inner rhp4.Sectors, log *Log) *RecSectors {
	return &RecSectors{Sectors: inner, log: log}
}

func (s *RecSectors) stamp(c *Call) {
	s.seq++
	c.Comp = "S"
	c.Seq = s.seq
	c.G = atomic.AddInt64(&globalSeq, 1)
}

func (s *RecSectors) HasSector(root types.Hash256) (bool, error) {
	s.mu.Lock()
	defer s.mu.Unlock()
	ok, err := s.Sectors.HasSector(root)
	c := Call{Op: "Has", OK: ok && err == nil, Err: errStr(err), Root: root}
	s.stamp(&c)
	s.log.add(c)
	return ok, err
}

func (s *RecSectors) ReadSector(root types.Hash256, offset, length uint64) ([]byte, []types.Hash256, error) {
	s.mu.Lock()
	defer s.mu.Unlock()
	d, p, err := s.Sectors.ReadSector(root, offset, length)
	c := Call{Op: "ReadSector", OK: err == nil, Err: errStr(err), Root: root, Offset: offset, Length: length}
	s.stamp(&c)
	s.log.add(c)
	return d, p, err
}

func (s *RecSectors) StoreSector(root types.Hash256, data *[proto4.SectorSize]byte, subtrees []types.Hash256, exp uint64) error {
	s.mu.Lock()
	defer s.mu.Unlock()
	err := s.Sectors.StoreSector(root, data, subtrees, exp)
	c := Call{Op: "StoreSector", OK: err == nil, Err: errStr(err), Root: root}
	s.stamp(&c)
	s.log.add(c)
	return err
}

// SigsOK reports whether both signatures of fc verify with core over exactly fc.
func SigsOK(fc types.V2FileContract) bool {
	h := consensus.State{}.ContractSigHash(fc)
	return fc.RenterPublicKey.VerifyHash(h, fc.RenterSignature) && fc.HostPublicKey.VerifyHash(h, fc.HostSignature)
}
