package hostx

import (
	"cmp"
	"context"
	"fmt"
	"math/rand"
	"os"
	"path/filepath"
	"slices"
	"testing"

	proto4 "go.sia.tech/core/rhp/v4"
	"go.sia.tech/core/types"
	rhp4 "go.sia.tech/coreutils/rhp/v4"
	"verifharness/hx"
)

// ---------------------------------------------------------------- Leg T: code -> spec

type driver struct {
	t      *testing.T
	res    *hx.Result
	e      *Env
	tw     *hx.TraceWriter
	tw2    *hx.TraceWriter // gated leg: the other linearization order of every history
	rng    *rand.Rand
	shard  int
	family string
	tr     *tracer
	nTrace int
	// replay of one client-API free: only this list, only the largest size
	clientFreeOne *[]int
	gentle        bool // self-test: no aborts (a trace that the unrepaired tree also completes)
}

func pick[T any](rng *rand.Rand, xs ...T) T { return xs[rng.Intn(len(xs))] }

// flaw returns "ok" most of the time, else one of the corruption classes.
func flaw(rng *rand.Rand, pct int, classes ...string) string {
	if rng.Intn(100) < pct {
		return pick(rng, classes...)
	}
	return "ok"
}

var (
	pfClasses = []string{"expired", "foreign", "tampered"}
	cfClasses = []string{"badsig", "stale", "foreign"}
	sfClasses = []string{"bad", "other", "replay", "foreign"}
	tfClasses = []string{"expired", "wronghost", "badsig"}
)

// newTrace forms a fresh contract and starts a new trace with it.
func (d *driver) newTrace(allowance, collateral uint64, stored []int) *tracer {
	rk := d.e.Key("renter")
	k, err := d.e.Form(rk, Units(allowance), Units(collateral))
	if err != nil {
		d.t.Fatalf("form: %v", err)
	}
	ad := NewAdapter(d.e, k)
	for _, id := range stored {
		ad.EnsureStored(id)
	}
	d.nTrace++
	d.tr = &tracer{tw: d.tw, e: d.e, ad: ad, res: d.res, tag: fmt.Sprintf("%s/seed%d/shard%d/trace%d", d.family, hx.Seed(), d.shard, d.nTrace)}
	d.tr.reset(append([]int(nil), stored...), nil, nil)
	return d.tr
}

// exchange runs one RPC from Begin to the chosen stopping point.
//
//	stop: "finish" | "abort1" (hang up before reading the first message) | "abort2" (after reading a
//	non-final response) | "abort3" (after sending the signature, before reading the final message)
func (d *driver) exchange(begin Act, round2 string, sf string, stop string) (final Outcome) {
	tr := d.tr
	s := begin.S
	tr.do(begin)
	if stop == "abort1" {
		return tr.do(Act{Op: "Abort", S: s})
	}
	out := tr.do(Act{Op: "Next", S: s})
	if out.Op == "Finish" {
		return out
	}
	if stop == "abort2" || round2 == "" {
		return tr.do(Act{Op: "Abort", S: s})
	}
	tr.do(Act{Op: round2, S: s, Sf: sf})
	if stop == "abort3" {
		return tr.do(Act{Op: "Abort", S: s})
	}
	return tr.do(Act{Op: "Next", S: s})
}

func (d *driver) stopPoint() string {
	if d.gentle {
		return "finish"
	}
	switch x := d.rng.Intn(100); {
	case x < 72:
		return "finish"
	case x < 82:
		return "abort1"
	case x < 94:
		return "abort2"
	}
	return "abort3"
}

// listModel is the property's simple list model of a free through the client API: sort
// descending, drop duplicates, swap-remove from the end one index at a time.
func listModel(roots []int, idx []int) []int {
	idx = slices.Clone(idx)
	slices.SortFunc(idx, func(a, b int) int { return cmp.Compare(b, a) })
	idx = slices.Compact(idx)
	out := slices.Clone(roots)
	for _, i := range idx {
		out[i] = out[len(out)-1]
		out = out[:len(out)-1]
	}
	return out
}

const (
	nKnownSectors = 44
	unknownBase   = 901
)

// driveRoots: random append / free / sector-roots sequences up to 40 sectors, unknown roots mixed
// into appends, raw (un-normalised) index lists, corrupted fields, aborts at random rounds (C09).
func (d *driver) driveRoots(ntraces, nops int) {
	rng := d.rng
	var known []int
	for i := 1; i <= nKnownSectors; i++ {
		known = append(known, i)
	}
	for n := 0; n < ntraces; n++ {
		tr := d.newTrace(1000000000, 900000000, known)
		// an account to read sectors back with
		d.exchange(Act{Op: "BeginFund", S: 1, Deps: []Dep{{A: "a1", N: 100000}}, Sf: "ok"}, "", "", "finish")
		size := func() int { return len(tr.state().Roots) }
		// in two traces out of three the contract is renewed / refreshed part-way: the appends, frees and
		// aborts after that work on the renewal while the host still holds the replaced contract
		renewAt := -1
		if n%3 != 2 {
			renewAt = nops/4 + rng.Intn(nops/4+1)
		}
		for op := 0; op < nops && !tr.bad; op++ {
			cur := size()
			if op == renewAt {
				if cur < 3 {
					renewAt++
				} else {
					d.exchange(Act{Op: "BeginRenew", S: 1, Kind: pick(rng, "renew", "refresh", "refreshpartial"), Pf: "ok", Cf: "ok", Rf: "ok", NA: 300000000, NC: 200000000},
						"Round2Renew", "ok", "finish")
					continue
				}
			}
			switch x := rng.Intn(100); {
			case x < 40 && cur < 40, cur == 0 && x < 80:
				k := 1 + rng.Intn(5)
				var secs []int
				for i := 0; i < k; i++ {
					if rng.Intn(6) == 0 {
						secs = append(secs, unknownBase+rng.Intn(3))
					} else {
						secs = append(secs, known[rng.Intn(len(known))])
					}
				}
				if rng.Intn(25) == 0 {
					secs = nil
				}
				d.exchange(Act{Op: "BeginAppend", S: 1, Secs: secs, Pf: flaw(rng, 5, pfClasses...), Cf: flaw(rng, 5, cfClasses...)},
					"Round2Append", flaw(rng, 6, sfClasses...), d.stopPoint())
			case x < 78:
				before := tr.ad.IDs(tr.state().Roots)
				var idx []int
				mode := rng.Intn(100)
				switch {
				case mode < 50: // what the client API sends: sorted descending, distinct
					k := rng.Intn(min(cur, 6) + 1)
					idx = rng.Perm(cur)[:k]
					slices.SortFunc(idx, func(a, b int) int { return cmp.Compare(b, a) })
				case mode < 85: // raw: distinct, any order
					k := rng.Intn(min(cur, 6) + 1)
					idx = rng.Perm(cur)[:k]
				default: // raw: duplicates / out of range
					k := 1 + rng.Intn(4)
					for i := 0; i < k; i++ {
						idx = append(idx, rng.Intn(cur+2))
					}
					if rng.Intn(2) == 0 && len(idx) > 0 {
						idx = append(idx, idx[0])
					}
				}
				pf, cf, sf := flaw(rng, 5, pfClasses...), flaw(rng, 5, cfClasses...), flaw(rng, 6, sfClasses...)
				if d.gentle {
					sf = "ok"
				}
				fin := d.exchange(Act{Op: "BeginFree", S: 1, Idx: idx, Pf: pf, Cf: cf}, "Round2Free", sf, d.stopPoint())
				if mode < 50 && fin.Op == "Finish" && fin.Reply.K == "ok" && !tr.bad {
					want := listModel(before, idx)
					if got := tr.ad.IDs(tr.state().Roots); fmt.Sprint(got) != fmt.Sprint(want) {
						d.res.Mismatch("trace:free:listmodel", fmt.Sprintf("%s: free %v of %v left %v, list model says %v", tr.tag, idx, before, got, want),
							map[string]any{"kind": "trace", "tag": tr.tag, "history": tr.hist})
						tr.bad = true
					}
					d.res.Count("listmodel_checks", 1)
				}
			case x < 93:
				off, ln := 0, 0
				if cur > 0 && rng.Intn(10) > 0 {
					off = rng.Intn(cur)
					ln = 1 + rng.Intn(cur-off)
				} else {
					off, ln = rng.Intn(cur+2), rng.Intn(cur+2)
				}
				d.exchange(Act{Op: "BeginRoots", S: 1, Off: off, Len: ln, Pf: flaw(rng, 5, pfClasses...), Sf: flaw(rng, 6, sfClasses...)}, "", "", pick(rng, "finish", "finish", "finish", "abort1"))
			case x < 95:
				tr.do(Act{Op: "Truncated", S: 1})
			case x < 98: // the chain subscriber: an EARLIER signed revision gets mined
				tr.do(Act{Op: "Confirm", S: 1})
				d.res.Count("older_revisions_confirmed", tr.ad.Confirms)
				tr.ad.Confirms = 0
			default:
				d.exchange(Act{Op: "BeginLatest", S: 1}, "", "", "finish")
			}
		}
		if tr.bad {
			d.res.Count("traces_cut_short", 1)
			continue
		}
		// Listable / Readable: the full range lists with a verifying proof, every listed sector reads back
		if cur := size(); cur > 0 {
			fin := d.exchange(Act{Op: "BeginRoots", S: 1, Off: 0, Len: cur, Pf: "ok", Sf: "ok"}, "", "", "finish")
			for _, id := range fin.Reply.L {
				d.exchange(Act{Op: "BeginRead", S: 1, A: "a1", Sec: int(id), Units: 1, Tf: "ok", Pf: "ok"}, "", "", "finish")
				d.res.Count("readback_checks", 1)
			}
		}
		if n == 0 && d.shard == 0 {
			d.res.Sample(map[string]any{"trace": tr.tag, "events": tr.n, "first_actions": tr.hist[:min(len(tr.hist), 12)]})
		}
	}
}

// amountsNear are deposit amounts / targets at, just below and just above each cost.
func amountsNear(up UnitPrices) []int64 {
	costs := []int64{up.Egr4k, 2 * up.Egr4k, up.Verify, up.Wstor + up.Ingr4k}
	out := []int64{1, 2, 3, 5}
	for _, c := range costs {
		out = append(out, c-1, c, c+1)
	}
	var pos []int64
	for _, x := range out {
		if x > 0 {
			pos = append(pos, x)
		}
	}
	return pos
}

// driveAccounts: random fund / replenish / attach / detach / read / write / verify / balance
// sessions over 3 accounts and 2 pools, balances steered to sit at, just below and just above the
// costs, corrupted fields, aborts at random rounds (C15).
func (d *driver) driveAccounts(ntraces, nops int) {
	rng := d.rng
	amts := amountsNear(d.e.UP)
	for n := 0; n < ntraces; n++ {
		allowance := uint64(3000000)
		if n%4 == 3 {
			allowance = uint64(d.e.UP.Wstor) + 2000 // the contract itself runs dry
		}
		tr := d.newTrace(allowance, 2*allowance, []int{1, 2, 3})
		dupTrace := n%5 == 4 // duplicates in replenish lists only here (open finding C15-replenish-duplicates)
		stored := []int{1, 2, 3}
		nextSec := 100 + 1000*d.shard + 50*n
		acc := func() string { return pick(rng, TraceAccounts...) }
		pl := func() string { return pick(rng, TracePools...) }
		amt := func() int64 { return amts[rng.Intn(len(amts))] }
		bal := func(a string) int64 {
			b, _ := d.e.EC.AccountBalance(tr.ad.Acc(a))
			x, _ := Scale(b)
			return x
		}
		for op := 0; op < nops && !tr.bad; op++ {
			tp := func() (string, string) {
				switch rng.Intn(20) {
				case 0:
					return pick(rng, tfClasses...), "ok"
				case 1:
					return "ok", pick(rng, pfClasses...)
				}
				return "ok", "ok"
			}
			switch x := rng.Intn(100); {
			case x < 16: // fund: sometimes exactly what is missing for the next service
				var deps []Dep
				for i, k := 0, 1+rng.Intn(3); i < k; i++ {
					a := acc()
					v := amt()
					if rng.Intn(3) == 0 {
						if miss := amt() - bal(a); miss > 0 {
							v = miss
						}
					}
					deps = append(deps, Dep{A: a, N: v})
				}
				switch rng.Intn(30) {
				case 0:
					deps = nil
				case 1:
					deps[0].N = 0
				}
				d.exchange(Act{Op: "BeginFund", S: 1, Deps: deps, Sf: flaw(rng, 8, sfClasses...), Af: flaw(rng, 4, "ovfLast", "ovfMid", "tooBig")}, "", "", pick(rng, "finish", "finish", "finish", "abort1"))
			case x < 26: // replenish accounts / pools
				kind := pick(rng, "accts", "pools")
				names := TraceAccounts
				if kind == "pools" {
					names = TracePools
				}
				var accs []string
				for _, i := range rng.Perm(len(names))[:1+rng.Intn(len(names))] {
					accs = append(accs, names[i])
				}
				if dupTrace && rng.Intn(3) == 0 {
					accs = append(accs, accs[0])
				}
				if rng.Intn(30) == 0 {
					accs = nil
				}
				target := amt()
				if rng.Intn(25) == 0 {
					target = 0
				}
				d.exchange(Act{Op: "BeginRepl", S: 1, Kind: kind, Accs: accs, Target: target, Cf: flaw(rng, 8, cfClasses...), Af: flaw(rng, 4, "ovfLast", "ovfMid")}, "Round2Repl", flaw(rng, 8, sfClasses...), d.stopPoint())
			case x < 36: // attach
				var b []Entry
				for i, k := 0, 1+rng.Intn(3); i < k; i++ {
					e := Entry{A: acc(), P: pl(), Vf: "ok"}
					e.By = e.P
					switch rng.Intn(14) {
					case 0:
						e.By = e.A
					case 1:
						e.By = "x"
					case 2:
						e.Vf = "expired"
					case 3:
						e.Vf = "wronghost"
					}
					b = append(b, e)
				}
				if rng.Intn(30) == 0 {
					b = nil
				}
				d.exchange(Act{Op: "BeginAttach", S: 1, B: b}, "", "", "finish")
			case x < 42: // detach: batches of 1..3 entries, most of them over the same pool, so that entries that are
				// no-ops (never attached, already detached) sit before / after entries that take effect
				var b []Entry
				p0 := pl()
				for i, k := 0, 1+rng.Intn(3); i < k; i++ {
					e := Entry{A: acc(), P: p0, Vf: "ok"}
					if rng.Intn(4) == 0 {
						e.P = pl()
					}
					e.By = pick(rng, e.A, e.P, e.P, e.P)
					switch rng.Intn(14) {
					case 0:
						e.By = "x"
					case 1:
						e.By = pl()
					case 2:
						e.Vf = pick(rng, "expired", "wronghost")
					}
					b = append(b, e)
				}
				d.exchange(Act{Op: "BeginDetach", S: 1, B: b}, "", "", "finish")
			case x < 62: // read
				tf, pf := tp()
				sec := stored[rng.Intn(len(stored))]
				if rng.Intn(12) == 0 {
					sec = unknownBase
				}
				d.exchange(Act{Op: "BeginRead", S: 1, A: acc(), Sec: sec, Units: pick(rng, 1, 1, 2, 2, 0), Tf: tf, Pf: pf}, "", "", pick(rng, "finish", "finish", "finish", "abort1"))
			case x < 74: // verify
				tf, pf := tp()
				sec := stored[rng.Intn(len(stored))]
				if rng.Intn(12) == 0 {
					sec = unknownBase
				}
				d.exchange(Act{Op: "BeginVerify", S: 1, A: acc(), Sec: sec, Tf: tf, Pf: pf}, "", "", "finish")
			case x < 88: // write
				tf, pf := tp()
				nextSec++
				fin := d.exchange(Act{Op: "BeginWrite", S: 1, A: acc(), Sec: nextSec, Units: pick(rng, 1, 1, 2, 0), Tf: tf, Pf: pf}, "", "", pick(rng, "finish", "finish", "finish", "abort1"))
				if fin.Op == "Finish" && fin.Reply.K == "ok" {
					stored = append(stored, nextSec)
				} else if ok, _ := d.e.SS.HasSector(Sector(nextSec).root); ok {
					stored = append(stored, nextSec) // paid and stored although the renter hung up
				}
			case x < 94:
				d.exchange(Act{Op: "BeginBalance", S: 1, A: acc()}, "", "", "finish")
			case x < 98: // an upload abandoned inside the message body
				tr.do(Act{Op: "PartialWrite", S: 1, A: acc(), Sec: 1, Units: 1, Part: rng.Intn(4)})
			default:
				tr.do(Act{Op: "Truncated", S: 1})
			}
		}
		if tr.bad {
			d.res.Count("traces_cut_short", 1)
		}
		if n == 0 && d.shard == 0 {
			d.res.Sample(map[string]any{"trace": tr.tag, "events": tr.n, "first_actions": tr.hist[:min(len(tr.hist), 12)]})
		}
	}
}

// driveClientFree: the property's list model through the CLIENT API, exhaustively: for every
// contract size 0..maxN and every index list over it of length <= maxLen (any order, with
// duplicates) the real rhp4.RPCFreeSectors leaves exactly the list model's roots.  (Go-side
// check; the spec side of it is the list-model lemma of Host.tla.)
func (d *driver) driveClientFree(maxN, maxLen int) {
	rk := d.e.Key("renter")
	k, err := d.e.Form(rk, Units(1000000000), Units(900000000))
	if err != nil {
		d.t.Fatal(err)
	}
	ad := NewAdapter(d.e, k)
	for n := 0; n <= maxN; n++ {
		base := make([]int, n)
		for i := range base {
			base[i] = i + 1
		}
		var lists [][]int
		var gen func(cur []int)
		gen = func(cur []int) {
			lists = append(lists, slices.Clone(cur))
			if len(cur) == maxLen || n == 0 {
				return
			}
			for v := 0; v < n; v++ {
				gen(append(cur, v))
			}
		}
		gen(nil)
		if d.clientFreeOne != nil {
			if n != maxN {
				continue
			}
			lists = [][]int{*d.clientFreeOne}
		}
		for _, idx := range lists {
			if err := ad.Reset(base, n); err != nil {
				d.t.Fatal(err)
			}
			st, _ := d.e.State(k.ID)
			raw := make([]uint64, len(idx))
			for i, v := range idx {
				raw[i] = uint64(v)
			}
			orig := slices.Clone(raw)
			replay := map[string]any{"kind": "clientfree", "n": n, "idx": idx}
			d.res.Eval(fmt.Sprintf("clientfree|%d|%v", n, idx))
			cr := rhp4.ContractRevision{ID: k.ID, Revision: st.Revision}
			// a first attempt that fails (built on a stale revision: the host refuses it and stays untouched),
			// then the retry WITH THE SAME SLICE OBJECT, as a caller's retry loop does
			stale := cr
			stale.Revision.RevisionNumber += 3
			if _, err := rhp4.RPCFreeSectors(context.Background(), d.e.Net, rk, d.e.CM.TipState(), d.e.Prices, stale, raw); err == nil {
				d.res.Mismatch("client:free:stale-accepted", fmt.Sprintf("size %d indices %v: a request built on a stale revision was accepted", n, idx), replay)
				continue
			}
			d.e.WaitDone()
			if !slices.Equal(raw, orig) {
				d.res.Mismatch("client:free:caller-slice", fmt.Sprintf("size %d: RPCFreeSectors changed the caller's index slice from %v to %v", n, orig, raw), replay)
			}
			if mid, _ := d.e.State(k.ID); fmt.Sprint(mid.Roots) != fmt.Sprint(st.Roots) || mid.Revision.RevisionNumber != st.Revision.RevisionNumber {
				d.res.Mismatch("client:free:failed-attempt-changed-host", fmt.Sprintf("size %d indices %v: the refused attempt changed the host", n, idx), replay)
			}
			res, err := rhp4.RPCFreeSectors(context.Background(), d.e.Net, rk, d.e.CM.TipState(), d.e.Prices, cr, raw)
			d.e.WaitDone()
			if err != nil {
				d.res.Mismatch("client:free:error", fmt.Sprintf("size %d indices %v: %v", n, idx, err), replay)
				continue
			}
			if !slices.Equal(raw, orig) {
				d.res.Mismatch("client:free:caller-slice", fmt.Sprintf("size %d: RPCFreeSectors changed the caller's index slice from %v to %v", n, orig, raw), replay)
			}
			after, _ := d.e.State(k.ID)
			want := listModel(base, idx) // the list model of what the caller ORIGINALLY asked for
			if got := ad.IDs(after.Roots); fmt.Sprint(got) != fmt.Sprint(want) {
				d.res.Mismatch("client:free:listmodel", fmt.Sprintf("size %d indices %v (retry after a refused attempt, same slice): host roots %v, list model %v", n, idx, got, want), replay)
			}
			if after.Revision.FileMerkleRoot != res.Revision.FileMerkleRoot || !SigsOK(after.Revision) {
				d.res.Mismatch("client:free:revision", fmt.Sprintf("size %d indices %v: host revision differs from the one the client holds", n, idx), replay)
			}
			d.res.Count("clientfree_lists", 1)
		}
	}
}

// clientArgsUntouched: no client RPC may modify a slice its caller passed in (roots, deposits,
// accounts, pools, indices): the caller may reuse it, e.g. for a retry.
func (d *driver) clientArgsUntouched() {
	rk := d.e.Key("renter")
	k, err := d.e.Form(rk, Units(1000000000), Units(900000000))
	if err != nil {
		d.t.Fatal(err)
	}
	ad := NewAdapter(d.e, k)
	for _, id := range []int{1, 2, 3, 4} {
		ad.EnsureStored(id)
	}
	ctx := context.Background()
	cs := d.e.CM.TipState()
	cur := func() rhp4.ContractRevision {
		st, _ := d.e.State(k.ID)
		return rhp4.ContractRevision{ID: k.ID, Revision: st.Revision}
	}
	check := func(what string, same bool) {
		d.res.Eval("clientargs|" + what)
		d.res.Count("client_arg_checks", 1)
		if !same {
			d.res.Mismatch("client:"+what+":caller-slice", "the client RPC modified the slice its caller passed ("+what+")", map[string]any{"kind": "clientargs", "what": what})
		}
	}
	roots := []types.Hash256{ad.Root(3), ad.Root(1), ad.Root(3), ad.Root(2)}
	r0 := slices.Clone(roots)
	_, err = rhp4.RPCAppendSectors(ctx, d.e.Net, rk, cs, d.e.Prices, cur(), roots)
	d.e.WaitDone()
	check("append-roots", err == nil && slices.Equal(roots, r0))
	a3, a1 := ad.Acc("a3"), ad.Acc("a1")
	deps := []proto4.AccountDeposit{{Account: a3, Amount: Units(7)}, {Account: a1, Amount: Units(5)}, {Account: a3, Amount: Units(2)}}
	d0 := slices.Clone(deps)
	_, err = rhp4.RPCFundAccounts(ctx, d.e.Net, cs, rk, cur(), deps)
	d.e.WaitDone()
	check("fund-deposits", err == nil && slices.Equal(deps, d0))
	accs := []proto4.Account{a3, a1, a3}
	c0 := slices.Clone(accs)
	_, err = rhp4.RPCReplenishAccounts(ctx, d.e.Net, rhp4.RPCReplenishAccountsParams{Accounts: accs, Target: Units(50), Contract: cur()}, cs, rk)
	d.e.WaitDone()
	check("replenish-accounts", err == nil && slices.Equal(accs, c0))
	pools := []proto4.Account{ad.Acc("p2"), ad.Acc("p1"), ad.Acc("p2")}
	p0 := slices.Clone(pools)
	_, err = rhp4.RPCReplenishPools(ctx, d.e.Net, rhp4.RPCReplenishPoolsParams{Pools: pools, Target: Units(50), Contract: cur()}, cs, rk)
	d.e.WaitDone()
	check("replenish-pools", err == nil && slices.Equal(pools, p0))
	idx := []uint64{3, 1, 3}
	i0 := slices.Clone(idx)
	_, err = rhp4.RPCFreeSectors(ctx, d.e.Net, rk, cs, d.e.Prices, cur(), idx)
	d.e.WaitDone()
	check("free-indices", err == nil && slices.Equal(idx, i0))
}

// TestDriver runs the real host on random / adversarial inputs and records one NDJSON event per
// spec action; the traces are validated by TLC against HostTrace.tla.
func TestDriver(t *testing.T) {
	res := hx.NewResult()
	defer res.Write()
	family := hx.Env("VERIF_FAMILY", "roots")
	shard := hx.EnvInt("VERIF_SHARD", 0)
	ntraces := hx.EnvInt("VERIF_TRACES", 4)
	nops := hx.EnvInt("VERIF_OPS", 40)
	e, err := NewEnvStub(hx.Seed()*131+int64(shard), DefaultPrices(), os.Getenv("VERIF_STUB"))
	if err != nil {
		t.Fatal(err)
	}
	defer e.Close()
	tw, err := hx.NewTraceWriter(filepath.Join(os.Getenv("VERIF_WORK"), fmt.Sprintf("hosttrace-%s-%d.ndjson", family, shard)))
	if err != nil {
		t.Fatal(err)
	}
	d := &driver{t: t, res: res, e: e, tw: tw, rng: hx.Rand(int64(7919*shard + len(family))), shard: shard, family: family, gentle: os.Getenv("VERIF_GENTLE") != ""}
	func() {
		defer func() {
			if r := recover(); r != nil {
				tw.Close()
				t.Fatalf("driver died: %v", r)
			}
		}()
		switch family {
		case "roots":
			d.driveRoots(ntraces, nops)
		case "accounts":
			d.driveAccounts(ntraces, nops)
		case "revisions":
			d.driveRevisions(ntraces, nops)
		case "concurrent":
			d.driveConcurrent(ntraces, nops)
		case "gated":
			tw2, err := hx.NewTraceWriter(filepath.Join(os.Getenv("VERIF_WORK"), fmt.Sprintf("hosttrace-gatedalt-%d.ndjson", shard)))
			if err != nil {
				t.Fatal(err)
			}
			d.tw2 = tw2
			d.driveGated(os.Getenv("VERIF_GATED_ONLY"))
			tw2.Close()
		case "overflow":
			d.driveOverflow(hx.EnvInt("VERIF_MAXLEN", 4))
		case "clientfree":
			d.driveClientFree(hx.EnvInt("VERIF_MAXN", 4), hx.EnvInt("VERIF_MAXLEN", 4))
			d.clientArgsUntouched()
		default:
			t.Fatalf("unknown family %q", family)
		}
	}()
	res.Count("events", tw.N)
	if err := tw.Close(); err != nil {
		t.Fatal(err)
	}
}

// TestReplayTrace re-executes the actions of a recorded (rejected) trace on a fresh host and
// records them again; ./check validates the new trace with TLC (./check Cxx --replay f).
func TestReplayTrace(t *testing.T) {
	res := hx.NewResult()
	defer res.Write()
	var mm struct {
		Replay struct {
			Allowance  uint64 `json:"allowance"`
			Collateral uint64 `json:"collateral"`
			Stored     []int  `json:"stored"`
			Acts       []Act  `json:"acts"`
		} `json:"replay"`
	}
	if err := hx.ReadIn(&mm); err != nil {
		t.Fatal(err)
	}
	e, err := NewEnv(hx.Seed(), DefaultPrices())
	if err != nil {
		t.Fatal(err)
	}
	defer e.Close()
	tw, err := hx.NewTraceWriter(filepath.Join(os.Getenv("VERIF_WORK"), "hosttrace-replay-0.ndjson"))
	if err != nil {
		t.Fatal(err)
	}
	d := &driver{t: t, res: res, e: e, tw: tw, rng: hx.Rand(1), family: "replay"}
	tr := d.newTrace(mm.Replay.Allowance, mm.Replay.Collateral, mm.Replay.Stored)
	for _, a := range mm.Replay.Acts {
		tr.do(a)
	}
	tr.ad.CloseAll()
	tw.Close()
}

// TestReplayClientFree re-executes one client-API free (size, raw index list).
func TestReplayClientFree(t *testing.T) {
	res := hx.NewResult()
	defer res.Write()
	var mm struct {
		Replay struct {
			N   int   `json:"n"`
			Idx []int `json:"idx"`
		} `json:"replay"`
	}
	if err := hx.ReadIn(&mm); err != nil {
		t.Fatal(err)
	}
	e, err := NewEnv(hx.Seed(), DefaultPrices())
	if err != nil {
		t.Fatal(err)
	}
	defer e.Close()
	d := &driver{t: t, res: res, e: e, rng: hx.Rand(1), family: "clientfree"}
	d.clientFreeOne = &mm.Replay.Idx
	d.driveClientFree(mm.Replay.N, len(mm.Replay.Idx))
}
