#!/usr/bin/env python3
"""Authoring-time generator for spec/cfg/Host_*.cfg (the files are static deliverables)."""
import os
OUT=os.path.join(os.path.dirname(os.path.abspath(__file__)), '..', '..', 'spec', 'cfg')
BASE=dict(
  Sessions='{1}', Accounts='{"a1"}', Pools='{"p1"}',
  PFree=3, PStorB=1024, PIngr=2, PCollB=2048, PRoots=1, PEgr=1, PWstor=442368, PIngr4k=2, PVerify=1024,
  RenewDist=2, RefreshDist=2, DevFreeAlias='FALSE', DevReplDup='FALSE', Family='"roots"', InitSizes='{0, 1, 2, 3, 4}', NSectors=4,
  UnknownSector=9, NewSector=8, Allowance=100000000, Collateral=100000000, CPrice=5, MaxNum=2, MaxIdxLen=4,
  Edges='FALSE', PF='{"ok", "expired"}', CF='{"ok", "badsig"}', SF='{"ok", "bad"}', TF='{"ok"}', Amts='{1}',
  Signers='{"x"}', RenewKinds='{"renew"}', MaxExchanges=1, Dur=164, TipChoices='{0}')
ORDER=list(BASE.keys())
ROOTS_INV='RootsMatchRevision Readable DoublySigned SerialisedPerContract SolventContract NonNegative AttachedExist'
ROOTS_PROP='AbortIsNoop RootsOnlyWithCommit RevMonotone Immutable PayoutSumConstant NoHostToRenter ExactCharge SignedCommit CommitHoldsLock BadRequestIsNoop'
ACCT_PROP=ROOTS_PROP+' CreditBacked TransferCredited DebitIsPrice PaidBeforeService InsufficientIsNoop ReplenishToTarget AttachNeedsSignature ServiceOnlyStores'
REV_PROP=ROOTS_PROP+' TooLateIsNoop RenewalKeepsRoots OldsFrozen CreditBacked TransferCredited AttachNeedsSignature ServiceOnlyStores'
def emit(name, comment, over, inv=ROOTS_INV, prop=ROOTS_PROP, edges=False, view='mcview', extra=''):
    c=dict(BASE); c.update(over)
    lines=['\\* '+l for l in comment.strip().split('\n')]
    lines+=['SPECIFICATION MCSpec','CONSTANTS']
    lines+=['  %s = %s'%(k,c[k]) for k in ORDER]
    lines+=['VIEW '+view,'CONSTRAINT Bound']
    if edges:
        lines+=['ACTION_CONSTRAINT EmitEdge']
    else:
        if inv: lines+=['INVARIANTS '+inv]
        if prop: lines+=['PROPERTIES '+prop]
    if extra: lines+=[extra]
    lines+=['CHECK_DEADLOCK FALSE']
    open(os.path.join(OUT,name),'w').write('\n'.join(lines)+'\n')

# ---------------- C09 roots
emit('Host_roots_quick.cfg','''C09 quick (Leg M): contracts of 0..4 sectors, every index list up to length 4 over 0..size (any order,
duplicates, out of range), appends with unknown roots, sector roots over every range, abort at every round;
complete reachable state space up to 2 commits''',{})
emit('Host_roots_thorough.cfg','''C09 thorough (Leg M): contracts of 0..5 sectors, every index list up to length 5 over 0..size, up to 2 commits''',
  dict(InitSizes='{0, 1, 2, 3, 4, 5}', NSectors=5, MaxIdxLen=5, MaxNum=2, PF='{"ok"}', CF='{"ok", "badsig"}'))
emit('Host_roots_thorough2.cfg','''C09 thorough (Leg M): two renter sessions racing for the contract lock, contracts of 0..3 sectors, every index
list up to length 3, up to 2 commits''',
  dict(Sessions='{1, 2}', InitSizes='{0, 1, 2, 3}', NSectors=3, MaxIdxLen=3, MaxNum=2, PF='{"ok"}', CF='{"ok", "badsig"}'))
emit('Host_roots_dev_alias.cfg','''C09 self-test: the implementation-shaped free (in-place swap before the renter signs, known finding
C09-free-sectors-alias) must violate RootsMatchRevision / AbortIsNoop''',dict(DevFreeAlias='TRUE'))
emit('Host_roots_edges_quick.cfg','''C09 Leg R export (quick): Setup(n) for n in 0..4, then ONE exchange: every index list x every abort point''',
  dict(Edges='TRUE', PF='{"ok", "expired"}', CF='{"ok"}', MaxNum=99), edges=True)
emit('Host_roots_edges_thorough.cfg','''C09 Leg R export (thorough): Setup(n) for n in 0..5, then ONE exchange: every index list (length <= 5
over 0..n) x every abort point''',
  dict(Edges='TRUE', InitSizes='{0, 1, 2, 3, 4, 5}', NSectors=5, MaxIdxLen=5, PF='{"ok"}', CF='{"ok", "badsig"}', MaxNum=99), edges=True)
lemma=dict(Family='"none"', InitSizes='{0}', NSectors=0, Allowance=10, Collateral=10, MaxNum=0, PF='{"ok"}', CF='{"ok"}', SF='{"ok"}', MaxExchanges=0)
emit('Host_roots_lemma.cfg','''C09 list-model lemma: for index lists sorted descending without duplicates (what the client API sends)
the server's in-place procedure equals swap-remove-from-the-end and frees exactly the requested sectors; 0..6 sectors''',
  dict(lemma, MaxIdxLen=6), inv='ListModelLemma', prop='')
emit('Host_roots_lemma_neg.cfg','''C09 self-test: the list-model lemma is NOT true for unsorted index lists (must fail)''',
  dict(lemma, MaxIdxLen=4), inv='ListModelAnyOrder', prop='')

# ---------------- trace validation (all families)
def emit_trace(name, comment, over):
    c=dict(BASE); c.update(over)
    keys=['Sessions','Accounts','Pools','PFree','PStorB','PIngr','PCollB','PRoots','PEgr','PWstor','PIngr4k','PVerify','RenewDist','RefreshDist','DevFreeAlias','DevReplDup']
    lines=['\\* '+l for l in comment.strip().split('\n')]
    lines+=['SPECIFICATION TraceSpec','CONSTANTS']+['  %s = %s'%(k,c[k]) for k in keys]
    lines+=['CONSTRAINT HWM','INVARIANTS RootsMatchRevision DoublySigned NonNegative AttachedExist SolventContract','POSTCONDITION TraceAccepted','CHECK_DEADLOCK FALSE']
    open(os.path.join(OUT,name),'w').write('\n'.join(lines)+'\n')
TR=dict(RenewDist=8, RefreshDist=19, Sessions='{1, 2, 3, 4}', Accounts='{"a1", "a2", "a3"}', Pools='{"p1", "p2"}')
emit_trace('HostTrace.cfg','''Leg T of C09 / C15 / C08: every event recorded from the real host must be a Host action with the logged
arguments, reply, calls and post-state (unit prices are those of harness/hostx DefaultPrices)''',TR)

# ---------------- C15 accounts
ACC=dict(Family='"accounts"', Accounts='{"a1", "a2"}', Pools='{"p1", "p2"}', InitSizes='{1}', NSectors=1,
         PEgr=2, PVerify=3, PWstor=3, PIngr4k=1, Allowance=7, Collateral=20, MaxNum=2, Amts='{1, 2, 3}',
         TF='{"ok", "expired"}', PF='{"ok", "expired"}', SF='{"ok", "bad"}', CF='{"ok", "badsig"}')
ACCTXT='''small model prices (read 2 / 4, verify 3, write 4), deposits and targets 1..3 (balances at, below and
above every cost), allowance 7 (a third deposit cannot be paid), every fund / replenish / attach / detach / read / write /
verify / balance request with corrupted fields and aborts; complete reachable state space up to 2 commits'''
emit('Host_accounts_quick.cfg','C15 quick (Leg M): 2 accounts, 1 pool, '+ACCTXT,dict(ACC, Pools='{"p1"}'), prop=ACCT_PROP)
emit('Host_accounts_quick2.cfg','C15 quick (Leg M): 1 account, 2 pools (attachment order), '+ACCTXT,dict(ACC, Accounts='{"a1"}'), prop=ACCT_PROP)
emit('Host_accounts_full.cfg','C15 thorough (Leg M): 2 accounts, 2 pools, '+ACCTXT,ACC, prop=ACCT_PROP)
emit('Host_accounts_thorough.cfg','''C15 thorough (Leg M): as quick with all corruption classes and up to 3 commits (deposits / targets 1 and 3)''',
     dict(ACC, MaxNum=3, Amts='{1, 3}', Allowance=6, TF='{"ok", "expired", "wronghost", "badsig"}', PF='{"ok", "expired", "foreign", "tampered"}',
          SF='{"ok", "bad", "other", "replay"}', CF='{"ok", "badsig", "stale"}'), prop=ACCT_PROP)
emit('Host_accounts_dev_dup.cfg','''C15 self-test: the implementation-shaped replenish (a deposit per LISTED account, known finding
C15-replenish-duplicates) must violate ReplenishToTarget''',dict(ACC, DevReplDup='TRUE'), prop=ACCT_PROP)
EACC=dict(Family='"accounts"', Accounts='{"a1", "a2"}', Pools='{"p1", "p2"}', InitSizes='{1}', NSectors=1, Edges='TRUE', MaxNum=99,
          Allowance=2000000, Collateral=3000000, Amts='{1, 1024}',
          TF='{"ok", "expired", "wronghost", "badsig"}', PF='{"ok", "expired", "foreign", "tampered"}',
          SF='{"ok", "bad", "other", "replay"}', CF='{"ok", "badsig", "stale"}')
emit('Host_accounts_edges.cfg','''C15 Leg R export: Setup installs one of the catalogue ledger states (own balance / attached pools at, just below
and just above the cost of verify and write, pools in both attachment orders, funded but unattached pools), then
ONE exchange of every kind with every corruption class, real unit prices''',EACC, edges=True)

# ---------------- C08 revisions
REV=dict(Family='"revisions"', Sessions='{1, 2}', Accounts='{"a1"}', Pools='{"p1"}', InitSizes='{2}', NSectors=2,
         PFree=1, PStorB=1, PIngr=1, PCollB=1, Dur=2, PRoots=1, Allowance=4, Collateral=5, MaxNum=2, Amts='{1, 2}',
         PF='{"ok", "expired", "foreign", "tampered"}', CF='{"ok", "badsig", "stale"}', SF='{"ok", "bad", "other", "replay"}',
         RenewKinds='{"renew", "refresh", "refreshpartial"}')
REV_INV=ROOTS_INV
emit('Host_revisions_quick.cfg','''C08 quick (Leg M): one contract of 2 sectors, TWO renter sessions interleaved at every stream read / write,
every revising RPC (free, append, sector roots, fund, replenish accounts / pools, renew, refresh) and latest-revision,
each with every corruption class of every checked field, allowance 4 / collateral 5 with small model prices so that
payments run out; complete reachable state space up to 2 commits''',REV, prop=REV_PROP)
emit('Host_revisions_thorough.cfg','''C08 thorough (Leg M): as quick with up to 3 commits (allowance 6)''',
     dict(REV, MaxNum=3, Allowance=6), prop=REV_PROP)
emit('Host_revisions_thorough3.cfg','''C08 thorough (Leg M): THREE renter sessions interleaved, up to 2 commits, one corruption class per field''',
     dict(REV, Sessions='{1, 2, 3}', MaxNum=2, PF='{"ok", "expired"}', CF='{"ok", "stale"}', SF='{"ok", "other"}', RenewKinds='{"renew"}', Amts='{1}'), prop=REV_PROP)
EREV=dict(Family='"revisions"', Sessions='{1, 2}', Accounts='{"a1"}', Pools='{"p1"}', InitSizes='{2}', NSectors=2, Edges='TRUE', MaxNum=99,
          MaxExchanges=2, TipChoices='{0, 1, 2, 3}', Allowance=600000, Collateral=1100000, Amts='{1, 600001}',
          PF='{"ok", "expired", "foreign", "tampered"}', CF='{"ok", "badsig", "stale"}', SF='{"ok", "bad", "other", "replay"}',
          RenewKinds='{"renew", "refresh", "refreshpartial"}')
emit('Host_revisions_edges.cfg','''C08 Leg R export: a contract of 2 sectors with real unit prices (allowance 600000 units: two appended sectors
or a deposit of 600001 cannot be paid); renter 1 sends every revising RPC x every corruption class of every checked
field and may hang up at every round, renter 2 races it with honest requests at every interleaving point''',EREV, edges=True)
