package hostx

import (
	"math/big"

	"go.sia.tech/core/types"
)

// Amounts near the top of the 128-bit Currency range, for the "amount overflow" corruption
// classes of every RPC that sums renter-supplied amounts (fund accounts: the deposits;
// replenish: target x number of accounts).
var (
	two128    = new(big.Int).Lsh(big.NewInt(1), 128)
	cur2p127  = types.NewCurrency(0, 1<<63)
	cur2p100  = types.NewCurrency(0, 1<<36)
	ovfValues = []types.Currency{types.MaxCurrency, types.MaxCurrency.Sub(types.NewCurrency64(1)), cur2p127, types.NewCurrency64(2), types.NewCurrency64(1)}
)

func curBig(c types.Currency) *big.Int {
	b := new(big.Int).SetUint64(c.Hi)
	b.Lsh(b, 64)
	return b.Add(b, new(big.Int).SetUint64(c.Lo))
}

func bigCur(b *big.Int) types.Currency {
	lo := new(big.Int).And(b, new(big.Int).SetUint64(^uint64(0)))
	hi := new(big.Int).Rsh(b, 64)
	return types.NewCurrency(lo.Uint64(), hi.Uint64())
}

// classifyAmounts sums the amounts the way 128-bit wrapping arithmetic does and returns the
// class of the list and the wrapped total:
//
//	"ovfLast" the last addition overflows, "ovfMid" an earlier partial sum overflows but the last
//	addition does not, "tooBig" no overflow but more than `payable`, "small" none of these.
func classifyAmounts(amts []types.Currency, payable types.Currency) (class string, wrapped types.Currency) {
	sum := new(big.Int)
	mid, last := false, false
	for i, a := range amts {
		sum.Add(sum, curBig(a))
		ovf := sum.Cmp(two128) >= 0
		if ovf {
			sum.Sub(sum, two128)
		}
		if i == len(amts)-1 {
			last = ovf
		} else if ovf {
			mid = true
		}
	}
	wrapped = bigCur(sum)
	switch {
	case last:
		return "ovfLast", wrapped
	case mid:
		return "ovfMid", wrapped
	case wrapped.Cmp(payable) > 0:
		return "tooBig", wrapped
	}
	return "small", wrapped
}

// representative amounts of a class (Leg R replays one list per class; the exhaustive
// enumeration of all lists is the `overflow` driver of Leg T).
func representativeAmounts(class string) []types.Currency {
	one, two := types.NewCurrency64(1), types.NewCurrency64(2)
	switch class {
	case "ovfLast":
		return []types.Currency{types.NewCurrency64(1), types.MaxCurrency}
	case "ovfMid":
		return []types.Currency{types.MaxCurrency, two, one}
	case "tooBig":
		return []types.Currency{cur2p127, one}
	}
	panic("unknown amount class " + class)
}

// allOverflowLists enumerates every list of length 2..maxLen over ovfValues.
func allOverflowLists(maxLen int) [][]types.Currency {
	var out [][]types.Currency
	var gen func(cur []types.Currency)
	gen = func(cur []types.Currency) {
		if len(cur) >= 2 {
			out = append(out, append([]types.Currency(nil), cur...))
		}
		if len(cur) == maxLen {
			return
		}
		for _, v := range ovfValues {
			gen(append(cur, v))
		}
	}
	gen(nil)
	return out
}

// replenishOverflow returns (target, number of distinct fresh accounts) for a class.
func replenishOverflow(class string) (types.Currency, int) {
	switch class {
	case "ovfLast":
		return types.MaxCurrency, 2
	case "ovfMid": // d1 + d2 wraps to about 2^101, adding d3 does not overflow again
		return cur2p127.Add(cur2p100), 3
	}
	panic("unknown amount class " + class)
}
