package hostx

import (
	"context"
	"fmt"
	"sync"
	"time"

	"go.sia.tech/core/consensus"
	proto4 "go.sia.tech/core/rhp/v4"
	"go.sia.tech/core/types"
	"go.sia.tech/coreutils"
	"go.sia.tech/coreutils/chain"
	rhp4 "go.sia.tech/coreutils/rhp/v4"
	"go.sia.tech/coreutils/testutil"
	"go.sia.tech/coreutils/wallet"
	"go.uber.org/zap"
	"verifharness/memnet"
)

// Unit is the scale of every monetary amount shown to TLC (TLC integers are 32 bit).  All prices
// are chosen so that every cost is a multiple of Unit; Scale reports exactness.
const Unit = 4096

// Scale converts an amount to units; exact is false if the amount is not a multiple of Unit or
// does not fit 31 bits (the spec then rejects the event: it requires exact = TRUE).
func Scale(c types.Currency) (n int64, exact bool) {
	q, r := c.Div64(Unit), c.Sub(c.Div64(Unit).Mul64(Unit))
	if q.Cmp(types.NewCurrency64(1<<31-1)) > 0 {
		return 1<<31 - 1, false
	}
	return int64(q.Lo), r.IsZero()
}

// Units returns n units as a currency.
func Units(n uint64) types.Currency { return types.NewCurrency64(n).Mul64(Unit) }

// Dur is the contract duration (expiration height - price table tip height) every harness
// contract has when it is used, so that the per-sector append price is a constant.
const Dur = 164

// DefaultPrices: with Unit = 4096 H the unit prices are
//
//	free sector 3, 4 KiB of egress 1, 4 KiB of ingress 2, temp storage of a written sector 1024*432*1/... (see UnitPrices)
func DefaultPrices() proto4.HostPrices {
	return proto4.HostPrices{
		ContractPrice:   Units(5),
		StoragePrice:    types.NewCurrency64(1), // H / byte / block
		IngressPrice:    types.NewCurrency64(2), // H / byte
		EgressPrice:     types.NewCurrency64(1), // H / byte
		Collateral:      types.NewCurrency64(2), // H / byte / block
		FreeSectorPrice: Units(3),
	}
}

// UnitPrices are the scaled prices the specification works with, computed with core's
// HostPrices.RPC*Cost (trusted) for this harness' fixed duration.
type UnitPrices struct {
	Free   int64 `json:"free"`   // per freed sector
	StorB  int64 `json:"storb"`  // storage of one appended sector (growth) per block of remaining duration
	Ingr   int64 `json:"ingr"`   // ingress of an append batch with growth 1..128
	CollB  int64 `json:"collb"`  // risked collateral of one appended sector (growth) per block
	Roots  int64 `json:"roots"`  // sector roots RPC for 1..128 roots
	Egr4k  int64 `json:"egr4k"`  // read of up to 4 KiB
	Wstor  int64 `json:"wstor"`  // temp storage part of a write
	Ingr4k int64 `json:"ingr4k"` // ingress of up to 4 KiB written
	Verify int64 `json:"verify"` // verify sector
}

func mustScale(c types.Currency) int64 {
	n, ok := Scale(c)
	if !ok {
		panic(fmt.Sprintf("price %v is not a multiple of the unit", c))
	}
	return n
}

func ComputeUnitPrices(p proto4.HostPrices) UnitPrices {
	a := p.RPCAppendSectorsCost(1, 1)
	w := p.RPCWriteSectorCost(4096)
	return UnitPrices{
		Free:   mustScale(p.RPCFreeSectorsCost(1).RenterCost()),
		StorB:  mustScale(a.Storage),
		Ingr:   mustScale(a.Ingress),
		CollB:  mustScale(a.RiskedCollateral),
		Roots:  mustScale(p.RPCSectorRootsCost(1).RenterCost()),
		Egr4k:  mustScale(p.RPCReadSectorCost(4096).RenterCost()),
		Wstor:  mustScale(w.Storage),
		Ingr4k: mustScale(w.Ingress),
		Verify: mustScale(p.RPCVerifySectorCost().RenterCost()),
	}
}

// Env is one real host (chain manager, wallet, reference contractor / sector store / settings
// behind recording wrappers, rhp4.Server) connected to the renter side through memnet.
type Env struct {
	Network *consensus.Network
	CM      *chain.Manager
	W       *wallet.SingleAddressWallet
	WS      *testutil.EphemeralWalletStore
	HostKey types.PrivateKey
	SR      *testutil.EphemeralSettingsReporter
	SS      *testutil.EphemeralSectorStore
	EC      *testutil.EphemeralContractor
	Log     *Log
	C       *RecContractor
	S       *RecSectors
	Server  *rhp4.Server
	Net     *memnet.Net
	Prices  proto4.HostPrices // host-signed, fetched with RPCSettings
	Base    proto4.HostPrices // unsigned settings prices
	UP      UnitPrices

	Stub       *stubContractor
	renterKeys map[types.PublicKey]types.PrivateKey

	stopReorg func()
	reorgCh   chan struct{}
	wg        sync.WaitGroup
	closed    bool
	keyN      int
	seed      int64
}

// Key returns a deterministic private key for this environment.
func (e *Env) Key(role string) types.PrivateKey {
	e.keyN++
	h := types.HashBytes([]byte(fmt.Sprintf("hostx/%d/%s/%d", e.seed, role, e.keyN)))
	return types.NewPrivateKeyFromSeed(h[:])
}

func seedKey(seed int64, role string) types.PrivateKey {
	h := types.HashBytes([]byte(fmt.Sprintf("hostx/%d/%s", seed, role)))
	return types.NewPrivateKeyFromSeed(h[:])
}

// NewEnv stands up a host the way rhp/v4/rpc_test.go does, but over memnet instead of sockets.
func NewEnv(seed int64, prices proto4.HostPrices) (*Env, error) { return NewEnvStub(seed, prices, "") }

// NewEnvStub is NewEnv with a deliberately wrong contractor in front of the reference one
// (self-tests only; stub == "" is the plain environment).
func NewEnvStub(seed int64, prices proto4.HostPrices, stub string) (*Env, error) {
	n, genesis := testutil.V2Network()
	db, tipstate, err := chain.NewDBStore(chain.NewMemDB(), n, genesis, nil)
	if err != nil {
		return nil, err
	}
	cm := chain.NewManager(db, tipstate)
	ws := testutil.NewEphemeralWalletStore()
	w, err := wallet.NewSingleAddressWallet(seedKey(seed, "wallet"), cm, ws, &testutil.MockSyncer{})
	if err != nil {
		return nil, err
	}
	e := &Env{Network: n, CM: cm, W: w, WS: ws, HostKey: seedKey(seed, "host"), seed: seed, Base: prices}
	e.reorgCh = make(chan struct{}, 1)
	e.wg.Add(1)
	go func() {
		defer e.wg.Done()
		for range e.reorgCh {
			e.syncWallet()
		}
	}()
	e.stopReorg = cm.OnReorg(func(types.ChainIndex) {
		select {
		case e.reorgCh <- struct{}{}:
		default:
		}
	})
	e.SR = testutil.NewEphemeralSettingsReporter()
	e.SR.Update(proto4.HostSettings{
		Release:             "verif",
		AcceptingContracts:  true,
		WalletAddress:       w.Address(),
		MaxCollateral:       types.Siacoins(10000),
		MaxContractDuration: 1000,
		RemainingStorage:    1000 * proto4.SectorSize,
		TotalStorage:        1000 * proto4.SectorSize,
		Prices:              prices,
	})
	e.SS = testutil.NewEphemeralSectorStore()
	e.EC = testutil.NewEphemeralContractor(cm)
	e.Log = &Log{}
	var inner rhp4.Contractor = e.EC
	if stub != "" {
		e.renterKeys = map[types.PublicKey]types.PrivateKey{}
		e.Stub = &stubContractor{Contractor: e.EC, kind: stub, prevRoots: map[types.FileContractID][]types.Hash256{}, hostKey: e.HostKey,
			renterKey: func(pk types.PublicKey) (types.PrivateKey, bool) { k, ok := e.renterKeys[pk]; return k, ok },
			sigHash:   func(fc types.V2FileContract) types.Hash256 { return cm.TipState().ContractSigHash(fc) }}
		inner = e.Stub
	}
	e.C = NewRecContractor(inner, e.Log)
	e.S = NewRecSectors(e.SS, e.Log)
	e.Server = rhp4.NewServer(e.HostKey, cm, e.C, w, e.SR, e.S, rhp4.WithPriceTableValidity(2*time.Hour))
	e.Net = memnet.New(e.HostKey.PublicKey())
	go e.Server.Serve(e.Net, zap.NewNop())
	if err := e.Mine(w.Address(), int(n.MaturityDelay)+20); err != nil {
		return nil, err
	}
	if err := e.RefreshPrices(); err != nil {
		return nil, err
	}
	e.UP = ComputeUnitPrices(e.Prices)
	return e, nil
}

func (e *Env) syncWallet() {
	for {
		tip, err := e.WS.Tip()
		if err != nil {
			return
		}
		reverted, applied, err := e.CM.UpdatesSince(tip, 1000)
		if err != nil || (len(reverted) == 0 && len(applied) == 0) {
			return
		}
		e.WS.UpdateChainState(func(tx wallet.UpdateTx) error {
			return e.W.UpdateChainState(tx, reverted, applied)
		})
	}
}

// RefreshPrices fetches a freshly signed price table through the real RPCSettings.
func (e *Env) RefreshPrices() error {
	s, err := rhp4.RPCSettings(context.Background(), e.Net)
	if err != nil {
		return fmt.Errorf("settings: %w", err)
	}
	e.Net.WaitLastServerDone(10 * time.Second)
	e.Prices = s.Prices
	return nil
}

// Mine mines n blocks and waits until wallet store and contractor have caught up.
func (e *Env) Mine(addr types.Address, n int) error {
	for ; n > 0; n-- {
		b, ok := coreutils.MineBlock(e.CM, addr, 5*time.Second)
		if !ok {
			return fmt.Errorf("failed to mine block")
		} else if err := e.CM.AddBlocks([]types.Block{b}); err != nil {
			return err
		}
	}
	deadline := time.Now().Add(30 * time.Second)
	for {
		t1, _ := e.WS.Tip()
		t2, _ := e.EC.Tip()
		if t1 == e.CM.Tip() && t2 == e.CM.Tip() {
			return nil
		}
		if time.Now().After(deadline) {
			return fmt.Errorf("wallet/contractor did not reach tip %v (wallet %v contractor %v)", e.CM.Tip(), t1, t2)
		}
		time.Sleep(200 * time.Microsecond)
	}
}

func (e *Env) Close() {
	if e.closed {
		return
	}
	e.closed = true
	e.Net.Close()
	e.Server.Close()
	e.stopReorg()
	close(e.reorgCh)
	e.wg.Wait()
	e.EC.Close()
	e.W.Close()
}

// WaitDone waits for the host handler of the most recent stream to have fully returned (the
// reference contractor releases its try-lock in a deferred call after the last response).
func (e *Env) WaitDone() bool { return e.Net.WaitLastServerDone(30 * time.Second) }

type signer struct {
	w  *wallet.SingleAddressWallet
	pk types.PrivateKey
}

func (fs *signer) FundV2Transaction(txn *types.V2Transaction, amount types.Currency) (types.ChainIndex, []int, error) {
	return fs.w.FundV2Transaction(txn, amount, true)
}
func (fs *signer) RecommendedFee() types.Currency           { return fs.w.RecommendedFee() }
func (fs *signer) ReleaseInputs(txns []types.V2Transaction) { fs.w.ReleaseInputs(nil, txns) }
func (fs *signer) SignV2Inputs(txn *types.V2Transaction, toSign []int) {
	fs.w.SignV2Inputs(txn, toSign)
}
func (fs *signer) SignHash(h types.Hash256) types.Signature { return fs.pk.SignHash(h) }
func (fs *signer) PublicKey() types.PublicKey               { return fs.pk.PublicKey() }
func (fs *signer) Address() types.Address                   { return fs.w.Address() }

// Signer returns a FormContractSigner for the renter key (funded from the node's wallet, as the
// repository's tests do).
func (e *Env) Signer(renter types.PrivateKey) rhp4.FormContractSigner { return &signer{e.W, renter} }

// A Contract is a harness-side handle on a formed contract.
type Contract struct {
	ID        types.FileContractID
	RenterKey types.PrivateKey
	Rev       types.V2FileContract // last revision known to the (honest) renter
	Formed    types.V2FileContract
}

func (c *Contract) CR() rhp4.ContractRevision {
	return rhp4.ContractRevision{ID: c.ID, Revision: c.Rev}
}

// Form forms and confirms a contract with the given allowance / collateral (currency) through the
// real RPCFormContract, with Dur blocks of duration relative to the refreshed price table.
func (e *Env) Form(renter types.PrivateKey, allowance, collateral types.Currency) (*Contract, error) {
	if e.renterKeys != nil {
		e.renterKeys[renter.PublicKey()] = renter
	}
	if err := e.RefreshPrices(); err != nil {
		return nil, err
	}
	// after confirmation (1 block) the price table tip is h0+1; expiration = proof + 144
	proofHeight := e.Prices.TipHeight + 1 + Dur - proto4.ProofWindow
	res, err := rhp4.RPCFormContract(context.Background(), e.Net, e.CM, e.Signer(renter), e.CM.TipState(), e.Prices, e.HostKey.PublicKey(), e.W.Address(), proto4.RPCFormContractParams{
		RenterPublicKey: renter.PublicKey(),
		RenterAddress:   e.W.Address(),
		Allowance:       allowance,
		Collateral:      collateral,
		ProofHeight:     proofHeight,
	})
	if err != nil {
		return nil, fmt.Errorf("form: %w", err)
	}
	e.WaitDone()
	if err := e.Mine(types.VoidAddress, 1); err != nil {
		return nil, err
	}
	if err := e.RefreshPrices(); err != nil {
		return nil, err
	}
	if d := res.Contract.Revision.ExpirationHeight - e.Prices.TipHeight; d != Dur {
		return nil, fmt.Errorf("unexpected duration %d", d)
	}
	return &Contract{ID: res.Contract.ID, RenterKey: renter, Rev: res.Contract.Revision, Formed: res.Contract.Revision}, nil
}

// State reads the contractor's state for a contract through LockV2Contract (the observation point
// named by the property) and releases the lock at once.  Roots are copied.
func (e *Env) State(id types.FileContractID) (rhp4.RevisionState, error) {
	var rs rhp4.RevisionState
	var unlock func()
	var err error
	for i := 0; i < 30000; i++ { // up to ~3 s: a handler that has been told to stop releases the lock at once
		rs, unlock, err = e.EC.LockV2Contract(id)
		if err == nil {
			break
		}
		time.Sleep(100 * time.Microsecond)
	}
	if err != nil {
		return rs, err
	}
	rs.Roots = cloneRoots(rs.Roots)
	unlock()
	return rs, nil
}
