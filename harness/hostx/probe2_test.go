package hostx

import (
	"context"
	"testing"

	proto4 "go.sia.tech/core/rhp/v4"
	rhp4 "go.sia.tech/coreutils/rhp/v4"
)

func TestProbeDup(t *testing.T) {
	e, err := NewEnv(1, DefaultPrices())
	if err != nil {
		t.Fatal(err)
	}
	defer e.Close()
	rk := e.Key("renter")
	c, err := e.Form(rk, Units(1000), Units(2000))
	if err != nil {
		t.Fatal(err)
	}
	a := proto4.Account(e.Key("a").PublicKey())
	res, err := rhp4.RPCReplenishAccounts(context.Background(), e.Net, rhp4.RPCReplenishAccountsParams{Accounts: []proto4.Account{a, a}, Target: Units(10), Contract: c.CR()}, e.CM.TipState(), rk)
	e.WaitDone()
	t.Logf("res=%+v err=%v", res.Deposits, err)
	b, _ := e.EC.AccountBalance(a)
	t.Logf("balance %v target %v", b, Units(10))
}
