package hostx

import (
	"testing"

	"verifharness/hx"
)

// TestOracles checks that the concrete oracles of the harness are not vacuous: the consensus
// oracle accepts a genuine committed revision and rejects one whose payout sum was altered, and
// the signature oracle rejects a revision altered after signing.
func TestOracles(t *testing.T) {
	res := hx.NewResult()
	defer res.Write()
	e, err := NewEnv(1, DefaultPrices())
	if err != nil {
		t.Fatal(err)
	}
	defer e.Close()
	k, err := e.Form(e.Key("r"), Units(600000), Units(1100000))
	if err != nil {
		t.Fatal(err)
	}
	ad := NewAdapter(e, k)
	if err := ad.Reset([]int{1, 2}, 2); err != nil {
		t.Fatal(err)
	}
	st, _ := e.State(k.ID)
	if err := ConsensusAccepts(e, k.ID, st.Revision); err != nil {
		t.Fatalf("genuine revision rejected: %v", err)
	}
	if !SigsOK(st.Revision) {
		t.Fatal("genuine revision: signatures do not verify")
	}
	bad := st.Revision
	bad.RenterOutput.Value = bad.RenterOutput.Value.Add(Units(1))
	if SigsOK(bad) {
		t.Fatal("altered revision still verifies")
	}
	h := e.CM.TipState().ContractSigHash(bad)
	bad.RenterSignature, bad.HostSignature = k.RenterKey.SignHash(h), e.HostKey.SignHash(h)
	if err := ConsensusAccepts(e, k.ID, bad); err == nil {
		t.Fatal("consensus oracle accepts a revision that changes the payout sum")
	}
	stale := st.Revision
	stale.RevisionNumber = 0
	h = e.CM.TipState().ContractSigHash(stale)
	stale.RenterSignature, stale.HostSignature = k.RenterKey.SignHash(h), e.HostKey.SignHash(h)
	if err := ConsensusAccepts(e, k.ID, stale); err == nil {
		t.Fatal("consensus oracle accepts a revision that does not raise the revision number")
	}
}
