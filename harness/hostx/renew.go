package hostx

import (
	"context"
	"fmt"
	"net"
	"time"

	proto4 "go.sia.tech/core/rhp/v4"
	"go.sia.tech/core/types"
	rhp4 "go.sia.tech/coreutils/rhp/v4"
)

// Renew / refresh exchanges are driven by the REAL client function (rpc.go) in a goroutine, with
// a memnet Proxy on its stream that understands the messages: it holds every message until the
// stepping thread releases it, mutates the fields named by the corruption class, or cuts the
// stream (DESIGN 3.4).

type renewResult struct {
	contract rhp4.ContractRevision
	err      error
}

type renewSession struct {
	kind    string
	act     Act
	cmd     chan string // stepping thread -> proxy
	ev      chan string // proxy -> stepping thread
	res     chan renewResult
	aborted bool
	got     bool
	newID   types.FileContractID
}

func (r *renewSession) abort() {
	if !r.aborted {
		r.aborted = true
		close(r.cmd)
	}
}

func relay(dst net.Conn, o proto4.Object, asRequest bool, id types.Specifier) chan error {
	ch := make(chan error, 1)
	go func() {
		if asRequest {
			ch <- proto4.WriteRequest(dst, id, o)
		} else {
			ch <- proto4.WriteResponse(dst, o)
		}
	}()
	return ch
}

func (a *Adapter) beginRenew(act Act) error {
	ex := a.current()
	rs := &renewSession{kind: act.Kind, act: act, cmd: make(chan string, 4), ev: make(chan string, 8), res: make(chan renewResult, 1)}
	started := make(chan int, 1)
	a.E.Net.SetProxy(func(no int, client, server net.Conn) {
		started <- no
		a.renewProxy(rs, ex, client, server)
	})
	cs := a.E.CM.TipState()
	signer := a.E.Signer(a.K.RenterKey)
	allowance, collateral := Units(1000), Units(2000)
	if act.NA > 0 {
		allowance, collateral = Units(uint64(act.NA)), Units(uint64(act.NC))
	}
	oldID := a.K.ID
	// the client signs with the price table it was given; the proxy substitutes the table of the
	// corruption class in the request it forwards
	go func() {
		ctx, cancel := context.WithTimeout(context.Background(), 60*time.Second)
		defer cancel()
		var res renewResult
		switch act.Kind {
		case "renew":
			p := proto4.RPCRenewContractParams{ContractID: oldID, Allowance: allowance, Collateral: collateral, ProofHeight: ex.ProofHeight + 10}
			if act.Rf == "bad" {
				p.ProofHeight = ex.ProofHeight // not greater than the existing proof height
			}
			r, err := rhp4.RPCRenewContract(ctx, a.E.Net, a.E.CM, signer, cs, a.E.Prices, a.E.W.Address(), ex, p)
			res = renewResult{r.Contract, err}
		default:
			p := proto4.RPCRefreshContractParams{ContractID: oldID, Allowance: allowance, Collateral: collateral}
			if act.Rf == "bad" {
				p.Allowance = types.ZeroCurrency
			}
			var r rhp4.RPCRefreshContractResult
			var err error
			if act.Kind == "refreshpartial" {
				r, err = rhp4.RPCRefreshContractPartialRollover(ctx, a.E.Net, a.E.CM, signer, cs, a.E.Prices, a.E.W.Address(), ex, p)
			} else {
				r, err = rhp4.RPCRefreshContractFullRollover(ctx, a.E.Net, a.E.CM, signer, cs, a.E.Prices, a.E.W.Address(), ex, p)
			}
			res = renewResult{r.Contract, err}
		}
		rs.res <- res
	}()
	s := &rsession{rpc: "renew", renew: rs, existing: ex}
	select {
	case s.no = <-started:
	case r := <-rs.res:
		a.E.Net.SetProxy(nil)
		return fmt.Errorf("renew client failed before dialing: %v", r.err)
	case <-time.After(30 * time.Second):
		a.E.Net.SetProxy(nil)
		return fmt.Errorf("renew client did not dial")
	}
	a.E.Net.SetProxy(nil)
	a.open[act.S] = s
	// wait until the host has started to answer (or hung up)
	select {
	case <-rs.ev:
	case <-time.After(30 * time.Second):
		return fmt.Errorf("renew: host did not answer the request")
	}
	return nil
}

// renewProxy relays one renew / refresh exchange message by message.
func (a *Adapter) renewProxy(rs *renewSession, ex types.V2FileContract, client, server net.Conn) {
	defer client.Close()
	defer server.Close()
	act := rs.act
	sbr := &peekReader{c: server}
	id, err := proto4.ReadID(client)
	if err != nil {
		rs.ev <- "begun"
		return
	}
	// --- request
	var w chan error
	mutateChallenge := func(hash func(uint64) types.Hash256) types.Signature {
		stale := ex.RevisionNumber + 1
		if ex.RevisionNumber > 0 {
			stale = ex.RevisionNumber - 1
		}
		return a.challenge(act.Cf, hash, ex.RevisionNumber, stale)
	}
	if act.Kind == "renew" {
		var req proto4.RPCRenewContractRequest
		if err := proto4.ReadRequest(client, &req); err != nil {
			rs.ev <- "begun"
			return
		}
		req.Prices = a.prices(act.Pf)
		if act.Cf != "ok" {
			req.ChallengeSignature = mutateChallenge(req.ChallengeSigHash)
		}
		if act.Rf == "poolbad" && len(req.RenterInputs) > 0 { // an input that does not exist (same value)
			req.RenterInputs[0].ID[5] ^= 0x21
		}
		w = relay(server, &req, true, id)
	} else {
		var req proto4.RPCRefreshContractRequest
		if err := proto4.ReadRequest(client, &req); err != nil {
			rs.ev <- "begun"
			return
		}
		req.Prices = a.prices(act.Pf)
		if act.Cf != "ok" {
			req.ChallengeSignature = mutateChallenge(req.ChallengeSigHash)
		}
		if act.Rf == "poolbad" && len(req.RenterInputs) > 0 {
			req.RenterInputs[0].ID[5] ^= 0x21
		}
		w = relay(server, &req, true, id)
	}
	sbr.Peek()
	rs.ev <- "begun"
	defer func() { server.Close(); <-w }()
	// --- first response (host inputs) or error
	cmd, ok := <-rs.cmd
	if !ok {
		return
	}
	var first proto4.RPCRenewContractResponse // same wire shape as the refresh response
	if err := proto4.ReadResponse(sbr, &first); err != nil {
		if re, isRPC := err.(*proto4.RPCError); isRPC {
			proto4.WriteResponse(client, re)
		}
		rs.ev <- "rej:" + err.Error()
		return
	}
	if cmd == "finish" { // the spec expected a final (error) message but the host answered: report it
		rs.ev <- "resp"
		return
	}
	cw := relay(client, &first, false, id)
	defer func() { client.Close(); <-cw }()
	// --- the client's signatures
	var second proto4.RPCRenewContractSecondResponse // same wire shape as the refresh one
	if err := proto4.ReadResponse(client, &second); err != nil {
		rs.ev <- "rej:client: " + err.Error()
		return
	}
	rs.ev <- "resp"
	cmd, ok = <-rs.cmd
	if !ok {
		return
	}
	switch cmd {
	case "round2:ok":
	case "round2:bad":
		second.RenterRenewalSignature = corruptSig(second.RenterRenewalSignature)
	case "round2:other": // a valid renter signature, but over a different contract than the host built
		second.RenterContractSignature = a.K.RenterKey.SignHash(a.E.CM.TipState().ContractSigHash(ex))
	case "round2:badinput": // contract and renewal signatures are genuine; one renter INPUT signature is not
		done := false
		for i := range second.RenterSatisfiedPolicies {
			if sp := &second.RenterSatisfiedPolicies[i]; len(sp.Signatures) > 0 {
				sp.Signatures[0][9] ^= 0x10
				done = true
				break
			}
		}
		if !done {
			second.RenterSatisfiedPolicies = nil
		}
	case "round2:replay":
		second.RenterRenewalSignature = ex.RenterSignature
		second.RenterContractSignature = ex.RenterSignature
	default:
		return
	}
	w2 := relay(server, &second, false, id)
	sbr.Peek()
	rs.ev <- "sent2"
	defer func() { server.Close(); <-w2 }()
	// --- final response
	if _, ok = <-rs.cmd; !ok {
		return
	}
	var third proto4.RPCRenewContractThirdResponse
	if err := proto4.ReadResponse(sbr, &third); err != nil {
		if re, isRPC := err.(*proto4.RPCError); isRPC {
			proto4.WriteResponse(client, re)
		}
		rs.ev <- "rej:" + err.Error()
		return
	}
	cw3 := relay(client, &third, false, id)
	rs.ev <- "ok"
	<-cw3
}

func (a *Adapter) waitEv(rs *renewSession) (string, error) {
	select {
	case e := <-rs.ev:
		return e, nil
	case <-time.After(60 * time.Second):
		return "", fmt.Errorf("renew proxy did not report")
	}
}

func (a *Adapter) deliverRenew(s *rsession) (out Outcome, err error) {
	out.Reply = noneReply()
	s.renew.cmd <- "deliver"
	e, err := a.waitEv(s.renew)
	if err != nil {
		return out, err
	}
	if e == "resp" {
		s.delivered = true
		out.Reply = Reply{K: "resp", N: 0, L: []int64{}}
	} else {
		out.Reply, out.Why = rejReply(), e
	}
	return
}

func (a *Adapter) round2Renew(act Act) error {
	s := a.open[act.S]
	if s == nil || s.renew == nil {
		return fmt.Errorf("round2renew: no open renew session %d", act.S)
	}
	s.renew.cmd <- "round2:" + act.Sf
	e, err := a.waitEv(s.renew)
	if err != nil {
		return err
	}
	if e != "sent2" {
		return fmt.Errorf("round2renew: proxy reported %q", e)
	}
	return nil
}

func (a *Adapter) finishRenew(s *rsession) (out Outcome, err error) {
	out.Reply = rejReply()
	s.renew.cmd <- "finish"
	e, err := a.waitEv(s.renew)
	if err != nil {
		return out, err
	}
	switch {
	case e == "ok":
		out.Reply = okReply()
	case e == "resp":
		out.Reply = Reply{K: "resp", N: 0, L: []int64{}}
	default:
		out.Why = e
	}
	var res renewResult
	select {
	case res = <-s.renew.res:
		s.renew.got = true
	case <-time.After(60 * time.Second):
		return out, fmt.Errorf("renew client did not return")
	}
	s.renew.abort()
	if out.Reply.K == "ok" {
		if res.err != nil {
			a.Issues = append(a.Issues, "renew: host reported success but the client rejects the result: "+res.err.Error())
		} else {
			s.renew.newID = res.contract.ID
			a.E.Net.WaitServerDone(s.no, 30*time.Second)
			a.checkRenewed(res.contract)
		}
	}
	return out, nil
}

// checkRenewed: the new contract the host now holds is doubly signed, starts at revision 0 and
// carries over the roots.
func (a *Adapter) checkRenewed(nc rhp4.ContractRevision) {
	st, err := a.E.State(nc.ID)
	if err != nil {
		a.Issues = append(a.Issues, "renew: host does not hold the new contract: "+err.Error())
		return
	}
	if !SigsOK(st.Revision) {
		a.Issues = append(a.Issues, "renew: new contract is not signed by both parties")
	}
	if st.Revision.RevisionNumber != 0 {
		a.Issues = append(a.Issues, "renew: new contract does not start at revision 0")
	}
	if proto4.MetaRoot(st.Roots) != st.Revision.FileMerkleRoot || uint64(len(st.Roots))*proto4.SectorSize != st.Revision.Filesize {
		a.Issues = append(a.Issues, "renew: roots of the new contract do not match its revision")
	}
	old, err := a.E.State(a.K.ID)
	if err == nil && fmt.Sprint(old.Roots) != fmt.Sprint(st.Roots) {
		a.Issues = append(a.Issues, "renew: roots were not carried over")
	}
}

// maybeSwitch: if the host has called RenewV2Contract for the current contract (the renter may have
// hung up before reading the final message) the renewal is the contract from now on.
func (a *Adapter) maybeSwitch() {
	if a.switching {
		return
	}
	id := a.K.ID.V2RenewalID()
	a.E.C.mu.Lock()
	_, ok := a.E.C.latest[id]
	a.E.C.mu.Unlock()
	if !ok {
		return
	}
	st, err := a.E.State(id)
	if err != nil {
		return
	}
	a.switchTo(rhp4.ContractRevision{ID: id, Revision: st.Revision})
}

// switchTo: the renewal replaces the contract the adapter works on; the replaced contract is
// frozen (it must never change again) and a request that still names it must be refused.
func (a *Adapter) switchTo(nc rhp4.ContractRevision) {
	a.switching = true
	defer func() { a.switching = false }()
	old, err := a.E.State(a.K.ID)
	if err != nil {
		a.Issues = append(a.Issues, "renew: cannot read the replaced contract: "+err.Error())
		return
	}
	if !old.Renewed || old.Revisable {
		a.Issues = append(a.Issues, "renew: the replaced contract is not reported as renewed / still revisable")
	}
	oldK := a.K
	a.Olds = append(a.Olds, frozen{ID: a.K.ID, Rev: old.Revision, Roots: old.Roots})
	// every revising request that still names the replaced contract -- honestly signed over its
	// last revision -- must be refused, and must leave it exactly as it was frozen
	const probeSession = 99
	probes := []Act{
		{Op: "BeginFund", S: probeSession, Deps: []Dep{{A: "a1", N: 1}}, Sf: "ok"},
		{Op: "BeginRepl", S: probeSession, Kind: "accts", Accs: []string{"a1"}, Target: 1, Cf: "ok"},
		{Op: "BeginRepl", S: probeSession, Kind: "pools", Accs: []string{"p1"}, Target: 1, Cf: "ok"},
		{Op: "BeginRenew", S: probeSession, Kind: "renew", Pf: "ok", Cf: "ok", Rf: "ok"},
		{Op: "BeginRenew", S: probeSession, Kind: "refreshpartial", Pf: "ok", Cf: "ok", Rf: "ok"},
	}
	if n := len(old.Roots); n > 0 {
		id := a.ID(old.Roots[0])
		probes = append(probes,
			Act{Op: "BeginRoots", S: probeSession, Off: 0, Len: 1, Pf: "ok", Sf: "ok"},
			Act{Op: "BeginFree", S: probeSession, Idx: []int{0}, Pf: "ok", Cf: "ok"},
			Act{Op: "BeginAppend", S: probeSession, Secs: []int{id}, Pf: "ok", Cf: "ok"})
	}
	for _, p := range probes {
		if _, err := a.Step(p); err != nil {
			a.Issues = append(a.Issues, "renew: probe "+p.Op+": "+err.Error())
			continue
		}
		out, err := a.Step(Act{Op: "Next", S: probeSession})
		if err != nil || out.Op != "Finish" || out.Reply.K != "rej" {
			a.Issues = append(a.Issues, fmt.Sprintf("renew: the host did not refuse %s on the contract it has already renewed (%v %v)", p.Op, out.Reply, err))
		}
		if s := a.open[probeSession]; s != nil {
			s.close(a)
			delete(a.open, probeSession)
		}
	}
	a.LastRenewal = nil
	st, err := a.E.State(nc.ID)
	if err != nil {
		return
	}
	a.K = &Contract{ID: nc.ID, RenterKey: oldK.RenterKey, Rev: st.Revision, Formed: st.Revision}
	a.Base = st.Revision
	a.History, a.confirmed = nil, 0
	a.Switched = true
}
