package hostx

import (
	"fmt"
	"time"

	proto4 "go.sia.tech/core/rhp/v4"
	"go.sia.tech/core/types"
)

// The concurrent leg with a scheduler (C15, C08): renter A's RPC is parked at a chosen call of
// the server on the Contractor (before / after LockV2Contract, the balance lookup, the committing
// call), renter B's RPC on the SAME contract is run to completion meanwhile (on correct code it is
// served before A has locked, or refused "contract already locked"), then A is released.  RPC
// pairs x gate points are enumerated, not sampled.  Every history is handed to TLC as a
// linearization consistent with real-time order (A's request takes effect where it locks the
// contract: before or after B, as the recorder saw the LockV2Contract calls); if TLC cannot explain
// it the other order is tried; a history that no order explains is a violation.

type gatedRPC struct {
	name   string
	begin  Act
	round2 string
}

func gatedAs() []gatedRPC {
	return []gatedRPC{
		{"replA", Act{Op: "BeginRepl", Kind: "accts", Accs: []string{"a1"}, Target: 1000, Cf: "ok"}, "Round2Repl"},
		{"replP", Act{Op: "BeginRepl", Kind: "pools", Accs: []string{"p1"}, Target: 1000, Cf: "ok"}, "Round2Repl"},
		{"fund", Act{Op: "BeginFund", Deps: []Dep{{A: "a1", N: 300}}, Sf: "ok"}, ""},
		{"append", Act{Op: "BeginAppend", Secs: []int{3}, Pf: "ok", Cf: "ok"}, "Round2Append"},
		{"free", Act{Op: "BeginFree", Idx: []int{0}, Pf: "ok", Cf: "ok"}, "Round2Free"},
		{"roots", Act{Op: "BeginRoots", Off: 0, Len: 1, Pf: "ok", Sf: "ok"}, ""},
	}
}

func gatedBs() []gatedRPC {
	return []gatedRPC{
		{"fund", Act{Op: "BeginFund", Deps: []Dep{{A: "a1", N: 400}}, Sf: "ok"}, ""},
		{"replA", Act{Op: "BeginRepl", Kind: "accts", Accs: []string{"a1"}, Target: 700, Cf: "ok"}, "Round2Repl"},
		{"replP", Act{Op: "BeginRepl", Kind: "pools", Accs: []string{"p1"}, Target: 500, Cf: "ok"}, "Round2Repl"},
		{"free", Act{Op: "BeginFree", Idx: []int{1}, Pf: "ok", Cf: "ok"}, "Round2Free"},
		{"append", Act{Op: "BeginAppend", Secs: []int{4}, Pf: "ok", Cf: "ok"}, "Round2Append"},
	}
}

func gatePoints(a gatedRPC) []string {
	pts := []string{"pre:Lock", "post:Lock", "pre:Commit", "post:Commit"}
	if a.begin.Op == "BeginRepl" {
		pts = append(pts, "pre:Bal", "post:Bal")
	}
	return pts
}

// predict computes the revision B will leave behind if it runs first (the renter of A pipelines
// its request against it).
func (d *driver) predict(ad *Adapter, b gatedRPC) types.V2FileContract {
	st, _ := d.e.State(ad.K.ID)
	cur := st.Revision
	p := d.e.Prices
	var rev types.V2FileContract
	var err error
	switch b.begin.Op {
	case "BeginFund":
		rev, _, err = proto4.ReviseForFundAccounts(cur, Units(uint64(b.begin.Deps[0].N)))
	case "BeginRepl":
		rev, _, err = proto4.ReviseForReplenish(cur, Units(uint64(b.begin.Target))) // fresh accounts: balance 0
	case "BeginFree":
		roots := cloneRoots(st.Roots)
		i := b.begin.Idx[0]
		roots[i] = roots[len(roots)-1]
		roots = roots[:len(roots)-1]
		rev, _, err = proto4.ReviseForFreeSectors(cur, p, proto4.MetaRoot(roots), 1)
	case "BeginAppend":
		roots := append(cloneRoots(st.Roots), ad.Root(b.begin.Secs[0]))
		rev, _, err = proto4.ReviseForAppendSectors(cur, p, proto4.MetaRoot(roots), 1)
	}
	if err != nil {
		return cur
	}
	return rev
}

type stepRec struct {
	act Act
	out Outcome
}

// label marks A's request as stale if it was not built on the revision the host had when it
// locked the contract for it (the class the specification then refuses).
func label(a Act, fresh bool) Act {
	if fresh {
		return a
	}
	switch a.Op {
	case "BeginFund", "BeginRoots":
		a.Sf = "other" // a genuine signature, over another revision than the host computes
	default:
		a.Cf = "stale"
	}
	return a
}

func (d *driver) runGated(a, b gatedRPC, gate string, pipelined bool) {
	rk := d.e.Key("renter")
	k, err := d.e.Form(rk, Units(1000000000), Units(900000000))
	if err != nil {
		d.t.Fatalf("form: %v", err)
	}
	ad := NewAdapter(d.e, k)
	for _, id := range []int{1, 2, 3, 4} {
		ad.EnsureStored(id)
	}
	if err := ad.Reset([]int{1, 2}, 2); err != nil {
		d.t.Fatal(err)
	}
	d.nTrace++
	tag := fmt.Sprintf("gated/seed%d/%s@%s/%s/pipelined=%v", d.e.seed, a.name, gate, b.name, pipelined)
	tr := &tracer{tw: d.tw, e: d.e, ad: ad, res: d.res, tag: tag}
	d.tr = tr
	// the Reset event is written when the order is known; take the initial observation now
	init, _ := tr.observe()

	g := &Gate{}
	d.e.C.mu.Lock()
	d.e.C.Gate = g
	d.e.C.mu.Unlock()
	defer func() {
		g.Release()
		d.e.C.mu.Lock()
		d.e.C.Gate = nil
		d.e.C.mu.Unlock()
	}()

	aBegin, bBegin := a.begin, b.begin
	aBegin.S, bBegin.S = 1, 2
	st0, _ := d.e.State(k.ID)
	initRev := st0.Revision
	var assumed types.V2FileContract
	if pipelined {
		assumed = d.predict(ad, b)
		ad.AssumeRev = &assumed
	} else {
		st, _ := d.e.State(k.ID)
		assumed = st.Revision
	}
	// which step of A reaches the gate: the committing call of a two-round RPC happens in round 2
	inRound2 := a.round2 != "" && (gate == "pre:Commit" || gate == "post:Commit")
	var aSteps, bSteps []stepRec
	stepA := func(act Act) Outcome {
		out, err := ad.Step(act)
		if err != nil {
			panic(fmt.Sprintf("gated %s: %v", tag, err))
		}
		if act.Op == "Next" {
			act.Op = out.Op
		}
		aSteps = append(aSteps, stepRec{act, out})
		return out
	}
	runB := func() {
		ad.AssumeRev = nil
		out, err := ad.Step(bBegin)
		if err != nil {
			panic(fmt.Sprintf("gated %s: B: %v", tag, err))
		}
		bSteps = append(bSteps, stepRec{bBegin, out})
		for i := 0; i < 4 && ad.open[2] != nil; i++ {
			o, err := ad.Step(Act{Op: "Next", S: 2})
			if err != nil {
				panic(fmt.Sprintf("gated %s: B: %v", tag, err))
			}
			bSteps = append(bSteps, stepRec{Act{Op: o.Op, S: 2}, o})
			if o.Op == "Deliver" && b.round2 != "" {
				r2 := Act{Op: b.round2, S: 2, Sf: "ok"}
				o2, err := ad.Step(r2)
				if err != nil {
					panic(fmt.Sprintf("gated %s: B: %v", tag, err))
				}
				bSteps = append(bSteps, stepRec{r2, o2})
			}
		}
	}
	mark := d.e.Log.Mark()
	markB0, markB1 := mark, mark
	// the step of A that is parked runs in its own goroutine; B runs here meanwhile
	gatedStep := func(act Act) (parkedAt bool) {
		parked := g.Arm(gate)
		done := make(chan struct{})
		go func() { defer close(done); stepA(act) }()
		select {
		case <-parked:
			parkedAt = true
		case <-done: // A never reached the gate (not a call this request makes, or it was refused earlier)
		case <-time.After(5 * time.Second):
		}
		if parkedAt {
			markB0 = d.e.Log.Mark()
			runB()
			markB1 = d.e.Log.Mark()
		}
		g.Release()
		select {
		case <-done:
		case <-time.After(60 * time.Second):
			panic("gated " + tag + ": A did not finish after the gate was released")
		}
		return
	}
	parkedAt := false
	if !inRound2 {
		parkedAt = gatedStep(aBegin)
		ad.AssumeRev = nil
	} else {
		stepA(aBegin)
		ad.AssumeRev = nil
	}
	// the rest of A
	if ad.open[1] != nil {
		o := stepA(Act{Op: "Next", S: 1})
		if o.Op == "Deliver" && a.round2 != "" {
			r2 := Act{Op: a.round2, S: 1, Sf: "ok"}
			if inRound2 {
				parkedAt = gatedStep(r2)
			} else {
				stepA(r2)
			}
			if ad.open[1] != nil {
				stepA(Act{Op: "Next", S: 1})
			}
		}
	}
	ad.CloseAll()
	if !parkedAt {
		d.res.Count("gated_not_reached", 1)
		d.res.Note("gate not reached: %s", tag)
		return
	}
	d.res.Count("gated_histories", 1)
	// Where did A lock the contract: before B ran (it was parked holding the lock) or after?
	calls := d.e.Log.Since(mark)
	aFirst := false
	for i, c := range calls {
		if c.Comp == "C" && c.Op == "Lock" && c.OK && c.ContractID == k.ID && mark+i < markB0 {
			aFirst = true
		}
	}
	// the revision after B, if B committed
	afterB := initRev
	for i, c := range calls {
		if j := mark + i; j >= markB0 && j < markB1 && c.OK && c.Revision != nil && (c.Op == "Revise" || c.Op == "CreditAccounts" || c.Op == "CreditPools") {
			afterB = *c.Revision
		}
	}
	sameCore := func(x, y types.V2FileContract) bool {
		return x.RevisionNumber == y.RevisionNumber && x.RenterOutput.Value.Equals(y.RenterOutput.Value) && x.FileMerkleRoot == y.FileMerkleRoot && x.Filesize == y.Filesize
	}
	emit := func(order string) {
		tr.tag = tag + "/order=" + order
		tr.n, tr.hist, tr.bad = 0, nil, false
		tr.tw.Emit(map[string]any{"op": "Reset", "tag": tr.tag, "tipd": init.Tipd, "st": init, "up": d.e.UP, "stored": []int{1, 2, 3, 4}, "pex": []string{}, "att": init.Att})
		d.res.Traces++
		var seq []stepRec
		a0 := aSteps[0]
		at := afterB // the revision in force where A's request takes effect in this order
		if inRound2 || order == "AB" {
			at = initRev
		}
		a0.act = label(a0.act, sameCore(assumed, at))
		switch {
		case inRound2: // A holds the lock from its Begin on; B ran while A's commit was parked
			cut := 2
			if order == "after" {
				cut = 3
			}
			if cut > len(aSteps) {
				cut = len(aSteps)
			}
			seq = append(seq, a0)
			seq = append(seq, aSteps[1:cut]...)
			seq = append(seq, bSteps...)
			seq = append(seq, aSteps[cut:]...)
		case order == "AB":
			seq = append(seq, a0)
			seq = append(seq, bSteps...)
			seq = append(seq, aSteps[1:]...)
		default:
			seq = append(seq, bSteps...)
			seq = append(seq, a0)
			seq = append(seq, aSteps[1:]...)
		}
		for i, s := range seq {
			tr.emitRaw(s.act, s.out, i == len(seq)-1)
		}
	}
	primary, other := "BA", "AB"
	if aFirst {
		primary, other = "AB", "BA"
	}
	if inRound2 {
		primary, other = "before", "after"
	}
	emit(primary)
	tr.tw = d.tw2 // the other order goes to the fallback file
	emit(other)
	tr.tw = d.tw
	// the direct oracle: a replenish that deposited something leaves the account at most at the target
	if a.begin.Op == "BeginRepl" && len(aSteps) > 0 && aSteps[len(aSteps)-1].out.Reply.K == "ok" {
		name := a.begin.Accs[0]
		var bal types.Currency
		if a.begin.Kind == "accts" {
			bal, _ = d.e.EC.AccountBalance(ad.Acc(name))
		} else {
			bs, _ := d.e.EC.PoolBalances([]proto4.Account{ad.Acc(name)})
			bal = bs[0]
		}
		if bal.Cmp(Units(uint64(a.begin.Target))) > 0 {
			d.res.Mismatch("gated:"+a.name+":"+b.name+":overtarget", fmt.Sprintf("%s: replenish to %d units succeeded and left %s at %v", tag, a.begin.Target, name, bal),
				map[string]any{"kind": "gated", "a": a.name, "b": b.name, "gate": gate, "pipelined": pipelined})
		}
		d.res.Count("gated_target_checks", 1)
	}
	if len(ad.Issues) > 0 {
		d.res.Mismatch("gated:"+a.name+":"+b.name+":concrete", fmt.Sprintf("%s: %v", tag, ad.Issues), map[string]any{"kind": "gated", "a": a.name, "b": b.name, "gate": gate, "pipelined": pipelined})
	}
}

// driveGated enumerates RPC pairs x gate points (x pipelined or not for the gates before A locks).
func (d *driver) driveGated(only string) {
	for _, a := range gatedAs() {
		for _, gate := range gatePoints(a) {
			for _, b := range gatedBs() {
				for _, pipelined := range []bool{false, true} {
					if pipelined && !(gate == "pre:Lock" || gate == "pre:Bal" || gate == "post:Bal") {
						continue
					}
					if only != "" && only != fmt.Sprintf("%s@%s/%s/%v", a.name, gate, b.name, pipelined) {
						continue
					}
					d.runGated(a, b, gate, pipelined)
				}
			}
		}
	}
}
