package hostx

import (
	"bytes"
	"context"
	"errors"
	"fmt"
	"io"
	"math/big"
	"net"
	"sync"
	"time"

	"go.sia.tech/core/consensus"
	proto4 "go.sia.tech/core/rhp/v4"
	"go.sia.tech/core/types"
	rhp4 "go.sia.tech/coreutils/rhp/v4"
	"verifharness/hx"
)

// ---------------------------------------------------------------- sectors

type sectorInfo struct {
	root types.Hash256
	data *[proto4.SectorSize]byte
}

var (
	sectorMu    sync.Mutex
	sectorCache = map[int]*sectorInfo{}
)

// Sector returns the deterministic sector with abstract id `id` (4 KiB of pattern, rest zero).
func Sector(id int) *sectorInfo {
	sectorMu.Lock()
	defer sectorMu.Unlock()
	if s, ok := sectorCache[id]; ok {
		return s
	}
	var d [proto4.SectorSize]byte
	pat := types.HashBytes([]byte(fmt.Sprintf("verif-sector-%d", id)))
	for i := 0; i < 4096; i += 32 {
		copy(d[i:], pat[:])
		pat = types.HashBytes(pat[:])
	}
	s := &sectorInfo{root: proto4.SectorRoot(&d), data: &d}
	sectorCache[id] = s
	return s
}

// ---------------------------------------------------------------- spec-side types (as printed by ToJson)

type Dep struct {
	A string `json:"a"`
	N int64  `json:"n"`
}

type Entry struct {
	A  string `json:"a"`
	P  string `json:"p"`
	By string `json:"by"`
	Vf string `json:"vf"`
}

// Act is one spec action.
type Act struct {
	Op     string   `json:"op"`
	S      int      `json:"s,omitempty"`
	Idx    []int    `json:"idx,omitempty"`
	Secs   []int    `json:"secs,omitempty"`
	Pf     string   `json:"pf,omitempty"`
	Cf     string   `json:"cf,omitempty"`
	Sf     string   `json:"sf,omitempty"`
	Tf     string   `json:"tf,omitempty"`
	Rf     string   `json:"rf,omitempty"`
	Off    int      `json:"off,omitempty"`
	Len    int      `json:"len,omitempty"`
	Deps   []Dep    `json:"deps,omitempty"`
	Kind   string   `json:"kind,omitempty"`
	Accs   []string `json:"accs,omitempty"`
	Target int64    `json:"target,omitempty"`
	B      []Entry  `json:"b,omitempty"`
	A      string   `json:"a,omitempty"`
	Sec    int      `json:"sec,omitempty"`
	Units  int      `json:"units,omitempty"`
	Part   int      `json:"part,omitempty"` // PartialWrite: how much of the announced data is sent (0 none, 1 one byte, 2 half, 3 all but one byte)
	N      int      `json:"n,omitempty"`
	Cost   int64    `json:"cost,omitempty"`
	NA     int64    `json:"na,omitempty"`  // renew / refresh: requested allowance (units)
	NC     int64    `json:"nc,omitempty"`  // renew / refresh: requested collateral (units)
	Af     string   `json:"af,omitempty"`  // amount class ("ok" | "ovfLast" | "ovfMid" | "tooBig")
	Raw    []string `json:"raw,omitempty"` // harness-only: the concrete amounts of an amount class (decimal hastings)
	How    string   `json:"how,omitempty"` // harness-only: abort variant
}

type Reply struct {
	K string  `json:"k"`
	N int64   `json:"n"`
	L []int64 `json:"l"`
}

func (r Reply) String() string { return fmt.Sprintf("%s/%d/%v", r.K, r.N, r.L) }

func (r Reply) Equal(o Reply) bool {
	if r.K != o.K || r.N != o.N || len(r.L) != len(o.L) {
		return false
	}
	for i := range r.L {
		if r.L[i] != o.L[i] {
			return false
		}
	}
	return true
}

type SpecRev struct {
	Num    int64  `json:"num"`
	Rout   int64  `json:"rout"`
	Hout   int64  `json:"hout"`
	Missed int64  `json:"missed"`
	Coll   int64  `json:"coll"`
	Size   int    `json:"size"`
	Cap    int    `json:"cap"`
	Commit []int  `json:"commit"`
	Ph     int    `json:"ph"`
	Eh     int    `json:"eh"`
	Dur    int    `json:"dur"`
	Rk     string `json:"rk"`
	Hk     string `json:"hk"`
}

type SpecState struct {
	Tipd    int                 `json:"tipd"`
	Rev     SpecRev             `json:"rev"`
	Roots   []int               `json:"roots"`
	Stored  []int               `json:"stored"`
	Acct    map[string]int64    `json:"acct"`
	Pool    map[string]int64    `json:"pool"`
	Pex     []string            `json:"pex"`
	Att     map[string][]string `json:"att"`
	Lock    int                 `json:"lock"`
	Renewed bool                `json:"renewed"`
	Rounds  []int               `json:"rounds"`
	Phase   string              `json:"phase"`
}

// ---------------------------------------------------------------- adapter

type rsession struct {
	rpc   string
	conn  net.Conn
	br    *peekReader
	no    int
	wdone chan error
	// what the (adversarial) renter remembers of the exchange
	existing  types.V2FileContract
	prices    proto4.HostPrices
	freeReq   proto4.RPCFreeSectorsRequest
	appReq    proto4.RPCAppendSectorsRequest
	freeResp  proto4.RPCFreeSectorsResponse
	appResp   proto4.RPCAppendSectorsResponse
	replResp  proto4.RPCReplenishAccountsResponse
	replReq   proto4.RPCReplenishAccountsRequest
	readReq   proto4.RPCReadSectorRequest
	verReq    proto4.RPCVerifySectorRequest
	secs      []int
	off, ln   int
	sec       int
	units     int
	deps      []Dep
	names     []string
	renew     *renewSession
	delivered bool
}

// Adapter steps the real host through spec actions for one contract.
type Adapter struct {
	E     *Env
	K     *Contract
	keys  map[string]types.PrivateKey // accounts, pools, "x"
	names map[proto4.Account]string
	open  map[int]*rsession
	ids   map[types.Hash256]int
	other types.PrivateKey // a foreign host key
	// baseline for relative comparison
	Base     types.V2FileContract
	SpecBase SpecRev
	Issues   []string // concrete (Go-side) violations found while stepping
	seenCall int
	// Olds are the contracts the current one was renewed / refreshed from, frozen at the moment
	// they were replaced: the host still holds them and nothing may ever change them.
	Olds      []frozen
	AssumeRev *types.V2FileContract
	// History: every revision of the current contract the host committed (fully signed); confirmed: the
	// highest revision number the harness has had mined; Confirms: how many older revisions it confirmed
	History   []types.V2FileContract
	confirmed uint64
	Confirms  int
	switching bool
	Switched  bool // a renewal has just replaced K (the replayer rebases its comparison)
	// LastRenewal is the new contract handed to Contractor.RenewV2Contract by the last step, if any
	LastRenewal *types.V2FileContract
}

type frozen struct {
	ID    types.FileContractID
	Rev   types.V2FileContract
	Roots []types.Hash256
}

// AuditOthers checks every contract the host still holds besides the current one: its stored
// roots and revision are exactly what they were when it was replaced, and the roots hash to
// the Merkle root of that revision.  (One try per contract: a handler may hold its lock.)
func (a *Adapter) AuditOthers() (problems []string) {
	for _, o := range a.Olds {
		rs, unlock, err := a.E.EC.LockV2Contract(o.ID)
		if err != nil {
			continue
		}
		roots := cloneRoots(rs.Roots)
		rev := rs.Revision
		unlock()
		switch {
		case proto4.MetaRoot(roots) != rev.FileMerkleRoot || uint64(len(roots))*proto4.SectorSize != rev.Filesize:
			problems = append(problems, fmt.Sprintf("audit: replaced contract %v: stored roots %v no longer hash to the Merkle root of its committed revision (were %v)", o.ID, a.IDs(roots), a.IDs(o.Roots)))
		case fmt.Sprint(roots) != fmt.Sprint(o.Roots):
			problems = append(problems, fmt.Sprintf("audit: replaced contract %v: stored roots changed from %v to %v", o.ID, a.IDs(o.Roots), a.IDs(roots)))
		case rev.RevisionNumber != o.Rev.RevisionNumber || rev.RenterSignature != o.Rev.RenterSignature || !rev.RenterOutput.Value.Equals(o.Rev.RenterOutput.Value):
			problems = append(problems, fmt.Sprintf("audit: replaced contract %v: revision changed after it was renewed", o.ID))
		}
	}
	return
}

func NewAdapter(e *Env, k *Contract) *Adapter {
	a := &Adapter{E: e, K: k, keys: map[string]types.PrivateKey{}, names: map[proto4.Account]string{}, open: map[int]*rsession{}, ids: map[types.Hash256]int{}}
	a.other = e.Key("otherhost")
	a.keys["x"] = e.Key("x")
	a.seenCall = e.Log.Mark()
	return a
}

// Key returns (creating on first use) the key of an account / pool / foreign signer name.
func (a *Adapter) Key(name string) types.PrivateKey {
	if k, ok := a.keys[name]; ok {
		return k
	}
	k := a.E.Key("acct-" + name)
	a.keys[name] = k
	a.names[proto4.Account(k.PublicKey())] = name
	return k
}

func (a *Adapter) Acc(name string) proto4.Account { return proto4.Account(a.Key(name).PublicKey()) }

// Root returns the root of abstract sector id and remembers the mapping.
func (a *Adapter) Root(id int) types.Hash256 {
	s := Sector(id)
	a.ids[s.root] = id
	return s.root
}

// EnsureStored puts sector id into the host's store (setup; not through an RPC).
func (a *Adapter) EnsureStored(id int) {
	s := Sector(id)
	a.ids[s.root] = id
	if ok, _ := a.E.SS.HasSector(s.root); !ok {
		a.E.SS.StoreSector(s.root, s.data, nil, 1<<40)
	}
}

func (a *Adapter) ID(root types.Hash256) int {
	if id, ok := a.ids[root]; ok {
		return id
	}
	return -1
}

func (a *Adapter) IDs(roots []types.Hash256) []int {
	out := make([]int, len(roots))
	for i, r := range roots {
		out[i] = a.ID(r)
	}
	return out
}

func (a *Adapter) Roots(ids []int) []types.Hash256 {
	out := make([]types.Hash256, len(ids))
	for i, id := range ids {
		out[i] = a.Root(id)
	}
	return out
}

// current returns the revision the contractor holds (tracked by the recorder; no locking).
func (a *Adapter) current() types.V2FileContract {
	if a.AssumeRev != nil { // the renter pipelines this request against a revision it expects to be committed first
		return *a.AssumeRev
	}
	a.E.C.mu.Lock()
	defer a.E.C.mu.Unlock()
	if r, ok := a.E.C.latest[a.K.ID]; ok {
		return r
	}
	return a.K.Rev
}

// ---------------------------------------------------------------- corruption classes

func corruptSig(s types.Signature) types.Signature { s[7] ^= 0x40; return s }

func (a *Adapter) prices(pf string) proto4.HostPrices {
	p := a.E.Prices
	switch pf {
	case "ok", "":
	case "expired": // a genuine, host-signed table whose validity has passed
		p.ValidUntil = time.Now().Add(-time.Minute)
		p.Signature = a.E.HostKey.SignHash(p.SigHash())
	case "foreign": // signed by another host
		p.Signature = a.other.SignHash(p.SigHash())
	case "tampered": // a field lowered after signing
		p.FreeSectorPrice = types.ZeroCurrency
		p.StoragePrice = types.ZeroCurrency
		p.EgressPrice = types.ZeroCurrency
		p.IngressPrice = types.ZeroCurrency
	default:
		panic("unknown pf " + pf)
	}
	return p
}

func (a *Adapter) token(acct string, tf string) proto4.AccountToken {
	k := a.Key(acct)
	t := proto4.AccountToken{HostKey: a.E.HostKey.PublicKey(), Account: proto4.Account(k.PublicKey()), ValidUntil: time.Now().Add(time.Hour)}
	switch tf {
	case "ok", "":
		t.Signature = k.SignHash(t.SigHash())
	case "expired":
		t.ValidUntil = time.Now().Add(-time.Minute)
		t.Signature = k.SignHash(t.SigHash())
	case "wronghost":
		t.HostKey = a.other.PublicKey()
		t.Signature = k.SignHash(t.SigHash())
	case "badsig":
		t.Signature = corruptSig(k.SignHash(t.SigHash()))
	default:
		panic("unknown tf " + tf)
	}
	return t
}

// challenge signs the challenge hash for the given class; good is the revision number the
// host expects the challenge to cover, stale one that it covered in an earlier exchange.
func (a *Adapter) challenge(cf string, hash func(uint64) types.Hash256, good, stale uint64) types.Signature {
	switch cf {
	case "ok", "":
		return a.K.RenterKey.SignHash(hash(good))
	case "badsig":
		return corruptSig(a.K.RenterKey.SignHash(hash(good)))
	case "stale":
		return a.K.RenterKey.SignHash(hash(stale))
	case "foreign":
		return a.keys["x"].SignHash(hash(good))
	}
	panic("unknown cf " + cf)
}

// sign produces the renter's revision signature for the given class.
func (a *Adapter) sign(sf string, rev types.V2FileContract, existing types.V2FileContract) types.Signature {
	cs := a.E.CM.TipState()
	switch sf {
	case "ok", "":
		return a.K.RenterKey.SignHash(cs.ContractSigHash(rev))
	case "bad":
		return corruptSig(a.K.RenterKey.SignHash(cs.ContractSigHash(rev)))
	case "other": // a valid signature over a different revision than the host computes (renter keeps one unit more)
		o := rev
		o.RenterOutput.Value = o.RenterOutput.Value.Add(Units(1))
		if o.HostOutput.Value.Cmp(Units(1)) >= 0 {
			o.HostOutput.Value = o.HostOutput.Value.Sub(Units(1))
		}
		return a.K.RenterKey.SignHash(cs.ContractSigHash(o))
	case "replay": // the (valid) renter signature of the revision currently committed
		return existing.RenterSignature
	case "foreign":
		return a.keys["x"].SignHash(cs.ContractSigHash(rev))
	}
	panic("unknown sf " + sf)
}

// ---------------------------------------------------------------- raw streams

// peekReader waits for the first byte of the peer's next message WITHOUT draining the message:
// net.Pipe is unbuffered, so the host stays blocked inside its WriteResponse (still holding the
// contract lock if it has one) until the renter really reads -- the round structure of the spec.
type peekReader struct {
	c    io.Reader
	have bool
	b    byte
}

func (p *peekReader) Peek() error {
	if p.have {
		return nil
	}
	var one [1]byte
	n, err := p.c.Read(one[:])
	if n == 1 {
		p.have, p.b = true, one[0]
		return nil
	}
	return err
}

func (p *peekReader) Read(buf []byte) (int, error) {
	if p.have && len(buf) > 0 {
		buf[0] = p.b
		p.have = false
		return 1, nil
	}
	return p.c.Read(buf)
}

func (a *Adapter) dial(rpc string) (*rsession, error) {
	c, err := a.E.Net.DialStream(context.Background())
	if err != nil {
		return nil, err
	}
	c.SetDeadline(time.Now().Add(60 * time.Second))
	return &rsession{rpc: rpc, conn: c, br: &peekReader{c: c}, no: a.E.Net.Streams()}, nil
}

// send writes in the background (net.Pipe is unbuffered: the host may be writing an error
// while we are still sending) and then waits until the host has started to answer or has hung up.
func (s *rsession) send(fn func(w io.Writer) error) {
	s.wdone = make(chan error, 1)
	go func() { s.wdone <- fn(s.conn) }()
	s.br.Peek()
}

func (s *rsession) close(a *Adapter) {
	if s.conn != nil {
		s.conn.Close()
	}
	if s.wdone != nil {
		<-s.wdone
		s.wdone = nil
	}
	if s.renew != nil {
		s.renew.abort()
		if !s.renew.got {
			select {
			case <-s.renew.res:
			case <-time.After(60 * time.Second):
				a.Issues = append(a.Issues, "infra: renew client did not return")
			}
			s.renew.got = true
		}
	}
	if s.renew != nil && s.no > 0 {
		a.E.Net.WaitServerDone(s.no, 30*time.Second)
		a.maybeSwitch()
	}
	if !a.E.Net.WaitServerDone(s.no, 30*time.Second) {
		a.Issues = append(a.Issues, "infra: host handler did not return within 30s after the stream was closed")
	}
}

// readResp reads one response; returns (rejected, error description).
func (s *rsession) readResp(o proto4.Object) (bool, string) {
	err := proto4.ReadResponse(s.br, o)
	if err == nil {
		return false, ""
	}
	return true, err.Error()
}

// ---------------------------------------------------------------- stepping

// Outcome of one step on the real host.
type Outcome struct {
	Op    string   // for the harness-only action "Next": the spec action that took place (Deliver / Finish)
	Reply Reply    // what the renter read (Deliver / Finish / Abort), else K = "none"
	Calls []string // contractor / sector-store calls the host made during the step
	Why   string   // error text for rejections (diagnostics only)
}

func noneReply() Reply  { return Reply{K: "none", L: []int64{}} }
func rejReply() Reply   { return Reply{K: "rej", L: []int64{}} }
func okReply() Reply    { return Reply{K: "ok", L: []int64{}} }
func abortReply() Reply { return Reply{K: "abort", L: []int64{}} }

func callNames(cs []Call) []string {
	out := []string{}
	for _, c := range cs {
		n := ""
		switch c.Op {
		case "Debit":
			if c.OK {
				n = "D+"
			} else {
				n = "D-"
			}
		case "ReadSector":
			n = "R"
		case "StoreSector":
			n = "S"
		case "CreditAccounts":
			n = "CA"
		case "CreditPools":
			n = "CP"
		case "Revise":
			n = "RV"
		case "Attach":
			n = "AT"
		case "Detach":
			n = "DT"
		case "RenewContract":
			n = "RN"
		case "AddContract":
			n = "AD"
		default:
			continue
		}
		if c.Op != "Debit" && !c.OK {
			n += "-"
		}
		out = append(out, n)
	}
	return out
}

// Step performs one spec action on the real host.
func (a *Adapter) Step(act Act) (out Outcome, err error) {
	mark := a.E.Log.Mark()
	out.Reply = noneReply()
	defer func() {
		cs := a.E.Log.Since(mark)
		out.Calls = callNames(cs)
		a.checkCommits(cs)
		a.Issues = append(a.Issues, a.AuditOthers()...)
	}()
	switch act.Op {
	case "PartialWrite": // a valid write request, part of the data, then the stream is dropped
		return a.partialWrite(act)
	case "Confirm": // an earlier fully signed revision is broadcast and a block confirming it is mined
		return out, a.confirmOlder()
	case "Mine": // time passes: n blocks are mined, wallet and contractor catch up
		return out, a.E.Mine(types.VoidAddress, act.N)
	case "Next":
		return a.next(act)
	case "Deliver":
		return a.deliver(act)
	case "Finish":
		return a.finish(act)
	case "Abort":
		s := a.open[act.S]
		if s == nil {
			return out, fmt.Errorf("abort: no open session %d", act.S)
		}
		s.close(a)
		delete(a.open, act.S)
		out.Reply = abortReply()
		return out, nil
	case "Truncated":
		s, err := a.dial("trunc")
		if err != nil {
			return out, err
		}
		var buf bytes.Buffer
		req := proto4.RPCFreeSectorsRequest{ContractID: a.K.ID, Prices: a.E.Prices, Indices: []uint64{0}}
		proto4.WriteRequest(&buf, proto4.RPCFreeSectorsID, &req)
		half := buf.Bytes()[:16+buf.Len()/3]
		s.wdone = make(chan error, 1)
		go func() { _, e := s.conn.Write(half); s.wdone <- e }()
		<-s.wdone
		s.wdone = nil
		s.close(a)
		out.Reply = abortReply()
		return out, nil
	}
	if a.open[act.S] != nil && (len(act.Op) > 5 && act.Op[:5] == "Begin") {
		return out, fmt.Errorf("session %d already open", act.S)
	}
	switch act.Op {
	case "BeginFree":
		return out, a.beginFree(act)
	case "Round2Free", "Round2Append", "Round2Repl":
		return out, a.round2(act)
	case "BeginAppend":
		return out, a.beginAppend(act)
	case "BeginRoots":
		return out, a.beginRoots(act)
	case "BeginLatest":
		return out, a.beginLatest(act)
	case "BeginFund":
		return out, a.beginFund(act)
	case "BeginRepl":
		return out, a.beginRepl(act)
	case "BeginAttach":
		return out, a.beginAttach(act)
	case "BeginDetach":
		return out, a.beginDetach(act)
	case "BeginRead":
		return out, a.beginRead(act)
	case "BeginVerify":
		return out, a.beginVerify(act)
	case "BeginWrite":
		return out, a.beginWrite(act)
	case "BeginBalance":
		return out, a.beginBalance(act)
	case "BeginRenew":
		return out, a.beginRenew(act)
	case "Round2Renew":
		return out, a.round2Renew(act)
	}
	return out, fmt.Errorf("unknown action %q", act.Op)
}

func u64s(xs []int) []uint64 {
	out := make([]uint64, len(xs))
	for i, x := range xs {
		out[i] = uint64(int64(x)) // negative values wrap to huge indices (out of range)
	}
	return out
}

func (a *Adapter) start(act Act, rpc string, id types.Specifier, req proto4.Object, after func(w io.Writer) error) (*rsession, error) {
	s, err := a.dial(rpc)
	if err != nil {
		return nil, err
	}
	s.existing = a.current()
	a.open[act.S] = s
	s.send(func(w io.Writer) error {
		if err := proto4.WriteRequest(w, id, req); err != nil {
			return err
		}
		if after != nil {
			return after(w)
		}
		return nil
	})
	return s, nil
}

func (a *Adapter) beginFree(act Act) error {
	ex := a.current()
	req := proto4.RPCFreeSectorsRequest{ContractID: a.K.ID, Prices: a.prices(act.Pf), Indices: u64s(act.Idx)}
	req.ChallengeSignature = a.challenge(act.Cf, req.ChallengeSigHash, ex.RevisionNumber+1, ex.RevisionNumber)
	s, err := a.start(act, "free", proto4.RPCFreeSectorsID, &req, nil)
	if err != nil {
		return err
	}
	s.freeReq, s.prices = req, req.Prices
	return nil
}

func (a *Adapter) beginAppend(act Act) error {
	ex := a.current()
	req := proto4.RPCAppendSectorsRequest{ContractID: a.K.ID, Prices: a.prices(act.Pf), Sectors: a.Roots(act.Secs)}
	req.ChallengeSignature = a.challenge(act.Cf, req.ChallengeSigHash, ex.RevisionNumber+1, ex.RevisionNumber)
	s, err := a.start(act, "append", proto4.RPCAppendSectorsID, &req, nil)
	if err != nil {
		return err
	}
	s.appReq, s.prices, s.secs = req, req.Prices, act.Secs
	return nil
}

func (a *Adapter) beginRoots(act Act) error {
	ex := a.current()
	p := a.prices(act.Pf)
	off, ln := uint64(int64(act.Off)), uint64(int64(act.Len))
	rev, _, err := proto4.ReviseForSectorRoots(ex, p, ln)
	if err != nil { // cannot pay: sign the unpaid revision; the host must refuse
		rev = ex
		rev.RevisionNumber++
	}
	req := proto4.RPCSectorRootsRequest{Prices: p, ContractID: a.K.ID, Offset: off, Length: ln}
	req.RenterSignature = a.sign(act.Sf, rev, ex)
	s, err := a.start(act, "roots", proto4.RPCSectorRootsID, &req, nil)
	if err != nil {
		return err
	}
	s.off, s.ln = act.Off, act.Len
	return nil
}

func (a *Adapter) beginLatest(act Act) error {
	req := proto4.RPCLatestRevisionRequest{ContractID: a.K.ID}
	_, err := a.start(act, "latest", proto4.RPCLatestRevisionID, &req, nil)
	return err
}

func (a *Adapter) deposits(deps []Dep) (out []proto4.AccountDeposit, total types.Currency) {
	for _, d := range deps {
		amt := Units(uint64(d.N))
		out = append(out, proto4.AccountDeposit{Account: a.Acc(d.A), Amount: amt})
		total = total.Add(amt)
	}
	return
}

func (a *Adapter) beginFund(act Act) error {
	ex := a.current()
	deps, total := a.deposits(act.Deps)
	if act.Af != "" && act.Af != "ok" {
		// amounts near the top of the 128-bit range; the adversarial renter signs the revision a
		// host that sums them with wrapping arithmetic would compute
		amts := representativeAmounts(act.Af)
		if len(act.Raw) > 0 {
			amts = nil
			for _, r := range act.Raw {
				b, ok := new(big.Int).SetString(r, 10)
				if !ok || b.Sign() < 0 || b.Cmp(two128) >= 0 {
					return fmt.Errorf("bad raw amount %q", r)
				}
				amts = append(amts, bigCur(b))
			}
		}
		deps = nil
		for i, amt := range amts {
			name := "a1"
			if len(act.Deps) > 0 {
				name = act.Deps[i%len(act.Deps)].A
			}
			deps = append(deps, proto4.AccountDeposit{Account: a.Acc(name), Amount: amt})
		}
		_, total = classifyAmounts(amts, ex.RenterOutput.Value)
	}
	rev, _, err := proto4.ReviseForFundAccounts(ex, total)
	if err != nil {
		rev = ex
		rev.RevisionNumber++
	}
	req := proto4.RPCFundAccountsRequest{ContractID: a.K.ID, Deposits: deps, RenterSignature: a.sign(act.Sf, rev, ex)}
	s, err := a.start(act, "fund", proto4.RPCFundAccountsID, &req, nil)
	if err != nil {
		return err
	}
	s.deps = act.Deps
	return nil
}

func (a *Adapter) beginRepl(act Act) error {
	ex := a.current()
	req := proto4.RPCReplenishAccountsRequest{ContractID: a.K.ID, Target: Units(uint64(act.Target))}
	for _, n := range act.Accs {
		req.Accounts = append(req.Accounts, a.Acc(n))
	}
	if act.Af != "" && act.Af != "ok" {
		// a target near the top of the 128-bit range over distinct fresh accounts: the sum of the
		// deposits overflows
		var k int
		req.Target, k = replenishOverflow(act.Af)
		req.Accounts = nil
		for i := 0; i < k; i++ {
			req.Accounts = append(req.Accounts, a.Acc(fmt.Sprintf("ovf-%s-%d", act.Kind, i)))
		}
	}
	stale := ex.RevisionNumber + 1
	if ex.RevisionNumber > 0 {
		stale = ex.RevisionNumber - 1
	}
	req.ChallengeSignature = a.challenge(act.Cf, req.ChallengeSigHash, ex.RevisionNumber, stale)
	id := proto4.RPCReplenishAccountsID
	if act.Kind == "pools" {
		id = proto4.RPCReplenishPoolsID
	}
	s, err := a.start(act, "repl", id, &req, nil)
	if err != nil {
		return err
	}
	s.replReq, s.names = req, act.Accs
	return nil
}

func (a *Adapter) signEntry(e Entry, sigHash func(types.PublicKey) types.Hash256) types.Signature {
	hk := a.E.HostKey.PublicKey()
	if e.Vf == "wronghost" {
		hk = a.other.PublicKey()
	}
	return a.Key(e.By).SignHash(sigHash(hk))
}

func validUntil(vf string) time.Time {
	if vf == "expired" {
		return time.Now().Add(-time.Minute)
	}
	return time.Now().Add(time.Hour)
}

func (a *Adapter) beginAttach(act Act) error {
	var req proto4.RPCAttachPoolsRequest
	for _, e := range act.B {
		at := proto4.PoolAttachment{Account: a.Acc(e.A), Pool: a.Acc(e.P), ValidUntil: validUntil(e.Vf)}
		at.Signature = a.signEntry(e, at.SigHash)
		req.Attachments = append(req.Attachments, at)
	}
	_, err := a.start(act, "attach", proto4.RPCAttachPoolsID, &req, nil)
	return err
}

func (a *Adapter) beginDetach(act Act) error {
	var req proto4.RPCDetachPoolsRequest
	for _, e := range act.B {
		dt := proto4.PoolDetachment{Account: a.Acc(e.A), Pool: a.Acc(e.P), ValidUntil: validUntil(e.Vf)}
		dt.Signature = a.signEntry(e, dt.SigHash)
		req.Detachments = append(req.Detachments, dt)
	}
	_, err := a.start(act, "detach", proto4.RPCDetachPoolsID, &req, nil)
	return err
}

func readLen(units int) uint64 {
	switch {
	case units <= 0:
		return 0
	case units == 1:
		return 64 // one leaf: priced as 4 KiB
	}
	return uint64(units) * 4096
}

func (a *Adapter) beginRead(act Act) error {
	req := proto4.RPCReadSectorRequest{Prices: a.prices(act.Pf), Token: a.token(act.A, act.Tf), Root: a.Root(act.Sec), Offset: 0, Length: readLen(act.Units)}
	s, err := a.start(act, "read", proto4.RPCReadSectorID, &req, nil)
	if err != nil {
		return err
	}
	s.readReq, s.sec, s.units = req, act.Sec, act.Units
	return nil
}

func (a *Adapter) beginVerify(act Act) error {
	req := proto4.RPCVerifySectorRequest{Prices: a.prices(act.Pf), Token: a.token(act.A, act.Tf), Root: a.Root(act.Sec), LeafIndex: 3}
	s, err := a.start(act, "verify", proto4.RPCVerifySectorID, &req, nil)
	if err != nil {
		return err
	}
	s.verReq, s.sec = req, act.Sec
	return nil
}

func (a *Adapter) beginWrite(act Act) error {
	sec := Sector(act.Sec)
	a.ids[sec.root] = act.Sec
	n := uint64(act.Units) * 4096
	req := proto4.RPCWriteSectorRequest{Prices: a.prices(act.Pf), Token: a.token(act.A, act.Tf), DataLength: n}
	s, err := a.start(act, "write", proto4.RPCWriteSectorID, &req, func(w io.Writer) error {
		_, err := w.Write(sec.data[:n])
		return err
	})
	if err != nil {
		return err
	}
	s.sec, s.units = act.Sec, act.Units
	return nil
}

func (a *Adapter) partialWrite(act Act) (out Outcome, err error) {
	out.Reply = abortReply()
	s, err := a.dial("partialwrite")
	if err != nil {
		return out, err
	}
	sec := Sector(act.Sec)
	n := uint64(act.Units) * 4096
	k := map[int]uint64{0: 0, 1: 1, 2: n / 2, 3: n - 1}[act.Part]
	req := proto4.RPCWriteSectorRequest{Prices: a.E.Prices, Token: a.token(act.A, "ok"), DataLength: n}
	s.wdone = make(chan error, 1)
	go func() {
		err := proto4.WriteRequest(s.conn, proto4.RPCWriteSectorID, &req)
		if err == nil && k > 0 {
			_, err = s.conn.Write(sec.data[:k])
		}
		s.wdone <- err
	}()
	// the writes complete when the host has consumed them (unbuffered pipe); then hang up
	select {
	case <-s.wdone:
		s.wdone = nil
	case <-time.After(10 * time.Second):
	}
	s.close(a)
	return out, nil
}

// confirmOlder broadcasts an EARLIER fully signed revision of the contract (either party may) and
// mines a block that confirms it: the chain subscriber of the contractor sees a confirmed revision
// that is older than the one the host has committed since.
func (a *Adapter) confirmOlder() error {
	cur := a.current()
	var pick *types.V2FileContract
	for i := range a.History {
		h := a.History[i]
		if h.RevisionNumber > a.confirmed && h.RevisionNumber < cur.RevisionNumber {
			pick = &a.History[i]
			break
		}
	}
	if pick != nil {
		basis, fce, err := a.E.EC.V2FileContractElement(a.K.ID)
		if err == nil {
			txn := types.V2Transaction{FileContractRevisions: []types.V2FileContractRevision{{Parent: fce.Copy(), Revision: *pick}}}
			if _, err := a.E.CM.AddV2PoolTransactions(basis, []types.V2Transaction{txn}); err == nil {
				a.confirmed = pick.RevisionNumber
				a.Confirms++
			}
		}
	}
	return a.E.Mine(types.VoidAddress, 1)
}

func (a *Adapter) beginBalance(act Act) error {
	req := proto4.RPCAccountBalanceRequest{Account: a.Acc(act.A)}
	_, err := a.start(act, "balance", proto4.RPCAccountBalanceID, &req, nil)
	return err
}

// next reads the host's next message, whatever it is: a non-final response (Deliver) or the
// final message (Finish).  Drivers that do not know the spec state use it.
func (a *Adapter) next(act Act) (out Outcome, err error) {
	s := a.open[act.S]
	if s == nil {
		return out, fmt.Errorf("next: no open session %d", act.S)
	}
	switch s.rpc {
	case "free", "append", "repl", "renew":
		if !s.delivered {
			out, err = a.deliver(act)
			if err != nil {
				return
			}
			if out.Reply.K == "rej" || (s.rpc == "repl" && out.Reply.N == 0) {
				s.close(a)
				delete(a.open, act.S)
				out.Op = "Finish"
				return
			}
			out.Op = "Deliver"
			return
		}
	}
	out, err = a.finish(act)
	out.Op = "Finish"
	return
}

// deliver: the renter reads the host's non-final response.
func (a *Adapter) deliver(act Act) (out Outcome, err error) {
	s := a.open[act.S]
	if s == nil {
		return out, fmt.Errorf("deliver: no open session %d", act.S)
	}
	out.Reply = noneReply()
	if a.AssumeRev == nil && s.renew == nil {
		s.existing = a.current() // what the host has locked (pipelined requests were built on a prediction)
	}
	switch s.rpc {
	case "free":
		if rej, why := s.readResp(&s.freeResp); rej {
			out.Reply, out.Why = rejReply(), why
			return
		}
		n := int64(s.existing.Filesize/proto4.SectorSize) - int64(len(s.freeReq.Indices))
		// the renter checks the proof exactly as the client does
		if !proto4.VerifyFreeSectorsProof(s.freeResp.OldSubtreeHashes, s.freeResp.OldLeafHashes, s.freeReq.Indices, s.existing.Filesize/proto4.SectorSize, s.existing.FileMerkleRoot, s.freeResp.NewMerkleRoot) {
			a.Issues = append(a.Issues, fmt.Sprintf("free: host's proof for indices %v does not verify against the committed root", s.freeReq.Indices))
		}
		s.delivered = true
		out.Reply = Reply{K: "resp", N: n, L: []int64{}}
	case "append":
		if rej, why := s.readResp(&s.appResp); rej {
			out.Reply, out.Why = rejReply(), why
			return
		}
		l := []int64{}
		var k int64
		var appended []types.Hash256
		for i, ok := range s.appResp.Accepted {
			if ok {
				l = append(l, 1)
				k++
				if i < len(s.appReq.Sectors) {
					appended = append(appended, s.appReq.Sectors[i])
				}
			} else {
				l = append(l, 0)
			}
		}
		if !proto4.VerifyAppendSectorsProof(s.existing.Filesize/proto4.SectorSize, s.appResp.SubtreeRoots, appended, s.existing.FileMerkleRoot, s.appResp.NewMerkleRoot) {
			a.Issues = append(a.Issues, "append: host's proof does not verify against the committed root")
		}
		s.delivered = true
		out.Reply = Reply{K: "resp", N: k, L: l}
	case "repl":
		if rej, why := s.readResp(&s.replResp); rej {
			out.Reply, out.Why = rejReply(), why
			return
		}
		s.delivered = true
		out.Reply = a.replReply(s)
	case "renew":
		return a.deliverRenew(s)
	default:
		return out, fmt.Errorf("deliver: rpc %s has no non-final response", s.rpc)
	}
	return
}

func (a *Adapter) replReply(s *rsession) Reply {
	l := []int64{}
	var sum int64
	for i, d := range s.replResp.Deposits {
		n, ok := Scale(d.Amount)
		if !ok {
			a.Issues = append(a.Issues, fmt.Sprintf("replenish: deposit %v is not a whole number of units", d.Amount))
		}
		if i < len(s.replReq.Accounts) && d.Account != s.replReq.Accounts[i] {
			a.Issues = append(a.Issues, "replenish: deposit list does not follow the requested accounts")
		}
		l = append(l, n)
		sum += n
	}
	return Reply{K: "resp", N: sum, L: l}
}

// round2: the renter's signature message.
func (a *Adapter) round2(act Act) error {
	s := a.open[act.S]
	if s == nil {
		return fmt.Errorf("round2: no open session %d", act.S)
	}
	var msg proto4.Object
	unpaid := s.existing
	unpaid.RevisionNumber++
	switch s.rpc {
	case "free":
		rev, _, err := proto4.ReviseForFreeSectors(s.existing, s.prices, s.freeResp.NewMerkleRoot, len(s.freeReq.Indices))
		if err != nil {
			rev = unpaid
		}
		msg = &proto4.RPCFreeSectorsSecondResponse{RenterSignature: a.sign(act.Sf, rev, s.existing)}
	case "append":
		var k uint64
		for _, ok := range s.appResp.Accepted {
			if ok {
				k++
			}
		}
		rev, _, err := proto4.ReviseForAppendSectors(s.existing, s.prices, s.appResp.NewMerkleRoot, k)
		if err != nil {
			rev = unpaid
		}
		msg = &proto4.RPCAppendSectorsSecondResponse{RenterSignature: a.sign(act.Sf, rev, s.existing)}
	case "repl":
		total := s.replResp.TotalCost()
		if act.Sf == "dedup" { // the total over the distinct listed accounts
			total = types.ZeroCurrency
			seen := map[proto4.Account]bool{}
			for _, d := range s.replResp.Deposits {
				if !seen[d.Account] {
					total = total.Add(d.Amount)
				}
				seen[d.Account] = true
			}
			act.Sf = "ok"
		}
		rev, _, err := proto4.ReviseForReplenish(s.existing, total)
		if err != nil {
			rev = unpaid
		}
		msg = &proto4.RPCReplenishAccountsSecondResponse{RenterSignature: a.sign(act.Sf, rev, s.existing)}
	default:
		return fmt.Errorf("round2: rpc %s has no second round", s.rpc)
	}
	s.send(func(w io.Writer) error { return proto4.WriteResponse(w, msg) })
	return nil
}

// finish: the renter reads the host's final message and closes the stream.
func (a *Adapter) finish(act Act) (out Outcome, err error) {
	s := a.open[act.S]
	if s == nil {
		return out, fmt.Errorf("finish: no open session %d", act.S)
	}
	out.Reply = rejReply()
	defer func() {
		s.close(a)
		delete(a.open, act.S)
	}()
	set := func(rej bool, why string, ok Reply) {
		if rej {
			out.Reply, out.Why = rejReply(), why
		} else {
			out.Reply = ok
		}
	}
	cs := a.E.CM.TipState()
	switch s.rpc {
	case "free":
		var r proto4.RPCFreeSectorsThirdResponse
		rej, why := s.readResp(&r)
		set(rej, why, okReply())
	case "append":
		var r proto4.RPCAppendSectorsThirdResponse
		rej, why := s.readResp(&r)
		set(rej, why, okReply())
	case "repl":
		if !s.delivered {
			// single-message outcome: either the (all-zero) cost response or an error
			rej, why := s.readResp(&s.replResp)
			if rej {
				set(true, why, Reply{})
			} else {
				out.Reply = a.replReply(s)
			}
			return
		}
		var r proto4.RPCReplenishAccountsThirdResponse
		rej, why := s.readResp(&r)
		set(rej, why, okReply())
	case "roots":
		var r proto4.RPCSectorRootsResponse
		rej, why := s.readResp(&r)
		if rej {
			set(true, why, Reply{})
			return
		}
		l := []int64{}
		for _, id := range a.IDs(r.Roots) {
			l = append(l, int64(id))
		}
		n := s.existing.Filesize / proto4.SectorSize
		if !proto4.VerifySectorRootsProof(r.Proof, r.Roots, n, uint64(s.off), uint64(s.off+s.ln), s.existing.FileMerkleRoot) {
			a.Issues = append(a.Issues, fmt.Sprintf("roots: proof for [%d,%d) of %d does not verify against the committed root", s.off, s.off+s.ln, n))
		}
		rev, _, _ := proto4.ReviseForSectorRoots(s.existing, a.E.Prices, uint64(s.ln))
		if !s.existing.HostPublicKey.VerifyHash(cs.ContractSigHash(rev), r.HostSignature) {
			a.Issues = append(a.Issues, "roots: host signature does not cover the priced revision")
		}
		out.Reply = Reply{K: "ok", N: int64(s.ln), L: l}
	case "latest":
		var r proto4.RPCLatestRevisionResponse
		rej, why := s.readResp(&r)
		if rej {
			set(true, why, Reply{})
			return
		}
		rn, rv := int64(0), int64(0)
		if r.Renewed {
			rn = 1
		}
		if r.Revisable {
			rv = 1
		}
		if r.Revisable && r.Renewed {
			a.Issues = append(a.Issues, "latest: a renewed contract is reported revisable")
		}
		if !SigsOK(r.Contract) {
			a.Issues = append(a.Issues, "latest: reported revision is not doubly signed")
		}
		out.Reply = Reply{K: "ok", N: int64(r.Contract.RevisionNumber) - int64(a.Base.RevisionNumber) + a.SpecBase.Num, L: []int64{rn, rv}}
	case "fund":
		var r proto4.RPCFundAccountsResponse
		rej, why := s.readResp(&r)
		if rej {
			set(true, why, Reply{})
			return
		}
		l := []int64{}
		var total int64
		for _, b := range r.Balances {
			n, ok := Scale(b)
			if !ok {
				a.Issues = append(a.Issues, "fund: balance not a whole number of units")
			}
			l = append(l, n)
		}
		for _, d := range s.deps {
			total += d.N
		}
		out.Reply = Reply{K: "ok", N: total, L: l}
	case "attach":
		var r proto4.RPCAttachPoolsResponse
		rej, why := s.readResp(&r)
		set(rej, why, okReply())
	case "detach":
		var r proto4.RPCDetachPoolsResponse
		rej, why := s.readResp(&r)
		set(rej, why, okReply())
	case "balance":
		var r proto4.RPCAccountBalanceResponse
		rej, why := s.readResp(&r)
		if rej {
			set(true, why, Reply{})
			return
		}
		n, _ := Scale(r.Balance)
		out.Reply = Reply{K: "ok", N: n, L: []int64{}}
	case "read":
		var r proto4.RPCReadSectorResponse
		rej, why := s.readResp(&r)
		if rej {
			set(true, why, Reply{})
			return
		}
		req := s.readReq
		start, end := req.Offset/proto4.LeafSize, (req.Offset+req.Length+proto4.LeafSize-1)/proto4.LeafSize
		rpv := proto4.NewRangeProofVerifier(start, end)
		var buf bytes.Buffer
		if n, err := rpv.ReadFrom(io.TeeReader(io.LimitReader(s.br, int64(r.DataLength)), &buf)); err != nil || n != int64(r.DataLength) {
			a.Issues = append(a.Issues, fmt.Sprintf("read: short data (%d of %d): %v", n, r.DataLength, err))
		} else if !rpv.Verify(r.Proof, req.Root) {
			a.Issues = append(a.Issues, "read: proof does not verify")
		} else if !bytes.Equal(buf.Bytes(), Sector(s.sec).data[req.Offset:req.Offset+req.Length]) {
			a.Issues = append(a.Issues, "read: data differs from the stored sector")
		}
		out.Reply = Reply{K: "ok", N: int64(s.units), L: []int64{int64(s.sec)}}
	case "verify":
		var r proto4.RPCVerifySectorResponse
		rej, why := s.readResp(&r)
		if rej {
			set(true, why, Reply{})
			return
		}
		if !proto4.VerifyLeafProof(r.Proof, r.Leaf, s.verReq.LeafIndex, s.verReq.Root) {
			a.Issues = append(a.Issues, "verify: leaf proof does not verify")
		}
		out.Reply = Reply{K: "ok", N: 0, L: []int64{int64(s.sec)}}
	case "write":
		var r proto4.RPCWriteSectorResponse
		rej, why := s.readResp(&r)
		if rej {
			set(true, why, Reply{})
			return
		}
		if r.Root != a.Root(s.sec) {
			a.Issues = append(a.Issues, "write: host reports a different root than the data's")
		}
		out.Reply = Reply{K: "ok", N: int64(s.units), L: []int64{int64(s.sec)}}
	case "renew":
		return a.finishRenew(s)
	default:
		// rejected or unknown: just read an error
		var r proto4.RPCSettingsResponse
		rej, why := s.readResp(&r)
		set(rej, why, okReply())
	}
	return
}

// ---------------------------------------------------------------- concrete checks on every commit call (C08)

// checkCommits verifies, for every revision the server handed to the contractor, what the
// specification cannot see: both signatures verify with core over exactly that revision, and a
// revision transaction built from it is acceptable to consensus.
func (a *Adapter) checkCommits(cs []Call) {
	for _, c := range cs {
		if c.Op == "RenewContract" && c.OK && c.Revision != nil {
			nc := *c.Revision
			a.LastRenewal = &nc
		}
		if !c.OK || c.Revision == nil || c.ContractID != a.K.ID {
			continue
		}
		switch c.Op {
		case "Revise", "CreditAccounts", "CreditPools":
		default:
			continue
		}
		a.History = append(a.History, *c.Revision)
		if msg := CheckCommit(a.E, c); msg != "" {
			a.Issues = append(a.Issues, "commit:"+c.Op+": "+msg)
		}
	}
}

// CheckCommit returns a description of what is wrong with a committed revision, or "".
func CheckCommit(e *Env, c Call) string {
	rev := *c.Revision
	if !SigsOK(rev) {
		return "signatures do not verify over the committed revision"
	}
	if c.Prev != nil {
		p := *c.Prev
		switch {
		case rev.RevisionNumber <= p.RevisionNumber:
			return fmt.Sprintf("revision number %d -> %d", p.RevisionNumber, rev.RevisionNumber)
		case rev.RenterPublicKey != p.RenterPublicKey || rev.HostPublicKey != p.HostPublicKey:
			return "keys changed"
		case rev.ProofHeight != p.ProofHeight || rev.ExpirationHeight != p.ExpirationHeight:
			return "heights changed"
		case !rev.TotalCollateral.Equals(p.TotalCollateral):
			return "total collateral changed"
		case !rev.RenterOutput.Value.Add(rev.HostOutput.Value).Equals(p.RenterOutput.Value.Add(p.HostOutput.Value)):
			return "payout sum changed"
		case rev.RenterOutput.Value.Cmp(p.RenterOutput.Value) > 0:
			return "value moved from host to renter"
		case rev.RenterOutput.Address != p.RenterOutput.Address || rev.HostOutput.Address != p.HostOutput.Address:
			return "payout address changed"
		case !p.RenterOutput.Value.Sub(rev.RenterOutput.Value).Equals(c.Usage.RenterCost()):
			return "renter payout not lowered by the usage the host accounts"
		}
	}
	if c.Prev != nil && (c.Op == "CreditAccounts" || c.Op == "CreditPools") {
		var credited types.Currency
		for _, d := range c.Deposits {
			var ovf bool
			if credited, ovf = credited.AddWithOverflow(d.Amount); ovf {
				return "the credited amounts overflow 128 bits"
			}
		}
		if c.Prev.RenterOutput.Value.Cmp(rev.RenterOutput.Value) < 0 || !c.Prev.RenterOutput.Value.Sub(rev.RenterOutput.Value).Equals(credited) {
			return fmt.Sprintf("credits of %v are backed by a transfer of %v only", credited, c.Prev.RenterOutput.Value.Sub(rev.RenterOutput.Value))
		}
	}
	if c.Roots != nil && c.Op == "Revise" {
		if proto4.MetaRoot(c.Roots) != rev.FileMerkleRoot || uint64(len(c.Roots))*proto4.SectorSize != rev.Filesize {
			return "roots handed to the contractor do not match the revision's Merkle root / file size"
		}
	}
	if err := ConsensusAccepts(e, c.ContractID, rev); err != nil {
		return "not acceptable to consensus: " + err.Error()
	}
	return ""
}

// ConsensusAccepts validates a revision transaction built from rev on the on-chain element
// (throw-away MidState: the transaction pool is not touched).
func ConsensusAccepts(e *Env, id types.FileContractID, rev types.V2FileContract) error {
	basis, fce, err := e.EC.V2FileContractElement(id)
	if err != nil {
		return nil // not confirmed (yet): nothing to validate against
	}
	cs := e.CM.TipState()
	if basis != cs.Index {
		return nil
	}
	txn := types.V2Transaction{FileContractRevisions: []types.V2FileContractRevision{{Parent: fce.Copy(), Revision: rev}}}
	return consensus.ValidateV2Transaction(consensus.NewMidState(cs), txn)
}

// ---------------------------------------------------------------- projection

// Project compares the real host state with a spec state (only possible while no handler holds
// the contract lock).  It returns a list of differences (empty = equal).
func (a *Adapter) Project(want SpecState, checkBalances bool) (diffs []string, real rhp4.RevisionState, err error) {
	real, err = a.E.State(a.K.ID)
	if err != nil {
		if want.Lock == 0 {
			return []string{"lock: contract still locked although no handler is in flight: " + err.Error()}, real, nil
		}
		return nil, real, err
	}
	rev := real.Revision
	add := func(f string, args ...any) { diffs = append(diffs, fmt.Sprintf(f, args...)) }
	ids := a.IDs(real.Roots)
	if fmt.Sprint(ids) != fmt.Sprint(want.Roots) {
		add("roots: host has %v, spec %v", ids, want.Roots)
	}
	if proto4.MetaRoot(real.Roots) != rev.FileMerkleRoot {
		add("rootsmatch: MetaRoot(host roots %v) differs from the committed FileMerkleRoot", ids)
	}
	if uint64(len(real.Roots))*proto4.SectorSize != rev.Filesize {
		add("filesize: %d roots but Filesize %d", len(real.Roots), rev.Filesize)
	}
	if proto4.MetaRoot(a.Roots(want.Rev.Commit)) != rev.FileMerkleRoot {
		add("commit: committed FileMerkleRoot is not the root of spec's %v", want.Rev.Commit)
	}
	if int(rev.Filesize/proto4.SectorSize) != want.Rev.Size {
		add("size: host %d spec %d", rev.Filesize/proto4.SectorSize, want.Rev.Size)
	}
	if int(rev.Capacity/proto4.SectorSize) != want.Rev.Cap {
		add("cap: host %d spec %d", rev.Capacity/proto4.SectorSize, want.Rev.Cap)
	}
	if got := int64(rev.RevisionNumber) - int64(a.Base.RevisionNumber) + a.SpecBase.Num; got != want.Rev.Num {
		add("num: host %d spec %d", got, want.Rev.Num)
	}
	rel := func(name string, cur, base types.Currency, sbase, swant int64, down bool) {
		var d types.Currency
		var neg bool
		if cur.Cmp(base) >= 0 {
			d = cur.Sub(base)
		} else {
			d, neg = base.Sub(cur), true
		}
		n, ok := Scale(d)
		if neg {
			n = -n
		}
		if !ok || sbase+n != swant {
			add("%s: host moved by %d units (exact=%v) from baseline, spec by %d", name, n, ok, swant-sbase)
		}
	}
	rel("rout", rev.RenterOutput.Value, a.Base.RenterOutput.Value, a.SpecBase.Rout, want.Rev.Rout, true)
	rel("hout", rev.HostOutput.Value, a.Base.HostOutput.Value, a.SpecBase.Hout, want.Rev.Hout, false)
	rel("missed", rev.MissedHostValue, a.Base.MissedHostValue, a.SpecBase.Missed, want.Rev.Missed, true)
	if !rev.TotalCollateral.Equals(a.Base.TotalCollateral) || rev.RenterPublicKey != a.Base.RenterPublicKey || rev.HostPublicKey != a.Base.HostPublicKey ||
		rev.ProofHeight != a.Base.ProofHeight || rev.ExpirationHeight != a.Base.ExpirationHeight {
		add("immutable: keys / heights / total collateral differ from the formed contract")
	}
	if !SigsOK(rev) {
		add("sigs: latest revision is not signed by both parties over exactly that revision")
	}
	if real.Renewed != want.Renewed {
		add("renewed: host %v spec %v", real.Renewed, want.Renewed)
	}
	if real.Revisable != (want.Tipd < 0) {
		add("revisable: host %v but the tip is at proof height %+d", real.Revisable, want.Tipd)
	}
	// (the spec's -2 and below stand for "early": any tip more than one block before the proof height)
	if got := int(a.E.CM.Tip().Height) - int(rev.ProofHeight); (want.Tipd >= -1 && got != want.Tipd) || (want.Tipd < -1 && got >= -1) {
		add("tipd: chain tip is at proof height %+d, spec %+d", got, want.Tipd)
	}
	// (while the proof window has not opened; afterwards no revision at all can be confirmed)
	if err := ConsensusAccepts(a.E, a.K.ID, rev); err != nil && rev.RevisionNumber > 0 && !real.Renewed && a.E.CM.Tip().Height < rev.ProofHeight {
		add("consensus: latest revision not acceptable: %v", err)
	}
	for _, id := range want.Stored {
		if ok, _ := a.E.SS.HasSector(a.Root(id)); !ok {
			add("stored: sector %d missing from the store", id)
		}
	}
	if checkBalances {
		var names []string
		for name := range want.Att {
			names = append(names, name)
		}
		got := a.Attachments(names)
		for _, name := range hx.SortedKeys(want.Att) {
			w := want.Att[name]
			if w == nil {
				w = []string{}
			}
			if fmt.Sprint(got[name]) != fmt.Sprint(w) {
				add("att %s: host has pools %v attached, spec %v", name, got[name], w)
			}
		}
		for name, w := range want.Acct {
			b, _ := a.E.EC.AccountBalance(a.Acc(name))
			if n, ok := Scale(b); !ok || n != w {
				add("acct %s: host %d (exact=%v) spec %d", name, n, ok, w)
			}
		}
		for name, w := range want.Pool {
			bs, _ := a.E.EC.PoolBalances([]proto4.Account{a.Acc(name)})
			if n, ok := Scale(bs[0]); !ok || n != w {
				add("pool %s: host %d (exact=%v) spec %d", name, n, ok, w)
			}
		}
	}
	return diffs, real, nil
}

// Reset installs, directly through the Contractor interface, a doubly signed revision with the
// given sectors as roots (harness materialisation of a spec state; also used to repair the
// state after a known divergence so that the run can continue).
func (a *Adapter) Reset(ids []int, capSectors int) error {
	for _, id := range ids {
		a.EnsureStored(id)
	}
	// wait for the lock to be free, read the current revision
	st, err := a.E.State(a.K.ID)
	if err != nil {
		return fmt.Errorf("reset: %w", err)
	}
	rev := st.Revision
	roots := a.Roots(ids)
	rev.RevisionNumber++
	rev.Filesize = uint64(len(ids)) * proto4.SectorSize
	rev.Capacity = uint64(capSectors) * proto4.SectorSize
	if rev.Capacity < rev.Filesize {
		rev.Capacity = rev.Filesize
	}
	rev.FileMerkleRoot = proto4.MetaRoot(roots)
	h := a.E.CM.TipState().ContractSigHash(rev)
	rev.RenterSignature = a.K.RenterKey.SignHash(h)
	rev.HostSignature = a.E.HostKey.SignHash(h)
	if a.E.Stub != nil {
		a.E.Stub.arm(false)
		defer a.E.Stub.arm(true)
	}
	if err := a.E.C.ReviseV2Contract(a.K.ID, rev, roots, proto4.Usage{}); err != nil {
		return fmt.Errorf("reset: %w", err)
	}
	a.K.Rev = rev
	return nil
}

// bump returns the current revision with the revision number raised by one, signed by both
// parties (payouts untouched): what the harness hands to the Contractor when it installs state.
func (a *Adapter) bump() (types.V2FileContract, error) {
	st, err := a.E.State(a.K.ID)
	if err != nil {
		return types.V2FileContract{}, err
	}
	rev := st.Revision
	rev.RevisionNumber++
	h := a.E.CM.TipState().ContractSigHash(rev)
	rev.RenterSignature = a.K.RenterKey.SignHash(h)
	rev.HostSignature = a.E.HostKey.SignHash(h)
	return rev, nil
}

// InstallLedger puts account / pool balances and attachments in place directly through the
// Contractor interface (materialisation of a spec ledger state for Leg R).
func (a *Adapter) InstallLedger(want SpecState) error {
	if a.E.Stub != nil {
		a.E.Stub.arm(false)
		defer a.E.Stub.arm(true)
	}
	var accs, pools []proto4.AccountDeposit
	for _, name := range hx.SortedKeys(want.Acct) {
		if n := want.Acct[name]; n > 0 {
			accs = append(accs, proto4.AccountDeposit{Account: a.Acc(name), Amount: Units(uint64(n))})
		}
	}
	for _, name := range want.Pex {
		pools = append(pools, proto4.AccountDeposit{Account: a.Acc(name), Amount: Units(uint64(want.Pool[name]))})
	}
	if len(accs) > 0 {
		rev, err := a.bump()
		if err != nil {
			return err
		}
		if _, err := a.E.C.CreditAccountsWithContract(accs, a.K.ID, rev, proto4.Usage{}); err != nil {
			return err
		}
	}
	if len(pools) > 0 {
		rev, err := a.bump()
		if err != nil {
			return err
		}
		if _, err := a.E.C.CreditPoolsWithContract(pools, a.K.ID, rev, proto4.Usage{}); err != nil {
			return err
		}
	}
	for _, name := range hx.SortedKeys(want.Att) {
		var as []proto4.PoolAttachment
		for _, p := range want.Att[name] {
			as = append(as, proto4.PoolAttachment{Account: a.Acc(name), Pool: a.Acc(p)})
		}
		if len(as) > 0 {
			if err := a.E.C.AttachPools(as); err != nil {
				return err
			}
		}
	}
	return nil
}

// Attachments reads the account -> attached pools links of the reference contractor (verif hook
// testutil/verif_export.go) for the named accounts, as names.
func (a *Adapter) Attachments(accounts []string) map[string][]string {
	raw := a.E.EC.VerifAttachedPools()
	out := map[string][]string{}
	for _, n := range accounts {
		out[n] = []string{}
		for _, p := range raw[a.Acc(n)] {
			name, ok := a.names[p]
			if !ok {
				name = "?"
			}
			out[n] = append(out[n], name)
		}
	}
	return out
}

// SetBase records the baseline for relative comparison: the real revision now corresponds to
// the spec revision sb.
func (a *Adapter) SetBase(sb SpecRev) error {
	st, err := a.E.State(a.K.ID)
	if err != nil {
		return err
	}
	a.Base, a.SpecBase = st.Revision, sb
	return nil
}

// CloseAll hangs up every open session.
func (a *Adapter) CloseAll() {
	for id, s := range a.open {
		s.close(a)
		delete(a.open, id)
	}
}

var errNotImplemented = errors.New("not implemented")
