package chainx

import (
	"bytes"
	"fmt"
	"math/rand"
	"testing"

	"go.sia.tech/core/types"
	"verifharness/hx"
	"verifharness/mat"
)

// TestPreOak drives the regime the fork trees cannot reach: a network whose Oak difficulty hardfork
// is late (height 1500), so that the pre-Oak retargeting (every 500 blocks, from the timestamp of the
// 1000th ancestor, served by DBStore.AncestorTimestamp) is active on a chain of 1503 real blocks.
//
//	C01: after every block the reported tip state is byte-equal to the independent ledger's state
//	     (which computes ancestor timestamps itself), at the retarget and hardfork heights above all;
//	C02: a node that sits on its own 3-block fork and receives the whole chain in ONE AddBlocks call
//	     (ancestors not on its best chain: the walk-back path of AncestorTimestamp) ends on the same
//	     tip and state as the node that saw the chain linearly;
//	C04: every ApplyUpdate a subscriber receives carries exactly the state the manager holds for it.
func TestPreOak(t *testing.T) {
	res := hx.NewResult()
	defer res.Write()
	// once with the chain crossing the Oak hardfork itself (at a multiple of 500), once with the
	// hardfork beyond the chain (every retarget of the chain is a pre-Oak one)
	for _, oak := range []uint64{1500, 2500} {
		preOak(t, res, oak)
	}
	res.Traces = 2
}

func preOak(t *testing.T, res *hx.Result, oak uint64) {
	seed := hx.Seed()*9100 + 7 + int64(oak)
	rng := rand.New(rand.NewSource(seed))
	w := mat.NewWorld(mat.Params{Allow: 100000, Require: 100010, Final: 100020, Seed: seed, Oak: oak, SlowInterval: true})
	mismatch := func(sig, desc string) {
		res.Mismatch(sig, fmt.Sprintf("pre-Oak chain (seed %d, Oak hardfork at %d): %s", seed, oak, desc), map[string]any{"kind": "preoak", "seed": seed, "oak": oak})
	}
	defer func() {
		// a panic inside the manager or the store is a behaviour of the code under test
		if r := recover(); r != nil {
			mismatch("audit:c01:panic", fmt.Sprintf("the node panicked: %v", r))
		}
	}()
	n := hx.EnvInt("VERIF_PREOAK_N", 1503)
	l := mat.NewLedger(w.N, w.Genesis)
	var blocks []types.Block
	for h := 1; h <= n; h++ {
		bld := mat.NewBuilder(w, l, rng)
		if h%7 == 0 {
			bld.RandomOps(1)
		}
		b := bld.Block(rng.Intn(9))
		if err := l.Apply(b); err != nil {
			t.Fatalf("block %d does not apply on the independent ledger: %v", h, err)
		}
		blocks = append(blocks, b)
	}
	// node A: block by block, with a subscriber
	a := NewNode(w, false)
	var subIdx types.ChainIndex
	for i, b := range blocks {
		h := i + 1
		if err := a.CM.AddBlocks([]types.Block{b}); err != nil {
			mismatch("audit:c01:valid-block-rejected", fmt.Sprintf("linear node rejects valid block %d: %v", h, err))
			return
		}
		near := h%500 <= 2 || h%500 >= 498 || h%97 == 0 || h == n
		if near && !bytes.Equal(mat.StateBytes(a.CM.TipState()), mat.StateBytes(l.States[h])) {
			mismatch("audit:c01:tipstate", fmt.Sprintf("tip state after block %d differs from the independent replay (child target %v vs %v)", h, a.CM.TipState().ChildTarget, l.States[h].ChildTarget))
			return
		}
		res.Eval(fmt.Sprint(h))
		if h%100 == 0 || h == n {
			for subIdx != a.CM.Tip() {
				_, aus, err := a.CM.UpdatesSince(subIdx, 100)
				if err != nil {
					mismatch("driver:c04:preoak-poll", fmt.Sprintf("UpdatesSince(%v) failed: %v", subIdx, err))
					return
				}
				for _, u := range aus {
					cs, ok := a.CM.State(u.State.Index.ID)
					if !ok || !bytes.Equal(mat.StateBytes(cs), mat.StateBytes(u.State)) {
						mismatch("driver:c04:update-state", fmt.Sprintf("the ApplyUpdate for %v carries a state that differs from the manager's state for that block (child target %v vs %v)", u.State.Index, u.State.ChildTarget, cs.ChildTarget))
						return
					}
					subIdx = u.State.Index
				}
				res.Count("preoak_polls", 1)
			}
		}
	}
	// node B: on its own fork, then the whole chain in one batch
	bn := NewNode(w, false)
	lf := mat.NewLedger(w.N, w.Genesis)
	frng := rand.New(rand.NewSource(seed + 1))
	for h := 1; h <= 3; h++ {
		fb := mat.NewBuilder(w, lf, frng).Block(5)
		if err := lf.Apply(fb); err != nil {
			t.Fatal(err)
		}
		if err := bn.CM.AddBlocks([]types.Block{fb}); err != nil {
			t.Fatal(err)
		}
	}
	if err := bn.CM.AddBlocks(blocks); err != nil {
		mismatch("driver:c02:sidechain-batch", fmt.Sprintf("a node on a 3-block fork rejects the valid heavier chain delivered in one batch: %v", err))
		return
	}
	if bn.CM.Tip() != a.CM.Tip() || !bytes.Equal(mat.StateBytes(bn.CM.TipState()), mat.StateBytes(a.CM.TipState())) {
		mismatch("driver:c02:sidechain-batch", fmt.Sprintf("after the same best chain the batch-fed node is at %v, the linear node at %v (states equal: %v)", bn.CM.Tip(), a.CM.Tip(), bytes.Equal(mat.StateBytes(bn.CM.TipState()), mat.StateBytes(a.CM.TipState()))))
	}
	for _, h := range []uint64{499, 500, 501, 1000, 1001, 1499, 1500, 1501} {
		ia, _ := a.CM.BestIndex(h)
		sa, _ := a.CM.State(ia.ID)
		sb, ok := bn.CM.State(ia.ID)
		if !ok || !bytes.Equal(mat.StateBytes(sa), mat.StateBytes(sb)) {
			mismatch("driver:c02:sidechain-batch", fmt.Sprintf("stored state of best-chain block %d differs between the batch-fed and the linear node", h))
		}
	}
	res.Count("preoak_blocks", n)
}
