package chainx

import (
	"encoding/json"
	"fmt"
	"math/bits"
	"math/rand"
	"os"
	"path/filepath"
	"reflect"
	"sort"
	"testing"
	"time"

	"go.sia.tech/core/consensus"
	"go.sia.tech/core/types"
	"go.sia.tech/coreutils/chain"
	"verifharness/hx"
	"verifharness/mat"
)

// A TreeSpec is everything needed to rebuild a tree deterministically in another process.
type TreeSpec struct {
	Seed        int64      `json:"seed"`
	Allow       uint64     `json:"allow"`
	Require     uint64     `json:"require"`
	Final       uint64     `json:"final"`
	Blocks      int        `json:"blocks"`
	Warmup      int        `json:"warmup"`
	MaxLeaves   int        `json:"maxLeaves"`
	BadBlocks   int        `json:"badBlocks"`
	OpsPerBlk   int        `json:"opsPerBlk"`
	ForkProb    float64    `json:"forkProb"`
	WarmScripts [][]string `json:"warmScripts"`
	// Shape, if set, fixes the tree: Shape[i] is the parent of node i+2; Bad maps a node id to the
	// corruption applied to it (scripted shapes complement the random ones).
	Shape []int          `json:"shape"`
	Bad   map[int]string `json:"bad"`
	// Scripts maps a node id of a shaped tree to its transaction script
	Scripts map[int][]string `json:"scripts"`
	// UniqueWindows: no two live v1 contracts share a window end (see mat.World)
	UniqueWindows bool `json:"uniqueWindows"`
	// HeavyShort, if set, builds the directed "heavier but shorter" shape: a branch of HeavyShort[0]
	// slowly mined blocks and a branch of HeavyShort[1] (< [0]) quickly mined blocks on a network
	// with non-trivial difficulty; the shorter one ends up sufficiently heavier.
	HeavyShort [2]int `json:"heavyShort"`
	// Twins: node ids of a shaped tree that get an ID twin (same header, another body) appended
	// after the shape; RandTwins: number of twins added to random valid v2 blocks of a random tree
	Twins     []int `json:"twins"`
	RandTwins int   `json:"randTwins"`
}

func (ts TreeSpec) Build() *mat.Tree {
	if ts.HeavyShort[0] > 0 {
		t, _, _ := heavyShortTreeGap(ts.Seed, ts.HeavyShort[0], ts.HeavyShort[1], 2*time.Hour)
		return t
	}
	w := mat.NewWorld(mat.Params{Allow: ts.Allow, Require: ts.Require, Final: ts.Final, Seed: ts.Seed})
	w.UniqueWindows = ts.UniqueWindows
	rng := rand.New(rand.NewSource(ts.Seed))
	if len(ts.Shape) > 0 {
		t := mat.NewTree(w)
		for i, parent := range ts.Shape {
			t.Add(parent, rng, ts.OpsPerBlk, ts.Scripts[i+2], i%3, ts.Bad[i+2])
		}
		for _, c := range ts.Twins {
			t.AddTwin(c)
		}
		return t
	}
	if len(ts.WarmScripts) == 0 {
		return mat.RandomTree(w, rng, mat.GenSpec{Blocks: ts.Blocks, ForkProb: ts.ForkProb, MaxLeaves: ts.MaxLeaves, BadBlocks: ts.BadBlocks, OpsPerBlk: ts.OpsPerBlk, Warmup: ts.Warmup, Twins: ts.RandTwins})
	}
	// scripted linear prefix, then random growth on top
	t := mat.NewTree(w)
	tip := 1
	for _, sc := range ts.WarmScripts {
		tip = t.Add(tip, rng, 0, sc, 0, "").ID
	}
	mat.GrowRandom(t, rng, mat.GenSpec{Blocks: ts.Blocks, ForkProb: ts.ForkProb, MaxLeaves: ts.MaxLeaves, BadBlocks: ts.BadBlocks, OpsPerBlk: ts.OpsPerBlk, Warmup: len(ts.WarmScripts), Twins: ts.RandTwins}, []int{tip})
	return t
}

var regimes = [][3]uint64{{100, 110, 120}, {3, 5, 7}, {1, 1, 1}}

// smallSpecs are the trees of Leg M / Leg R: at most `blocks` non-genesis blocks each, in the
// three hardfork regimes (v1 only, straddling allow/require, v2 only), plus scripted trees that
// put several v1 contracts with a shared expiration height under a fork.
func smallSpecs(seed int64, perRegime, blocks int, sharedWindows bool) (out []TreeSpec) {
	defer func() {
		for i := range out {
			out[i].UniqueWindows = !sharedWindows
		}
	}()
	for ri, r := range regimes {
		for k := 0; k < perRegime; k++ {
			out = append(out, TreeSpec{Seed: seed*1000 + int64(ri*100+k), Allow: r[0], Require: r[1], Final: r[2],
				Blocks: blocks - 1, Warmup: 1, MaxLeaves: 3, BadBlocks: 2, OpsPerBlk: 2, ForkProb: 0.5, RandTwins: min(ri, k%2)})
		}
	}
	// scripted shapes: an invalid block at the end of / inside a heavier extension or fork, in every
	// regime (the partial-reorg-and-rollback shapes named in C01's why_tests_cant)
	shapes := []struct {
		shape []int
		bad   map[int]string
		twins []int
	}{
		{[]int{1, 2, 3, 4}, map[int]string{5: "tx-bad-signature"}, nil},            // extension whose last block is invalid
		{[]int{1, 2, 3, 4}, map[int]string{4: "v2-commitment"}, nil},               // invalid block inside an extension
		{[]int{1, 2, 3, 2, 5, 6}, map[int]string{7: "tx-bad-signature"}, nil},      // heavier fork with an invalid tip
		// a heavier fork that is applied part-way (its blocks have other element counts than the main
		// chain's at the same heights), fails at its tip and is rolled back; then the MAIN chain is
		// extended by a block spending old outputs (whatever the store cached during the aborted
		// reorg must not leak into the supplements it hands out afterwards)
		{[]int{1, 2, 3, 2, 5, 6, 4}, map[int]string{7: "tx-bad-signature"}, nil},
		{[]int{1, 2, 3, 2, 5, 6}, map[int]string{6: "tx-double-spend"}, nil},       // heavier fork with an invalid middle
		{[]int{1, 2, 3, 2, 5, 6}, map[int]string{5: "payout-value"}, nil},          // fork whose first block has a bad header
		{[]int{1, 2, 3, 4, 2, 6}, map[int]string{5: "ts-future", 7: "nonce"}, nil}, // future block on the main chain, bad header on the fork
		{[]int{1, 2, 3, 2, 5, 6}, map[int]string{5: "tx-overspend"}, nil},          // heavier fork, invalid first block, header-valid descendants
		// ID twins: a second (invalid) body for the ID of a valid block -- the poisoned body may be
		// delivered first and must be replaced by an honest re-delivery, never applied, never block the fork
		{[]int{1, 2, 2, 4, 5}, nil, []int{4}}, // twin of the first block of the heavier fork
		{[]int{1, 2, 3, 4}, nil, []int{5}},    // twin of the last block of an extension
		// a block without any transaction whose commitment is wrong (only ValidateBlock's commitment check rejects it)
		{[]int{1, 2, 3, 4}, map[int]string{5: "v2-empty-commitment"}, nil},
		// thorough tier only (perRegime > 1)
		{[]int{1, 2, 3, 2, 5, 6}, nil, []int{6, 7}}, // twins of the middle and tip of a heavier fork
		{[]int{1, 2, 3, 4}, nil, []int{4, 5}},       // twins inside and at the end of an extension
		{[]int{1, 2, 3, 2, 5, 6}, map[int]string{6: "v2-empty-commitment"}, nil},
	}
	for ri, r := range regimes {
		for si, sh := range shapes {
			if si >= perRegime*3+1 && ri != 2 {
				break // every shape in the v2-only regime (also the validated path), the first ones elsewhere
			}
			if si >= 11 && perRegime < 2 {
				break
			}
			bad := map[int]string{}
			for k, v := range sh.bad {
				if v == "v2-commitment" && r[0] > 50 {
					v = "tx-overspend" // v1-only regime: no v2 data to corrupt
				}
				if v != "" {
					bad[k] = v
				}
			}
			ts := TreeSpec{Seed: seed*1000 + 500 + int64(ri*10+si), Allow: r[0], Require: r[1], Final: r[2],
				OpsPerBlk: 2, Shape: sh.shape, Bad: bad, Twins: sh.twins, Scripts: scriptsFor(sh.shape)}
			if len(sh.shape) == 7 && sh.shape[6] == 4 && ri != 2 {
				// pick (deterministically) a seed for which the aborted fork's block at the tip's height
				// has an accumulator size that trims some proof of the later main-chain block differently
				for k := int64(0); k < 60; k++ {
					ts.Seed = seed*1000 + 500 + int64(ri*10+si) + 7000*k
					if abortedReorgSensitive(ts.Build()) {
						break
					}
				}
			}
			out = append(out, ts)
		}
	}
	if !sharedWindows {
		return out
	}
	// three v1 contracts sharing one expiration height; two are resolved by storage proofs in a block
	// that a heavier fork then reverts (the expiration-list discipline of db.go:601-651)
	for k := 0; k < 3; k++ {
		sc := map[int][]string{2: {"fc1w", "fc1w", "fc1w"}, 4: {"sp1"}, 5: {"sc1"}}
		if k == 2 {
			sc[4] = []string{"sp1", "sp1"}
		}
		out = append(out, TreeSpec{Seed: seed*1000 + 800 + int64(10*k), Allow: 100, Require: 110, Final: 120, OpsPerBlk: 0,
			Shape: []int{1, 2, 3, 3, 5}, Scripts: sc})
	}
	// a revision that does NOT move the window, of the first member of a shared expiration list: the
	// list must stay as it is on apply and on revert (linear and across a fork)
	out = append(out, TreeSpec{Seed: seed*1000 + 860, Allow: 100, Require: 110, Final: 120, OpsPerBlk: 0,
		Shape: []int{1, 2, 3, 2, 5, 6}, Scripts: map[int][]string{2: {"fc1w", "fc1w", "fc1w"}, 3: {"rev1f"}, 6: {"rev1f"}}})
	// a contract formed AND proven in one block (the element never outlives the block), on a main
	// chain that a heavier fork reverts, next to a contract that lives on; the fork then passes the
	// contract's window end
	out = append(out, TreeSpec{Seed: seed*1000 + 870, Allow: 100, Require: 110, Final: 120, OpsPerBlk: 0,
		Shape: []int{1, 2, 3, 2, 5, 6}, Scripts: map[int][]string{2: {"fc1w"}, 3: {"fcsp1"}, 4: {"sc1"}}})
	// the same, with the fork reaching the shared expiration height: the contracts then EXPIRE in the
	// history-dependent order (their missed-proof outputs get other leaf indices: the tip STATE
	// differs from a linear node's unless WithExpiringContractOrder pins the order)
	out = append(out, TreeSpec{Seed: seed*1000 + 850, Allow: 100, Require: 110, Final: 120, OpsPerBlk: 0,
		Shape: []int{1, 2, 3, 3, 5, 6}, Scripts: map[int][]string{2: {"fc1w", "fc1w", "fc1w"}, 4: {"sp1"}}})
	out = append(out, TreeSpec{Seed: seed*1000 + 801, Allow: 100, Require: 110, Final: 120, OpsPerBlk: 0,
		Shape: []int{1, 2, 2, 4, 5}, Scripts: map[int][]string{2: {"fc1w", "fc1w", "fc1w"}, 3: {"rev1b", "rev1b"}, 4: {"sc1"}, 5: {"rev1a"}}})
	// v1 contracts sharing expiration heights, then forks that resolve / re-window them
	for k := 0; k < perRegime; k++ {
		out = append(out, TreeSpec{Seed: seed*1000 + 900 + int64(k), Allow: 100, Require: 110, Final: 120,
			Blocks: blocks - 2, MaxLeaves: 3, BadBlocks: 0, OpsPerBlk: 2, ForkProb: 0.6,
			WarmScripts: [][]string{{"fc1", "fc1", "fc1"}, {"rev1b", "fc1"}}})
	}
	return out
}

// scriptsFor gives the aborted-reorg shape blocks of very different element counts on the two
// branches and a spend of old outputs in the block that extends the main chain afterwards.
func scriptsFor(shape []int) map[int][]string {
	if len(shape) == 7 && shape[6] == 4 {
		return map[int][]string{5: {"sc1", "sc1", "sc1", "sf1"}, 6: {"sc1", "sc1", "sc1", "sf1"}, 8: {"sc1", "sc1"}}
	}
	return nil
}

// abortedReorgSensitive: in the shape 1-2-3-4(-8) vs 2-5-6-7, does some v1 input of block 8 have a
// Merkle proof whose length differs between the accumulator sizes after block 4 and after block 6?
func abortedReorgSensitive(t *mat.Tree) bool {
	n4, n6, n8 := t.Node(4), t.Node(6), t.Node(8)
	if n4.L == nil || n6.L == nil || n8.Cls != "ok" {
		return false
	}
	a, b := n4.L.CS.Elements.NumLeaves, n6.L.CS.Elements.NumLeaves
	plen := func(leaf, num uint64) int { return bits.Len64(leaf^num) - 1 }
	for _, txn := range n8.Block.Transactions {
		for _, in := range txn.SiacoinInputs {
			if e, ok := n4.L.SC[in.ParentID]; ok && plen(e.StateElement.LeafIndex, a) != plen(e.StateElement.LeafIndex, b) {
				return true
			}
		}
		for _, in := range txn.SiafundInputs {
			if e, ok := n4.L.SF[in.ParentID]; ok && plen(e.StateElement.LeafIndex, a) != plen(e.StateElement.LeafIndex, b) {
				return true
			}
		}
	}
	return false
}

type genIn struct {
	PerRegime int `json:"perRegime"`
	Blocks    int `json:"blocks"`
}

// TestGenTrees materialises the small trees and writes their abstraction for TLC.
func TestGenTrees(t *testing.T) {
	res := hx.NewResult()
	defer res.Write()
	per := hx.EnvInt("VERIF_PER_REGIME", 2)
	blocks := hx.EnvInt("VERIF_TREE_BLOCKS", 5)
	specs := smallSpecs(hx.Seed(), per, blocks, os.Getenv("VERIF_PROP") == "C02")
	var trees []mat.TreeJSON
	for _, sp := range specs {
		tr := sp.Build()
		tj, _ := tr.Abstract()
		trees = append(trees, tj)
		res.Eval(hx.JSON(tj.Parent) + hx.JSON(tj.Cls))
	}
	dir := os.Getenv("VERIF_WORK")
	write := func(name string, v any) {
		b, _ := json.Marshal(v)
		if err := os.WriteFile(filepath.Join(dir, name), b, 0644); err != nil {
			t.Fatal(err)
		}
	}
	write("trees.json", trees)
	write("specs.json", specs)
	res.Sample(map[string]any{"spec": specs[0], "tree": trees[0]})
}

// ---------------------------------------------------------------- Leg R

type pcJ struct {
	K   string `json:"k"`
	Rev []int  `json:"rev"`
	App []int  `json:"app"`
	Old int    `json:"old"`
	Rb  bool   `json:"rb"`
}

type stateJ struct {
	T        int            `json:"t"`
	Blk      []string       `json:"blk"`
	Sta      []string       `json:"sta"`
	Best     []int          `json:"best"`
	Mem      int            `json:"mem"`
	Pc       pcJ            `json:"pc"`
	Ret      string         `json:"ret"`
	Led      *ledJ          `json:"led"`
	DurBest  []int          `json:"durbest"`
	Subs     subsJ          `json:"subs"`
	Notif    int            `json:"notif"`
	Lis      subsJ          `json:"lis"`
	MinReorg int            `json:"minreorg"`
}

type ledJ struct {
	Utxo []int   `json:"utxo"`
	FC   [][]int `json:"fc"`
	Exp  expJ    `json:"exp"`
}

// expJ is [Heights -> Seq(id)]: TLC prints a function with domain 0..n as a JSON object.
type expJ [][]int

func (e *expJ) UnmarshalJSON(b []byte) error {
	var arr [][]int
	if json.Unmarshal(b, &arr) == nil {
		*e = arr
		return nil
	}
	var m map[string][]int
	if err := json.Unmarshal(b, &m); err != nil {
		return err
	}
	out := make([][]int, len(m))
	for k, v := range m {
		var h int
		fmt.Sscanf(k, "%d", &h)
		if h >= len(out) {
			return fmt.Errorf("exp: height %d out of range", h)
		}
		if v == nil {
			v = []int{}
		}
		out[h] = v
	}
	*e = out
	return nil
}

// subsJ is [Subs -> block id]: an empty function is printed as [].
type subsJ map[string]int

func (s *subsJ) UnmarshalJSON(b []byte) error {
	m := map[string]int{}
	if err := json.Unmarshal(b, &m); err != nil {
		var arr []int
		if err2 := json.Unmarshal(b, &arr); err2 != nil || len(arr) != 0 {
			return err
		}
	}
	*s = m
	return nil
}

type actJ struct {
	Op    string `json:"op"`
	Batch []int  `json:"batch"`
	B     int    `json:"b"`
	H     int    `json:"h"`
	S     string `json:"s"`
	Max   int    `json:"max"`
	Rus   []int  `json:"rus"`
	Aus   []int  `json:"aus"`
	Err   string `json:"err"`
	Rb    bool   `json:"rb"`
}

type edgeJ struct {
	From stateJ `json:"from"`
	Act  actJ   `json:"act"`
	To   stateJ `json:"to"`
}

type replayIn struct {
	Specs []TreeSpec `json:"specs"`
	Paths [][]edgeJ  `json:"paths"`
}

func normLed(l *ledJ) string {
	if l == nil {
		return ""
	}
	u := append([]int{}, l.Utxo...)
	sort.Ints(u)
	fc := append([][]int{}, l.FC...)
	sort.Slice(fc, func(i, j int) bool { return fc[i][0] < fc[j][0] })
	if fc == nil {
		fc = [][]int{}
	}
	exp := make([][]int, len(l.Exp))
	for i := range l.Exp {
		exp[i] = append([]int{}, l.Exp[i]...)
	}
	return hx.JSON([]any{u, fc, exp})
}

func ledSets(l *ledJ) string {
	c := *l
	c.Exp = make([][]int, len(l.Exp))
	for i := range l.Exp {
		c.Exp[i] = append([]int{}, l.Exp[i]...)
		sort.Ints(c.Exp[i])
	}
	return normLed(&c)
}

type replayer struct {
	pinned     bool // the current path's manager has the linear expiration order pinned
	cacheEvery int // > 0: path pi runs on CacheDB(MemDB) when pi % cacheEvery == 1
	deep  bool // also compare all buckets with a linear twin after every completed call (C02)
	res   *hx.Result
	trees []*mat.Tree
	names []*mat.Names
	tj    []mat.TreeJSON
}

func (r *replayer) blocks(t *mat.Tree, ids []int) []types.Block {
	var bs []types.Block
	for _, id := range ids {
		bs = append(bs, t.Node(id).Block)
	}
	return bs
}

// compare checks the projection of the real node against the specification state.
func (r *replayer) compare(n *RNode, ti int, want stateJ, what string, replay any) bool {
	t, nm, tj := r.trees[ti], r.names[ti], r.tj[ti]
	p := n.Project(t, nm, tj.MaxH)
	mm := func(field string, got, exp any) bool {
		r.res.Mismatch("replay:"+what+":"+field, fmt.Sprintf("tree %d (%v): %s: real %s, spec %s", ti+1, tj.Cls, field, hx.JSON(got), hx.JSON(exp)), replay)
		return false
	}
	if !reflect.DeepEqual(p.Best, want.Best) {
		return mm("best", p.Best, want.Best)
	}
	if p.Mem != want.Mem {
		return mm("tip", p.Mem, want.Mem)
	}
	if !reflect.DeepEqual(p.Blk, want.Blk) {
		return mm("blk", p.Blk, want.Blk)
	}
	if !reflect.DeepEqual(p.Sta, want.Sta) {
		return mm("sta", p.Sta, want.Sta)
	}
	if want.Led != nil {
		got := &ledJ{Utxo: p.Led.Utxo, FC: p.Led.FC, Exp: p.Led.Exp}
		if ledSets(got) != ledSets(want.Led) {
			return mm("led-sets", got, want.Led)
		}
		if normLed(got) != normLed(want.Led) {
			return mm("led-order", got.Exp, want.Led.Exp)
		}
	}
	if want.Pc.K == "idle" && want.MinReorg != 0 && p.MinReorg != want.MinReorg {
		return mm("minreorg", p.MinReorg, want.MinReorg)
	}
	if want.Pc.K == "idle" {
		for name, cnt := range want.Lis {
			if p.Lis[name] != cnt {
				return mm("listeners", p.Lis, want.Lis)
			}
		}
	}
	if t.Node(p.Mem).L != nil && !p.StateOK && !p.OrderDiverged {
		return mm("tipstate", "differs from linear replay", "equal")
	}
	if p.OrderDiverged {
		r.res.Count("states_diverged_by_expiry_order", 1)
	}
	if r.pinned && t.Node(p.Mem).L != nil && !p.StateOK {
		return mm("pinned-order-state", "differs from linear replay although the linear expiration order is pinned (WithExpiringContractOrder)", "equal")
	}
	// property-level audits on the real node, independent of the specification state
	ok := true
	if want.Pc.K == "idle" && want.Ret != "panic" && want.Ret != "rollbackfailed" {
		for _, a := range n.Audit(t, nm, tj.MaxH, p) {
			r.res.Mismatch(a[0], fmt.Sprintf("tree %d: %s", ti+1, a[1]), replay)
			r.res.Count("audit_findings", 1)
			if a[0] != "audit:c02:expiry-order" {
				ok = false
			}
		}
		r.res.Count("audits", 1)
		if r.deep {
			for _, a := range n.TwinDiff(t, p.Mem) {
				r.res.Mismatch(a[0], fmt.Sprintf("tree %d tip %d: %s", ti+1, p.Mem, a[1]), replay)
				if a[0] != "audit:c02:expiry-order" {
					ok = false
				}
			}
			r.res.Count("twin_comparisons", 1)
		}
	}
	return ok
}

// runPath replays one path on a fresh real node.
func (r *replayer) runPath(pi int, path []edgeJ) {
	if len(path) == 0 {
		return
	}
	ti := path[0].From.T - 1
	t := r.trees[ti]
	// paths rotate over the backends: MemDB, chain.CacheDB over a MemDB, and (every 8th path)
	// a real Bolt file, whose content is read from the file when the spec crashes the process
	backend := "mem"
	if r.cacheEvery > 0 && pi%r.cacheEvery == 1 {
		backend = "cache"
	}
	if r.cacheEvery > 0 && pi%8 == 4 {
		backend = "bolt"
	}
	// C02 (deep replay): every other path runs with chain.WithExpiringContractOrder pinning the linear
	// order of every block's expiring contracts; the tip state must then ALWAYS be the linear one
	pinned := r.deep && pi%2 == 0
	MgrOpts = nil
	if pinned {
		MgrOpts = []chain.ManagerOption{chain.WithExpiringContractOrder(LinearExpiryOrder(t))}
		r.res.Count("paths_with_pinned_expiry_order", 1)
	}
	defer func() { MgrOpts = nil }()
	r.pinned = pinned
	n := NewNodeOn(t.W, backend, true)
	defer func() { n.DB.Close() }()
	replay := map[string]any{"kind": "path", "path": path, "backend": backend}
	notifBase := 0
	for i := 0; i < len(path); {
		e := path[i]
		r.res.Eval(fmt.Sprintf("%d|%s|%s", ti, hx.JSON(e.Act), hx.JSON(e.To.Best)))
		switch e.Act.Op {
		case "Submit", "SubmitV":
			// one AddBlocks call = this edge plus every following edge until the manager is idle again
			j := i + 1
			var wantOps []string
			flushAt := map[int]bool{}
			crashAt := 0
			nops := 0
			for j < len(path) && path[j-1].To.Pc.K == "reorg" {
				switch path[j].Act.Op {
				case "Revert", "Apply":
					nops++
					wantOps = append(wantOps, fmt.Sprintf("%s %d", path[j].Act.Op, path[j].Act.B))
				case "MidFlush":
					flushAt[nops] = true
				case "Crash":
					crashAt = nops
				}
				j++
				if path[j-1].Act.Op == "Crash" {
					break
				}
			}
			last := path[j-1]
			complete := last.To.Pc.K == "idle"
			if crashAt == 0 && last.Act.Op == "Crash" {
				// crash before any block operation of the call: the header-loop writes are lost
				crashAt = -1
			}
			var cls string
			var ops []StoreOp
			var detail string
			if crashAt == -1 {
				// emulate: perform nothing durable -- the call is abandoned before its first store commit.
				// The header loop only writes uncommitted data, so reopening from the last snapshot is exact.
				cls = "crash"
			} else {
				if e.Act.Op == "SubmitV" {
					var states []consensus.State
					for _, id := range e.Act.Batch {
						states = append(states, t.Node(id).State()) // ledger state, or header-derived on an invalid chain
					}
					cls, ops, detail = n.SubmitValidated(r.blocks(t, e.Act.Batch), states, flushAt, crashAt)
				} else {
					cls, ops, detail = n.Submit(r.blocks(t, e.Act.Batch), flushAt, crashAt)
				}
			}
			var gotOps []string
			auto := false
			ids := map[types.BlockID]int{}
			for _, nd := range t.Nodes {
				ids[nd.Block.ID()] = nd.Alias
			}
			for _, op := range ops {
				if op.Op == "Apply" || op.Op == "Revert" {
					gotOps = append(gotOps, fmt.Sprintf("%s %d", op.Op, ids[op.ID]))
				}
				if op.Op == "MidFlush" && op.Auto {
					auto = true
				}
			}
			if auto {
				// the store committed on its own (first block operation after a reopen: lastFlush is
				// zero): an allowed MidFlush the path did not script; stop comparing this path here
				r.res.Count("paths_truncated_by_auto_flush", 1)
				return
			}
			if cls == "crash" {
				// reopen from what survives (must be the last committed image)
				snap, diff := n.CrashImage()
				if diff != "" {
					r.res.Mismatch("replay:crash:uncommitted-visible", "backend "+n.Backend+": "+diff, replay)
				}
				nn, err := n.Reopen(snap, true)
				if err != nil {
					r.res.Mismatch("replay:crash:reopen", fmt.Sprintf("reopen failed: %v", err), replay)
					return
				}
				n = nn
				notifBase = last.To.Notif
				if !r.compare(n, ti, last.To, "crash", replay) {
					return
				}
				i = j
				continue
			}
			if complete {
				if !reflect.DeepEqual(gotOps, wantOps) && !(len(gotOps) == 0 && len(wantOps) == 0) {
					r.res.Mismatch("replay:submit:ops", fmt.Sprintf("tree %d batch %v: real store ops %v, spec steps %v", ti+1, e.Act.Batch, gotOps, wantOps), replay)
					return
				}
				if cls != last.To.Ret {
					r.res.Mismatch("replay:submit:ret:"+cls, fmt.Sprintf("tree %d (%v) batch %v: AddBlocks returned %q (%s), spec says %q", ti+1, r.tj[ti].Cls, e.Act.Batch, cls, detail, last.To.Ret), replay)
					return
				}
				if !r.compare(n, ti, last.To, "submit", replay) {
					return
				}
				if got := n.Notifs + notifBase; got != last.To.Notif {
					r.res.Mismatch("replay:submit:notif", fmt.Sprintf("OnReorg fired %d times in total, spec says %d", got, last.To.Notif), replay)
					return
				}
			} else {
				// the path ends inside the call: the real call ran to completion; the steps the path
				// contains must be a prefix of what the store saw
				if len(gotOps) < len(wantOps) || (len(wantOps) > 0 && !reflect.DeepEqual(gotOps[:len(wantOps)], wantOps)) {
					r.res.Mismatch("replay:submit:ops-prefix", fmt.Sprintf("tree %d batch %v: real store ops %v, spec prefix %v", ti+1, e.Act.Batch, gotOps, wantOps), replay)
				}
				return
			}
			i = j
		case "Crash":
			// crash while idle
			snap, diff := n.CrashImage()
			if diff != "" {
				r.res.Mismatch("replay:crash:uncommitted-visible", "backend "+n.Backend+": "+diff, replay)
			}
			nn, err := n.Reopen(snap, true)
			if err != nil {
				r.res.Mismatch("replay:crash:reopen", fmt.Sprintf("reopen failed: %v", err), replay)
				return
			}
			n = nn
			notifBase = e.To.Notif
			if !r.compare(n, ti, e.To, "crash", replay) {
				return
			}
			i++
		case "Sub", "Unsub":
			if e.Act.Op == "Sub" {
				n.Sub(e.Act.S)
			} else {
				n.Unsub(e.Act.S)
			}
			if !r.compare(n, ti, e.To, "listener", replay) {
				return
			}
			i++
		case "Prune":
			func() {
				defer func() {
					if rec := recover(); rec != nil {
						r.res.Mismatch("replay:prune:panic", fmt.Sprint(rec), replay)
					}
				}()
				n.CM.PruneBlocks(uint64(e.Act.H))
			}()
			if !r.compare(n, ti, e.To, "prune", replay) {
				return
			}
			i++
		case "Poll":
			if !r.poll(n, ti, e, replay) {
				return
			}
			i++
		default:
			r.res.Note("unexpected action %s outside a call", e.Act.Op)
			return
		}
	}
}

// poll executes UpdatesSince for the subscriber position the spec says and compares the
// returned block-id lists exactly.
func (r *replayer) poll(n *RNode, ti int, e edgeJ, replay any) bool {
	t := r.trees[ti]
	var idx types.ChainIndex
	if from := e.From.Subs[e.Act.S]; from != 0 {
		nd := t.Node(from)
		idx = types.ChainIndex{Height: nd.Height, ID: nd.Block.ID()}
	}
	ids := map[types.BlockID]int{}
	for _, nd := range t.Nodes {
		ids[nd.Block.ID()] = nd.Alias
	}
	rus, aus, err := n.CM.UpdatesSince(idx, e.Act.Max)
	gotErr := "ok"
	if err != nil {
		gotErr = "missing"
	}
	var gr, ga []int
	for _, u := range rus {
		gr = append(gr, ids[u.Block.ID()])
	}
	for _, u := range aus {
		ga = append(ga, ids[u.Block.ID()])
	}
	if gotErr != e.Act.Err || !reflect.DeepEqual(append([]int{}, gr...), append([]int{}, e.Act.Rus...)) || !reflect.DeepEqual(append([]int{}, ga...), append([]int{}, e.Act.Aus...)) {
		r.res.Mismatch("replay:poll:path", fmt.Sprintf("tree %d UpdatesSince(%d,%d): real (reverts %v applies %v err %v), spec (reverts %v applies %v err %s)", ti+1, e.From.Subs[e.Act.S], e.Act.Max, gr, ga, err, e.Act.Rus, e.Act.Aus, e.Act.Err), replay)
		return false
	}
	return true
}

// TestReplay replays the edge cover of Chain's state graph on real nodes.
func TestReplay(t *testing.T) {
	res := hx.NewResult()
	defer res.Write()
	var in replayIn
	if err := hx.ReadIn(&in); err != nil {
		t.Fatal(err)
	}
	r := &replayer{res: res, deep: os.Getenv("VERIF_DEEP") == "1", cacheEvery: 2}
	for _, sp := range in.Specs {
		tr := sp.Build()
		tj, nm := tr.Abstract()
		r.trees = append(r.trees, tr)
		r.names = append(r.names, nm)
		r.tj = append(r.tj, tj)
	}
	for pi, p := range in.Paths {
		r.runPath(pi, p)
		if pi == 0 {
			res.Sample(map[string]any{"tree": r.tj[p[0].From.T-1].Parent, "cls": r.tj[p[0].From.T-1].Cls, "path_actions": actions(p)})
		}
	}
	res.Count("paths", len(in.Paths))
	res.Count("trees", len(in.Specs))
}

func actions(p []edgeJ) []actJ {
	var a []actJ
	for _, e := range p {
		a = append(a, e.Act)
	}
	return a
}
