package chainx

import (
	"bytes"
	"encoding/json"
	"fmt"
	"math/rand"
	"os"
	"path/filepath"
	"sort"
	"testing"

	"go.sia.tech/core/consensus"
	"go.sia.tech/core/types"
	"go.sia.tech/coreutils/chain"
	"verifharness/hx"
	"verifharness/mat"
)

// ev is one NDJSON event of ChainTrace.tla.
type ev struct {
	Op       string   `json:"op"`
	T        int      `json:"t,omitempty"`
	Batch    []int    `json:"batch,omitempty"`
	B        int      `json:"b,omitempty"`
	H        int      `json:"h"`
	Ret      string   `json:"ret,omitempty"`
	Mem      int      `json:"mem,omitempty"`
	Best     []int    `json:"best,omitempty"`
	Blk      []string `json:"blk,omitempty"`
	Sta      []string `json:"sta,omitempty"`
	Utxo     []int    `json:"utxo"`
	FC       [][]int  `json:"fc"`
	Exp      [][]int  `json:"exp"`
	Notif    int      `json:"notif"`
	Lis      map[string]int `json:"lis"`
	StateOk  bool     `json:"stateOk"`
	S        string   `json:"s,omitempty"`
	From     int      `json:"from"`
	Max      int      `json:"max"`
	Rus      []int    `json:"rus"`
	Aus      []int    `json:"aus"`
	Err      string   `json:"err,omitempty"`
	ShadowOk bool     `json:"shadowOk"`
	Detail   string   `json:"detail,omitempty"`
}

func emptyEv(op string) ev {
	return ev{Op: op, Utxo: []int{}, FC: [][]int{}, Exp: [][]int{}, Rus: []int{}, Aus: []int{}, Lis: map[string]int{}}
}

// shadow is the ledger a subscriber folds from the update stream (C04): unspent elements with
// proofs maintained by UpdateElementProof of every update it receives.
type shadow struct {
	idx  types.ChainIndex
	node int
	sc   map[types.SiacoinOutputID]types.SiacoinElement
	sf   map[types.SiafundOutputID]types.SiafundElement
	fc   map[types.FileContractID]types.FileContractElement
	v2   map[types.FileContractID]types.V2FileContractElement
}

func newShadow() *shadow {
	return &shadow{sc: map[types.SiacoinOutputID]types.SiacoinElement{}, sf: map[types.SiafundOutputID]types.SiafundElement{},
		fc: map[types.FileContractID]types.FileContractElement{}, v2: map[types.FileContractID]types.V2FileContractElement{}}
}

type proofUpdater interface {
	UpdateElementProof(*types.StateElement)
}

func (s *shadow) updateProofs(u proofUpdater) {
	for id, e := range s.sc {
		u.UpdateElementProof(&e.StateElement)
		s.sc[id] = e.Copy()
	}
	for id, e := range s.sf {
		u.UpdateElementProof(&e.StateElement)
		s.sf[id] = e.Copy()
	}
	for id, e := range s.fc {
		u.UpdateElementProof(&e.StateElement)
		s.fc[id] = e.Copy()
	}
	for id, e := range s.v2 {
		u.UpdateElementProof(&e.StateElement)
		s.v2[id] = e.Copy()
	}
}

func (s *shadow) apply(au chain.ApplyUpdate) {
	for _, d := range au.SiacoinElementDiffs() {
		switch {
		case d.Created && d.Spent:
		case d.Spent:
			delete(s.sc, d.SiacoinElement.ID)
		default:
			s.sc[d.SiacoinElement.ID] = d.SiacoinElement.Copy()
		}
	}
	for _, d := range au.SiafundElementDiffs() {
		switch {
		case d.Created && d.Spent:
		case d.Spent:
			delete(s.sf, d.SiafundElement.ID)
		default:
			s.sf[d.SiafundElement.ID] = d.SiafundElement.Copy()
		}
	}
	for _, d := range au.FileContractElementDiffs() {
		switch {
		case d.Created && d.Resolved:
		case d.Resolved:
			delete(s.fc, d.FileContractElement.ID)
		case d.Revision != nil:
			r, _ := d.RevisionElement()
			s.fc[d.FileContractElement.ID] = r.Copy()
		default:
			s.fc[d.FileContractElement.ID] = d.FileContractElement.Copy()
		}
	}
	for _, d := range au.V2FileContractElementDiffs() {
		switch {
		case d.Resolution != nil:
			delete(s.v2, d.V2FileContractElement.ID)
		case d.Revision != nil:
			e := d.V2FileContractElement.Copy()
			e.V2FileContract = *d.Revision
			s.v2[e.ID] = e
		default:
			s.v2[d.V2FileContractElement.ID] = d.V2FileContractElement.Copy()
		}
	}
	s.updateProofs(au)
	s.idx = au.State.Index
}

func (s *shadow) revert(ru chain.RevertUpdate) {
	for _, d := range ru.SiacoinElementDiffs() {
		switch {
		case d.Created && d.Spent:
		case d.Spent:
			s.sc[d.SiacoinElement.ID] = d.SiacoinElement.Copy()
		default:
			delete(s.sc, d.SiacoinElement.ID)
		}
	}
	for _, d := range ru.SiafundElementDiffs() {
		switch {
		case d.Created && d.Spent:
		case d.Spent:
			s.sf[d.SiafundElement.ID] = d.SiafundElement.Copy()
		default:
			delete(s.sf, d.SiafundElement.ID)
		}
	}
	for _, d := range ru.FileContractElementDiffs() {
		switch {
		case d.Created && d.Resolved:
		case d.Created:
			delete(s.fc, d.FileContractElement.ID)
		default: // resolved or revised: the element as it was before the block
			s.fc[d.FileContractElement.ID] = d.FileContractElement.Copy()
		}
	}
	for _, d := range ru.V2FileContractElementDiffs() {
		switch {
		case d.Created:
			delete(s.v2, d.V2FileContractElement.ID)
		default:
			s.v2[d.V2FileContractElement.ID] = d.V2FileContractElement.Copy()
		}
	}
	s.updateProofs(ru)
	s.idx = ru.State.Index
}

// equalsLedger: the shadow's elements are exactly the ledger's, and every proof verifies at the tip.
func (s *shadow) equalsLedger(l *mat.Ledger) error {
	if len(s.sc) != len(l.SC) || len(s.sf) != len(l.SF) || len(s.fc) != len(l.FC) || len(s.v2) != len(l.V2FC) {
		return fmt.Errorf("element counts differ: shadow sc/sf/fc/v2 = %d/%d/%d/%d, ledger %d/%d/%d/%d", len(s.sc), len(s.sf), len(s.fc), len(s.v2), len(l.SC), len(l.SF), len(l.FC), len(l.V2FC))
	}
	enc := func(e types.EncoderTo) []byte {
		var buf bytes.Buffer
		en := types.NewEncoder(&buf)
		e.EncodeTo(en)
		en.Flush()
		return buf.Bytes()
	}
	var sces []types.SiacoinElement
	for id, e := range s.sc {
		le, ok := l.SC[id]
		if !ok || !bytes.Equal(enc(e), enc(le)) {
			return fmt.Errorf("siacoin element %v differs from the ledger's (leaf %d vs %d)", id, e.StateElement.LeafIndex, le.StateElement.LeafIndex)
		}
		sces = append(sces, e)
	}
	var sfes []types.SiafundElement
	for id, e := range s.sf {
		le, ok := l.SF[id]
		if !ok || !bytes.Equal(enc(e), enc(le)) {
			return fmt.Errorf("siafund element %v differs from the ledger's", id)
		}
		sfes = append(sfes, e)
	}
	for id, e := range s.fc {
		le, ok := l.FC[id]
		if !ok || !bytes.Equal(enc(e), enc(le)) {
			return fmt.Errorf("file contract element %v differs from the ledger's", id)
		}
	}
	var v2 []types.V2FileContractElement
	for id, e := range s.v2 {
		le, ok := l.V2FC[id]
		if !ok || !bytes.Equal(enc(e), enc(le)) {
			return fmt.Errorf("v2 contract element %v differs from the ledger's", id)
		}
		v2 = append(v2, e)
	}
	return mat.VerifyElements(l.CS, sces, sfes, v2)
}

type history struct {
	pinned bool // manager created with the linear expiration order pinned
	t     *mat.Tree
	nm    *mat.Names
	tj    mat.TreeJSON
	ti    int // 1-based index into the shard's tree list
	n     *RNode
	twin  *RNode // never pruned, never crashed: receives the same submissions (C19)
	ids   map[types.BlockID]int
	subs  map[string]*shadow
	tw    *hx.TraceWriter
	res   *hx.Result
	rng   *rand.Rand
	notif int
	seed  int64
	mode  string
	pruned bool
	diverged       bool // node and unpruned twin legitimately differ (a reorg needed pruned bodies)
	tipBefore      int
	minReorgBefore int
}

// forkPoint returns the last common block of the chains ending in a and b.
func (h *history) forkPoint(a, b int) int {
	pa, pb := h.t.PathTo(a), h.t.PathTo(b)
	f := 1
	for i := 0; i < len(pa) && i < len(pb) && pa[i] == pb[i]; i++ {
		f = pa[i]
	}
	return f
}

func (h *history) emitProjection(op, ret string) Projection {
	p := h.n.Project(h.t, h.nm, h.tj.MaxH)
	e := emptyEv(op)
	e.Ret, e.Mem, e.Best, e.Blk, e.Sta = ret, p.Mem, p.Best, p.Blk, p.Sta
	e.Utxo, e.FC, e.Exp = p.Led.Utxo, p.Led.FC, p.Led.Exp
	e.Notif = h.notif + p.Notif
	e.Lis = p.Lis
	e.StateOk = p.StateOK || p.OrderDiverged || h.t.Node(max(p.Mem, 1)).L == nil
	if h.pinned && !p.StateOK && h.t.Node(max(p.Mem, 1)).L != nil {
		e.StateOk = false
		h.mismatch("driver:c02:pinned-order-state", fmt.Sprintf("with WithExpiringContractOrder pinning the linear order, the state of tip %d still differs from the linear ledger's", p.Mem))
	}
	h.tw.Emit(e)
	return p
}

func (h *history) mismatch(sig, desc string) {
	h.res.Mismatch(sig, fmt.Sprintf("history seed %d (tree of %d blocks, regime allow/require %d/%d): %s", h.seed, h.tj.N, h.t.W.N.HardforkV2.AllowHeight, h.t.W.N.HardforkV2.RequireHeight, desc),
		map[string]any{"kind": "driver", "seed": h.seed})
}

// submit performs one AddBlocks call on the node (and the twin), logging every store operation.
func (h *history) submit(batch []int, midFlushProb float64) {
	var blocks []types.Block
	for _, id := range batch {
		blocks = append(blocks, h.t.Node(id).Block)
	}
	e := emptyEv("Submit")
	e.Batch = batch
	h.n.Store.flushAll = func() bool { return h.rng.Float64() < midFlushProb }
	h.tipBefore = h.ids[h.n.CM.Tip().ID]
	h.minReorgBefore = h.ids[h.n.CM.MinReorgIndex().ID]
	// pre-validated path (what the syncer's instant sync does) for eligible batches
	validated := h.rng.Float64() < 0.35
	var states []consensus.State
	for i, id := range batch {
		nd := h.t.Node(id)
		// eligible: header-valid v2 blocks above the require height in parent order; a block on an
		// invalid chain qualifies only as a descendant of the invalid block (a caller that validated
		// on top of something the manager never validated), with its header-derived state
		if nd.Cls != "ok" || nd.Block.V2 == nil || !nd.HasState || nd.Height <= h.t.W.N.HardforkV2.RequireHeight || (i > 0 && nd.Parent != batch[i-1]) ||
			(!nd.ValidChain && h.t.Node(nd.Parent).ValidChain) {
			validated = false
			break
		}
		states = append(states, nd.State())
	}
	if validated {
		e.Op = "SubmitV"
	}
	h.tw.Emit(e)
	var cls, detail string
	var ops []StoreOp
	if validated {
		cls, ops, detail = h.n.SubmitValidated(blocks, states, nil, 0)
		h.res.Count("validated_submissions", 1)
	} else {
		cls, ops, detail = h.n.Submit(blocks, nil, 0)
	}
	for _, op := range ops {
		o := emptyEv(op.Op)
		if op.Op == "Apply" || op.Op == "Revert" {
			o.B = h.ids[op.ID]
		}
		h.tw.Emit(o)
	}
	p := h.emitProjection("Done", cls)
	if cls == "panic" {
		h.mismatch("driver:c01:panic", fmt.Sprintf("AddBlocks(%v) panicked: %s", batch, detail))
		return
	}
	for _, a := range h.n.Audit(h.t, h.nm, h.tj.MaxH, p) {
		h.mismatch(a[0], a[1])
	}
	if h.mode != "durable" && h.mode != "ledger" {
		h.queries()
	}
	if h.twin != nil {
		tcls, _, _ := h.twin.Submit(blocks, nil, 0)
		tp := h.twin.Project(h.t, h.nm, h.tj.MaxH)
		if !h.pruned && (tcls != cls || tp.Mem != p.Mem) {
			h.mismatch("driver:c19:twin-diverged", fmt.Sprintf("before any prune the twin returned %s tip %d, node returned %s tip %d for batch %v", tcls, tp.Mem, cls, p.Mem, batch))
		}
		if h.pruned && !h.diverged && (cls != tcls || tp.Mem != p.Mem) {
			// the pruned node may refuse what the twin accepts only if the reorg needs a pruned body:
			// fork point below the minimum reorg index reported before the call
			fork := h.forkPoint(h.tipBefore, tp.Mem)
			if h.t.Node(fork).Height >= h.t.Node(h.minReorgBefore).Height {
				h.mismatch("driver:c19:reorg-above-minreorg", fmt.Sprintf("after pruning, batch %v: node returned %s (tip %d), unpruned twin %s (tip %d); fork point %d is not below the reported minimum reorg index %d", batch, cls, p.Mem, tcls, tp.Mem, fork, h.minReorgBefore))
			}
			h.diverged = true
		}
		if h.pruned && !h.diverged && tp.Mem == p.Mem && !bytes.Equal(mat.StateBytes(h.n.CM.TipState()), mat.StateBytes(h.twin.CM.TipState())) {
			h.mismatch("driver:c19:twin-state", fmt.Sprintf("pruned node and unpruned twin disagree on the state of tip %d", p.Mem))
		}
	}
}

// queries logs the answers of the read-only queries the syncer relies on.
func (h *history) queries() {
	defer func() {
		if r := recover(); r != nil {
			h.mismatch("driver:c19:query-panic", fmt.Sprintf("a read-only query panicked: %v", r))
		}
	}()
	name := func(id types.BlockID) int { return h.ids[id] }
	hist, _ := h.n.CM.History()
	he := emptyEv("Hist")
	for _, id := range hist {
		he.Rus = append(he.Rus, name(id))
	}
	h.tw.Emit(he)
	nd := h.t.Node(1 + h.rng.Intn(len(h.t.Nodes)))
	mx := h.rng.Intn(7)
	hdrs, rem, err := h.n.CM.Headers(types.ChainIndex{Height: nd.Height, ID: nd.Block.ID()}, uint64(mx))
	qe := emptyEv("Hdrs")
	qe.B, qe.Max, qe.Err, qe.From = nd.Alias, mx, "ok", int(rem) // queries name IDs
	if err != nil {
		qe.Err = "notbest"
	}
	for _, bh := range hdrs {
		qe.Aus = append(qe.Aus, name(bh.ID()))
	}
	h.tw.Emit(qe)
	var hs []types.BlockID
	be := emptyEv("Blks")
	for i := 0; i < 1+h.rng.Intn(4); i++ {
		x := h.t.Node(1 + h.rng.Intn(len(h.t.Nodes)))
		hs = append(hs, x.Block.ID())
		be.Rus = append(be.Rus, x.Alias)
	}
	mx = h.rng.Intn(6)
	blocks, rem, err := h.n.CM.BlocksForHistory(hs, uint64(mx))
	be.Max, be.Err, be.From = mx, "ok", int(rem)
	if err != nil {
		be.Err = "missing"
	}
	for _, b := range blocks {
		be.Aus = append(be.Aus, name(b.ID()))
	}
	h.tw.Emit(be)
}

// poll asks for updates for subscriber s, folds them into its shadow ledger and logs the result.
func (h *history) poll(s string, maxN int) {
	sh := h.subs[s]
	rus, aus, err := h.n.CM.UpdatesSince(sh.idx, maxN)
	e := emptyEv("Poll")
	e.S, e.From, e.Max = s, sh.node, maxN
	e.Err = "ok"
	if err != nil {
		e.Err = "missing"
	}
	for _, u := range rus {
		e.Rus = append(e.Rus, h.ids[u.Block.ID()])
		sh.revert(u)
		sh.node = h.ids[u.State.Index.ID]
	}
	for _, u := range aus {
		e.Aus = append(e.Aus, h.ids[u.Block.ID()])
		sh.apply(u)
		sh.node = h.ids[u.State.Index.ID]
	}
	e.ShadowOk = true
	if err == nil && sh.idx == h.n.CM.Tip() {
		if nd := h.t.Node(sh.node); nd.L != nil {
			if err := sh.equalsLedger(nd.L); err != nil {
				e.ShadowOk = false
				h.mismatch("driver:c04:shadow", fmt.Sprintf("subscriber %s caught up to tip %d but its folded ledger is wrong: %v", s, sh.node, err))
			}
		}
		h.res.Count("subscriber_catchups", 1)
	}
	h.tw.Emit(e)
}

// crash reopens the node from its last committed image (C03) and audits it.
func (h *history) crash() {
	if len(h.n.DB.Snaps) == 0 {
		return
	}
	snap, diff := h.n.CrashImage()
	if diff != "" {
		h.mismatch("driver:c03:uncommitted-visible", "backend "+h.n.Backend+": "+diff)
	}
	h.notif += h.n.Notifs
	nn, err := h.n.Reopen(snap, true)
	h.tw.Emit(emptyEv("Crash"))
	if err != nil {
		h.mismatch("driver:c03:reopen", fmt.Sprintf("committed image does not reopen: %v", err))
		return
	}
	h.n = nn
	for k := range h.subs {
		h.subs[k] = newShadow()
	}
	p := h.emitProjection("Reopened", "ok")
	for _, a := range h.n.Audit(h.t, h.nm, h.tj.MaxH, p) {
		if a[0] == "audit:c02:expiry-order" {
			continue // the ORDER of an expiration list is C02's statement (and open finding), not C03's
		}
		h.mismatch("driver:c03:"+a[0], "after reopening the committed image: "+a[1])
	}
	h.res.Count("reopens", 1)
}

// auditSnapshots reopens EVERY committed image of the history (C03), audits it and lets it catch
// up with all blocks of the tree.
func (h *history) auditSnapshots(all []int, uniqueBest int) {
	for si, snap := range h.n.DB.Snaps {
		nn, err := h.n.Reopen(snap, false)
		if err != nil {
			h.mismatch("driver:c03:reopen", fmt.Sprintf("commit %d does not reopen: %v", si, err))
			continue
		}
		defer nn.DB.Close()
		p := nn.Project(h.t, h.nm, h.tj.MaxH)
		for _, a := range nn.Audit(h.t, h.nm, h.tj.MaxH, p) {
			if a[0] == "audit:c02:expiry-order" {
				continue
			}
			h.mismatch("driver:c03:"+a[0], fmt.Sprintf("commit %d of the history reopened: %s", si, a[1]))
		}
		before := p.Mem
		for _, id := range all {
			cls, _, detail := nn.Submit([]types.Block{h.t.Node(id).Block}, nil, 0)
			if cls == "panic" {
				h.mismatch("driver:c03:catchup-panic", fmt.Sprintf("commit %d: catch-up panicked on block %d: %s", si, id, detail))
				break
			}
		}
		q := nn.Project(h.t, h.nm, h.tj.MaxH)
		for _, a := range nn.Audit(h.t, h.nm, h.tj.MaxH, q) {
			if a[0] == "audit:c02:expiry-order" {
				continue
			}
			h.mismatch("driver:c03:catchup:"+a[0], fmt.Sprintf("commit %d after catch-up: %s", si, a[1]))
		}
		if uniqueBest != 0 && q.Mem != uniqueBest && !h.pruned {
			h.mismatch("driver:c03:catchup-tip", fmt.Sprintf("commit %d (tip %d) caught up to tip %d, the uninterrupted run reaches %d", si, before, q.Mem, uniqueBest))
		}
		h.res.Count("snapshot_audits", 1)
	}
}

// uniqueHeaviest returns the valid node that is sufficiently heavier than every other valid node
// not on its own chain (0 if there is none: ties are legitimately history dependent).
func uniqueHeaviest(t *mat.Tree) int {
	for _, x := range t.Nodes {
		if !x.ValidChain {
			continue
		}
		anc := map[int]bool{}
		for _, id := range t.PathTo(x.ID) {
			anc[id] = true
		}
		ok := true
		for _, y := range t.Nodes {
			if y.ValidChain && !anc[y.ID] && !t.Heavier(x.ID, y.ID) {
				ok = false
				break
			}
		}
		if ok {
			return x.ID
		}
	}
	return 0
}

// TestDriver runs randomised histories on real nodes and records them for ChainTrace.tla.
// VERIF_MODE selects the emphasis: core (C01), ledger (C02: twin bucket comparison after every
// call), durable (C03: mid-reorg commits, crashes, every snapshot reopened), subs (C04), prune (C19).
func TestDriver(t *testing.T) {
	res := hx.NewResult()
	defer res.Write()
	mode := hx.Env("VERIF_MODE", "core")
	nHist := hx.EnvInt("VERIF_HISTORIES", 40)
	shards := hx.EnvInt("VERIF_SHARDS", 8)
	minB, maxB := hx.EnvInt("VERIF_MIN_BLOCKS", 20), hx.EnvInt("VERIF_MAX_BLOCKS", 50)
	dir := os.Getenv("VERIF_WORK")
	type shard struct {
		tw    *hx.TraceWriter
		trees []mat.TreeJSON
	}
	sh := make([]*shard, shards)
	for i := range sh {
		tw, err := hx.NewTraceWriter(filepath.Join(dir, fmt.Sprintf("chaintrace-%d.ndjson", i)))
		if err != nil {
			t.Fatal(err)
		}
		sh[i] = &shard{tw: tw}
	}
	base := hx.Seed()*100000 + int64(len(mode))*1000
	directed := 0
	if mode == "core" && os.Getenv("VERIF_ONLY_SEED") == "" {
		directed = 1 // plus the directed heavier-but-shorter history
	}
	if mode == "ledger" && os.Getenv("VERIF_ONLY_SEED") == "" {
		// plus two directed histories in which contracts sharing an expiration height EXPIRE after a
		// reorg changed their list order (the state-level face of the C02 finding): once as the code
		// is, once with WithExpiringContractOrder pinning the linear order (state must be linear)
		// ... and a directed aborted reorg: a heavier fork applied part-way and rolled back, then the main
		// chain extended by a block spending old outputs (supplements handed out after the rollback)
		directed = 3
	}
	if mode == "subs" && os.Getenv("VERIF_ONLY_SEED") == "" {
		// plus the directed expiry history on a manager with the linear expiration order pinned
		// (WithExpiringContractOrder) while the STORE's own order differs: the update stream must
		// carry the order the manager applied (subscribers' proofs verify at the tip)
		directed = 1
	}
	for hi := 0; hi < nHist+directed; hi++ {
		seed := base + int64(hi)
		if rs := os.Getenv("VERIF_ONLY_SEED"); rs != "" {
			fmt.Sscan(rs, &seed)
		}
		rng := rand.New(rand.NewSource(seed))
		reg := [][3]uint64{{1000, 1010, 1020}, {8, 14, 18}, {1, 1, 1}, {5, 6, 7}}[rng.Intn(4)]
		spec := TreeSpec{Seed: seed, Allow: reg[0], Require: reg[1], Final: reg[2], Blocks: minB + rng.Intn(maxB-minB+1), Warmup: 3,
			MaxLeaves: 4, BadBlocks: 4, OpsPerBlk: 3, ForkProb: 0.18, UniqueWindows: mode != "ledger", RandTwins: 3}
		if hi >= nHist && mode == "core" {
			// total work diverging from chain length: the tip must move to the sufficiently heavier
			// branch although it is SHORTER (the weight gate compares work, not height)
			spec = TreeSpec{Seed: seed, HeavyShort: [2]int{165, 150}}
		}
		if hi >= nHist && (mode == "ledger" || mode == "subs") {
			spec = TreeSpec{Seed: seed, Allow: 100, Require: 110, Final: 120, OpsPerBlk: 0,
				Shape: []int{1, 2, 3, 3, 5, 6}, Scripts: map[int][]string{2: {"fc1w", "fc1w", "fc1w"}, 4: {"sp1"}}}
		}
		if mode == "durable" && reg[0] == 1000 {
			// v1-only histories also put several contracts under one expiration height (the
			// per-height lists db.go edits in place)
			spec.UniqueWindows = false
		}
		tr := spec.Build()
		tj, nm := tr.Abstract()
		s := sh[hi%shards]
		s.trees = append(s.trees, tj)
		// C03: the store must be durable-consistent on a write-back cache too (chain.CacheDB over the
		// database: what survives the process is the database, not what the cache shows)
		// C02: with chain.WithExpiringContractOrder pinning the linear order of every block's expiring
		// contracts (the option the repository offers against the history-dependent expiration order),
		// the tip state must be byte-equal to the linear ledger's after ANY history
		pinned := mode == "ledger" && hi%2 == 1
		if hi >= nHist && mode == "ledger" {
			pinned = hi == nHist+1
		}
		if hi == nHist+2 && mode == "ledger" {
			spec = TreeSpec{Seed: seed, Allow: 100, Require: 110, Final: 120, OpsPerBlk: 2,
				Shape: []int{1, 2, 3, 2, 5, 6, 4}, Bad: map[int]string{7: "tx-bad-signature"}, Scripts: scriptsFor([]int{1, 2, 3, 2, 5, 6, 4})}
			for k := int64(0); k < 60; k++ {
				spec.Seed = seed + 7000*k
				if abortedReorgSensitive(spec.Build()) {
					break
				}
			}
			tr = spec.Build()
			tj, nm = tr.Abstract()
			s.trees[len(s.trees)-1] = tj
		}
		if hi >= nHist && mode == "subs" {
			pinned = true
		}
		MgrOpts = nil
		if pinned {
			MgrOpts = []chain.ManagerOption{chain.WithExpiringContractOrder(LinearExpiryOrder(tr))}
			res.Count("histories_with_pinned_expiry_order", 1)
		}
		backend := "mem"
		if mode == "durable" {
			backend = []string{"mem", "cache", "bolt"}[hi%3]
			res.Count("histories_on_"+backend, 1)
		}
		h := &history{t: tr, nm: nm, tj: tj, ti: len(s.trees), n: NewNodeOn(tr.W, backend, true), ids: map[types.BlockID]int{}, subs: map[string]*shadow{},
			tw: s.tw, res: res, rng: rng, seed: seed, mode: mode, pinned: pinned}
		for _, nd := range tr.Nodes {
			h.ids[nd.Block.ID()] = nd.Alias
		}
		for _, k := range []string{"s1", "s2", "s3"} {
			h.subs[k] = newShadow()
		}
		if mode == "prune" {
			h.twin = NewNode(tr.W, false)
		}
		r0 := emptyEv("Reset")
		r0.T = h.ti
		h.tw.Emit(r0)
		// submission schedule: every block is offered at least once; order mostly follows the ids
		// (parents first) with orphans-first swaps, duplicates and mixed-branch batches
		var order []int
		for id := 2; id <= len(tr.Nodes); id++ {
			if tr.Node(id).Alias == id {
				order = append(order, id)
			}
		}
		// ID twins (another body for a known ID): mostly offered BEFORE the honest body (the poisoned
		// body is stored first and must be healed), sometimes right after it or much later
		for _, nd := range tr.Nodes {
			if nd.Alias == nd.ID {
				continue
			}
			pos := 0
			for i, id := range order {
				if id == nd.Alias {
					pos = i
				}
			}
			switch x := rng.Float64(); {
			case x < 0.6:
			case x < 0.8:
				pos++
			default:
				pos += 1 + rng.Intn(len(order)-pos)
			}
			order = append(order[:pos], append([]int{nd.ID}, order[pos:]...)...)
			res.Count("id_twins", 1)
		}
		for i := range order {
			if hi >= nHist {
				break // directed history: the long branch first, then the short heavy one, in order
			}
			if rng.Float64() < 0.12 && i+1 < len(order) {
				order[i], order[i+1] = order[i+1], order[i] // child before parent
			}
		}
		midP := 0.0
		if mode == "durable" {
			midP = 0.5
		}
		for i := 0; i < len(order); {
			k := 1 + rng.Intn(4)
			if hi >= nHist && (mode == "ledger" || mode == "subs") {
				k = 1 // directed: block by block, the main branch first
			}
			if i+k > len(order) {
				k = len(order) - i
			}
			batch := append([]int{}, order[i:i+k]...)
			if rng.Float64() < 0.1 {
				batch = append(batch, order[rng.Intn(i+1)]) // duplicate / mixed branch
			}
			h.submit(batch, midP)
			i += k
			if (mode == "subs" || mode == "core") && rng.Float64() < 0.35 {
				// callbacks come and go between submissions (OnReorg / OnPoolChange and their cancel
				// functions); every one registered at the time of a reorg must be called once
				name := LisNames[rng.Intn(len(LisNames))]
				le := emptyEv("Sub")
				le.S = name
				if h.n.LisCounts()[name] >= 0 {
					le.Op = "Unsub"
					h.n.Unsub(name)
				} else {
					h.n.Sub(name)
				}
				h.tw.Emit(le)
				res.Count("listener_changes", 1)
			}
			switch {
			case (mode == "subs" || mode == "core") && rng.Float64() < 0.7:
				sn := []string{"s1", "s2", "s3"}[rng.Intn(3)]
				for c := 0; c < 1+rng.Intn(3); c++ {
					h.poll(sn, 1+rng.Intn(5))
				}
			case mode == "durable" && rng.Float64() < 0.15:
				h.crash()
				// the twin is the uninterrupted run; after a crash the node may legitimately lag
				// until blocks are re-offered, so re-offer everything submitted so far
				for _, id := range order[:i] {
					h.submit([]int{id}, 0)
				}
			case mode == "prune" && rng.Float64() < 0.3:
				ph := rng.Intn(int(h.n.CM.Tip().Height) + 3)
				func() {
					defer func() {
						if r := recover(); r != nil {
							h.mismatch("driver:c19:prune-panic", fmt.Sprintf("PruneBlocks(%d) panicked: %v", ph, r))
						}
					}()
					h.n.CM.PruneBlocks(uint64(ph))
				}()
				pe := emptyEv("Prune")
				pe.H = ph
				h.tw.Emit(pe)
				h.pruned = true
				me := emptyEv("MinReorg")
				me.B = h.ids[h.n.CM.MinReorgIndex().ID]
				h.tw.Emit(me)
				h.emitProjection("Done", "ok")
				if rng.Float64() < 0.5 {
					// re-offer an already known (possibly pruned) block: C01's "duplicated"
					h.submit([]int{order[rng.Intn(i)]}, 0)
				}
			}
			if mode == "ledger" {
				p := h.n.Project(tr, nm, tj.MaxH)
				for _, a := range h.n.TwinDiff(tr, p.Mem) {
					h.mismatch(a[0], a[1])
				}
				res.Count("twin_comparisons", 1)
			}
		}
		// drain subscribers
		if mode == "subs" || mode == "core" {
			for _, sn := range []string{"s1", "s2", "s3"} {
				for c := 0; c < 200 && h.subs[sn].idx != h.n.CM.Tip(); c++ {
					h.poll(sn, 1+rng.Intn(7))
				}
				if h.subs[sn].idx != h.n.CM.Tip() {
					h.mismatch("driver:c04:no-catchup", fmt.Sprintf("subscriber %s did not reach the tip after 200 polls", sn))
				}
			}
		}
		if mode == "ledger" {
			h.checkpointTwin()
		}
		if mode == "durable" {
			// final drain: every block once more, parents first (orphans offered too early are known now)
			var ids []int
			for id := 2; id <= len(tr.Nodes); id++ {
				ids = append(ids, id)
				h.submit([]int{id}, 0)
			}
			order = ids
			uh := uniqueHeaviest(tr)
			if p := h.n.Project(tr, nm, tj.MaxH); uh != 0 && p.Mem != uh {
				h.mismatch("driver:c03:final-tip", fmt.Sprintf("after crashes and re-submission the node ends on tip %d, the uninterrupted run reaches %d", p.Mem, uh))
			}
			h.auditSnapshots(order, uh)
		}
		h.n.DB.Close()
		MgrOpts = nil
		res.Eval(fmt.Sprintf("%d", seed))
		if hi == 0 {
			res.Sample(map[string]any{"seed": seed, "tree_parents": tj.Parent, "classes": tj.Cls, "regime": reg, "submission_order": order})
		}
		if os.Getenv("VERIF_ONLY_SEED") != "" {
			break
		}
	}
	total := 0
	for i, s := range sh {
		total += s.tw.N
		if err := s.tw.Close(); err != nil {
			t.Fatal(err)
		}
		b, _ := json.Marshal(s.trees)
		if err := os.WriteFile(filepath.Join(dir, fmt.Sprintf("chaintrees-%d.json", i)), b, 0644); err != nil {
			t.Fatal(err)
		}
	}
	res.Traces = nHist
	res.Count("events", total)
	_ = sort.Ints
}



// checkpointTwin covers C02's "stores initialised ... (above the require height) from a v2
// checkpoint": a store created with NewDBStoreAtCheckpoint at a valid v2 block X above the require
// height and fed X's descendants must report, for every block it adopts, the same state as the
// linear ledger (and therefore as a node synced from genesis), follow the same forks, and serve
// the update stream from X.
func (h *history) checkpointTwin() {
	t := h.t
	req := t.W.N.HardforkV2.RequireHeight
	var cands []*mat.Node
	for _, nd := range t.Nodes {
		if nd.ValidChain && nd.Block.V2 != nil && nd.Height > req && nd.Parent != 0 {
			cands = append(cands, nd)
		}
	}
	if len(cands) == 0 {
		return
	}
	x := cands[h.rng.Intn(len(cands))]
	parent := t.Node(x.Parent)
	db := chain.NewMemDB()
	store, cs, err := chain.NewDBStoreAtCheckpoint(db, parent.L.CS, x.Block, nil)
	if err != nil {
		h.mismatch("driver:c02:checkpoint:init", fmt.Sprintf("NewDBStoreAtCheckpoint at block %d: %v", x.ID, err))
		return
	}
	if !bytes.Equal(mat.StateBytes(cs), mat.StateBytes(x.L.CS)) {
		h.mismatch("driver:c02:checkpoint:state", fmt.Sprintf("checkpoint store reports a tip state for block %d that differs from the linear ledger's", x.ID))
		return
	}
	cm := chain.NewManager(store, cs)
	inSub := map[int]bool{x.ID: true}
	for _, nd := range t.Nodes {
		if inSub[nd.Parent] {
			inSub[nd.ID] = true
			func() {
				defer func() {
					if r := recover(); r != nil {
						h.mismatch("driver:c02:checkpoint:panic", fmt.Sprintf("checkpoint store panicked on block %d: %v", nd.ID, r))
					}
				}()
				cm.AddBlocks([]types.Block{nd.Block})
			}()
			tip := h.ids[cm.Tip().ID]
			if tn := t.Node(max(tip, 1)); tip == 0 || !tn.ValidChain {
				h.mismatch("driver:c02:checkpoint:invalid-tip", fmt.Sprintf("checkpoint store adopted block %d", tip))
				return
			} else if !bytes.Equal(mat.StateBytes(cm.TipState()), mat.StateBytes(tn.L.CS)) {
				h.mismatch("driver:c02:checkpoint:state", fmt.Sprintf("checkpoint store (from block %d) reports a state for tip %d that differs from the linear ledger's", x.ID, tip))
				return
			}
		}
	}
	// the update stream from the checkpoint index leads to the tip along the best chain
	idx := types.ChainIndex{Height: x.Height, ID: x.Block.ID()}
	for i := 0; i < 200 && idx != cm.Tip(); i++ {
		rus, aus, err := cm.UpdatesSince(idx, 1+h.rng.Intn(4))
		if err != nil || len(rus) != 0 {
			h.mismatch("driver:c02:checkpoint:updates", fmt.Sprintf("UpdatesSince from the checkpoint %d: %d reverts, err %v", x.ID, len(rus), err))
			return
		}
		for _, au := range aus {
			if au.Block.ParentID != idx.ID {
				h.mismatch("driver:c02:checkpoint:updates", "update stream from the checkpoint is not contiguous")
				return
			}
			idx = au.State.Index
		}
	}
	h.res.Count("checkpoint_stores", 1)
}
