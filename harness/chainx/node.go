// Package chainx binds spec/Chain.tla to the real chain.Manager / chain.DBStore
// (properties C01, C02, C03, C04, C19).
package chainx

import (
	"bytes"
	"errors"
	"fmt"
	"io"
	"os"
	"path/filepath"
	"runtime"
	"runtime/debug"
	"strconv"
	"sort"
	"strings"
	"sync"
	"sync/atomic"

	"go.etcd.io/bbolt"
	"go.sia.tech/coreutils"

	"go.sia.tech/core/consensus"
	"go.sia.tech/core/types"
	"go.sia.tech/coreutils/chain"
	"verifharness/mat"
)

var bucketNames = []string{"Version", "Network", "MainChain", "States", "Blocks", "FileContracts", "SiacoinElements", "SiafundElements", "Tree"}

// CopyDB copies everything visible in src into a fresh MemDB (and flushes it).
func CopyDB(src chain.DB) *chain.MemDB {
	dst := chain.NewMemDB()
	for _, name := range bucketNames {
		sb := src.Bucket([]byte(name))
		if sb == nil {
			continue
		}
		db, err := dst.CreateBucket([]byte(name))
		if err != nil {
			panic(err)
		}
		for k, v := range sb.Iter() {
			db.Put(append([]byte(nil), k...), append([]byte(nil), v...))
		}
	}
	dst.Flush()
	return dst
}

// DumpDB returns bucket -> key -> value of everything visible in db.
func DumpDB(db chain.DB) map[string]map[string][]byte {
	out := map[string]map[string][]byte{}
	for _, name := range bucketNames {
		b := db.Bucket([]byte(name))
		if b == nil {
			continue
		}
		m := map[string][]byte{}
		for k, v := range b.Iter() {
			m[string(k)] = append([]byte(nil), v...)
		}
		out[name] = m
	}
	return out
}

// recDB wraps a chain.DB: counts flushes and keeps a copy of the committed image of each.
type recDB struct {
	chain.DB
	snapshots bool
	durable   chain.DB       // the layer whose content survives the process (the DB itself unless it is a cache over one)
	boltPath  string         // backend "bolt": the database file
	bolt      *bbolt.DB
	boltDB    *coreutils.BoltChainDB
	Snaps     []*chain.MemDB // committed image after each Flush
	Flushes   int
	onFlush   func()
}

// Image is what survives if the process stops NOW: for a Bolt database the content of the FILE
// (copied and opened separately -- the open write transaction of the live node is not in it), for
// a cache over a MemDB the MemDB below the cache.  For a bare MemDB (which shows its own pending
// writes) it is only meaningful right after a Flush.
func (r *recDB) Image() *chain.MemDB {
	if r.boltPath == "" {
		return CopyDB(r.durable)
	}
	img := r.boltPath + ".img"
	src, err := os.Open(r.boltPath)
	if err != nil {
		panic(err)
	}
	dst, err := os.Create(img)
	if err != nil {
		panic(err)
	}
	if _, err := io.Copy(dst, src); err != nil {
		panic(err)
	}
	src.Close()
	dst.Close()
	defer os.Remove(img)
	bdb, err := bbolt.Open(img, 0600, &bbolt.Options{NoSync: true, NoFreelistSync: true, NoGrowSync: true})
	if err != nil {
		panic(fmt.Sprintf("the database file does not open: %v", err))
	}
	bc := coreutils.NewBoltChainDB(bdb)
	out := CopyDB(bc)
	bc.Cancel()
	bdb.Close()
	return out
}

// Close releases the resources of the database (the Bolt file is removed).
func (r *recDB) Close() {
	if r.boltPath != "" && r.bolt != nil {
		r.boltDB.Cancel() // bbolt's Close waits for the open write transaction
		r.bolt.Close()
		os.Remove(r.boltPath)
		r.bolt = nil
	}
}

func (r *recDB) Flush() error {
	err := r.DB.Flush()
	r.Flushes++
	if r.snapshots {
		r.Snaps = append(r.Snaps, r.Image())
	}
	if r.onFlush != nil {
		r.onFlush()
	}
	return err
}

// crashSignal is panicked by recStore to stop the process inside AddBlocks (Crash action).
type crashSignal struct{}

// StoreOp is one block operation the manager performed on its store.
type StoreOp struct {
	Op  string // "Apply" | "Revert" | "MidFlush" | "EndFlush"
	ID  types.BlockID
	Tip types.BlockID // store tip after the op
	Auto bool         // MidFlush that the store decided itself (its 5 s / 100 MB rule)
}

// recStore wraps the real DBStore: records every ApplyBlock/RevertBlock, can force the store's
// own commit (the size/time flush inside ApplyBlock/RevertBlock) after chosen operations, and
// can stop the process after a chosen operation.
type recStore struct {
	*chain.DBStore
	mu       sync.Mutex
	Ops      []StoreOp
	nBlockOp int
	flushAt  map[int]bool // force a flush after the k-th block operation of the current call (1-based)
	flushAll func() bool  // or decide randomly
	crashAt  int          // stop the process after the k-th block operation (0 = never)
	inMid    bool
	inBlock  bool // inside DBStore.ApplyBlock / RevertBlock
	autoMid  bool // the store committed on its own (size/time threshold) inside the current block op
	AutoFlushes int
	pruneGate func()
	perG      map[int64][]StoreOp // concurrent drivers: operations per calling goroutine
}

// PruneBlock passes through to the store; pruneGate (concurrent driver) is a scheduling point in
// the middle of Manager.PruneBlocks: on the correct code the manager's lock is held across it, so
// yielding here can only delay other callers.
func (s *recStore) PruneBlock(id types.BlockID) {
	if g := s.pruneGate; g != nil {
		g()
	}
	s.DBStore.PruneBlock(id)
}

// noteFlush is called by recDB for every commit that reaches the database.
func (s *recStore) noteFlush() {
	if s.inBlock {
		s.autoMid = true
		s.AutoFlushes++
	}
}

func (s *recStore) afterBlockOp() {
	s.nBlockOp++
	if s.autoMid {
		s.autoMid = false
		s.Ops = append(s.Ops, StoreOp{Op: "MidFlush", Auto: true})
	}
	if s.flushAt[s.nBlockOp] || (s.flushAll != nil && s.flushAll()) {
		s.inMid = true
		// exactly what DBStore does itself when shouldFlush() fires at the end of
		// ApplyBlock/RevertBlock
		if err := s.DBStore.Flush(); err != nil {
			panic(err)
		}
		s.inMid = false
		s.Ops = append(s.Ops, StoreOp{Op: "MidFlush"})
	}
	if s.crashAt != 0 && s.nBlockOp == s.crashAt {
		panic(crashSignal{})
	}
}

func (s *recStore) ApplyBlock(cs consensus.State, cau consensus.ApplyUpdate) {
	s.inBlock = true
	s.DBStore.ApplyBlock(cs, cau)
	s.inBlock = false
	s.note(StoreOp{Op: "Apply", ID: cs.Index.ID, Tip: cs.Index.ID})
	s.afterBlockOp()
}

func (s *recStore) RevertBlock(cs consensus.State, cru consensus.RevertUpdate) {
	var id types.BlockID
	if idx, ok := s.DBStore.BestIndex(cs.Index.Height + 1); ok {
		id = idx.ID
	}
	s.inBlock = true
	s.DBStore.RevertBlock(cs, cru)
	s.inBlock = false
	s.note(StoreOp{Op: "Revert", ID: id, Tip: cs.Index.ID})
	s.afterBlockOp()
}

func (s *recStore) Flush() error {
	err := s.DBStore.Flush()
	if !s.inMid {
		s.note(StoreOp{Op: "EndFlush"})
	}
	return err
}

// note records a store operation: for the call in progress, or (concurrent drivers) for the
// goroutine that performs it -- the manager runs every store operation of a call on the caller's
// goroutine, under its lock.
func (s *recStore) note(op StoreOp) {
	if s.perG == nil {
		s.Ops = append(s.Ops, op)
		return
	}
	g := Goid()
	s.mu.Lock()
	s.perG[g] = append(s.perG[g], op)
	s.mu.Unlock()
}

// Goid is the id of the calling goroutine.
func Goid() int64 {
	var buf [64]byte
	n := runtime.Stack(buf[:], false)
	f := bytes.Fields(buf[:n]) // "goroutine 123 [running]:"
	id, _ := strconv.ParseInt(string(f[1]), 10, 64)
	return id
}

// SubmitConc is Submit for drivers with several submitting goroutines: the store operations of
// the call are those performed on the calling goroutine.
func (n *RNode) SubmitConc(blocks []types.Block) (cls string, ops []StoreOp, detail string) {
	g := Goid()
	n.Store.mu.Lock()
	if n.Store.perG == nil {
		n.Store.perG = map[int64][]StoreOp{}
	}
	n.Store.perG[g] = nil
	n.Store.mu.Unlock()
	defer func() {
		n.Store.mu.Lock()
		ops = append([]StoreOp(nil), n.Store.perG[g]...)
		n.Store.mu.Unlock()
		if r := recover(); r != nil {
			cls = "panic"
			detail = fmt.Sprint(r)
		}
	}()
	err := n.CM.AddBlocks(blocks)
	cls = ErrClass(err)
	if err != nil {
		detail = err.Error()
	}
	return
}

func (s *recStore) beginCall(flushAt map[int]bool, crashAt int) {
	s.Ops = nil
	s.nBlockOp = 0
	s.flushAt = flushAt
	s.crashAt = crashAt
}

// RNode is a real node: MemDB (or any chain.DB) -> recDB -> DBStore -> recStore -> Manager.
type RNode struct {
	W      *mat.World
	Raw    chain.DB
	DB     *recDB
	Store  *recStore
	CM     *chain.Manager
	Notifs int
	nmu    sync.Mutex
	Backend string
	lis    map[string]*listener
}

// LisNames are the dynamic listeners of Chain.tla's `Lis`: "r.." register with OnReorg, "p.." with
// OnPoolChange.
var LisNames = []string{"r1", "r2", "p1"}

type listener struct {
	cancel func()
	count  int
}

// Sub registers a fresh callback for listener name; Unsub calls the cancel function it got.
func (n *RNode) Sub(name string) {
	l := &listener{}
	if name[0] == 'p' {
		l.cancel = n.CM.OnPoolChange(func() { n.nmu.Lock(); l.count++; n.nmu.Unlock() })
	} else {
		l.cancel = n.CM.OnReorg(func(types.ChainIndex) { n.nmu.Lock(); l.count++; n.nmu.Unlock() })
	}
	n.nmu.Lock()
	if n.lis == nil {
		n.lis = map[string]*listener{}
	}
	n.lis[name] = l
	n.nmu.Unlock()
}

func (n *RNode) Unsub(name string) {
	n.nmu.Lock()
	l := n.lis[name]
	delete(n.lis, name)
	n.nmu.Unlock()
	if l != nil {
		l.cancel()
	}
}

// LisCounts is Chain.tla's `lis`: -1 for a listener that is not registered, else the number of
// times its callback ran since it registered.
func (n *RNode) LisCounts() map[string]int {
	n.nmu.Lock()
	defer n.nmu.Unlock()
	out := map[string]int{}
	for _, name := range LisNames {
		out[name] = -1
		if l := n.lis[name]; l != nil {
			out[name] = l.count
		}
	}
	return out
}

var boltSeq atomic.Int64

// MgrOpts are passed to every chain.NewManager the harness creates (set by a driver for the
// duration of a history, e.g. chain.WithExpiringContractOrder).
var MgrOpts []chain.ManagerOption

// LinearExpiryOrder is the argument of chain.WithExpiringContractOrder that pins, for every block of
// the tree with two or more expiring v1 contracts, the order in which a node that only ever saw the
// block's chain linearly lists them.
func LinearExpiryOrder(t *mat.Tree) map[types.BlockID][]types.FileContractID {
	m := map[types.BlockID][]types.FileContractID{}
	for _, nd := range t.Nodes {
		if nd.L == nil || len(nd.L.Supps) == 0 {
			continue
		}
		exp := nd.L.Supps[len(nd.L.Supps)-1].ExpiringFileContracts
		if len(exp) < 2 {
			continue
		}
		var ids []types.FileContractID
		for _, fce := range exp {
			ids = append(ids, fce.ID)
		}
		m[nd.Block.ID()] = ids
	}
	return m
}

// Reopen opens a fresh node of the same backend on a copy of a committed image.
func (n *RNode) Reopen(snap *chain.MemDB, snapshots bool) (*RNode, error) {
	return OpenNodeOn(n.W, CopyDB(snap), n.Backend, snapshots)
}

// CrashImage is what survives if the process stops now: the Bolt file as it is on disk, or the
// MemDB (bare or below a cache) after discarding everything unflushed.  It is read at this very
// moment and must be exactly the image copied when the last commit completed -- a committed
// value modified in place, an uncommitted write that leaked or a committed one that is lost all
// show up as a difference.  The node is then closed.
func (n *RNode) CrashImage() (img *chain.MemDB, diff string) {
	last := n.DB.Snaps[len(n.DB.Snaps)-1]
	img = last
	{
		if n.Backend != "bolt" {
			// MemDB (bare or below the cache): what it holds once everything unflushed is discarded
			n.DB.durable.Cancel()
		}
		img = n.DB.Image()
		a, b := DumpDB(last), DumpDB(img)
		for _, bucket := range bucketNames {
			for k, v := range a[bucket] {
				if w, ok := b[bucket][k]; !ok || !bytes.Equal(v, w) {
					diff = fmt.Sprintf("bucket %s key %x: committed by the last completed commit, %s in the database when the process stops", bucket, k, map[bool]string{true: "different", false: "missing"}[ok])
				}
			}
			for k := range b[bucket] {
				if _, ok := a[bucket][k]; !ok {
					diff = fmt.Sprintf("bucket %s key %x: in the database when the process stops, but not part of the last completed commit", bucket, k)
				}
			}
		}
	}
	n.DB.Close()
	return img, diff
}

// OpenNode opens (or initialises) a node on db.
func OpenNode(w *mat.World, db chain.DB, snapshots bool) (*RNode, error) {
	return OpenNodeOn(w, db, "mem", snapshots)
}

// OpenNodeOn opens a node on db directly (backend "mem") or on a chain.CacheDB over db (backend
// "cache": what survives the process is then db, not what the cache shows).
func OpenNodeOn(w *mat.World, db chain.DB, backend string, snapshots bool) (*RNode, error) {
	durable := db
	rdb := &recDB{snapshots: snapshots}
	switch backend {
	case "cache":
		db = chain.NewCacheDB(db)
	case "bolt":
		// a Bolt file initialised with the given content
		rdb.boltPath = filepath.Join(os.Getenv("VERIF_WORK"), fmt.Sprintf("node-%d-%d.bolt", os.Getpid(), boltSeq.Add(1)))
		os.Remove(rdb.boltPath)
		bdb, err := bbolt.Open(rdb.boltPath, 0600, &bbolt.Options{NoSync: true, NoFreelistSync: true, NoGrowSync: true})
		if err != nil {
			return nil, err
		}
		bc := coreutils.NewBoltChainDB(bdb)
		for _, name := range bucketNames {
			sb := db.Bucket([]byte(name))
			if sb == nil {
				continue
			}
			b, err := bc.CreateBucket([]byte(name))
			if err != nil {
				return nil, err
			}
			for k, v := range sb.Iter() {
				b.Put(append([]byte(nil), k...), append([]byte(nil), v...))
			}
		}
		if err := bc.Flush(); err != nil {
			return nil, err
		}
		rdb.bolt, rdb.boltDB = bdb, bc
		db, durable = bc, bc
	}
	rdb.DB, rdb.durable = db, durable
	n := &RNode{W: w, Raw: db, Backend: backend, DB: rdb}
	st, cs, err := chain.NewDBStore(n.DB, w.N, w.Genesis, nil)
	if err != nil {
		return nil, err
	}
	n.Store = &recStore{DBStore: st}
	n.DB.onFlush = n.Store.noteFlush
	if snapshots && len(n.DB.Snaps) == 0 {
		// reopened database: the committed image is what we were given
		n.DB.Snaps = append(n.DB.Snaps, n.DB.Image())
	}
	n.CM = chain.NewManager(n.Store, cs, MgrOpts...)
	n.CM.OnReorg(func(types.ChainIndex) { n.nmu.Lock(); n.Notifs++; n.nmu.Unlock() })
	return n, nil
}

func NewNode(w *mat.World, snapshots bool) *RNode { return NewNodeOn(w, "mem", snapshots) }

func NewNodeOn(w *mat.World, backend string, snapshots bool) *RNode {
	n, err := OpenNodeOn(w, chain.NewMemDB(), backend, snapshots)
	if err != nil {
		panic(err)
	}
	return n
}

// ErrClass maps an AddBlocks result to the specification's `ret`.
func ErrClass(err error) string {
	switch {
	case err == nil:
		return "ok"
	case errors.Is(err, chain.ErrFutureBlock):
		return "future"
	case strings.Contains(err.Error(), "missing parent state"), strings.Contains(err.Error(), "missing parent for block"):
		return "missingparent"
	case strings.Contains(err.Error(), "only v2 blocks can be pre-validated"):
		return "notv2"
	case strings.Contains(err.Error(), "failed to revert failed reorg"):
		return "rollbackfailed"
	case strings.Contains(err.Error(), "reorg failed"):
		return "reorgfailed"
	case strings.Contains(err.Error(), "is invalid"):
		return "invalid"
	case strings.Contains(err.Error(), "missing ancestor timestamp"):
		return "missingancestor"
	}
	return "other:" + err.Error()
}

// Submit calls AddBlocks; a panic inside the call is reported as class "panic" (or "crash" for
// the harness's own crash signal).
func (n *RNode) Submit(blocks []types.Block, flushAt map[int]bool, crashAt int) (cls string, ops []StoreOp, detail string) {
	n.Store.beginCall(flushAt, crashAt)
	// a write through a slice owned by the database (e.g. Bolt's read-only mapping) must surface as
	// a panic of this call, not kill the whole driver
	defer debug.SetPanicOnFault(debug.SetPanicOnFault(true))
	defer func() {
		ops = append([]StoreOp(nil), n.Store.Ops...)
		if r := recover(); r != nil {
			if _, ok := r.(crashSignal); ok {
				cls = "crash"
				return
			}
			cls = "panic"
			detail = fmt.Sprint(r)
		}
	}()
	err := n.CM.AddBlocks(blocks)
	cls = ErrClass(err)
	if err != nil {
		detail = err.Error()
	}
	return
}

// hdrEqual reports whether a is a header-derived (ApplyHeader) state for the same header as b:
// every field ApplyHeader computes must agree; the fields it merely inherits from whatever state
// the header loop was running on (elements, tax revenue, foundation addresses, attestations) are
// path dependent by construction and are not compared.
func hdrEqual(a, b consensus.State) bool {
	a.Elements, a.SiafundTaxRevenue, a.Attestations = b.Elements, b.SiafundTaxRevenue, b.Attestations
	a.FoundationSubsidyAddress, a.FoundationManagementAddress = b.FoundationSubsidyAddress, b.FoundationManagementAddress
	return bytes.Equal(mat.StateBytes(a), mat.StateBytes(b))
}

// SubmitValidated calls AddValidatedV2Blocks with the given states (the caller's validation).
func (n *RNode) SubmitValidated(blocks []types.Block, states []consensus.State, flushAt map[int]bool, crashAt int) (cls string, ops []StoreOp, detail string) {
	n.Store.beginCall(flushAt, crashAt)
	// a write through a slice owned by the database (e.g. Bolt's read-only mapping) must surface as
	// a panic of this call, not kill the whole driver
	defer debug.SetPanicOnFault(debug.SetPanicOnFault(true))
	defer func() {
		ops = append([]StoreOp(nil), n.Store.Ops...)
		if r := recover(); r != nil {
			if _, ok := r.(crashSignal); ok {
				cls = "crash"
				return
			}
			cls = "panic"
			detail = fmt.Sprint(r)
		}
	}()
	err := n.CM.AddValidatedV2Blocks(blocks, states)
	cls = ErrClass(err)
	if err != nil {
		detail = err.Error()
	}
	return
}

// Projection is the abstract state of Chain.tla computed through the public API.
type Projection struct {
	Blk      []string `json:"blk"`
	Sta      []string `json:"sta"`
	Best     []int    `json:"best"`
	Mem      int      `json:"mem"`
	MinReorg int      `json:"minreorg"`
	Notif    int      `json:"notif"`
	Lis      map[string]int `json:"lis"`
	Led      LedProj  `json:"led"`
	StateOK  bool     `json:"stateOk"` // reported tip state is byte-equal to the linear ledger's
	// OrderDiverged: a block on the best chain was applied with a supplement listing the expiring
	// contracts in another ORDER than a linear node does (known finding C02-expiry-order); its
	// missed-proof outputs then get other leaf indices and every later state differs in Elements.
	OrderDiverged bool `json:"orderDiverged"`
	Detail   string   `json:"detail,omitempty"`
}

type LedProj struct {
	Utxo []int   `json:"utxo"`
	FC   [][]int `json:"fc"`  // sorted triples id, rev, end
	Exp  [][]int `json:"exp"` // per height 0..maxH: sequence of contract ids
}

// Project computes the projection of the real node for tree t (names nm, heights 0..maxH).
func (n *RNode) Project(t *mat.Tree, nm *mat.Names, maxH int) Projection {
	var p Projection
	ids := t.IDMap()
	for _, nd := range t.Nodes {
		id := nd.Block.ID()
		_, hasHdr := n.Store.Header(id)
		stored, bs, hasBody := n.Store.Block(id)
		twin := nd.Alias != nd.ID
		switch {
		case hasBody && !nd.SameBody(stored):
			// the Blocks bucket holds another body for this ID (an ID twin of this node)
			p.Blk = append(p.Blk, "none")
		case !hasBody && twin:
			p.Blk = append(p.Blk, "none")
		case hasBody && bs != nil:
			p.Blk = append(p.Blk, "supp")
		case hasBody:
			p.Blk = append(p.Blk, "body")
		case hasHdr:
			p.Blk = append(p.Blk, "hdr")
		default:
			p.Blk = append(p.Blk, "none")
		}
		cs, ok := n.CM.State(id)
		switch {
		case !ok || twin: // states are keyed by ID: reported on the node the ID is named after
			p.Sta = append(p.Sta, "none")
		case nd.L != nil && bytes.Equal(mat.StateBytes(cs), mat.StateBytes(nd.L.CS)):
			p.Sta = append(p.Sta, "full")
		case nd.L != nil && hdrEqual(cs, nd.Hdr) && cs.Elements.NumLeaves == nd.L.CS.Elements.NumLeaves && cs.Elements.NumLeaves != t.Node(max(nd.Parent, 1)).State().Elements.NumLeaves && n.orderDiverged(t, nd.ID):
			p.Sta = append(p.Sta, "full")
			p.OrderDiverged = true
		case nd.HasState && hdrEqual(cs, nd.Hdr):
			p.Sta = append(p.Sta, "partial")
		default:
			p.Sta = append(p.Sta, "other")
		}
	}
	for h := uint64(0); h <= uint64(maxH)+2; h++ {
		idx, ok := n.CM.BestIndex(h)
		if !ok {
			// the index must have no holes and nothing above the tip
			continue
		}
		id, known := ids[idx.ID]
		if !known {
			id = -1
		}
		for uint64(len(p.Best)) < h {
			p.Best = append(p.Best, 0) // hole
		}
		p.Best = append(p.Best, id)
	}
	tip := n.CM.Tip()
	p.Mem = ids[tip.ID]
	p.MinReorg = ids[n.CM.MinReorgIndex().ID]
	n.nmu.Lock()
	p.Notif = n.Notifs
	n.nmu.Unlock()
	p.Lis = n.LisCounts()
	if nd := t.Node(max(p.Mem, 1)); p.Mem != 0 && nd.L != nil {
		p.StateOK = bytes.Equal(mat.StateBytes(n.CM.TipState()), mat.StateBytes(nd.L.CS)) && n.CM.TipState().Index == nd.L.CS.Index
	}
	if p.Mem != 0 && !p.StateOK && t.Node(p.Mem).L != nil && n.orderDiverged(t, p.Mem) {
		p.OrderDiverged = true
	}
	p.Led = n.projectLed(nm, maxH)
	return p
}

// orderDiverged reports whether some block on the chain genesis..id is stored with a supplement
// whose expiring contracts are the linear ledger's as a set but in a different order.
func (n *RNode) orderDiverged(t *mat.Tree, id int) bool {
	for _, k := range t.PathTo(id) {
		nd := t.Node(k)
		if nd.L == nil {
			return false
		}
		_, bs, ok := n.Store.Block(nd.Block.ID())
		if !ok || bs == nil {
			continue
		}
		want := nd.L.Supps[len(nd.L.Supps)-1].ExpiringFileContracts
		if len(want) < 2 || len(want) != len(bs.ExpiringFileContracts) {
			continue
		}
		set := map[types.FileContractID]bool{}
		same := true
		for i, e := range want {
			set[e.ID] = true
			if bs.ExpiringFileContracts[i].ID != e.ID {
				same = false
			}
		}
		if same {
			continue
		}
		all := true
		for _, e := range bs.ExpiringFileContracts {
			all = all && set[e.ID]
		}
		if all {
			return true
		}
	}
	return false
}

func (n *RNode) projectLed(nm *mat.Names, maxH int) LedProj {
	lp := LedProj{Utxo: []int{}, FC: [][]int{}, Exp: make([][]int, maxH+1)}
	for _, bn := range []string{"SiacoinElements", "SiafundElements"} {
		b := n.DB.Bucket([]byte(bn))
		if b == nil {
			continue
		}
		for k := range b.Iter() {
			var id types.Hash256
			copy(id[:], k)
			if v, ok := nm.Elem[id]; ok {
				lp.Utxo = append(lp.Utxo, v)
			} else {
				lp.Utxo = append(lp.Utxo, -1)
			}
		}
	}
	sort.Ints(lp.Utxo)
	b := n.DB.Bucket([]byte("FileContracts"))
	if b != nil {
		for k, v := range b.Iter() {
			if len(k) != 32 {
				continue // expiration lists have 8-byte keys
			}
			var id types.FileContractID
			copy(id[:], k)
			var fce types.FileContractElement
			d := types.NewBufDecoder(v)
			fce.DecodeFrom(d)
			name, ok := nm.FC[id]
			if !ok {
				name = -1
			}
			lp.FC = append(lp.FC, []int{name, int(fce.FileContract.RevisionNumber), int(fce.FileContract.WindowEnd)})
		}
	}
	sort.Slice(lp.FC, func(i, j int) bool { return lp.FC[i][0] < lp.FC[j][0] })
	for h := 0; h <= maxH; h++ {
		lp.Exp[h] = []int{}
		for _, id := range n.Store.ExpiringFileContractIDs(uint64(h)) {
			name, ok := nm.FC[id]
			if !ok {
				name = -1
			}
			lp.Exp[h] = append(lp.Exp[h], name)
		}
	}
	return lp
}

// ---------------------------------------------------------------- property-level audits

// Audit evaluates the property predicates of C01/C02 directly on the real node, independently of
// any specification state: the reported best chain is parent-linked, consists of blocks core
// accepts, its tip state is byte-equal to the linear replay, and the element buckets equal the
// linear ledger's (as sets; expiration ORDER is reported separately).  It returns
// (sig, description) pairs.
func (n *RNode) Audit(t *mat.Tree, nm *mat.Names, maxH int, p Projection) (out [][2]string) {
	add := func(sig, f string, a ...any) { out = append(out, [2]string{sig, fmt.Sprintf(f, a...)}) }
	if len(p.Best) == 0 || p.Best[0] != 1 {
		add("audit:c01:genesis", "best chain does not start at genesis: %v", p.Best)
		return
	}
	for i, id := range p.Best {
		if id <= 0 {
			add("audit:c01:best-hole", "best-chain index has a hole or an unknown block at height %d: %v", i, p.Best)
			return
		}
		nd := t.Node(id)
		if i > 0 && nd.Parent != p.Best[i-1] {
			add("audit:c01:not-linked", "best chain not parent-linked at height %d: %v", i, p.Best)
		}
		if int(nd.Height) != i {
			add("audit:c01:height", "block %d at index height %d has height %d", id, i, nd.Height)
		}
		if !nd.ValidChain {
			add("audit:c01:invalid-block-on-best", "block %d (class %s, corruption %q) is on the best chain %v", id, nd.Cls, nd.Corrupt, p.Best)
		}
		if p.Sta[id-1] != "full" {
			add("audit:c01:state-not-full", "best-chain block %d has stored state %q", id, p.Sta[id-1])
		}
		if p.Blk[id-1] != "supp" && p.Blk[id-1] != "hdr" {
			add("audit:c01:block-not-validated", "best-chain block %d is stored as %q", id, p.Blk[id-1])
		}
	}
	if p.Mem != p.Best[len(p.Best)-1] {
		add("audit:c01:tip-not-last", "Tip() is block %d but the best-chain index ends at %d", p.Mem, p.Best[len(p.Best)-1])
		return
	}
	tip := t.Node(p.Mem)
	if tip.L == nil {
		return
	}
	if !p.StateOK && p.OrderDiverged {
		add("audit:c02:expiry-order", "tip state of block %d differs from a linear node's: a block on the best chain was applied with its expiring contracts in a history-dependent order, so missed-proof outputs got other leaf indices", p.Mem)
		return
	} else if !p.StateOK {
		add("audit:c01:tipstate", "TipState() of block %d is not the state obtained by replaying the best chain from genesis", p.Mem)
	}
	// element buckets vs the linear ledger at min(tip height, require height)
	ref := tip
	for ref.Height > t.W.N.HardforkV2.RequireHeight {
		ref = t.Node(ref.Parent)
	}
	want := LedProj{Utxo: []int{}, FC: [][]int{}, Exp: make([][]int, maxH+1)}
	for id := range ref.L.SC {
		want.Utxo = append(want.Utxo, nm.Elem[types.Hash256(id)])
	}
	for id := range ref.L.SF {
		want.Utxo = append(want.Utxo, nm.Elem[types.Hash256(id)])
	}
	sort.Ints(want.Utxo)
	for id, e := range ref.L.FC {
		want.FC = append(want.FC, []int{nm.FC[id], int(e.FileContract.RevisionNumber), int(e.FileContract.WindowEnd)})
	}
	sort.Slice(want.FC, func(i, j int) bool { return want.FC[i][0] < want.FC[j][0] })
	for h := 0; h <= maxH; h++ {
		want.Exp[h] = []int{}
		for _, id := range ref.L.Exp[uint64(h)] {
			want.Exp[h] = append(want.Exp[h], nm.FC[id])
		}
	}
	if fmt.Sprint(p.Led.Utxo) != fmt.Sprint(want.Utxo) {
		add("audit:c02:utxo-set", "siacoin/siafund element buckets %v differ from the linear ledger's %v at tip %d", p.Led.Utxo, want.Utxo, p.Mem)
	}
	if fmt.Sprint(p.Led.FC) != fmt.Sprint(want.FC) {
		add("audit:c02:contract-set", "file-contract bucket %v differs from the linear ledger's %v at tip %d", p.Led.FC, want.FC, p.Mem)
	}
	for h := 0; h <= maxH; h++ {
		a, b := append([]int{}, p.Led.Exp[h]...), append([]int{}, want.Exp[h]...)
		sort.Ints(a)
		sort.Ints(b)
		if fmt.Sprint(a) != fmt.Sprint(b) {
			add("audit:c02:expiry-set", "expiration list of height %d is %v, linear ledger has %v (tip %d)", h, p.Led.Exp[h], want.Exp[h], p.Mem)
		} else if fmt.Sprint(p.Led.Exp[h]) != fmt.Sprint(want.Exp[h]) {
			add("audit:c02:expiry-order", "expiration list of height %d is %v on this node but %v on a node that saw the chain linearly (tip %d): order depends on the reorgs witnessed", h, p.Led.Exp[h], want.Exp[h], p.Mem)
		}
	}
	return
}

// TwinDiff feeds the node's best chain, block by block, to a fresh node (the "node that only ever
// saw that chain linearly") and compares everything the store serves for that chain at the level
// of the chain.DB buckets.  Stale tree nodes above the current leaf count and records of
// non-best-chain blocks are outside the comparison (db.go documents the former).
func (n *RNode) TwinDiff(t *mat.Tree, tipID int) (out [][2]string) {
	out, differs, orderBlocks := n.twinDiff(t, tipID, nil)
	if differs == 0 || orderBlocks == 0 {
		return out
	}
	// Some bucket VALUES differ and at least one best-chain block was applied with its expiring
	// contracts in another order than on a linear node (finding C02-expiry-order).  Decide whether
	// the order alone explains the differences: a second linear twin whose manager is told
	// (chain.WithExpiringContractOrder) to use exactly the orders THIS node used must then agree
	// with this node on every bucket; anything it still disagrees on is a different violation.
	observed := map[types.BlockID][]types.FileContractID{}
	for _, id := range t.PathTo(tipID) {
		bid := t.Node(id).Block.ID()
		if _, bs, ok := n.Store.Block(bid); ok && bs != nil && len(bs.ExpiringFileContracts) >= 2 {
			var ids []types.FileContractID
			for _, fce := range bs.ExpiringFileContracts {
				ids = append(ids, fce.ID)
			}
			observed[bid] = ids
		}
	}
	out2, differs2, _ := n.twinDiff(t, tipID, observed)
	if differs2 > 0 {
		for i := range out2 {
			if out2[i][0] != "audit:c02:expiry-order" {
				out2[i][1] += " (even on a linear twin that applies the blocks with this node's own expiration orders)"
			}
		}
		return out2
	}
	var kept [][2]string
	for _, a := range out {
		if a[0] == "audit:c02:expiry-order" || !strings.HasSuffix(a[0], ":differs") {
			kept = append(kept, a)
		}
	}
	kept = append(kept, [2]string{"audit:c02:expiry-order", fmt.Sprintf("%d values of the States/element/Tree buckets differ from a linear node's exactly as the history-dependent expiration order implies (a linear twin told to use this node's orders agrees with it on every bucket): missed-proof outputs got other leaf indices", differs)})
	return kept
}

// twinDiff compares every bucket with a node that applied the best chain genesis..tipID linearly
// (with the given expiration orders pinned, if any).  differs counts value differences that are
// not themselves differences of expiration ORDER; orderBlocks counts best-chain blocks whose
// stored supplement lists the expiring contracts in another order than the twin's.
func (n *RNode) twinDiff(t *mat.Tree, tipID int, order map[types.BlockID][]types.FileContractID) (out [][2]string, differs, orderBlocks int) {
	add := func(sig, f string, a ...any) { out = append(out, [2]string{sig, fmt.Sprintf(f, a...)}) }
	saved := MgrOpts
	if order != nil {
		MgrOpts = []chain.ManagerOption{chain.WithExpiringContractOrder(order)}
	}
	twin := NewNode(t.W, false)
	MgrOpts = saved
	path := t.PathTo(tipID)
	for _, id := range path[1:] {
		if err := twin.CM.AddBlocks([]types.Block{t.Node(id).Block}); err != nil {
			add("audit:c02:twin-rejects", "linear twin rejects best-chain block %d: %v", id, err)
			return out, 1, 0
		}
	}
	a, b := DumpDB(n.DB), DumpDB(twin.DB)
	onBest := map[string]bool{}
	for _, id := range path {
		bid := t.Node(id).Block.ID()
		onBest[string(bid[:])] = true
	}
	var zero types.BlockID
	onBest[string(zero[:])] = true // the pre-genesis state
	for _, bucket := range bucketNames {
		for k, tv := range b[bucket] {
			nv, ok := a[bucket][k]
			switch {
			case !ok:
				add("audit:c02:twin:"+bucket+":missing", "bucket %s: key %x served by the linear twin is missing", bucket, k)
				differs++
			case bytes.Equal(nv, tv):
			case bucket == "FileContracts" && len(k) == 8 && sameIDSet(nv, tv):
				add("audit:c02:expiry-order", "bucket FileContracts: expiration list %x has a different ORDER than on the linear twin", k)
			case bucket == "Blocks" && sameBlockUpToExpiryOrder(nv, tv):
				add("audit:c02:expiry-order", "bucket Blocks: stored supplement of block %x lists expiring contracts in a different order than on the linear twin", k)
				orderBlocks++
			default:
				add("audit:c02:twin:"+bucket+":differs", "bucket %s: key %x differs from the linear twin (%d vs %d bytes)", bucket, k, len(nv), len(tv))
				differs++
			}
		}
		if bucket == "Tree" {
			continue // stale nodes above the leaf count are allowed
		}
		for k := range a[bucket] {
			if _, ok := b[bucket][k]; ok {
				continue
			}
			if (bucket == "States" || bucket == "Blocks") && !onBest[k] {
				continue // other branches
			}
			if bucket == "FileContracts" && len(k) == 8 && len(a[bucket][k]) == 0 {
				continue // an emptied expiration list
			}
			add("audit:c02:twin:"+bucket+":extra", "bucket %s: key %x is not served by the linear twin", bucket, k)
			differs++
		}
	}
	return
}

func sameIDSet(a, b []byte) bool {
	if len(a) != len(b) || len(a)%32 != 0 {
		return false
	}
	m := map[string]int{}
	for i := 0; i < len(a); i += 32 {
		m[string(a[i:i+32])]++
		m[string(b[i:i+32])]--
	}
	for _, v := range m {
		if v != 0 {
			return false
		}
	}
	return true
}

// sameBlockUpToExpiryOrder decodes two Blocks-bucket records (version 3: header, block,
// supplement) and compares them with the supplement's expiring contracts taken as a set.
func sameBlockUpToExpiryOrder(a, b []byte) bool {
	dec := func(v []byte) (hdr, blk []byte, bs *consensus.V1BlockSupplement, ok bool) {
		d := types.NewBufDecoder(v)
		if d.ReadUint8() != 3 {
			return
		}
		var h *types.BlockHeader
		types.DecodePtr(d, &h)
		var vb *types.V2Block
		types.DecodePtr(d, &vb)
		types.DecodePtr(d, &bs)
		if d.Err() != nil || bs == nil || vb == nil || h == nil {
			return
		}
		enc := func(e types.EncoderTo) []byte {
			var buf bytes.Buffer
			en := types.NewEncoder(&buf)
			e.EncodeTo(en)
			en.Flush()
			return buf.Bytes()
		}
		return enc(h), enc(vb), bs, true
	}
	ha, ba, sa, ok1 := dec(a)
	hb, bb, sb, ok2 := dec(b)
	if !ok1 || !ok2 || !bytes.Equal(ha, hb) || !bytes.Equal(ba, bb) || len(sa.ExpiringFileContracts) != len(sb.ExpiringFileContracts) {
		return false
	}
	ids := func(s *consensus.V1BlockSupplement) map[types.FileContractID]bool {
		m := map[types.FileContractID]bool{}
		for _, e := range s.ExpiringFileContracts {
			m[e.ID] = true
		}
		return m
	}
	ia, ib := ids(sa), ids(sb)
	for k := range ia {
		if !ib[k] {
			return false
		}
	}
	return len(ia) == len(ib) && len(ia) > 0
}
