package chainx

import (
	"fmt"
	"math/rand"
	"testing"

	"go.sia.tech/core/types"
	"verifharness/hx"
	"verifharness/mat"
)

// TestLongPrune is C19 on a backlog no fork tree has: a chain of 3400 real blocks is pruned in ONE
// PruneBlocks call (and then again, and in steps): every best-chain body below the height must be
// gone, every header and state must remain, MinReorgIndex must be the lowest block whose body is
// held, and the node must keep extending.
func TestLongPrune(t *testing.T) {
	res := hx.NewResult()
	defer res.Write()
	seed := hx.Seed()*7700 + 3
	rng := rand.New(rand.NewSource(seed))
	w := mat.NewWorld(mat.Params{Allow: 100000, Require: 100010, Final: 100020, Seed: seed})
	mismatch := func(sig, desc string) {
		res.Mismatch(sig, fmt.Sprintf("long chain (seed %d): %s", seed, desc), map[string]any{"kind": "longprune", "seed": seed})
	}
	defer func() {
		if r := recover(); r != nil {
			mismatch("driver:c19:long:panic", fmt.Sprintf("the node panicked: %v", r))
		}
	}()
	n := hx.EnvInt("VERIF_LONG_N", 3400)
	l := mat.NewLedger(w.N, w.Genesis)
	node := NewNode(w, false)
	var batch []types.Block
	add := func(k int) bool {
		for i := 0; i < k; i++ {
			b := mat.NewBuilder(w, l, rng).Block(rng.Intn(5))
			if err := l.Apply(b); err != nil {
				t.Fatal(err)
			}
			batch = append(batch, b)
			if len(batch) == 100 || i == k-1 {
				if err := node.CM.AddBlocks(batch); err != nil {
					mismatch("driver:c19:long:valid-block-rejected", fmt.Sprintf("AddBlocks rejected valid blocks up to height %d: %v", l.CS.Index.Height, err))
					return false
				}
				batch = nil
			}
		}
		return true
	}
	if !add(n) {
		return
	}
	check := func(h uint64, what string) {
		left := 0
		first := uint64(0)
		for k := uint64(0); k < h && k <= node.CM.Tip().Height; k++ {
			idx, ok := node.CM.BestIndex(k)
			if !ok {
				mismatch("driver:c19:long:index-hole", fmt.Sprintf("%s: best index has no entry at height %d", what, k))
				return
			}
			if _, ok := node.CM.Block(idx.ID); ok {
				if left == 0 {
					first = k
				}
				left++
			}
			if _, ok := node.Store.Header(idx.ID); !ok {
				mismatch("driver:c19:long:header-gone", fmt.Sprintf("%s: header of height %d is gone", what, k))
				return
			}
			if _, ok := node.CM.State(idx.ID); !ok {
				mismatch("driver:c19:long:state-gone", fmt.Sprintf("%s: state of height %d is gone", what, k))
				return
			}
		}
		if left != 0 {
			mismatch("driver:c19:long:bodies-left", fmt.Sprintf("%s left %d block bodies below the prune height (first at height %d)", what, left, first))
		}
		for k := h; k <= node.CM.Tip().Height; k++ {
			idx, _ := node.CM.BestIndex(k)
			if _, ok := node.CM.Block(idx.ID); !ok {
				mismatch("driver:c19:long:body-missing-above", fmt.Sprintf("%s: body of height %d (not below the prune height) is gone", what, k))
				return
			}
		}
		want := min(h, node.CM.Tip().Height)
		if got := node.CM.MinReorgIndex().Height; got != want {
			mismatch("driver:c19:long:minreorg", fmt.Sprintf("%s: MinReorgIndex is at height %d, the lowest held body is at %d", what, got, want))
		}
		res.Eval(what)
	}
	h := uint64(n - 20)
	node.CM.PruneBlocks(h)
	check(h, fmt.Sprintf("PruneBlocks(%d) on %d unpruned blocks", h, n))
	node.CM.PruneBlocks(h)
	check(h, fmt.Sprintf("a second PruneBlocks(%d)", h))
	if !add(30) {
		return
	}
	node.CM.PruneBlocks(h + 25)
	check(h+25, fmt.Sprintf("PruneBlocks(%d) after 30 more blocks", h+25))
	if node.CM.Tip() != l.CS.Index {
		mismatch("driver:c19:long:tip", fmt.Sprintf("tip %v, the chain's is %v", node.CM.Tip(), l.CS.Index))
	}
	res.Traces = 1
	res.Count("long_blocks", n+30)
}
