package chainx

import (
	"encoding/json"
	"fmt"
	"math/rand"
	"os"
	"path/filepath"
	"runtime"
	"sort"
	"sync"
	"sync/atomic"
	"testing"
	"time"

	"go.sia.tech/core/types"
	"go.sia.tech/coreutils/chain"
	"verifharness/hx"
)

func goid() int64 { return Goid() }

// callOrder assigns every Manager call the sequence number of its entry into the critical
// section (chain.VerifHook fires right after m.mu is acquired, on the calling goroutine).
type callOrder struct {
	mu   sync.Mutex
	seq  int64
	slot map[int64]*int64
}

func (c *callOrder) hook(string) {
	id := goid()
	c.mu.Lock()
	if s := c.slot[id]; s != nil && *s == 0 {
		*s = atomic.AddInt64(&c.seq, 1)
	}
	c.mu.Unlock()
}

func (c *callOrder) begin() *int64 {
	s := new(int64)
	c.mu.Lock()
	c.slot[goid()] = s
	c.mu.Unlock()
	return s
}

type callRec struct {
	seq    int64
	events []ev
}

// TestConcurrent is C04's concurrent quantifier: three subscribers poll UpdatesSince from their
// own goroutines while a fourth goroutine submits blocks (reorgs included).  Calls are ordered by
// the moment they entered Manager's critical section (verif hook under m.mu); the resulting total
// order must be a behaviour of Chain.tla (every Poll result exactly the specification's at that
// point), and every subscriber's shadow ledger must equal the linear ledger whenever it catches up.
func TestConcurrent(t *testing.T) {
	res := hx.NewResult()
	defer res.Write()
	nHist := hx.EnvInt("VERIF_HISTORIES", 12)
	shards := hx.EnvInt("VERIF_SHARDS", 4)
	dir := os.Getenv("VERIF_WORK")
	order := &callOrder{slot: map[int64]*int64{}}
	chain.VerifHook = order.hook
	defer func() { chain.VerifHook = nil }()
	type shard struct {
		tw    *hx.TraceWriter
		trees []any
	}
	sh := make([]*shard, shards)
	for i := range sh {
		tw, err := hx.NewTraceWriter(filepath.Join(dir, fmt.Sprintf("chaintrace-%d.ndjson", i)))
		if err != nil {
			t.Fatal(err)
		}
		sh[i] = &shard{tw: tw}
	}
	for hi := 0; hi < nHist; hi++ {
		seed := hx.Seed()*300000 + int64(hi)
		rng := rand.New(rand.NewSource(seed))
		reg := [][3]uint64{{1000, 1010, 1020}, {8, 14, 18}, {1, 1, 1}}[rng.Intn(3)]
		spec := TreeSpec{Seed: seed, Allow: reg[0], Require: reg[1], Final: reg[2], Blocks: 25 + rng.Intn(30), Warmup: 3,
			MaxLeaves: 4, BadBlocks: 3, OpsPerBlk: 2, ForkProb: 0.22, UniqueWindows: true, RandTwins: 2}
		tr := spec.Build()
		tj, nm := tr.Abstract()
		s := sh[hi%shards]
		s.trees = append(s.trees, tj)
		n := NewNode(tr.W, false)
		ids := map[types.BlockID]int{}
		for _, nd := range tr.Nodes {
			ids[nd.Block.ID()] = nd.Alias
		}
		var mu sync.Mutex
		var calls []callRec
		var wg sync.WaitGroup
		done := make(chan struct{})
		mismatch := func(sig, desc string) {
			res.Mismatch(sig, fmt.Sprintf("concurrent history seed %d: %s", seed, desc), map[string]any{"kind": "concurrent", "seed": seed})
		}
		// pollers
		for pi, name := range []string{"s1", "s2", "s3"} {
			wg.Add(1)
			go func(pi int, name string) {
				defer wg.Done()
				prng := rand.New(rand.NewSource(seed*10 + int64(pi)))
				shw := newShadow()
				finishing := false
				for {
					select {
					case <-done:
						finishing = true
					default:
					}
					mx := 1 + prng.Intn(5)
					slot := order.begin()
					rus, aus, err := n.CM.UpdatesSince(shw.idx, mx)
					e := emptyEv("Poll")
					e.S, e.From, e.Max, e.Err = name, shw.node, mx, "ok"
					if err != nil {
						e.Err = "missing"
					}
					for _, u := range rus {
						e.Rus = append(e.Rus, ids[u.Block.ID()])
						shw.revert(u)
						shw.node = ids[u.State.Index.ID]
					}
					for _, u := range aus {
						e.Aus = append(e.Aus, ids[u.Block.ID()])
						shw.apply(u)
						shw.node = ids[u.State.Index.ID]
					}
					e.ShadowOk = true
					if err == nil && len(rus)+len(aus) < mx && shw.node != 0 {
						// not truncated: the subscriber is at the manager's tip as of this call
						if nd := tr.Node(shw.node); nd.L != nil {
							if lerr := shw.equalsLedger(nd.L); lerr != nil {
								e.ShadowOk = false
								mismatch("driver:c04:shadow", fmt.Sprintf("subscriber %s caught up to tip %d but its folded ledger is wrong: %v", name, shw.node, lerr))
							}
						}
					}
					mu.Lock()
					calls = append(calls, callRec{*slot, []ev{e}})
					mu.Unlock()
					if finishing && len(rus)+len(aus) == 0 {
						return
					}
					runtime.Gosched()
				}
			}(pi, name)
		}
		// pruner (C19's concurrent quantifier): PruneBlocks at random heights while blocks are being
		// submitted and subscribers poll; a scheduling point inside every store.PruneBlock call lets
		// the other goroutines run in the middle of a prune if the manager's lock allows it
		if os.Getenv("VERIF_CONC_PRUNE") == "1" {
			n.Store.pruneGate = func() { runtime.Gosched(); time.Sleep(50 * time.Microsecond) }
			wg.Add(1)
			go func() {
				defer wg.Done()
				prng := rand.New(rand.NewSource(seed*10 + 7))
				for {
					select {
					case <-done:
						return
					default:
					}
					ph := prng.Intn(int(n.CM.Tip().Height) + 3)
					slot := order.begin()
					func() {
						defer func() {
							if r := recover(); r != nil {
								mismatch("driver:c19:prune-panic", fmt.Sprintf("PruneBlocks(%d) panicked: %v", ph, r))
							}
						}()
						n.CM.PruneBlocks(uint64(ph))
					}()
					e := emptyEv("Prune")
					e.H = ph
					mu.Lock()
					calls = append(calls, callRec{*slot, []ev{e}})
					mu.Unlock()
					res.Count("concurrent_prunes", 1)
					time.Sleep(time.Duration(20+prng.Intn(300)) * time.Microsecond)
				}
			}()
		}
		// two submitters (two peers delivering at once): the same schedule, batched differently, the
		// second one lagging and occasionally repeating earlier blocks
		var sched []int
		for id := 2; id <= len(tr.Nodes); id++ {
			sched = append(sched, id)
		}
		for i := range sched {
			if rng.Float64() < 0.1 && i+1 < len(sched) {
				sched[i], sched[i+1] = sched[i+1], sched[i]
			}
		}
		n.Store.perG = map[int64][]StoreOp{}
		var swg sync.WaitGroup
		for si := 0; si < 2; si++ {
			swg.Add(1)
			go func(si int) {
				defer swg.Done()
				srng := rand.New(rand.NewSource(seed*100 + int64(si)))
				for i := 0; i < len(sched); {
					k := 1 + srng.Intn(3)
					if i+k > len(sched) {
						k = len(sched) - i
					}
					batch := append([]int{}, sched[i:i+k]...)
					i += k
					if si == 1 && srng.Float64() < 0.15 {
						batch = append(batch, sched[srng.Intn(i)])
					}
					var blocks []types.Block
					for _, id := range batch {
						blocks = append(blocks, tr.Node(id).Block)
					}
					slot := order.begin()
					cls, ops, detail := n.SubmitConc(blocks)
					e := emptyEv("Submit")
					e.Batch = batch
					evs := []ev{e}
					for _, op := range ops {
						o := emptyEv(op.Op)
						if op.Op == "Apply" || op.Op == "Revert" {
							o.B = ids[op.ID]
						}
						evs = append(evs, o)
					}
					d := emptyEv("DoneLite")
					d.Ret = cls
					evs = append(evs, d)
					if cls == "panic" {
						mismatch("driver:c01:panic", fmt.Sprintf("AddBlocks(%v) panicked: %s", batch, detail))
					}
					mu.Lock()
					calls = append(calls, callRec{*slot, evs})
					mu.Unlock()
					if si == 1 {
						runtime.Gosched()
					}
				}
			}(si)
		}
		swg.Wait()
		close(done)
		wg.Wait()
		sort.Slice(calls, func(i, j int) bool { return calls[i].seq < calls[j].seq })
		r0 := emptyEv("Reset")
		r0.T = len(s.trees)
		s.tw.Emit(r0)
		polls := 0
		for _, c := range calls {
			if c.seq == 0 {
				mismatch("driver:c04:hook-missing", "a Manager call never reached its verif hook")
			}
			for _, e := range c.events {
				s.tw.Emit(e)
				if e.Op == "Poll" {
					polls++
				}
			}
		}
		// final projection of the quiescent node
		p := n.Project(tr, nm, tj.MaxH)
		fe := emptyEv("State")
		fe.Mem, fe.Best, fe.Blk, fe.Sta = p.Mem, p.Best, p.Blk, p.Sta
		fe.Utxo, fe.FC, fe.Exp = p.Led.Utxo, p.Led.FC, p.Led.Exp
		fe.StateOk = p.StateOK || tr.Node(max(p.Mem, 1)).L == nil
		s.tw.Emit(fe)
		for _, a := range n.Audit(tr, nm, tj.MaxH, p) {
			mismatch(a[0], a[1])
		}
		res.Eval(fmt.Sprint(seed))
		res.Count("polls", polls)
		res.Count("calls", len(calls))
		if hi == 0 {
			res.Sample(map[string]any{"seed": seed, "tree_parents": tj.Parent, "calls": len(calls), "first_calls": calls[:min(6, len(calls))][0].events})
		}
	}
	total := 0
	for i, s := range sh {
		total += s.tw.N
		if err := s.tw.Close(); err != nil {
			t.Fatal(err)
		}
		b, _ := json.Marshal(s.trees)
		if err := os.WriteFile(filepath.Join(dir, fmt.Sprintf("chaintrees-%d.json", i)), b, 0644); err != nil {
			t.Fatal(err)
		}
	}
	res.Traces = nHist
	res.Count("events", total)
}
