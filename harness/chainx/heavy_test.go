package chainx

import (
	"math/rand"
	"testing"
	"time"

	"verifharness/mat"
)

// heavyShortTree builds two branches from a common prefix on a network with a non-trivial
// difficulty: branch A is LONGER but mined slowly (difficulty falls), branch B is SHORTER but
// mined fast (difficulty rises), until B's tip is sufficiently heavier than A's although it has
// fewer blocks.  Returns the tree and the two tips (0, 0 if the shape could not be reached).
func heavyShortTree(seed int64, lenA, lenB int) (*mat.Tree, int, int) {
	return heavyShortTreeGap(seed, lenA, lenB, 40*time.Second)
}

func heavyShortTreeGap(seed int64, lenA, lenB int, gapA time.Duration) (*mat.Tree, int, int) {
	w := mat.NewWorld(mat.Params{Allow: 1000, Require: 1010, Final: 1020, Seed: seed, HardTarget: true})
	w.UniqueWindows = true
	rng := rand.New(rand.NewSource(seed))
	t := mat.NewTree(w)
	tip := 1
	ts := w.Genesis.Timestamp
	for i := 0; i < 3; i++ {
		ts = ts.Add(time.Second)
		tip = t.AddAtTime(tip, rng, 0, ts).ID
	}
	fork := tip
	a, tsa := fork, ts
	for i := 0; i < lenA; i++ {
		tsa = tsa.Add(gapA) // far behind schedule (interval 1 s): difficulty falls
		a = t.AddAtTime(a, rng, 0, tsa).ID
	}
	b, tsb := fork, ts
	for i := 0; i < lenB; i++ {
		if i%12 == 11 {
			tsb = tsb.Add(time.Second) // stay above the median timestamp
		}
		b = t.AddAtTime(b, rng, 0, tsb).ID
	}
	if !t.Node(a).ValidChain || !t.Node(b).ValidChain {
		return t, 0, 0
	}
	return t, a, b
}

func TestHeavyShortShape(t *testing.T) {
	start := time.Now()
	for _, gap := range []time.Duration{40 * time.Second, 600 * time.Second, 7200 * time.Second} {
	tr, a, b := heavyShortTreeGap(1, 165, 150, gap)
	if a == 0 {
		t.Fatal("branches invalid")
	}
	na, nb := tr.Node(a), tr.Node(b)
	t.Logf("gap %v: diffA %v diffB %v", gap, na.L.CS.Difficulty, nb.L.CS.Difficulty)
	t.Logf("built %d nodes in %v: A height %d work %v, B height %d work %v; B heavier than A: %v, A heavier than B: %v",
		len(tr.Nodes), time.Since(start), na.Height, na.L.CS.TotalWork, nb.Height, nb.L.CS.TotalWork, tr.Heavier(b, a), tr.Heavier(a, b))
	}
}
