package chainx

import (
	"bytes"
	"fmt"
	"math/rand"
	"os"
	"path/filepath"
	"testing"

	"go.etcd.io/bbolt"
	"go.sia.tech/core/types"
	"go.sia.tech/coreutils"
	"go.sia.tech/coreutils/chain"
	"verifharness/hx"
	"verifharness/mat"
)

// TestBackends is C17's last sentence ("consequently the chain store behaves the same whichever
// backend it is given"): the same fork trees and submission schedules are driven through DBStore
// over MemDB, CacheDB(MemDB), BoltChainDB and CacheDB(Bolt), with the store's own commit forced
// after random block operations; after every call the AddBlocks verdict, the tip and the complete
// bucket contents visible through the chain.DB interface must be identical on all four, and the
// audits of C01/C02 must hold on each.
func TestBackends(t *testing.T) {
	res := hx.NewResult()
	defer res.Write()
	n := hx.EnvInt("VERIF_HISTORIES", 12)
	dir := os.Getenv("VERIF_WORK")
	names := []string{"mem", "cache-mem", "bolt", "cache-bolt"}
	for hi := 0; hi < n; hi++ {
		seed := hx.Seed()*7000 + int64(hi)
		rng := rand.New(rand.NewSource(seed))
		reg := [][3]uint64{{1000, 1010, 1020}, {8, 14, 18}, {1, 1, 1}}[rng.Intn(3)]
		spec := TreeSpec{Seed: seed, Allow: reg[0], Require: reg[1], Final: reg[2], Blocks: 15 + rng.Intn(25), Warmup: 3,
			MaxLeaves: 3, BadBlocks: 3, OpsPerBlk: 3, ForkProb: 0.2, UniqueWindows: reg[0] != 1000}
		// v1-only histories put several contracts under one expiration height (the per-height lists the
		// store edits with swap-remove / append); the expiration ORDER audit is C02's, not counted here
		tr := spec.Build()
		tj, nm := tr.Abstract()
		var nodes []*RNode
		var closers []func()
		for bi, name := range names {
			var db chain.DB
			switch name {
			case "mem":
				db = chain.NewMemDB()
			case "cache-mem":
				db = chain.NewCacheDB(chain.NewMemDB())
			default:
				p := filepath.Join(dir, fmt.Sprintf("chain-%d-%d-%d.bolt", os.Getpid(), hi, bi))
				os.Remove(p)
				bdb, err := bbolt.Open(p, 0600, &bbolt.Options{NoSync: true, NoFreelistSync: true, NoGrowSync: true})
				if err != nil {
					t.Fatal(err)
				}
				bcdb := coreutils.NewBoltChainDB(bdb)
				// roll the open write transaction back first: bbolt's Close waits for it
				closers = append(closers, func() { bcdb.Cancel(); bdb.Close(); os.Remove(p) })
				db = bcdb
				if name == "cache-bolt" {
					db = chain.NewCacheDB(db)
				}
			}
			node, err := OpenNode(tr.W, db, true)
			if err != nil {
				t.Fatal(err)
			}
			nodes = append(nodes, node)
		}
		mismatch := func(sig, desc string) {
			res.Mismatch(sig, fmt.Sprintf("history seed %d: %s", seed, desc), map[string]any{"kind": "backends", "seed": seed})
		}
		var order []int
		for id := 2; id <= len(tr.Nodes); id++ {
			order = append(order, id)
		}
		for i := 0; i < len(order); {
			k := 1 + rng.Intn(3)
			if i+k > len(order) {
				k = len(order) - i
			}
			batch := order[i : i+k]
			i += k
			var blocks []types.Block
			for _, id := range batch {
				blocks = append(blocks, tr.Node(id).Block)
			}
			// the same commit points on every backend
			flushAt := map[int]bool{}
			for j := 1; j <= 6; j++ {
				if rng.Float64() < 0.3 {
					flushAt[j] = true
				}
			}
			var cls0 string
			var dump0 map[string]map[string][]byte
			for bi, node := range nodes {
				cls, _, detail := node.Submit(blocks, flushAt, 0)
				if cls == "panic" {
					mismatch("backends:"+names[bi]+":panic", fmt.Sprintf("AddBlocks(%v) panicked on %s: %s", batch, names[bi], detail))
					continue
				}
				p := node.Project(tr, nm, tj.MaxH)
				for _, a := range node.Audit(tr, nm, tj.MaxH, p) {
					if a[0] == "audit:c02:expiry-order" {
						continue
					}
					mismatch("backends:"+names[bi]+":"+a[0], a[1])
				}
				dump := DumpDB(node.DB)
				if bi == 0 {
					cls0, dump0 = cls, dump
					continue
				}
				if cls != cls0 {
					mismatch("backends:"+names[bi]+":verdict", fmt.Sprintf("AddBlocks(%v) returned %s on %s but %s on mem", batch, cls, names[bi], cls0))
				}
				for _, bucket := range bucketNames {
					a, b := dump0[bucket], dump[bucket]
					for key, v := range a {
						if w, ok := b[key]; !ok {
							mismatch("backends:"+names[bi]+":missing-key", fmt.Sprintf("after AddBlocks(%v): bucket %s key %x present on mem, missing on %s", batch, bucket, key, names[bi]))
						} else if !bytes.Equal(v, w) {
							mismatch("backends:"+names[bi]+":value", fmt.Sprintf("after AddBlocks(%v): bucket %s key %x differs between mem and %s", batch, bucket, key, names[bi]))
						}
					}
					for key := range b {
						if _, ok := a[key]; !ok {
							mismatch("backends:"+names[bi]+":extra-key", fmt.Sprintf("after AddBlocks(%v): bucket %s key %x present on %s, missing on mem", batch, bucket, key, names[bi]))
						}
					}
				}
				res.Eval("")
			}
		}
		// what survives if the process stopped now must be the image of the last completed commit on
		// every backend (a committed value changed in place through a slice the backend handed out
		// shows up here on MemDB, and as a fault on Bolt's read-only mapping)
		for bi, node := range nodes {
			if names[bi] == "mem" || names[bi] == "cache-mem" {
				node.Backend = map[string]string{"mem": "mem", "cache-mem": "cache"}[names[bi]]
				if names[bi] == "cache-mem" {
					continue // the cache's inner MemDB is not reachable from here; covered by C03's driver
				}
				node.DB.durable = node.Raw
				if _, diff := node.CrashImage(); diff != "" {
					mismatch("backends:"+names[bi]+":uncommitted-visible", diff)
				}
			}
		}
		for _, c := range closers {
			c()
		}
		res.Eval(fmt.Sprint(seed))
		if hi == 0 {
			res.Sample(map[string]any{"seed": seed, "tree_parents": tj.Parent, "classes": tj.Cls, "backends": names})
		}
	}
	res.Traces = n
	_ = mat.AllOps
}
