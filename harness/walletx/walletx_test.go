package walletx

import (
	"fmt"
	"math/rand"
	"os"
	"path/filepath"
	"sort"
	"strings"
	"sync"
	"sync/atomic"
	"testing"

	"verifharness/hx"
)

// Label is one call, as printed by ToJson(act') of spec/WalletFund.tla.
type Label struct {
	Op   string `json:"op"`
	Ver  int    `json:"ver,omitempty"`
	Amt  int    `json:"amt,omitempty"`
	Unc  bool   `json:"unc,omitempty"`
	N    int    `json:"n,omitempty"`
	Min  int    `json:"min,omitempty"`
	T    int    `json:"t,omitempty"`
	V    int    `json:"v,omitempty"`
	Pre  bool   `json:"pre,omitempty"`  // Bcast: the caller put the set into the pool before the wallet broadcasts it
	K    int    `json:"k,omitempty"`    // Lag: blocks the store falls behind
	Fork int    `json:"fork,omitempty"` // Lag: of which a reorg abandons this many indexed (empty) blocks first
	Fpb  int    `json:"fpb,omitempty"`  // fee per byte for Redistribute (0 in the model-checked graph)
}

type specDesc struct {
	Tid  int   `json:"tid"`
	Ver  int   `json:"ver"`
	Ins  []int `json:"ins"`
	Out  int   `json:"out"`
	Fee  int   `json:"fee"`
	Bl   int   `json:"bl"`
	Made []struct {
		ID int `json:"id"`
		V  int `json:"v"`
	} `json:"made"`
}

type specReply struct {
	R   string     `json:"r"`
	D   []specDesc `json:"d"`
	Dup int        `json:"dup"`
}

type specObs struct {
	Sp   int   `json:"sp"`
	Conf int   `json:"conf"`
	Imm  int   `json:"imm"`
	Unc  int   `json:"unc"`
	List []int `json:"list"`
}

type step struct {
	Act   Label     `json:"act"`
	Reply specReply `json:"reply"`
	Obs   specObs   `json:"obs"`
}

type pathIn struct {
	Cfg   Cfg    `json:"cfg"`
	Owned []Out  `json:"owned"` // index i is output id i+1
	Steps []step `json:"steps"`
}

type replayIn struct {
	Stub    string   `json:"stub"`
	Workers int      `json:"workers"`
	Paths   []pathIn `json:"paths"`
}

func normDescs(ds []Desc) string {
	var parts []string
	for _, d := range ds {
		made := append([][2]int{}, d.Made...)
		sort.Slice(made, func(i, j int) bool { return made[i][0] < made[j][0] })
		parts = append(parts, fmt.Sprintf("%d|%d|%v|%d|%d|%d|%v", d.Tid, d.Ver, sortedInts(d.Ins), d.Out, d.Fee, d.Bl, made))
	}
	sort.Strings(parts)
	return strings.Join(parts, ";")
}

func normSpecDescs(ds []specDesc) string {
	var out []Desc
	for _, d := range ds {
		x := Desc{Tid: d.Tid, Ver: d.Ver, Ins: d.Ins, Out: d.Out, Fee: d.Fee, Bl: d.Bl}
		for _, m := range d.Made {
			x.Made = append(x.Made, [2]int{m.ID, m.V})
		}
		out = append(out, x)
	}
	return normDescs(out)
}

// run is one sequential session: a world, the events recorded so far, the Go-side findings.
type run struct {
	wd     *world
	events []ev
	mm     []hx.Mismatch
	record any // replay record attached to mismatches
	counts map[string]int
}

func (r *run) mismatch(sig, desc string) {
	r.mm = append(r.mm, hx.Mismatch{Sig: sig, Desc: desc, Replay: r.record})
}

func (r *run) emit(e ev) { r.events = append(r.events, e) }

// observe logs Balance()/SpendableOutputs(); when want is given (on-path replay) they are also
// compared with the specification's views of the state the path is in.
func (r *run) observe(want *specObs, where string) error {
	e, err := r.wd.obs()
	if err != nil {
		return err
	}
	r.emit(e)
	if e["listsum"].(int) != e["sp"].(int) {
		r.counts["views-disagree"]++
	}
	if want == nil {
		return nil
	}
	chk := func(name string, got, w int) {
		if got != w {
			r.mismatch("replay:Obs:balance-"+name, fmt.Sprintf("%s: Balance.%s = %d, specification says %d", where, name, got, w))
		}
	}
	if r.wd.lag > 0 && e["conf"].(int) != want.Conf && e["conf"].(int)+e["imm"].(int) == want.Conf+want.Imm {
		// Balance() judges maturity by the manager's height, selection by the store's tip
		r.mismatch("replay:Obs:balance-maturity-under-lag", fmt.Sprintf("%s: the store is %d blocks behind the chain manager: Balance reports spendable=%d confirmed=%d immature=%d, while SpendableOutputs / selection (and the specification) say spendable=%d confirmed=%d immature=%d",
			where, r.wd.lag, e["sp"], e["conf"], e["imm"], want.Sp, want.Conf, want.Imm))
		want = &specObs{Sp: e["sp"].(int), Conf: e["conf"].(int), Imm: e["imm"].(int), Unc: want.Unc, List: want.List}
	}
	chk("spendable", e["sp"].(int), want.Sp)
	chk("confirmed", e["conf"].(int), want.Conf)
	chk("immature", e["imm"].(int), want.Imm)
	chk("unconfirmed", e["unc"].(int), want.Unc)
	got, w := e["list"].([]int), sortedInts(want.List)
	if fmt.Sprint(got) != fmt.Sprint(w) {
		sig := "replay:Obs:spendable-list"
		// classify: is every surplus entry an output spent by a pooled v2 transaction?
		wm := map[int]bool{}
		for _, x := range w {
			wm[x] = true
		}
		lv2 := map[int]bool{}
		for _, x := range e["lv2"].([]int) {
			lv2[x] = true
		}
		extraAllV2, missing := true, false
		gm := map[int]bool{}
		for _, x := range got {
			gm[x] = true
			if !wm[x] && !lv2[x] {
				extraAllV2 = false
			}
		}
		for _, x := range w {
			if !gm[x] {
				missing = true
			}
		}
		if extraAllV2 && !missing {
			sig += ":v2-pool-spent"
		}
		r.mismatch(sig, fmt.Sprintf("%s: SpendableOutputs lists %v, specification (and Balance.Spendable=%d) says %v; listed although spent by a pooled v2 transaction: %v",
			where, got, e["sp"], w, e["lv2"]))
	}
	return nil
}

// exec performs one labelled call if it is enabled in the real session.
func (r *run) exec(a Label) (e ev, enabled bool, err error) {
	wd := r.wd
	switch a.Op {
	case "Fund":
		e, _ = wd.fund(a.Ver, a.Amt, a.Unc)
	case "Redist":
		e, _ = wd.redistribute(a.N, a.Amt, a.Fpb)
	case "Split":
		e = wd.split(a.N, a.Min)
	case "Release":
		t := wd.txs[a.T]
		if t == nil || !wd.live(t) {
			return nil, false, nil
		}
		e = wd.release(t)
	case "Bcast":
		t := wd.txs[a.T]
		if t == nil || !wd.canBroadcast(t) {
			return nil, false, nil
		}
		e = wd.broadcast(t, a.Pre)
	case "Tick":
		wd.tick()
		e = ev{"op": "Tick"}
	case "Lag":
		if wd.lag > 0 || !wd.rewardAllowed() {
			return nil, false, nil
		}
		e, err = wd.lagBegin(a.K, a.Fork)
	case "CatchUp":
		if wd.lag == 0 {
			return nil, false, nil
		}
		e, err = wd.catchUp()
	case "Mine":
		if wd.lag > 0 || !wd.mineAllowed() {
			return nil, false, nil
		}
		e, err = wd.mine()
	case "Reward":
		if wd.lag > 0 || !wd.rewardAllowed() {
			return nil, false, nil
		}
		e, err = wd.reward(a.V)
	case "Restart":
		if wd.lag > 0 {
			return nil, false, nil
		}
		e, err = wd.restart()
	default:
		err = fmt.Errorf("unknown op %q", a.Op)
	}
	if err != nil {
		return nil, true, err
	}
	r.counts[a.Op]++
	if s, ok := e["r"].(string); ok {
		r.counts[a.Op+":"+s]++
		if strings.HasPrefix(s, "error:") || s == "zero-with-inputs" {
			r.mismatch("replay:"+a.Op+":error", fmt.Sprintf("%s returned %s", hx.JSON(a), s))
		}
	}
	if pn, _ := e["panic"].(bool); pn {
		r.mismatch("replay:"+a.Op+":parents-panic", fmt.Sprintf("%s: collecting the unconfirmed parents of a wallet-funded transaction panicked in chain.Manager: %v", hx.JSON(a), e["msg"]))
	}
	if bb, ok := e["badbasis"].(string); ok {
		r.mismatch("replay:"+a.Op+":basis-not-wallet-tip", fmt.Sprintf("%s with the store %d blocks behind the chain manager: %s", hx.JSON(a), wd.lag, bb))
	}
	if mo, _ := e["misordered"].(bool); mo {
		r.mismatch("replay:Bcast:parent-order", fmt.Sprintf("%s: the pool rejected the funded transaction because the transaction set chain.Manager built for it lists a child before its parent: %v", hx.JSON(a), e["msg"]))
	}
	if dup, _ := e["dup"].(bool); dup {
		r.mismatch("replay:Fund:dup-input", fmt.Sprintf("%s (options %s) returned a transaction that spends the same output twice: %s",
			hx.JSON(a), hx.JSON(wd.cfg), hx.JSON(e["d"])))
	} else if cons, ok := e["cons"].(bool); ok && !cons {
		r.mismatch("replay:"+a.Op+":not-conserved", fmt.Sprintf("%s: inputs != outputs + fee in %s", hx.JSON(a), hx.JSON(e["d"])))
	}
	r.emit(e)
	return e, true, nil
}

// ---------------------------------------------------------------- Leg R: spec -> code

type replayStats struct {
	steps, onpath, diverged, skipped, late int
}

// replayPath steps the real wallet through one path of the schedule graph.  While the wallet
// answers exactly as the code-policy edge says, reply and all views are compared with the edge;
// after the first admissible-looking divergence the remaining calls are still made (when they
// are enabled) and the whole realized run is judged by TLC against the permissive specification.
func replayPath(p pathIn, stub string, tag string) (*run, *replayStats, error) {
	st := &replayStats{}
	wd, err := newWorld(p.Cfg, p.Owned, nil, stub)
	if err != nil {
		return nil, st, err
	}
	defer wd.close()
	r := &run{wd: wd, counts: map[string]int{}}
	r.record = map[string]any{"kind": "path", "stub": stub, "path": p}
	r.emit(wd.resetEvent(p.Owned, tag))
	if err := r.observe(nil, "init"); err != nil {
		return nil, st, err
	}
	on := true
	for i, s := range p.Steps {
		e, enabled, err := r.exec(s.Act)
		if err != nil {
			return nil, st, fmt.Errorf("step %d %s: %w", i, hx.JSON(s.Act), err)
		}
		if !enabled {
			st.skipped++
			continue
		}
		st.steps++
		where := fmt.Sprintf("%s step %d %s", tag, i, hx.JSON(s.Act))
		var want *specObs
		if on {
			gotR, _ := e["r"].(string)
			wantR := s.Reply.R
			if _, has := e["r"]; !has {
				gotR = "ok"
			}
			same := gotR == wantR
			if ds, ok := e["d"].([]Desc); ok && same {
				same = normDescs(ds) == normSpecDescs(s.Reply.D)
			}
			if dup, _ := e["dup"].(bool); dup {
				same = false
			}
			if same {
				st.onpath++
				want = &s.Obs
			} else {
				on = false
				st.diverged++
				if s.Act.Op == "Fund" && gotR != wantR {
					r.mismatch("replay:Fund:reply", fmt.Sprintf("%s: wallet answered %q, specification says %q", where, gotR, wantR))
				}
				if s.Act.Op == "Bcast" && gotR != wantR {
					r.mismatch("replay:Bcast:"+gotR, fmt.Sprintf("%s: the pool answered %q (%v), specification says %q", where, gotR, e["msg"], wantR))
				}
			}
		}
		if err := r.observe(want, where); err != nil {
			return nil, st, err
		}
	}
	if wd.late {
		st.late = 1
	}
	return r, st, nil
}

// shard is a trace file shared by several workers; a session is written contiguously.
type shard struct {
	mu sync.Mutex
	tw *hx.TraceWriter
}

func openShards(prefix string, n int) ([]*shard, error) {
	out := make([]*shard, n)
	for i := range out {
		tw, err := hx.NewTraceWriter(filepath.Join(workDir(), fmt.Sprintf("%s-%d.ndjson", prefix, i)))
		if err != nil {
			return nil, err
		}
		out[i] = &shard{tw: tw}
	}
	return out, nil
}

func closeShards(sh []*shard) error {
	for _, s := range sh {
		if err := s.tw.Close(); err != nil {
			return err
		}
	}
	return nil
}

func (s *shard) write(r *run) {
	s.mu.Lock()
	defer s.mu.Unlock()
	for _, e := range r.events {
		s.tw.Emit(e)
	}
}

func writeRun(tw *hx.TraceWriter, r *run) {
	for _, e := range r.events {
		tw.Emit(e)
	}
}

func workDir() string {
	if d := os.Getenv("VERIF_WORK"); d != "" {
		return d
	}
	return os.TempDir()
}

func TestReplay(t *testing.T) {
	res := hx.NewResult()
	defer res.Write()
	var in replayIn
	if err := hx.ReadIn(&in); err != nil {
		t.Fatal(err)
	}
	workers := in.Workers
	if workers <= 0 {
		workers = 16
	}
	var mu sync.Mutex
	var tot replayStats
	dropped := 0
	var wg sync.WaitGroup
	next := atomic.Int64{}
	var firstErr error
	shards, err := openShards("walletfund-r", hx.EnvInt("VERIF_SHARDS", 8))
	if err != nil {
		t.Fatal(err)
	}
	for wk := 0; wk < workers; wk++ {
		wg.Add(1)
		go func(wk int) {
			defer wg.Done()
			for {
				i := int(next.Add(1)) - 1
				if i >= len(in.Paths) {
					return
				}
				var r *run
				var st *replayStats
				var err error
				for attempt := 0; attempt < 3; attempt++ {
					r, st, err = replayPath(in.Paths[i], in.Stub, fmt.Sprintf("path%d", i))
					if err != nil || st.late == 0 {
						break
					}
				}
				mu.Lock()
				if err != nil {
					if firstErr == nil {
						firstErr = err
					}
					mu.Unlock()
					continue
				}
				if st.late != 0 {
					dropped++
					mu.Unlock()
					continue
				}
				tot.steps += st.steps
				tot.onpath += st.onpath
				tot.diverged += st.diverged
				tot.skipped += st.skipped
				for k, v := range r.counts {
					res.Count(k, v)
				}
				mu.Unlock()
				for _, m := range r.mm {
					res.Mismatch(m.Sig, m.Desc, m.Replay)
				}
				for j, s := range in.Paths[i].Steps {
					_ = j
					res.Eval(hx.JSON(in.Paths[i].Cfg) + hx.JSON(in.Paths[i].Owned) + hx.JSON(s.Act) + hx.JSON(s.Obs))
				}
				shards[i%len(shards)].write(r)
				res.Count("traces", 1)
				if i == 0 {
					res.Sample(map[string]any{"leg": "R", "cfg": in.Paths[i].Cfg, "wallet": in.Paths[i].Owned, "events": head(r.events, 12)})
				}
			}
		}(wk)
	}
	wg.Wait()
	if err := closeShards(shards); err != nil {
		t.Fatal(err)
	}
	if firstErr != nil {
		t.Fatal(firstErr)
	}
	res.Traces = res.Counts["traces"]
	res.Count("paths", len(in.Paths))
	res.Count("steps", tot.steps)
	res.Count("onpath", tot.onpath)
	res.Count("diverged", tot.diverged)
	res.Count("skipped", tot.skipped)
	res.Count("timing_dropped", dropped)
}

func head(es []ev, n int) []ev {
	if len(es) > n {
		return es[:n]
	}
	return es
}

// TestReplayOne re-executes one saved replay record (./check C07 --replay f).
func TestReplayOne(t *testing.T) {
	res := hx.NewResult()
	defer res.Write()
	var mm struct {
		Replay struct {
			Kind  string  `json:"kind"`
			Stub  string  `json:"stub"`
			Path  pathIn  `json:"path"`
			Seed  int64   `json:"seed"`
			Index int     `json:"index"`
			Conc  bool    `json:"conc"`
			Event ev      `json:"event"`
			Extra []Label `json:"extra"`
		} `json:"replay"`
	}
	if err := hx.ReadIn(&mm); err != nil {
		t.Fatal(err)
	}
	tw, err := hx.NewTraceWriter(filepath.Join(workDir(), "walletfund-one-0.ndjson"))
	if err != nil {
		t.Fatal(err)
	}
	defer tw.Close()
	switch mm.Replay.Kind {
	case "path":
		r, _, err := replayPath(mm.Replay.Path, mm.Replay.Stub, "replay")
		if err != nil {
			t.Fatal(err)
		}
		for _, m := range r.mm {
			res.Mismatch(m.Sig, m.Desc, m.Replay)
		}
		writeRun(tw, r)
		res.Traces = 1
	case "session":
		var r *run
		var err error
		if mm.Replay.Conc {
			r, err = concurrentSession(mm.Replay.Seed, mm.Replay.Index) // same programme; the schedule is the runtime's
		} else {
			r, err = randomSession(mm.Replay.Seed, mm.Replay.Index, "")
		}
		if err != nil {
			t.Fatal(err)
		}
		for _, m := range r.mm {
			res.Mismatch(m.Sig, m.Desc, m.Replay)
		}
		writeRun(tw, r)
		res.Traces = 1
	default:
		t.Fatalf("unknown replay kind %q", mm.Replay.Kind)
	}
}

// ---------------------------------------------------------------- Leg T (i): random sessions

func pick[T any](rng *rand.Rand, xs ...T) T { return xs[rng.Intn(len(xs))] }

func randomCfg(rng *rand.Rand) Cfg {
	switch rng.Intn(6) {
	case 0:
		return Cfg{Dt: 30, Mi: 30, Md: 10, Rt: pick(rng, 1, 2)}
	case 1:
		return Cfg{Dt: 0, Mi: 0, Md: 0, Rt: 0}
	case 2:
		return Cfg{Dt: 0, Mi: 30, Md: 10, Rt: pick(rng, 0, 1, 2)}
	}
	return Cfg{Dt: pick(rng, 0, 1, 2, 3, 4, 5), Mi: pick(rng, 0, 1, 2, 3, 4, 30), Md: pick(rng, 0, 1, 2, 10), Rt: pick(rng, 0, 1, 1, 2)}
}

func randomWallet(rng *rand.Rand) []Out {
	n := rng.Intn(7)
	outs := make([]Out, n)
	for i := range outs {
		outs[i] = Out{V: 1 + rng.Intn(pick(rng, 4, 12, 40))}
	}
	// at most a few immature ones
	for i := range outs {
		if rng.Intn(6) == 0 {
			outs[i].M = 1 + rng.Intn(delay)
		}
	}
	return outs
}

// randomSession is one long random sequential session (seed, index) -> realized run.
func randomSession(seed int64, index int, stub string) (*run, error) {
	var r *run
	for attempt := 0; attempt < 3; attempt++ {
		rng := rand.New(rand.NewSource(seed*1000003 + int64(index)*7919 + 17))
		cfg := randomCfg(rng)
		outs := randomWallet(rng)
		var prelude []Label
		if index%6 == 2 {
			outs, prelude = multiBatchScenario(rng)
		}
		wd, err := newWorld(cfg, outs, nil, stub)
		if err != nil {
			return nil, err
		}
		r = &run{wd: wd, counts: map[string]int{}}
		r.record = map[string]any{"kind": "session", "seed": seed, "index": index}
		err = driveRandom(r, rng, outs, prelude, fmt.Sprintf("session%d", index))
		wd.close()
		if err != nil {
			return nil, err
		}
		if !wd.late {
			return r, nil
		}
	}
	r.counts["timing_dropped"] = 1
	r.events = nil
	return r, nil
}

// multiBatchScenario: a wallet and a Redistribute call that wants more than one batch
// (redistributeBatchSize = 10 outputs per transaction).  Depending on the draw every batch is
// funded, or -- the interesting case -- an earlier batch is funded and a later one finds a
// non-empty but insufficient remainder and is dropped (partial success), or not even the first
// batch is funded.  The session then goes on randomly (Fund for exactly the balance, Release,
// ...), so whatever the call reserved beyond the inputs of the returned transactions shows.
func multiBatchScenario(rng *rand.Rand) ([]Out, []Label) {
	amt := 2 + rng.Intn(4)
	n := 11 + rng.Intn(3)
	var outs []Out
	switch rng.Intn(5) {
	case 0: // everything funded: one output per batch
		outs = []Out{{V: 10*amt + 1 + rng.Intn(3)}, {V: (n-10)*amt + 1 + rng.Intn(3)}}
	case 1: // not even the first batch
		outs = []Out{{V: 10*amt - 1}, {V: 1}}
	default: // first batch funded, the remainder (1..3 small outputs) falls short of the second
		outs = []Out{{V: 10*amt + 1 + rng.Intn(2)}}
		for k := 1 + rng.Intn(3); k > 0; k-- {
			outs = append(outs, Out{V: 1 + rng.Intn(min(amt-1, (n-10)*amt/3+1))})
		}
		sum := 0
		for _, o := range outs[1:] {
			sum += o.V
		}
		if sum >= (n-10)*amt { // make sure the remainder is insufficient
			outs = outs[:2]
			outs[1].V = 1
		}
	}
	rng.Shuffle(len(outs), func(i, j int) { outs[i], outs[j] = outs[j], outs[i] })
	return outs, []Label{{Op: "Redist", N: n, Amt: amt}}
}

func driveRandom(r *run, rng *rand.Rand, outs []Out, prelude []Label, tag string) error {
	wd := r.wd
	wd.fm.fee = cur(pick(rng, 0, 0, 0, 0, 0, 1)) // SplitUTXO's fee = 2000 * this
	r.emit(wd.resetEvent(outs, tag))
	if err := r.observe(nil, tag); err != nil {
		return err
	}
	for _, a := range prelude {
		if _, _, err := r.exec(a); err != nil {
			return fmt.Errorf("%s prelude %s: %w", tag, hx.JSON(a), err)
		}
		if err := r.observe(nil, tag); err != nil {
			return err
		}
		if e := r.events[len(r.events)-2]; e["op"] == "Redist" && e["r"] == "ok" {
			r.counts["Redist:multi-batch"]++
			if len(e["d"].([]Desc)) == 1 {
				r.counts["Redist:partial-success"]++
			}
		}
	}
	nsteps := 30 + rng.Intn(50)
	ticks := 0
	for i := 0; i < nsteps; i++ {
		last := r.events[len(r.events)-1] // the latest Obs
		sp, unc := last["sp"].(int), last["unc"].(int)
		var a Label
		x := rng.Intn(100)
		switch {
		case x < 38:
			amt := 0
			switch rng.Intn(14) {
			case 0:
				amt = 0
			case 1:
				amt = sp
			case 2:
				amt = sp + 1
			case 3:
				amt = sp + unc
			case 4:
				amt = sp + unc + 1
			default:
				amt = 1 + rng.Intn(sp+unc+2)
			}
			a = Label{Op: "Fund", Ver: pick(rng, 1, 2), Amt: amt, Unc: rng.Intn(3) == 0}
		case x < 50:
			if t := r.pickTx(rng, func(t *txrec) bool { return wd.live(t) }); t != nil {
				a = Label{Op: "Release", T: t.tid}
			} else {
				continue
			}
		case x < 66:
			if t := r.pickTx(rng, func(t *txrec) bool { return wd.canBroadcast(t) }); t != nil {
				a = Label{Op: "Bcast", T: t.tid, Pre: t.ver == 2 && rng.Intn(3) == 0}
			} else {
				continue
			}
		case x < 72:
			if ticks >= 4 || wd.cfg.Rt == 0 {
				continue
			}
			ticks++
			a = Label{Op: "Tick"}
		case x < 76:
			a = Label{Op: "Mine"}
		case x < 80:
			// the store falls behind the manager (sometimes through a reorg of blocks it had indexed)
			if wd.lag > 0 {
				a = Label{Op: "CatchUp"}
				break
			}
			a = Label{Op: "Lag", K: pick(rng, 1, 2, 4, 5, 6, 8)}
			if rng.Intn(3) == 0 && last["imm"].(int) == 0 && last["unc"].(int) == 0 && len(wd.cm.PoolTransactions())+len(wd.cm.V2PoolTransactions()) == 0 && wd.mineAllowed() && wd.rewardAllowed() {
				// reorg variant: `fork` empty blocks are indexed first, then abandoned
				a.Fork = 1 + rng.Intn(2)
				for j := 0; j < a.Fork; j++ {
					if _, _, err := r.exec(Label{Op: "Mine"}); err != nil {
						return err
					}
					if err := r.observe(nil, tag); err != nil {
						return err
					}
				}
			}
		case x < 84:
			a = Label{Op: "Reward", V: 1 + rng.Intn(9)}
		case x < 88:
			a = Label{Op: "Restart"}
		case x < 94:
			a = Label{Op: "Redist", N: 1 + rng.Intn(4), Amt: 1 + rng.Intn(6), Fpb: pick(rng, 0, 0, 0, 1)}
			if rng.Intn(12) == 0 {
				a.N = 11 + rng.Intn(3) // more than one batch
				a.Amt = 1
			}
		default:
			a = Label{Op: "Split", N: 2 + rng.Intn(3), Min: 1 + rng.Intn(4)}
			if wd.cfg.Dt >= 2 && rng.Intn(4) > 0 {
				a.N = 2 + rng.Intn(min(wd.cfg.Dt, 4)-1)
			}
			if rng.Intn(10) == 0 {
				a.N, a.Min = rng.Intn(2), rng.Intn(2) // argument errors
			}
		}
		if wd.lag > 0 && (a.Op == "Mine" || a.Op == "Reward" || a.Op == "Restart") {
			a = Label{Op: "CatchUp"} // chain events wait until the subscriber has caught up
		}
		_, enabled, err := r.exec(a)
		if err != nil {
			return fmt.Errorf("%s step %d %s: %w", tag, i, hx.JSON(a), err)
		}
		if !enabled {
			continue
		}
		if err := r.observe(nil, tag); err != nil {
			return err
		}
	}
	if wd.lag > 0 {
		if _, _, err := r.exec(Label{Op: "CatchUp"}); err != nil {
			return err
		}
		if err := r.observe(nil, tag); err != nil {
			return err
		}
	}
	return nil
}

func (r *run) pickTx(rng *rand.Rand, ok func(*txrec) bool) *txrec {
	var tids []int
	for tid, t := range r.wd.txs {
		if ok(t) {
			tids = append(tids, tid)
		}
	}
	if len(tids) == 0 {
		return nil
	}
	sort.Ints(tids)
	return r.wd.txs[tids[rng.Intn(len(tids))]]
}

// TestSessions: VERIF_SESSIONS long random sequential sessions, VERIF_WORKERS at a time.
func TestSessions(t *testing.T) {
	res := hx.NewResult()
	defer res.Write()
	n := hx.EnvInt("VERIF_SESSIONS", 40)
	workers := hx.EnvInt("VERIF_WORKERS", 16)
	stub := os.Getenv("VERIF_STUB")
	var wg sync.WaitGroup
	next := atomic.Int64{}
	var mu sync.Mutex
	var firstErr error
	shards, err := openShards("walletfund-s", hx.EnvInt("VERIF_SHARDS", 8))
	if err != nil {
		t.Fatal(err)
	}
	for wk := 0; wk < workers; wk++ {
		wg.Add(1)
		go func(wk int) {
			defer wg.Done()
			for {
				i := int(next.Add(1)) - 1
				if i >= n {
					return
				}
				r, err := randomSession(hx.Seed(), i, stub)
				mu.Lock()
				if err != nil && firstErr == nil {
					firstErr = err
				}
				mu.Unlock()
				if err != nil {
					continue
				}
				for k, v := range r.counts {
					res.Count(k, v)
				}
				if len(r.events) == 0 {
					continue
				}
				// Go-side findings of random sessions are judged by TLC from the trace; only
				// unexpected errors are reported from here
				for _, m := range r.mm {
					if strings.HasSuffix(m.Sig, ":error") || strings.HasSuffix(m.Sig, ":parents-panic") || strings.HasSuffix(m.Sig, ":basis-not-wallet-tip") {
						res.Mismatch(strings.Replace(m.Sig, "replay:", "trace:", 1), m.Desc, m.Replay)
					}
				}
				shards[i%len(shards)].write(r)
				res.Eval(fmt.Sprintf("session|%d|%d", hx.Seed(), i))
				res.Count("traces", 1)
				res.Count("events", len(r.events))
				if i == 0 {
					res.Sample(map[string]any{"leg": "T-sequential", "options": r.wd.cfg, "events": head(r.events, 14)})
				}
			}
		}(wk)
	}
	wg.Wait()
	if err := closeShards(shards); err != nil {
		t.Fatal(err)
	}
	res.Traces = res.Counts["traces"]
	if firstErr != nil {
		t.Fatal(firstErr)
	}
}
