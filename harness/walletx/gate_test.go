package walletx

import (
	"fmt"
	"os"
	"sort"
	"strings"
	"sync"
	"sync/atomic"
	"testing"
	"time"

	"go.sia.tech/core/types"
	"verifharness/hx"
)

// ---------------------------------------------------------------- Leg T (iii): gated pairs
//
// WalletFund.tla's actions are atomic; the wallet mutex has to make that true.  This leg binds
// the claim deterministically: every call the wallet makes OUT of itself -- into the chain
// manager, its store, the syncer (all wrapped, see world_test.go) -- is a gate.  For every
// operation A, every such call of A, and every operation B: A is started and parked inside that
// call, B is started and given `hold` to finish, then A is let go.  If the wallet holds its mutex
// at that point B simply waits (the run only gets slower); if it does not, B takes effect in the
// middle of A.  Either way the two calls overlapped in real time, are logged as a Par block, and
// TLC looks for SOME order of the two in which both replies are explained by the atomic actions
// of the specification (WalletFundTrace!TPar), invariants evaluated in every state.  Afterwards
// every transaction the pair returned is broadcast: the pool must accept what the
// specification says is valid.  Independently of TLC: two un-released results must not share an
// input.

type gate struct {
	mu        sync.Mutex
	recording bool
	rec       []string
	armed     bool
	name      string
	nth       int
	count     int
	parked    chan struct{}
	release   chan struct{}
}

// enter is called by the wrappers at the start of every call the wallet makes out of itself.
func (g *gate) enter(name string) {
	if g == nil {
		return
	}
	g.mu.Lock()
	if g.recording {
		g.rec = append(g.rec, name)
	}
	if g.armed && name == g.name {
		g.count++
		if g.count == g.nth {
			g.armed = false
			parked, release := g.parked, g.release
			g.mu.Unlock()
			close(parked)
			<-release
			return
		}
	}
	g.mu.Unlock()
}

func (g *gate) arm(name string, nth int) (parked, release chan struct{}) {
	g.mu.Lock()
	defer g.mu.Unlock()
	g.armed, g.name, g.nth, g.count = true, name, nth, 0
	g.parked, g.release = make(chan struct{}), make(chan struct{})
	return g.parked, g.release
}

func (g *gate) disarm() {
	g.mu.Lock()
	g.armed = false
	g.mu.Unlock()
}

func (g *gate) record(on bool) []string {
	g.mu.Lock()
	defer g.mu.Unlock()
	g.recording = on
	out := g.rec
	g.rec = nil
	return out
}

// gop is one wallet operation of the catalogue.
type gop struct {
	Kind string `json:"kind"` // FundV1 FundV2 FundV2u Redist Split Release Bcast Obs
}

var gateOps = []string{"FundV1", "FundV2", "FundV1u", "FundV2u", "Redist", "Split", "Release", "Bcast", "Balance", "Spendable"}

// gatePres are the situations the pair starts in: a fresh wallet; one earlier request T0 still
// with its caller (needed by Release / Bcast); T0 in the pool (unconfirmed change around).
var gatePres = []string{"fresh", "held", "pooled"}

func gateOpPossible(kind, pre string) bool {
	if kind == "Release" || kind == "Bcast" {
		return pre == "held"
	}
	return true
}

// runRaw performs the operation without touching the harness bookkeeping (it runs concurrently
// with the other operation of the pair); the result is named afterwards.
func (c *concSession) runRaw(kind string, t0 *txrec) (x rawEvent) {
	wd := c.wd
	defer func() {
		if p := recover(); p != nil {
			x = rawEvent{op: "Panic", r: fmt.Sprint(p)}
		}
	}()
	switch kind {
	case "FundV1", "FundV2", "FundV1u", "FundV2u":
		ver, unc := 1, strings.HasSuffix(kind, "u")
		if strings.HasPrefix(kind, "FundV2") {
			ver = 2
		}
		t, r := c.fundRaw(ver, 4, unc)
		x = rawEvent{op: "Fund", a: Label{Op: "Fund", Ver: ver, Amt: 4, Unc: unc}, r: r}
		if t != nil {
			x.ts = []*txrec{t}
		}
	case "Redist":
		ts, r := c.redistRaw(2, 2)
		x = rawEvent{op: "Redist", a: Label{Op: "Redist", N: 2, Amt: 2}, r: r, ts: ts}
	case "Split":
		txn, err := wd.w.SplitUTXO(5, cur(2)) // more than the wallet has: the largest output is split
		x = rawEvent{op: "Split", a: Label{Op: "Split", N: 5, Min: 2}}
		switch {
		case err != nil:
			x.r = "err"
		case len(txn.SiacoinInputs) == 0:
			x.r = "none"
		default:
			x.r = "ok"
			x.ts = []*txrec{{ver: 2, st: "pool", v2: txn}}
		}
	case "Release":
		wd.releaseCall(t0)
		x = rawEvent{op: "Release", ts: []*txrec{t0}}
	case "Bcast":
		e := wd.broadcast(t0)
		x = rawEvent{op: "Bcast", ts: []*txrec{t0}, r: e["r"].(string)}
	case "Balance": // one wallet call
		bal, err := wd.w.Balance()
		if err != nil {
			panic(err)
		}
		x = rawEvent{op: "ObsBal", obs: obsRaw{sp: toInt(bal.Spendable), conf: toInt(bal.Confirmed), imm: toInt(bal.Immature), unc: toInt(bal.Unconfirmed)}}
	case "Spendable": // one wallet call
		sos, err := wd.w.SpendableOutputs()
		if err != nil {
			panic(err)
		}
		x = rawEvent{op: "ObsList"}
		for _, so := range sos {
			x.obs.list = append(x.obs.list, so.ID)
		}
	default:
		panic("unknown operation " + kind)
	}
	return x
}

type gateCase struct {
	Pre  string `json:"pre"`
	A    string `json:"a"`
	Gate string `json:"gate"` // name of the call A is parked in
	Nth  int    `json:"nth"`  // its occurrence within A
	B    string `json:"b"`
}

func (gc gateCase) String() string {
	return fmt.Sprintf("%s/%s@%s#%d/%s", gc.Pre, gc.A, gc.Gate, gc.Nth, gc.B)
}

var gateWallet = []Out{{V: 20}, {V: 9}, {V: 5}, {V: 3}}
var gateCfg = Cfg{Dt: 30, Mi: 30, Md: 10, Rt: 1000}

// gateSetup builds the world of a case and performs the sequential prefix.
func gateSetup(pre string, tag string) (*run, *concSession, *txrec, error) {
	wd, err := newWorld(gateCfg, gateWallet, nil, "")
	if err != nil {
		return nil, nil, nil, err
	}
	r := &run{wd: wd, counts: map[string]int{}}
	r.emit(wd.resetEvent(gateWallet, tag))
	if err := r.observe(nil, tag); err != nil {
		return nil, nil, nil, err
	}
	var t0 *txrec
	if pre != "fresh" {
		e, t := wd.fund(2, 6, false)
		if t == nil {
			return nil, nil, nil, fmt.Errorf("setup fund failed: %v", e)
		}
		r.emit(e)
		t0 = t
		if pre == "pooled" {
			b := wd.broadcast(t)
			if b["r"] != "acc" {
				return nil, nil, nil, fmt.Errorf("setup broadcast failed: %v", b)
			}
			r.emit(b)
		}
		if err := r.observe(nil, tag); err != nil {
			return nil, nil, nil, err
		}
	}
	return r, &concSession{wd: wd}, t0, nil
}

// gatePoints lists the calls operation A makes out of the wallet (name, occurrence), by running it
// once on a world of its own.
func gatePoints(pre, kind string) ([][2]any, error) {
	r, c, t0, err := gateSetup(pre, "probe")
	if err != nil {
		return nil, err
	}
	defer r.wd.close()
	r.wd.gate.record(true)
	c.runRaw(kind, t0)
	calls := r.wd.gate.record(false)
	seen := map[string]int{}
	var out [][2]any
	for _, name := range calls {
		seen[name]++
		out = append(out, [2]any{name, seen[name]})
	}
	return out, nil
}

// runGateCase executes one case.  hold is how long B may run while A is parked; a B that is not
// finished by then is simply finished after A was let go (slower, same verdict).
func runGateCase(gc gateCase, hold time.Duration) (*run, error) {
	r, c, t0, err := gateSetup(gc.Pre, "gate:"+gc.String())
	if err != nil {
		return nil, err
	}
	wd := r.wd
	defer wd.close()
	r.record = map[string]any{"kind": "gate", "case": gc, "hold_ms": hold.Milliseconds()}
	parked, release := wd.gate.arm(gc.Gate, gc.Nth)
	var xa, xb rawEvent
	doneA, doneB := make(chan struct{}), make(chan struct{})
	go func() { defer close(doneA); xa = c.runRaw(gc.A, t0) }()
	bInside := false
	select {
	case <-parked:
		bInside = true
	case <-doneA: // A never reached the call (the probe and this run differ): plain sequential pair
	case <-time.After(10 * time.Second):
		return nil, fmt.Errorf("%s: A neither parked nor returned", gc)
	}
	go func() { defer close(doneB); xb = c.runRaw(gc.B, t0) }()
	completedInside := false
	if bInside {
		select {
		case <-doneB:
			completedInside = true
		case <-time.After(hold):
		}
		close(release)
	}
	wd.gate.disarm()
	for _, ch := range []chan struct{}{doneA, doneB} {
		select {
		case <-ch:
		case <-time.After(20 * time.Second):
			r.mismatch("gate:deadlock", fmt.Sprintf("%s: the pair did not return within 20 s", gc))
			return r, nil
		}
	}
	if completedInside {
		r.counts["b-completed-while-a-parked"]++
	} else if bInside {
		r.counts["b-waited-for-a"]++
	} else {
		r.counts["a-never-parked"]++
	}
	for _, x := range []rawEvent{xa, xb} {
		if x.op == "Panic" {
			r.mismatch("gate:panic", fmt.Sprintf("%s: %s", gc, x.r))
			return r, nil
		}
	}
	// oracle at the real object: two un-released results never share an input
	held := map[types.SiacoinOutputID]string{}
	for i, x := range []rawEvent{xa, xb} {
		if x.op == "Release" || x.op == "Bcast" || x.op == "ObsBal" || x.op == "ObsList" {
			continue
		}
		for _, t := range x.ts {
			var ids []types.SiacoinOutputID
			for _, in := range t.v1.SiacoinInputs {
				ids = append(ids, in.ParentID)
			}
			for _, in := range t.v2.SiacoinInputs {
				ids = append(ids, in.Parent.ID)
			}
			who := []string{gc.A, gc.B}[i]
			for _, id := range ids {
				if other, ok := held[id]; ok && other != who {
					r.mismatch("gate:shared-input", fmt.Sprintf("%s: %s and %s both returned a transaction spending output %v (B finished while A was parked: %v)",
						gc, other, who, id, completedInside))
				}
				held[id] = who
			}
		}
	}
	// the block: both calls overlapped, TLC picks the order
	if (gc.A == "Release" || gc.A == "Bcast") && gc.A == gc.B {
		// the same request handled twice: not a pair the specification has a name for
		return nil, nil
	}
	r.emit(ev{"op": "Par", "n": 2, "case": gc.String(), "b_inside": completedInside})
	for _, x := range []rawEvent{xa, xb} {
		r.counts[x.op+":"+x.r]++
		e := wd.eventOf(x)
		r.emit(e)
		for _, t := range x.ts {
			if x.op == "Fund" || x.op == "Redist" || x.op == "Split" {
				wd.txs[t.tid] = t
			}
		}
		if x.op == "Release" {
			delete(wd.txs, t0.tid)
		}
	}
	if err := r.observe(nil, gc.String()); err != nil {
		return nil, err
	}
	// every transaction still with its caller is handed to the pool
	var tids []int
	for tid, t := range wd.txs {
		if t.st == "out" {
			tids = append(tids, tid)
		}
	}
	sort.Ints(tids)
	for _, tid := range tids {
		e := wd.broadcast(wd.txs[tid])
		r.emit(e)
		r.counts["Bcast:"+e["r"].(string)]++
		if err := r.observe(nil, gc.String()); err != nil {
			return nil, err
		}
	}
	if wd.mineAllowed() {
		e, err := wd.mine()
		if err != nil {
			return nil, err
		}
		r.emit(e)
		if err := r.observe(nil, gc.String()); err != nil {
			return nil, err
		}
	}
	return r, nil
}

// gateCatalogue enumerates pre-state x operation A x every call A makes out of the wallet x
// operation B.
func gateCatalogue() ([]gateCase, error) {
	var out []gateCase
	for _, pre := range gatePres {
		for _, a := range gateOps {
			if !gateOpPossible(a, pre) {
				continue
			}
			pts, err := gatePoints(pre, a)
			if err != nil {
				return nil, err
			}
			for _, pt := range pts {
				for _, b := range gateOps {
					// Release and Bcast act on the one earlier request T0: handling it twice, or releasing
					// it while it is being broadcast, is the caller's contradiction, not the wallet's
					if !gateOpPossible(b, pre) || ((a == "Release" || a == "Bcast") && (b == "Release" || b == "Bcast")) {
						continue
					}
					out = append(out, gateCase{Pre: pre, A: a, Gate: pt[0].(string), Nth: pt[1].(int), B: b})
				}
			}
		}
	}
	return out, nil
}

// TestGated runs the whole catalogue (VERIF_WORKERS cases at a time, each on its own chain).
func TestGated(t *testing.T) {
	res := hx.NewResult()
	defer res.Write()
	hold := time.Duration(hx.EnvInt("VERIF_HOLD_MS", 60)) * time.Millisecond
	cases, err := gateCatalogue()
	if err != nil {
		t.Fatal(err)
	}
	if only := os.Getenv("VERIF_GATE_CASE"); only != "" {
		var sel []gateCase
		for _, gc := range cases {
			if gc.String() == only {
				sel = append(sel, gc)
			}
		}
		cases = sel
	}
	shards, err := openShards("walletfund-g", hx.EnvInt("VERIF_SHARDS", 4))
	if err != nil {
		t.Fatal(err)
	}
	workers := hx.EnvInt("VERIF_WORKERS", 16)
	var wg sync.WaitGroup
	var next atomic.Int64
	var mu sync.Mutex
	var firstErr error
	gates := map[string]bool{}
	for wk := 0; wk < workers; wk++ {
		wg.Add(1)
		go func() {
			defer wg.Done()
			for {
				i := int(next.Add(1)) - 1
				if i >= len(cases) {
					return
				}
				r, err := runGateCase(cases[i], hold)
				mu.Lock()
				if err != nil && firstErr == nil {
					firstErr = err
				}
				gates[cases[i].A+"@"+cases[i].Gate] = true
				mu.Unlock()
				if err != nil || r == nil {
					continue
				}
				for k, v := range r.counts {
					res.Count(k, v)
				}
				for _, m := range r.mm {
					res.Mismatch(m.Sig, m.Desc, m.Replay)
				}
				shards[i%len(shards)].write(r)
				res.Eval("gate|" + cases[i].String())
				res.Count("traces", 1)
				res.Count("events", len(r.events))
				if i == 0 {
					res.Sample(map[string]any{"leg": "T-gated", "case": cases[i], "events": r.events})
				}
			}
		}()
	}
	wg.Wait()
	if err := closeShards(shards); err != nil {
		t.Fatal(err)
	}
	if firstErr != nil {
		t.Fatal(firstErr)
	}
	res.Traces = res.Counts["traces"]
	res.Count("cases", len(cases))
	res.Count("gate_points", len(gates))
}
