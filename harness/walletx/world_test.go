// Package walletx binds spec/WalletFund.tla to the real wallet.SingleAddressWallet (property C07):
// a real chain.Manager on a testutil network with trivial proof of work, the real wallet over
// testutil.EphemeralWalletStore, values at hastings scale so that TLC can do the arithmetic.
package walletx

import (
	"errors"
	"fmt"
	"runtime"
	"sort"
	"strconv"
	"strings"
	"sync"
	"sync/atomic"
	"time"

	"go.sia.tech/core/consensus"
	"go.sia.tech/core/types"
	"go.sia.tech/coreutils"
	"go.sia.tech/coreutils/chain"
	"go.sia.tech/coreutils/testutil"
	"go.sia.tech/coreutils/wallet"
)

// Real-time scale of the reservation clock.  A reservation of rt ticks is rt*unit long; the
// harness advances the clock by sleeping to the next multiple of tickLen and only accepts a run
// in which every wallet call started and ended within `window` after its tick boundary (measured
// with the monotonic clock).  With window <= rt*(tickLen-unit) a reservation of rt ticks is
// certainly over at tick k+rt, and with (rt-1)*tickLen+window < rt*unit it certainly still holds
// at tick k+rt-1 -- for rt <= 2.  A run that misses a window is repeated, never judged.
const (
	unit    = 400 * time.Millisecond
	tickLen = 600 * time.Millisecond
	window  = 120 * time.Millisecond
	maxRt   = 2
	delay   = 2 // maturity delay in blocks (spec constant Delay)
)

var errTiming = errors.New("timing window missed")

// Cfg are the public wallet options quantified by the property (rt in ticks; 0 = 1ns).
type Cfg struct {
	Dt int `json:"dt"`
	Mi int `json:"mi"`
	Md int `json:"md"`
	Rt int `json:"rt"`
}

// Out is an initial wallet output: value in hastings, blocks until maturity.
type Out struct {
	V int `json:"v"`
	M int `json:"m"`
}

// Desc is a transaction produced by the wallet, in the vocabulary of the specification.
type Desc struct {
	Tid  int      `json:"tid"`
	Ver  int      `json:"ver"`
	Ins  []int    `json:"ins"`
	Out  int      `json:"out"`
	Fee  int      `json:"fee"`
	Bl   int      `json:"bl"` // blocks between the returned basis and the manager's tip at return
	Made [][2]int `json:"made"`
}

type txrec struct {
	tid   int
	ver   int
	v1    types.Transaction
	v2    types.V2Transaction
	basis types.ChainIndex
	ins   []types.SiacoinOutputID
	made  []types.SiacoinOutputID
	st    string // "out", "pool"
	exp   int    // tick at which the reservation lapses
	dup   bool
	bl    int // see Desc.Bl
}

// stampStore wraps the wallet's store: every Fund/Redistribute/Split/Balance/SpendableOutputs
// call reads UnspentSiacoinElements exactly once while holding the wallet mutex, so a counter
// bumped here orders those calls exactly as the wallet serialised them (no hook in /repo needed).
type stampStore struct {
	*testutil.EphemeralWalletStore
	ctr    *atomic.Int64
	stamps sync.Map // goroutine id -> last stamp
	g      *gate
}

func (s *stampStore) Tip() (types.ChainIndex, error) {
	s.g.enter("store.Tip")
	return s.EphemeralWalletStore.Tip()
}

func (s *stampStore) AddBroadcastedSet(set wallet.BroadcastedSet) error {
	s.g.enter("store.AddBroadcastedSet")
	return s.EphemeralWalletStore.AddBroadcastedSet(set)
}

func gid() int64 {
	var buf [64]byte
	n := runtime.Stack(buf[:], false)
	f := strings.Fields(string(buf[:n]))
	id, _ := strconv.ParseInt(f[1], 10, 64)
	return id
}

func (s *stampStore) UnspentSiacoinElements() (types.ChainIndex, []types.SiacoinElement, error) {
	s.g.enter("store.UnspentSiacoinElements")
	if s.ctr != nil {
		s.stamps.Store(gid(), s.ctr.Add(1))
	}
	return s.EphemeralWalletStore.UnspentSiacoinElements()
}

func (s *stampStore) take() int64 {
	if v, ok := s.stamps.LoadAndDelete(gid()); ok {
		return v.(int64)
	}
	return s.ctr.Add(1)
}

// feeManager is the real chain.Manager with a controllable fee recommendation (an environment
// input of SplitUTXO; the real recommendation is ~1e19 H/byte, far above hastings-scale outputs).
type feeManager struct {
	*chain.Manager
	g   *gate
	fee types.Currency
}

func (f *feeManager) RecommendedFee() types.Currency {
	f.g.enter("cm.RecommendedFee")
	return f.fee
}

// every other call the wallet makes into the chain manager passes the gate (gate_test.go)
func (f *feeManager) AddV2PoolTransactions(basis types.ChainIndex, txns []types.V2Transaction) (bool, error) {
	f.g.enter("cm.AddV2PoolTransactions")
	return f.Manager.AddV2PoolTransactions(basis, txns)
}
func (f *feeManager) TipState() consensus.State {
	f.g.enter("cm.TipState")
	return f.Manager.TipState()
}
func (f *feeManager) PoolTransactions() []types.Transaction {
	f.g.enter("cm.PoolTransactions")
	return f.Manager.PoolTransactions()
}
func (f *feeManager) V2PoolTransactions() []types.V2Transaction {
	f.g.enter("cm.V2PoolTransactions")
	return f.Manager.V2PoolTransactions()
}
func (f *feeManager) V2TransactionSet(basis types.ChainIndex, txn types.V2Transaction) (types.ChainIndex, []types.V2Transaction, error) {
	f.g.enter("cm.V2TransactionSet")
	return f.Manager.V2TransactionSet(basis, txn)
}
func (f *feeManager) UpdateV2TransactionSet(txns []types.V2Transaction, from, to types.ChainIndex) ([]types.V2Transaction, error) {
	f.g.enter("cm.UpdateV2TransactionSet")
	return f.Manager.UpdateV2TransactionSet(txns, from, to)
}

// gateSyncer is the mock syncer behind the gate.
type gateSyncer struct {
	*testutil.MockSyncer
	g *gate
}

func (s *gateSyncer) BroadcastV2TransactionSet(index types.ChainIndex, txns []types.V2Transaction) error {
	s.g.enter("syncer.BroadcastV2TransactionSet")
	return s.MockSyncer.BroadcastV2TransactionSet(index, txns)
}

// namer allots the small integers the specification uses for outputs and transactions.
type namer struct {
	ids    map[types.SiacoinOutputID]int
	nextId int
	nextTx int
}

func (n *namer) id(x types.SiacoinOutputID) int {
	if v, ok := n.ids[x]; ok {
		return v
	}
	n.ids[x] = n.nextId
	n.nextId++
	return n.ids[x]
}

func (n *namer) known(x types.SiacoinOutputID) (int, bool) {
	v, ok := n.ids[x]
	return v, ok
}

type world struct {
	cfg     Cfg
	network *consensus.Network
	dbs     *chain.DBStore
	cm      *chain.Manager
	fm      *feeManager
	es      *testutil.EphemeralWalletStore
	ss      *stampStore
	syncer  *gateSyncer
	gate    *gate
	w       *wallet.SingleAddressWallet
	pk      types.PrivateKey
	addr    types.Address
	stub    string // self-test: "nolock" makes the harness-visible wallet forget its reservations

	nm      namer
	vals    map[types.SiacoinOutputID]types.Currency // value of every output the harness has seen created
	txs     map[int]*txrec
	locks   map[types.SiacoinOutputID]int // harness mirror of the reservations: id -> expiry tick
	now     int
	t0      time.Time
	timed   bool // enforce the tick windows (rt in 1..maxRt)
	late    bool
	nblk    int
	lag     int           // blocks the manager has accepted and the wallet store has not been fed
	blocks  []types.Block // every block added to the manager, in order (to grow a competing chain)
	genesis types.Block
	nonce   atomic.Int64
}

func cur(v int) types.Currency { return types.NewCurrency64(uint64(v)) }

func toInt(c types.Currency) int {
	if c.Cmp(types.NewCurrency64(1<<31-1)) > 0 {
		panic(fmt.Sprintf("value %v exceeds the 32-bit range of TLC", c))
	}
	return int(c.Big().Int64())
}

func (wd *world) options() []wallet.Option {
	d := time.Duration(wd.cfg.Rt) * unit
	if wd.cfg.Rt == 0 {
		d = time.Nanosecond // the option rejects 0; 1ns is over before the call returns
	} else if wd.cfg.Rt > maxRt {
		d = time.Hour // "long": never lapses within a session (no Tick events are issued)
	}
	return []wallet.Option{
		wallet.WithDefragThreshold(wd.cfg.Dt), wallet.WithMaxInputsForDefrag(wd.cfg.Mi),
		wallet.WithMaxDefragUTXOs(wd.cfg.Md), wallet.WithReservationDuration(d),
		wallet.WithDebounceInterval(time.Hour), // the wallet's own rebroadcast loop stays out of the sessions
	}
}

// newWorld builds a chain whose genesis block pays the initial mature outputs to the wallet and
// mines the blocks needed for the immature ones.
func newWorld(cfg Cfg, outs []Out, ctr *atomic.Int64, stub string) (*world, error) {
	wd := &world{cfg: cfg, txs: map[int]*txrec{}, locks: map[types.SiacoinOutputID]int{}, stub: stub, vals: map[types.SiacoinOutputID]types.Currency{}}
	wd.nm = namer{ids: map[types.SiacoinOutputID]int{}, nextId: 1, nextTx: 1}
	network, genesis := testutil.Network()
	network.MaturityDelay = delay
	network.HardforkV2.AllowHeight = 1 // v1 and v2 transactions are both valid during a session
	network.HardforkV2.RequireHeight = 1 << 30
	network.HardforkV2.FinalCutHeight = 1 << 31
	wd.network = network
	wd.pk = types.NewPrivateKeyFromSeed(make([]byte, 32))
	wd.addr = types.StandardUnlockHash(wd.pk.PublicKey())

	var gtxn types.Transaction
	for _, o := range outs {
		if o.M == 0 {
			gtxn.SiacoinOutputs = append(gtxn.SiacoinOutputs, types.SiacoinOutput{Value: cur(o.V), Address: wd.addr})
		}
	}
	// keep one unrelated output so the genesis transaction is never empty
	gtxn.SiacoinOutputs = append(gtxn.SiacoinOutputs, types.SiacoinOutput{Value: types.Siacoins(1), Address: types.VoidAddress})
	genesis.Transactions = []types.Transaction{gtxn}
	wd.genesis = genesis

	dbs, tipState, err := chain.NewDBStore(chain.NewMemDB(), network, genesis, nil)
	if err != nil {
		return nil, err
	}
	wd.dbs = dbs
	wd.cm = chain.NewManager(dbs, tipState)
	wd.es = testutil.NewEphemeralWalletStore()
	wd.gate = &gate{}
	wd.ss = &stampStore{EphemeralWalletStore: wd.es, ctr: ctr, g: wd.gate}
	wd.syncer = &gateSyncer{MockSyncer: &testutil.MockSyncer{}, g: wd.gate}
	if err := wd.open(); err != nil {
		return nil, err
	}
	// leave the hardfork boundary behind (the v1 signature hash changes its replay prefix at
	// the fork heights, all of which are 1 on this network)
	for i := 0; i < 2; i++ {
		if err := wd.poolBlock(); err != nil {
			return nil, err
		}
	}
	// ids 1..k in the order of `outs`
	gi := 0
	byM := map[int][]int{} // remaining delay -> indices into outs
	for i, o := range outs {
		if o.M == 0 {
			wd.nm.ids[gtxn.SiacoinOutputID(gi)] = i + 1
			wd.vals[gtxn.SiacoinOutputID(gi)] = cur(o.V)
			gi++
		} else if o.M > delay {
			return nil, fmt.Errorf("initial output with m=%d > delay", o.M)
		} else {
			byM[o.M] = append(byM[o.M], i)
		}
	}
	wd.nm.nextId = len(outs) + 1
	// immature outputs: the block paying the outputs with m blocks left is followed by delay-m blocks
	started := false
	for m := 1; m <= delay; m++ {
		if idx := byM[m]; len(idx) > 0 {
			var vs []int
			for _, i := range idx {
				vs = append(vs, outs[i].V)
			}
			ids, err := wd.rewardBlock(vs...)
			if err != nil {
				return nil, err
			}
			for k, i := range idx {
				wd.nm.ids[ids[k]] = i + 1
			}
			started = true
		} else if started {
			if err := wd.poolBlock(); err != nil {
				return nil, err
			}
		}
	}
	if err := wd.sync(); err != nil {
		return nil, err
	}
	wd.t0 = time.Now()
	wd.timed = cfg.Rt >= 1 && cfg.Rt <= maxRt
	return wd, nil
}

func (wd *world) open() error {
	wd.fm = &feeManager{Manager: wd.cm, g: wd.gate}
	w, err := wallet.NewSingleAddressWallet(wd.pk, wd.fm, wd.ss, wd.syncer, wd.options()...)
	if err != nil {
		return err
	}
	wd.w = w
	return wd.sync()
}

func (wd *world) close() {
	if wd.w != nil {
		wd.w.Close()
	}
}

// sync brings the wallet store to the manager's tip (wallet_test.go: syncDB).
func (wd *world) sync() error {
	for {
		tip, err := wd.es.Tip()
		if err != nil {
			return err
		} else if tip == wd.cm.Tip() {
			return nil
		}
		reverted, applied, err := wd.cm.UpdatesSince(tip, 1000)
		if err != nil {
			return err
		}
		err = wd.es.UpdateChainState(func(tx wallet.UpdateTx) error {
			return wd.w.UpdateChainState(tx, reverted, applied)
		})
		if err != nil {
			return err
		}
	}
}

// poolBlock mines a block with everything in the pool, paying the void (the repo's own miner).
func (wd *world) poolBlock() error {
	b, ok := coreutils.MineBlock(wd.cm, types.VoidAddress, 10*time.Second)
	if !ok {
		return errors.New("failed to mine block")
	}
	if err := wd.cm.AddBlocks([]types.Block{b}); err != nil {
		return err
	}
	wd.nblk++
	wd.blocks = append(wd.blocks, b)
	return wd.sync()
}

// rewardBlock mines an empty v1 block whose extra miner payouts pay vs hastings to the wallet:
// immature outputs of hastings scale.  The pool is left alone.
func (wd *world) rewardBlock(vs ...int) ([]types.SiacoinOutputID, error) {
	cs := wd.cm.TipState()
	rest := cs.BlockReward()
	b := types.Block{ParentID: cs.Index.ID, Timestamp: types.CurrentTimestamp()}
	b.MinerPayouts = append(b.MinerPayouts, types.SiacoinOutput{Address: types.VoidAddress})
	for _, v := range vs {
		rest = rest.Sub(cur(v))
		b.MinerPayouts = append(b.MinerPayouts, types.SiacoinOutput{Value: cur(v), Address: wd.addr})
	}
	b.MinerPayouts[0].Value = rest
	if !coreutils.FindBlockNonce(cs, &b, 10*time.Second) {
		return nil, errors.New("failed to mine reward block")
	}
	if err := wd.cm.AddBlocks([]types.Block{b}); err != nil {
		return nil, err
	}
	wd.nblk++
	wd.blocks = append(wd.blocks, b)
	var ids []types.SiacoinOutputID
	for i, v := range vs {
		ids = append(ids, b.ID().MinerOutputID(i+1))
		wd.vals[b.ID().MinerOutputID(i+1)] = cur(v)
	}
	return ids, wd.sync()
}

// ---------------------------------------------------------------- reservation clock

func (wd *world) check(before time.Time) {
	if !wd.timed {
		return
	}
	lo := time.Duration(wd.now) * tickLen
	if before.Sub(wd.t0) < lo || time.Since(wd.t0) > lo+window {
		wd.late = true
	}
}

func (wd *world) tick() {
	wd.now++
	if wd.cfg.Rt >= 1 && wd.cfg.Rt <= maxRt {
		if d := time.Until(wd.t0.Add(time.Duration(wd.now) * tickLen)); d > 0 {
			time.Sleep(d)
		} else {
			wd.late = true
		}
	}
	for id, e := range wd.locks {
		if e <= wd.now {
			delete(wd.locks, id)
		}
	}
}

func (wd *world) live(t *txrec) bool { return t.st == "out" && wd.now < t.exp }

func (wd *world) lockedNow(id types.SiacoinOutputID) bool {
	e, ok := wd.locks[id]
	return ok && wd.now < e
}

func (wd *world) canBroadcast(t *txrec) bool {
	if t.st != "out" {
		return false
	}
	if wd.live(t) {
		return true
	}
	for _, id := range t.ins {
		if wd.lockedNow(id) {
			return false
		}
	}
	return true
}

// ---------------------------------------------------------------- the calls

type ev = map[string]any

func sortedInts(s []int) []int {
	s = append([]int{}, s...)
	sort.Ints(s)
	return s
}

// describe turns a funded transaction into the specification's descriptor and computes, with
// types.Currency, whether the inputs are distinct and whether value is conserved.
func (wd *world) describe(t *txrec) (d Desc, dup, cons bool) {
	d = Desc{Tid: t.tid, Ver: t.ver, Ins: []int{}, Made: [][2]int{}, Bl: t.bl}
	var in, out types.Currency
	seen := map[types.SiacoinOutputID]bool{}
	add := func(id types.SiacoinOutputID, v types.Currency) {
		in = in.Add(v)
		if seen[id] {
			dup = true
			return
		}
		seen[id] = true
		t.ins = append(t.ins, id)
		d.Ins = append(d.Ins, wd.nm.id(id))
	}
	if t.ver == 1 {
		for _, sci := range t.v1.SiacoinInputs {
			add(sci.ParentID, wd.vals[sci.ParentID])
		}
		for i, sco := range t.v1.SiacoinOutputs {
			out = out.Add(sco.Value)
			if sco.Address == wd.addr {
				d.Made = append(d.Made, [2]int{wd.nm.id(t.v1.SiacoinOutputID(i)), toInt(sco.Value)})
				wd.vals[t.v1.SiacoinOutputID(i)] = sco.Value
				t.made = append(t.made, t.v1.SiacoinOutputID(i))
			} else {
				d.Out += toInt(sco.Value)
			}
		}
		for _, f := range t.v1.MinerFees {
			out = out.Add(f)
			d.Fee += toInt(f)
		}
	} else {
		for _, sci := range t.v2.SiacoinInputs {
			add(sci.Parent.ID, sci.Parent.SiacoinOutput.Value)
		}
		txid := t.v2.ID()
		for i, sco := range t.v2.SiacoinOutputs {
			out = out.Add(sco.Value)
			if sco.Address == wd.addr {
				d.Made = append(d.Made, [2]int{wd.nm.id(t.v2.SiacoinOutputID(txid, i)), toInt(sco.Value)})
				wd.vals[t.v2.SiacoinOutputID(txid, i)] = sco.Value
				t.made = append(t.made, t.v2.SiacoinOutputID(txid, i))
			} else {
				d.Out += toInt(sco.Value)
			}
		}
		out = out.Add(t.v2.MinerFee)
		d.Fee = toInt(t.v2.MinerFee)
	}
	d.Ins = sortedInts(d.Ins)
	cons = in.Equals(out)
	t.dup = dup
	return
}

func (wd *world) reserve(t *txrec) {
	t.exp = wd.now + wd.cfg.Rt
	for _, id := range t.ins {
		if wd.cfg.Rt > 0 {
			wd.locks[id] = t.exp
		}
	}
}

// fund performs FundTransaction / FundV2Transaction for amt hastings paid to the void address,
// signs the result and returns the event.  A selection with a duplicated input is released at
// once (and flagged) so that the session can go on.
func (wd *world) fund(ver, amt int, unc bool) (ev, *txrec) {
	e := ev{"op": "Fund", "ver": ver, "amt": amt, "unc": unc, "d": []Desc{}, "dup": false, "cons": true}
	t := &txrec{ver: ver, st: "out", bl: wd.lag}
	// every transaction is unique (two requests may legitimately select the same inputs once a
	// reservation is over; identical transactions would share one id)
	nonce := []byte(fmt.Sprintf("verif-%d-%d", wd.nm.nextTx, wd.nonce.Add(1)))
	t.v1.ArbitraryData = [][]byte{nonce}
	t.v2.ArbitraryData = nonce
	before := time.Now()
	var err error
	if ver == 1 {
		if amt > 0 {
			t.v1.SiacoinOutputs = []types.SiacoinOutput{{Value: cur(amt), Address: types.VoidAddress}}
		}
		var toSign []types.Hash256
		toSign, err = wd.w.FundTransaction(&t.v1, cur(amt), unc)
		if err == nil && wd.stub == "nolock" {
			wd.w.ReleaseInputs([]types.Transaction{t.v1}, nil)
		}
		wd.check(before)
		if err == nil {
			wd.w.SignTransaction(&t.v1, toSign, types.CoveredFields{WholeTransaction: true})
		}
	} else {
		if amt > 0 {
			t.v2.SiacoinOutputs = []types.SiacoinOutput{{Value: cur(amt), Address: types.VoidAddress}}
		}
		var toSign []int
		t.basis, toSign, err = wd.w.FundV2Transaction(&t.v2, cur(amt), unc)
		t.bl = wd.basisLag(t.basis)
		if storeTip, _ := wd.es.Tip(); err == nil && amt > 0 && t.basis != storeTip {
			e["badbasis"] = fmt.Sprintf("returned basis %v, the store's tip (which the selected elements' proofs are valid for) is %v", t.basis, storeTip)
		}
		if err == nil && wd.stub == "nolock" {
			wd.w.ReleaseInputs(nil, []types.V2Transaction{t.v2})
		}
		wd.check(before)
		if err == nil {
			wd.w.SignV2Inputs(&t.v2, toSign)
		}
	}
	switch {
	case err != nil && errors.Is(err, wallet.ErrNotEnoughFunds):
		e["r"] = "nef"
		return e, nil
	case err != nil:
		e["r"] = "error:" + err.Error()
		return e, nil
	case amt == 0:
		e["r"] = "zero"
		if len(t.v1.SiacoinInputs)+len(t.v2.SiacoinInputs) > 0 {
			e["r"] = "zero-with-inputs"
		}
		return e, nil
	}
	e["r"] = "ok"
	t.tid = wd.nm.nextTx
	d, dup, cons := wd.describe(t)
	e["d"] = []Desc{d}
	e["dup"] = dup
	e["cons"] = cons
	if dup {
		// neutralise: the reservation is dropped again, the transaction is never used
		if ver == 1 {
			wd.w.ReleaseInputs([]types.Transaction{t.v1}, nil)
		} else {
			wd.w.ReleaseInputs(nil, []types.V2Transaction{t.v2})
		}
		// the ids allotted to its outputs are not consumed
		for _, m := range d.Made {
			for k, v := range wd.nm.ids {
				if v == m[0] {
					delete(wd.nm.ids, k)
				}
			}
			wd.nm.nextId = m[0]
		}
		return e, nil
	}
	wd.nm.nextTx++
	wd.txs[t.tid] = t
	wd.reserve(t)
	return e, t
}

// redistribute performs Redistribute(n, amt, feePerByte) and signs the transactions.
func (wd *world) redistribute(n, amt, fpb int) (ev, []*txrec) {
	cs := wd.cm.TipState()
	_, elems, _ := wd.es.UnspentSiacoinElements()
	k := n
	if k > 10 {
		k = 10
	}
	var probe types.V2Transaction
	for i := 0; i < k; i++ {
		probe.SiacoinOutputs = append(probe.SiacoinOutputs, types.SiacoinOutput{Value: cur(amt), Address: wd.addr})
	}
	feeub := fpb * (int(cs.V2TransactionWeight(probe)) + 241*len(elems))
	e := ev{"op": "Redist", "n": n, "amt": amt, "feeub": feeub, "d": []Desc{}, "cons": true}
	before := time.Now()
	basis, txns, toSign, err := wd.w.Redistribute(n, cur(amt), cur(fpb))
	wd.check(before)
	switch {
	case err != nil && errors.Is(err, wallet.ErrNotEnoughFunds):
		e["r"] = "nef"
		return e, nil
	case err != nil:
		e["r"] = "error:" + err.Error()
		return e, nil
	case len(txns) == 0:
		e["r"] = "none"
		return e, nil
	}
	e["r"] = "ok"
	var recs []*txrec
	var ds []Desc
	cons := true
	for i := range txns {
		txns[i].ArbitraryData = []byte(fmt.Sprintf("verif-r-%d", wd.nonce.Add(1))) // unique, see fund
		wd.w.SignV2Inputs(&txns[i], toSign[i])
		t := &txrec{ver: 2, st: "out", v2: txns[i], basis: basis, tid: wd.nm.nextTx, bl: wd.basisLag(basis)}
		wd.nm.nextTx++
		d, dup, c := wd.describe(t)
		cons = cons && c && !dup
		ds = append(ds, d)
		wd.txs[t.tid] = t
		wd.reserve(t)
		recs = append(recs, t)
	}
	e["d"] = ds
	e["cons"] = cons
	return e, recs
}

// split performs SplitUTXO(n, min); the wallet broadcasts the transaction itself.
func (wd *world) split(n, mn int) ev {
	e := ev{"op": "Split", "n": n, "min": mn, "d": []Desc{}, "cons": true}
	before := time.Now()
	txn, err := func() (txn types.V2Transaction, err error) {
		// SplitUTXO calls chain.Manager.V2TransactionSet, which can index the wrong pool slice
		// (see broadcast) when the largest output was made by a pooled v1 transaction
		defer func() {
			if p := recover(); p != nil {
				err = fmt.Errorf("panic: %v", p)
				e["panic"] = true
			}
		}()
		return wd.w.SplitUTXO(n, cur(mn))
	}()
	wd.check(before)
	switch {
	case err != nil:
		e["r"] = "err"
		e["msg"] = err.Error()
		return e
	case len(txn.SiacoinInputs) == 0:
		e["r"] = "none"
		return e
	}
	e["r"] = "ok"
	t := &txrec{ver: 2, st: "pool", v2: txn, tid: wd.nm.nextTx, bl: wd.lag}
	wd.nm.nextTx++
	d, dup, cons := wd.describe(t)
	e["d"] = []Desc{d}
	e["cons"] = cons && !dup
	wd.txs[t.tid] = t
	wd.reserve(t)
	return e
}

func (wd *world) releaseCall(t *txrec) {
	before := time.Now()
	if t.ver == 1 {
		wd.w.ReleaseInputs([]types.Transaction{t.v1}, nil)
	} else {
		wd.w.ReleaseInputs(nil, []types.V2Transaction{t.v2})
	}
	wd.check(before)
}

func (wd *world) release(t *txrec) ev {
	wd.releaseCall(t)
	wd.forget(t)
	return ev{"op": "Release", "tid": t.tid}
}

func (wd *world) forget(t *txrec) {
	for _, id := range t.ins {
		delete(wd.locks, id)
	}
	delete(wd.txs, t.tid)
}

// broadcast submits the signed transaction: v1 with its unconfirmed parents to
// AddPoolTransactions, v2 as its V2TransactionSet through the wallet's BroadcastV2TransactionSet
// (which also persists the set for re-loading after a restart).
func (wd *world) broadcast(t *txrec, pre ...bool) (e ev) {
	// pre: the caller validates the set with AddV2PoolTransactions before it hands it to the
	// wallet (as the rhp4 handlers do), so the pool already knows it when the wallet broadcasts
	prevalidate := len(pre) > 0 && pre[0] && t.ver == 2
	e = ev{"op": "Bcast", "tid": t.tid, "pre": prevalidate}
	// chain.Manager.UnconfirmedParents / V2TransactionSet share one parent map between the v1 and
	// the v2 pool slice and can index the wrong one (panic) when the parent has the other version
	defer func() {
		if p := recover(); p != nil {
			e["r"] = "rej"
			e["msg"] = fmt.Sprintf("panic: %v", p)
			e["panic"] = true
		}
	}()
	var err error
	misordered := false
	if t.ver == 1 {
		set := append(wd.cm.UnconfirmedParents(t.v1), t.v1)
		made := map[types.SiacoinOutputID]int{}
		for i, txn := range set {
			for j := range txn.SiacoinOutputs {
				made[txn.SiacoinOutputID(j)] = i
			}
		}
		for i, txn := range set {
			for _, in := range txn.SiacoinInputs {
				if j, ok := made[in.ParentID]; ok && j > i {
					misordered = true
				}
			}
		}
		_, err = wd.cm.AddPoolTransactions(set)
	} else {
		var basis types.ChainIndex
		var set []types.V2Transaction
		basis, set, err = wd.cm.V2TransactionSet(t.basis, t.v2.DeepCopy())
		if err == nil {
			made := map[types.SiacoinOutputID]int{}
			for i, txn := range set {
				id := txn.ID()
				for j := range txn.SiacoinOutputs {
					made[txn.SiacoinOutputID(id, j)] = i
				}
			}
			for i, txn := range set {
				for _, in := range txn.SiacoinInputs {
					if j, ok := made[in.Parent.ID]; ok && j > i {
						misordered = true
					}
				}
			}
			if prevalidate {
				_, err = wd.cm.AddV2PoolTransactions(basis, set)
			}
			if err == nil {
				err = wd.w.BroadcastV2TransactionSet(basis, set)
			}
		}
	}
	if err != nil && misordered {
		// the set chain.Manager built for the transaction lists a child before its parent
		e["misordered"] = true
	}
	if err != nil {
		e["r"] = "rej"
		e["msg"] = err.Error()
	} else {
		e["r"] = "acc"
		t.st = "pool"
	}
	return e
}

// basisLag is how many blocks the basis a call returned is behind the manager's tip.  A v1
// transaction and SplitUTXO hand no basis back: they count as "the wallet's tip".
func (wd *world) basisLag(basis types.ChainIndex) int {
	if basis == (types.ChainIndex{}) {
		return wd.lag
	}
	return int(wd.cm.Tip().Height) - int(basis.Height)
}

// lagBegin lets the chain manager accept k blocks the wallet store is not fed.  fork > 0: the
// manager first abandons the last `fork` blocks (all empty, indexed by the store) for a competing
// chain that is k blocks longer -- the store's tip is then on a dead branch.
func (wd *world) lagBegin(k, fork int) (ev, error) {
	if fork > 0 {
		db, tip, err := chain.NewDBStore(chain.NewMemDB(), wd.network, wd.genesis, nil)
		if err != nil {
			return nil, err
		}
		twin := chain.NewManager(db, tip)
		if err := twin.AddBlocks(wd.blocks[:len(wd.blocks)-fork]); err != nil {
			return nil, err
		}
		var alt []types.Block
		for i := 0; i < fork+k; i++ {
			b, ok := coreutils.MineBlock(twin, types.VoidAddress, 10*time.Second)
			if !ok {
				return nil, errors.New("failed to mine fork block")
			} else if err := twin.AddBlocks([]types.Block{b}); err != nil {
				return nil, err
			}
			alt = append(alt, b)
		}
		if err := wd.cm.AddBlocks(alt); err != nil {
			return nil, err
		}
		wd.blocks = append(wd.blocks[:len(wd.blocks)-fork], alt...)
	} else {
		for i := 0; i < k; i++ {
			cs := wd.cm.TipState()
			b := types.Block{ParentID: cs.Index.ID, Timestamp: types.CurrentTimestamp(),
				MinerPayouts: []types.SiacoinOutput{{Address: types.VoidAddress, Value: cs.BlockReward()}}}
			if !coreutils.FindBlockNonce(cs, &b, 10*time.Second) {
				return nil, errors.New("failed to mine lag block")
			} else if err := wd.cm.AddBlocks([]types.Block{b}); err != nil {
				return nil, err
			}
			wd.blocks = append(wd.blocks, b)
		}
	}
	tip, err := wd.es.Tip()
	if err != nil {
		return nil, err
	}
	if got := int(wd.cm.Tip().Height) - int(tip.Height); got != k {
		return nil, fmt.Errorf("lag is %d, wanted %d", got, k)
	}
	wd.lag = k
	wd.nblk += k
	return ev{"op": "Lag", "k": k, "fork": fork}, nil
}

// catchUp feeds the store everything it missed.
func (wd *world) catchUp() (ev, error) {
	if err := wd.sync(); err != nil {
		return nil, err
	}
	wd.lag = 0
	return ev{"op": "CatchUp"}, nil
}

// mineAllowed mirrors the specification's guard ~DanglingV2: no v2 transaction still with its
// caller spends an output of a known transaction that is not in the pool.
func (wd *world) mineAllowed() bool {
	orphan := map[types.SiacoinOutputID]bool{}
	for _, u := range wd.txs {
		if u.st != "pool" {
			for _, id := range u.made {
				orphan[id] = true
			}
		}
	}
	for _, t := range wd.txs {
		if t.ver == 2 && t.st != "pool" {
			for _, id := range t.ins {
				if orphan[id] {
					return false
				}
			}
		}
	}
	return true
}

func (wd *world) mine() (ev, error) {
	if err := wd.poolBlock(); err != nil {
		return nil, err
	}
	for tid, t := range wd.txs {
		if t.st == "pool" {
			delete(wd.txs, tid)
		}
	}
	return ev{"op": "Mine"}, nil
}

// rewardAllowed: chain.Manager cannot carry a v2 transaction with an unconfirmed parent across
// a block that leaves the parent unconfirmed (updateTxnProofs treats the unassigned leaf index as
// "does not exist": the pool drops it, V2TransactionSet refuses to rebase it); the specification
// only mines an empty block while every input of every known v2 transaction is confirmed.
func (wd *world) rewardAllowed() bool {
	_, elems, _ := wd.es.UnspentSiacoinElements()
	confirmed := map[types.SiacoinOutputID]bool{}
	for _, e := range elems {
		confirmed[e.ID] = true
	}
	for _, t := range wd.txs {
		if t.ver != 2 {
			continue
		}
		for _, id := range t.ins {
			if !confirmed[id] {
				return false
			}
		}
	}
	return true
}

func (wd *world) reward(v int) (ev, error) {
	ids, err := wd.rewardBlock(v)
	if err != nil {
		return nil, err
	}
	return ev{"op": "Reward", "v": v, "id": wd.nm.id(ids[0])}, nil
}

// restart closes the wallet, replaces the chain manager by a fresh one over the same store (the
// transaction pool is not persisted) and opens the wallet again, which re-loads its broadcast sets.
func (wd *world) restart() (ev, error) {
	wd.w.Close()
	wd.cm = chain.NewManager(wd.dbs, wd.cm.TipState())
	if err := wd.open(); err != nil {
		return nil, err
	}
	wd.locks = map[types.SiacoinOutputID]int{}
	for _, t := range wd.txs {
		if t.st == "pool" && t.ver == 2 {
			continue
		}
		t.st, t.exp = "out", 0
	}
	return ev{"op": "Restart"}, nil
}

// obsRaw records Balance() and SpendableOutputs() with real output ids.
type obsRaw struct {
	sp, conf, imm, unc, listsum int
	list, lv2                   []types.SiacoinOutputID
}

func (wd *world) observeRaw() (obsRaw, error) {
	var o obsRaw
	before := time.Now()
	bal, err := wd.w.Balance()
	if err != nil {
		return o, err
	}
	sos, err := wd.w.SpendableOutputs()
	if err != nil {
		return o, err
	}
	wd.check(before)
	var sum types.Currency
	v2spent := map[types.SiacoinOutputID]bool{}
	for _, txn := range wd.cm.V2PoolTransactions() {
		for _, in := range txn.SiacoinInputs {
			v2spent[in.Parent.ID] = true
		}
	}
	for _, so := range sos {
		o.list = append(o.list, so.ID)
		sum = sum.Add(so.SiacoinOutput.Value)
		if v2spent[so.ID] {
			o.lv2 = append(o.lv2, so.ID)
		}
	}
	o.sp, o.conf, o.imm, o.unc, o.listsum = toInt(bal.Spendable), toInt(bal.Confirmed), toInt(bal.Immature), toInt(bal.Unconfirmed), toInt(sum)
	return o, nil
}

func (wd *world) obsEvent(o obsRaw) ev {
	name := func(xs []types.SiacoinOutputID) []int {
		out := []int{}
		for _, x := range xs {
			id, ok := wd.nm.known(x)
			if !ok {
				id = -1
			}
			out = append(out, id)
		}
		return sortedInts(out)
	}
	return ev{"op": "Obs", "sp": o.sp, "conf": o.conf, "imm": o.imm, "unc": o.unc, "list": name(o.list),
		"listsum": o.listsum, "lv2": name(o.lv2)}
}

func (wd *world) obs() (ev, error) {
	o, err := wd.observeRaw()
	if err != nil {
		return nil, err
	}
	return wd.obsEvent(o), nil
}

// reset event for a fresh world
func (wd *world) resetEvent(outs []Out, tag string) ev {
	owned := [][3]int{}
	for i, o := range outs {
		owned = append(owned, [3]int{i + 1, o.V, o.M})
	}
	return ev{"op": "Reset", "cfg": wd.cfg, "owned": owned, "nid": len(outs) + 1, "tag": tag}
}
