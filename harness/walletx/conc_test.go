package walletx

import (
	"errors"
	"fmt"
	"math/rand"
	"path/filepath"
	"runtime"
	"sort"
	"strings"
	"sync"
	"sync/atomic"
	"testing"

	"go.sia.tech/core/types"
	"go.sia.tech/coreutils/wallet"
	"verifharness/hx"
)

// ---------------------------------------------------------------- Leg T (ii): concurrent hammering

// rawEvent is what a goroutine records about one call; events are ordered by stamp afterwards
// and only then given the specification's small ids (which must grow in that order).
type rawEvent struct {
	stamp      int64
	op         string
	a          Label
	r          string
	ts         []*txrec
	obs        obsRaw
	feeub      int
	misordered bool
}

type concSession struct {
	wd   *world
	gate sync.RWMutex // wallet calls share it; pool/chain changes and observations take it exclusively
	ctr  atomic.Int64
	mu   sync.Mutex
	raw  []rawEvent
	errs []string
}

func (c *concSession) add(e rawEvent) {
	c.mu.Lock()
	c.raw = append(c.raw, e)
	c.mu.Unlock()
}

func (c *concSession) fail(err error) {
	c.mu.Lock()
	c.errs = append(c.errs, err.Error())
	c.mu.Unlock()
}

func (c *concSession) fundRaw(ver, amt int, unc bool) (*txrec, string) {
	wd := c.wd
	t := &txrec{ver: ver, st: "out"}
	nonce := []byte(fmt.Sprintf("verif-c-%d", wd.nonce.Add(1)))
	t.v1.ArbitraryData = [][]byte{nonce}
	t.v2.ArbitraryData = nonce
	var err error
	if ver == 1 {
		if amt > 0 {
			t.v1.SiacoinOutputs = []types.SiacoinOutput{{Value: cur(amt), Address: types.VoidAddress}}
		}
		var toSign []types.Hash256
		toSign, err = wd.w.FundTransaction(&t.v1, cur(amt), unc)
		if err == nil {
			wd.w.SignTransaction(&t.v1, toSign, types.CoveredFields{WholeTransaction: true})
		}
	} else {
		if amt > 0 {
			t.v2.SiacoinOutputs = []types.SiacoinOutput{{Value: cur(amt), Address: types.VoidAddress}}
		}
		var toSign []int
		t.basis, toSign, err = wd.w.FundV2Transaction(&t.v2, cur(amt), unc)
		t.bl = wd.basisLag(t.basis)
		if err == nil {
			wd.w.SignV2Inputs(&t.v2, toSign)
		}
	}
	switch {
	case err != nil && errors.Is(err, wallet.ErrNotEnoughFunds):
		return nil, "nef"
	case err != nil:
		return nil, "error:" + err.Error()
	case amt == 0:
		return nil, "zero"
	}
	return t, "ok"
}

func (c *concSession) redistRaw(n, amt int) ([]*txrec, string) {
	wd := c.wd
	basis, txns, toSign, err := wd.w.Redistribute(n, cur(amt), types.ZeroCurrency)
	switch {
	case err != nil && errors.Is(err, wallet.ErrNotEnoughFunds):
		return nil, "nef"
	case err != nil:
		return nil, "error:" + err.Error()
	case len(txns) == 0:
		return nil, "none"
	}
	var ts []*txrec
	for i := range txns {
		txns[i].ArbitraryData = []byte(fmt.Sprintf("verif-cr-%d", wd.nonce.Add(1)))
		wd.w.SignV2Inputs(&txns[i], toSign[i])
		ts = append(ts, &txrec{ver: 2, st: "out", v2: txns[i], basis: basis, bl: wd.basisLag(basis)})
	}
	return ts, "ok"
}

// concurrentSession: 4-8 goroutines hammer Fund / Release / Redistribute on one wallet with ~6
// outputs while blocks are mined and transactions broadcast.  The wallet calls are ordered exactly
// as the wallet serialised them (stamp taken under its mutex, see stampStore); a ReleaseInputs
// call, which reads no store, is the interval [RelBegin, RelEnd]; pool and chain changes and the
// observations happen while no wallet call is in flight (gate).
func concurrentSession(seed int64, index int) (*run, error) {
	rng := rand.New(rand.NewSource(seed*1000003 + int64(index)*104729 + 5))
	nout := 5 + rng.Intn(3)
	outs := make([]Out, nout)
	for i := range outs {
		outs[i] = Out{V: 3 + rng.Intn(30)}
	}
	cfg := Cfg{Dt: 30, Mi: 30, Md: 10, Rt: 1000} // long reservations: nothing lapses by itself
	c := &concSession{}
	wd, err := newWorld(cfg, outs, &c.ctr, "")
	if err != nil {
		return nil, err
	}
	defer wd.close()
	c.wd = wd
	g := 4 + rng.Intn(5)
	opsPer := 50 + rng.Intn(50)
	var stop atomic.Bool
	envDone := make(chan struct{})
	go func() {
		defer close(envDone)
		erng := rand.New(rand.NewSource(seed + int64(index)*31 + 1))
		for !stop.Load() {
			c.gate.Lock()
			if erng.Intn(3) == 0 {
				if err := wd.poolBlock(); err != nil {
					c.fail(err)
				}
				c.add(rawEvent{stamp: c.ctr.Add(1), op: "Mine"})
			} else {
				o, err := wd.observeRaw()
				if err != nil {
					c.fail(err)
				}
				wd.ss.take()
				c.add(rawEvent{stamp: c.ctr.Add(1), op: "Obs", obs: o})
			}
			c.gate.Unlock()
			for k := erng.Intn(20); k >= 0; k-- {
				runtime.Gosched()
			}
		}
	}()
	var hammer sync.WaitGroup
	for gi := 0; gi < g; gi++ {
		hammer.Add(1)
		go func(gi int) {
			defer hammer.Done()
			grng := rand.New(rand.NewSource(seed*977 + int64(index)*131 + int64(gi)))
			var mine []*txrec // transactions this goroutine holds
			take := func() *txrec {
				i := grng.Intn(len(mine))
				t := mine[i]
				mine = append(mine[:i], mine[i+1:]...)
				return t
			}
			for k := 0; k < opsPer; k++ {
				x := grng.Intn(100)
				if len(mine) == 0 && x >= 50 && x < 86 {
					x = grng.Intn(50) // nothing to release or broadcast: fund instead
				} else if len(mine) >= 2 && x < 50 {
					x = 50 + grng.Intn(36) // holds enough: give something back or broadcast it
				}
				switch {
				case x < 50:
					ver, unc := pick(grng, 1, 2), grng.Intn(2) == 0
					amt := 1 + grng.Intn(pick(grng, 4, 8, 12, 40))
					if grng.Intn(10) == 0 {
						amt = 0
					}
					c.gate.RLock()
					t, r := c.fundRaw(ver, amt, unc)
					st := wd.ss.take()
					c.gate.RUnlock()
					e := rawEvent{stamp: st, op: "Fund", a: Label{Op: "Fund", Ver: ver, Amt: amt, Unc: unc}, r: r}
					if t != nil {
						e.ts = []*txrec{t}
						mine = append(mine, t)
					}
					c.add(e)
				case x < 72 && len(mine) > 0:
					t := take()
					c.gate.RLock()
					c.add(rawEvent{stamp: c.ctr.Add(1), op: "RelBegin", ts: []*txrec{t}})
					wd.releaseCall(t)
					c.add(rawEvent{stamp: c.ctr.Add(1), op: "RelEnd", ts: []*txrec{t}})
					c.gate.RUnlock()
				case x < 86 && len(mine) > 0:
					t := take()
					c.gate.Lock()
					e := wd.broadcast(t)
					mo, _ := e["misordered"].(bool)
					c.add(rawEvent{stamp: c.ctr.Add(1), op: "Bcast", ts: []*txrec{t}, r: e["r"].(string), misordered: mo})
					c.gate.Unlock()
				case x < 92:
					n, amt := 1+grng.Intn(3), 1+grng.Intn(8)
					c.gate.RLock()
					ts, r := c.redistRaw(n, amt)
					st := wd.ss.take()
					c.gate.RUnlock()
					c.add(rawEvent{stamp: st, op: "Redist", a: Label{Op: "Redist", N: n, Amt: amt}, r: r, ts: ts})
					mine = append(mine, ts...)
				default:
					runtime.Gosched()
				}
			}
		}(gi)
	}
	hammer.Wait()
	stop.Store(true)
	<-envDone
	if len(c.errs) > 0 {
		return nil, fmt.Errorf("concurrent session: %s", strings.Join(c.errs, "; "))
	}
	r := c.finish(outs, fmt.Sprintf("conc%d", index))
	r.record = map[string]any{"kind": "session", "conc": true, "seed": seed, "index": index}
	r.counts["goroutines"] = g
	return r, nil
}

// finish orders the raw events by stamp and turns them into specification events.
func (c *concSession) finish(outs []Out, tag string) *run {
	wd := c.wd
	sort.Slice(c.raw, func(i, j int) bool { return c.raw[i].stamp < c.raw[j].stamp })
	r := &run{wd: wd, counts: map[string]int{}}
	r.emit(wd.resetEvent(outs, tag))
	for _, x := range c.raw {
		r.counts[x.op]++
		if x.r != "" {
			r.counts[x.op+":"+x.r]++
		}
		r.emit(wd.eventOf(x))
	}
	return r
}

// eventOf names the results of a raw call (the specification's small ids) and renders the event.
func (wd *world) eventOf(x rawEvent) ev {
	switch x.op {
	case "Fund", "Redist", "Split":
		ds := []Desc{}
		allCons, anyDup := true, false
		for _, t := range x.ts {
			t.tid = wd.nm.nextTx
			wd.nm.nextTx++
			d, dup, cons := wd.describe(t)
			ds = append(ds, d)
			allCons = allCons && cons
			anyDup = anyDup || dup
		}
		switch x.op {
		case "Fund":
			return ev{"op": "Fund", "ver": x.a.Ver, "amt": x.a.Amt, "unc": x.a.Unc, "r": x.r, "d": ds, "dup": anyDup, "cons": allCons}
		case "Redist":
			return ev{"op": "Redist", "n": x.a.N, "amt": x.a.Amt, "feeub": 0, "r": x.r, "d": ds, "cons": allCons && !anyDup}
		}
		return ev{"op": "Split", "n": x.a.N, "min": x.a.Min, "r": x.r, "d": ds, "cons": allCons && !anyDup}
	case "RelBegin", "RelEnd", "Release":
		return ev{"op": x.op, "tid": x.ts[0].tid}
	case "Bcast":
		return ev{"op": "Bcast", "tid": x.ts[0].tid, "r": x.r, "misordered": x.misordered, "pre": false}
	case "Mine":
		return ev{"op": "Mine"}
	case "Obs":
		return wd.obsEvent(x.obs)
	case "ObsBal":
		return ev{"op": "ObsBal", "sp": x.obs.sp, "conf": x.obs.conf, "imm": x.obs.imm, "unc": x.obs.unc}
	case "ObsList":
		return ev{"op": "ObsList", "list": wd.obsEvent(x.obs)["list"]}
	}
	panic("unknown raw event " + x.op)
}

// TestConcurrent: VERIF_CONC concurrent sessions.
func TestConcurrent(t *testing.T) {
	res := hx.NewResult()
	defer res.Write()
	n := hx.EnvInt("VERIF_CONC", 10)
	shards := hx.EnvInt("VERIF_SHARDS", 4)
	tws := make([]*hx.TraceWriter, shards)
	for i := range tws {
		tw, err := hx.NewTraceWriter(filepath.Join(workDir(), fmt.Sprintf("walletfund-c-%d.ndjson", i)))
		if err != nil {
			t.Fatal(err)
		}
		tws[i] = tw
	}
	for i := 0; i < n; i++ {
		r, err := concurrentSession(hx.Seed(), i)
		if err != nil {
			t.Fatal(err)
		}
		for k, v := range r.counts {
			res.Count(k, v)
		}
		writeRun(tws[i%shards], r)
		res.Eval(fmt.Sprintf("conc|%d|%d", hx.Seed(), i))
		res.Traces++
		res.Count("events", len(r.events))
		if i == 0 {
			res.Sample(map[string]any{"leg": "T-concurrent", "goroutines": r.counts["goroutines"], "events": head(r.events, 14)})
		}
	}
	for _, tw := range tws {
		if err := tw.Close(); err != nil {
			t.Fatal(err)
		}
	}
}
