// Package walletledx binds spec/WalletLedger.tla to the real wallet update path
// (wallet.SingleAddressWallet.UpdateChainState over testutil.EphemeralWalletStore, fed from a real
// chain.Manager's UpdatesSince) -- property C06.
package walletledx

import (
	"bytes"
	"fmt"
	"math/big"
	"sort"
	"time"

	"go.sia.tech/core/consensus"
	"go.sia.tech/core/types"
	"verifharness/mat"
)

// Modulus of the value abstraction handed to TLC (TLC integers are 32 bit): every currency value v
// is represented by v mod P.  Sums and differences commute with the reduction, so a true
// FlowBalance equation is never rejected; the exact big-integer equation is checked in Go.
const P = 65521

func modP(c types.Currency) int {
	var m big.Int
	m.Mod(c.Big(), big.NewInt(P))
	return int(m.Int64())
}

// An Out is a siacoin output paying the wallet address, as the independent ledger sees it.
type Out struct {
	ID       types.SiacoinOutputID
	Value    types.Currency
	Maturity uint64
	Leaf     uint64 // leaf index in the accumulator of the chain that created it
	Kind     string // miner, foundation, claim:owner, claim:only, v1valid, v1missed, v2renter:<res>, v2host:<res>, payment
}

// An Ev is a wallet-relevant event of a block: ID, siacoin inflow and outflow for the address.
type Ev struct {
	ID       types.Hash256
	Kind     string // miner, foundation, claim, v1txn, v2txn, v1res, v2res
	In, Out  types.Currency
	Maturity uint64
	// Tag: "both" = the property's event and the pinned code's rule agree; "ideal:<why>" = demanded by
	// the property (the output pays the address) but not produced by the rule of wallet/update.go as
	// read; "impl:<why>" = produced by that rule although the output pays another address.
	Tag string
}

// A View is everything one block means for one address.
type View struct {
	Creates   []Out
	Spends    []Out
	Events    []Ev
	Ephemeral int
}

func resName(r types.V2FileContractResolutionType) string {
	switch r.(type) {
	case *types.V2FileContractRenewal:
		return "renewal"
	case *types.V2StorageProof:
		return "proof"
	case *types.V2FileContractExpiration:
		return "expiration"
	}
	return "unknown"
}

// applyUpdate recomputes core's ApplyUpdate for node id of tree t (id must be on a valid chain)
// with the supplement the node's ledger applied the block with -- for a tree with a pinned
// expiration order that is the pinned order, which decides the leaf indices of missed payouts.
func applyUpdate(t *mat.Tree, id int) (consensus.State, consensus.ApplyUpdate) {
	nd := t.Node(id)
	if nd.Parent == 0 {
		bs := consensus.V1BlockSupplement{Transactions: make([]consensus.V1TransactionSupplement, len(nd.Block.Transactions))}
		return consensus.ApplyBlock(t.W.N.GenesisState(), nd.Block, bs, time.Time{})
	}
	pl := t.Node(nd.Parent).L
	return consensus.ApplyBlock(pl.CS, nd.Block, nd.L.Supps[len(nd.L.Supps)-1], pl.AncestorTS())
}

// BlockView derives, with go.sia.tech/core only, what block `id` of the tree creates, spends and
// means as events for addr.
func BlockView(t *mat.Tree, id int, addr types.Address) View {
	nd := t.Node(id)
	blk := nd.Block
	cs, au := applyUpdate(t, id)
	height := cs.Index.Height
	var v View
	elems := map[types.SiacoinOutputID]types.SiacoinElement{}
	created := map[types.SiacoinOutputID]bool{}
	for _, d := range au.SiacoinElementDiffs() {
		elems[d.SiacoinElement.ID] = d.SiacoinElement.Copy()
		if d.Created {
			created[d.SiacoinElement.ID] = true
		}
	}
	// what each created output is, from the block's content
	kinds := map[types.SiacoinOutputID]string{}
	bid := blk.ID()
	for i := range blk.MinerPayouts {
		kinds[bid.MinerOutputID(i)] = "miner"
	}
	kinds[bid.FoundationOutputID()] = "foundation"
	for _, txn := range blk.Transactions {
		for i := range txn.SiacoinOutputs {
			kinds[txn.SiacoinOutputID(i)] = "payment"
		}
		for _, sfi := range txn.SiafundInputs {
			if sfi.UnlockConditions.UnlockHash() == addr {
				kinds[sfi.ParentID.ClaimOutputID()] = "claim:owner"
			} else {
				kinds[sfi.ParentID.ClaimOutputID()] = "claim:only"
			}
		}
	}
	for _, txn := range blk.V2Transactions() {
		txid := txn.ID()
		for i := range txn.SiacoinOutputs {
			kinds[txn.SiacoinOutputID(txid, i)] = "payment"
		}
		for _, sfi := range txn.SiafundInputs {
			if sfi.Parent.SiafundOutput.Address == addr {
				kinds[sfi.Parent.ID.V2ClaimOutputID()] = "claim:owner"
			} else {
				kinds[sfi.Parent.ID.V2ClaimOutputID()] = "claim:only"
			}
		}
		for _, fcr := range txn.FileContractResolutions {
			kinds[fcr.Parent.ID.V2RenterOutputID()] = "v2renter:" + resName(fcr.Resolution)
			kinds[fcr.Parent.ID.V2HostOutputID()] = "v2host:" + resName(fcr.Resolution)
		}
	}
	for _, d := range au.FileContractElementDiffs() {
		if !d.Resolved {
			continue
		}
		fce := d.FileContractElement
		if d.Valid {
			for i := range fce.FileContract.ValidProofOutputs {
				kinds[fce.ID.ValidOutputID(i)] = "v1valid"
			}
		} else {
			for i := range fce.FileContract.MissedProofOutputs {
				kinds[fce.ID.MissedOutputID(i)] = "v1missed"
			}
		}
	}
	for _, d := range au.SiacoinElementDiffs() {
		e := d.SiacoinElement
		if e.SiacoinOutput.Address != addr {
			continue
		}
		switch {
		case d.Created && d.Spent:
			v.Ephemeral++
		case d.Created:
			k, ok := kinds[e.ID]
			if !ok {
				panic(fmt.Sprintf("walletledx: created output %v of block %d is of no known kind", e.ID, id))
			}
			v.Creates = append(v.Creates, Out{ID: e.ID, Value: e.SiacoinOutput.Value, Maturity: e.MaturityHeight, Leaf: e.StateElement.LeafIndex, Kind: k})
		case d.Spent:
			v.Spends = append(v.Spends, Out{ID: e.ID, Value: e.SiacoinOutput.Value, Maturity: e.MaturityHeight, Leaf: e.StateElement.LeafIndex, Kind: "spend"})
		}
	}

	add := func(id types.Hash256, kind, tag string, in, out types.Currency, mat uint64) {
		if in.Equals(out) {
			return // an event that does not change the address' siacoins is not an event
		}
		v.Events = append(v.Events, Ev{ID: id, Kind: kind, In: in, Out: out, Maturity: mat, Tag: tag})
	}
	// payout: an event for a consensus-created output.  rule = wallet/update.go as read would record
	// it for addr (it keys claims on the siafund OWNER inside "relevant" transactions and v2 payouts
	// on the CONTRACT's renter / host address); the property demands it iff the output PAYS addr.
	payout := func(oid types.SiacoinOutputID, kind string, rule bool, why string) {
		e, ok := elems[oid]
		if !ok || !created[oid] {
			panic(fmt.Sprintf("walletledx: payout %v of block %d was not created", oid, id))
		}
		pays := e.SiacoinOutput.Address == addr
		switch {
		case pays && rule:
			add(types.Hash256(oid), kind, "both", e.SiacoinOutput.Value, types.ZeroCurrency, e.MaturityHeight)
		case pays:
			add(types.Hash256(oid), kind, "ideal:"+why, e.SiacoinOutput.Value, types.ZeroCurrency, e.MaturityHeight)
		case rule:
			add(types.Hash256(oid), kind, "impl:"+why, e.SiacoinOutput.Value, types.ZeroCurrency, e.MaturityHeight)
		}
	}
	for _, txn := range blk.Transactions {
		var in, out types.Currency
		relevant := false
		for _, so := range txn.SiacoinOutputs {
			if so.Address == addr {
				in = in.Add(so.Value)
				relevant = true
			}
		}
		for _, si := range txn.SiacoinInputs {
			if e := elems[si.ParentID]; e.SiacoinOutput.Address == addr {
				out = out.Add(e.SiacoinOutput.Value)
				relevant = true
			}
		}
		for _, sfi := range txn.SiafundInputs {
			payout(sfi.ParentID.ClaimOutputID(), "claim", relevant && sfi.UnlockConditions.UnlockHash() == addr, "claim")
		}
		add(types.Hash256(txn.ID()), "v1txn", "both", in, out, height)
	}
	for _, txn := range blk.V2Transactions() {
		var in, out types.Currency
		relevant := false
		for _, so := range txn.SiacoinOutputs {
			if so.Address == addr {
				in = in.Add(so.Value)
				relevant = true
			}
		}
		for _, si := range txn.SiacoinInputs {
			if si.Parent.SiacoinOutput.Address == addr {
				out = out.Add(si.Parent.SiacoinOutput.Value)
				relevant = true
			}
		}
		for _, sfi := range txn.SiafundInputs {
			payout(sfi.Parent.ID.V2ClaimOutputID(), "claim", relevant && sfi.Parent.SiafundOutput.Address == addr, "claim")
		}
		add(types.Hash256(txn.ID()), "v2txn", "both", in, out, height)
	}
	for _, d := range au.FileContractElementDiffs() {
		if !d.Resolved {
			continue
		}
		fce := d.FileContractElement
		if d.Valid {
			for i, so := range fce.FileContract.ValidProofOutputs {
				payout(fce.ID.ValidOutputID(i), "v1res", so.Address == addr, "v1res")
			}
		} else {
			for i, so := range fce.FileContract.MissedProofOutputs {
				payout(fce.ID.MissedOutputID(i), "v1res", so.Address == addr, "v1res")
			}
		}
	}
	for _, d := range au.V2FileContractElementDiffs() {
		if d.Resolution == nil {
			continue
		}
		fce := d.V2FileContractElement
		fc := fce.V2FileContract
		payout(fce.ID.V2HostOutputID(), "v2res", fc.HostOutput.Address == addr, "renewal")
		payout(fce.ID.V2RenterOutputID(), "v2res", fc.RenterOutput.Address == addr, "renewal")
	}
	for i, so := range blk.MinerPayouts {
		payout(bid.MinerOutputID(i), "miner", so.Address == addr, "miner")
	}
	if _, ok := elems[bid.FoundationOutputID()]; ok {
		payout(bid.FoundationOutputID(), "foundation", elems[bid.FoundationOutputID()].SiacoinOutput.Address == addr, "foundation")
	}
	sort.Slice(v.Creates, func(i, j int) bool { return bytes.Compare(v.Creates[i].ID[:], v.Creates[j].ID[:]) < 0 })
	sort.Slice(v.Spends, func(i, j int) bool { return bytes.Compare(v.Spends[i].ID[:], v.Spends[j].ID[:]) < 0 })
	return v
}
