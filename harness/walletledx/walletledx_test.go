package walletledx

import (
	"encoding/json"
	"fmt"
	"math/rand"
	"os"
	"path/filepath"
	"reflect"
	"sort"
	"strings"
	"sync"
	"testing"

	"go.sia.tech/core/types"
	"go.sia.tech/coreutils/chain"
	"verifharness/hx"
	"verifharness/mat"
)

var regimes = map[string][3]uint64{"v1": {1000, 1010, 1020}, "mid": {3, 6, 8}, "v2": {1, 1, 1}}

func ver(reg string) string {
	if reg == "v2" {
		return "2"
	}
	return "1"
}

// scenarioSpecs are the scripted trees of Leg M / Leg R: every role of the statement occurs for
// some persona on one branch of a fork and differently (or not at all) on the other, so that a
// reorg takes the wallet's output / event away and a later one brings it back.
func scenarioSpecs(seed int64) (out []TreeSpec) {
	mk := func(name, reg string, k int64, shape []int, scripts map[int][]string, fh uint64, fto int, every uint64) {
		r := regimes[reg]
		out = append(out, TreeSpec{Name: name + "/" + reg, Seed: seed*1000 + k, Allow: r[0], Require: r[1], Final: r[2],
			FoundationHeight: fh, FoundationTo: fto, SubsidyEvery: every, Shape: shape, Scripts: scripts})
	}
	// A: siafund claims.  A contract is formed first (tax revenue accrues, so claims are worth
	// something).  Main chain: owner spends siafunds with the claim paid to `third` (claim address
	// only), then in a siacoin-moving transaction with the claim paid to `other`.  Fork: the
	// siafunds move to `third` with the claim paid to the owner in a transaction that moves no
	// siacoins; `third` then spends them claiming for itself.
	for i, reg := range []string{"v1", "mid", "v2"} {
		v := ver(reg)
		mk("claims", reg, int64(10+i), []int{1, 2, 3, 4, 2, 6, 7, 8}, map[int][]string{
			2: {"fc" + v + ":0,1,3", "fc" + v + ":1,2,3", "miner:2"},
			3: {"sf" + v + ":0,0,2", "pay" + v + ":0,1", "miner:1"},
			4: {"sfs" + v + ":0,1,1", "pay" + v + ":2,0", "miner:0"},
			5: {"payf" + v + ":1,2", "miner:2"},
			6: {"sf" + v + ":0,2,0", "fc" + v + ":0,2,3", "miner:0"},
			7: {"sfs" + v + ":2,2,2", "sf" + v + ":1,1,2", "miner:1"},
			8: {"eph" + v + ":0,2", "miner:2"},
			9: {"pay" + v + ":2,1", "miner:0,1"},
		}, 2, i%3, 3)
	}
	// B: v1 contracts.  Main chain: storage proof (valid outputs: renter and host paid in full).
	// Fork: the window passes (missed outputs: host paid half).  Each persona is renter of one
	// contract and host of another.
	for i, reg := range []string{"v1", "mid"} {
		mk("v1contracts", reg, int64(20+i), []int{1, 2, 3, 4, 2, 6, 7, 8, 9}, map[int][]string{
			2:  {"fc1:0,1,1", "fc1:1,2,2", "fc1:2,0,3", "miner:1"},
			3:  {"sp1", "pay1:0,2", "miner:2"},
			4:  {"sp1", "rev1", "miner:0"},
			5:  {"sp1", "pay1:1,0", "miner:1"},
			6:  {"pay1:0,1", "miner:2,0"},
			7:  {"payf1:2,1", "miner:0"},
			8:  {"pay1:1,2", "miner:1"},
			9:  {"eph1:2,0", "miner:2"},
			10: {"pay1:0,2", "miner:0"},
		}, 1, (i+1)%3, 2)
	}
	// C: v2 contracts.  Main chain: renewal (final outputs to renter and host).  Fork 1: revision,
	// then storage proof.  Fork 2 (off fork 1): nothing until the contract expires.
	for i, reg := range []string{"v2", "mid"} {
		base := 1 // height of node 2
		sc := map[int][]string{
			2:  {"fc2:0,1,2", "fc2:1,2,2", "fc2:2,0,2", "miner:2"},
			3:  {"renew2", "renew2", "pay2:1,0", "miner:0"},
			4:  {"renew2", "pay2:0,2", "miner:1"},
			5:  {"payf2:2,1", "miner:2"},
			6:  {"rev2", "rev2", "pay2:0,1", "miner:1"},
			7:  {"pay2:2,0", "miner:0"},
			8:  {"sp2", "sp2", "miner:2"},
			9:  {"sp2", "pay2:1,2", "miner:0"},
			10: {"pay2:0,2", "miner:1"},
			11: {"payf2:1,0", "miner:2"},
			12: {"exp2", "exp2", "exp2", "miner:0"},
			13: {"pay2:2,1", "miner:1"},
		}
		shape := []int{1, 2, 3, 4, 2, 6, 7, 8, 7, 10, 11, 12}
		if reg == "mid" {
			// v2 transactions are allowed from height 3: two v1 blocks first
			shape = []int{1, 2}
			nsc := map[int][]string{2: {"pay1:0,1", "miner:0"}, 3: {"pay1:1,2", "fc1:0,1,1", "miner:1"}}
			for _, p := range []int{1, 2, 3, 4, 2, 6, 7, 8, 7, 10, 11, 12} {
				shape = append(shape, p+2)
			}
			for k, v := range sc {
				nsc[k+2] = v
			}
			sc = nsc
			base = 3
		}
		_ = base
		mk("v2contracts", reg, int64(30+i), shape, sc, 1, (i+2)%3, 4)
	}
	// D: a renewal whose FINAL outputs are paid to another persona than the contract's renter / host
	// on the main chain, a plain renewal on the fork.
	mk("renewal-redirect", "v2", 40, []int{1, 2, 3, 4, 2, 6, 7, 8}, map[int][]string{
		2: {"fc2:0,1,3", "fc2:1,2,3", "miner:2"},
		3: {"renew2x:2", "pay2:0,1", "miner:1"},
		4: {"renew2x:0", "miner:0"},
		5: {"pay2:2,0", "miner:2"},
		6: {"renew2", "miner:0"},
		7: {"renew2", "pay2:1,2", "miner:1"},
		8: {"pay2:2,1", "miner:2"},
		9: {"payf2:0,2", "miner:0"},
	}, 1, 0, 3)
	// E: Foundation subsidy address moved between personas on one branch only; forks at genesis
	for i, reg := range []string{"v1", "v2"} {
		v := ver(reg)
		mk("foundation", reg, int64(50+i), []int{1, 2, 3, 4, 5, 1, 7, 8, 9, 10, 11}, map[int][]string{
			2:  {"miner:1"},
			3:  {"fnd" + v + ":2", "miner:2"},
			4:  {"pay" + v + ":0,2", "miner:0"},
			5:  {"fnd" + v + ":1", "miner:1"},
			6:  {"miner:2"},
			7:  {"miner:0"},
			8:  {"pay" + v + ":0,1", "miner:1"},
			9:  {"fnd" + v + ":0", "miner:2"},
			10: {"miner:0"},
			11: {"miner:1"},
			12: {"miner:2"},
		}, 1, 1, 2)
	}
	// F: pinned expiration order.  The world's managers are created with
	// chain.WithExpiringContractOrder; three v1 contracts share one window end, every persona is
	// renter of one and host of another, so each receives missed-proof outputs of two contracts.
	// Main chain: one contract is resolved by a storage proof, the other two expire together (pinned
	// order of 2).  Fork: all three expire together (pinned order of 3).  The missed payouts are
	// spent afterwards (in the mid regime by v2 transactions carrying their proofs).
	pinned := []struct{ reg, pin string }{{"v1", "reverse"}, {"mid", "rotate"}}
	if hx.EnvInt("VERIF_PER_REGIME", 2) > 2 {
		pinned = append(pinned, struct{ reg, pin string }{"v1", "linear"}, struct{ reg, pin string }{"mid", "reverse"})
	}
	for i, c := range pinned {
		v := "1"
		if c.reg == "mid" {
			v = "2"
		}
		mk("pinned-expiry-"+c.pin, c.reg, int64(60+i), []int{1, 2, 3, 4, 5, 6, 7, 3, 9, 10, 11, 12, 13}, map[int][]string{
			2:  {"fc1:0,1,2", "fc1:1,2,2", "fc1:2,0,2", "miner:1"},
			3:  {"pay1:0,2", "miner:2"},
			4:  {"sp1", "pay" + v + ":1,0", "miner:0"},
			5:  {"pay" + v + ":2,1", "miner:1"},
			6:  {"miner:2"}, // height 5: the two unresolved contracts expire
			7:  {"pay" + v + ":0,1", "miner:0"},
			8:  {"pay" + v + ":1,2", "pay" + v + ":2,0", "pay" + v + ":0,2", "miner:1"},
			9:  {"pay" + v + ":1,2", "miner:0"},
			10: {"pay" + v + ":0,1", "miner:2"},
			11: {"miner:1"}, // height 5 on the fork: all three expire
			12: {"pay" + v + ":2,0", "miner:0"},
			13: {"pay" + v + ":0,1", "pay" + v + ":1,2", "miner:2"},
			14: {"pay" + v + ":1,0", "pay" + v + ":2,1", "pay" + v + ":0,2", "miner:1"},
		}, 1, i%3, 3)
		out[len(out)-1].Pin = c.pin
	}
	return out
}

// randomSmallSpecs: random role trees for Leg M / Leg R.
func randomSmallSpecs(seed int64, perRegime, blocks int) (out []TreeSpec) {
	for ri, reg := range []string{"v1", "mid", "v2"} {
		r := regimes[reg]
		for k := 0; k < perRegime; k++ {
			out = append(out, TreeSpec{Name: fmt.Sprintf("random/%s/%d", reg, k), Seed: seed*1000 + 100 + int64(ri*50+k), Allow: r[0], Require: r[1], Final: r[2],
				FoundationHeight: uint64(1 + k%3), FoundationTo: k % 3, SubsidyEvery: uint64(2 + k%3),
				Blocks: blocks - 1 - k%2, Warmup: 1 + k%2, MaxLeaves: 3, BadBlocks: 0, OpsPerBlk: 3, ForkProb: 0.45})
			if reg != "v2" && k%2 == 1 {
				out[len(out)-1].Pin = []string{"reverse", "rotate", "linear"}[(k/2)%3]
			}
		}
	}
	return out
}

type absRef struct {
	Spec    int `json:"spec"`
	Persona int `json:"persona"`
}

// coverage counts, per abstract tree set, which roles the wallet address plays.
func coverage(res *hx.Result, o *Oracle, tr *mat.RoleTree) {
	// blocks on a branch that a heavier valid branch can displace are "revertible"
	for _, nd := range tr.Nodes {
		if !nd.ValidChain {
			continue
		}
		v := o.View(nd.ID)
		for _, c := range v.Creates {
			res.Count("role:"+c.Kind, 1)
		}
		if len(v.Spends) > 0 {
			res.Count("role:spender", len(v.Spends))
		}
		if v.Ephemeral > 0 {
			res.Count("role:ephemeral", v.Ephemeral)
		}
		for _, e := range v.Events {
			res.Count("event:"+e.Kind+":"+e.Tag, 1)
		}
	}
}

// TestGenTrees materialises the small trees and writes, per (tree, persona), the abstraction for TLC.
func TestGenTrees(t *testing.T) {
	res := hx.NewResult()
	defer res.Write()
	per := hx.EnvInt("VERIF_PER_REGIME", 2)
	blocks := hx.EnvInt("VERIF_TREE_BLOCKS", 8)
	specs := append(scenarioSpecs(hx.Seed()), randomSmallSpecs(hx.Seed(), per, blocks)...)
	if only := os.Getenv("VERIF_ONLY_SCENARIO"); only != "" {
		var f []TreeSpec
		for _, s := range specs {
			if strings.HasPrefix(s.Name, only) {
				f = append(f, s)
			}
		}
		specs = f
	}
	var trees []TreeJSON
	var refs []absRef
	for si, sp := range specs {
		tr := sp.Build()
		nm := NewNames()
		valid := 0
		for _, nd := range tr.Nodes {
			if nd.ValidChain {
				valid++
			}
			if nd.Corrupt == "" && nd.Cls != "ok" && tr.Node(nd.Parent).ValidChain {
				t.Fatalf("spec %s: scripted block %d (%v) is classified %s", sp.Name, nd.ID, nd.Ops, nd.Cls)
			}
		}
		for p := 0; p < 3; p++ {
			o := NewOracle(tr, tr.RW.P[p].Addr, nm)
			tj := o.Abstract(p, si)
			trees = append(trees, tj)
			refs = append(refs, absRef{si, p})
			coverage(res, o, tr)
			res.Eval(fmt.Sprintf("%s/%d", sp.Name, p))
		}
		res.Count("real_trees", 1)
		res.Count("pinned_blocks", tr.Pinned)
		if sp.Pin != "" {
			res.Count("pinned_worlds", 1)
		}
		res.Count("blocks", len(tr.Nodes))
		res.Count("valid_blocks", valid)
		if si == 0 {
			var ops [][]string
			for _, nd := range tr.Nodes {
				ops = append(ops, nd.Ops)
			}
			res.Sample(map[string]any{"spec": sp.Name, "shape": sp.Shape, "ops_per_block": ops, "abstract_tree_of_persona_2": trees[len(trees)-1]})
		}
	}
	dir := os.Getenv("VERIF_WORK")
	write := func(name string, v any) {
		b, _ := json.Marshal(v)
		if err := os.WriteFile(filepath.Join(dir, name), b, 0644); err != nil {
			t.Fatal(err)
		}
	}
	write("wl_trees.json", trees)
	write("wl_specs.json", specs)
	write("wl_refs.json", refs)
}

// ---------------------------------------------------------------- Leg R

type stateJ struct {
	T    int      `json:"t"`
	Mem  int      `json:"mem"`
	WTip int      `json:"wTip"`
	Utxo [][4]int `json:"utxo"`
	Ev   [][4]int `json:"ev"`
	Ok   bool     `json:"ok"`
}

type actJ struct {
	Op  string `json:"op"`
	To  int    `json:"to"`
	Max int    `json:"max"`
	Rus []int  `json:"rus"`
	Aus []int  `json:"aus"`
}

type edgeJ struct {
	From stateJ `json:"from"`
	Act  actJ   `json:"act"`
	To   stateJ `json:"to"`
}

type replayIn struct {
	Specs []TreeSpec `json:"specs"`
	Refs  []absRef   `json:"refs"`
	Paths [][]edgeJ  `json:"paths"`
	Fault string     `json:"fault"`
	// OracleFault mutates the ORACLE (selftest): "drop-miner-events" removes miner events from what
	// the audits demand
	OracleFault string `json:"oracleFault"`
}

func normProj(p Proj) (string, string) {
	u := append([][4]int{}, p.Utxo...)
	e := append([][4]int{}, p.Ev...)
	sort.Slice(u, func(i, j int) bool { return lessInts(u[i][:], u[j][:]) })
	sort.Slice(e, func(i, j int) bool { return lessInts(e[i][:], e[j][:]) })
	return hx.JSON(u), hx.JSON(e)
}

type built struct {
	tr  *mat.RoleTree
	nm  *Names
	ids map[types.BlockID]int
	or  [3]*Oracle
}

type replayer struct {
	res   *hx.Result
	in    *replayIn
	built map[int]*built
}

func (r *replayer) get(spec int) *built {
	if b, ok := r.built[spec]; ok {
		return b
	}
	tr := r.in.Specs[spec].Build()
	b := &built{tr: tr, nm: NewNames(), ids: BlockIDs(tr.Tree)}
	for p := 0; p < 3; p++ {
		b.or[p] = NewOracle(tr, tr.RW.P[p].Addr, b.nm)
		// name every id exactly as TestGenTrees did (same order of first use)
		b.or[p].Abstract(p, spec)
		if r.in.OracleFault == "drop-miner-events" {
			for _, nd := range tr.Nodes {
				v := b.or[p].View(nd.ID)
				var keep []Ev
				for _, e := range v.Events {
					if e.Kind != "miner" {
						keep = append(keep, e)
					}
				}
				v.Events = keep
			}
		}
	}
	r.built[spec] = b
	return b
}

// adopt makes `to` the manager's tip by offering every block of its chain.
func adopt(cm *chain.Manager, tr *mat.RoleTree, to int) error {
	var blocks []types.Block
	for _, id := range tr.PathTo(to)[1:] {
		blocks = append(blocks, tr.Node(id).Block)
	}
	if err := cm.AddBlocks(blocks); err != nil {
		return err
	}
	if cm.Tip().ID != tr.Node(to).Block.ID() {
		return fmt.Errorf("tip is %v", cm.Tip())
	}
	return nil
}

func (r *replayer) runPath(path []edgeJ) {
	if len(path) == 0 {
		return
	}
	ref := r.in.Refs[path[0].From.T-1]
	b := r.get(ref.Spec)
	tr, o := b.tr, b.or[ref.Persona]
	name := r.in.Specs[ref.Spec].Name
	cm := NewManager(tr)
	w := NewWUT(tr.RW.P[ref.Persona].Key, cm, r.in.Fault)
	defer w.Close()
	replay := map[string]any{"kind": "path", "spec": r.in.Specs[ref.Spec], "persona": ref.Persona, "path": path, "fault": r.in.Fault}
	mm := func(sig, f string, a ...any) {
		r.res.Mismatch(sig, fmt.Sprintf("tree %s persona %d (%s): ", name, ref.Persona, tr.RW.P[ref.Persona].Name)+fmt.Sprintf(f, a...), replay)
	}
	for _, e := range path {
		r.res.Eval(fmt.Sprintf("%d|%d|%s|%d|%d", ref.Spec, ref.Persona, hx.JSON(e.Act), e.To.Mem, e.To.WTip))
		switch e.Act.Op {
		case "Adopt":
			if err := adopt(cm, tr, e.Act.To); err != nil {
				mm("replay:adopt:tip", "AddBlocks of the chain of block %d (heavier than %d by the real states): %v", e.Act.To, e.From.Mem, err)
				return
			}
		case "Chunk":
			rus, aus, err := w.Chunk(cm, b.ids, e.Act.Max)
			if err != nil {
				mm("replay:chunk:error", "UpdatesSince(%d, %d) + UpdateChainState: %v", e.From.WTip, e.Act.Max, err)
				return
			}
			if !reflect.DeepEqual(rus, append([]int{}, e.Act.Rus...)) || !reflect.DeepEqual(aus, append([]int{}, e.Act.Aus...)) {
				mm("replay:chunk:stream", "UpdatesSince(%d, %d) with tip %d: real reverts %v applies %v, spec reverts %v applies %v", e.From.WTip, e.Act.Max, e.From.Mem, rus, aus, e.Act.Rus, e.Act.Aus)
				return
			}
			if w.Node != e.To.WTip {
				mm("replay:chunk:position", "the stream left the wallet at block %d, spec says %d", w.Node, e.To.WTip)
				return
			}
			r.res.Count("chunks", 1)
			if len(rus) > 0 && len(aus) == 0 {
				r.res.Count("chunks_ending_on_a_revert", 1)
			}
			if len(rus) > 0 && len(aus) > 0 {
				r.res.Count("chunks_revert_then_apply", 1)
			}
		default:
			r.res.Note("unexpected action %s", e.Act.Op)
			return
		}
		// the projected real state must equal the specification's after every action
		p := w.Project(b.nm, b.ids)
		gu, ge := normProj(p)
		wu, we := normProj(Proj{Utxo: e.To.Utxo, Ev: e.To.Ev})
		if gu != wu {
			mm("replay:state:utxo", "after %s: stored outputs <<id,value mod P,maturity>> %s, spec %s", hx.JSON(e.Act), gu, wu)
			return
		}
		if ge != we {
			mm("replay:state:events", "after %s: stored events <<id,block,in,out>> %s, spec %s", hx.JSON(e.Act), ge, we)
			return
		}
		// property-level audit against the independent ledger, wherever the wallet stands
		if e.Act.Op == "Chunk" {
			atTip := w.Idx == cm.Tip()
			for _, f := range w.Audit(o, cm, b.ids, atTip) {
				mm(f.Sig, "%s", f.Desc)
				r.res.Count("audit_findings", 1)
			}
			r.res.Count("audits", 1)
			if atTip {
				r.res.Count("audits_at_tip", 1)
			}
		}
	}
	r.res.Count("store_tip_differs_from_stream_position", w.StoreTipDiffers)
}

func loadReplay(t *testing.T) *replayIn {
	var in replayIn
	if err := hx.ReadIn(&in); err != nil {
		t.Fatal(err)
	}
	return &in
}

// TestReplay replays the edge cover of WalletLedger's state graph on real managers and wallets.
func TestReplay(t *testing.T) {
	res := hx.NewResult()
	defer res.Write()
	in := loadReplay(t)
	r := &replayer{res: res, in: in, built: map[int]*built{}}
	// materialise every tree once (the caches are read-only afterwards), then replay the paths on
	// independent managers / wallets in parallel
	for _, p := range in.Paths {
		if len(p) > 0 {
			r.get(in.Refs[p[0].From.T-1].Spec)
		}
	}
	var wg sync.WaitGroup
	next := make(chan int)
	for k := 0; k < hx.EnvInt("VERIF_PAR", 6); k++ {
		wg.Add(1)
		go func() {
			defer wg.Done()
			for pi := range next {
				r.runPath(in.Paths[pi])
			}
		}()
	}
	for pi, p := range in.Paths {
		next <- pi
		if pi == 0 && len(p) > 0 {
			var acts []actJ
			for _, e := range p {
				acts = append(acts, e.Act)
			}
			ref := in.Refs[p[0].From.T-1]
			res.Sample(map[string]any{"tree": in.Specs[ref.Spec].Name, "persona": ref.Persona, "path_actions": acts, "final_state": p[len(p)-1].To})
		}
	}
	close(next)
	wg.Wait()
	res.Count("paths", len(in.Paths))
}

// TestReplayOne re-executes one recorded mismatch ($VERIF_IN = the replay record written by check).
func TestReplayOne(t *testing.T) {
	res := hx.NewResult()
	defer res.Write()
	var rec struct {
		Replay struct {
			Kind    string    `json:"kind"`
			Spec    TreeSpec  `json:"spec"`
			Persona int       `json:"persona"`
			Path    []edgeJ   `json:"path"`
			Fault   string    `json:"fault"`
			Seed    int64     `json:"seed"`
			Hist    *histSpec `json:"hist"`
		} `json:"replay"`
	}
	if err := hx.ReadIn(&rec); err != nil {
		t.Fatal(err)
	}
	switch rec.Replay.Kind {
	case "path":
		for i := range rec.Replay.Path {
			rec.Replay.Path[i].From.T, rec.Replay.Path[i].To.T = 1, 1
		}
		in := &replayIn{Specs: []TreeSpec{rec.Replay.Spec}, Refs: []absRef{{0, rec.Replay.Persona}}, Paths: [][]edgeJ{rec.Replay.Path}, Fault: rec.Replay.Fault}
		r := &replayer{res: res, in: in, built: map[int]*built{}}
		// names must be assigned as in the original run: all three personas, in order
		r.runPath(rec.Replay.Path)
	case "driver":
		runHistory(res, *rec.Replay.Hist, nil, nil, "")
	}
}

// ---------------------------------------------------------------- Leg T

// tev is one NDJSON event of WalletLedgerTrace.tla.
type tev struct {
	Op   string   `json:"op"`
	T    int      `json:"t,omitempty"`
	To   int      `json:"to,omitempty"`
	Max  int      `json:"max,omitempty"`
	From int      `json:"from"`
	Rus  []int    `json:"rus"`
	Aus  []int    `json:"aus"`
	WTip int      `json:"wtip"`
	Utxo [][4]int `json:"utxo"`
	Ev   [][4]int `json:"ev"`
}

// histSpec describes one randomised history: the tree, the persona of the wallet, the schedule seed.
type histSpec struct {
	Tree    TreeSpec `json:"tree"`
	Persona int      `json:"persona"`
	Sched   int64    `json:"sched"`
}

// runHistory drives one real manager with a randomised submission schedule (batches, children
// before parents, duplicates, invalid blocks -- as in the histories of C02) while the wallet
// synchronises in chunks of 1..7 updates at random moments.
func runHistory(res *hx.Result, hs histSpec, tw *hx.TraceWriter, trees *[]TreeJSON, fault string) {
	tr := hs.Tree.Build()
	nm := NewNames()
	ids := BlockIDs(tr.Tree)
	o := NewOracle(tr, tr.RW.P[hs.Persona].Addr, nm)
	tj := o.Abstract(hs.Persona, 0)
	ti := 0
	if trees != nil {
		*trees = append(*trees, tj)
		ti = len(*trees)
	}
	emit := func(e tev) {
		if tw != nil {
			if e.Rus == nil {
				e.Rus = []int{}
			}
			if e.Aus == nil {
				e.Aus = []int{}
			}
			if e.Utxo == nil {
				e.Utxo = [][4]int{}
			}
			if e.Ev == nil {
				e.Ev = [][4]int{}
			}
			tw.Emit(e)
		}
	}
	emit(tev{Op: "Reset", T: ti})
	cm := NewManager(tr)
	w := NewWUT(tr.RW.P[hs.Persona].Key, cm, fault)
	defer w.Close()
	rng := rand.New(rand.NewSource(hs.Sched))
	replay := map[string]any{"kind": "driver", "hist": hs}
	mm := func(sig, f string, a ...any) {
		res.Mismatch(sig, fmt.Sprintf("history tree seed %d (%d blocks, regime %d/%d) persona %d schedule %d: ", hs.Tree.Seed, len(tr.Nodes), hs.Tree.Allow, hs.Tree.Require, hs.Persona, hs.Sched)+fmt.Sprintf(f, a...), replay)
	}
	chunk := func() bool {
		if w.Idx == cm.Tip() {
			return true
		}
		max := 1 + rng.Intn(7)
		from := w.Node
		rus, aus, err := w.Chunk(cm, ids, max)
		if err != nil {
			mm("driver:c06:chunk-error", "UpdatesSince(%d, %d) + UpdateChainState: %v", from, max, err)
			return false
		}
		p := w.Project(nm, ids)
		emit(tev{Op: "Chunk", Max: max, From: from, Rus: rus, Aus: aus, WTip: w.Node, Utxo: p.Utxo, Ev: p.Ev})
		atTip := w.Idx == cm.Tip()
		for _, f := range w.Audit(o, cm, ids, atTip) {
			mm(f.Sig, "after chunk (reverts %v applies %v): %s", rus, aus, f.Desc)
		}
		res.Count("chunks", 1)
		res.Count("audits", 1)
		if atTip {
			res.Count("audits_at_tip", 1)
		}
		if len(rus) > 0 && len(aus) == 0 {
			res.Count("chunks_ending_on_a_revert", 1)
		}
		if len(rus) > 0 && len(aus) > 0 {
			res.Count("chunks_revert_then_apply", 1)
		}
		if len(rus) > 0 {
			res.Count("reverted_blocks", len(rus))
		}
		return true
	}
	var order []int
	if rng.Intn(2) == 0 {
		// blocks in the order they were mined: competing branches grow side by side, many shallow reorgs
		for id := 2; id <= len(tr.Nodes); id++ {
			order = append(order, id)
		}
	} else {
		// branch by branch, shorter branches first: the manager follows one branch to its end and is
		// then moved over by the next one -- few, DEEP reorgs (the wallet reverts many blocks in chunks)
		var leaves []int
		isParent := map[int]bool{}
		for _, nd := range tr.Nodes {
			isParent[nd.Parent] = true
		}
		for _, nd := range tr.Nodes {
			if !isParent[nd.ID] {
				leaves = append(leaves, nd.ID)
			}
		}
		sort.SliceStable(leaves, func(i, j int) bool { return tr.Node(leaves[i]).Height < tr.Node(leaves[j]).Height })
		done := map[int]bool{1: true}
		for _, lf := range leaves {
			for _, id := range tr.PathTo(lf) {
				if !done[id] {
					done[id] = true
					order = append(order, id)
				}
			}
		}
		res.Count("branchwise_histories", 1)
	}
	for i := range order {
		if rng.Float64() < 0.1 && i+1 < len(order) {
			order[i], order[i+1] = order[i+1], order[i]
		}
	}
	submit := func(batch []int) error {
		var blocks []types.Block
		for _, id := range batch {
			blocks = append(blocks, tr.Node(id).Block)
		}
		before := cm.Tip()
		var err error
		func() {
			defer func() {
				if p := recover(); p != nil {
					mm("driver:c06:addblocks-panic", "AddBlocks(%v) panicked: %v", batch, p)
				}
			}()
			err = cm.AddBlocks(blocks) // errors are expected (invalid / orphan blocks)
		}()
		if after := cm.Tip(); after != before {
			emit(tev{Op: "Adopt", To: ids[after.ID]})
			res.Count("adopts", 1)
		}
		return err
	}
	sync := func() bool {
		// the wallet synchronises now and then, a few chunks at a time
		if rng.Float64() < 0.55 {
			for c := 1 + rng.Intn(3); c > 0; c-- {
				if !chunk() {
					return false
				}
			}
		}
		return true
	}
	for i := 0; i < len(order); {
		k := 1 + rng.Intn(4)
		if i+k > len(order) {
			k = len(order) - i
		}
		batch := append([]int{}, order[i:i+k]...)
		if rng.Float64() < 0.1 {
			batch = append(batch, order[rng.Intn(i+1)])
		}
		i += k
		if err := submit(batch); err != nil {
			// a call that failed as a whole (orphan first, invalid block inside): what a syncing node
			// does next is offer the blocks again one by one, parents first
			one := append([]int{}, batch...)
			sort.Ints(one)
			for _, id := range one {
				submit([]int{id})
			}
		}
		if !sync() {
			return
		}
	}
	// blocks that were offered before their parents are known now: once more, parents first
	for id := 2; id <= len(tr.Nodes); id++ {
		if _, ok := cm.Block(tr.Node(id).Block.ID()); ok {
			continue
		}
		submit([]int{id})
		if !sync() {
			return
		}
	}
	for c := 0; c < 400 && w.Idx != cm.Tip(); c++ {
		if !chunk() {
			return
		}
	}
	if w.Idx != cm.Tip() {
		mm("driver:c06:no-catchup", "the wallet did not reach the tip after 400 chunks")
	}
	res.Count("store_tip_differs_from_stream_position", w.StoreTipDiffers)
	res.Count("pinned_blocks", tr.Pinned)
	if hs.Tree.Pin != "" {
		res.Count("pinned_worlds", 1)
	}
	coverage(res, o, tr)
}

// TestDriver: randomised histories on real managers and wallets, recorded for WalletLedgerTrace.tla.
func TestDriver(t *testing.T) {
	res := hx.NewResult()
	defer res.Write()
	nHist := hx.EnvInt("VERIF_HISTORIES", 12)
	shards := hx.EnvInt("VERIF_SHARDS", 8)
	minB, maxB := hx.EnvInt("VERIF_MIN_BLOCKS", 20), hx.EnvInt("VERIF_MAX_BLOCKS", 45)
	fault := os.Getenv("VERIF_FAULT")
	dir := os.Getenv("VERIF_WORK")
	type shard struct {
		tw    *hx.TraceWriter
		trees []TreeJSON
	}
	sh := make([]*shard, shards)
	for i := range sh {
		tw, err := hx.NewTraceWriter(filepath.Join(dir, fmt.Sprintf("wltrace-%d.ndjson", i)))
		if err != nil {
			t.Fatal(err)
		}
		sh[i] = &shard{tw: tw}
	}
	base := hx.Seed()*100000 + 6000
	n := 0
	// one goroutine per shard: the histories of a shard are run (and recorded) one after the other
	work := make([][]histSpec, shards)
	for hi := 0; hi < nHist; hi++ {
		seed := base + int64(hi)
		rng := rand.New(rand.NewSource(seed))
		reg := [][3]uint64{{1000, 1010, 1020}, {8, 14, 18}, {1, 1, 1}, {5, 6, 7}}[rng.Intn(4)]
		ts := TreeSpec{Name: fmt.Sprintf("hist-%d", seed), Seed: seed, Allow: reg[0], Require: reg[1], Final: reg[2],
			FoundationHeight: uint64(1 + rng.Intn(6)), FoundationTo: rng.Intn(3), SubsidyEvery: uint64(3 + rng.Intn(5)),
			Blocks: minB + rng.Intn(maxB-minB+1), Warmup: 2, MaxLeaves: 3 + rng.Intn(2), BadBlocks: 4, OpsPerBlk: 3, ForkProb: 0.2 + 0.15*rng.Float64()}
		if reg[1] > 1 {
			// worlds with v1 contracts: every second one runs its managers with a pinned expiration order
			ts.Pin = []string{"", "reverse", "", "rotate", "", "linear"}[rng.Intn(6)]
		}
		for p := 0; p < 3; p++ {
			work[n%shards] = append(work[n%shards], histSpec{Tree: ts, Persona: p, Sched: seed*7 + int64(p)})
			n++
		}
	}
	var wg sync.WaitGroup
	for i := range sh {
		wg.Add(1)
		go func(i int) {
			defer wg.Done()
			s := sh[i]
			for k, hs := range work[i] {
				runHistory(res, hs, s.tw, &s.trees, fault)
				res.Eval(fmt.Sprintf("%d/%d", hs.Tree.Seed, hs.Persona))
				if i == 0 && k == 0 {
					res.Sample(map[string]any{"history": hs, "tree_parents": s.trees[len(s.trees)-1].Parent})
				}
			}
		}(i)
	}
	wg.Wait()
	total := 0
	for i, s := range sh {
		total += s.tw.N
		if err := s.tw.Close(); err != nil {
			t.Fatal(err)
		}
		b, _ := json.Marshal(s.trees)
		if err := os.WriteFile(filepath.Join(dir, fmt.Sprintf("wltrees-%d.json", i)), b, 0644); err != nil {
			t.Fatal(err)
		}
	}
	res.Traces = n
	res.Count("events", total)
}
