package walletledx

import (
	"math/rand"

	"go.sia.tech/core/types"
	"go.sia.tech/coreutils/chain"
	"verifharness/mat"
)

// A TreeSpec is everything needed to rebuild a role tree deterministically in another process.
type TreeSpec struct {
	Name             string           `json:"name"`
	Seed             int64            `json:"seed"`
	Allow            uint64           `json:"allow"`
	Require          uint64           `json:"require"`
	Final            uint64           `json:"final"`
	FoundationHeight uint64           `json:"foundationHeight"`
	FoundationTo     int              `json:"foundationTo"`
	SubsidyEvery     uint64           `json:"subsidyEvery"`
	Blocks           int              `json:"blocks"`
	Warmup           int              `json:"warmup"`
	WarmScripts      [][]string       `json:"warmScripts"`
	MaxLeaves        int              `json:"maxLeaves"`
	BadBlocks        int              `json:"badBlocks"`
	OpsPerBlk        int              `json:"opsPerBlk"`
	ForkProb         float64          `json:"forkProb"`
	Shape            []int            `json:"shape"`   // Shape[i] = parent of node i+2 (scripted trees)
	Scripts          map[int][]string `json:"scripts"` // node id -> role operations
	Bad              map[int]string   `json:"bad"`
	Skip             []string         `json:"skip"` // role operations never drawn at random
	// Pin ("" | "linear" | "reverse" | "rotate"): the world's managers are created with
	// chain.WithExpiringContractOrder pinning, for every block in which two or more v1 contracts
	// expire, that permutation of the linear order; the tree's ledgers (the oracle) apply the same
	// order.  Only pinned worlds let v1 contracts share a window end.
	Pin string `json:"pin"`
}

// Build materialises the tree: real mined blocks, classified by core.
func (ts TreeSpec) Build() *mat.RoleTree {
	if ts.FoundationHeight > ts.Allow {
		ts.FoundationHeight = ts.Allow // the store refuses a network whose v2 hardfork precedes the Foundation hardfork
	}
	rw := mat.NewRoleWorld(mat.RoleParams{Params: mat.Params{Allow: ts.Allow, Require: ts.Require, Final: ts.Final, Seed: ts.Seed},
		FoundationHeight: ts.FoundationHeight, FoundationTo: ts.FoundationTo, SubsidyEvery: ts.SubsidyEvery})
	// without a pin the expiration ORDER of v1 contracts sharing a window end is history dependent
	// (C02's open finding), so only pinned worlds let contracts share one
	rw.UniqueWindows = ts.Pin == ""
	rng := rand.New(rand.NewSource(ts.Seed))
	t := mat.NewRoleTree(rw)
	t.PinMode = ts.Pin
	if len(ts.Skip) > 0 {
		t.Skip = map[string]bool{}
		for _, s := range ts.Skip {
			t.Skip[s] = true
		}
	}
	if len(ts.Shape) > 0 {
		for i, parent := range ts.Shape {
			t.Add(parent, rng, ts.OpsPerBlk, ts.Scripts[i+2], i%3, ts.Bad[i+2])
		}
		return t
	}
	tip := 1
	for _, sc := range ts.WarmScripts {
		tip = t.Add(tip, rng, ts.OpsPerBlk, sc, 0, "").ID
	}
	for i := len(ts.WarmScripts); i < ts.Warmup; i++ {
		tip = t.Add(tip, rng, ts.OpsPerBlk, nil, 0, "").ID
	}
	warm := ts.Warmup
	if len(ts.WarmScripts) > warm {
		warm = len(ts.WarmScripts)
	}
	t.GrowRandom(rng, mat.GenSpec{Blocks: ts.Blocks, ForkProb: ts.ForkProb, MaxLeaves: ts.MaxLeaves, BadBlocks: ts.BadBlocks, OpsPerBlk: ts.OpsPerBlk, Warmup: warm}, []int{tip})
	return t
}

// NewManager opens a real chain.Manager over a fresh in-memory store for the tree's network; in a
// pinned world with the option that pins the tree's expiration orders.
func NewManager(t *mat.RoleTree) *chain.Manager {
	st, cs, err := chain.NewDBStore(chain.NewMemDB(), t.W.N, t.W.Genesis, nil)
	if err != nil {
		panic(err)
	}
	if t.PinMode != "" {
		return chain.NewManager(st, cs, chain.WithExpiringContractOrder(t.Pin))
	}
	return chain.NewManager(st, cs)
}

// BlockIDs maps real block ids to the small node ids of the tree.
func BlockIDs(t *mat.Tree) map[types.BlockID]int {
	ids := map[types.BlockID]int{}
	for _, nd := range t.Nodes {
		ids[nd.Block.ID()] = nd.ID
	}
	return ids
}

// ---------------------------------------------------------------- abstraction for TLC

// TreeJSON is the abstract tree handed to spec/WalletLedger.tla: the fork tree and, per block,
// what it means for ONE address (the wallet of this abstract tree).
type TreeJSON struct {
	N       int        `json:"n"`
	Parent  []int      `json:"parent"`
	Height  []int      `json:"height"`
	Valid   []bool     `json:"valid"`
	Heavier [][]bool   `json:"heavier"`
	WC      [][][4]int `json:"wc"` // per block: created outputs <<id, value mod P, maturity height, leaf index>>
	WS      [][][4]int `json:"ws"` // per block: spent outputs (same tuples)
	WE      [][]EvJSON `json:"we"` // per block: events
	Persona int        `json:"persona"`
	Spec    int        `json:"spec"` // index of the real tree in specs.json
	// PinMode is the manager option of the world (chain.WithExpiringContractOrder), Pin[b] the order
	// (contract numbers) pinned for block b; the leaf indices in wc / ws are those of that order.
	PinMode string  `json:"pinMode"`
	Pin     [][]int `json:"pin"`
}

type EvJSON struct {
	ID  int    `json:"id"`
	In  int    `json:"in"`
	Out int    `json:"out"`
	Tag string `json:"tag"`
}

// Names maps real output / event ids to the small integers of the abstract trees.
type Names struct {
	m  map[types.Hash256]int
	ID []types.Hash256
}

func NewNames() *Names { return &Names{m: map[types.Hash256]int{}} }

func (nm *Names) Of(id types.Hash256) int {
	if v, ok := nm.m[id]; ok {
		return v
	}
	nm.ID = append(nm.ID, id)
	nm.m[id] = len(nm.ID)
	return len(nm.ID)
}

func (nm *Names) Known(id types.Hash256) (int, bool) {
	v, ok := nm.m[id]
	return v, ok
}

// An Oracle caches the per-block views of one real tree for one address.
type Oracle struct {
	T     *mat.RoleTree
	Addr  types.Address
	Names *Names
	views map[int]*View
}

func NewOracle(t *mat.RoleTree, addr types.Address, nm *Names) *Oracle {
	return &Oracle{T: t, Addr: addr, Names: nm, views: map[int]*View{}}
}

func (o *Oracle) View(id int) *View {
	if v, ok := o.views[id]; ok {
		return v
	}
	v := &View{}
	if o.T.Node(id).ValidChain {
		vv := BlockView(o.T.Tree, id, o.Addr)
		v = &vv
	}
	o.views[id] = v
	return v
}

// Abstract projects the tree onto what the specification sees for the oracle's address.
func (o *Oracle) Abstract(persona, spec int) TreeJSON {
	t := o.T
	n := len(t.Nodes)
	tj := TreeJSON{N: n, Persona: persona, Spec: spec, PinMode: t.PinMode}
	for _, nd := range t.Nodes {
		tj.Parent = append(tj.Parent, nd.Parent)
		tj.Height = append(tj.Height, int(nd.Height))
		tj.Valid = append(tj.Valid, nd.ValidChain)
		v := o.View(nd.ID)
		wc, ws, we := [][4]int{}, [][4]int{}, []EvJSON{}
		for _, c := range v.Creates {
			wc = append(wc, [4]int{o.Names.Of(types.Hash256(c.ID)), modP(c.Value), int(c.Maturity), int(c.Leaf)})
		}
		for _, c := range v.Spends {
			ws = append(ws, [4]int{o.Names.Of(types.Hash256(c.ID)), modP(c.Value), int(c.Maturity), int(c.Leaf)})
		}
		for _, e := range v.Events {
			we = append(we, EvJSON{ID: o.Names.Of(e.ID), In: modP(e.In), Out: modP(e.Out), Tag: e.Tag})
		}
		tj.WC, tj.WS, tj.WE = append(tj.WC, wc), append(tj.WS, ws), append(tj.WE, we)
		pin := []int{}
		for _, id := range t.Pin[nd.Block.ID()] {
			pin = append(pin, o.Names.Of(types.Hash256(id)))
		}
		tj.Pin = append(tj.Pin, pin)
	}
	tj.Heavier = make([][]bool, n)
	for i := range tj.Heavier {
		tj.Heavier[i] = make([]bool, n)
		for j := range tj.Heavier[i] {
			tj.Heavier[i][j] = t.Node(i+1).ValidChain && t.Node(j+1).ValidChain && t.Heavier(i+1, j+1)
		}
	}
	return tj
}
