package walletledx

import (
	"bytes"
	"fmt"
	"sort"
	"strings"
	"time"

	"go.sia.tech/core/types"
	"go.sia.tech/coreutils/chain"
	"go.sia.tech/coreutils/testutil"
	"go.sia.tech/coreutils/wallet"
	"verifharness/mat"
)

type nopSyncer struct{}

func (nopSyncer) BroadcastV2TransactionSet(types.ChainIndex, []types.V2Transaction) error { return nil }

// faultyTx wraps the store's UpdateTx with a deliberate defect (selftest stubs only).
type faultyTx struct {
	wallet.UpdateTx
	fault string
}

func (f faultyTx) WalletRevertIndex(index types.ChainIndex, removed, unspent []types.SiacoinElement, ts time.Time) error {
	switch f.fault {
	case "keep-events-on-revert":
		index.ID[0] ^= 0xFF // no stored event carries this index: nothing is deleted
	case "drop-unspent-on-revert":
		unspent = nil
	}
	return f.UpdateTx.WalletRevertIndex(index, removed, unspent, ts)
}

func (f faultyTx) UpdateWalletSiacoinElementProofs(pu wallet.ProofUpdater) error {
	if _, isRevert := pu.(chain.RevertUpdate); isRevert && f.fault == "stale-proofs-on-revert" {
		return nil
	}
	return f.UpdateTx.UpdateWalletSiacoinElementProofs(pu)
}

// A WUT is the wallet under test: a real SingleAddressWallet over the reference store, fed through
// UpdateChainState.  The harness itself tracks the index the update stream left the wallet at.
type WUT struct {
	Addr  types.Address
	SW    *wallet.SingleAddressWallet
	Store *testutil.EphemeralWalletStore
	Idx   types.ChainIndex
	Node  int // small id of Idx (0 = nothing processed yet)
	Fault string
	// statistics
	Chunks, RevertOnly, Mixed, StoreTipDiffers int
}

func NewWUT(key types.PrivateKey, cm *chain.Manager, fault string) *WUT {
	st := testutil.NewEphemeralWalletStore()
	sw, err := wallet.NewSingleAddressWallet(key, cm, st, nopSyncer{})
	if err != nil {
		panic(err)
	}
	return &WUT{Addr: sw.Address(), SW: sw, Store: st, Fault: fault}
}

func (w *WUT) Close() { w.SW.Close() }

// Chunk performs one synchronisation step exactly as a user of the package does: ask the manager
// for at most max updates since the index the stream left the wallet at, hand them to
// UpdateChainState inside one store transaction.
func (w *WUT) Chunk(cm *chain.Manager, ids map[types.BlockID]int, max int) (rus, aus []int, err error) {
	r, a, err := cm.UpdatesSince(w.Idx, max)
	if err != nil {
		return nil, nil, fmt.Errorf("UpdatesSince: %w", err)
	}
	rus, aus = []int{}, []int{}
	for _, u := range r {
		rus = append(rus, ids[u.Block.ID()])
	}
	for _, u := range a {
		aus = append(aus, ids[u.Block.ID()])
	}
	err = func() (err error) {
		defer func() {
			if p := recover(); p != nil {
				err = fmt.Errorf("panic: %v", p)
			}
		}()
		return w.Store.UpdateChainState(func(tx wallet.UpdateTx) error {
			if w.Fault != "" {
				tx = faultyTx{tx, w.Fault}
			}
			return w.SW.UpdateChainState(tx, r, a)
		})
	}()
	if err != nil {
		return rus, aus, err
	}
	switch {
	case len(a) > 0:
		w.Idx = a[len(a)-1].State.Index
	case len(r) > 0:
		w.Idx = r[len(r)-1].State.Index
	}
	w.Node = ids[w.Idx.ID]
	w.Chunks++
	if len(r) > 0 && len(a) == 0 {
		w.RevertOnly++
	}
	if len(r) > 0 && len(a) > 0 {
		w.Mixed++
	}
	if st, _ := w.Store.Tip(); st != w.Idx {
		w.StoreTipDiffers++
	}
	return rus, aus, nil
}

// Proj is the wallet's state in the vocabulary of the specification.
type Proj struct {
	Utxo [][4]int `json:"utxo"` // id, value mod P, maturity height, leaf index; sorted
	Ev   [][4]int `json:"ev"`   // event id, block, inflow mod P, outflow mod P; sorted
}

func (w *WUT) events() []wallet.Event {
	n, _ := w.Store.WalletEventCount()
	evs, err := w.Store.WalletEvents(0, int(n))
	if err != nil {
		panic(err)
	}
	return evs
}

func (w *WUT) Project(nm *Names, ids map[types.BlockID]int) Proj {
	p := Proj{Utxo: [][4]int{}, Ev: [][4]int{}}
	_, utxos, _ := w.Store.UnspentSiacoinElements()
	for _, e := range utxos {
		id, ok := nm.Known(types.Hash256(e.ID))
		if !ok {
			id = -1
		}
		p.Utxo = append(p.Utxo, [4]int{id, modP(e.SiacoinOutput.Value), int(e.MaturityHeight), int(e.StateElement.LeafIndex)})
	}
	for _, e := range w.events() {
		id, ok := nm.Known(e.ID)
		if !ok {
			id = -1
		}
		b, ok := ids[e.Index.ID]
		if !ok {
			b = -1
		}
		p.Ev = append(p.Ev, [4]int{id, b, modP(e.SiacoinInflow()), modP(e.SiacoinOutflow())})
	}
	sort.Slice(p.Utxo, func(i, j int) bool { return lessInts(p.Utxo[i][:], p.Utxo[j][:]) })
	sort.Slice(p.Ev, func(i, j int) bool { return lessInts(p.Ev[i][:], p.Ev[j][:]) })
	return p
}

func lessInts(a, b []int) bool {
	for i := range a {
		if a[i] != b[i] {
			return a[i] < b[i]
		}
	}
	return false
}

// A Finding is one property-level discrepancy: sig, description.
type Finding struct{ Sig, Desc string }

var evKind = map[string]string{
	wallet.EventTypeMinerPayout: "miner", wallet.EventTypeFoundationSubsidy: "foundation", wallet.EventTypeSiafundClaim: "claim",
	wallet.EventTypeV1Transaction: "v1txn", wallet.EventTypeV2Transaction: "v2txn",
	wallet.EventTypeV1ContractResolution: "v1res", wallet.EventTypeV2ContractResolution: "v2res",
}

// Audit evaluates the statement of C06 directly on the wallet, against the independent ledger of
// the node the update stream left the wallet at (the manager's tip when atTip): unspent outputs
// exactly those paying the address, value / maturity equal, every stored proof verifying against
// that block's state; events exactly the oracle's events of the blocks from genesis to that node
// (nothing of any other block); sum of inflows minus outflows equal to the sum of the unspent
// outputs; at the tip, Balance() equal to the ledger's partition by maturity.
func (w *WUT) Audit(o *Oracle, cm *chain.Manager, ids map[types.BlockID]int, atTip bool) (out []Finding) {
	add := func(sig, f string, a ...any) { out = append(out, Finding{sig, fmt.Sprintf(f, a...)}) }
	t := o.T
	if w.Node == 0 {
		return
	}
	nd := t.Node(w.Node)
	if nd.L == nil {
		add("audit:c06:position", "the update stream left the wallet at block %d, which is not on a valid chain", w.Node)
		return
	}
	L := nd.L
	// ---- unspent outputs
	_, utxos, _ := w.Store.UnspentSiacoinElements()
	want := map[types.SiacoinOutputID]types.SiacoinElement{}
	for id, e := range L.SC {
		if e.SiacoinOutput.Address == w.Addr {
			want[id] = e
		}
	}
	var sumU types.Currency
	seen := map[types.SiacoinOutputID]bool{}
	for _, e := range utxos {
		sumU = sumU.Add(e.SiacoinOutput.Value)
		le, ok := want[e.ID]
		switch {
		case seen[e.ID]:
			add("audit:c06:utxo:duplicate", "output %v stored twice", e.ID)
		case !ok:
			if _, any := L.SC[e.ID]; any {
				add("audit:c06:utxo:foreign", "stored output %v does not pay the wallet address (block %d)", e.ID, w.Node)
			} else {
				add("audit:c06:utxo:extra", "stored output %v (%v) is not unspent on the chain ending at block %d", e.ID, e.SiacoinOutput.Value, w.Node)
			}
		case e.SiacoinOutput != le.SiacoinOutput:
			add("audit:c06:utxo:value", "output %v stored as %v, chain has %v", e.ID, e.SiacoinOutput, le.SiacoinOutput)
		case e.MaturityHeight != le.MaturityHeight:
			add("audit:c06:utxo:maturity", "output %v stored with maturity height %d, chain has %d (block %d)", e.ID, e.MaturityHeight, le.MaturityHeight, w.Node)
		case e.StateElement.LeafIndex != le.StateElement.LeafIndex:
			add("audit:c06:utxo:leaf", "output %v stored with leaf index %d, chain has %d (block %d)", e.ID, e.StateElement.LeafIndex, le.StateElement.LeafIndex, w.Node)
		}
		seen[e.ID] = true
	}
	for id, e := range want {
		if !seen[id] {
			add("audit:c06:utxo:missing", "unspent output %v (%v, maturity %d) paying the wallet on the chain ending at block %d is not stored", id, e.SiacoinOutput.Value, e.MaturityHeight, w.Node)
		}
	}
	if err := mat.VerifyElements(L.CS, utxos, nil, nil); err != nil {
		add("audit:c06:proof", "a stored Merkle proof does not verify against the state of block %d (height %d): %v", w.Node, nd.Height, err)
	}
	// ---- events
	type key struct {
		id  types.Hash256
		blk int
	}
	ideal := map[key]Ev{}
	for _, b := range t.PathTo(w.Node) {
		for _, e := range o.View(b).Events {
			if !strings.HasPrefix(e.Tag, "impl:") {
				ideal[key{e.ID, b}] = e
			}
		}
	}
	var flow, neg types.Currency // sum of inflows, sum of outflows
	causes := map[string]bool{}
	var explainedMissing, explainedPhantom types.Currency
	got := map[key]bool{}
	onPath := map[int]bool{}
	for _, b := range t.PathTo(w.Node) {
		onPath[b] = true
	}
	for _, e := range w.events() {
		flow, neg = flow.Add(e.SiacoinInflow()), neg.Add(e.SiacoinOutflow())
		b, known := ids[e.Index.ID]
		k := key{e.ID, b}
		if got[k] {
			add("audit:c06:events:duplicate", "event %v of block %d stored twice", e.ID, b)
			continue
		}
		got[k] = true
		ie, ok := ideal[k]
		switch {
		case !known || !onPath[b]:
			add("audit:c06:events:leftover", "stored event %v (%s) belongs to block %d (%v), which is not on the chain ending at block %d", e.ID, e.Type, b, e.Index, w.Node)
		case !ok:
			// an event the property does not demand: is it the pinned rule's wrong-party event?
			why := ""
			for _, x := range o.View(b).Events {
				if x.ID == e.ID && strings.HasPrefix(x.Tag, "impl:") {
					why = strings.TrimPrefix(x.Tag, "impl:")
				}
			}
			if why != "" {
				causes[why] = true
				explainedPhantom = explainedPhantom.Add(e.SiacoinInflow())
				add("audit:c06:"+why+"-event:phantom", "block %d: stored %s event %v credits the wallet with %v although the created output pays another address", b, e.Type, e.ID, e.SiacoinInflow())
			} else {
				add("audit:c06:events:extra", "stored event %v (%s, block %d, in %v out %v) is not an event of the wallet address", e.ID, e.Type, b, e.SiacoinInflow(), e.SiacoinOutflow())
			}
		default:
			if evKind[e.Type] != ie.Kind {
				add("audit:c06:events:kind", "event %v of block %d has type %s, expected %s", e.ID, b, e.Type, ie.Kind)
			}
			if !e.SiacoinInflow().Equals(ie.In) || !e.SiacoinOutflow().Equals(ie.Out) {
				add("audit:c06:events:flow", "event %v (%s) of block %d: inflow/outflow %v/%v, the block says %v/%v", e.ID, e.Type, b, e.SiacoinInflow(), e.SiacoinOutflow(), ie.In, ie.Out)
			}
			if e.MaturityHeight != ie.Maturity {
				add("audit:c06:events:maturity", "event %v (%s) of block %d: maturity height %d, expected %d", e.ID, e.Type, b, e.MaturityHeight, ie.Maturity)
			}
			if e.Index.Height != t.Node(b).Height || !e.Timestamp.Equal(t.Node(b).Block.Timestamp) {
				add("audit:c06:events:index", "event %v of block %d carries index %v / timestamp %v", e.ID, b, e.Index, e.Timestamp)
			}
		}
	}
	var missKeys []key
	for k := range ideal {
		if !got[k] {
			missKeys = append(missKeys, k)
		}
	}
	sort.Slice(missKeys, func(i, j int) bool {
		if missKeys[i].blk != missKeys[j].blk {
			return missKeys[i].blk < missKeys[j].blk
		}
		return bytes.Compare(missKeys[i].id[:], missKeys[j].id[:]) < 0
	})
	for _, k := range missKeys {
		ie := ideal[k]
		if strings.HasPrefix(ie.Tag, "ideal:") {
			why := strings.TrimPrefix(ie.Tag, "ideal:")
			causes[why] = true
			explainedMissing = explainedMissing.Add(ie.In)
			add("audit:c06:"+why+"-event:missing", "block %d creates output %v (%s, %v) paying the wallet address; it is in the unspent set but no event records it", k.blk, k.id, ie.Kind, ie.In)
		} else {
			add("audit:c06:events:missing", "event %v (%s, in %v out %v) of best-chain block %d is not stored", k.id, ie.Kind, ie.In, ie.Out, k.blk)
		}
	}
	// ---- FlowBalance: sum of inflows - sum of outflows = sum of unspent outputs (exact)
	lhs, rhs := flow, neg.Add(sumU)
	if !lhs.Equals(rhs) {
		// is the gap exactly what the classified wrong-party events explain?
		if lhs.Add(explainedMissing).Equals(rhs.Add(explainedPhantom)) && len(causes) > 0 {
			var cs []string
			for c := range causes {
				cs = append(cs, c)
			}
			sort.Strings(cs)
			add("audit:c06:flow-balance:"+strings.Join(cs, "+"), "at block %d: sum of event inflows %v - outflows %v differs from the unspent outputs %v by exactly the payouts recorded for the wrong party (unrecorded %v, wrongly credited %v)", w.Node, flow, neg, sumU, explainedMissing, explainedPhantom)
		} else {
			add("audit:c06:flow-balance:unexplained", "at block %d: sum of event inflows %v - outflows %v != sum of unspent outputs %v", w.Node, flow, neg, sumU)
		}
	}
	// ---- Balance() against the ledger's partition by maturity at the tip height
	if atTip {
		bal, err := w.SW.Balance()
		if err != nil {
			add("audit:c06:balance:error", "Balance(): %v", err)
			return
		}
		var mature, immature types.Currency
		for _, e := range want {
			if e.MaturityHeight > nd.Height {
				immature = immature.Add(e.SiacoinOutput.Value)
			} else {
				mature = mature.Add(e.SiacoinOutput.Value)
			}
		}
		// a reorg puts the transactions of the reverted blocks back into the manager's pool; what they
		// spend is then not "spendable" and what they create is "unconfirmed" -- the statement is silent
		// about the pool, so those two components are compared only while the pool is empty
		poolEmpty := len(cm.PoolTransactions()) == 0 && len(cm.V2PoolTransactions()) == 0
		if !bal.Confirmed.Equals(mature) || !bal.Immature.Equals(immature) || bal.Spendable.Cmp(mature) > 0 ||
			(poolEmpty && (!bal.Spendable.Equals(mature) || !bal.Unconfirmed.IsZero())) {
			add("audit:c06:balance", "Balance() = spendable %v confirmed %v immature %v unconfirmed %v (pool empty: %v); the chain at height %d has mature %v immature %v", bal.Spendable, bal.Confirmed, bal.Immature, bal.Unconfirmed, poolEmpty, nd.Height, mature, immature)
		}
	}
	return
}
