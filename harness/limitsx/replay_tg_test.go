package limitsx

import (
	"context"
	"errors"
	"fmt"
	"net"
	"sort"
	"strings"
	"sync"
	"testing"
	"time"

	proto4 "go.sia.tech/core/rhp/v4"
	"go.sia.tech/core/types"
	"go.sia.tech/coreutils/chain"
	rhp4 "go.sia.tech/coreutils/rhp/v4"
	"go.sia.tech/coreutils/testutil"
	"go.sia.tech/coreutils/threadgroup"
	"go.sia.tech/coreutils/wallet"
	"go.uber.org/zap"
	"verifharness/hx"
	"verifharness/memnet"
)

// ---------------------------------------------------------------- Leg R, TG family

type tgObs struct {
	Live    []string `json:"live"`
	Done    []string `json:"done"`
	Refused []string `json:"refused"`
	Closed  bool     `json:"closed"`
	Closed2 bool     `json:"closed2"` // a second, overlapping Stop/Close has returned
}

func (o tgObs) String() string {
	return fmt.Sprintf("live=%v done=%v refused=%v closed=%v closed2=%v", o.Live, o.Done, o.Refused, o.Closed, o.Closed2)
}

type tgStep struct {
	Act struct {
		Op string `json:"op"`
		P  string `json:"p"`
	} `json:"act"`
	Obs tgObs `json:"obs"`
}

type tgReplayIn struct {
	CtxThreads []string   `json:"ctxThreads"` // threads that join with AddContext(parent); CancelParent cancels that parent
	Threads    []string   `json:"threads"`
	Paths      [][]tgStep `json:"paths"`
	Targets    []string   `json:"targets"` // "threadgroup", "rhp4", "stub-lateadd" (self-test)
}

// a tgTarget is something whose shutdown is a thread group
type tgTarget interface {
	add(t string)          // a thread asks to join (outcome observed later)
	done(t string)         // the thread finishes
	stop()                 // Stop / Close is called (asynchronously)
	stop2()                // Stop / Close is called a second time while the first call may still be waiting
	cancelParent(t string) // the parent context of t's AddContext is cancelled (no-op where members have none)
	observe() tgObs
	cleanup() bool
}

// ---- threadgroup.ThreadGroup used directly

type tgDirect struct {
	tg       *threadgroup.ThreadGroup
	mu       sync.Mutex
	state    map[string]string
	dones    map[string]func()
	ctxs     map[string]context.Context
	stopped  chan struct{}
	stopped2 chan struct{}
	n        int
	badCtx   string
	// threads that join with AddContext(parent): the parent and its cancel func
	parents map[string]context.Context
	cancels map[string]context.CancelFunc
}

func newTGDirect() *tgDirect {
	return &tgDirect{tg: threadgroup.New(), state: map[string]string{}, dones: map[string]func(){}, ctxs: map[string]context.Context{}, stopped: make(chan struct{}), stopped2: make(chan struct{})}
}

// withParents gives the listed threads a cancellable parent context for AddContext.
func (d *tgDirect) withParents(ts []string) *tgDirect {
	d.parents, d.cancels = map[string]context.Context{}, map[string]context.CancelFunc{}
	for _, t := range ts {
		d.parents[t], d.cancels[t] = context.WithCancel(context.Background())
	}
	return d
}

func (d *tgDirect) cancelParent(t string) {
	d.mu.Lock()
	cancel, ctx, live := d.cancels[t], d.ctxs[t], d.state[t] == "live"
	d.mu.Unlock()
	if cancel == nil {
		return
	}
	cancel()
	if live && ctx != nil {
		// the member's context must follow its parent
		select {
		case <-ctx.Done():
		case <-time.After(settleDeadline):
			d.mu.Lock()
			d.badCtx = "context of member " + t + " was not cancelled when its parent was"
			d.mu.Unlock()
		}
	}
}

func (d *tgDirect) add(t string) {
	d.mu.Lock()
	defer d.mu.Unlock()
	if parent, ok := d.parents[t]; ok {
		// AddContext with a parent that may already be cancelled: the thread still JOINS (and is handed a
		// cancelled context); what Add counted is given back by the returned func
		ctx, cancel, err := d.tg.AddContext(parent)
		switch {
		case err == nil:
			d.state[t] = "live"
			d.dones[t] = cancel
			d.ctxs[t] = ctx
			if parent.Err() != nil && ctx.Err() == nil {
				select {
				case <-ctx.Done():
				case <-time.After(settleDeadline):
					d.badCtx = "AddContext with a cancelled parent returned a live context"
				}
			}
		case errors.Is(err, threadgroup.ErrClosed):
			d.state[t] = "refused"
		default:
			d.state[t] = "errored(" + err.Error() + ")"
		}
		return
	}
	d.n++
	if d.n%2 == 0 { // alternate between the two ways of joining
		ctx, cancel, err := d.tg.AddContext(context.Background())
		if err != nil {
			if !errors.Is(err, threadgroup.ErrClosed) {
				d.badCtx = "AddContext returned " + err.Error()
			}
			d.state[t] = "refused"
			return
		}
		d.state[t] = "live"
		d.dones[t] = cancel
		d.ctxs[t] = ctx
		return
	}
	done, err := d.tg.Add()
	if err != nil {
		d.state[t] = "refused"
		return
	}
	d.state[t] = "live"
	d.dones[t] = done
}

func (d *tgDirect) done(t string) {
	d.mu.Lock()
	f := d.dones[t]
	d.state[t] = "done"
	d.mu.Unlock()
	f()
}

func (d *tgDirect) stop() {
	go func() { d.tg.Stop(); close(d.stopped) }()
	// Done() must fire, and the contexts of the members must be cancelled, as soon as Stop has begun
	select {
	case <-d.tg.Done():
	case <-time.After(settleDeadline):
		d.mu.Lock()
		d.badCtx = "ThreadGroup.Done() did not fire after Stop was called"
		d.mu.Unlock()
	}
	d.mu.Lock()
	ctxs := map[string]context.Context{}
	for k, v := range d.ctxs {
		if d.state[k] == "live" {
			ctxs[k] = v
		}
	}
	d.mu.Unlock()
	for k, c := range ctxs {
		select {
		case <-c.Done():
		case <-time.After(settleDeadline):
			d.mu.Lock()
			d.badCtx = "context of member " + k + " was not cancelled by Stop"
			d.mu.Unlock()
		}
	}
}

func (d *tgDirect) stop2() {
	go func() { d.tg.Stop(); close(d.stopped2) }()
}

func (d *tgDirect) observe() tgObs {
	d.mu.Lock()
	defer d.mu.Unlock()
	o := tgObs{Live: []string{}, Done: []string{}, Refused: []string{}}
	for t, s := range d.state {
		switch s {
		case "live":
			o.Live = append(o.Live, t)
		case "done":
			o.Done = append(o.Done, t)
		case "refused":
			o.Refused = append(o.Refused, t)
		default:
			o.Refused = append(o.Refused, "!"+t+":"+s) // neither joined nor refused by a closed group
		}
	}
	sort.Strings(o.Live)
	sort.Strings(o.Done)
	sort.Strings(o.Refused)
	select {
	case <-d.stopped:
		o.Closed = true
	default:
	}
	select {
	case <-d.stopped2:
		o.Closed2 = true
	default:
	}
	if d.badCtx != "" {
		o.Refused = append(o.Refused, "!"+d.badCtx)
	}
	return o
}

func (d *tgDirect) cleanup() bool {
	d.mu.Lock()
	var fs []func()
	for t, s := range d.state {
		if s == "live" {
			fs = append(fs, d.dones[t])
			d.state[t] = "done"
		}
	}
	d.mu.Unlock()
	for _, f := range fs {
		f()
	}
	done := make(chan struct{})
	go func() { d.tg.Stop(); close(done) }()
	select {
	case <-done:
		return true
	case <-time.After(20 * time.Second):
		return false
	}
}

// ---- self-test stub: a thread group whose Add tests `closed` first and joins later (DevAddUnlocked):
// a thread that asked before Stop but joins after it is admitted although Stop has begun.

type tgStub struct{ *tgDirect }

func (d tgStub) add(t string) {
	d.mu.Lock()
	defer d.mu.Unlock()
	// wrong on purpose: never refuses
	d.state[t] = "live"
	d.dones[t] = func() {}
}

// ---- rhp4.Server: a member = the goroutine of one stream, gated inside Settings.RHP4Settings

type gateSettings struct {
	mu      sync.Mutex
	entries []chan struct{}
	hs      proto4.HostSettings
	credits int       // releaseNext calls that found nothing to release
	next    int       // first entry not yet released by releaseNext
	onEnter func(int) // called under mu when a handler reaches the gate
	onExit  func(int) // called just before the handler returns
}

func (g *gateSettings) RHP4Settings() proto4.HostSettings {
	g.mu.Lock()
	ch := make(chan struct{})
	k := len(g.entries)
	g.entries = append(g.entries, ch)
	if g.onEnter != nil {
		g.onEnter(k)
	}
	if g.credits > 0 && g.next == k {
		g.credits--
		g.next++
		close(ch)
	}
	g.mu.Unlock()
	<-ch
	g.mu.Lock()
	if g.onExit != nil {
		g.onExit(k)
	}
	g.mu.Unlock()
	return g.hs
}

// releaseNext lets the oldest handler that is still gated return (or the next one to come).
func (g *gateSettings) releaseNext() {
	g.mu.Lock()
	defer g.mu.Unlock()
	for g.next < len(g.entries) {
		ch := g.entries[g.next]
		g.next++
		select {
		case <-ch: // already released
		default:
			close(ch)
			return
		}
	}
	g.credits++
}

func (g *gateSettings) numEntries() int { g.mu.Lock(); defer g.mu.Unlock(); return len(g.entries) }
func (g *gateSettings) release(i int) {
	g.mu.Lock()
	ch := g.entries[i]
	g.mu.Unlock()
	select {
	case <-ch:
	default:
		close(ch)
	}
}

type tgRHP4 struct {
	srv      *rhp4.Server
	net      *memnet.Net
	gs       *gateSettings
	w        *wallet.SingleAddressWallet
	served   chan error
	stopped  chan struct{}
	stopped2 chan struct{}
	stopOnce sync.Once

	mu      sync.Mutex
	entryOf map[string]int    // thread -> index of its Settings entry
	result  map[string]string // thread -> "done" | "refused" | "error: ..."
}

func newTGRHP4() (*tgRHP4, error) {
	n, genesis := testutil.V2Network()
	db, ts, err := chain.NewDBStore(chain.NewMemDB(), n, genesis, nil)
	if err != nil {
		return nil, err
	}
	cm := chain.NewManager(db, ts)
	w, err := wallet.NewSingleAddressWallet(types.GeneratePrivateKey(), cm, testutil.NewEphemeralWalletStore(), &testutil.MockSyncer{})
	if err != nil {
		return nil, err
	}
	hk := types.GeneratePrivateKey()
	gs := &gateSettings{}
	srv := rhp4.NewServer(hk, cm, testutil.NewEphemeralContractor(cm), w, gs, testutil.NewEphemeralSectorStore())
	r := &tgRHP4{srv: srv, net: memnet.New(hk.PublicKey()), gs: gs, w: w, served: make(chan error, 1), stopped: make(chan struct{}), stopped2: make(chan struct{}),
		entryOf: map[string]int{}, result: map[string]string{}}
	go func() { r.served <- srv.Serve(r.net, zap.NewNop()) }()
	return r, nil
}

func (r *tgRHP4) add(t string) {
	pre := r.gs.numEntries()
	s, err := r.net.DialStream(context.Background())
	if err != nil {
		r.mu.Lock()
		r.result[t] = "error: " + err.Error()
		r.mu.Unlock()
		return
	}
	s.SetDeadline(time.Now().Add(5 * time.Minute))
	// net.Pipe is unbuffered: a refused stream is answered before the request is read, so the
	// request is written concurrently with reading the response
	go proto4.WriteRequest(s, proto4.RPCSettingsID, nil)
	go func() {
		defer s.Close()
		var resp proto4.RPCSettingsResponse
		err := proto4.ReadResponse(s, &resp)
		r.mu.Lock()
		defer r.mu.Unlock()
		switch {
		case err == nil:
			r.result[t] = "done"
		case strings.Contains(err.Error(), "shutting down"):
			r.result[t] = "refused"
		default:
			r.result[t] = "error: " + err.Error()
		}
	}()
	// either the handler reaches the gate (live) or the stream is refused
	waitFor(settleDeadline, func() bool {
		r.mu.Lock()
		_, ok := r.result[t]
		r.mu.Unlock()
		return ok || r.gs.numEntries() > pre
	})
	if r.gs.numEntries() > pre {
		r.mu.Lock()
		r.entryOf[t] = pre
		r.mu.Unlock()
	}
}

func (r *tgRHP4) done(t string) {
	r.mu.Lock()
	i, ok := r.entryOf[t]
	r.mu.Unlock()
	if ok {
		r.gs.release(i)
	}
}

func (r *tgRHP4) stop() {
	r.stopOnce.Do(func() { go func() { r.srv.Close(); close(r.stopped) }() })
}

func (r *tgRHP4) cancelParent(string) {} // rhp4.Server members join with Add: no parent context

func (r *tgRHP4) stop2() {
	go func() { r.srv.Close(); close(r.stopped2) }()
}

func (r *tgRHP4) observe() tgObs {
	r.mu.Lock()
	defer r.mu.Unlock()
	o := tgObs{Live: []string{}, Done: []string{}, Refused: []string{}}
	for t := range r.entryOf {
		if _, fin := r.result[t]; !fin {
			o.Live = append(o.Live, t)
		}
	}
	for t, res := range r.result {
		switch res {
		case "done":
			o.Done = append(o.Done, t)
		case "refused":
			o.Refused = append(o.Refused, t)
		default:
			o.Refused = append(o.Refused, "!"+t+":"+res)
		}
	}
	sort.Strings(o.Live)
	sort.Strings(o.Done)
	sort.Strings(o.Refused)
	select {
	case <-r.stopped:
		o.Closed = true
	default:
	}
	select {
	case <-r.stopped2:
		o.Closed2 = true
	default:
	}
	return o
}

func (r *tgRHP4) cleanup() bool {
	for i := 0; i < r.gs.numEntries(); i++ {
		r.gs.release(i)
	}
	r.stop()
	ok := true
	select {
	case <-r.stopped:
	case <-time.After(20 * time.Second):
		ok = false
	}
	r.net.Close()
	select {
	case <-r.served:
	case <-time.After(20 * time.Second):
		ok = false
	}
	r.w.Close()
	return ok
}

var _ net.Conn

func newTGTarget(kind string, ctxThreads []string) (tgTarget, error) {
	switch kind {
	case "threadgroup":
		return newTGDirect().withParents(ctxThreads), nil
	case "rhp4":
		return newTGRHP4()
	case "stub-lateadd":
		return tgStub{newTGDirect()}, nil
	}
	return nil, fmt.Errorf("unknown target %q", kind)
}

func runTGPath(kind string, path []tgStep, res *hx.Result, ctxThreads []string) (sig, desc string, at int) {
	tgt, err := newTGTarget(kind, ctxThreads)
	if err != nil {
		return "infra", err.Error(), -1
	}
	defer func() {
		if !tgt.cleanup() && sig == "" {
			sig, desc, at = "replay:tg:"+kind+":close-hangs", "Stop/Close did not return within 20 s after every member had finished", len(path)
		}
	}()
	for i, st := range path {
		switch st.Act.Op {
		case "ThAdd", "ThRefuse":
			tgt.add(st.Act.P)
		case "ThDone":
			tgt.done(st.Act.P)
		case "StopBegin":
			tgt.stop()
		case "Stop2Begin":
			tgt.stop2()
		case "CancelParent":
			tgt.cancelParent(st.Act.P)
		default:
			return "infra", "unknown action " + st.Act.Op, i
		}
		res.Eval(kind + "|" + st.Act.Op + "." + st.Act.P + "|" + st.Obs.String())
		var got tgObs
		ok := waitFor(settleDeadline, func() bool { got = tgt.observe(); return got.String() == st.Obs.String() })
		if ok {
			time.Sleep(stableWindow)
			got = tgt.observe()
			ok = got.String() == st.Obs.String()
		}
		if !ok {
			what := "state"
			switch {
			case got.Closed && !st.Obs.Closed:
				what = "stop-returned-early"
			case got.Closed2 && !st.Obs.Closed2:
				what = "second-stop-returned-early"
			case !got.Closed && st.Obs.Closed:
				what = "stop-not-returned"
			case len(got.Live) > len(st.Obs.Live):
				what = "joined-after-stop"
			}
			return "replay:tg:" + kind + ":" + st.Act.Op + ":" + what, fmt.Sprintf("after %s(%s) the %s shows %s, the specification says %s", st.Act.Op, st.Act.P, kind, got, st.Obs), i
		}
	}
	return "", "", 0
}

// TestReplayTG steps a threadgroup.ThreadGroup and an rhp4.Server (over the in-memory transport)
// through the cover of the eager TG graph: ThAdd = Add()/a new stream, ThDone = done()/the gated
// handler returns, StopBegin = Stop()/Close() is called; Stop must return exactly when the
// specification's StopReturn is taken, and members asking later must be refused.
func TestReplayTG(t *testing.T) {
	res := hx.NewResult()
	defer res.Write()
	var in tgReplayIn
	if err := hx.ReadIn(&in); err != nil {
		t.Fatal(err)
	}
	if len(in.Targets) == 0 {
		in.Targets = []string{"threadgroup", "rhp4"}
	}
	var wg sync.WaitGroup
	sem := make(chan struct{}, 8)
	for _, kind := range in.Targets {
		for pi, p := range in.Paths {
			wg.Add(1)
			sem <- struct{}{}
			go func(kind string, p []tgStep, pi int) {
				defer wg.Done()
				defer func() { <-sem }()
				sig, desc, at := runTGPath(kind, p, res, in.CtxThreads)
				if sig != "" && sig != "infra" {
					sig, desc, at = runTGPath(kind, p, res, in.CtxThreads)
				}
				if sig == "infra" {
					res.Note("tg path %d: %s", pi, desc)
					res.Count("infra", 1)
					return
				}
				if sig != "" {
					upto := at + 1
					if upto > len(p) {
						upto = len(p)
					}
					res.Mismatch(sig, fmt.Sprintf("%s path %d step %d: %s", kind, pi, at, desc), map[string]any{"kind": "tg-path", "target": kind, "threads": in.Threads, "ctxThreads": in.CtxThreads, "path": p[:upto]})
				}
				res.Count("paths", 1)
				if pi == 0 && kind == in.Targets[0] {
					res.Sample(map[string]any{"target": kind, "path": p})
				}
			}(kind, p, pi)
		}
	}
	wg.Wait()
	res.Count("targets", len(in.Targets))
}
