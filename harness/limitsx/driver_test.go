package limitsx

import (
	"context"
	"fmt"
	"math/rand"
	"net"
	"os"
	"path/filepath"
	"strings"
	"sync"
	"sync/atomic"
	"testing"
	"time"

	"go.sia.tech/core/gateway"
	proto4 "go.sia.tech/core/rhp/v4"
	"go.sia.tech/coreutils/threadgroup"
	"verifharness/hx"
)

// ---------------------------------------------------------------- Leg T driver

const (
	closeDeadline = 30 * time.Second // generous: a Close that needs longer with every handler released is stuck
	maxRpcPerPeer = 8                // NRpc of spec/cfg/LimitsTrace_run.cfg
	maxTracePeers = 8
)

type shardWriter struct {
	mu sync.Mutex
	tw *hx.TraceWriter
}

func (sw *shardWriter) write(evs []Event) {
	sw.mu.Lock()
	defer sw.mu.Unlock()
	for _, e := range evs {
		sw.tw.Emit(e)
	}
}

func limMap(maxInflight, maxSubnet, maxIn, maxOut int, subnetOf func(p int) string) map[string]any {
	sub := map[string]string{}
	for p := 1; p <= maxTracePeers; p++ {
		sub[pname(p)] = subnetOf(p)
	}
	return map[string]any{"maxInflight": maxInflight, "maxSubnet": maxSubnet, "maxIn": maxIn, "maxOut": maxOut, "sub": sub}
}

// ---- RPC load with Close at a random moment

type rpcRunStats struct {
	rpcs, entered, answered, failed int
	nrpcs                           atomic.Int64
	desc                            map[string]any
}

// rpcRun drives one real syncer: bursts of tagged RPCs from 1-8 raw peers spread over subnets,
// handlers released after random delays, optional quiescent points, some peers hanging up, and
// Close at a random moment (possibly in the middle of a burst).  Returns the recorded events.
func rpcRun(rng *rand.Rand, res *hx.Result, runNo int) ([]Event, *rpcRunStats, error) {
	npeers := 1 + rng.Intn(maxTracePeers)
	maxInflight := 1 + rng.Intn(3)
	maxSubnet := []int{-1, 0, 1, 2, 2, 3, 4}[rng.Intn(7)]
	// at most 3 peers per subnet
	nsub := (npeers + 2) / 3
	if extra := rng.Intn(3); nsub+extra <= npeers {
		nsub += extra
	}
	assign := make([]int, npeers+1)
	count := make([]int, nsub)
	for p := 1; p <= npeers; p++ {
		for {
			s := rng.Intn(nsub)
			if count[s] < 3 {
				assign[p] = s
				count[s]++
				break
			}
		}
	}
	subnetOf := func(p int) string {
		if p >= 1 && p <= npeers {
			return fmt.Sprintf("s%d", assign[p]+1)
		}
		return fmt.Sprintf("s%d", (p-1)%8+1)
	}
	// the peer -> subnet map is realised with real addresses under a configured prefix length: distinct
	// addresses inside one /24 or /16, one shared address under /32, or (nobody shares) neighbours under /32
	smap := map[string]string{}
	for p := 1; p <= npeers; p++ {
		smap[pname(p)] = subnetOf(p)
	}
	plans := plansFor(smap)
	plan := plans[rng.Intn(len(plans))]
	res.Count("plan_"+string(plan), 1)
	nd, err := newNode(nodeCfg{Prefix4: plan.bits(), MaxInflight: maxInflight, MaxSubnet: maxSubnet, MaxIn: 64, MaxOut: 0, SubnetOf: subnetOf})
	if err != nil {
		return nil, nil, err
	}
	rec := nd.rec
	clients := make([]*client, npeers+1)
	for p := 1; p <= npeers; p++ {
		c := newClient(p, plan.peerIP(assign[p], p), 21000+p, nd.genesis)
		if err := c.connect(nd.s.Addr()); err != nil {
			return nil, nil, err
		}
		if err := c.shake(); err != nil {
			return nil, nil, err
		}
		clients[p] = c
	}
	if !waitFor(20*time.Second, func() bool { return nd.inboundPeers() == npeers }) {
		return nil, nil, fmt.Errorf("only %d of %d peers were added", nd.inboundPeers(), npeers)
	}
	rec.emit(Event{Op: "Reset", Fam: "rpc", N: npeers, Lim: limMap(maxInflight, maxSubnet, 64, 0, subnetOf), Tag: fmt.Sprintf("run%d", runNo)})

	stats := &rpcRunStats{}
	var wgOut sync.WaitGroup // outstanding client outcomes
	nextR := make([]int, npeers+1)
	muted := make([]atomic.Bool, npeers+1) // peer hung up: its outcomes are no longer logged
	var relWG sync.WaitGroup

	// send issues the next RPC of peer p (called from ONE goroutine per peer and burst, so the
	// Arrive lines of a peer are in the order in which its streams are opened)
	send := func(p int, holdMs int) bool {
		if nextR[p] >= maxRpcPerPeer {
			return false
		}
		nextR[p]++
		r := nextR[p]
		stats.nrpcs.Add(1)
		rec.emit(Event{Op: "Arrive", P: pname(p), R: r})
		wgOut.Add(1)
		clients[p].send(r, func(o string) {
			defer wgOut.Done()
			if muted[p].Load() {
				return
			}
			if o == "answered" {
				rec.emit(Event{Op: "Answered", P: pname(p), R: r})
			} else {
				rec.emit(Event{Op: "Failed", P: pname(p), R: r})
			}
		})
		// the handler (if the RPC gets one) is released after holdMs
		relWG.Add(1)
		go func() {
			defer relWG.Done()
			time.Sleep(time.Duration(holdMs) * time.Millisecond)
			nd.cm.release(p, r)
		}()
		return true
	}

	nbursts := 1 + rng.Intn(4)
	stopAtBurst := rng.Intn(nbursts + 1) // == nbursts: Close after the last burst
	stopMid := rng.Intn(2) == 0
	closed := make(chan struct{})
	var closeStart time.Time
	second := rng.Intn(2) == 0 // a second Close overlaps the first
	secondDelay := time.Duration(rng.Intn(4000)) * time.Microsecond
	closed2 := make(chan struct{})
	doClose := func() {
		rec.emit(Event{Op: "StopCall", Fam: "rpc"})
		closeStart = time.Now()
		go func() {
			nd.s.Close()
			rec.emit(Event{Op: "StopReturn"})
			close(closed)
		}()
		if second {
			go func() {
				time.Sleep(secondDelay)
				rec.emit(Event{Op: "Stop2Call"})
				nd.s.Close()
				rec.emit(Event{Op: "Stop2Return"})
				close(closed2)
			}()
		} else {
			close(closed2)
		}
	}
	stopped := false
	for b := 0; b < nbursts; b++ {
		if b == stopAtBurst && !stopMid {
			doClose()
			stopped = true
		}
		var bw sync.WaitGroup
		for p := 1; p <= npeers; p++ {
			if rng.Intn(3) == 0 {
				continue
			}
			k := 1 + rng.Intn(3)
			holds := make([]int, k)
			for i := range holds {
				holds[i] = rng.Intn(12)
			}
			jitter := rng.Intn(3)
			bw.Add(1)
			go func(p, k int) {
				defer bw.Done()
				time.Sleep(time.Duration(jitter) * time.Millisecond)
				for i := 0; i < k; i++ {
					if !send(p, holds[i]) {
						return
					}
				}
			}(p, k)
		}
		if b == stopAtBurst && stopMid {
			time.Sleep(time.Duration(rng.Intn(6)) * time.Millisecond)
			doClose()
			stopped = true
		}
		bw.Wait()
		// a peer may hang up in the middle of things
		if !stopped && rng.Intn(6) == 0 {
			p := 1 + rng.Intn(npeers)
			if !muted[p].Load() {
				muted[p].Store(true)
				rec.emit(Event{Op: "Disconnect", P: pname(p)})
				clients[p].close()
			}
		}
		// quiescent point between bursts: everything sent has been settled and the counters are back
		if !stopped && rng.Intn(2) == 0 {
			relWG.Wait()
			done := make(chan struct{})
			go func() { wgOut.Wait(); close(done) }()
			select {
			case <-done:
			case <-time.After(closeDeadline):
				res.Mismatch("driver:rpc:rpc-never-settled", fmt.Sprintf("run %d: with every handler released some RPC got neither a response nor an error within %v", runNo, closeDeadline), stats.desc)
			}
			n := -1
			waitFor(settleDeadline, func() bool {
				n = 0
				for _, v := range nd.s.VerifInflightSubnet() {
					n += v
				}
				return n == 0 && len(nd.cm.insideSet()) == 0
			})
			rec.emit(Event{Op: "Quiesce", N: n})
		}
	}
	if !stopped {
		time.Sleep(time.Duration(rng.Intn(8)) * time.Millisecond)
		doClose()
	}
	relWG.Wait()
	select {
	case <-closed:
	case <-time.After(closeDeadline):
		res.Mismatch("driver:rpc:close-hangs", fmt.Sprintf("run %d: Syncer.Close did not return within %v although every handler had been released\n%s", runNo, closeDeadline, syncerStacks()), nil)
		for p := 1; p <= npeers; p++ {
			clients[p].close()
		}
		<-closed
	}
	select {
	case <-closed2:
	case <-time.After(closeDeadline):
		res.Mismatch("driver:rpc:second-close-hangs", fmt.Sprintf("run %d: a second, overlapping Syncer.Close did not return within %v", runNo, closeDeadline), nil)
		<-closed2
	}
	res.Count("close_us", int(time.Since(closeStart).Microseconds()))
	// work after Close: an RPC on a surviving transport must be refused
	if rng.Intn(2) == 0 {
		p := 1 + rng.Intn(npeers)
		if !muted[p].Load() && nextR[p] < maxRpcPerPeer {
			send(p, 0)
		}
	}
	fin := make(chan struct{})
	go func() { wgOut.Wait(); close(fin) }()
	select {
	case <-fin:
	case <-time.After(closeDeadline):
		res.Mismatch("driver:rpc:client-never-notified", fmt.Sprintf("run %d: after Close returned some client still waits for an RPC", runNo), nil)
	}
	for p := 1; p <= npeers; p++ {
		clients[p].close()
	}
	// hard limits, straight from the gate's high-water marks
	nd.cm.mu.Lock()
	for p, n := range nd.cm.maxPeer {
		if n > maxInflight {
			res.Mismatch("driver:rpc:per-peer-cap-exceeded", fmt.Sprintf("run %d: %d handlers of %s at once, limit %d", runNo, n, pname(p), maxInflight), nil)
		}
	}
	if maxSubnet > 0 {
		for s, n := range nd.cm.maxSub {
			if n > maxSubnet {
				res.Mismatch("driver:rpc:per-subnet-cap-exceeded", fmt.Sprintf("run %d: %d handlers of subnet %s at once, limit %d", runNo, n, s, maxSubnet), nil)
			}
		}
	}
	stats.entered = len(nd.cm.entered)
	nd.cm.mu.Unlock()
	stats.rpcs = int(stats.nrpcs.Load())
	evs := rec.snapshot()
	for _, e := range evs {
		switch e.Op {
		case "Answered":
			stats.answered++
		case "Failed":
			stats.failed++
		}
	}
	stats.desc = map[string]any{"peers": npeers, "maxInflight": maxInflight, "maxSubnet": maxSubnet, "addresses": plan, "subnets": nsub, "bursts": nbursts, "rpcs": stats.rpcs}
	return evs, stats, nil
}

// ---- connection storm

// connRun: up to 6 raw connections race for a small inbound cap, some hang up, Close comes at a
// random moment.  Returns the events and the largest number of inbound peers seen.
func connRun(rng *rand.Rand, res *hx.Result, runNo int) ([]Event, int, int, error) {
	nconn := 2 + rng.Intn(5)
	maxIn := rng.Intn(4)
	nd, err := newNode(nodeCfg{MaxInflight: 4, MaxSubnet: 0, MaxIn: maxIn, MaxOut: 0})
	if err != nil {
		return nil, 0, 0, err
	}
	rec := nd.rec
	ipName := map[string]string{}
	for c := 1; c <= nconn; c++ {
		ipName[fmt.Sprintf("127.0.2.%d", c)] = fmt.Sprintf("c%d", c)
	}
	nd.ps.mu.Lock()
	nd.ps.name = func(addr string) string {
		host := addr
		if i := strings.LastIndex(addr, ":"); i >= 0 {
			host = addr[:i]
		}
		return ipName[host]
	}
	nd.ps.mu.Unlock()
	rec.emit(Event{Op: "Reset", Fam: "conn", N: 0, Lim: limMap(4, 0, maxIn, 0, func(p int) string { return fmt.Sprintf("s%d", (p-1)%8+1) }), Tag: fmt.Sprintf("conn%d", runNo)})

	var maxSeen atomic.Int32
	stopSample := make(chan struct{})
	var sampler sync.WaitGroup
	sampler.Add(1)
	go func() {
		defer sampler.Done()
		for {
			select {
			case <-stopSample:
				return
			default:
			}
			if n := int32(nd.inboundPeers()); n > maxSeen.Load() {
				maxSeen.Store(n)
			}
			time.Sleep(200 * time.Microsecond)
		}
	}()

	var wg sync.WaitGroup
	clients := make([]*client, nconn+1)
	var cmu sync.Mutex
	simultaneous := rng.Intn(2) == 0
	start := make(chan struct{})
	for c := 1; c <= nconn; c++ {
		d1, d2, d3 := rng.Intn(4), rng.Intn(4), rng.Intn(20)
		hang := rng.Intn(3) == 0
		wg.Add(1)
		go func(c int) {
			defer wg.Done()
			name := fmt.Sprintf("c%d", c)
			cl := newClient(c, fmt.Sprintf("127.0.2.%d", c), 31000+c, nd.genesis)
			cmu.Lock()
			clients[c] = cl
			cmu.Unlock()
			<-start
			if !simultaneous {
				time.Sleep(time.Duration(d1) * time.Millisecond)
			}
			if err := cl.connect(nd.s.Addr()); err != nil {
				rec.emit(Event{Op: "Refused", P: name})
				return
			}
			time.Sleep(time.Duration(d2) * time.Millisecond)
			if serverClosed(cl.conn) {
				// the syncer turned the connection away before the handshake; if allowConnect never ran
				// (accepted during shutdown) there is no AllowCheck line and the line below is not written
				if nd.ps.sawCheck(fmt.Sprintf("127.0.2.%d", c)) {
					rec.emit(Event{Op: "Rejected", P: name})
				}
				return
			}
			cl.conn.SetDeadline(time.Now().Add(20 * time.Second))
			if err := cl.shake(); err != nil {
				rec.emit(Event{Op: "Hangup", P: name})
				cl.close()
				return
			}
			if hang {
				time.Sleep(time.Duration(d3) * time.Millisecond)
				rec.emit(Event{Op: "Hangup", P: name})
				cl.close()
			}
		}(c)
	}
	close(start)
	time.Sleep(time.Duration(rng.Intn(15)) * time.Millisecond)
	closed := make(chan struct{})
	rec.emit(Event{Op: "StopCall"})
	go func() {
		nd.s.Close()
		rec.emit(Event{Op: "StopReturn"})
		close(closed)
	}()
	wg.Wait()
	stuck := 0
	select {
	case <-closed:
	case <-time.After(3 * time.Second):
		// Close waits for somebody: once every remote has hung up it must return
		stuck = 1
		peers := nd.inboundPeers()
		for c := 1; c <= nconn; c++ {
			if clients[c] != nil {
				rec.emit(Event{Op: "Hangup", P: fmt.Sprintf("c%d", c)})
				clients[c].close()
			}
		}
		select {
		case <-closed:
			if peers > 0 {
				res.Mismatch("driver:conn:close-blocked-by-unswept-peer", fmt.Sprintf("conn run %d: Syncer.Close did not return for 3 s while %d peer(s) stayed connected, and returned as soon as the remotes hung up: the peers were inserted after Run's teardown and nobody closes them", runNo, peers), nil)
			} else {
				res.Note("conn run %d: Close needed the remotes to hang up (half-open handshakes)", runNo)
				stuck = 0
			}
		case <-time.After(closeDeadline):
			res.Mismatch("driver:conn:close-hangs", fmt.Sprintf("conn run %d: Syncer.Close does not return although every remote has hung up\n%s", runNo, syncerStacks()), nil)
			return nil, 0, 0, fmt.Errorf("close hangs")
		}
	}
	close(stopSample)
	sampler.Wait()
	for c := 1; c <= nconn; c++ {
		if clients[c] != nil {
			clients[c].close()
		}
	}
	lim := maxIn
	seen := int(maxSeen.Load())
	if seen > lim {
		res.Mismatch("driver:conn:inbound-cap-exceeded", fmt.Sprintf("conn run %d: %d inbound peers were connected at once, WithMaxInboundPeers(%d), %d connections attempted", runNo, seen, maxIn, nconn), nil)
	}
	return rec.snapshot(), seen, stuck, nil
}

func (g *gatePS) sawCheck(host string) bool {
	g.mu.Lock()
	defer g.mu.Unlock()
	for _, h := range g.checks {
		if h == host {
			return true
		}
	}
	return false
}

// ---- the cap race as probed: N peers connect at once against a small cap

func capStorm(nconn, maxIn int, staged bool) (int, error) {
	nd, err := newNode(nodeCfg{MaxInflight: 4, MaxSubnet: 0, MaxIn: maxIn, MaxOut: 0})
	if err != nil {
		return 0, err
	}
	defer nd.shutdown(closeDeadline)
	clients := make([]*client, nconn)
	for i := range clients {
		clients[i] = newClient(i+1, fmt.Sprintf("127.0.3.%d", i+1), 32000+i, nd.genesis)
	}
	defer func() {
		for _, c := range clients {
			c.close()
		}
	}()
	var wg sync.WaitGroup
	if staged {
		// every connection passes allowConnect before any handshake starts (deterministic)
		for _, c := range clients {
			pre := nd.ps.numChecks()
			if err := c.connect(nd.s.Addr()); err != nil {
				return 0, err
			}
			if !waitFor(settleDeadline, func() bool { return nd.ps.numChecks() > pre }) {
				return 0, fmt.Errorf("allowConnect did not run")
			}
			nd.s.Peers()
		}
		for _, c := range clients {
			wg.Add(1)
			go func(c *client) { defer wg.Done(); c.shake() }(c)
		}
	} else {
		start := make(chan struct{})
		for _, c := range clients {
			wg.Add(1)
			go func(c *client) {
				defer wg.Done()
				<-start
				if c.connect(nd.s.Addr()) == nil {
					c.conn.SetDeadline(time.Now().Add(20 * time.Second))
					c.shake()
				}
			}(c)
		}
		close(start)
	}
	wg.Wait()
	max := 0
	waitFor(300*time.Millisecond, func() bool {
		if n := nd.inboundPeers(); n > max {
			max = n
		}
		return false
	})
	return max, nil
}

// ---- thread group / rhp4.Server under random load

func tgRandomRun(rng *rand.Rand, kind string, res *hx.Result, runNo int) ([]Event, error) {
	rec := &recorder{}
	rec.emit(Event{Op: "Reset", Fam: "tg", Lim: limMap(1, 0, 0, 0, func(p int) string { return "s1" }), Tag: fmt.Sprintf("%s%d", kind, runNo)})
	nthreads := 2 + rng.Intn(11)
	var wg sync.WaitGroup
	switch kind {
	case "threadgroup":
		tg := threadgroup.New()
		for i := 1; i <= nthreads; i++ {
			d1, d2 := rng.Intn(6), rng.Intn(6)
			useCtx, untilStop := rng.Intn(2) == 0, rng.Intn(2) == 0
			// the parent context of AddContext: never cancelled, ALREADY cancelled (or past its deadline) when the
			// thread joins, cancelled while it is a member, cancelled after it has left
			parentMode := rng.Intn(5)
			cancelAfter := time.Duration(rng.Intn(5000)) * time.Microsecond
			wg.Add(1)
			go func(i int) {
				defer wg.Done()
				name := fmt.Sprintf("t%d", i)
				time.Sleep(time.Duration(d1) * time.Millisecond)
				var done func()
				var err error
				var ctx context.Context
				if useCtx {
					parent, cancelParent := context.WithCancel(context.Background())
					var pOnce sync.Once
					cancelP := func() {
						pOnce.Do(func() { rec.emit(Event{Op: "CancelParent", P: name}); cancelParent() })
					}
					defer cancelP()
					switch parentMode {
					case 1:
						cancelP()
					case 2: // a deadline that has already passed
						rec.emit(Event{Op: "CancelParent", P: name})
						pOnce.Do(func() {})
						var c2 context.CancelFunc
						parent, c2 = context.WithDeadline(context.Background(), time.Now().Add(-time.Second))
						defer c2()
						defer cancelParent()
					case 3, 4:
						wg.Add(1)
						go func() { defer wg.Done(); time.Sleep(cancelAfter); cancelP() }()
					}
					ctx, done, err = tg.AddContext(parent)
				} else {
					done, err = tg.Add()
				}
				rec.emit(Event{Op: "ThAdd", P: name, OK: err == nil})
				if err != nil {
					if err != threadgroup.ErrClosed {
						res.Mismatch("driver:tg:add-error", fmt.Sprintf("tg run %d: AddContext/Add on an open group returned %q (parent mode %d): whatever Add counted is never given back", runNo, err.Error(), parentMode), nil)
					}
					return
				}
				if useCtx && untilStop {
					// a member that works until it is told to stop
					select {
					case <-ctx.Done():
					case <-time.After(time.Duration(d2) * time.Millisecond):
					}
				} else {
					time.Sleep(time.Duration(d2) * time.Millisecond)
				}
				rec.emit(Event{Op: "ThDone", P: name})
				done()
			}(i)
		}
		time.Sleep(time.Duration(rng.Intn(8)) * time.Millisecond)
		nstop := 1 + rng.Intn(2) // Stop may be called twice
		for k := 0; k < nstop; k++ {
			wg.Add(1)
			go func(k int) {
				defer wg.Done()
				// both Stops must wait: nobody may be live when EITHER returns
				if k == 0 {
					rec.emit(Event{Op: "StopCall"})
				} else {
					time.Sleep(time.Duration(300*k) * time.Microsecond)
					rec.emit(Event{Op: "Stop2Call"})
				}
				tg.Stop()
				if k == 0 {
					rec.emit(Event{Op: "StopReturn"})
				} else {
					rec.emit(Event{Op: "Stop2Return"})
				}
			}(k)
		}
		done := make(chan struct{})
		go func() { wg.Wait(); close(done) }()
		select {
		case <-done:
		case <-time.After(closeDeadline):
			res.Mismatch("driver:tg:stop-hangs", fmt.Sprintf("tg run %d: every member has called its done func, yet ThreadGroup.Stop has not returned within %v", runNo, closeDeadline), nil)
			return renameThreads(rec.snapshot()), nil
		}
	case "rhp4":
		r, err := newTGRHP4()
		if err != nil {
			return nil, err
		}
		// the gate logs entry/exit itself in this mode
		closed := make(chan struct{})
		// handlers are anonymous: the gate logs them as they come, named by arrival order
		r.gs.mu.Lock()
		r.gs.onEnter = func(k int) { rec.emit(Event{Op: "ThAdd", P: fmt.Sprintf("e%d", k), OK: true}) }
		r.gs.onExit = func(k int) { rec.emit(Event{Op: "ThDone", P: fmt.Sprintf("e%d", k)}) }
		r.gs.mu.Unlock()
		for i := 1; i <= nthreads; i++ {
			d1, hold := rng.Intn(8), rng.Intn(6)
			wg.Add(1)
			go func(i int) {
				defer wg.Done()
				name := fmt.Sprintf("t%d", i)
				time.Sleep(time.Duration(d1) * time.Millisecond)
				s, err := r.net.DialStream(context.Background())
				if err != nil {
					return // transport closed: the stream never existed
				}
				defer s.Close()
				s.SetDeadline(time.Now().Add(2 * time.Minute))
				go proto4.WriteRequest(s, proto4.RPCSettingsID, nil)
				var resp proto4.RPCSettingsResponse
				// release "our" handler after hold ms: handlers are anonymous, so release the oldest unreleased entry
				go func() {
					time.Sleep(time.Duration(hold) * time.Millisecond)
					r.gs.releaseNext()
				}()
				err = proto4.ReadResponse(s, &resp)
				switch {
				case err == nil:
				case strings.Contains(err.Error(), "shutting down"):
					rec.emit(Event{Op: "ThAdd", P: name, OK: false})
				default:
					res.Mismatch("driver:rhp4:stream-error", fmt.Sprintf("rhp4 run %d: stream %s: %v", runNo, name, err), nil)
				}
			}(i)
		}
		time.Sleep(time.Duration(rng.Intn(10)) * time.Millisecond)
		rec.emit(Event{Op: "StopCall"})
		go func() { r.srv.Close(); rec.emit(Event{Op: "StopReturn"}); close(closed) }()
		closed2 := make(chan struct{})
		if rng.Intn(2) == 0 {
			d := time.Duration(rng.Intn(3000)) * time.Microsecond
			go func() {
				time.Sleep(d)
				rec.emit(Event{Op: "Stop2Call"})
				r.srv.Close()
				rec.emit(Event{Op: "Stop2Return"})
				close(closed2)
			}()
		} else {
			close(closed2)
		}
		wg.Wait()
		// release whatever is still gated
		for i := 0; i < r.gs.numEntries(); i++ {
			r.gs.release(i)
		}
		select {
		case <-closed:
		case <-time.After(closeDeadline):
			res.Mismatch("driver:rhp4:close-hangs", fmt.Sprintf("rhp4 run %d: Server.Close did not return", runNo), nil)
			return nil, fmt.Errorf("close hangs")
		}
		select {
		case <-closed2:
		case <-time.After(closeDeadline):
			res.Mismatch("driver:rhp4:second-close-hangs", fmt.Sprintf("rhp4 run %d: a second Server.Close did not return", runNo), nil)
			return nil, fmt.Errorf("second close hangs")
		}
		// work after Close: a new stream must be answered with "host is shutting down"
		s, err := r.net.DialStream(context.Background())
		if err == nil {
			s.SetDeadline(time.Now().Add(30 * time.Second))
			go proto4.WriteRequest(s, proto4.RPCSettingsID, nil)
			var resp proto4.RPCSettingsResponse
			if err := proto4.ReadResponse(s, &resp); err == nil || !strings.Contains(err.Error(), "shutting down") {
				res.Mismatch("driver:rhp4:served-after-close", fmt.Sprintf("rhp4 run %d: a stream opened after Close returned was not refused (err=%v)", runNo, err), nil)
			}
			s.Close()
		}
		r.cleanup()
	}
	return renameThreads(rec.snapshot()), nil
}

// renameThreads maps arbitrary thread labels to t1..t12 in order of first appearance (the
// specification's Threads) and drops refused streams beyond that.
func renameThreads(evs []Event) []Event {
	names := map[string]string{}
	var out []Event
	for _, e := range evs {
		if e.Op == "ThAdd" || e.Op == "ThDone" || e.Op == "CancelParent" {
			n, ok := names[e.P]
			if !ok {
				if len(names) >= 12 {
					continue
				}
				n = fmt.Sprintf("t%d", len(names)+1)
				names[e.P] = n
			}
			e.P = n
		}
		out = append(out, e)
	}
	return out
}

// TestDriver records runs of the real code under randomised load and writes them as NDJSON for
// TLC (spec/LimitsTrace.tla): RPC runs and connection storms to limtrace-run-*.ndjson, thread
// group / rhp4.Server / wallet runs to limtrace-tg-*.ndjson.
func TestDriver(t *testing.T) {
	res := hx.NewResult()
	defer res.Write()
	nrpc := hx.EnvInt("VERIF_RPC_RUNS", 40)
	nconn := hx.EnvInt("VERIF_CONN_RUNS", 30)
	ntg := hx.EnvInt("VERIF_TG_RUNS", 30)
	shards := hx.EnvInt("VERIF_SHARDS", 6)
	par := hx.EnvInt("VERIF_PARALLEL", 6)
	dir := os.Getenv("VERIF_WORK")
	mk := func(prefix string) []*shardWriter {
		ws := make([]*shardWriter, shards)
		for i := range ws {
			tw, err := hx.NewTraceWriter(filepath.Join(dir, fmt.Sprintf("%s-%d.ndjson", prefix, i)))
			if err != nil {
				t.Fatal(err)
			}
			ws[i] = &shardWriter{tw: tw}
		}
		return ws
	}
	runW, connW, tgW := mk("limtrace-run"), mk("limtrace-conn"), mk("limtrace-tg")
	var wg sync.WaitGroup
	sem := make(chan struct{}, par)
	var ntraces, nevents, stuckRuns atomic.Int64
	spawn := func(f func()) {
		wg.Add(1)
		sem <- struct{}{}
		go func() { defer wg.Done(); defer func() { <-sem }(); f() }()
	}
	for i := 0; i < nrpc; i++ {
		i := i
		spawn(func() {
			evs, st, err := rpcRun(hx.Rand(int64(1000+i)), res, i)
			if err != nil {
				res.Note("rpc run %d: %v", i, err)
				res.Count("infra", 1)
				return
			}
			runW[i%shards].write(evs)
			ntraces.Add(1)
			nevents.Add(int64(len(evs)))
			res.Eval(fmt.Sprintf("rpc|%v", st.desc))
			res.Count("rpcs", st.rpcs)
			res.Count("handlers", st.entered)
			res.Count("answered", st.answered)
			res.Count("failed", st.failed)
			if i == 0 {
				n := len(evs)
				if n > 14 {
					n = 14
				}
				res.Sample(map[string]any{"rpc_run": st.desc, "first_events": evs[:n]})
			}
		})
	}
	for i := 0; i < nconn; i++ {
		i := i
		spawn(func() {
			evs, seen, stuck, err := connRun(hx.Rand(int64(5000+i)), res, i)
			if err != nil {
				res.Note("conn run %d: %v", i, err)
				res.Count("infra", 1)
				return
			}
			connW[i%shards].write(evs)
			ntraces.Add(1)
			nevents.Add(int64(len(evs)))
			res.Eval(fmt.Sprintf("conn|%d|%d", i, seen))
			if stuck > 0 {
				stuckRuns.Add(1)
			}
		})
	}
	for i := 0; i < ntg; i++ {
		i := i
		kind := []string{"threadgroup", "rhp4"}[i%2]
		spawn(func() {
			evs, err := tgRandomRun(hx.Rand(int64(9000+i)), kind, res, i)
			if err != nil {
				res.Note("%s run %d: %v", kind, i, err)
				res.Count("infra", 1)
				return
			}
			tgW[i%shards].write(evs)
			ntraces.Add(1)
			nevents.Add(int64(len(evs)))
			res.Eval(fmt.Sprintf("tg|%s|%d", kind, i))
		})
	}
	wg.Wait()
	// wallet shutdown scenarios (sequential: they use real timers)
	for i := 0; i < hx.EnvInt("VERIF_WALLET_RUNS", 3); i++ {
		evs, err := walletRun(hx.Rand(int64(12000+i)), res, i)
		if err != nil {
			res.Note("wallet run %d: %v", i, err)
			res.Count("infra", 1)
			continue
		}
		tgW[i%shards].write(evs)
		ntraces.Add(1)
		nevents.Add(int64(len(evs)))
		res.Eval(fmt.Sprintf("wallet|%d", i))
		if i == 0 {
			res.Sample(map[string]any{"wallet_run": evs})
		}
	}
	// Connect with a request context that is already cancelled / past its deadline, then Close under a watchdog
	for i := 0; i < hx.EnvInt("VERIF_CONNECT_RUNS", 2); i++ {
		if err := connectExpiredRun(res, i); err != nil {
			res.Note("connect run %d: %v", i, err)
			res.Count("infra", 1)
		}
		res.Eval(fmt.Sprintf("connect-expired|%d", i))
	}
	for _, ws := range [][]*shardWriter{runW, connW, tgW} {
		for _, w := range ws {
			if err := w.tw.Close(); err != nil {
				t.Fatal(err)
			}
		}
	}
	if !waitFor(20*time.Second, func() bool { return syncerGoroutines() == 0 }) {
		res.Mismatch("driver:goroutines-survive-close", fmt.Sprintf("%d goroutines are still inside the syncer package after every Syncer.Close returned\n%s", syncerGoroutines(), syncerStacks()), nil)
	}
	res.Traces = int(ntraces.Load())
	res.Count("events", int(nevents.Load()))
	res.Count("close_stuck_runs", int(stuckRuns.Load()))
}

// connectExpiredRun: Syncer.Connect joins the thread group with AddContext(requestContext).  A request whose
// context is already cancelled (or past its deadline) fails -- that is fine -- but it must leave nothing
// behind in the group: a later Close, with no work running, has to return.  The watchdog is generous
// (closeDeadline, nothing else runs in this syncer) so that load cannot cause a false alarm.
func connectExpiredRun(res *hx.Result, runNo int) error {
	nd, err := newNode(nodeCfg{MaxInflight: 4, MaxSubnet: 0, MaxIn: 4, MaxOut: 4})
	if err != nil {
		return err
	}
	l, err := net.Listen("tcp", "127.0.0.1:0")
	if err != nil {
		return err
	}
	defer l.Close()
	for k := 0; k < 3; k++ {
		var ctx context.Context
		var cancel context.CancelFunc
		if (runNo+k)%2 == 0 {
			ctx, cancel = context.WithCancel(context.Background())
			cancel()
		} else {
			ctx, cancel = context.WithDeadline(context.Background(), time.Now().Add(-time.Second))
		}
		if _, err := nd.s.Connect(ctx, l.Addr().String()); err == nil {
			res.Mismatch("driver:syncer:connect-with-dead-context-succeeded", fmt.Sprintf("connect run %d: Connect with a dead context returned no error", runNo), nil)
		}
		cancel()
	}
	nd.beginClose()
	select {
	case <-nd.closed:
	case <-time.After(closeDeadline):
		res.Mismatch("driver:syncer:close-blocked-after-dead-context-connect",
			fmt.Sprintf("connect run %d: three Syncer.Connect calls with an already cancelled / expired context failed (as they should); afterwards, with no peer and no RPC, Syncer.Close has not returned within %v: the thread group still counts members that no longer exist\n%s", runNo, closeDeadline, syncerStacks()), nil)
	}
	return nil
}

// TestCapStorm is the probe of DESIGN.md section 7 #10 as a check: 12 peers connect at once
// against WithMaxInboundPeers(2) -- staged (every allowConnect before any handshake: deterministic)
// and free-running (whatever the scheduler does).
func TestCapStorm(t *testing.T) {
	res := hx.NewResult()
	defer res.Write()
	nconn, maxIn := hx.EnvInt("VERIF_STORM_N", 12), hx.EnvInt("VERIF_STORM_CAP", 2)
	for _, staged := range []bool{true, false} {
		best := 0
		tries := 1
		if !staged {
			tries = 3
		}
		for k := 0; k < tries && best <= maxIn; k++ {
			n, err := capStorm(nconn, maxIn, staged)
			if err != nil {
				res.Note("storm: %v", err)
				res.Count("infra", 1)
				continue
			}
			if n > best {
				best = n
			}
		}
		mode := "free"
		if staged {
			mode = "staged"
		}
		res.Eval(fmt.Sprintf("storm|%s|%d", mode, best))
		res.Count("storm_"+mode+"_inbound", best)
		if best > maxIn {
			res.Mismatch("storm:"+mode+":inbound-cap-exceeded", fmt.Sprintf("%d peers connected at once (%s): %d inbound peers admitted, WithMaxInboundPeers(%d)", nconn, mode, best, maxIn),
				map[string]any{"kind": "storm", "n": nconn, "cap": maxIn, "staged": staged})
		}
	}
	res.Sample(map[string]any{"storm": map[string]int{"connections": nconn, "cap": maxIn, "admitted_staged": res.Counts["storm_staged_inbound"], "admitted_free": res.Counts["storm_free_inbound"]}})
}

// TestOutbound: the outbound cap under "many candidates at once": the peer store offers 8 reachable
// peers, peerLoop (the only place that forms outbound connections on its own) runs every 15 ms,
// outbound peers hang up now and then; the number of outbound peers is sampled all the time and
// must never exceed WithMaxOutboundPeers, must reach it, and Close must return.
func TestOutbound(t *testing.T) {
	res := hx.NewResult()
	defer res.Write()
	rng := hx.Rand(77)
	for round := 0; round < hx.EnvInt("VERIF_OUT_ROUNDS", 3); round++ {
		maxOut := 1 + rng.Intn(3)
		nd, err := newNode(nodeCfg{MaxInflight: 4, MaxSubnet: 0, MaxIn: 8, MaxOut: maxOut, Discovery: 15 * time.Millisecond})
		if err != nil {
			t.Fatal(err)
		}
		const nacc = 8
		var amu sync.Mutex
		var transports []interface{ Close() error }
		var ls []net.Listener
		for i := 0; i < nacc; i++ {
			l, err := net.Listen("tcp", fmt.Sprintf("127.0.4.%d:0", i+1))
			if err != nil {
				t.Fatal(err)
			}
			ls = append(ls, l)
			go func(l net.Listener) {
				for {
					conn, err := l.Accept()
					if err != nil {
						return
					}
					go func() {
						tr, err := gateway.Accept(conn, gateway.Header{GenesisID: nd.genesis, UniqueID: gateway.GenerateUniqueID(), NetAddress: l.Addr().String()})
						if err != nil {
							conn.Close()
							return
						}
						amu.Lock()
						transports = append(transports, tr)
						amu.Unlock()
					}()
				}
			}(l)
			nd.ps.EphemeralPeerStore.AddPeer(l.Addr().String())
		}
		max, reached := 0, false
		deadline := time.Now().Add(400 * time.Millisecond)
		nextHang := time.Now().Add(60 * time.Millisecond)
		for time.Now().Before(deadline) {
			n := nd.outboundPeers()
			if n > max {
				max = n
			}
			if n == maxOut {
				reached = true
			}
			if time.Now().After(nextHang) {
				amu.Lock()
				if len(transports) > 0 {
					transports[0].Close()
					transports = transports[1:]
				}
				amu.Unlock()
				nextHang = time.Now().Add(40 * time.Millisecond)
			}
			time.Sleep(300 * time.Microsecond)
		}
		res.Eval(fmt.Sprintf("outbound|%d|%d", maxOut, max))
		if max > maxOut {
			res.Mismatch("driver:conn:outbound-cap-exceeded", fmt.Sprintf("%d outbound peers at once, WithMaxOutboundPeers(%d)", max, maxOut), nil)
		}
		if !reached {
			res.Note("outbound round %d: the cap %d was never reached (max %d)", round, maxOut, max)
			res.Count("outbound_vacuous", 1)
		}
		// Connect after Close must be refused; Close must return although outbound peers are connected
		ok := nd.shutdown(closeDeadline)
		if !ok {
			res.Mismatch("driver:conn:close-hangs-outbound", fmt.Sprintf("Syncer.Close did not return with %d outbound peers connected\n%s", nd.outboundPeers(), syncerStacks()), nil)
		}
		if _, err := nd.s.Connect(context.Background(), ls[0].Addr().String()); err == nil {
			res.Mismatch("driver:conn:connect-after-close", "Syncer.Connect succeeded after Close had returned", nil)
		}
		if err := <-nd.runErr; err != nil {
			res.Note("Run returned %v", err)
		}
		for _, l := range ls {
			l.Close()
		}
		amu.Lock()
		for _, tr := range transports {
			tr.Close()
		}
		amu.Unlock()
		res.Count("outbound_max", max)
	}
	res.Sample(map[string]any{"outbound_rounds": res.Evaluations})
}
