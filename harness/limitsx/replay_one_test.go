package limitsx

import (
	"encoding/json"
	"fmt"
	"testing"

	"verifharness/hx"
)

// TestReplayOne re-executes one saved replay record (./check C18 --replay f).
func TestReplayOne(t *testing.T) {
	res := hx.NewResult()
	defer res.Write()
	var mm struct {
		Sig    string          `json:"sig"`
		Replay json.RawMessage `json:"replay"`
	}
	if err := hx.ReadIn(&mm); err != nil {
		t.Fatal(err)
	}
	var kind struct {
		Kind string `json:"kind"`
	}
	json.Unmarshal(mm.Replay, &kind)
	switch kind.Kind {
	case "rpc-path":
		var r struct {
			Group rpcGroup `json:"group"`
		}
		if err := json.Unmarshal(mm.Replay, &r); err != nil {
			t.Fatal(err)
		}
		plan := r.Group.Plan
		if plan == "" {
			plan = "same32"
		}
		sig, desc, at := runRPCPath(&r.Group, r.Group.Paths[0], res, true, plan)
		if sig != "" {
			res.Mismatch(sig, fmt.Sprintf("step %d: %s", at, desc), r)
		}
	case "conn-path":
		var r struct {
			Group connGroup `json:"group"`
		}
		if err := json.Unmarshal(mm.Replay, &r); err != nil {
			t.Fatal(err)
		}
		sig, desc, at, capx, stuck := runConnPath(&r.Group, r.Group.Paths[0], res)
		if capx != "" {
			res.Mismatch("replay:conn:inbound-cap-exceeded", capx, r)
		}
		if stuck != "" {
			res.Mismatch("replay:conn:close-blocked-by-unswept-peer", stuck, r)
		}
		if sig != "" {
			res.Mismatch(sig, fmt.Sprintf("step %d: %s", at, desc), r)
		}
	case "tg-path":
		var r struct {
			Target string   `json:"target"`
			Ctx    []string `json:"ctxThreads"`
			Path   []tgStep `json:"path"`
		}
		if err := json.Unmarshal(mm.Replay, &r); err != nil {
			t.Fatal(err)
		}
		sig, desc, at := runTGPath(r.Target, r.Path, res, r.Ctx)
		if sig != "" {
			res.Mismatch(sig, fmt.Sprintf("step %d: %s", at, desc), r)
		}
	case "storm":
		var r struct {
			N      int  `json:"n"`
			Cap    int  `json:"cap"`
			Staged bool `json:"staged"`
		}
		if err := json.Unmarshal(mm.Replay, &r); err != nil {
			t.Fatal(err)
		}
		n, err := capStorm(r.N, r.Cap, r.Staged)
		if err != nil {
			t.Fatal(err)
		}
		res.Eval("storm")
		if n > r.Cap {
			res.Mismatch("storm:replay:inbound-cap-exceeded", fmt.Sprintf("%d inbound peers admitted, WithMaxInboundPeers(%d)", n, r.Cap), r)
		}
	default:
		t.Fatalf("replay kind %q is re-run by the driver with the same VERIF_SEED: ./check C18", kind.Kind)
	}
}
