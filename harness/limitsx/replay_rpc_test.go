package limitsx

import (
	"fmt"
	"runtime"
	"sort"
	"strings"
	"sync"
	"testing"
	"time"

	"verifharness/hx"
)

// ---------------------------------------------------------------- Leg R, RPC family

// An rpcObs is the projection of a SETTLED state that the harness can observe from outside:
// which handlers are inside the ChainManager gate, what each client saw, whether Close returned,
// and (hook) the per-subnet counters.
type rpcObs struct {
	Inside   []string       `json:"inside"`   // "p1.2" ...
	Answered []string       `json:"answered"` // client got the response
	Failed   []string       `json:"failed"`   // client saw the stream/transport die without a response
	Closed   bool           `json:"closed"`   // Syncer.Close has returned
	Closed2  bool           `json:"closed2"`  // a second, overlapping Syncer.Close has returned
	Sub      map[string]int `json:"sub"`      // subnet name -> counter (only subnets with a positive count)
}

func (o rpcObs) String() string {
	var subs []string
	for _, k := range hx.SortedKeys(o.Sub) {
		subs = append(subs, fmt.Sprintf("%s=%d", k, o.Sub[k]))
	}
	return fmt.Sprintf("inside=%v answered=%v failed=%v closed=%v closed2=%v sub=[%s]", o.Inside, o.Answered, o.Failed, o.Closed, o.Closed2, strings.Join(subs, " "))
}

type rpcStep struct {
	Act struct {
		Op string `json:"op"`
		P  string `json:"p"`
		R  int    `json:"r"`
	} `json:"act"`
	Obs       rpcObs `json:"obs"`
	Quiescent bool   `json:"quiescent"`
}

type rpcGroup struct {
	MaxInflight int               `json:"maxInflight"`
	MaxSubnet   int               `json:"maxSubnet"`
	Subnets     map[string]string `json:"subnets"` // peer -> subnet name
	NRpc        int               `json:"nrpc"`
	Paths       [][]rpcStep       `json:"paths"`
	Plan        addrPlan          `json:"plan"` // how the map is realised with addresses ("" = rotate over plansFor by path number)
}

type rpcReplayIn struct {
	Groups   []rpcGroup `json:"groups"`
	Parallel int        `json:"parallel"`
	Mutate   string     `json:"mutate"` // self-test: "oracle-cap" = the oracle believes the per-peer limit is one higher
}

// an rpcRig is a node with one raw client per peer of the model
type rpcRig struct {
	nd      *node
	clients map[string]*client
	peers   []string
	subIdx  map[string]int // subnet name -> index of its loopback network
	g       *rpcGroup
	plan    addrPlan
}

func peerIdx(name string) int {
	var i int
	fmt.Sscanf(name, "p%d", &i)
	return i
}

func newRPCRig(g *rpcGroup, maxIn int, plan addrPlan) (*rpcRig, error) {
	rg := &rpcRig{clients: map[string]*client{}, subIdx: map[string]int{}, g: g, plan: plan}
	for p := range g.Subnets {
		rg.peers = append(rg.peers, p)
	}
	sort.Strings(rg.peers)
	for _, p := range rg.peers {
		if _, ok := rg.subIdx[g.Subnets[p]]; !ok {
			rg.subIdx[g.Subnets[p]] = len(rg.subIdx)
		}
	}
	subnetOf := func(p int) string { return g.Subnets[pname(p)] }
	nd, err := newNode(nodeCfg{Prefix4: plan.bits(), MaxInflight: g.MaxInflight, MaxSubnet: g.MaxSubnet, MaxIn: maxIn, MaxOut: 0, SubnetOf: subnetOf})
	if err != nil {
		return nil, err
	}
	rg.nd = nd
	for _, p := range rg.peers {
		c := newClient(peerIdx(p), plan.peerIP(rg.subIdx[g.Subnets[p]], peerIdx(p)), 20000+peerIdx(p), nd.genesis)
		if err := c.connect(nd.s.Addr()); err != nil {
			return nil, err
		}
		if err := c.shake(); err != nil {
			return nil, err
		}
		rg.clients[p] = c
	}
	if !waitFor(20*time.Second, func() bool { return nd.inboundPeers() == len(rg.peers) }) {
		return nil, fmt.Errorf("only %d of %d peers were added", nd.inboundPeers(), len(rg.peers))
	}
	return rg, nil
}

func (rg *rpcRig) close() bool {
	ok := rg.nd.shutdown(30 * time.Second)
	for _, c := range rg.clients {
		c.close()
	}
	return ok
}

// observe projects the real system like the oracle's rpcObs.
func (rg *rpcRig) observe(maxR int) rpcObs {
	o := rpcObs{Inside: sortedKeys(rg.nd.cm.insideSet()), Sub: map[string]int{}, Closed: rg.nd.closeReturned(), Closed2: rg.nd.close2Returned(), Answered: []string{}, Failed: []string{}}
	if o.Inside == nil {
		o.Inside = []string{}
	}
	for _, p := range rg.peers {
		for r := 1; r <= maxR; r++ {
			switch rg.clients[p].outcome(r) {
			case "answered":
				o.Answered = append(o.Answered, fmt.Sprintf("%s.%d", p, r))
			case "failed":
				o.Failed = append(o.Failed, fmt.Sprintf("%s.%d", p, r))
			}
		}
	}
	sort.Strings(o.Answered)
	sort.Strings(o.Failed)
	ipToSub := map[string]string{}
	for _, p := range rg.peers {
		name := rg.g.Subnets[p]
		ipToSub[rg.plan.key(rg.subIdx[name], peerIdx(p))] = name // any other key shows up under its own name
	}
	for k, v := range rg.nd.s.VerifInflightSubnet() {
		if v != 0 {
			if n, ok := ipToSub[k]; ok {
				o.Sub[n] = v
			} else {
				o.Sub[k] = v
			}
		}
	}
	return o
}

func sameObs(a, b rpcObs) bool { return a.String() == b.String() }

const (
	settleDeadline = 10 * time.Second
	stableWindow   = 12 * time.Millisecond
)

// settle waits until the real system shows the expected observation and stays there.
func (rg *rpcRig) settle(want rpcObs, maxR int) (rpcObs, bool) {
	var got rpcObs
	ok := waitFor(settleDeadline, func() bool { got = rg.observe(maxR); return sameObs(got, want) })
	if !ok {
		return got, false
	}
	time.Sleep(stableWindow)
	got = rg.observe(maxR)
	return got, sameObs(got, want)
}

// runRPCPath executes one path literally; returns a description of the first divergence ("" = none).
func runRPCPath(g *rpcGroup, path []rpcStep, res *hx.Result, probe bool, plan addrPlan) (sig, desc string, at int) {
	rg, err := newRPCRig(g, 64, plan)
	if err != nil {
		return "infra", err.Error(), -1
	}
	defer func() {
		if !rg.close() && sig == "" {
			sig, desc, at = "replay:rpc:close-hangs", "Syncer.Close did not return within 30 s after every handler had been released", len(path)
		}
	}()
	stopped := false
	for i, st := range path {
		switch st.Act.Op {
		case "Arrive":
			rg.clients[st.Act.P].send(st.Act.R, nil)
		case "Handle":
			rg.nd.cm.release(peerIdx(st.Act.P), st.Act.R)
		case "CloseListener":
			rg.nd.l.Close() // the first statement of Syncer.Close
			stopped = true
		case "StopBegin":
			rg.nd.beginClose()
			stopped = true
		case "Stop2Begin":
			rg.nd.beginClose2() // a second Close while the first one is (possibly) still waiting
		default:
			return "infra", "unknown action " + st.Act.Op, i
		}
		res.Eval(fmt.Sprintf("%d/%d/%s|%s.%s.%d|%s", g.MaxInflight, g.MaxSubnet, plan, st.Act.Op, st.Act.P, st.Act.R, st.Obs.String()))
		got, ok := rg.settle(st.Obs, g.NRpc)
		if !ok {
			return "replay:rpc:" + st.Act.Op + ":" + classify(got, st.Obs, g), fmt.Sprintf("after %s(%s,%d) [maxInflight=%d maxSubnet=%d, addresses %s: %s] the syncer shows %s, the specification's settled state is %s",
				st.Act.Op, st.Act.P, st.Act.R, g.MaxInflight, g.MaxSubnet, plan, rg.addrDesc(), got, st.Obs), i
		}
		// hard caps, independent of the oracle
		if s, d := rg.capViolation(); s != "" {
			return s, d, i
		}
	}
	if probe && !stopped {
		if s, d := rg.slotProbe(); s != "" {
			return s, d, len(path)
		}
	}
	return "", "", 0
}

func (rg *rpcRig) addrDesc() string {
	var parts []string
	for _, p := range rg.peers {
		parts = append(parts, fmt.Sprintf("%s=%s in %s", p, rg.clients[p].srcIP, rg.plan.key(rg.subIdx[rg.g.Subnets[p]], peerIdx(p))))
	}
	return strings.Join(parts, ", ")
}

// classify names the kind of divergence for the signature.
func classify(got, want rpcObs, g *rpcGroup) string {
	switch {
	case got.Closed && !want.Closed:
		return "close-returned-early"
	case got.Closed2 && !want.Closed2:
		return "second-close-returned-early"
	case !got.Closed2 && want.Closed2:
		return "second-close-not-returned"
	case !got.Closed && want.Closed:
		return "close-not-returned"
	case len(got.Inside) > len(want.Inside):
		return "extra-handler"
	case len(got.Inside) < len(want.Inside):
		return "missing-handler"
	case len(got.Failed) > len(want.Failed):
		return "dropped"
	case fmt.Sprint(got.Sub) != fmt.Sprint(want.Sub):
		return "counter"
	}
	return "state"
}

func (rg *rpcRig) capViolation() (string, string) {
	rg.nd.cm.mu.Lock()
	defer rg.nd.cm.mu.Unlock()
	for p, n := range rg.nd.cm.maxPeer {
		if n > rg.g.MaxInflight {
			return "replay:rpc:per-peer-cap-exceeded", fmt.Sprintf("%d handlers of %s ran concurrently, limit %d", n, pname(p), rg.g.MaxInflight)
		}
	}
	if rg.g.MaxSubnet > 0 {
		for s, n := range rg.nd.cm.maxSub {
			if n > rg.g.MaxSubnet {
				return "replay:rpc:per-subnet-cap-exceeded", fmt.Sprintf("%d handlers of subnet %s ran concurrently, limit %d", n, s, rg.g.MaxSubnet)
			}
		}
	}
	return "", ""
}

// slotProbe is the hook-free check of NoSlotLeak: with everything released and finished, each
// peer in turn must be able to run min(maxInflight, maxSubnet) handlers at once again.
func (rg *rpcRig) slotProbe() (string, string) {
	rg.nd.cm.mu.Lock()
	pending := len(rg.nd.cm.inside)
	rg.nd.cm.mu.Unlock()
	if pending != 0 {
		return "", "" // the path ends with handlers still gated: nothing to probe
	}
	// wait until no counter is held (a finished handler returns its slots a moment after the response)
	held := func() (n int) {
		for _, v := range rg.nd.s.VerifInflightSubnet() {
			n += v
		}
		return
	}
	if !waitFor(settleDeadline, func() bool { return held() == 0 }) {
		return "replay:rpc:slot-leak:subnet-counter", fmt.Sprintf("no RPC in flight but inflightSubnet = %v", rg.nd.s.VerifInflightSubnet())
	}
	want := rg.g.MaxInflight
	if rg.g.MaxSubnet > 0 && rg.g.MaxSubnet < want {
		want = rg.g.MaxSubnet
	}
	for _, p := range rg.peers {
		c := rg.clients[p]
		base := 1000
		for k := 0; k < want; k++ {
			c.send(base+k, nil)
		}
		ok := waitFor(settleDeadline, func() bool {
			n := 0
			for k := range rg.nd.cm.insideSet() {
				if k.p == c.idx && k.r >= base {
					n++
				}
			}
			return n == want
		})
		if !ok {
			return "replay:rpc:slot-leak:probe", fmt.Sprintf("after the path, with nothing in flight, %s could not run %d handlers at once (inside: %v)", p, want, sortedKeys(rg.nd.cm.insideSet()))
		}
		for k := 0; k < want; k++ {
			rg.nd.cm.release(c.idx, base+k)
		}
		if !waitFor(settleDeadline, func() bool {
			for k := 0; k < want; k++ {
				if c.outcome(base+k) != "answered" {
					return false
				}
			}
			return held() == 0
		}) {
			return "replay:rpc:slot-leak:probe-answer", fmt.Sprintf("probe RPCs of %s were not answered / counters not returned: %v", p, rg.nd.s.VerifInflightSubnet())
		}
	}
	return "", ""
}

// syncerStacks returns the stacks of the goroutines inside the syncer package (diagnostics).
func syncerStacks() string {
	buf := make([]byte, 8<<20)
	buf = buf[:runtime.Stack(buf, true)]
	var out []string
	for _, g := range strings.Split(string(buf), "\n\n") {
		if strings.Contains(g, "go.sia.tech/coreutils/syncer.") {
			out = append(out, g)
		}
	}
	if len(out) > 6 {
		out = out[:6]
	}
	return strings.Join(out, "\n\n")
}

// syncerGoroutines counts goroutines that are executing code of the syncer package.
func syncerGoroutines() int {
	buf := make([]byte, 8<<20)
	buf = buf[:runtime.Stack(buf, true)]
	n := 0
	for _, g := range strings.Split(string(buf), "\n\n") {
		if strings.Contains(g, "go.sia.tech/coreutils/syncer.") {
			n++
		}
	}
	return n
}

// TestReplayRPC executes every path of the cover of the eager Limits graph (RPC family) on a
// real syncer: Arrive = a raw gateway client sends a tagged SendV2Blocks, Handle = the gate lets
// that handler return, StopBegin = Syncer.Close is called.  After every step the real system
// must settle in the specification's settled state.
func TestReplayRPC(t *testing.T) {
	res := hx.NewResult()
	defer res.Write()
	var in rpcReplayIn
	if err := hx.ReadIn(&in); err != nil {
		t.Fatal(err)
	}
	if in.Parallel <= 0 {
		in.Parallel = 8
	}
	type job struct {
		g    *rpcGroup
		path []rpcStep
		no   int
	}
	var jobs []job
	for gi := range in.Groups {
		g := &in.Groups[gi]
		if in.Mutate == "oracle-cap" {
			// self-test: the harness configures the real syncer with one more slot than the oracle assumed
			g.MaxInflight++
		}
		for pi, p := range g.Paths {
			jobs = append(jobs, job{g, p, pi})
		}
	}
	var wg sync.WaitGroup
	sem := make(chan struct{}, in.Parallel)
	for _, j := range jobs {
		wg.Add(1)
		sem <- struct{}{}
		go func(j job) {
			defer wg.Done()
			defer func() { <-sem }()
			plan := j.g.Plan
			if plan == "" {
				ps := plansFor(j.g.Subnets)
				plan = ps[j.no%len(ps)]
			}
			res.Count("plan_"+string(plan), 1)
			sig, desc, at := runRPCPath(j.g, j.path, res, true, plan)
			if sig != "" && sig != "infra" {
				// timing discipline: re-run the path once before reporting
				sig, desc, at = runRPCPath(j.g, j.path, res, true, plan)
			}
			if sig == "infra" {
				res.Note("path %d: %s", j.no, desc)
				res.Count("infra", 1)
				return
			}
			if sig != "" {
				upto := at + 1
				if upto > len(j.path) {
					upto = len(j.path)
				}
				res.Mismatch(sig, fmt.Sprintf("path %d step %d: %s", j.no, at, desc),
					map[string]any{"kind": "rpc-path", "group": rpcGroup{MaxInflight: j.g.MaxInflight, MaxSubnet: j.g.MaxSubnet, Subnets: j.g.Subnets, NRpc: j.g.NRpc, Plan: plan, Paths: [][]rpcStep{j.path[:upto]}}})
			}
			res.Count("paths", 1)
			res.Count("steps", len(j.path))
			if j.no == 0 {
				res.Sample(map[string]any{"maxInflight": j.g.MaxInflight, "maxSubnet": j.g.MaxSubnet, "subnets": j.g.Subnets, "addresses": plan, "path": j.path})
			}
		}(j)
	}
	wg.Wait()
	// goroutine inventory: every syncer of this test has been closed, none of its goroutines may survive
	if !waitFor(20*time.Second, func() bool { return syncerGoroutines() == 0 }) {
		res.Mismatch("replay:rpc:goroutines-survive-close", fmt.Sprintf("%d goroutines are still inside the syncer package after every Syncer.Close returned", syncerGoroutines()), nil)
	}
	res.Count("groups", len(in.Groups))
	if !loopbackAliases() {
		res.Count("alias_unavailable", 1)
		res.Note("loopback aliases (127.0.20.x ...) cannot be bound here: the subnet limit was exercised with one address per subnet only")
	}
}
