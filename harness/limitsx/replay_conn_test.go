package limitsx

import (
	"fmt"
	"net"
	"sort"
	"sync"
	"testing"
	"time"

	"verifharness/hx"
)

// ---------------------------------------------------------------- Leg R, CONN family

// connObs: which attempts are peers of the syncer, which were turned away, whether Close returned.
type connObs struct {
	Peers    []string `json:"peers"`
	Rejected []string `json:"rejected"`
	Closed   bool     `json:"closed"`
	Stuck    bool     `json:"stuck"` // oracle only: Close is pending and nothing but a remote hang-up can let it return
}

func (o connObs) String() string {
	return fmt.Sprintf("peers=%v rejected=%v closed=%v", o.Peers, o.Rejected, o.Closed)
}

type connStep struct {
	Act struct {
		Op string `json:"op"`
		P  string `json:"p"`
		R  int    `json:"r"`
	} `json:"act"`
	Obs connObs `json:"obs"`
}

type connGroup struct {
	MaxIn int          `json:"maxIn"`
	Conns []string     `json:"conns"`
	Paths [][]connStep `json:"paths"`
}

type connReplayIn struct {
	Groups   []connGroup `json:"groups"`
	Parallel int         `json:"parallel"`
}

type connRig struct {
	nd      *node
	g       *connGroup
	clients map[string]*client
	phase   map[string]string // "", "tcp" (connected, handshake not started), "shaking", "shaken", "peer", "dead"
	shakeCh map[string]chan error
}

func connIdx(name string) int {
	var i int
	fmt.Sscanf(name[1:], "%d", &i)
	return i
}

func newConnRig(g *connGroup) (*connRig, error) {
	nd, err := newNode(nodeCfg{MaxInflight: 4, MaxSubnet: 0, MaxIn: g.MaxIn, MaxOut: 0})
	if err != nil {
		return nil, err
	}
	rg := &connRig{nd: nd, g: g, clients: map[string]*client{}, phase: map[string]string{}, shakeCh: map[string]chan error{}}
	for _, c := range g.Conns {
		rg.clients[c] = newClient(connIdx(c), subnetIP(connIdx(c)), 30000+connIdx(c), nd.genesis)
	}
	return rg, nil
}

// serverClosed reports whether the syncer has closed a connection whose handshake has not started
// (the syncer sends nothing before it has read our version, so a read either times out or fails).
func serverClosed(c net.Conn) bool {
	c.SetReadDeadline(time.Now().Add(3 * time.Millisecond))
	var b [1]byte
	_, err := c.Read(b[:])
	c.SetReadDeadline(time.Time{})
	if err == nil {
		return false
	}
	if ne, ok := err.(net.Error); ok && ne.Timeout() {
		return false
	}
	return true
}

func (rg *connRig) observe() connObs {
	o := connObs{Peers: []string{}, Rejected: []string{}, Closed: rg.nd.closeReturned()}
	for _, name := range rg.g.Conns {
		c := rg.clients[name]
		if rg.nd.hasPeer(c.addr()) {
			o.Peers = append(o.Peers, name)
		}
		switch rg.phase[name] {
		case "refused":
			o.Rejected = append(o.Rejected, name)
		case "tcp":
			if serverClosed(c.conn) {
				rg.phase[name] = "refused" // turned away: stays so
				o.Rejected = append(o.Rejected, name)
			}
		}
	}
	sort.Strings(o.Peers)
	sort.Strings(o.Rejected)
	return o
}

func (rg *connRig) close() bool {
	// attempts whose handshake has not finished would hold Close until ConnectTimeout: the remote hangs up
	// (and so do the peers: one that was inserted after Run's teardown is closed by nobody else -- that
	// situation is reported where it arises in a path, not here)
	rg.nd.ps.releaseAllAdds()
	for _, c := range rg.clients {
		c.close()
	}
	return rg.nd.shutdown(30 * time.Second)
}

func runConnPath(g *connGroup, path []connStep, res *hx.Result) (sig, desc string, at int, capExceeded, stuck string) {
	rg, err := newConnRig(g)
	if err != nil {
		return "infra", err.Error(), -1, "", ""
	}
	defer func() {
		for _, ch := range rg.shakeCh {
			_ = ch
		}
		if !rg.close() && sig == "" {
			sig, desc, at = "replay:conn:close-hangs", "Syncer.Close did not return within 30 s; phases "+fmt.Sprint(rg.phase)+"\n"+syncerStacks(), len(path)
		}
	}()
	srv := rg.nd.s.Addr()
	for i, st := range path {
		name := st.Act.P
		c := rg.clients[name]
		switch st.Act.Op {
		case "AllowCheck", "Refuse":
			pre := rg.nd.ps.numChecks()
			if err := c.connect(srv); err != nil {
				rg.phase[name] = "refused" // listener closed: nothing is accepted any more
				break
			}
			rg.phase[name] = "tcp"
			// allowConnect has run once the PeerStore has seen Banned and s.mu has been released again
			if !waitFor(settleDeadline, func() bool { return rg.nd.ps.numChecks() > pre || serverClosed(c.conn) }) {
				return "replay:conn:AllowCheck:no-check", fmt.Sprintf("connection %s was accepted but allowConnect never consulted the peer store", name), i, capExceeded, stuck
			}
			rg.nd.s.Peers()
		case "Handshake":
			rg.nd.ps.hold(c.addr())
			ch := make(chan error, 1)
			rg.shakeCh[name] = ch
			rg.phase[name] = "shaking"
			go func() { ch <- c.shake() }()
			var herr error
			done := false
			ok := waitFor(settleDeadline, func() bool {
				if !done {
					select {
					case herr = <-ch:
						done = true
					default:
					}
				}
				return done && (herr != nil || rg.nd.ps.addCalled(c.addr()))
			})
			if !ok || herr != nil {
				return "replay:conn:Handshake:failed", fmt.Sprintf("handshake of %s did not complete: %v", name, herr), i, capExceeded, stuck
			}
			rg.phase[name] = "shaken"
		case "AddPeer":
			rg.nd.ps.releaseAdd(c.addr())
			rg.phase[name] = "peer"
		case "RemovePeer", "Abort":
			c.close()
			rg.phase[name] = "dead"
		case "CloseListener":
			rg.nd.l.Close() // the first statement of Syncer.Close
		case "StopBegin":
			rg.nd.beginClose()
			// an attempt whose handshake has not started would hold Close until the handshake deadline
			// (ConnectTimeout); the remote hangs up instead (the specification's Abort after Stop)
			for n, ph := range rg.phase {
				if ph == "tcp" && !serverClosed(rg.clients[n].conn) {
					rg.clients[n].close()
					rg.phase[n] = "dead"
				}
			}
		default:
			return "infra", "unknown action " + st.Act.Op, i, capExceeded, stuck
		}
		res.Eval(fmt.Sprintf("%d|%s.%s|%s", g.MaxIn, st.Act.Op, name, st.Obs.String()))
		// a refusal AFTER the handshake (intended design: addPeer re-checks) is not told apart from an
		// insert followed by a removal: "rejected" is compared for attempts whose handshake never started
		want := st.Obs
		want.Rejected = []string{}
		for _, c := range st.Obs.Rejected {
			if ph := rg.phase[c]; ph == "tcp" || ph == "refused" {
				want.Rejected = append(want.Rejected, c)
			}
		}
		var got connObs
		ok := waitFor(settleDeadline, func() bool { got = rg.observe(); return got.String() == want.String() })
		if ok {
			time.Sleep(stableWindow)
			got = rg.observe()
			ok = got.String() == want.String()
		}
		if !ok {
			return "replay:conn:" + st.Act.Op + ":state", fmt.Sprintf("after %s(%s) [maxIn=%d] the syncer shows %s, the specification says %s", st.Act.Op, name, g.MaxIn, got, want), i, capExceeded, stuck
		}
		if st.Obs.Stuck && stuck == "" {
			// the implementation-shaped specification says Close now depends on the remote: confirm on the real syncer
			time.Sleep(150 * time.Millisecond)
			if !rg.nd.closeReturned() {
				stuck = fmt.Sprintf("step %d %s(%s): Syncer.Close has been called, every handshake is finished and nothing is held, but Close does not return: peer(s) %v were inserted by addPeer after Run's teardown had closed the peers, nobody closes them, and their runPeer (a member of the thread group) waits in acceptRPC until the REMOTE hangs up",
					i, st.Act.Op, name, got.Peers)
			}
		}
		// the property itself, on the real syncer: never more inbound peers than the cap
		lim := g.MaxIn
		if lim < 0 {
			lim = 0
		}
		if n := rg.nd.inboundPeers(); n > lim && capExceeded == "" {
			capExceeded = fmt.Sprintf("step %d %s(%s): %d inbound peers are connected, WithMaxInboundPeers(%d); every one of them passed allowConnect before any was inserted by addPeer", i, st.Act.Op, name, n, g.MaxIn)
		}
	}
	return "", "", 0, capExceeded, stuck
}

// TestReplayConn steps real syncers through the cover of the eager CONN graph: AllowCheck = a raw
// TCP connection is opened (allowConnect runs, the handshake does not start), Handshake = the
// client performs the gateway handshake while PeerStore.AddPeer is held, AddPeer = the hold is
// released (addPeer inserts), RemovePeer/Abort = the client hangs up, StopBegin = Syncer.Close.
func TestReplayConn(t *testing.T) {
	res := hx.NewResult()
	defer res.Write()
	var in connReplayIn
	if err := hx.ReadIn(&in); err != nil {
		t.Fatal(err)
	}
	if in.Parallel <= 0 {
		in.Parallel = 8
	}
	var wg sync.WaitGroup
	sem := make(chan struct{}, in.Parallel)
	for gi := range in.Groups {
		g := &in.Groups[gi]
		for pi, p := range g.Paths {
			wg.Add(1)
			sem <- struct{}{}
			go func(g *connGroup, p []connStep, pi int) {
				defer wg.Done()
				defer func() { <-sem }()
				sig, desc, at, capx, stuck := runConnPath(g, p, res)
				if sig != "" && sig != "infra" {
					sig, desc, at, capx, stuck = runConnPath(g, p, res)
				}
				if sig == "infra" {
					res.Note("conn path %d: %s", pi, desc)
					res.Count("infra", 1)
					return
				}
				rep := func(upto int) map[string]any {
					if upto > len(p) {
						upto = len(p)
					}
					return map[string]any{"kind": "conn-path", "group": connGroup{MaxIn: g.MaxIn, Conns: g.Conns, Paths: [][]connStep{p[:upto]}}}
				}
				if capx != "" {
					res.Count("cap_exceeded_paths", 1)
					res.Mismatch("replay:conn:inbound-cap-exceeded", fmt.Sprintf("path %d %s", pi, capx), rep(len(p)))
				}
				if stuck != "" {
					res.Count("close_blocked_paths", 1)
					res.Mismatch("replay:conn:close-blocked-by-unswept-peer", fmt.Sprintf("path %d %s", pi, stuck), rep(len(p)))
				}
				if sig != "" {
					res.Mismatch(sig, fmt.Sprintf("path %d step %d: %s", pi, at, desc), rep(at+1))
				}
				res.Count("paths", 1)
				if pi == 0 {
					res.Sample(map[string]any{"maxIn": g.MaxIn, "path": p})
				}
			}(g, p, pi)
		}
	}
	wg.Wait()
	if !waitFor(20*time.Second, func() bool { return syncerGoroutines() == 0 }) {
		res.Mismatch("replay:conn:goroutines-survive-close", fmt.Sprintf("%d goroutines are still inside the syncer package after every Syncer.Close returned", syncerGoroutines()), nil)
	}
}
