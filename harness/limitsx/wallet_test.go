package limitsx

import (
	"fmt"
	"math/rand"
	"sync"
	"time"

	"go.sia.tech/core/types"
	"go.sia.tech/coreutils"
	"go.sia.tech/coreutils/chain"
	"go.sia.tech/coreutils/testutil"
	"go.sia.tech/coreutils/wallet"
	"verifharness/hx"
)

// gateWalletStore gates SingleAddressStore.BroadcastedSets: the first call is made by the
// constructor, every later one by the wallet's rebroadcast goroutine (its only background work).
type gateWalletStore struct {
	*testutil.EphemeralWalletStore
	mu      sync.Mutex
	calls   int
	entries []chan struct{}
	armed   bool
}

func (g *gateWalletStore) BroadcastedSets() ([]wallet.BroadcastedSet, error) {
	g.mu.Lock()
	g.calls++
	var ch chan struct{}
	if g.armed && g.calls >= 2 { // call 1 is the constructor's
		ch = make(chan struct{})
		g.entries = append(g.entries, ch)
	}
	g.mu.Unlock()
	if ch != nil {
		<-ch
	}
	return g.EphemeralWalletStore.BroadcastedSets()
}

func (g *gateWalletStore) numEntries() int { g.mu.Lock(); defer g.mu.Unlock(); return len(g.entries) }
func (g *gateWalletStore) numCalls() int   { g.mu.Lock(); defer g.mu.Unlock(); return g.calls }
func (g *gateWalletStore) releaseAll() {
	g.mu.Lock()
	defer g.mu.Unlock()
	g.armed = false
	for _, ch := range g.entries {
		select {
		case <-ch:
		default:
			close(ch)
		}
	}
}

// walletRun: SingleAddressWallet.Close must wait for the rebroadcast goroutine when it is in the
// middle of its work, must return when it is idle, and no background work may happen afterwards
// (not even when the chain reorganises).  The run is logged in the TG vocabulary.
func walletRun(rng *rand.Rand, res *hx.Result, runNo int) ([]Event, error) {
	n, genesis := testutil.V2Network()
	db, ts, err := chain.NewDBStore(chain.NewMemDB(), n, genesis, nil)
	if err != nil {
		return nil, err
	}
	cm := chain.NewManager(db, ts)
	ws := &gateWalletStore{EphemeralWalletStore: testutil.NewEphemeralWalletStore(), armed: true}
	const debounce = 5 * time.Millisecond
	w, err := wallet.NewSingleAddressWallet(types.GeneratePrivateKey(), cm, ws, &testutil.MockSyncer{}, wallet.WithDebounceInterval(debounce))
	if err != nil {
		return nil, err
	}
	rec := &recorder{}
	rec.emit(Event{Op: "Reset", Fam: "tg", Lim: limMap(1, 0, 0, 0, func(p int) string { return "s1" }), Tag: fmt.Sprintf("wallet%d", runNo)})
	mode := runNo % 3 // 0: Close while the goroutine works; 1: Close while it is idle; 2: Close at once
	closed := make(chan struct{})
	closed2 := make(chan struct{})
	if mode != 0 {
		close(closed2)
	}
	doClose := func() {
		rec.emit(Event{Op: "StopCall"})
		go func() { w.Close(); rec.emit(Event{Op: "StopReturn"}); close(closed) }()
	}
	switch mode {
	case 0:
		// the constructor queued one rebroadcast: after the debounce interval the goroutine asks the store
		if !waitFor(settleDeadline, func() bool { return ws.numEntries() == 1 }) {
			return nil, fmt.Errorf("the rebroadcast goroutine never asked the store")
		}
		rec.emit(Event{Op: "ThAdd", P: "t1", OK: true})
		doClose()
		// a second Close while the first one waits: it must wait as well
		time.Sleep(time.Duration(2+rng.Intn(5)) * time.Millisecond)
		rec.emit(Event{Op: "Stop2Call"})
		go func() { w.Close(); rec.emit(Event{Op: "Stop2Return"}); close(closed2) }()
		time.Sleep(time.Duration(20+rng.Intn(40)) * time.Millisecond)
		select {
		case <-closed:
			res.Mismatch("driver:wallet:close-returned-early", fmt.Sprintf("wallet run %d: Close returned while the rebroadcast goroutine was inside SingleAddressStore.BroadcastedSets", runNo), nil)
		default:
		}
		select {
		case <-closed2:
			res.Mismatch("driver:wallet:second-close-returned-early", fmt.Sprintf("wallet run %d: a second Close, called while the first was waiting, returned while the rebroadcast goroutine was inside SingleAddressStore.BroadcastedSets", runNo), nil)
		default:
		}
		rec.emit(Event{Op: "ThDone", P: "t1"})
		ws.releaseAll()
	case 1:
		if !waitFor(settleDeadline, func() bool { return ws.numEntries() == 1 }) {
			return nil, fmt.Errorf("the rebroadcast goroutine never asked the store")
		}
		rec.emit(Event{Op: "ThAdd", P: "t1", OK: true})
		rec.emit(Event{Op: "ThDone", P: "t1"})
		ws.releaseAll()
		time.Sleep(time.Duration(rng.Intn(10)) * time.Millisecond)
		doClose()
	case 2:
		ws.releaseAll()
		doClose()
	}
	select {
	case <-closed:
	case <-time.After(closeDeadline):
		res.Mismatch("driver:wallet:close-hangs", fmt.Sprintf("wallet run %d (mode %d): Close did not return", runNo, mode), nil)
		return nil, fmt.Errorf("close hangs")
	}
	select {
	case <-closed2:
	case <-time.After(closeDeadline):
		res.Mismatch("driver:wallet:second-close-hangs", fmt.Sprintf("wallet run %d: the second Close did not return", runNo), nil)
		return nil, fmt.Errorf("second close hangs")
	}
	// nothing in the background after Close, even when the chain moves
	before := ws.numCalls()
	for i := 0; i < 2; i++ {
		b, ok := coreutils.MineBlock(cm, types.VoidAddress, 5*time.Second)
		if !ok {
			return nil, fmt.Errorf("could not mine")
		}
		if err := cm.AddBlocks([]types.Block{b}); err != nil {
			return nil, err
		}
	}
	time.Sleep(12 * debounce)
	if after := ws.numCalls(); after != before {
		res.Mismatch("driver:wallet:work-after-close", fmt.Sprintf("wallet run %d: %d store calls by the rebroadcast goroutine after Close had returned", runNo, after-before), nil)
	}
	return rec.snapshot(), nil
}
