// Package limitsx binds spec/Limits.tla to the real code (property C18): syncer.Syncer (per-peer
// in-flight semaphore, per-subnet counter, peer caps, Run/Close), threadgroup.ThreadGroup,
// rhp4.Server (Serve/Close) and wallet.SingleAddressWallet (Close).
//
// Everything is observed through the repository's own interfaces: a syncer.ChainManager whose
// BlocksForHistory is a gate (a handler stays inside it until the schedule releases it), a
// syncer.PeerStore whose Banned/AddPeer calls mark allowConnect/addPeer, raw gateway clients on
// loopback addresses 127.0.1.x (one address per subnet), an rhp4.Settings gate, a wallet store gate.
package limitsx

import (
	"context"
	"errors"
	"fmt"
	"net"
	"sort"
	"strings"
	"sync"
	"sync/atomic"
	"time"

	"go.sia.tech/core/gateway"
	"go.sia.tech/core/types"
	"go.sia.tech/coreutils/chain"
	"go.sia.tech/coreutils/syncer"
	"go.sia.tech/coreutils/testutil"
)

// ---------------------------------------------------------------- event log

// An Event is one NDJSON line of a Leg-T trace (and the in-memory record of Leg R).
type Event struct {
	Op  string         `json:"op"`
	P   string         `json:"p"`
	R   int            `json:"r"`
	OK  bool           `json:"ok"`
	N   int            `json:"n"`
	Lim map[string]any `json:"lim,omitempty"`
	Fam string         `json:"fam"`
	Tag string         `json:"tag,omitempty"`
}

// A recorder serialises events: the order of the lines is the order in which the recording
// goroutines passed through the recorder's mutex.
type recorder struct {
	mu     sync.Mutex
	events []Event
}

func (rc *recorder) emit(e Event) {
	rc.mu.Lock()
	rc.events = append(rc.events, e)
	rc.mu.Unlock()
}

func (rc *recorder) snapshot() []Event {
	rc.mu.Lock()
	defer rc.mu.Unlock()
	return append([]Event(nil), rc.events...)
}

// ---------------------------------------------------------------- gate ChainManager

type rpcKey struct{ p, r int }

// gateCM is the scheduler gate: BlocksForHistory with a tagged history blocks until released.
type gateCM struct {
	*chain.Manager
	rec *recorder

	mu       sync.Mutex
	gates    map[rpcKey]chan struct{}
	inside   map[rpcKey]bool // entered and not yet left
	entered  map[rpcKey]bool // ever entered
	exited   map[rpcKey]bool
	subnetOf func(p int) string
	maxPeer  map[int]int    // high-water mark of concurrent handlers per peer
	maxSub   map[string]int // ... per subnet
	changed  chan struct{}  // closed and replaced on every change (cheap condition variable)
	openAll  bool
}

func newGateCM(cm *chain.Manager, rec *recorder, subnetOf func(int) string) *gateCM {
	return &gateCM{Manager: cm, rec: rec, gates: map[rpcKey]chan struct{}{}, inside: map[rpcKey]bool{}, entered: map[rpcKey]bool{},
		exited: map[rpcKey]bool{}, subnetOf: subnetOf, maxPeer: map[int]int{}, maxSub: map[string]int{}, changed: make(chan struct{})}
}

const tag0, tag1 = 0xC1, 0x8F

func tagID(p, r int) types.BlockID {
	var id types.BlockID
	id[0], id[1], id[2], id[3], id[4] = tag0, tag1, byte(p), byte(r>>8), byte(r)
	return id
}

func (g *gateCM) gateLocked(k rpcKey) chan struct{} {
	ch, ok := g.gates[k]
	if !ok {
		ch = make(chan struct{})
		if g.openAll {
			close(ch)
		}
		g.gates[k] = ch
	}
	return ch
}

func (g *gateCM) bump() {
	close(g.changed)
	g.changed = make(chan struct{})
}

func pname(p int) string { return fmt.Sprintf("p%d", p) }

// BlocksForHistory implements syncer.ChainManager.
func (g *gateCM) BlocksForHistory(history []types.BlockID, max uint64) ([]types.Block, uint64, error) {
	if len(history) != 1 || history[0][0] != tag0 || history[0][1] != tag1 {
		return g.Manager.BlocksForHistory(history, max)
	}
	k := rpcKey{int(history[0][2]), int(history[0][3])<<8 | int(history[0][4])}
	g.mu.Lock()
	g.inside[k] = true
	g.entered[k] = true
	np, ns := 0, 0
	for x := range g.inside {
		if x.p == k.p {
			np++
		}
		if g.subnetOf(x.p) == g.subnetOf(k.p) {
			ns++
		}
	}
	if np > g.maxPeer[k.p] {
		g.maxPeer[k.p] = np
	}
	if ns > g.maxSub[g.subnetOf(k.p)] {
		g.maxSub[g.subnetOf(k.p)] = ns
	}
	g.rec.emit(Event{Op: "Enter", P: pname(k.p), R: k.r}) // under g.mu: Enter/Exit lines are totally ordered
	ch := g.gateLocked(k)
	g.bump()
	g.mu.Unlock()

	<-ch

	g.mu.Lock()
	delete(g.inside, k)
	g.exited[k] = true
	g.rec.emit(Event{Op: "Exit", P: pname(k.p), R: k.r})
	g.bump()
	g.mu.Unlock()
	return nil, 0, nil
}

// release lets the handler of (p, r) return (also if it has not entered yet).
func (g *gateCM) release(p, r int) {
	g.mu.Lock()
	ch := g.gateLocked(rpcKey{p, r})
	select {
	case <-ch:
	default:
		close(ch)
	}
	g.mu.Unlock()
}

func (g *gateCM) releaseAll() {
	g.mu.Lock()
	g.openAll = true
	for _, ch := range g.gates {
		select {
		case <-ch:
		default:
			close(ch)
		}
	}
	g.mu.Unlock()
}

func (g *gateCM) insideSet() map[rpcKey]bool {
	g.mu.Lock()
	defer g.mu.Unlock()
	m := map[rpcKey]bool{}
	for k := range g.inside {
		m[k] = true
	}
	return m
}

func (g *gateCM) wasEntered(p, r int) bool {
	g.mu.Lock()
	defer g.mu.Unlock()
	return g.entered[rpcKey{p, r}]
}

func (g *gateCM) changeCh() <-chan struct{} {
	g.mu.Lock()
	defer g.mu.Unlock()
	return g.changed
}

// ---------------------------------------------------------------- gate PeerStore

// gatePS marks the two halves of the connection lifecycle that the syncer delegates to its
// PeerStore: Banned (called by allowConnect UNDER s.mu, before the peers are counted) and AddPeer
// (called by addPeer BEFORE s.mu is taken for the insert).  AddPeer can be held.
type gatePS struct {
	*testutil.EphemeralPeerStore
	rec *recorder

	mu       sync.Mutex
	checks   []string                 // hosts passed to Banned, in order
	addCalls map[string]bool          // addr -> addPeer reached the store
	holds    map[string]chan struct{} // addr -> gate for AddPeer (nil: pass)
	holdAll  bool
	changed  chan struct{}
	name     func(addr string) string // addr -> connection name for the log ("" = do not log)
}

func newGatePS(rec *recorder) *gatePS {
	return &gatePS{EphemeralPeerStore: testutil.NewEphemeralPeerStore(), rec: rec, addCalls: map[string]bool{}, holds: map[string]chan struct{}{}, changed: make(chan struct{})}
}

func (g *gatePS) bump() { close(g.changed); g.changed = make(chan struct{}) }

func (g *gatePS) Banned(addr string) (bool, error) {
	g.mu.Lock()
	g.checks = append(g.checks, addr)
	if g.name != nil {
		if n := g.name(addr); n != "" {
			g.rec.emit(Event{Op: "AllowCheck", P: n})
		}
	}
	g.bump()
	g.mu.Unlock()
	return false, nil
}

func (g *gatePS) AddPeer(addr string) error {
	g.mu.Lock()
	first := !g.addCalls[addr]
	g.addCalls[addr] = true
	var ch chan struct{}
	if g.holdAll || g.holds[addr] != nil {
		if g.holds[addr] == nil {
			g.holds[addr] = make(chan struct{})
		}
		ch = g.holds[addr]
	}
	if first && g.name != nil {
		if n := g.name(addr); n != "" {
			g.rec.emit(Event{Op: "Handshake", P: n})
		}
	}
	g.bump()
	g.mu.Unlock()
	if ch != nil {
		<-ch
	}
	return g.EphemeralPeerStore.AddPeer(addr)
}

func (g *gatePS) hold(addr string) {
	g.mu.Lock()
	if g.holds[addr] == nil {
		g.holds[addr] = make(chan struct{})
	}
	g.mu.Unlock()
}

func (g *gatePS) releaseAdd(addr string) {
	g.mu.Lock()
	if ch := g.holds[addr]; ch != nil {
		select {
		case <-ch:
		default:
			close(ch)
		}
	}
	g.mu.Unlock()
}

func (g *gatePS) releaseAllAdds() {
	g.mu.Lock()
	g.holdAll = false
	for _, ch := range g.holds {
		select {
		case <-ch:
		default:
			close(ch)
		}
	}
	g.mu.Unlock()
}

func (g *gatePS) numChecks() int { g.mu.Lock(); defer g.mu.Unlock(); return len(g.checks) }
func (g *gatePS) addCalled(addr string) bool {
	g.mu.Lock()
	defer g.mu.Unlock()
	return g.addCalls[addr]
}
func (g *gatePS) changeCh() <-chan struct{} { g.mu.Lock(); defer g.mu.Unlock(); return g.changed }

// ---------------------------------------------------------------- the syncer under test

type node struct {
	s       *syncer.Syncer
	cm      *gateCM
	ps      *gatePS
	rec     *recorder
	l       net.Listener
	genesis types.BlockID
	runErr  chan error

	closeOnce sync.Once
	closed    chan struct{} // closed when Syncer.Close has returned
	closeCall atomic.Bool

	close2Once sync.Once
	closed2    chan struct{} // closed when a SECOND, overlapping Syncer.Close has returned
}

type nodeCfg struct {
	Prefix4                int // WithInflightRPCSubnetPrefixes(Prefix4, 128); 0 = 32
	MaxInflight, MaxSubnet int
	MaxIn, MaxOut          int
	Discovery              time.Duration
	SubnetOf               func(p int) string
}

var (
	netOnce    sync.Once
	netGenesis types.Block
	netStoreMu sync.Mutex
)

func newNode(c nodeCfg) (*node, error) {
	n, genesis := testutil.Network()
	store, ts, err := chain.NewDBStore(chain.NewMemDB(), n, genesis, nil)
	if err != nil {
		return nil, err
	}
	rec := &recorder{}
	if c.SubnetOf == nil {
		c.SubnetOf = func(p int) string { return pname(p) }
	}
	if c.Discovery == 0 {
		c.Discovery = time.Hour
	}
	if c.Prefix4 == 0 {
		c.Prefix4 = 32
	}
	nd := &node{rec: rec, genesis: genesis.ID(), runErr: make(chan error, 1), closed: make(chan struct{}), closed2: make(chan struct{})}
	nd.cm = newGateCM(chain.NewManager(store, ts), rec, c.SubnetOf)
	nd.ps = newGatePS(rec)
	l, err := net.Listen("tcp", "127.0.0.1:0")
	if err != nil {
		return nil, err
	}
	nd.l = l
	nd.s = syncer.New(l, nd.cm, nd.ps, gateway.Header{GenesisID: genesis.ID(), UniqueID: gateway.GenerateUniqueID(), NetAddress: l.Addr().String()},
		syncer.WithMaxInflightRPCs(c.MaxInflight), syncer.WithMaxInflightRPCsPerSubnet(c.MaxSubnet),
		syncer.WithInflightRPCSubnetPrefixes(c.Prefix4, 128),
		syncer.WithMaxInboundPeers(c.MaxIn), syncer.WithMaxOutboundPeers(c.MaxOut),
		syncer.WithSyncInterval(time.Hour), syncer.WithPeerDiscoveryInterval(c.Discovery),
		syncer.WithConnectTimeout(2*time.Minute), syncer.WithRPCTimeout(10*time.Minute), syncer.WithMaxSendBlocks(10))
	go func() { nd.runErr <- nd.s.Run() }()
	return nd, nil
}

// beginClose calls Syncer.Close in a goroutine (StopBegin); nd.closed is closed when it returns.
func (nd *node) beginClose() {
	nd.closeOnce.Do(func() {
		nd.closeCall.Store(true)
		go func() {
			nd.s.Close()
			close(nd.closed)
		}()
	})
}

// beginClose2 calls Syncer.Close a second time while the first call may still be waiting (Stop2Begin).
func (nd *node) beginClose2() {
	nd.close2Once.Do(func() {
		go func() {
			nd.s.Close()
			close(nd.closed2)
		}()
	})
}

func (nd *node) close2Returned() bool {
	select {
	case <-nd.closed2:
		return true
	default:
		return false
	}
}

func (nd *node) closeReturned() bool {
	select {
	case <-nd.closed:
		return true
	default:
		return false
	}
}

// shutdown releases everything and waits for Close (cleanup at the end of a scenario).
func (nd *node) shutdown(d time.Duration) bool {
	nd.cm.releaseAll()
	nd.ps.releaseAllAdds()
	nd.beginClose()
	select {
	case <-nd.closed:
		return true
	case <-time.After(d):
		return false
	}
}

func (nd *node) inboundPeers() (n int) {
	for _, p := range nd.s.Peers() {
		if p.Inbound {
			n++
		}
	}
	return
}

func (nd *node) outboundPeers() (n int) {
	for _, p := range nd.s.Peers() {
		if !p.Inbound {
			n++
		}
	}
	return
}

func (nd *node) hasPeer(addr string) bool {
	for _, p := range nd.s.Peers() {
		if p.Addr() == addr {
			return true
		}
	}
	return false
}

// ---------------------------------------------------------------- raw gateway clients

// A client is a remote peer: a TCP connection from a chosen loopback address and, after the
// handshake, a gateway transport on which tagged SendV2Blocks RPCs are issued.
type client struct {
	idx     int
	srcIP   string
	port    int // claimed dial-back port: the syncer's key for this peer is srcIP:port
	conn    net.Conn
	t       *gateway.Transport
	genesis types.BlockID

	mu       sync.Mutex
	outcomes map[int]string // rpc -> "answered" | "failed"
	changed  chan struct{}
}

func subnetIP(i int) string { return fmt.Sprintf("127.0.1.%d", i+1) }

// An addrPlan realises the specification's peer -> subnet MAP with real loopback addresses and a
// configured IPv4 prefix length (WithInflightRPCSubnetPrefixes), so that the subnet limit is
// exercised over DISTINCT addresses that fall into one configured subnet, and over the same
// addresses under a prefix that separates them:
//
//	same32   /32  the peers of subnet i share the address 127.0.1.(i+1) (ports differ)
//	net24    /24  subnet i = 127.0.(20+i).0/24, peer p dials from 127.0.(20+i).p
//	net16    /16  subnet i = 127.(20+i).0.0/16, peer p dials from 127.(20+i).p.1
//	split32  /32  peer p dials from 127.0.20.p -- the addresses that share a subnet under net24 are
//	              subnets of their own here; only for maps in which no two peers share a subnet
type addrPlan string

var addrPlans = []addrPlan{"same32", "net24", "net16", "split32"}

func (a addrPlan) bits() int {
	switch a {
	case "net24":
		return 24
	case "net16":
		return 16
	}
	return 32
}

func (a addrPlan) peerIP(sub, p int) string {
	switch a {
	case "net24":
		return fmt.Sprintf("127.0.%d.%d", 20+sub, p)
	case "net16":
		return fmt.Sprintf("127.%d.%d.1", 20+sub, p)
	case "split32":
		return fmt.Sprintf("127.0.20.%d", p)
	}
	return subnetIP(sub)
}

// key is the inflightSubnet key the syncer must use for that peer: the NETWORK in CIDR notation.
func (a addrPlan) key(sub, p int) string {
	switch a {
	case "net24":
		return fmt.Sprintf("127.0.%d.0/24", 20+sub)
	case "net16":
		return fmt.Sprintf("127.%d.0.0/16", 20+sub)
	}
	return a.peerIP(sub, p) + "/32"
}

// valid: split32 needs every peer alone in its subnet.
func (a addrPlan) valid(shared bool) bool { return a != "split32" || !shared }

var (
	aliasOnce sync.Once
	aliasOK   bool
)

// loopbackAliases reports whether addresses other than 127.0.0.1 can be bound on this machine;
// if not, only the same32 plan is used (counted, never an error).
func loopbackAliases() bool {
	aliasOnce.Do(func() {
		aliasOK = true
		for _, ip := range []string{"127.0.20.1", "127.21.2.1", "127.0.1.2"} {
			l, err := net.Listen("tcp", ip+":0")
			if err != nil {
				aliasOK = false
				return
			}
			l.Close()
		}
	})
	return aliasOK
}

// plansFor lists the address plans that realise a peer -> subnet map.
func plansFor(subnets map[string]string) []addrPlan {
	if !loopbackAliases() {
		return []addrPlan{"same32"}
	}
	shared := false
	seen := map[string]bool{}
	for _, s := range subnets {
		if seen[s] {
			shared = true
		}
		seen[s] = true
	}
	var ps []addrPlan
	for _, a := range addrPlans {
		if a.valid(shared) {
			ps = append(ps, a)
		}
	}
	return ps
}

func newClient(idx int, srcIP string, port int, genesis types.BlockID) *client {
	return &client{idx: idx, srcIP: srcIP, port: port, genesis: genesis, outcomes: map[int]string{}, changed: make(chan struct{})}
}

func (c *client) addr() string { return net.JoinHostPort(c.srcIP, fmt.Sprint(c.port)) }

// connect opens the TCP connection only: the syncer runs allowConnect and then waits for our
// version/header (the handshake does not start before shake is called).
func (c *client) connect(srv string) error {
	d := net.Dialer{LocalAddr: &net.TCPAddr{IP: net.ParseIP(c.srcIP)}, Timeout: 20 * time.Second}
	conn, err := d.Dial("tcp", srv)
	if err != nil {
		return err
	}
	c.conn = conn
	return nil
}

func (c *client) shake() error {
	c.conn.SetDeadline(time.Now().Add(60 * time.Second))
	t, err := gateway.Dial(c.conn, gateway.Header{GenesisID: c.genesis, UniqueID: gateway.GenerateUniqueID(), NetAddress: net.JoinHostPort("127.0.0.1", fmt.Sprint(c.port))})
	if err != nil {
		return err
	}
	c.conn.SetDeadline(time.Time{})
	c.t = t
	return nil
}

func (c *client) close() {
	if c.t != nil {
		c.t.Close()
	}
	if c.conn != nil {
		c.conn.Close()
	}
}

func (c *client) setOutcome(r int, o string) {
	c.mu.Lock()
	if _, ok := c.outcomes[r]; !ok {
		c.outcomes[r] = o
	}
	close(c.changed)
	c.changed = make(chan struct{})
	c.mu.Unlock()
}

func (c *client) outcome(r int) string {
	c.mu.Lock()
	defer c.mu.Unlock()
	return c.outcomes[r]
}

func (c *client) changeCh() <-chan struct{} { c.mu.Lock(); defer c.mu.Unlock(); return c.changed }

// send issues RPC r: opens a stream, writes the id and the tagged request, and reads the
// response in the background.  onDone (optional) is called with the outcome.
func (c *client) send(r int, onDone func(outcome string)) {
	fail := func() {
		c.setOutcome(r, "failed")
		if onDone != nil {
			onDone("failed")
		}
	}
	if c.t == nil {
		fail()
		return
	}
	req := &gateway.RPCSendV2Blocks{History: []types.BlockID{tagID(c.idx, r)}, Max: 1}
	s, err := c.t.DialStream()
	if err != nil {
		fail()
		return
	}
	s.SetDeadline(time.Now().Add(10 * time.Minute))
	if err := s.WriteID(req); err != nil {
		s.Close()
		fail()
		return
	} else if err := s.WriteRequest(req); err != nil {
		s.Close()
		fail()
		return
	}
	go func() {
		defer s.Close()
		if err := s.ReadResponse(req); err != nil {
			fail()
			return
		}
		c.setOutcome(r, "answered")
		if onDone != nil {
			onDone("answered")
		}
	}()
}

// ---------------------------------------------------------------- waiting

// waitFor polls cond (re-evaluated whenever one of the change channels fires or every 2 ms)
// until it holds or the deadline passes.
func waitFor(d time.Duration, cond func() bool) bool {
	deadline := time.Now().Add(d)
	for {
		if cond() {
			return true
		}
		if time.Now().After(deadline) {
			return false
		}
		time.Sleep(2 * time.Millisecond)
	}
}

func sortedKeys(m map[rpcKey]bool) []string {
	var ks []string
	for k := range m {
		ks = append(ks, fmt.Sprintf("%s.%d", pname(k.p), k.r))
	}
	sort.Strings(ks)
	return ks
}

var errTimeout = errors.New("timeout")

var _ = context.Background
var _ = strings.Join
