// Package hx holds the protocol between /verif/check (tools/vlib.py) and the Go harness tests:
// input from $VERIF_IN (JSON), result to $VERIF_OUT (JSON), randomness from $VERIF_SEED.
package hx

import (
	"bufio"
	"encoding/json"
	"fmt"
	"math/rand"
	"os"
	"sort"
	"strconv"
	"sync"
)

// A Mismatch is a discrepancy between the specification (oracle) and the real code.
type Mismatch struct {
	Sig    string `json:"sig"`    // short machine-readable signature, matched against known_findings.json
	Desc   string `json:"desc"`   // human-readable description
	Replay any    `json:"replay"` // what is needed to re-execute exactly this case
}

// Result is what every harness test writes to $VERIF_OUT.
type Result struct {
	mu          sync.Mutex
	Evaluations int            `json:"evaluations"`
	Distinct    int            `json:"distinct"`
	Mismatches  []Mismatch     `json:"mismatches"`
	Samples     []any          `json:"samples"`
	Counts      map[string]int `json:"counts"`
	Notes       []string       `json:"notes"`
	Traces      int            `json:"traces"`
	distinct    map[string]struct{}
	perSig      map[string]int
}

func NewResult() *Result {
	return &Result{Counts: map[string]int{}, distinct: map[string]struct{}{}}
}

func (r *Result) Eval(key string) {
	r.mu.Lock()
	defer r.mu.Unlock()
	r.Evaluations++
	if key != "" {
		r.distinct[key] = struct{}{}
	}
}

func (r *Result) Count(k string, n int) {
	r.mu.Lock()
	defer r.mu.Unlock()
	r.Counts[k] += n
}

func (r *Result) Sample(s any) {
	r.mu.Lock()
	defer r.mu.Unlock()
	if len(r.Samples) < 4 {
		r.Samples = append(r.Samples, s)
	}
}

func (r *Result) Note(format string, a ...any) {
	r.mu.Lock()
	defer r.mu.Unlock()
	if len(r.Notes) < 50 {
		r.Notes = append(r.Notes, fmt.Sprintf(format, a...))
	}
}

func (r *Result) Mismatch(sig, desc string, replay any) {
	r.mu.Lock()
	defer r.mu.Unlock()
	// at most 5 per signature (the first ones), 300 in total
	if r.perSig == nil {
		r.perSig = map[string]int{}
	}
	r.perSig[sig]++
	if r.perSig[sig] <= 5 && len(r.Mismatches) < 300 {
		r.Mismatches = append(r.Mismatches, Mismatch{sig, desc, replay})
	}
}

func (r *Result) NumMismatches() int {
	r.mu.Lock()
	defer r.mu.Unlock()
	return len(r.Mismatches)
}

// Write stores the result; call it (deferred) from every harness test.
func (r *Result) Write() {
	r.mu.Lock()
	defer r.mu.Unlock()
	r.Distinct = len(r.distinct)
	if r.Mismatches == nil {
		r.Mismatches = []Mismatch{}
	}
	if r.Samples == nil {
		r.Samples = []any{}
	}
	p := os.Getenv("VERIF_OUT")
	if p == "" {
		p = "/dev/stdout"
	}
	f, err := os.Create(p)
	if err != nil {
		panic(err)
	}
	defer f.Close()
	enc := json.NewEncoder(f)
	if err := enc.Encode(r); err != nil {
		panic(err)
	}
}

func Seed() int64 {
	s, err := strconv.ParseInt(os.Getenv("VERIF_SEED"), 10, 64)
	if err != nil {
		return 1
	}
	return s
}

func Rand(salt int64) *rand.Rand { return rand.New(rand.NewSource(Seed()*1000003 + salt)) }

func EnvInt(name string, def int) int {
	if v, err := strconv.Atoi(os.Getenv(name)); err == nil {
		return v
	}
	return def
}

func Env(name, def string) string {
	if v := os.Getenv(name); v != "" {
		return v
	}
	return def
}

// ReadIn decodes $VERIF_IN into v.
func ReadIn(v any) error {
	p := os.Getenv("VERIF_IN")
	if p == "" {
		return fmt.Errorf("VERIF_IN not set")
	}
	f, err := os.Open(p)
	if err != nil {
		return err
	}
	defer f.Close()
	return json.NewDecoder(f).Decode(v)
}

// A TraceWriter appends NDJSON events (one spec action per line) for Leg T.
type TraceWriter struct {
	mu sync.Mutex
	f  *os.File
	w  *bufio.Writer
	N  int
}

func NewTraceWriter(path string) (*TraceWriter, error) {
	f, err := os.Create(path)
	if err != nil {
		return nil, err
	}
	return &TraceWriter{f: f, w: bufio.NewWriterSize(f, 1<<20)}, nil
}

func (t *TraceWriter) Emit(ev any) {
	b, err := json.Marshal(ev)
	if err != nil {
		panic(err)
	}
	t.mu.Lock()
	defer t.mu.Unlock()
	t.w.Write(b)
	t.w.WriteByte('\n')
	t.N++
}

func (t *TraceWriter) Close() error {
	t.mu.Lock()
	defer t.mu.Unlock()
	if err := t.w.Flush(); err != nil {
		return err
	}
	return t.f.Close()
}

// SortedKeys returns the sorted keys of a map.
func SortedKeys[V any](m map[string]V) []string {
	ks := make([]string, 0, len(m))
	for k := range m {
		ks = append(ks, k)
	}
	sort.Strings(ks)
	return ks
}

// JSON renders v compactly (for descriptions / keys).
func JSON(v any) string {
	b, _ := json.Marshal(v)
	return string(b)
}
