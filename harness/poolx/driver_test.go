package poolx

import (
	"fmt"
	"math/rand"
	"os"
	"path/filepath"
	"strings"
	"sync"
	"testing"

	"go.sia.tech/core/types"
	"verifharness/hx"
	"verifharness/mat"
)

// ---------------------------------------------------------------- Leg T: randomised histories

// A hist is one random history: a growing fork tree, a growing catalogue, one real node.
type hist struct {
	x    *Exec
	s    *Scen
	rng  *rand.Rand
	mode string // "c14" | "c05" | "c13"
	// abstract nodes by status
	applied map[int]bool
	side    []int           // submitted, never applied
	fat     bool            // pool-full history: big transactions
	fatSize int             // bytes of arbitrary data per transaction while set (0: the ~0.9 MB default of fat histories)
	fee     *types.Currency // fee of the next transactions while set (scripted histories control fee rates)
	plain   bool            // scripted histories: blocks carry no contract operations of their own
	long    bool            // C13: long branches around the 144 boundary
	farNode int             // long histories: the end of the losing branch (more than 144 blocks from the tip)
}

func (h *hist) tipLedger() *mat.Ledger { return h.s.Ledger(h.x.Tip) }

func (h *hist) pooledInputs() map[types.Hash256]bool {
	used := map[types.Hash256]bool{}
	for _, n := range append(append([]int{}, h.x.p1...), h.x.p2...) {
		if n >= 1 && n <= len(h.s.Txs) {
			for _, in := range h.s.Tx(n).Ins {
				used[in] = true
			}
		}
	}
	return used
}

var oneSC = types.Siacoins(1)

// freshInput picks a spendable element of l that neither the pool nor `avoid` uses.
func (h *hist) freshInput(l *mat.Ledger, avoid map[types.Hash256]bool) (types.SiacoinElement, bool) {
	var cands []types.SiacoinElement
	for _, e := range h.s.W.SpendableSC(l) {
		if !avoid[types.Hash256(e.ID)] && e.SiacoinOutput.Value.Cmp(oneSC.Mul64(4)) > 0 {
			cands = append(cands, e)
		}
	}
	if len(cands) == 0 {
		return types.SiacoinElement{}, false
	}
	return cands[h.rng.Intn(len(cands))], true
}

func (h *hist) newTx(l *mat.Ledger, v2 bool, ins []types.SiacoinElement, nOuts int) *mat.PoolTx {
	fat := 0
	if h.fatSize > 0 {
		fat = h.fatSize + h.rng.Intn(1000)
	} else if h.fat {
		fat = 900_000 + h.rng.Intn(50_000)
	}
	fee := oneSC.Div64(uint64(1 + h.rng.Intn(4)))
	if h.fee != nil {
		fee = *h.fee
	}
	return h.s.Catalogue(h.s.W.NewSiacoinPoolTx(l.CS, v2, ins, nOuts, fee, h.s.nextTag(), fat))
}

func outElem(p *mat.PoolTx, i int) types.SiacoinElement {
	if p.V2 {
		return types.SiacoinElement{ID: types.SiacoinOutputID(p.Outs[i]), SiacoinOutput: p.T2.SiacoinOutputs[i]}
	}
	return types.SiacoinElement{ID: types.SiacoinOutputID(p.Outs[i]), SiacoinOutput: p.T1.SiacoinOutputs[i]}
}

func spendable(p *mat.PoolTx, i int) bool {
	return outElem(p, i).SiacoinOutput.Value.Cmp(oneSC.Mul64(4)) > 0
}

// genSet builds a submission of the given shape against the ledger of `basis`.
func (h *hist) genSet(basis int) (kind string, set []Inst, shape string) {
	l := h.tipLedger()
	if basis >= 1 && basis <= h.s.NumAbs() && h.s.Ledger(basis) != nil {
		l = h.s.Ledger(basis)
	}
	v2 := h.s.Regime == "v2" || h.rng.Intn(10) < 7
	if h.s.Regime == "v2" && h.rng.Intn(12) == 0 {
		v2 = false // v1 after the require height: must be refused
	}
	if strings.HasPrefix(h.s.Regime, "boundary") {
		// mostly what the regime at the tip admits, sometimes what it refuses
		th := h.tipLedger().Height()
		switch {
		case th+1 < h.s.W.N.HardforkV2.AllowHeight:
			v2 = h.rng.Intn(8) == 0
		case th+1 >= h.s.W.N.HardforkV2.RequireHeight:
			v2 = h.rng.Intn(10) != 0
		default:
			v2 = h.rng.Intn(2) == 0
		}
	}
	kind = "v1"
	if v2 {
		kind = "v2"
	}
	avoid := h.pooledInputs()
	fresh := func() *mat.PoolTx {
		e, ok := h.freshInput(l, avoid)
		if !ok {
			return nil
		}
		avoid[types.Hash256(e.ID)] = true
		return h.newTx(l, v2, []types.SiacoinElement{e}, 1+h.rng.Intn(2))
	}
	add := func(p *mat.PoolTx) {
		if p != nil {
			set = append(set, Inst{T: p.Name})
		}
	}
	pool := h.x.p2
	if !v2 {
		pool = h.x.p1
	}
	shapes := []string{"fresh", "fresh", "chain", "chain", "conflict-pool", "conflict-pool", "partly-known", "all-known", "bad", "double-spend", "missing-parent", "child-of-pool", "two-inputs", "mixed-inputs", "mixed-inputs"}
	shape = shapes[h.rng.Intn(len(shapes))]
	if v2 && h.mode != "c13" && h.rng.Intn(3) == 0 {
		// a storage-proof resolution for a confirmed contract whose proof window is open (blocks of
		// these modes never revise contracts, so the transaction stays valid until it is confirmed)
		if sp := h.storageProofs(l, 1+h.rng.Intn(2)); len(sp) > 0 {
			shape = "storage-proof"
			for _, p := range sp {
				set = append(set, Inst{T: p.Name})
			}
			if h.rng.Intn(2) == 0 {
				add(fresh())
			}
			return
		}
	}
	switch shape {
	case "fresh":
		for i := 0; i < 1+h.rng.Intn(3); i++ {
			add(fresh())
		}
	case "chain":
		p := fresh()
		add(p)
		for d := 0; p != nil && d < 1+h.rng.Intn(2) && spendable(p, 0); d++ {
			p = h.newTx(l, v2, []types.SiacoinElement{outElem(p, 0)}, 1+h.rng.Intn(2))
			add(p)
		}
	case "conflict-pool":
		// some member spends an input that a pooled transaction (of either version) already spends
		var victims []types.SiacoinElement
		for _, n := range append(append([]int{}, h.x.p1...), h.x.p2...) {
			for _, in := range h.s.Tx(n).Ins {
				if e, ok := l.SC[types.SiacoinOutputID(in)]; ok && e.SiacoinOutput.Value.Cmp(oneSC.Mul64(4)) > 0 {
					victims = append(victims, e.Copy())
				}
			}
		}
		n := 1 + h.rng.Intn(3)
		pos := h.rng.Intn(n)
		for i := 0; i < n; i++ {
			if i == pos && len(victims) > 0 {
				add(h.newTx(l, v2, []types.SiacoinElement{victims[h.rng.Intn(len(victims))]}, 1))
			} else {
				add(fresh())
			}
		}
	case "partly-known":
		if len(pool) > 0 {
			k := 1 + h.rng.Intn(len(pool))
			for _, n := range pool[:k] {
				set = append(set, Inst{T: n})
			}
		}
		add(fresh())
	case "all-known":
		if len(pool) > 0 {
			k := 1 + h.rng.Intn(len(pool))
			for _, n := range pool[:k] {
				set = append(set, Inst{T: n})
			}
		} else {
			add(fresh())
		}
	case "bad":
		n := 1 + h.rng.Intn(3)
		for i := 0; i < n; i++ {
			add(fresh())
		}
		if len(set) > 0 {
			set[h.rng.Intn(len(set))].Bad = true
		}
	case "double-spend":
		e, ok := h.freshInput(l, avoid)
		if ok {
			add(h.newTx(l, v2, []types.SiacoinElement{e}, 1))
			if h.rng.Intn(2) == 0 {
				add(fresh())
			}
			add(h.newTx(l, v2, []types.SiacoinElement{e}, 2))
		}
	case "missing-parent":
		if p := fresh(); p != nil && spendable(p, 0) {
			add(h.newTx(l, v2, []types.SiacoinElement{outElem(p, 0)}, 1)) // the parent is not submitted
		}
	case "child-of-pool":
		// the pooled ancestors (known) followed by a new child of the last of them
		if len(pool) > 0 {
			k := 1 + h.rng.Intn(len(pool))
			last := h.s.Tx(pool[k-1])
			for _, n := range pool[:k] {
				set = append(set, Inst{T: n})
			}
			if len(last.Outs) > 0 && spendable(last, 0) && !avoid[last.Outs[0]] {
				if _, confirmed := l.SC[types.SiacoinOutputID(last.Outs[0])]; !confirmed || true {
					add(h.newTx(l, v2, []types.SiacoinElement{outElem(last, 0)}, 1))
				}
			}
		} else {
			add(fresh())
		}
	case "mixed-inputs":
		// a child with one CONFIRMED and one EPHEMERAL input, in either order
		p := fresh()
		add(p)
		if e, ok := h.freshInput(l, avoid); ok && p != nil && spendable(p, 0) {
			avoid[types.Hash256(e.ID)] = true
			ins := []types.SiacoinElement{e, outElem(p, 0)}
			if h.rng.Intn(2) == 0 {
				ins[0], ins[1] = ins[1], ins[0]
			}
			add(h.newTx(l, v2, ins, 1+h.rng.Intn(2)))
		}
	case "two-inputs":
		p := fresh()
		q := fresh()
		add(p)
		add(q)
		if p != nil && q != nil && spendable(p, 0) && spendable(q, 0) {
			add(h.newTx(l, v2, []types.SiacoinElement{outElem(p, 0), outElem(q, 0)}, 1))
		}
	}
	return
}

func (h *hist) pickBasis() int {
	r := h.rng.Intn(100)
	switch {
	case r < 62:
		return h.x.Tip
	case r < 80: // an ancestor of the tip
		b := h.x.Tip
		for k := 0; k < 1+h.rng.Intn(3) && h.s.Node(b).Parent > h.s.Warm; k++ {
			b = h.s.Abs(h.s.Node(b).Parent)
		}
		return b
	case r < 92: // any applied node (other branches)
		var c []int
		for n := range h.applied {
			c = append(c, n)
		}
		sortInts(c)
		return c[h.rng.Intn(len(c))]
	case r < 96 && len(h.side) > 0:
		return h.side[h.rng.Intn(len(h.side))]
	case r < 98:
		return 0 // unknown
	}
	return h.x.Tip
}

func sortInts(a []int) {
	for i := 1; i < len(a); i++ {
		for j := i; j > 0 && a[j] < a[j-1]; j-- {
			a[j], a[j-1] = a[j-1], a[j]
		}
	}
}

// grow adds blocks (extension of the tip or a fork that ends higher than the tip) and submits them.
func (h *hist) grow() {
	parent := h.x.Tip
	n := 1
	if h.rng.Intn(100) < 35 {
		back := 1 + h.rng.Intn(3)
		for k := 0; k < back && h.s.Node(parent).Parent > h.s.Warm; k++ {
			parent = h.s.Abs(h.s.Node(parent).Parent)
		}
		n = int(h.s.Node(h.x.Tip).Height-h.s.Node(parent).Height) + 1
		if h.rng.Intn(5) == 0 {
			n-- // a side branch that does not become the best chain
		}
	}
	if n < 1 {
		n = 1
	}
	last := parent
	for i := 0; i < n; i++ {
		last = h.addBlock(last)
	}
	// mostly hand over the whole chain at once, sometimes block by block
	if n > 1 && h.rng.Intn(4) == 0 {
		var path []int
		for b := last; b != parent; b = h.s.Abs(h.s.Node(b).Parent) {
			path = append([]int{b}, path...)
		}
		for _, b := range path {
			h.submit(b)
		}
	} else {
		h.submit(last)
	}
}

func (h *hist) submit(to int) {
	before := h.x.Tip
	h.x.Submit(to)
	if h.x.dead {
		return
	}
	// bookkeeping: which nodes were applied
	for b := h.x.Tip; b >= 1 && !h.applied[b]; b = h.s.Abs(h.s.Node(b).Parent) {
		h.applied[b] = true
	}
	if h.x.Tip == before && to != before && !h.applied[to] {
		h.side = append(h.side, to)
	}
}

// addBlock mines one child of abstract node `parent`: confirms a prefix of the pool, or conflicts
// with it, or leaves it alone, plus random operations of the chain catalogue.
func (h *hist) addBlock(parent int) int {
	l := h.s.Ledger(parent)
	mode := h.rng.Intn(100)
	pooled := h.pooledInputs()
	nd := h.s.Tree.AddCustom(parent+h.s.Warm, h.rng, 0, func(b *mat.Builder) {
		switch {
		case mode < 30: // confirm a prefix of the reported pool (as far as it is valid on this parent)
			k1, k2 := 0, 0
			if len(h.x.p1) > 0 {
				k1 = h.rng.Intn(len(h.x.p1) + 1)
			}
			if len(h.x.p2) > 0 {
				k2 = h.rng.Intn(len(h.x.p2) + 1)
			}
			have := map[types.Hash256]bool{}
			ok := func(p *mat.PoolTx) bool {
				for _, in := range p.Ins {
					if _, in1 := l.SC[types.SiacoinOutputID(in)]; !in1 && !have[in] {
						return false
					}
					if have[in] {
						// spent earlier in this block?
					}
				}
				return true
			}
			spentHere := map[types.Hash256]bool{}
			var weight uint64
			put := func(n int) {
				p := h.s.Tx(n)
				if !ok(p) {
					return
				}
				w := l.CS.TransactionWeight(p.T1)
				if p.V2 {
					w = l.CS.V2TransactionWeight(p.T2)
				}
				if weight+w > l.CS.MaxBlockWeight()*9/10 {
					return
				}
				weight += w
				for _, in := range p.Ins {
					if spentHere[in] {
						return
					}
				}
				if lo, hi := h.s.Window(p); int(l.Height()) < lo || int(l.Height()) > hi {
					return // not valid in a child of this parent (hardfork regime / signature epoch)
				}
				for _, in := range p.Ins {
					spentHere[in] = true
				}
				for _, o := range p.Outs {
					have[o] = true
				}
				b.AddPoolTx(p)
			}
			for _, n := range h.x.p1[:k1] {
				put(n)
			}
			for _, n := range h.x.p2[:k2] {
				put(n)
			}
			for id := range pooled {
				b.MarkUsed(id)
			}
		case mode < 50: // a transaction that conflicts with a pooled one gets confirmed instead
			var victims []types.SiacoinElement
			for id := range pooled {
				if e, ok := l.SC[types.SiacoinOutputID(id)]; ok && e.SiacoinOutput.Value.Cmp(oneSC.Mul64(4)) > 0 {
					victims = append(victims, e.Copy())
				}
			}
			if len(victims) > 0 {
				sortElems(victims)
				e := victims[h.rng.Intn(len(victims))]
				v2 := h.s.Regime == "v2" || h.rng.Intn(2) == 0
				if l.Height()+1 < h.s.W.N.HardforkV2.AllowHeight {
					v2 = false
				} else if l.Height()+1 >= h.s.W.N.HardforkV2.RequireHeight {
					v2 = true
				}
				p := h.newTx(l, v2, []types.SiacoinElement{e}, 1)
				b.AddPoolTx(p)
			}
			for id := range pooled {
				b.MarkUsed(id)
			}
		case mode < 80: // leave the pool alone
			for id := range pooled {
				b.MarkUsed(id)
			}
		default: // random operations may or may not hit pooled inputs
		}
		ops := h.rng.Intn(3)
		if h.mode != "c13" && !h.plain && !h.long && !h.fat && h.rng.Intn(6) == 0 {
			b.Do("fc2") // v2 contracts to prove storage for (pooled storage-proof resolutions)
		}
		if h.mode == "c13" && !h.plain {
			ops = 1 + h.rng.Intn(3)
			for _, op := range []string{"fc2", "rev2", "sp2", "exp2", "renew2"} {
				if h.rng.Intn(4) == 0 {
					b.Do(op)
				}
			}
		}
		if h.long {
			ops = 0
			if h.rng.Intn(6) == 0 {
				ops = 1
			}
		}
		for i := 0; i < ops; i++ {
			if h.s.Regime == "v2" || h.rng.Intn(2) == 0 {
				if !b.Do("sc2") {
					b.Do("sc1")
				}
			} else if !b.Do("sc1") {
				b.Do("sc2")
			}
		}
	})
	if nd.Cls != "ok" || nd.L == nil {
		h.x.mismatch("harness:block-invalid", "generated block %d (ops %v) is %s", h.s.Abs(nd.ID), nd.Ops, nd.Cls)
		h.x.dead = true
	}
	return h.s.Abs(nd.ID)
}

func sortElems(a []types.SiacoinElement) {
	for i := 1; i < len(a); i++ {
		for j := i; j > 0 && string(a[j].ID[:]) < string(a[j-1].ID[:]); j-- {
			a[j], a[j-1] = a[j-1], a[j]
		}
	}
}

// mineAdopt assembles a block from the reported pool, makes it part of the tree and gives it to
// the node: everything pooled becomes confirmed.
func (h *hist) mineAdopt() {
	h.x.ensureFresh()
	if h.x.dead {
		return
	}
	v1 := h.x.N.CM.PoolTransactions()
	v2 := h.x.N.CM.V2PoolTransactions()
	l := h.tipLedger()
	if _, err := validatePrefixes(l, v1, v2); err != nil {
		return // already reported by Obs
	}
	cs := l.CS
	var w uint64
	var m1 []types.Transaction
	var m2 []types.V2Transaction
	for _, t := range v1 {
		if w += cs.TransactionWeight(t); w > cs.MaxBlockWeight() {
			break
		}
		m1 = append(m1, t)
	}
	if len(m1) == len(v1) {
		for _, t := range v2 {
			if w += cs.V2TransactionWeight(t); w > cs.MaxBlockWeight() {
				break
			}
			m2 = append(m2, t)
		}
	}
	blk := h.s.W.AssembleBlock(l, m1, m2, h.s.nextTag())
	nd := h.s.Tree.AddBlock(h.x.Tip+h.s.Warm, blk)
	if nd.Cls != "ok" || nd.L == nil {
		h.x.mismatch("audit:c05:mine:adopted-block-invalid", "the block assembled from the reported pool %v %v on tip %d is %s for core", h.x.p1, h.x.p2, h.x.Tip, nd.Cls)
		h.x.dead = true
		return
	}
	h.x.Res.Count("mined_adopted", 1)
	h.submit(h.s.Abs(nd.ID))
}

// rebaseStep builds a set at a random applied node and rebases it to another.
func (h *hist) rebaseStep() {
	var nodes []int
	for n := range h.applied {
		nodes = append(nodes, n)
	}
	sortInts(nodes)
	from := nodes[h.rng.Intn(len(nodes))]
	to := nodes[h.rng.Intn(len(nodes))]
	if h.rng.Intn(3) == 0 { // near pairs
		to = from
		for k := 0; k < 1+h.rng.Intn(3) && h.s.Node(to).Parent > h.s.Warm; k++ {
			to = h.s.Abs(h.s.Node(to).Parent)
		}
		if h.rng.Intn(2) == 0 {
			from, to = to, from
		}
	}
	if h.long && h.rng.Intn(3) > 0 {
		from, to = h.boundaryPair(nodes)
	}
	r := h.rng.Intn(100)
	switch {
	case r < 3:
		to = 0
	case r < 6 && len(h.side) > 0:
		to = h.side[h.rng.Intn(len(h.side))]
	case r < 9 && len(h.side) > 0:
		from = h.side[h.rng.Intn(len(h.side))]
	}
	lf := h.s.Ledger(1)
	if from >= 1 {
		lf = h.s.Ledger(from)
	}
	set := h.genRebaseSet(lf)
	if len(set) == 0 {
		return
	}
	corrupt := "none"
	switch c := h.rng.Intn(100); {
	case c < 8:
		corrupt = "proof"
	case c < 12:
		corrupt = "leaf"
	case c < 15:
		corrupt = "leafbig"
	case c < 18:
		corrupt = "prooflen"
	case c < 22:
		corrupt = "basis"
	}
	h.x.Rebase(set, from, to, corrupt)
}

// boundaryPair picks (from, to) whose distance is close to the 144 limit.
func (h *hist) boundaryPair(nodes []int) (int, int) {
	best := [2]int{nodes[0], nodes[len(nodes)-1]}
	want := 140 + h.rng.Intn(10)
	if h.rng.Intn(2) == 0 {
		want = 143 + h.rng.Intn(4) // right at the limit: 143, 144 | 145, 146
	}
	bestDiff := 1 << 30
	for try := 0; try < 600 && bestDiff > 0; try++ {
		a, b := nodes[h.rng.Intn(len(nodes))], nodes[h.rng.Intn(len(nodes))]
		d := h.dist(a, b)
		diff := d - want
		if diff < 0 {
			diff = -diff
		}
		if diff < bestDiff {
			bestDiff, best = diff, [2]int{a, b}
		}
	}
	return best[0], best[1]
}

func (h *hist) dist(a, b int) int {
	pa, pb := h.s.Tree.PathTo(a+h.s.Warm), h.s.Tree.PathTo(b+h.s.Warm)
	k := 0
	for k < len(pa) && k < len(pb) && pa[k] == pb[k] {
		k++
	}
	return len(pa) - k + len(pb) - k
}

// genRebaseSet: transactions valid at the ledger l: confirmed inputs, parent/child chains
// (ephemeral inputs), mixed, pooled ones, contract revisions and resolutions.
func (h *hist) genRebaseSet(l *mat.Ledger) (set []int) {
	avoid := map[types.Hash256]bool{}
	fresh := func() *mat.PoolTx {
		e, ok := h.freshInput(l, avoid)
		if !ok {
			return nil
		}
		avoid[types.Hash256(e.ID)] = true
		return h.newTx(l, true, []types.SiacoinElement{e}, 1+h.rng.Intn(2))
	}
	add := func(p *mat.PoolTx) {
		if p != nil {
			set = append(set, p.Name)
		}
	}
	shape := h.rng.Intn(7)
	if h.long && h.rng.Intn(3) > 0 {
		shape = h.rng.Intn(2) // confirmed inputs only: the distance decides
	}
	switch shape {
	case 0:
		add(fresh())
	case 1:
		add(fresh())
		add(fresh())
	case 2, 3: // parent / child (/ grandchild)
		p := fresh()
		add(p)
		for d := 0; p != nil && d < 1+h.rng.Intn(2) && spendable(p, 0); d++ {
			p = h.newTx(l, true, []types.SiacoinElement{outElem(p, 0)}, 1+h.rng.Intn(2))
			add(p)
		}
	case 4: // mixed: a child with one confirmed and one ephemeral input
		p := fresh()
		add(p)
		if e, ok := h.freshInput(l, avoid); ok && p != nil && spendable(p, 0) {
			avoid[types.Hash256(e.ID)] = true
			add(h.newTx(l, true, []types.SiacoinElement{e, outElem(p, 0)}, 1))
		}
	case 5: // contract transactions
		for _, fce := range l.SortedV2() {
			switch h.rng.Intn(3) {
			case 0:
				add(h.s.Catalogue(h.s.W.NewRevisionPoolTx(l.CS, fce.Copy(), 1+uint64(h.rng.Intn(3)))))
			case 1:
				add(h.s.Catalogue(h.s.W.NewExpirationPoolTx(fce.Copy())))
			case 2:
				if cie, ok := l.CI[fce.V2FileContract.ProofHeight]; ok {
					add(h.s.Catalogue(h.s.W.NewStorageProofPoolTx(fce.Copy(), cie.Copy())))
				}
			}
			if len(set) >= 2 {
				break
			}
		}
		add(fresh())
	case 6: // what the pool holds (as a caller that kept its own copies would resubmit it)
		for _, n := range h.x.p2 {
			ok := true
			for _, in := range h.s.Tx(n).Ins {
				if !ledgerHas(l, in) {
					created := false
					for _, m := range set {
						for _, o := range h.s.Tx(m).Outs {
							created = created || o == in
						}
					}
					ok = ok && created
				}
			}
			if ok {
				set = append(set, n)
			}
		}
		if len(set) == 0 {
			add(fresh())
		}
	}
	return
}

// txsetStep asks for the broadcast set of a new child of pooled transactions, or of a pooled one.
func (h *hist) txsetStep() {
	h.x.ensureFresh()
	if h.x.dead {
		return
	}
	basis := h.x.Tip
	if h.rng.Intn(4) == 0 {
		basis = h.pickBasis()
		if basis < 1 || !h.applied[basis] {
			basis = h.x.Tip
		}
	}
	l := h.s.Ledger(basis)
	pool := h.x.p2
	avoid := h.pooledInputs()
	var ins []types.SiacoinElement
	// up to two outputs of pooled v2 transactions that nobody in the pool spends yet
	for _, k := range h.rng.Perm(len(pool)) {
		p := h.s.Tx(pool[k])
		for i := range p.Outs {
			if p.Shape == "sc" || p.Shape == "fat" {
				if !avoid[p.Outs[i]] && spendable(p, i) && len(ins) < 2 && h.rng.Intn(2) == 0 {
					ins = append(ins, outElem(p, i))
					avoid[p.Outs[i]] = true
				}
			}
		}
	}
	if h.rng.Intn(3) == 0 || len(ins) == 0 {
		if e, ok := h.freshInput(l, avoid); ok {
			ins = append(ins, e)
		}
	}
	if len(ins) == 0 {
		return
	}
	t := h.newTx(l, true, ins, 1)
	h.x.TxSet(t.Name, basis)
	if h.rng.Intn(2) == 0 && len(pool) > 0 {
		h.x.TxSet(pool[h.rng.Intn(len(pool))], h.x.Tip)
	}
}

func (h *hist) addStep() {
	h.x.ensureFresh()
	if h.x.dead {
		return
	}
	basis := h.pickBasis()
	kind, set, shape := h.genSet(basis)
	if len(set) == 0 {
		return
	}
	if kind == "v1" {
		basis = h.x.Tip
	}
	h.x.note("shape %s", shape)
	h.x.Res.Count("set_"+shape, 1)
	h.x.AddSet(kind, basis, set)
}

func (h *hist) run(steps int) {
	if err := h.x.Reset(); err != nil {
		h.x.mismatch("harness:reset", "%v", err)
		return
	}
	h.applied[1] = true
	for i := 0; i < steps && !h.x.dead; i++ {
		r := h.rng.Intn(100)
		if h.fat { // fill the pool: mostly submissions of 1 MB transactions
			switch {
			case r < 80:
				h.addStep()
			case r < 90:
				h.grow()
				h.x.Obs()
			default:
				h.x.ensureFresh()
				h.x.LookupSweep()
			}
			continue
		}
		switch h.mode {
		case "c14":
			switch {
			case r < 55:
				h.addStep()
			case r < 75:
				h.x.ensureFresh()
				h.x.LookupSweep()
			case r < 88:
				h.grow()
				if h.rng.Intn(5) > 0 {
					h.x.Obs()
				}
			case r < 94:
				h.txsetStep() // copies handed out with the broadcast set must not alias the pool
			default:
				h.mineAdopt()
				h.x.Obs()
			}
		case "c05":
			switch {
			case r < 38:
				h.addStep()
			case r < 78:
				h.grow()
				if h.rng.Intn(4) > 0 { // sometimes several reorgs pass before the pool is looked at
					h.x.Obs()
				}
			case r < 86:
				h.mineAdopt()
				h.x.Obs()
			case r < 92:
				h.x.MineStep()
			default:
				h.x.ensureFresh()
				h.x.LookupSweep()
			}
		case "c13":
			switch {
			case r < 18:
				h.addStep()
			case r < 40:
				h.grow()
				h.x.Obs()
			case r < 80:
				h.rebaseStep()
			case r < 92:
				h.txsetStep()
			case r < 96:
				h.hostileResubmissions(0)
			default:
				h.mineAdopt()
				h.x.Obs()
			}
		}
	}
	if !h.x.dead {
		h.x.Obs()
		h.x.LookupSweep()
	}
}

// heavyChain builds n transactions of ~size bytes each: the first spends a fresh input, every
// further one the output of its predecessor (one input pays for the whole chain).
func (h *hist) heavyChain(l *mat.Ledger, v2 bool, n, size int, avoid map[types.Hash256]bool) (set []Inst) {
	e, ok := h.freshInput(l, avoid)
	if !ok {
		return nil
	}
	avoid[types.Hash256(e.ID)] = true
	h.fatSize = size
	defer func() { h.fatSize = 0 }()
	in := e
	for i := 0; i < n; i++ {
		p := h.newTx(l, v2, []types.SiacoinElement{in}, 1)
		set = append(set, Inst{T: p.Name})
		if !spendable(p, 0) {
			break
		}
		in = outElem(p, 0)
	}
	return
}

// heavyRun: sets that weigh about as much as the whole pool may hold (10 x MaxBlockWeight = 20 M)
// against a SMALL pool.  A rejected heavy set (its last member double-spends an input of a pooled
// transaction, so everything before it is appended and rolled back) must leave no weight behind:
// the small accepted transactions stay; for contrast a heavy set that is ACCEPTED just below the
// limit evicts nothing either, and only when the pooled transactions reach the limit may the pool
// evict.  v1 and v2 (AddPoolTransactions / AddV2PoolTransactions), seeded variations.
func (h *hist) heavyRun(k int) {
	if err := h.x.Reset(); err != nil {
		h.x.mismatch("harness:reset", "%v", err)
		return
	}
	h.applied[1] = true
	h.x.TwinEvery = 0
	v2 := h.s.Regime == "v2" || k%2 == 0
	kind := "v1"
	if v2 {
		kind = "v2"
	}
	const size = 1_900_000
	l := h.tipLedger()
	limit := int(l.CS.MaxBlockWeight() * 10)
	avoid := map[types.Hash256]bool{}
	small := func() *mat.PoolTx {
		e, ok := h.freshInput(h.tipLedger(), avoid)
		if !ok {
			return nil
		}
		avoid[types.Hash256(e.ID)] = true
		return h.newTx(h.tipLedger(), v2, []types.SiacoinElement{e}, 1)
	}
	// 1. a small pool: three accepted transactions (one submission or three)
	var smalls []*mat.PoolTx
	var first []Inst
	for i := 0; i < 3; i++ {
		if p := small(); p != nil {
			smalls = append(smalls, p)
			first = append(first, Inst{T: p.Name})
		}
	}
	if len(smalls) < 3 {
		return
	}
	if h.rng.Intn(2) == 0 {
		h.x.AddSet(kind, h.x.Tip, first)
	} else {
		for _, in := range first {
			h.x.AddSet(kind, h.x.Tip, []Inst{in})
		}
	}
	if h.rng.Intn(2) == 0 {
		h.grow() // a block underneath that leaves the pool alone or not: whatever the dice say
		h.x.Obs()
	}
	conflictWith := func() *mat.PoolTx {
		// a transaction double-spending an input of a transaction that is pooled right now
		pool := append(append([]int{}, h.x.p1...), h.x.p2...)
		for _, n := range pool {
			p := h.s.Tx(n)
			for _, in := range p.Ins {
				if e, ok := h.tipLedger().SC[types.SiacoinOutputID(in)]; ok {
					return h.newTx(h.tipLedger(), v2, []types.SiacoinElement{e.Copy()}, 1)
				}
			}
		}
		return nil
	}
	rejectedHeavy := func(n int) {
		set := h.heavyChain(h.tipLedger(), v2, n, size, avoid)
		c := conflictWith()
		if len(set) == 0 || c == nil {
			return
		}
		set = append(set, Inst{T: c.Name})
		h.x.Res.Count("set_heavy-rejected", 1)
		h.x.note("shape heavy-rejected: %d x %d bytes + a double spend against a pool of %d", n, size, len(h.x.p1)+len(h.x.p2))
		if r := h.x.AddSet(kind, h.x.Tip, set); r != "err" {
			h.x.note("(the heavy set with a pool conflict was answered %s)", r)
		}
	}
	// 2. rejected heavy sets: the valid prefix alone weighs as much as the pool may hold
	per := size + 400
	rejectedHeavy(limit/per + 1 + h.rng.Intn(2))
	h.x.LookupSweep()
	if h.rng.Intn(2) == 0 {
		rejectedHeavy(limit/per/2 + 1) // twice half the limit: the leak would add up
		rejectedHeavy(limit/per/2 + 1)
	}
	// 3. contrast: a heavy set that is ACCEPTED and stays just below the limit evicts nothing
	below := limit/per - 1 - h.rng.Intn(2)
	if set := h.heavyChain(h.tipLedger(), v2, below, size, avoid); len(set) > 0 {
		h.x.Res.Count("set_heavy-accepted-below-limit", 1)
		h.x.note("shape heavy-accepted: %d x %d bytes, below the limit", below, size)
		h.x.AddSet(kind, h.x.Tip, set)
	}
	// the pool now outweighs one block several times over.  A SMALL child of the last heavy transaction
	// (and a grandchild) straddles the assembler's cut: the first heavy one fits into a block, the
	// second does not, the small descendants further down would -- a block must not contain them
	// without their parents (coreutils.MineBlock has to stop at the first transaction that does not fit)
	{
		pool := h.x.p2
		if !v2 {
			pool = h.x.p1
		}
		for i := len(pool) - 1; i >= 0; i-- {
			last := h.s.Tx(pool[i])
			if last.Shape != "fat" || len(last.Outs) == 0 || !spendable(last, 0) || h.pooledInputs()[last.Outs[0]] {
				continue
			}
			child := h.newTx(h.tipLedger(), v2, []types.SiacoinElement{outElem(last, 0)}, 2)
			set := []Inst{}
			for _, n := range pool[:i+1] {
				set = append(set, Inst{T: n}) // the pooled ancestors (known), then the new child
			}
			set = append(set, Inst{T: child.Name})
			if spendable(child, 0) && h.rng.Intn(2) == 0 {
				set = append(set, Inst{T: h.newTx(h.tipLedger(), v2, []types.SiacoinElement{outElem(child, 0)}, 1).Name})
			}
			h.x.Res.Count("set_small-child-of-heavy", 1)
			h.x.note("shape small child of a heavy pooled transaction (straddles the block weight cut)")
			h.x.AddSet(kind, h.x.Tip, set)
			h.x.MineStep()
			break
		}
	}
	// another rejected heavy set against the now nearly full pool: still nothing may be evicted
	rejectedHeavy(2 + h.rng.Intn(3))
	// 4. ... and two more accepted ones reach the limit: now (and only now) the pool may evict
	if set := h.heavyChain(h.tipLedger(), v2, 2+h.rng.Intn(2), size, avoid); len(set) > 0 {
		h.x.Res.Count("set_heavy-accepted-reaching-limit", 1)
		h.x.note("shape heavy-accepted: reaching the limit")
		h.x.AddSet(kind, h.x.Tip, set)
	}
	h.x.Obs()
	if p := small(); p != nil {
		h.x.AddSet(kind, h.x.Tip, []Inst{{T: p.Name}})
	}
	rejectedHeavy(3)
	if !h.x.dead {
		h.x.Obs()
		h.x.LookupSweep()
	}
}

// storageProofs builds up to n storage-proof resolutions for contracts of l whose proof height is
// reached and that no pooled or earlier catalogued resolution of this history touches.
func (h *hist) storageProofs(l *mat.Ledger, n int) (out []*mat.PoolTx) {
	taken := h.pooledInputs()
	for _, fce := range l.SortedV2() {
		if len(out) >= n {
			break
		}
		fc := fce.V2FileContract
		cie, ok := l.CI[fc.ProofHeight]
		if !ok || fc.ProofHeight > l.Height() || fc.RenterPublicKey != h.s.W.Key.PublicKey() || taken[types.Hash256(fce.ID)] {
			continue
		}
		out = append(out, h.s.Catalogue(h.s.W.NewStorageProofPoolTx(fce.Copy(), cie.Copy())))
	}
	return
}

// blockOn mines a child of `parent` that confirms exactly the given pool transactions, leaves every
// other pooled input alone and runs the given chain operations.
func (h *hist) blockOn(parent int, confirm []*mat.PoolTx, ops ...string) int {
	if h.x.dead {
		return parent // the history was abandoned (a finding was recorded): nothing more is built
	}
	pooled := h.pooledInputs()
	nd := h.s.Tree.AddCustom(parent+h.s.Warm, h.rng, 0, func(b *mat.Builder) {
		for id := range pooled {
			b.MarkUsed(id)
		}
		for _, p := range confirm {
			b.AddPoolTx(p)
		}
		for _, op := range ops {
			b.Do(op)
		}
	})
	if nd.Cls != "ok" || nd.L == nil {
		h.x.mismatch("harness:block-invalid", "scripted block %d (ops %v) is %s", h.s.Abs(nd.ID), nd.Ops, nd.Cls)
		h.x.dead = true
	}
	return h.s.Abs(nd.ID)
}

// extend puts n unrelated blocks on the tip, looking at the pool after each.
func (h *hist) extend(n int, ops ...string) {
	for i := 0; i < n && !h.x.dead; i++ {
		h.submit(h.blockOn(h.x.Tip, nil, ops...))
		h.x.Obs()
	}
}

// scriptStorageProof (seed class C05-e): v2 storage-proof resolutions kept in the pool across
// several unrelated blocks and a reorg, submitted and rebased with stale bases.  The proof of the
// chain index element only changes when its subtree of the accumulator merges, so ONE block is not
// enough to expose a proof that is not moved along.
func (h *hist) scriptStorageProof() {
	h.plain = true
	// two contracts, formed in the same or in consecutive blocks
	h.submit(h.blockOn(h.x.Tip, nil, "fc2", "fc2", "sc2"))
	h.x.Obs()
	// wait until the proof windows are open (proof height = formation height + 2 or 3)
	for try := 0; try < 6 && len(h.storageProofs(h.tipLedger(), 2)) < 2 && !h.x.dead; try++ {
		h.extend(1, "sc2")
	}
	sps := h.storageProofs(h.tipLedger(), 2)
	if len(sps) == 0 || h.x.dead {
		return
	}
	h.x.Res.Count("set_storage-proof-scripted", 1)
	basis0 := h.x.Tip
	h.x.AddSet("v2", h.x.Tip, []Inst{{T: sps[0].Name}})
	// unrelated blocks underneath: the pooled proof must follow the accumulator
	h.extend(2+h.rng.Intn(3), "sc2")
	h.x.LookupSweep()
	// the second proof is submitted by a caller that is several blocks behind
	if len(sps) > 1 {
		h.x.AddSet("v2", basis0, []Inst{{T: sps[1].Name}})
		h.x.Rebase([]int{sps[1].Name}, basis0, h.x.Tip, "none")
		h.x.TxSet(sps[1].Name, basis0)
	}
	h.x.Rebase([]int{sps[0].Name}, basis0, h.x.Tip, "none")
	// a fork below the tip (above the proof heights) that wins: proofs are reverted and re-applied
	fork := h.x.Tip
	for k := 0; k < 2 && h.s.Abs(h.s.Node(fork).Parent) > basis0; k++ {
		fork = h.s.Abs(h.s.Node(fork).Parent)
	}
	last := fork
	for i := 0; i < int(h.s.Node(h.x.Tip).Height-h.s.Node(fork).Height)+1; i++ {
		last = h.blockOn(last, nil, "sc2")
	}
	h.submit(last)
	h.x.Obs()
	h.extend(2, "sc2")
	// resubmission with the original basis: everything is pooled
	all := []Inst{}
	for _, p := range sps {
		all = append(all, Inst{T: p.Name})
	}
	h.x.AddSet("v2", basis0, all)
	h.x.Rebase([]int{sps[0].Name}, h.x.Tip, basis0, "none") // and backwards
	h.x.MineStep()
	h.mineAdopt() // finally the proofs are confirmed
	h.x.Obs()
}

// scriptMixedInputs (seed class C14-e): a v2 child with a CONFIRMED and an EPHEMERAL input (in
// either order), pooled together with its parent; a block confirms only the parent; the child is
// resubmitted with the pre-block basis -- alone, with its sibling, or as the original set.  Every
// remaining transaction is pooled, so the answer must be `known`.
func (h *hist) scriptMixedInputs(k int) {
	h.plain = true
	l := h.tipLedger()
	avoid := map[types.Hash256]bool{}
	e1, ok1 := h.freshInput(l, avoid)
	avoid[types.Hash256(e1.ID)] = true
	e2, ok2 := h.freshInput(l, avoid)
	avoid[types.Hash256(e2.ID)] = true
	e3, ok3 := h.freshInput(l, avoid)
	avoid[types.Hash256(e3.ID)] = true
	if !ok1 || !ok2 || !ok3 {
		return
	}
	parent := h.newTx(l, true, []types.SiacoinElement{e1}, 3)
	ins := []types.SiacoinElement{e2, outElem(parent, 0)} // confirmed first, ephemeral second
	if k%2 == 1 {
		ins = []types.SiacoinElement{outElem(parent, 0), e2}
	}
	child := h.newTx(l, true, ins, 1)
	sibling := h.newTx(l, true, []types.SiacoinElement{outElem(parent, 1)}, 1)
	three := h.newTx(l, true, []types.SiacoinElement{e3, outElem(parent, 2), outElem(sibling, 0)}, 1) // confirmed, ephemeral, ephemeral
	basis0 := h.x.Tip
	h.x.Res.Count("set_mixed-inputs-scripted", 1)
	h.x.AddSet("v2", basis0, []Inst{{T: parent.Name}, {T: child.Name}, {T: sibling.Name}, {T: three.Name}})
	h.hostileResubmissions(0)
	// a block that confirms ONLY the parent; right after it -- before anybody looks at the pool -- the
	// broadcast set of a GRANDCHILD (not submitted) is asked for: its pooled parent, the child, is still
	// unconfirmed and must be part of the set
	h.submit(h.blockOn(h.x.Tip, []*mat.PoolTx{parent}))
	grand := h.newTx(h.tipLedger(), true, []types.SiacoinElement{outElem(child, 0)}, 1)
	h.x.TxSetNow(grand.Name, h.x.Tip)
	h.x.Obs()
	h.x.TxSet(grand.Name, h.x.Tip)
	h.hostileResubmissions(0)
	h.x.AddSet("v2", basis0, []Inst{{T: child.Name}})
	h.x.AddSet("v2", basis0, []Inst{{T: child.Name}, {T: sibling.Name}})
	h.x.AddSet("v2", basis0, []Inst{{T: parent.Name}, {T: child.Name}, {T: sibling.Name}, {T: three.Name}})
	h.x.Rebase([]int{parent.Name, child.Name, sibling.Name, three.Name}, basis0, h.x.Tip, "none")
	h.x.TxSet(three.Name, basis0)
	// one more block (confirms the sibling only), then the same again from the original basis
	h.submit(h.blockOn(h.x.Tip, []*mat.PoolTx{sibling}))
	h.x.Obs()
	h.x.AddSet("v2", basis0, []Inst{{T: sibling.Name}, {T: three.Name}})
	h.x.AddSet("v2", basis0, []Inst{{T: parent.Name}, {T: child.Name}, {T: sibling.Name}, {T: three.Name}})
	h.x.Rebase([]int{child.Name, three.Name}, basis0, h.x.Tip, "none")
	h.x.LookupSweep()
	h.extend(1)
	h.hostileResubmissions(0)
}

// scriptCrossKindEviction (seed class C13-e): v1 and v2 share ONE weight limit.  A low-fee-rate v2
// transaction is pooled before a v2 parent; the broadcast set of a child is asked for; v1
// submissions (no block, no v2 submission in between) fill the pool until the next query evicts the
// low-fee v2 transaction and the v2 slice is compacted; the broadcast set of another child of the
// still pooled parent is asked for again: parents before children, valid at the tip.
func (h *hist) scriptCrossKindEviction(k int) {
	h.plain = true
	h.x.TwinEvery = 0
	l := h.tipLedger()
	limit := int(l.CS.MaxBlockWeight() * 10)
	avoid := map[types.Hash256]bool{}
	const size = 1_900_000
	tiny := types.NewCurrency64(1000)
	// the low-fee-rate v2 transaction(s), pooled first
	nlow := 1 + k%2
	for i := 0; i < nlow; i++ {
		h.fee, h.fatSize = &tiny, size
		e, ok := h.freshInput(l, avoid)
		if !ok {
			h.fee, h.fatSize = nil, 0
			return
		}
		avoid[types.Hash256(e.ID)] = true
		low := h.newTx(l, true, []types.SiacoinElement{e}, 1)
		h.fee, h.fatSize = nil, 0
		h.x.AddSet("v2", h.x.Tip, []Inst{{T: low.Name}})
	}
	// the v2 parent (small, good fee), three outputs
	e, ok := h.freshInput(l, avoid)
	if !ok {
		return
	}
	avoid[types.Hash256(e.ID)] = true
	parent := h.newTx(l, true, []types.SiacoinElement{e}, 3)
	h.x.AddSet("v2", h.x.Tip, []Inst{{T: parent.Name}})
	h.x.Res.Count("set_cross-kind-eviction-scripted", 1)
	c1 := h.newTx(l, true, []types.SiacoinElement{outElem(parent, 0)}, 1)
	h.x.TxSet(c1.Name, h.x.Tip)
	// v1 submissions fill the pool; every AddSet is followed by a report (the query that evicts)
	per := size + 400
	for n := 0; n < limit/per+2 && !h.x.dead; n++ {
		set := h.heavyChain(h.tipLedger(), false, 1+h.rng.Intn(3), size, avoid)
		if len(set) == 0 {
			break
		}
		h.x.AddSet("v1", h.x.Tip, set)
		n += len(set) - 1
		// ask again across whatever the v1 submission did to the v2 slice
		c := h.newTx(l, true, []types.SiacoinElement{outElem(parent, 1)}, 1)
		h.x.TxSet(c.Name, h.x.Tip)
		found := false
		for _, t := range h.x.p2 {
			found = found || t == parent.Name
		}
		if !found {
			break // the parent itself was evicted: nothing left to ask
		}
	}
	c2 := h.newTx(l, true, []types.SiacoinElement{outElem(parent, 2)}, 1)
	h.x.TxSet(c2.Name, h.x.Tip)
	h.x.TxSet(parent.Name, h.x.Tip)
	h.x.LookupSweep()
}

// scriptKinds: which directed histories this run plays ($VERIF_SCRIPT_KINDS, comma separated), in turn.
func scriptKinds() []string {
	var out []string
	for _, k := range strings.Split(hx.Env("VERIF_SCRIPT_KINDS", "storage-proof,mixed-inputs,cross-kind-eviction"), ",") {
		if k != "" {
			out = append(out, k)
		}
	}
	return out
}

func scriptKind(k int) string { ks := scriptKinds(); return ks[k%len(ks)] }

// scriptBoundary (seed classes C05-f, C14-f): the history sits exactly ON the hardfork boundaries.
// The regime starts below the allow height; at every tip height from AllowHeight-2 to
// RequireHeight+1 the pool is fed what the regime admits (and what it refuses) -- v2 transactions on
// elements of various ages, v1 transactions signed in the current epoch --, every pooled id is looked
// up through BOTH lookups, and heavier forks revert the boundary blocks (fork points AllowHeight-2 ..
// AllowHeight+1, RequireHeight-2 ..) with the pool untouched by the blocks.
func (h *hist) scriptBoundary(k int) {
	h.plain = true
	allow, require := int(h.s.W.N.HardforkV2.AllowHeight), int(h.s.W.N.HardforkV2.RequireHeight)
	height := func() int { return int(h.tipLedger().Height()) }
	avoid := map[types.Hash256]bool{}
	// inputs of various ages: genesis outputs first (oldest leaves), recent ones last
	pick := func(old bool) (types.SiacoinElement, bool) {
		l := h.tipLedger()
		var cands []types.SiacoinElement
		for _, e := range h.s.W.SpendableSC(l) {
			if !avoid[types.Hash256(e.ID)] && !h.pooledInputs()[types.Hash256(e.ID)] && e.SiacoinOutput.Value.Cmp(oneSC.Mul64(4)) > 0 {
				cands = append(cands, e)
			}
		}
		if len(cands) == 0 {
			return types.SiacoinElement{}, false
		}
		// leaf index orders the elements by age
		best := cands[0]
		for _, e := range cands {
			if (old && e.StateElement.LeafIndex < best.StateElement.LeafIndex) || (!old && e.StateElement.LeafIndex > best.StateElement.LeafIndex) {
				best = e
			}
		}
		if h.rng.Intn(3) == 0 {
			best = cands[h.rng.Intn(len(cands))]
		}
		avoid[types.Hash256(best.ID)] = true
		return best, true
	}
	feed := func() {
		l := h.tipLedger()
		// v1 first (so that v2 positions fall inside the v1 slice), then v2
		var s1, s2 []Inst
		for i := 0; i < 2; i++ {
			if e, ok := pick(i == 0); ok {
				s1 = append(s1, Inst{T: h.newTx(l, false, []types.SiacoinElement{e}, 1).Name})
			}
		}
		for i := 0; i < 2+k%2; i++ {
			if e, ok := pick(i != 1); ok {
				p := h.newTx(l, true, []types.SiacoinElement{e}, 2)
				s2 = append(s2, Inst{T: p.Name})
				if i == 0 && spendable(p, 0) {
					s2 = append(s2, Inst{T: h.newTx(l, true, []types.SiacoinElement{outElem(p, 0)}, 1).Name}) // a child
				}
			}
		}
		if len(s1) > 0 {
			h.x.AddSet("v1", h.x.Tip, s1[:1])
			if len(s1) > 1 {
				h.x.AddSet("v1", h.x.Tip, s1[1:])
			}
		}
		if len(s2) > 0 {
			h.x.AddSet("v2", h.x.Tip, s2)
		}
		h.x.LookupSweep()
	}
	reorg := func(back, over int) {
		// a fork `back` blocks below the tip that ends `over` blocks higher; its blocks leave the pool alone
		fork := h.x.Tip
		for i := 0; i < back && h.s.Abs(h.s.Node(fork).Parent) >= 1; i++ {
			fork = h.s.Abs(h.s.Node(fork).Parent)
		}
		n := int(h.s.Node(h.x.Tip).Height-h.s.Node(fork).Height) + over
		last := fork
		for i := 0; i < n; i++ {
			last = h.blockOn(last, nil, "sc1", "sc2", "sc1")
		}
		h.submit(last)
		h.x.Obs()
		h.x.LookupSweep()
	}
	for step := 0; step < 40 && height() <= require+1 && !h.x.dead; step++ {
		ht := height()
		near := (ht >= allow-2 && ht <= allow+1) || (ht >= require-2 && ht <= require+1)
		if near {
			feed()
		}
		switch {
		case ht == allow-1 || ht == allow:
			// revert the boundary block(s): fork points allow-2 / allow-1, one block longer
			reorg(1+(k+ht)%2, 1)
		case ht == allow+1 && k%2 == 0:
			reorg(3, 1) // dips below the activation height in the middle of the reorg
		case ht == require-1 || ht == require:
			reorg(1+(k+ht)%2, 1)
		default:
			h.submit(h.blockOn(h.x.Tip, nil, "sc1", "sc2"))
			h.x.Obs()
		}
	}
	h.x.MineStep()
}

// hostileResubmissions (seed class C13-g): sets whose transactions are ALREADY POOLED -- the whole
// pool and subsets -- come back with an unknown basis, a corrupted proof, a wrong leaf index, a
// truncated / extended proof, (when the tree has one) a basis beyond the supported distance, and as the
// empty set with an unknown basis.  Transaction ids do not cover proofs, so only examining the basis
// and the proofs can tell; every variant must be answered with an error.
func (h *hist) hostileResubmissions(far int) {
	h.x.ensureFresh()
	pool := append([]int{}, h.x.p2...)
	if h.x.dead || len(pool) == 0 {
		return
	}
	sub := func(k int) []Inst {
		var s []Inst
		for _, n := range pool[:k] {
			s = append(s, Inst{T: n})
		}
		return s
	}
	whole := len(pool)
	part := 1 + h.rng.Intn(whole)
	h.x.Res.Count("set_hostile-resubmission", 1)
	h.x.AddSet("v2", 0, sub(whole)) // unknown basis
	h.x.AddSet("v2", 0, sub(part))
	h.x.AddSet("v2", 0, nil) // the empty set with an unknown basis
	for _, how := range []string{"proof", "leaf", "leafbig", "prooflen"} {
		k := whole
		if h.rng.Intn(2) == 0 {
			k = part
		}
		s := sub(k)
		i := h.rng.Intn(len(s))
		s[i].Bad, s[i].Corrupt = true, how
		h.x.AddSet("v2", h.x.Tip, s)
	}
	if far >= 1 {
		h.x.AddSet("v2", far, sub(part)) // a basis more than 144 blocks away
	}
	h.x.AddSet("v2", h.x.Tip, sub(whole)) // and the honest resubmission: known
}

// scriptedRun plays one of the directed interplay histories.
func (h *hist) scriptedRun(k int) {
	if err := h.x.Reset(); err != nil {
		h.x.mismatch("harness:reset", "%v", err)
		return
	}
	h.applied[1] = true
	switch scriptKind(k) {
	case "storage-proof":
		h.scriptStorageProof()
	case "mixed-inputs":
		h.scriptMixedInputs(k / len(scriptKinds()))
	case "cross-kind-eviction":
		h.scriptCrossKindEviction(k / len(scriptKinds()))
	case "boundary":
		h.scriptBoundary(k)
	}
	if !h.x.dead {
		h.x.Obs()
		h.x.LookupSweep()
	}
}

// longPrefix grows two long branches so that (from, to) pairs around the 144 limit exist.
func (h *hist) longPrefix(la, lb int) {
	fork := h.x.Tip
	a := fork
	for i := 0; i < la; i++ {
		a = h.addBlock(a)
	}
	h.submit(a)
	h.farNode = a
	b := fork
	for i := 0; i < lb; i++ {
		b = h.addBlock(b)
	}
	h.submit(b)
	h.x.Obs()
}

// TestDriver runs seeded random histories on real nodes and records them for PoolTrace.tla.
func TestDriver(t *testing.T) {
	res := hx.NewResult()
	defer res.Write()
	mode := hx.Env("VERIF_MODE", "c05")
	nh := hx.EnvInt("VERIF_HISTORIES", 24)
	shards := hx.EnvInt("VERIF_SHARDS", 8)
	steps := hx.EnvInt("VERIF_STEPS", 40)
	nfat := hx.EnvInt("VERIF_FAT", 0)           // histories that fill the pool (20 M weight)
	nlong := hx.EnvInt("VERIF_LONG", 0)         // C13: histories with branches beyond the 144 limit
	nheavy := hx.EnvInt("VERIF_HEAVY", 0)       // C05: heavy (rejected / accepted) sets against a small pool
	nscripted := hx.EnvInt("VERIF_SCRIPTED", 0) // directed interplay histories (storage proofs, mixed inputs, cross-kind eviction)
	longA, longB := hx.EnvInt("VERIF_LONG_A", 80), hx.EnvInt("VERIF_LONG_B", 90)
	twinEvery := hx.EnvInt("VERIF_TWIN_EVERY", 3)
	tag := hx.Env("VERIF_TAG", "drv")
	stub := os.Getenv("VERIF_STUB")
	dir := os.Getenv("VERIF_WORK")
	var wg sync.WaitGroup
	var mu sync.Mutex
	for sh := 0; sh < shards; sh++ {
		wg.Add(1)
		go func(sh int) {
			defer wg.Done()
			tw, err := hx.NewTraceWriter(filepath.Join(dir, fmt.Sprintf("pooltrace-%s-%d.ndjson", tag, sh)))
			if err != nil {
				panic(err)
			}
			defer tw.Close()
			var abs []AbsScen
			for k := sh; k < nh; k += shards {
				seed := hx.Seed()*100000 + int64(k)
				rng := rand.New(rand.NewSource(seed ^ 0x5eed))
				regime := "both"
				if k%4 == 3 {
					regime = "v2"
				} else if k%4 == 1 {
					// the history starts below the hardfork heights and crosses them
					regime = fmt.Sprintf("boundary:%d:%d", 1+(k/4)%3, 2+(k/12)%3)
				}
				s := NewScen(regime, seed, 2)
				s.Name = fmt.Sprintf("%s-history-%d-%s", mode, k, regime)
				x := NewExec(s, res, tw, len(abs)+1)
				x.TwinEvery = twinEvery
				x.Stub = stub
				h := &hist{x: x, s: s, rng: rng, mode: mode, applied: map[int]bool{}}
				heavy := k >= nh-nheavy
				scripted := !heavy && k >= nh-nheavy-nscripted
				if heavy && k%2 == 1 {
					regime = "both" // the v1 variant needs a regime that still admits v1
				}
				if scripted && scriptKind(k) == "cross-kind-eviction" {
					regime = "both" // v1 and v2 in one pool
				}
				if scripted && scriptKind(k) == "boundary" {
					regime = fmt.Sprintf("boundary:%d:%d", 1+k%2, 2+(k/2)%2)
				} else if scripted && strings.HasPrefix(regime, "boundary") {
					regime = "both"
				}
				if heavy || scripted {
					s = NewScen(regime, seed, 2)
					s.Name = fmt.Sprintf("%s-heavy-%d-%s", mode, k, regime)
					if scripted {
						s.Name = fmt.Sprintf("%s-scripted-%s-%d-%s", mode, scriptKind(k), k, regime)
					}
					x = NewExec(s, res, tw, len(abs)+1)
					x.Stub = stub
					h = &hist{x: x, s: s, rng: rng, mode: mode, applied: map[int]bool{}}
				}
				h.fat = !heavy && !scripted && k < nfat
				h.long = !heavy && !scripted && !h.fat && k < nfat+nlong
				n := steps
				if h.fat {
					n = steps * 2
					x.TwinEvery = 0
				}
				if heavy {
					h.heavyRun(k)
				} else if scripted {
					h.scriptedRun(k)
				} else if h.long {
					if err := x.Reset(); err != nil {
						panic(err)
					}
					h.applied[1] = true
					h.longPrefix(longA, longB)
					// continue the same history without a second Reset
					for i := 0; i < steps && !x.dead; i++ {
						if i == 3 || i == steps/2 {
							// pooled sets resubmitted with hostile bases / proofs, incl. a basis beyond 144 blocks
							if len(x.p2) == 0 {
								if e, ok := h.freshInput(h.tipLedger(), h.pooledInputs()); ok {
									x.AddSet("v2", x.Tip, []Inst{{T: h.newTx(h.tipLedger(), true, []types.SiacoinElement{e}, 2).Name}})
								}
							}
							far := 0
							if h.farNode >= 1 && x.treeDist(h.farNode, x.Tip) > 144 {
								far = h.farNode
							}
							h.hostileResubmissions(far)
							continue
						}
						if r := rng.Intn(10); r < 8 {
							h.rebaseStep()
						} else if r < 9 {
							h.addStep()
						} else {
							h.txsetStep()
						}
					}
				} else {
					h.run(n)
				}
				a := s.Abstract()
				a.Seed = seed
				abs = append(abs, a)
				mu.Lock()
				res.Traces++
				res.Count("blocks", s.NumAbs()-1)
				res.Count("transactions", len(s.Txs))
				res.Count("events", x.Events)
				if k == 0 {
					res.Sample(map[string]any{"history": s.Name, "seed": seed, "blocks": s.NumAbs() - 1, "transactions": len(s.Txs), "steps": x.History[:min(len(x.History), 40)]})
				}
				mu.Unlock()
			}
			if err := writeJSON(filepath.Join(dir, fmt.Sprintf("poolscens-%s-%d.json", tag, sh)), abs); err != nil {
				panic(err)
			}
		}(sh)
	}
	wg.Wait()
}
