package poolx

import (
	"encoding/json"
	"fmt"
	"os"
	"path/filepath"
	"sync"
	"testing"

	"verifharness/hx"
)

// ---------------------------------------------------------------- Leg R: stimulus paths of Pool.tla

type instJ struct {
	T   int   `json:"t"`
	Eph []int `json:"eph"`
	Bad bool  `json:"bad"`
}

type actJ struct {
	Op      string  `json:"op"`
	Kind    string  `json:"kind"`
	Basis   int     `json:"basis"`
	Set     []instJ `json:"set"`
	ID      int     `json:"id"`
	To      int     `json:"to"`
	From    int     `json:"from"`
	Corrupt string  `json:"corrupt"`
	X       *instJ  `json:"x"`
	B       int     `json:"b"`
}

type pathJ struct {
	Sc   int    `json:"sc"` // 1-based scenario index
	Acts []actJ `json:"acts"`
}

type replayIn struct {
	Scens  []AbsScen `json:"scens"`
	Paths  []pathJ   `json:"paths"`
	Shards int       `json:"shards"`
	Tag    string    `json:"tag"`
	// Stub switches a deliberately wrong behaviour of the HARNESS on (selftest): "hide-partial" makes
	// no difference to the node, the named stubs below perturb what is recorded
	Stub string `json:"stub"`
}

func writeJSON(path string, v any) error {
	b, err := json.Marshal(v)
	if err != nil {
		return err
	}
	return os.WriteFile(path, b, 0644)
}

// runPath executes one stimulus path on a fresh node.
func runPath(x *Exec, p pathJ) {
	if err := x.Reset(); err != nil {
		x.mismatch("harness:reset", "%v", err)
		return
	}
	for _, a := range p.Acts {
		if x.dead {
			return
		}
		switch a.Op {
		case "Submit":
			x.Submit(a.To)
		case "Revert", "Apply", "Done":
			// performed by the real AddBlocks call of the Submit before
		case "Revalidate":
			x.Obs()
		case "AddSet":
			var set []Inst
			for _, i := range a.Set {
				set = append(set, Inst{T: i.T, Bad: i.Bad})
			}
			x.AddSet(a.Kind, a.Basis, set)
		case "Lookup":
			x.Lookup(a.Kind, a.ID)
		case "Mine":
			x.MineStep()
		case "Rebase":
			var set []int
			for _, i := range a.Set {
				set = append(set, i.T)
			}
			x.Rebase(set, a.From, a.To, a.Corrupt)
		case "TxSet":
			x.TxSet(a.X.T, a.Basis)
		default:
			x.mismatch("harness:unknown-action", "unknown action %q in a stimulus path", a.Op)
			return
		}
	}
	if !x.dead {
		x.Obs()
		x.LookupSweep()
	}
}

// TestReplay materialises the abstract scenarios, replays every stimulus path on a real node and
// writes pooltrace-<tag>-<shard>.ndjson + poolscens-<tag>-<shard>.json for TLC.
func TestReplay(t *testing.T) {
	res := hx.NewResult()
	defer res.Write()
	var in replayIn
	if err := hx.ReadIn(&in); err != nil {
		t.Fatal(err)
	}
	if in.Shards <= 0 {
		in.Shards = 1
	}
	dir := os.Getenv("VERIF_WORK")
	var wg sync.WaitGroup
	var mu sync.Mutex
	for sh := 0; sh < in.Shards; sh++ {
		wg.Add(1)
		go func(sh int) {
			defer wg.Done()
			tw, err := hx.NewTraceWriter(filepath.Join(dir, fmt.Sprintf("pooltrace-%s-%d.ndjson", in.Tag, sh)))
			if err != nil {
				panic(err)
			}
			defer tw.Close()
			var scens []*Scen
			var abs []AbsScen
			for i, a := range in.Scens {
				s, err := Materialise(a, hx.Seed()*1000+int64(i))
				if err != nil {
					res.Mismatch("harness:materialise", err.Error(), nil)
					return
				}
				scens = append(scens, s)
				d := s.Abstract()
				abs = append(abs, d)
				if sh == 0 {
					if !sameAbstract(a, d) {
						res.Mismatch("harness:materialise:differs", fmt.Sprintf("scenario %s: the abstraction derived from the real blocks differs from the one TLC explored: %s vs %s", a.Name, hx.JSON(d), hx.JSON(a)), nil)
					}
				}
			}
			if err := writeJSON(filepath.Join(dir, fmt.Sprintf("poolscens-%s-%d.json", in.Tag, sh)), abs); err != nil {
				panic(err)
			}
			for pi, p := range in.Paths {
				if pi%in.Shards != sh {
					continue
				}
				x := NewExec(scens[p.Sc-1], res, tw, p.Sc)
				x.Stub = in.Stub
				runPath(x, p)
				mu.Lock()
				res.Traces++
				mu.Unlock()
				if pi == 0 {
					res.Sample(map[string]any{"scenario": scens[p.Sc-1].Name, "steps": x.History})
				}
			}
		}(sh)
	}
	wg.Wait()
	res.Count("paths", len(in.Paths))
	res.Count("scenarios", len(in.Scens))
}

func sameAbstract(a, b AbsScen) bool {
	set := func(x [][]int) string {
		out := make([]map[int]bool, len(x))
		for i := range x {
			out[i] = map[int]bool{}
			for _, v := range x[i] {
				out[i][v] = true
			}
		}
		return fmt.Sprint(out)
	}
	if a.N != b.N || a.NTx != b.NTx || fmt.Sprint(a.Parent) != fmt.Sprint(b.Parent) || fmt.Sprint(a.Height) != fmt.Sprint(b.Height) {
		return false
	}
	if set(a.Body) != set(b.Body) || set(a.Creates) != set(b.Creates) || set(a.Spends) != set(b.Spends) {
		return false
	}
	for i := range a.Tx {
		if a.Tx[i].Kind != b.Tx[i].Kind || set([][]int{a.Tx[i].Ins, a.Tx[i].Outs, a.Tx[i].Refs}) != set([][]int{b.Tx[i].Ins, b.Tx[i].Outs, b.Tx[i].Refs}) {
			return false
		}
	}
	return true
}
