// Package poolx binds spec/Pool.tla to the transaction pool of the real chain.Manager
// (properties C14, C05, C13): abstract scenarios are materialised as real mined blocks and real
// signed v1/v2 transactions (harness/mat), a real Manager is driven through submissions, lookups,
// reorgs, mining and rebasing, audited after every step with go.sia.tech/core on the independent
// linear ledger, and every step is recorded as one event of PoolTrace.tla.
package poolx

import (
	"fmt"
	"math/rand"
	"sort"
	"strings"

	"go.sia.tech/core/types"
	"verifharness/mat"
)

// AbsTx / AbsScen are the abstract scenario exchanged with the specification (MCPool.tla and
// PoolTrace.tla read a JSON array of AbsScen).
type AbsTx struct {
	Kind string `json:"kind"`
	Ins  []int  `json:"ins"`
	Refs []int  `json:"refs"`
	Outs []int  `json:"outs"`
	Lo   int    `json:"lo"` // valid while Lo <= height of the tip (root = 0) <= Hi
	Hi   int    `json:"hi"`
	W    int    `json:"w"` // weight: small integers in Leg M, the real encoded size when derived from real transactions
}

type AbsScen struct {
	Name     string  `json:"name"`
	Regime   string  `json:"regime"`   // "both": v1 and v2 valid; "v2": v2 only
	MaxPool  int     `json:"maxpool"`  // the pool is full when the pooled transactions weigh at least this much
	MaxBlock int     `json:"maxblock"` // weight limit of one block (the assembler cuts the pool there)
	N        int     `json:"n"`
	Parent   []int   `json:"parent"`
	Height   []int   `json:"height"`
	Body     [][]int `json:"body"`
	Creates  [][]int `json:"creates"`
	Spends   [][]int `json:"spends"`
	NTx      int     `json:"ntx"`
	Tx       []AbsTx `json:"tx"`
	// only used by Leg M (candidate arguments); carried through untouched
	Sets   []any   `json:"sets"`
	RSets  [][]int `json:"rsets"`
	Look   []int   `json:"look"`
	TxSetC []int   `json:"txsetc"`
	Seed   int64   `json:"seed"`
}

// A Scen is a materialised scenario: a world, a fork tree of real blocks whose first Warm+1
// nodes are a linear warm-up prefix (abstract node k is tree node k + Warm), and the catalogue of
// pool transactions with the small names of the accumulator leaves they touch.
type Scen struct {
	W      *mat.World
	Tree   *mat.Tree
	Warm   int
	Txs    []*mat.PoolTx // Txs[i].Name == i+1
	ByID   map[types.TransactionID]*mat.PoolTx
	Leaf   map[types.Hash256]int
	LeafID []types.Hash256
	Rng    *rand.Rand
	Regime string
	Name   string
	tag    uint64
}

const warmBlocks = 3

// regimeParams: "both" = v2 allowed from height 2, never required within the scenario, ephemeral
// outputs allowed; "v2" = v2 required from height 2 on.
func regimeParams(regime string, seed int64) mat.Params {
	// "boundary:a:r": the histories start BELOW the hardfork heights: allow height = root height + a,
	// require height = allow height + r
	var a, r uint64
	if n, _ := fmt.Sscanf(regime, "boundary:%d:%d", &a, &r); n == 2 {
		return mat.Params{Allow: warmBlocks + a, Require: warmBlocks + a + r, Final: 200000, Seed: seed}
	}
	if regime == "v2" {
		return mat.Params{Allow: 1, Require: 2, Final: 100000, Seed: seed}
	}
	return mat.Params{Allow: 2, Require: 100000, Final: 200000, Seed: seed}
}

// NewScen creates the world and the warm-up prefix (blocks with a few random operations so that
// the accumulator is not trivial).
func NewScen(regime string, seed int64, warmOps int) *Scen {
	w := mat.NewWorld(regimeParams(regime, seed))
	w.UniqueWindows = true
	s := &Scen{W: w, Tree: mat.NewTree(w), Warm: warmBlocks, ByID: map[types.TransactionID]*mat.PoolTx{},
		Leaf: map[types.Hash256]int{}, Rng: rand.New(rand.NewSource(seed)), Regime: regime}
	tip := 1
	for i := 0; i < warmBlocks; i++ {
		ops := warmOps
		tip = s.Tree.AddCustom(tip, s.Rng, 0, func(b *mat.Builder) {
			for k := 0; k < ops; k++ {
				if regime == "v2" {
					b.Do("sc2")
				} else if k%2 == 0 || strings.HasPrefix(regime, "boundary") {
					b.Do("sc1")
				} else {
					b.Do("sc2")
				}
			}
		}).ID
	}
	return s
}

func (s *Scen) Abs(treeID int) int         { return treeID - s.Warm }
func (s *Scen) Node(abs int) *mat.Node     { return s.Tree.Node(abs + s.Warm) }
func (s *Scen) NumAbs() int                { return len(s.Tree.Nodes) - s.Warm }
func (s *Scen) Ledger(abs int) *mat.Ledger { return s.Node(abs).L }

func (s *Scen) leaf(id types.Hash256) int {
	if v, ok := s.Leaf[id]; ok {
		return v
	}
	s.LeafID = append(s.LeafID, id)
	s.Leaf[id] = len(s.LeafID)
	return len(s.LeafID)
}

func (s *Scen) nextTag() uint64 { s.tag++; return s.tag<<16 | uint64(s.Rng.Intn(1<<16)) }

// Catalogue registers a transaction and names its leaves.
func (s *Scen) Catalogue(p *mat.PoolTx) *mat.PoolTx {
	if q, ok := s.ByID[p.ID]; ok {
		return q // the same transaction built again (its id does not cover proofs): one name
	}
	p.Name = len(s.Txs) + 1
	s.Txs = append(s.Txs, p)
	s.ByID[p.ID] = p
	for _, id := range p.Ins {
		s.leaf(id)
	}
	for _, id := range p.Refs {
		s.leaf(id)
	}
	for _, id := range p.Outs {
		s.leaf(id)
	}
	return p
}

func (s *Scen) Tx(name int) *mat.PoolTx { return s.Txs[name-1] }

func (s *Scen) leaves(ids []types.Hash256) []int {
	out := []int{}
	for _, id := range ids {
		out = append(out, s.leaf(id))
	}
	sort.Ints(out)
	return out
}

// blockLeaves returns ALL leaves the block creates and spends (gross: an output created and
// spent inside the block is in both), read off the block's transactions.
func blockLeaves(b types.Block) (creates, spends []types.Hash256) {
	for _, txn := range b.Transactions {
		for i := range txn.SiacoinOutputs {
			creates = append(creates, types.Hash256(txn.SiacoinOutputID(i)))
		}
		for i := range txn.SiafundOutputs {
			creates = append(creates, types.Hash256(txn.SiafundOutputID(i)))
		}
		for _, in := range txn.SiacoinInputs {
			spends = append(spends, types.Hash256(in.ParentID))
		}
		for _, in := range txn.SiafundInputs {
			spends = append(spends, types.Hash256(in.ParentID))
		}
	}
	for _, txn := range b.V2Transactions() {
		txid := txn.ID()
		for i := range txn.SiacoinOutputs {
			creates = append(creates, types.Hash256(txn.SiacoinOutputID(txid, i)))
		}
		for i := range txn.SiafundOutputs {
			creates = append(creates, types.Hash256(txn.SiafundOutputID(txid, i)))
		}
		for i := range txn.FileContracts {
			creates = append(creates, types.Hash256(txn.V2FileContractID(txid, i)))
		}
		for _, in := range txn.SiacoinInputs {
			spends = append(spends, types.Hash256(in.Parent.ID))
		}
		for _, in := range txn.SiafundInputs {
			spends = append(spends, types.Hash256(in.Parent.ID))
		}
		for _, r := range txn.FileContractResolutions {
			spends = append(spends, types.Hash256(r.Parent.ID))
			if ren, ok := r.Resolution.(*types.V2FileContractRenewal); ok {
				_ = ren
				creates = append(creates, types.Hash256(r.Parent.ID.V2RenewalID()))
			}
		}
	}
	// the chain index element of the block itself
	creates = append(creates, types.Hash256(b.ID()))
	return
}

// Window returns the real tip heights [lo, hi] at which the transaction can be valid as far as the
// hardfork regime goes: v2 needs child height >= allow height; v1 needs child height < require
// height and a tip in the signature-replay epoch (below / from the allow height on) it was signed for.
func (s *Scen) Window(p *mat.PoolTx) (lo, hi int) {
	const big = 1_000_000
	allow, require := int(s.W.N.HardforkV2.AllowHeight), int(s.W.N.HardforkV2.RequireHeight)
	if p.V2 {
		return allow - 1, big
	}
	lo, hi = -big, require-2
	if int(p.SigHeight) >= allow {
		lo = allow
	} else if allow-1 < hi {
		hi = allow - 1
	}
	if hi > big {
		hi = big
	}
	return
}

// Abstract derives what the specification sees from the REAL tree and catalogue.
func (s *Scen) Abstract() AbsScen {
	n := s.NumAbs()
	a := AbsScen{Name: s.Name, Regime: s.Regime, N: n, NTx: len(s.Txs), Sets: []any{}, RSets: [][]int{}, Look: []int{}, TxSetC: []int{}}
	a.MaxPool = int(s.Node(1).L.CS.MaxBlockWeight() * 10) // revalidatePool: txpoolMaxWeight
	a.MaxBlock = int(s.Node(1).L.CS.MaxBlockWeight())
	rootH := int(s.Node(1).Height)
	for k := 1; k <= n; k++ {
		nd := s.Node(k)
		par := 0
		if k > 1 {
			par = s.Abs(nd.Parent)
			if par < 1 {
				panic("poolx: block forks below the root of the scenario")
			}
		}
		a.Parent = append(a.Parent, par)
		a.Height = append(a.Height, int(nd.Height)-rootH)
		body := []int{}
		cr, sp := []int{}, []int{}
		if k == 1 {
			// the root's "creates" are the relevant leaves unspent at the root
			l := nd.L
			for id, name := range s.Leaf {
				_, ok1 := l.SC[types.SiacoinOutputID(id)]
				_, ok2 := l.SF[types.SiafundOutputID(id)]
				_, ok3 := l.V2FC[types.FileContractID(id)]
				ok4 := false
				for _, e := range l.CI {
					if types.Hash256(e.ID) == id {
						ok4 = true
					}
				}
				if ok1 || ok2 || ok3 || ok4 {
					cr = append(cr, name)
				}
			}
		} else {
			for _, txn := range nd.Block.Transactions {
				if p, ok := s.ByID[txn.ID()]; ok {
					body = append(body, p.Name)
				}
			}
			for _, txn := range nd.Block.V2Transactions() {
				if p, ok := s.ByID[txn.ID()]; ok {
					body = append(body, p.Name)
				}
			}
			c, d := blockLeaves(nd.Block)
			for _, id := range c {
				if name, ok := s.Leaf[id]; ok {
					cr = append(cr, name)
				}
			}
			for _, id := range d {
				if name, ok := s.Leaf[id]; ok {
					sp = append(sp, name)
				}
			}
		}
		sort.Ints(cr)
		sort.Ints(sp)
		a.Body = append(a.Body, body)
		a.Creates = append(a.Creates, cr)
		a.Spends = append(a.Spends, sp)
	}
	for _, p := range s.Txs {
		kind := "v1"
		if p.V2 {
			kind = "v2"
		}
		cs := s.Node(1).L.CS
		w := cs.TransactionWeight(p.T1)
		if p.V2 {
			w = cs.V2TransactionWeight(p.T2)
		}
		lo, hi := s.Window(p)
		a.Tx = append(a.Tx, AbsTx{Kind: kind, Ins: s.leaves(p.Ins), Refs: s.leaves(p.Refs), Outs: s.leaves(p.Outs), W: int(w),
			Lo: lo - rootH, Hi: hi - rootH})
	}
	if a.Tx == nil {
		a.Tx = []AbsTx{}
	}
	return a
}

// Materialise builds the real scenario of an abstract one written by props/C14.py: the root's
// leaves are spendable siacoin outputs of the warm-up prefix, every abstract transaction becomes a
// real signed transaction with a fee, every abstract block a real mined block confirming its body.
func Materialise(a AbsScen, seed int64) (*Scen, error) {
	s := NewScen(a.Regime, seed, 2)
	s.Name = a.Name
	root := s.Node(1).L
	spend := s.W.SpendableSC(root)
	elem := map[int]types.SiacoinElement{} // abstract leaf -> element (id, output)
	rootLeaves := append([]int{}, a.Creates[0]...)
	sort.Ints(rootLeaves)
	if len(spend) < len(rootLeaves) {
		return nil, fmt.Errorf("only %d spendable outputs at the root, scenario needs %d", len(spend), len(rootLeaves))
	}
	// deterministic assignment; leaves must get the abstract names of the scenario, so they are
	// registered in the order 1, 2, 3 ...: root leaves first, outputs as their creators are built
	maxLeaf := 0
	for _, t := range a.Tx {
		for _, x := range append(append(append([]int{}, t.Ins...), t.Outs...), t.Refs...) {
			if x > maxLeaf {
				maxLeaf = x
			}
		}
	}
	for i, l := range rootLeaves {
		elem[l] = spend[i]
	}
	built := make([]*mat.PoolTx, len(a.Tx))
	fee := types.Siacoins(1)
	for progress := true; progress; {
		progress = false
		for i, t := range a.Tx {
			if built[i] != nil {
				continue
			}
			ready := true
			var ins []types.SiacoinElement
			for _, l := range t.Ins {
				e, ok := elem[l]
				if !ok {
					ready = false
					break
				}
				ins = append(ins, e)
			}
			if !ready {
				continue
			}
			if len(t.Refs) > 0 {
				return nil, fmt.Errorf("abstract scenarios of Leg M do not use refs")
			}
			p := s.W.NewSiacoinPoolTx(root.CS, t.Kind == "v2", ins, max(len(t.Outs), 1), fee, uint64(1000+i), 0)
			if len(t.Outs) == 0 {
				p.Outs = nil // the single output is not catalogued
			}
			built[i] = p
			for j, l := range t.Outs {
				var so types.SiacoinOutput
				if p.V2 {
					so = p.T2.SiacoinOutputs[j]
				} else {
					so = p.T1.SiacoinOutputs[j]
				}
				elem[l] = types.SiacoinElement{ID: types.SiacoinOutputID(p.Outs[j]), SiacoinOutput: so}
			}
			progress = true
		}
	}
	for i := range built {
		if built[i] == nil {
			return nil, fmt.Errorf("transaction %d of scenario %s spends a leaf nobody creates", i+1, a.Name)
		}
	}
	// register the leaves under their abstract names, then the transactions in order
	for l := 1; l <= maxLeaf; l++ {
		e, ok := elem[l]
		if !ok {
			return nil, fmt.Errorf("leaf %d of scenario %s is never created", l, a.Name)
		}
		if got := s.leaf(types.Hash256(e.ID)); got != l {
			return nil, fmt.Errorf("leaf naming out of step: %d vs %d", got, l)
		}
	}
	for _, p := range built {
		s.Catalogue(p)
	}
	// blocks
	for k := 2; k <= a.N; k++ {
		body := a.Body[k-1]
		nd := s.Tree.AddCustom(a.Parent[k-1]+s.Warm, s.Rng, 0, func(b *mat.Builder) {
			// keep the root's leaves away from random operations
			for _, e := range elem {
				b.MarkUsed(types.Hash256(e.ID))
			}
			for _, name := range body {
				b.AddPoolTx(s.Tx(name))
			}
		})
		if nd.Cls != "ok" || nd.L == nil {
			return nil, fmt.Errorf("scenario %s: block %d (body %v) is not valid: class %s", a.Name, k, body, nd.Cls)
		}
	}
	return s, nil
}
