package poolx

import (
	"bytes"
	"fmt"
	"os"
	"reflect"
	"sort"
	"strings"
	"time"

	"go.sia.tech/core/consensus"
	"go.sia.tech/core/types"
	"go.sia.tech/coreutils"
	"go.sia.tech/coreutils/chain"
	"verifharness/chainx"
	"verifharness/hx"
	"verifharness/mat"
)

// Inst is one transaction instance of a submitted / rebased set.
type Inst struct {
	T   int   `json:"t"`
	Eph []int `json:"eph"`
	Bad bool  `json:"bad"`
	// Corrupt selects how a Bad v2 instance is damaged: "" / "proof", "leaf", "leafbig", "prooflen"
	Corrupt string `json:"corrupt,omitempty"`
}

// An Exec drives one real node through one history and records it.
type Exec struct {
	S     *Scen
	N     *chainx.RNode
	Res   *hx.Result
	TW    *hx.TraceWriter
	ScIdx int // index of the scenario in the scenarios file (Reset event)
	Tip   int // abstract tip

	// last reported pool (names), and whether the tip moved / a conflict happened since
	p1, p2 []int
	fresh  bool
	// Go-side retention tracker: accepted transactions none of whose retention-ending events happened
	keep map[types.TransactionID]bool
	// kept v2 transactions that had an input not held by the ledger right after some block step since
	// the last report (the situation in which the open finding C05-ephemeral-child-dropped strikes)
	ephExposed map[types.TransactionID]bool
	// weight bookkeeping for the pool-full flag
	accWeight uint64
	// what the last AddSet promised (checked by the next Obs)
	pend *pendingAdd
	// audit sampling
	TwinEvery int
	obsCount  int
	History   []string // compact log of the steps (replay record)
	Events    int
	dead      bool // the node panicked inside a mutating call; the history is abandoned
	// DevPartial: the partial-add deviation is tolerated (see AddSet's weight accounting)
	DevPartial bool
	// Stub makes the HARNESS misreport the node on purpose (selftest of the binding):
	// "lose-accepted": the last reported v2 transaction is hidden; "lookup-absent": found -> absent;
	// "rebase-identity": a successful rebase is reported with the caller's old proofs
	Stub string
}

type pendingAdd struct {
	kind   string
	reply  string
	set    []int
	p1, p2 []int
}

func NewExec(s *Scen, res *hx.Result, tw *hx.TraceWriter, scIdx int) *Exec {
	return &Exec{S: s, Res: res, TW: tw, ScIdx: scIdx, TwinEvery: 1, DevPartial: os.Getenv("VERIF_DEV_PARTIAL") == "1", keep: map[types.TransactionID]bool{}, ephExposed: map[types.TransactionID]bool{}}
}

func (x *Exec) emit(ev map[string]any) {
	x.TW.Emit(ev)
	x.Events++
}

func (x *Exec) note(format string, a ...any) {
	if len(x.History) < 400 {
		x.History = append(x.History, fmt.Sprintf(format, a...))
	}
}

func (x *Exec) replay() any {
	return map[string]any{"kind": "history", "scenario": x.S.Name, "seed": hx.Seed(), "steps": x.History}
}

func (x *Exec) mismatch(sig, format string, a ...any) {
	x.Res.Mismatch(sig, fmt.Sprintf("scenario %s: ", x.S.Name)+fmt.Sprintf(format, a...), x.replay())
}

func (x *Exec) blocksTo(abs int) []types.Block {
	var bs []types.Block
	for _, id := range x.S.Tree.PathTo(abs + x.S.Warm)[1:] {
		bs = append(bs, x.S.Tree.Node(id).Block)
	}
	return bs
}

// Reset starts a fresh node on the warm-up prefix.
func (x *Exec) Reset() error {
	x.N = chainx.NewNode(x.S.W, false)
	if err := x.N.CM.AddBlocks(x.blocksTo(1)); err != nil {
		return fmt.Errorf("warm-up prefix rejected: %w", err)
	}
	x.Tip = 1
	x.p1, x.p2 = []int{}, []int{}
	x.fresh = true
	x.emit(map[string]any{"op": "Reset", "sc": x.ScIdx})
	x.note("reset")
	return nil
}

func (x *Exec) absOf(id types.BlockID) int {
	for _, nd := range x.S.Tree.Nodes {
		if nd.Block.ID() == id {
			return x.S.Abs(nd.ID)
		}
	}
	return -1
}

// Submit hands the chain ending in abstract node `to` to AddBlocks.
func (x *Exec) Submit(to int) {
	if x.dead {
		return
	}
	x.note("submit %d", to)
	before := x.Tip
	x.emit(map[string]any{"op": "Submit", "to": to})
	cls, ops, detail := x.N.Submit(x.blocksTo(to), nil, 0)
	if cls == "panic" {
		// the node died inside AddBlocks while blocks were applied / reverted under its pool
		x.mismatch("audit:c05:submit:panic", "AddBlocks of the valid chain to node %d panicked with pool v1 %v v2 %v: %s", to, x.p1, x.p2, detail)
		x.dead = true
		return
	}
	if cls != "ok" {
		x.mismatch("harness:submit:"+cls, "AddBlocks of the valid chain to node %d returned %s (%s)", to, cls, detail)
		x.dead = true
		return
	}
	for _, op := range ops {
		switch op.Op {
		case "Revert":
			b := x.absOf(op.ID)
			x.emit(map[string]any{"op": "Revert", "b": b})
			x.trackRevert(b)
			x.fresh = false
		case "Apply":
			b := x.absOf(op.ID)
			x.emit(map[string]any{"op": "Apply", "b": b})
			x.trackApply(b)
			x.fresh = false
		}
	}
	tip := x.absOf(x.N.CM.Tip().ID)
	x.Tip = tip
	x.emit(map[string]any{"op": "Done", "tip": tip})
	// the specification's reorg rule is "more blocks = more work" (equal block spacing): make sure the
	// real node agrees, otherwise the history is outside what the scenario generators promise
	want := before
	if x.S.Node(to).Height > x.S.Node(before).Height {
		want = to
	}
	if tip != want {
		x.mismatch("harness:reorg-rule", "submitting node %d (height %d) with tip %d (height %d) left the tip at %d", to, x.S.Node(to).Height, before, x.S.Node(before).Height, tip)
		x.dead = true
	}
}

// ---------------------------------------------------------------- Go-side retention tracker

func (x *Exec) closeKeep(l *mat.Ledger) {
	for changed := true; changed; {
		changed = false
		made := map[types.Hash256]bool{}
		for id := range x.keep {
			for _, o := range x.S.ByID[id].Outs {
				made[o] = true
			}
		}
		for id := range x.keep {
			p := x.S.ByID[id]
			ok := true
			for _, in := range p.Ins {
				if !ledgerHas(l, in) && !made[in] {
					ok = false
				}
			}
			for _, r := range p.Refs {
				if !ledgerHas(l, r) {
					ok = false
				}
			}
			if !ok {
				delete(x.keep, id)
				changed = true
			}
		}
	}
}

// markExposed records the kept v2 transactions with an input that the ledger after the step does not hold.
func (x *Exec) markExposed(l *mat.Ledger) {
	for id := range x.keep {
		p := x.S.ByID[id]
		if !p.V2 {
			continue
		}
		for _, in := range p.Ins {
			if !ledgerHas(l, in) {
				x.ephExposed[id] = true
			}
		}
	}
}

func ledgerHas(l *mat.Ledger, id types.Hash256) bool {
	if _, ok := l.SC[types.SiacoinOutputID(id)]; ok {
		return true
	}
	if _, ok := l.SF[types.SiafundOutputID(id)]; ok {
		return true
	}
	if _, ok := l.V2FC[types.FileContractID(id)]; ok {
		return true
	}
	for _, e := range l.CI {
		if types.Hash256(e.ID) == id {
			return true
		}
	}
	return false
}

func (x *Exec) trackApply(b int) {
	nd := x.S.Node(b)
	_, spends := blockLeaves(nd.Block)
	spent := map[types.Hash256]bool{}
	for _, id := range spends {
		spent[id] = true
	}
	for _, txn := range nd.Block.Transactions {
		delete(x.keep, txn.ID())
	}
	// the chain outgrew the hardfork regime the transaction is valid in (v1 at the require height, v1
	// signatures of the epoch before the allow height)
	for id := range x.keep {
		if _, hi := x.S.Window(x.S.ByID[id]); int(nd.Height) > hi {
			delete(x.keep, id)
		}
	}
	for _, txn := range nd.Block.V2Transactions() {
		delete(x.keep, txn.ID())
	}
	for id := range x.keep {
		p := x.S.ByID[id]
		for _, in := range append(append([]types.Hash256{}, p.Ins...), p.Refs...) {
			if spent[in] {
				delete(x.keep, id)
			}
		}
	}
	x.closeKeep(nd.L)
	x.markExposed(nd.L)
}

func (x *Exec) trackRevert(b int) {
	nd := x.S.Node(b)
	creates, _ := blockLeaves(nd.Block)
	gone := map[types.Hash256]bool{}
	for _, id := range creates {
		gone[id] = true
	}
	for id := range x.keep {
		p := x.S.ByID[id]
		for _, in := range append(append([]types.Hash256{}, p.Ins...), p.Refs...) {
			if gone[in] {
				delete(x.keep, id)
			}
		}
	}
	x.closeKeep(x.S.Tree.Node(nd.Parent).L)
	x.markExposed(x.S.Tree.Node(nd.Parent).L)
}

// ---------------------------------------------------------------- observation + audits

func ephOf(s *Scen, txn types.V2Transaction) []int {
	out := []int{}
	for _, in := range txn.SiacoinInputs {
		if in.Parent.StateElement.LeafIndex == types.UnassignedLeafIndex {
			out = append(out, s.leaf(types.Hash256(in.Parent.ID)))
		}
	}
	for _, in := range txn.SiafundInputs {
		if in.Parent.StateElement.LeafIndex == types.UnassignedLeafIndex {
			out = append(out, s.leaf(types.Hash256(in.Parent.ID)))
		}
	}
	for _, r := range txn.FileContractRevisions {
		if r.Parent.StateElement.LeafIndex == types.UnassignedLeafIndex {
			out = append(out, s.leaf(types.Hash256(r.Parent.ID)))
		}
	}
	for _, r := range txn.FileContractResolutions {
		if r.Parent.StateElement.LeafIndex == types.UnassignedLeafIndex {
			out = append(out, s.leaf(types.Hash256(r.Parent.ID)))
		}
	}
	sort.Ints(out)
	return out
}

func v2Bytes(txn types.V2Transaction) []byte {
	var buf bytes.Buffer
	e := types.NewEncoder(&buf)
	txn.EncodeTo(e)
	e.Flush()
	return buf.Bytes()
}

func v1Bytes(txn types.Transaction) []byte {
	var buf bytes.Buffer
	e := types.NewEncoder(&buf)
	txn.EncodeTo(e)
	e.Flush()
	return buf.Bytes()
}

func sameV2(a, b []types.V2Transaction) bool {
	if len(a) != len(b) {
		return false
	}
	for i := range a {
		if !bytes.Equal(v2Bytes(a[i]), v2Bytes(b[i])) {
			return false
		}
	}
	return true
}

func sameV1(a, b []types.Transaction) bool {
	if len(a) != len(b) {
		return false
	}
	for i := range a {
		if !bytes.Equal(v1Bytes(a[i]), v1Bytes(b[i])) {
			return false
		}
	}
	return true
}

// scramble mutates everything a caller can reach in a v2 transaction it was handed.
func scramble(txn *types.V2Transaction) {
	for i := range txn.SiacoinInputs {
		in := &txn.SiacoinInputs[i]
		for j := range in.Parent.StateElement.MerkleProof {
			in.Parent.StateElement.MerkleProof[j][3] ^= 0xA5
		}
		in.Parent.StateElement.LeafIndex ^= 0x10
		in.Parent.SiacoinOutput.Value = in.Parent.SiacoinOutput.Value.Add(types.NewCurrency64(7))
		for j := range in.SatisfiedPolicy.Signatures {
			in.SatisfiedPolicy.Signatures[j][5] ^= 0x5A
		}
	}
	for i := range txn.SiafundInputs {
		in := &txn.SiafundInputs[i]
		for j := range in.Parent.StateElement.MerkleProof {
			in.Parent.StateElement.MerkleProof[j][3] ^= 0xA5
		}
	}
	for i := range txn.SiacoinOutputs {
		txn.SiacoinOutputs[i].Value = txn.SiacoinOutputs[i].Value.Add(types.NewCurrency64(3))
	}
	for i := range txn.ArbitraryData {
		txn.ArbitraryData[i] ^= 0xFF
	}
	txn.MinerFee = txn.MinerFee.Add(types.NewCurrency64(1))
}

// validatePrefixes checks the reported pool (v1 then v2, in order) transaction by transaction on a
// fresh MidState of the INDEPENDENT ledger's tip state with the ledger's own supplements: every
// prefix is a valid transaction set, every v2 proof verifies against the tip accumulator.
func validatePrefixes(l *mat.Ledger, v1 []types.Transaction, v2 []types.V2Transaction) (pos int, err error) {
	ms := consensus.NewMidState(l.CS)
	for i, txn := range v1 {
		ts := l.TxSupplement(txn)
		if err := consensus.ValidateTransaction(ms, txn, ts); err != nil {
			return i, fmt.Errorf("v1 pool transaction %d (%v): %w", i, txn.ID(), err)
		}
		ms.ApplyTransaction(txn, ts)
	}
	for i, txn := range v2 {
		if err := consensus.ValidateV2Transaction(ms, txn); err != nil {
			return len(v1) + i, fmt.Errorf("v2 pool transaction %d (%v): %w", i, txn.ID(), err)
		}
		ms.ApplyV2Transaction(txn)
	}
	return 0, nil
}

func (x *Exec) names1(txns []types.Transaction) (out []int, unknown bool) {
	out = []int{}
	for _, t := range txns {
		if p, ok := x.S.ByID[t.ID()]; ok && !p.V2 {
			out = append(out, p.Name)
		} else {
			out = append(out, len(x.S.Txs)+1)
			unknown = true
		}
	}
	return
}

func (x *Exec) names2(txns []types.V2Transaction) (out []int, unknown bool) {
	out = []int{}
	for _, t := range txns {
		if p, ok := x.S.ByID[t.ID()]; ok && p.V2 {
			out = append(out, p.Name)
		} else {
			out = append(out, len(x.S.Txs)+1)
			unknown = true
		}
	}
	return
}

func (x *Exec) poolWeight(v1 []types.Transaction, v2 []types.V2Transaction) (w uint64) {
	cs := x.S.Node(x.Tip).L.CS
	for _, t := range v1 {
		w += cs.TransactionWeight(t)
	}
	for _, t := range v2 {
		w += cs.V2TransactionWeight(t)
	}
	return
}

// mineAudit assembles a block from the reported pool on top of the tip (own assembly, and the
// repository's miner) and requires the independent ledger, a copy of the node and -- sampled -- a
// fresh node that only ever sees this chain linearly to accept it.
// A minedBlock is what coreutils.MineBlock assembled from the node's pool: the catalogued
// transactions of its body in block order, and the verdicts on it.
type minedBlock struct {
	ids       []int // names, v1 then v2 (len(Txs)+1 for a transaction the catalogue does not know)
	assembled bool  // MineBlock returned a block
	accepted  bool  // by core on the independent ledger, and (when checked) by a copy of the node and a fresh linear node
	cut       bool  // the reported pool outweighs one block: the assembler had to cut
	prefix    bool  // the body is a prefix of the reported sequence
}

// ok is the verdict on the harness' OWN assembly (the `mine` flag of the Obs event); the verdict on
// what coreutils.MineBlock assembled travels in mb and becomes the Mine event.
func (x *Exec) mineAudit(v1 []types.Transaction, v2 []types.V2Transaction, deep bool) (ok bool, mb minedBlock) {
	ok = true
	l := x.S.Node(x.Tip).L
	// our own assembly: the longest prefix of the reported pool that fits into one block
	cs := l.CS
	var w uint64
	var m1 []types.Transaction
	var m2 []types.V2Transaction
	for _, t := range v1 {
		if w += cs.TransactionWeight(t); w > cs.MaxBlockWeight() {
			break
		}
		m1 = append(m1, t)
	}
	if len(m1) == len(v1) {
		for _, t := range v2 {
			if w += cs.V2TransactionWeight(t); w > cs.MaxBlockWeight() {
				break
			}
			m2 = append(m2, t)
		}
	}
	mb.cut = len(m1)+len(m2) < len(v1)+len(v2)
	own := x.S.W.AssembleBlock(l, m1, m2, x.S.nextTag())
	if err := l.Validate(own); err != nil {
		x.mismatch("audit:c05:mine:own-block-invalid", "a block assembled from the reported pool (%d v1, %d v2) on tip %d is invalid for core on the independent ledger: %v", len(m1), len(m2), x.Tip, err)
		ok = false
	}
	x.Res.Count("mined_own", 1)
	// the repository's own assembler, ALWAYS: coreutils.MineBlock on the real node's pool
	blocks := []types.Block{own}
	mb.accepted, mb.prefix = true, true
	func() {
		defer func() {
			if r := recover(); r != nil {
				x.mismatch("audit:c05:mine:mineblock-panic", "coreutils.MineBlock panicked: %v", r)
				mb.accepted = false
			}
		}()
		b, found := coreutils.MineBlock(x.N.CM, x.S.W.Addr, 10*time.Second)
		if !found {
			x.mismatch("harness:mineblock-timeout", "MineBlock found no nonce")
			return
		}
		mb.assembled = true
		blocks = append(blocks, b)
		x.Res.Count("mined_mineblock", 1)
		if mb.cut {
			x.Res.Count("mined_mineblock_cut_at_block_weight", 1)
		}
		mb.ids = []int{}
		for _, t := range b.Transactions {
			if p, ok := x.S.ByID[t.ID()]; ok {
				mb.ids = append(mb.ids, p.Name)
			} else if len(t.SiacoinInputs)+len(t.SiafundInputs) > 0 {
				mb.ids = append(mb.ids, len(x.S.Txs)+1)
			}
		}
		for _, t := range b.V2Transactions() {
			if p, ok := x.S.ByID[t.ID()]; ok {
				mb.ids = append(mb.ids, p.Name)
			} else if len(t.SiacoinInputs)+len(t.SiafundInputs) > 0 {
				mb.ids = append(mb.ids, len(x.S.Txs)+1)
			}
		}
		// the pool only promises that its PREFIXES are valid: the body must be one
		n1, _ := x.names1(v1)
		n2, _ := x.names2(v2)
		all := append(append([]int{}, n1...), n2...)
		prefix := len(mb.ids) <= len(all)
		for i := 0; prefix && i < len(mb.ids); i++ {
			prefix = mb.ids[i] == all[i]
		}
		if !prefix {
			x.mismatch("audit:c05:mine:mineblock-not-a-prefix", "coreutils.MineBlock assembled %v from the reported pool %v (weight limit of a block reached: %v): not a prefix of the reported sequence", mb.ids, all, mb.cut)
			mb.prefix = false
		}
		if err := l.Validate(b); err != nil {
			x.mismatch("audit:c05:mine:mineblock-invalid", "coreutils.MineBlock built a block (%v of pool %v) on tip %d that core rejects on the independent ledger: %v", mb.ids, all, x.Tip, err)
			mb.accepted = false
		}
	}()
	// acceptance by the node and by a fresh linear node: sampled, and always when the assembler had to
	// cut the pool or something is already wrong
	if !deep && !mb.cut && ok && mb.accepted && mb.prefix {
		return
	}
	for bi, b := range blocks {
		who := []string{"own", "mineblock"}[bi]
		// the node itself (a copy of its store: the history must go on undisturbed)
		cp, err := chainx.OpenNode(x.S.W, chainx.CopyDB(x.N.Raw), false)
		if err != nil {
			x.mismatch("harness:copy-node", "cannot reopen a copy of the node: %v", err)
			return
		}
		if err := cp.CM.AddBlocks([]types.Block{b}); err != nil || cp.CM.Tip().ID != b.ID() {
			x.mismatch("audit:c05:mine:node-rejects:"+who, "the node rejects the block built from its own reported pool on tip %d: %v", x.Tip, err)
			if bi == 1 {
				mb.accepted = false
			} else {
				ok = false
			}
		}
		twin := chainx.NewNode(x.S.W, false)
		if err := twin.CM.AddBlocks(x.blocksTo(x.Tip)); err != nil {
			x.mismatch("harness:twin", "linear twin rejects the best chain: %v", err)
			return
		}
		if err := twin.CM.AddBlocks([]types.Block{b}); err != nil || twin.CM.Tip().ID != b.ID() {
			x.mismatch("audit:c05:mine:twin-rejects:"+who, "a fresh linear node rejects the block built from the reported pool on tip %d: %v", x.Tip, err)
			if bi == 1 {
				mb.accepted = false
			} else {
				ok = false
			}
		}
		x.Res.Count("mined_accepted_by_node_and_twin", 1)
	}
	return
}

// emitMine records what coreutils.MineBlock assembled as an event of its own (judged by the
// specification: prefix of the reported pool, self-contained, within the block weight, accepted).
func (x *Exec) emitMine(mb minedBlock) {
	if !mb.assembled {
		return
	}
	for _, n := range mb.ids {
		if n > len(x.S.Txs) {
			return // nothing the specification could name (reported by the audits)
		}
	}
	r := "accepted"
	if !mb.accepted {
		r = "rejected"
	}
	x.emit(map[string]any{"op": "Mine", "r": r, "ids": mb.ids})
	x.note("mine %v -> %s", mb.ids, r)
	x.Res.Eval(fmt.Sprintf("%s|mine|%d|%v|%v|%v", x.S.Name, x.Tip, x.p1, x.p2, mb.ids))
}

// Obs reports the pool (PoolTransactions + V2PoolTransactions), audits it and records it.
func (x *Exec) Obs() {
	if x.dead {
		return
	}
	x.obsCount++
	var v1 []types.Transaction
	var v2 []types.V2Transaction
	panicked := ""
	func() {
		defer func() {
			if r := recover(); r != nil {
				panicked = fmt.Sprint(r)
			}
		}()
		v1 = x.N.CM.PoolTransactions()
		v2 = x.N.CM.V2PoolTransactions()
	}()
	if x.Stub == "lose-accepted" && len(v2) > 0 {
		v2 = v2[:len(v2)-1]
	}
	if panicked != "" {
		x.mismatch("audit:c05:report-panic", "PoolTransactions/V2PoolTransactions panicked: %s", panicked)
		x.dead = true
		return
	}
	p1, unk1 := x.names1(v1)
	p2, unk2 := x.names2(v2)
	if unk1 || unk2 {
		x.mismatch("audit:c05:invention", "the pool reports a transaction that was never submitted nor reverted: v1 %v v2 %v", p1, p2)
	}
	l := x.S.Node(x.Tip).L
	// pool-full flag: the POOLED transactions (last report + accepted since) had reached the limit
	// before this query -- the only situation in which revalidatePool may evict
	wasWeight := x.accWeight
	full := x.accWeight >= l.CS.MaxBlockWeight()*10
	if full {
		x.Res.Count("obs_pool_full", 1)
		if x.poolWeight(v1, v2) < x.accWeight {
			x.Res.Count("obs_evictions", 1)
		}
	}
	valid := true
	if pos, err := validatePrefixes(l, v1, v2); err != nil {
		valid = false
		x.mismatch("audit:c05:prefix-invalid", "reported pool %v %v is not a valid continuation of tip %d at position %d: %v", p1, p2, x.Tip, pos, err)
	}
	x.Res.Count("prefix_validations", 1)
	mine := true
	var mined minedBlock
	if valid {
		deep := x.TwinEvery > 0 && x.obsCount%x.TwinEvery == 0
		mine, mined = x.mineAudit(v1, v2, deep)
	}
	// aliasing of query results: mutate the returned v2 transactions, reorder both lists, ask again
	alias := true
	{
		for i := range v2 {
			c := v2[i].DeepCopy()
			_ = c
		}
		keep2 := make([]types.V2Transaction, len(v2))
		for i := range v2 {
			keep2[i] = v2[i].DeepCopy()
		}
		keep1 := make([]types.Transaction, len(v1))
		for i := range v1 {
			keep1[i] = mat.CopyTxn(v1[i])
		}
		for i := range v2 {
			scramble(&v2[i])
		}
		for i, j := 0, len(v2)-1; i < j; i, j = i+1, j-1 {
			v2[i], v2[j] = v2[j], v2[i]
		}
		for i, j := 0, len(v1)-1; i < j; i, j = i+1, j-1 {
			v1[i], v1[j] = v1[j], v1[i]
		}
		if len(v1) > 0 {
			v1[0] = types.Transaction{}
		}
		again1 := x.N.CM.PoolTransactions()
		again2 := x.N.CM.V2PoolTransactions()
		if !sameV2(again2, keep2) {
			alias = false
			x.mismatch("audit:c14:alias:query-v2", "mutating / reordering the transactions returned by V2PoolTransactions changed the pool")
		}
		if !sameV1(again1, keep1) {
			alias = false
			x.mismatch("audit:c14:alias:query-v1", "reordering the list returned by PoolTransactions changed the pool")
		}
		v1, v2 = keep1, keep2
		x.Res.Count("alias_checks", 1)
	}
	eph := [][]int{}
	for _, t := range v2 {
		eph = append(eph, ephOf(x.S, t))
	}
	// ---- C05 "stays retrievable": every listed transaction, everything listed at the previous report
	// and every must-keep transaction is looked up BY ID through the lookup of its own version
	asked, found := x.retrievable(p1, p2)
	// ---- C14: what the last submission promised
	if pa := x.pend; pa != nil {
		x.pend = nil
		old, cur := pa.p2, p2
		oth := reflect.DeepEqual(pa.p1, p1)
		if pa.kind == "v1" {
			old, cur = pa.p1, p1
			oth = reflect.DeepEqual(pa.p2, p2)
		}
		if !full {
			switch pa.reply {
			case "err", "known", "panic":
				if !reflect.DeepEqual(old, cur) || !oth {
					k := 0
					for i, t := range pa.set {
						for _, c := range cur[min(len(old), len(cur)):] {
							if c == t {
								k = i + 1
							}
						}
					}
					what := "err-but-added"
					if pa.reply != "err" {
						what = pa.reply + "-but-changed"
					}
					x.mismatch(fmt.Sprintf("audit:c14:atomicity:%s:%s", pa.kind, what),
						"submission of %s set %v returned %q but the pool changed from %v to %v (member %d of the set was added): not all-or-nothing", pa.kind, pa.set, pa.reply, old, cur, k)
				}
			case "ok":
				want := append([]int{}, old...)
				for _, t := range pa.set {
					dup := false
					for _, o := range want {
						dup = dup || o == t
					}
					if !dup && x.isUnconfirmed(t) {
						want = append(want, t)
					}
				}
				if !reflect.DeepEqual(want, cur) || !oth {
					x.mismatch(fmt.Sprintf("audit:c14:atomicity:%s:ok-but-not-all", pa.kind),
						"submission of %s set %v was accepted but the pool went from %v to %v, expected %v", pa.kind, pa.set, old, cur, want)
				}
			}
		}
	}
	// ---- C05: retention
	if full {
		// a full pool may evict anything
		for id := range x.keep {
			found := false
			for _, t := range v1 {
				found = found || t.ID() == id
			}
			for _, t := range v2 {
				found = found || t.ID() == id
			}
			if !found {
				delete(x.keep, id)
			}
		}
		x.closeKeep(l)
	}
	var lost []int
	for id := range x.keep {
		found := false
		for _, t := range v1 {
			found = found || t.ID() == id
		}
		for _, t := range v2 {
			found = found || t.ID() == id
		}
		if !found {
			lost = append(lost, x.S.ByID[id].Name)
		}
	}
	sort.Ints(lost)
	for _, name := range lost {
		p := x.S.Tx(name)
		shape := "confirmed-inputs"
		if x.ephExposed[p.ID] {
			shape = "ephemeral-input" // it had an ephemeral input right after one of the block steps
		}
		ver := "v1"
		if p.V2 {
			ver = "v2"
		}
		x.mismatch(fmt.Sprintf("audit:c05:retention:%s:%s", ver, shape),
			"accepted transaction %d (%s, %s) is no longer in the reported pool %v %v at tip %d although it was not confirmed, none of its inputs was spent or reverted and the pool is not full (the pooled transactions weighed %d before this query, the limit is %d)", name, ver, shape, p1, p2, x.Tip, wasWeight, l.CS.MaxBlockWeight()*10)
		delete(x.keep, p.ID)
	}
	x.Res.Count("retention_checks", 1)
	x.ephExposed = map[types.TransactionID]bool{}
	if unk1 || unk2 || !alias {
		// the pool holds something the catalogue does not know (possibly because our own mutation of a
		// returned transaction reached it): recorded above; this history cannot be driven any further
		x.dead = true
		if unk1 || unk2 {
			return // nothing the specification could name: the recorded execution ends here
		}
	}
	x.emit(map[string]any{"op": "Obs", "p1": p1, "p2": p2, "eph": eph, "full": full, "valid": valid, "mine": mine, "alias": alias, "asked": asked, "found": found})
	x.note("obs %v %v", p1, p2)
	x.p1, x.p2 = p1, p2
	x.fresh = true
	x.accWeight = x.poolWeight(v1, v2)
	x.Res.Eval(fmt.Sprintf("%s|obs|%d|%v|%v", x.S.Name, x.Tip, p1, p2))
	// the interesting assemblies are events of their own: the pool outweighs one block (the assembler
	// had to cut), or the assembled block was not accepted
	if !x.dead && (mined.cut || !mined.accepted || !mined.prefix) {
		x.emitMine(mined)
	}
}

// retrievable looks every candidate up by its id through PoolTransaction (v1) / V2PoolTransaction (v2)
// and audits the answer against the pool just reported: listed <=> found.
func (x *Exec) retrievable(p1, p2 []int) (asked, found []int) {
	listed := map[int]bool{}
	cand := map[int]bool{}
	for _, n := range append(append([]int{}, p1...), p2...) {
		listed[n], cand[n] = true, true
	}
	for _, n := range append(append([]int{}, x.p1...), x.p2...) {
		cand[n] = true
	}
	for id := range x.keep {
		cand[x.S.ByID[id].Name] = true
	}
	asked, found = []int{}, []int{}
	for n := range cand {
		if n >= 1 && n <= len(x.S.Txs) {
			asked = append(asked, n)
		}
	}
	sort.Ints(asked)
	for _, n := range asked {
		p := x.S.Tx(n)
		api, got, detail := "PoolTransaction", false, ""
		func() {
			defer func() {
				if r := recover(); r != nil {
					detail = fmt.Sprintf("panic: %v", r)
				}
			}()
			if p.V2 {
				api = "V2PoolTransaction"
				txn, ok := x.N.CM.V2PoolTransaction(p.ID)
				got = ok && txn.ID() == p.ID
				if ok && !got {
					detail = fmt.Sprintf("returned transaction %v", txn.ID())
				}
			} else {
				txn, ok := x.N.CM.PoolTransaction(p.ID)
				got = ok && txn.ID() == p.ID
				if ok && !got {
					detail = fmt.Sprintf("returned transaction %v", txn.ID())
				}
			}
		}()
		if got {
			found = append(found, n)
		}
		switch {
		case listed[n] && !got:
			what := "absent"
			if detail != "" {
				what = "wrong-or-panic"
			}
			x.mismatch(fmt.Sprintf("audit:c05:retrievable:%s:listed-but-%s", api, what),
				"transaction %d is listed in the reported pool v1 %v v2 %v at tip %d but %s(its id) does not return it (%s): an accepted transaction is no longer retrievable", n, p1, p2, x.Tip, api, detail)
		case !listed[n] && got:
			x.mismatch(fmt.Sprintf("audit:c05:retrievable:%s:found-but-not-listed", api),
				"%s returns transaction %d although the reported pool v1 %v v2 %v at tip %d does not list it", api, n, p1, p2, x.Tip)
		}
	}
	x.Res.Count("retrievable_lookups", len(asked))
	return
}

func (x *Exec) isUnconfirmed(name int) bool {
	// a member of an accepted stale-basis set that was confirmed between basis and tip is not added
	id := x.S.Tx(name).ID
	for _, tid := range x.S.Tree.PathTo(x.Tip + x.S.Warm) {
		b := x.S.Tree.Node(tid).Block
		for _, t := range b.Transactions {
			if t.ID() == id {
				return false
			}
		}
		for _, t := range b.V2Transactions() {
			if t.ID() == id {
				return false
			}
		}
	}
	return true
}

func (x *Exec) ensureFresh() {
	if !x.fresh {
		x.Obs()
	}
}

// corruptV2 damages one proof-carrying element (or, failing that, a signature) of the instance.
func corruptV2(txn *types.V2Transaction, how string) bool {
	for i := range txn.SiacoinInputs {
		se := &txn.SiacoinInputs[i].Parent.StateElement
		if se.LeafIndex == types.UnassignedLeafIndex {
			continue
		}
		switch how {
		case "leaf":
			se.LeafIndex ^= 1
			return true
		case "leafbig":
			se.LeafIndex = 1 << 40
			return true
		case "prooflen":
			se.MerkleProof = append(se.MerkleProof, types.Hash256{1})
			return true
		default:
			if len(se.MerkleProof) > 0 {
				se.MerkleProof[len(se.MerkleProof)/2][7] ^= 0x20
				return true
			}
			se.LeafIndex ^= 1
			return true
		}
	}
	for i := range txn.FileContractRevisions {
		se := &txn.FileContractRevisions[i].Parent.StateElement
		if len(se.MerkleProof) > 0 {
			se.MerkleProof[0][7] ^= 0x20
			return true
		}
	}
	for i := range txn.FileContractResolutions {
		se := &txn.FileContractResolutions[i].Parent.StateElement
		if len(se.MerkleProof) > 0 {
			se.MerkleProof[0][7] ^= 0x20
			return true
		}
	}
	for i := range txn.SiacoinInputs {
		if sigs := txn.SiacoinInputs[i].SatisfiedPolicy.Signatures; len(sigs) > 0 {
			sigs[0][9] ^= 0x04
			return true
		}
	}
	return false
}

func (x *Exec) treeDist(a, b int) int {
	pa, pb := x.S.Tree.PathTo(a+x.S.Warm), x.S.Tree.PathTo(b+x.S.Warm)
	k := 0
	for k < len(pa) && k < len(pb) && pa[k] == pb[k] {
		k++
	}
	return len(pa) - k + len(pb) - k
}

func (x *Exec) index(abs int) types.ChainIndex {
	if abs <= 0 || abs > x.S.NumAbs() {
		var id types.BlockID
		copy(id[:], fmt.Sprintf("unknown-basis-%d", abs))
		return types.ChainIndex{Height: 2, ID: id}
	}
	nd := x.S.Node(abs)
	return types.ChainIndex{Height: nd.Height, ID: nd.Block.ID()}
}

func errClass(known bool, err error, panicked string) string {
	switch {
	case panicked != "":
		return "panic"
	case err != nil:
		return "err"
	case known:
		return "known"
	}
	return "ok"
}

// AddSet submits a set.  For v2 the instances are the transactions as a caller holding the ledger
// of `basis` would build them (ephemeral where that ledger does not hold the input).
func (x *Exec) AddSet(kind string, basis int, set []Inst) string {
	if x.dead {
		return "dead"
	}
	x.ensureFresh()
	names := []int{}
	evset := []map[string]any{}
	var reply, detail string
	aliasOK := true
	if kind == "v2" {
		var l *mat.Ledger
		if basis >= 1 && basis <= x.S.NumAbs() {
			l = x.S.Ledger(basis)
		} else {
			l = x.S.Ledger(x.Tip)
		}
		var txns []types.V2Transaction
		for _, in := range set {
			p := x.S.Tx(in.T)
			names = append(names, in.T)
			if !p.V2 {
				x.mismatch("harness:addset:kind", "v1 transaction %d in a v2 set", in.T)
				return "dead"
			}
			txn, eph := p.At(l)
			if in.Bad {
				how := in.Corrupt
				if how == "" {
					how = "proof"
				}
				corruptV2(&txn, how)
			}
			txns = append(txns, txn)
			evset = append(evset, map[string]any{"t": in.T, "eph": x.S.leaves(eph), "bad": in.Bad})
		}
		before := make([]types.V2Transaction, len(txns))
		for i := range txns {
			before[i] = txns[i].DeepCopy()
		}
		var known bool
		var err error
		panicked := ""
		func() {
			defer func() {
				if r := recover(); r != nil {
					panicked = fmt.Sprint(r)
				}
			}()
			known, err = x.N.CM.AddV2PoolTransactions(x.index(basis), txns)
		}()
		reply = errClass(known, err, panicked)
		if err != nil {
			detail = err.Error()
		}
		if panicked != "" {
			detail = panicked
			x.mismatch("audit:c14:addset:v2:panic", "AddV2PoolTransactions(%v at basis %d) panicked: %s", names, basis, panicked)
		}
		// C13: an unknown basis, a basis beyond the supported distance and an invalid proof are rejected with
		// an error -- also when every transaction of the set is already pooled (ids do not cover proofs)
		if reply == "ok" || reply == "known" {
			why := ""
			for _, in := range set {
				if in.Bad {
					why = "corrupt-proof"
				}
			}
			if basis < 1 || basis > x.S.NumAbs() {
				why = "unknown-basis"
			} else if d := x.treeDist(basis, x.Tip); d > 144 {
				why = "basis-too-far"
			}
			if why != "" {
				x.mismatch("audit:c13:addset:hostile-accepted:"+why, "AddV2PoolTransactions(%v, basis %d, tip %d) answered %q although the submission has an %s (pool v2 %v): the basis and the proofs were not examined", names, basis, x.Tip, reply, why, x.p2)
			}
		}
		if err != nil && basis != x.Tip && basis >= 1 && strings.Contains(detail, "references element that does not exist in our chain") {
			hasEph := false
			for _, e := range evset {
				hasEph = hasEph || len(e["eph"].([]int)) > 0
			}
			if hasEph && x.rebaseShouldSucceed(names, evset, basis, x.Tip) {
				x.mismatch("audit:c13:addset:ephemeral-input-rejected", "AddV2PoolTransactions(%v, basis %d != tip %d) fails with %q although every proof is valid at the basis and the path is known: a set with an ephemeral input cannot be submitted with a stale basis", names, basis, x.Tip, detail)
			}
		}
		// "The original transactions are not modified and none of their memory is retained"
		if !sameV2(before, txns) {
			aliasOK = false
			x.mismatch("audit:c14:alias:addv2:modified", "AddV2PoolTransactions modified the caller's transactions (set %v, basis %d, reply %s)", names, basis, reply)
		}
		if panicked == "" {
			poolBefore := x.N.CM.V2PoolTransactions()
			for i := range txns {
				scramble(&txns[i])
			}
			if !sameV2(poolBefore, x.N.CM.V2PoolTransactions()) {
				aliasOK = false
				x.mismatch("audit:c14:alias:addv2:retained", "mutating the caller's transactions after AddV2PoolTransactions (set %v, reply %s) changed the pool: memory is retained", names, reply)
			}
		}
	} else {
		var txns []types.Transaction
		for _, in := range set {
			p := x.S.Tx(in.T)
			names = append(names, in.T)
			if p.V2 {
				x.mismatch("harness:addset:kind", "v2 transaction %d in a v1 set", in.T)
				return "dead"
			}
			txn := mat.CopyTxn(p.T1)
			if in.Bad && len(txn.Signatures) > 0 {
				txn.Signatures[0].Signature[9] ^= 0x04
			}
			txns = append(txns, txn)
			evset = append(evset, map[string]any{"t": in.T, "eph": []int{}, "bad": in.Bad})
		}
		var known bool
		var err error
		panicked := ""
		func() {
			defer func() {
				if r := recover(); r != nil {
					panicked = fmt.Sprint(r)
				}
			}()
			known, err = x.N.CM.AddPoolTransactions(txns)
		}()
		reply = errClass(known, err, panicked)
		if err != nil {
			detail = err.Error()
		}
		if panicked != "" {
			detail = panicked
			x.mismatch("audit:c14:addset:v1:panic", "AddPoolTransactions(%v) panicked: %s", names, panicked)
		}
		basis = x.Tip
	}
	x.emit(map[string]any{"op": "AddSet", "kind": kind, "basis": basis, "set": evset, "r": reply, "alias": aliasOK, "detail": detail})
	x.note("addset %s basis %d %v -> %s (%s)", kind, basis, names, reply, trunc(detail, 90))
	x.Res.Eval(fmt.Sprintf("%s|add|%s|%d|%v|%v|%v|%s", x.S.Name, kind, basis, names, x.p1, x.p2, reply))
	x.pend = &pendingAdd{kind: kind, reply: reply, set: names, p1: x.p1, p2: x.p2}
	if reply == "ok" {
		for _, t := range names {
			if x.isUnconfirmed(t) {
				x.keep[x.S.Tx(t).ID] = true
			}
		}
	}
	// weight of the POOLED transactions: what the last report held plus what this submission added.
	// A rejected set adds nothing (all-or-nothing) -- unless the partial-add deviation is tolerated
	// (VERIF_DEV_PARTIAL=1, finding C14-partial-add-on-pool-conflict open), in which case its members
	// may have been appended and count as an upper bound.
	if reply == "ok" || (reply == "err" && x.DevPartial) {
		pooled := map[int]bool{}
		for _, n := range append(append([]int{}, x.p1...), x.p2...) {
			pooled[n] = true
		}
		for _, t := range names {
			if pooled[t] || !x.isUnconfirmed(t) {
				continue
			}
			pooled[t] = true
			p := x.S.Tx(t)
			if p.V2 {
				x.accWeight += x.S.Node(x.Tip).L.CS.V2TransactionWeight(p.T2)
			} else {
				x.accWeight += x.S.Node(x.Tip).L.CS.TransactionWeight(p.T1)
			}
		}
	}
	if reply == "panic" {
		x.dead = true
		return reply
	}
	// a conflict with the pool discards the mid-state: the next query revalidates
	x.fresh = false
	x.Obs()
	return reply
}

func trunc(s string, n int) string {
	if len(s) > n {
		return s[:n]
	}
	return s
}

// Lookup asks both lookup functions semantics for one id: name in 1..ntx, anything else = unknown id.
func (x *Exec) Lookup(kind string, name int) {
	if x.dead {
		return
	}
	x.ensureFresh()
	var id types.TransactionID
	if name >= 1 && name <= len(x.S.Txs) {
		id = x.S.Tx(name).ID
	} else {
		copy(id[:], fmt.Sprintf("no-such-transaction-%d", name))
	}
	r, k, detail := "absent", 0, ""
	func() {
		defer func() {
			if rec := recover(); rec != nil {
				r, detail = "panic", fmt.Sprint(rec)
			}
		}()
		if kind == "v1" {
			txn, ok := x.N.CM.PoolTransaction(id)
			if ok {
				if txn.ID() == id {
					r, k = "found", name
				} else {
					r = "wrong"
					if p, ok := x.S.ByID[txn.ID()]; ok {
						k = p.Name
					}
					detail = fmt.Sprintf("returned transaction %v", txn.ID())
				}
			}
		} else {
			txn, ok := x.N.CM.V2PoolTransaction(id)
			if ok {
				if txn.ID() == id {
					// the returned transaction is the caller's: mutating it must not reach the pool
					orig := v2Bytes(txn)
					scramble(&txn)
					if again, ok2 := x.N.CM.V2PoolTransaction(id); !ok2 || !bytes.Equal(v2Bytes(again), orig) {
						x.mismatch("audit:c14:alias:lookup-v2", "mutating the transaction returned by V2PoolTransaction(%d) changed the pooled transaction", name)
					}
					r, k = "found", name
				} else {
					r = "wrong"
					if p, ok := x.S.ByID[txn.ID()]; ok {
						k = p.Name
					}
					detail = fmt.Sprintf("returned transaction %v", txn.ID())
				}
			}
		}
	}()
	if x.Stub == "lookup-absent" && r == "found" {
		r, k = "absent", 0
	}
	in := func(s []int) bool {
		for _, v := range s {
			if v == name {
				return true
			}
		}
		return false
	}
	mine, other, api := x.p1, x.p2, "PoolTransaction"
	if kind == "v2" {
		mine, other, api = x.p2, x.p1, "V2PoolTransaction"
	}
	idkind := "unknown-id"
	if in(x.p1) {
		idkind = "v1-id"
	} else if in(x.p2) {
		idkind = "v2-id"
	} else if name >= 1 && name <= len(x.S.Txs) {
		idkind = "unpooled-id"
	}
	want := "absent"
	if in(mine) {
		want = "found"
	}
	if r != want {
		x.mismatch(fmt.Sprintf("audit:c14:lookup:%s:%s:%s", api, idkind, r),
			"%s(id of transaction %d, %s) with pool v1 %v v2 %v: %s instead of %s (%s)", api, name, idkind, x.p1, x.p2, r, want, detail)
	}
	_ = other
	x.emit(map[string]any{"op": "Lookup", "kind": kind, "id": name, "r": r, "k": k})
	x.note("lookup %s %d -> %s", kind, name, r)
	x.Res.Eval(fmt.Sprintf("%s|lookup|%s|%s|%d|%d|%s", x.S.Name, kind, idkind, len(x.p1), len(x.p2), r))
}

// LookupSweep looks every pooled id, one unpooled catalogued id and one unknown id up through both
// functions.
func (x *Exec) LookupSweep() {
	ids := append(append([]int{}, x.p1...), x.p2...)
	for n := 1; n <= len(x.S.Txs); n++ {
		pooled := false
		for _, v := range ids {
			pooled = pooled || v == n
		}
		if !pooled {
			ids = append(ids, n)
			break
		}
	}
	ids = append(ids, len(x.S.Txs)+1)
	for _, n := range ids {
		x.Lookup("v1", n)
		x.Lookup("v2", n)
		if x.dead {
			return
		}
	}
}

// MineStep records the minability of the reported pool as an event of its own.
func (x *Exec) MineStep() {
	if x.dead {
		return
	}
	x.ensureFresh()
	v1 := x.N.CM.PoolTransactions()
	v2 := x.N.CM.V2PoolTransactions()
	if _, err := validatePrefixes(x.S.Node(x.Tip).L, v1, v2); err != nil {
		return // reported by Obs
	}
	_, mb := x.mineAudit(v1, v2, true)
	x.emitMine(mb)
}

// proofsEqualLedger compares every proof-carrying element of txn with the independent ledger's
// element at its tip: same leaf index, same Merkle proof.  Elements the ledger no longer holds
// (spent on the way) cannot be compared and are counted.
func proofsEqualLedger(l *mat.Ledger, txn types.V2Transaction) (bad string, compared, skipped int) {
	cmp := func(what string, got types.StateElement, want types.StateElement, ok bool) {
		if got.LeafIndex == types.UnassignedLeafIndex {
			return
		}
		if !ok {
			skipped++
			return
		}
		compared++
		if got.LeafIndex != want.LeafIndex || !reflect.DeepEqual(append([]types.Hash256{}, got.MerkleProof...), append([]types.Hash256{}, want.MerkleProof...)) {
			if bad == "" {
				bad = fmt.Sprintf("%s: leaf index %d / %d proof hashes, the ledger has leaf index %d / %d hashes", what, got.LeafIndex, len(got.MerkleProof), want.LeafIndex, len(want.MerkleProof))
			}
		}
	}
	for _, in := range txn.SiacoinInputs {
		e, ok := l.SC[in.Parent.ID]
		cmp(fmt.Sprintf("siacoin input %v", in.Parent.ID), in.Parent.StateElement, e.StateElement, ok)
	}
	for _, in := range txn.SiafundInputs {
		e, ok := l.SF[in.Parent.ID]
		cmp(fmt.Sprintf("siafund input %v", in.Parent.ID), in.Parent.StateElement, e.StateElement, ok)
	}
	for _, r := range txn.FileContractRevisions {
		e, ok := l.V2FC[r.Parent.ID]
		cmp(fmt.Sprintf("revised contract %v", r.Parent.ID), r.Parent.StateElement, e.StateElement, ok)
	}
	for _, r := range txn.FileContractResolutions {
		e, ok := l.V2FC[r.Parent.ID]
		cmp(fmt.Sprintf("resolved contract %v", r.Parent.ID), r.Parent.StateElement, e.StateElement, ok)
		if sp, ok := r.Resolution.(*types.V2StorageProof); ok {
			ci, ok2 := l.CI[sp.ProofIndex.ChainIndex.Height]
			ok2 = ok2 && ci.ID == sp.ProofIndex.ID
			cmp(fmt.Sprintf("proof index %v", sp.ProofIndex.ChainIndex), sp.ProofIndex.StateElement, ci.StateElement, ok2)
		}
	}
	return
}

// Rebase calls UpdateV2TransactionSet(set built at `from`, from, to).
func (x *Exec) Rebase(set []int, from, to int, corrupt string) {
	if x.dead {
		return
	}
	lf := x.S.Ledger(1)
	if from >= 1 && from <= x.S.NumAbs() {
		lf = x.S.Ledger(from)
	}
	var txns []types.V2Transaction
	evset := []map[string]any{}
	for _, name := range set {
		txn, eph := x.S.Tx(name).At(lf)
		txns = append(txns, txn)
		evset = append(evset, map[string]any{"t": name, "eph": x.S.leaves(eph)})
	}
	if corrupt != "none" && corrupt != "basis" {
		done := false
		for i := range txns {
			if corruptV2(&txns[i], corrupt) {
				done = true
				break
			}
		}
		if !done {
			corrupt = "none" // nothing to corrupt (all inputs ephemeral)
		}
	}
	fromIdx, toIdx := x.index(from), x.index(to)
	if corrupt == "basis" && from >= 1 && from <= x.S.NumAbs() {
		fromIdx.Height += 2 // right id, wrong height
		from = 0
	}
	var out []types.V2Transaction
	var err error
	panicked := ""
	func() {
		defer func() {
			if r := recover(); r != nil {
				panicked = fmt.Sprint(r)
			}
		}()
		out, err = x.N.CM.UpdateV2TransactionSet(txns, fromIdx, toIdx)
	}()
	if x.Stub == "rebase-identity" && err == nil && panicked == "" && from != to {
		out = txns // selftest: pretend the node handed the set back with its old proofs
	}
	r := "ok"
	detail := ""
	if panicked != "" {
		r, detail = "panic", panicked
		x.mismatch("audit:c13:rebase:panic:"+corrupt, "UpdateV2TransactionSet(%v, %d -> %d, corruption %s) panicked: %s", set, from, to, corrupt, panicked)
	} else if err != nil {
		r, detail = "err", err.Error()
	}
	ids, ephs := []int{}, [][]int{}
	proofs := true
	if r == "ok" && !(from == to) {
		lt := x.S.Ledger(to)
		for _, txn := range out {
			p, ok := x.S.ByID[txn.ID()]
			if !ok {
				ids = append(ids, len(x.S.Txs)+1)
				ephs = append(ephs, []int{})
				continue
			}
			ids = append(ids, p.Name)
			ephs = append(ephs, ephOf(x.S, txn))
			bad, cmpd, skipped := proofsEqualLedger(lt, txn)
			x.Res.Count("rebase_proofs_compared", cmpd)
			x.Res.Count("rebase_proofs_spent_at_target", skipped)
			if bad != "" {
				proofs = false
				x.mismatch("audit:c13:rebase:proof-differs", "UpdateV2TransactionSet(%v, %d -> %d): transaction %d: %s", set, from, to, p.Name, bad)
			}
		}
	} else if r == "ok" {
		for i, txn := range out {
			ids = append(ids, set[i])
			ephs = append(ephs, ephOf(x.S, txn))
		}
	}
	// the specific shape of the open finding: an error although every premise of the property holds
	// and some instance carries an ephemeral input
	if r == "err" && corrupt == "none" && strings.Contains(detail, "references element that does not exist in our chain") {
		hasEph := false
		for _, e := range evset {
			hasEph = hasEph || len(e["eph"].([]int)) > 0
		}
		if hasEph && x.rebaseShouldSucceed(set, evset, from, to) {
			x.mismatch("audit:c13:rebase:ephemeral-input-rejected", "UpdateV2TransactionSet(%v, %d -> %d) fails with %q although the set is valid at %d and the path is known: sets with an ephemeral input cannot be rebased", set, from, to, detail, from)
		}
	}
	x.Res.Count("rebase_"+r, 1)
	if from >= 1 && to >= 1 && from <= x.S.NumAbs() && to <= x.S.NumAbs() {
		pa, pb := x.S.Tree.PathTo(from+x.S.Warm), x.S.Tree.PathTo(to+x.S.Warm)
		k := 0
		for k < len(pa) && k < len(pb) && pa[k] == pb[k] {
			k++
		}
		switch d := len(pa) - k + len(pb) - k; {
		case d > 144 && d <= 150:
			x.Res.Count("rebase_dist_145_150_"+r, 1)
		case d >= 138 && d <= 144:
			x.Res.Count("rebase_dist_138_144_"+r, 1)
		case d > 150:
			x.Res.Count("rebase_dist_over_150_"+r, 1)
		}
		if k < len(pa) && k < len(pb) {
			x.Res.Count("rebase_cross_fork", 1)
		}
	}
	x.emit(map[string]any{"op": "Rebase", "set": evset, "from": from, "to": to, "corrupt": corrupt, "r": r, "ids": ids, "eph": ephs,
		"proofs": proofs, "nopanic": panicked == "", "detail": trunc(detail, 120)})
	x.note("rebase %v %d->%d %s -> %s %v", set, from, to, corrupt, r, ids)
	x.Res.Eval(fmt.Sprintf("%s|rebase|%v|%d|%d|%s|%s", x.S.Name, set, from, to, corrupt, r))
}

// rebaseShouldSucceed: no confirmed-flag element of the set is created by a block that the path
// reverts (the only legitimate reason for "references element that does not exist in our chain").
func (x *Exec) rebaseShouldSucceed(set []int, evset []map[string]any, from, to int) bool {
	if from < 1 || to < 1 {
		return false
	}
	t := x.S.Tree
	pa, pb := t.PathTo(from+x.S.Warm), t.PathTo(to+x.S.Warm)
	k := 0
	for k < len(pa) && k < len(pb) && pa[k] == pb[k] {
		k++
	}
	gone := map[types.Hash256]bool{}
	for _, id := range pa[k:] {
		c, _ := blockLeaves(t.Node(id).Block)
		for _, h := range c {
			gone[h] = true
		}
	}
	for i, name := range set {
		p := x.S.Tx(name)
		eph := map[int]bool{}
		for _, e := range evset[i]["eph"].([]int) {
			eph[e] = true
		}
		for _, in := range append(append([]types.Hash256{}, p.Ins...), p.Refs...) {
			if !eph[x.S.leaf(in)] && gone[in] {
				return false
			}
		}
	}
	return true
}

// TxSet calls V2TransactionSet(basis, instance of t at basis).
func (x *Exec) TxSet(name, basis int) { x.txSet(name, basis, true) }

// TxSetNow asks right away, also when the tip moved and nobody looked at the pool since (the call
// revalidates the pool itself).
func (x *Exec) TxSetNow(name, basis int) { x.txSet(name, basis, false) }

func (x *Exec) txSet(name, basis int, look bool) {
	if x.dead {
		return
	}
	if look {
		x.ensureFresh()
	}
	lb := x.S.Ledger(x.Tip)
	if basis >= 1 && basis <= x.S.NumAbs() {
		lb = x.S.Ledger(basis)
	}
	txn, eph := x.S.Tx(name).At(lb)
	before := txn.DeepCopy()
	var idx types.ChainIndex
	var out []types.V2Transaction
	var err error
	panicked := ""
	func() {
		defer func() {
			if r := recover(); r != nil {
				panicked = fmt.Sprint(r)
			}
		}()
		idx, out, err = x.N.CM.V2TransactionSet(x.index(basis), txn)
	}()
	r, detail := "ok", ""
	if panicked != "" {
		r, detail = "panic", panicked
		x.mismatch("audit:c13:txset:panic", "V2TransactionSet(basis %d, transaction %d) panicked: %s (pool v1 %v v2 %v)", basis, name, panicked, x.p1, x.p2)
	} else if err != nil {
		r, detail = "err", err.Error()
	}
	ids := []int{}
	k := 0
	proofs := true
	if r == "ok" {
		k = x.absOf(idx.ID)
		lt := x.S.Ledger(x.Tip)
		for _, o := range out {
			if p, ok := x.S.ByID[o.ID()]; ok {
				ids = append(ids, p.Name)
			} else {
				ids = append(ids, len(x.S.Txs)+1)
			}
			if bad, _, _ := proofsEqualLedger(lt, o); bad != "" {
				proofs = false
				x.mismatch("audit:c13:txset:proof-differs", "V2TransactionSet(basis %d, transaction %d): member %v: %s", basis, name, o.ID(), bad)
			}
		}
		// the assembled set must be acceptable as it stands (parents first, proofs at the tip)
		// (only claimed when the caller's transaction is itself valid on top of the pool: basis = tip,
		// every input either unspent at the tip or created by a pooled v2 transaction)
		complete := basis == x.Tip && x.fresh && // (x.p2 is the pool as it is now)
			lt.Height()+1 >= x.S.W.N.HardforkV2.AllowHeight // (and the regime at the tip admits v2 at all)
		for _, in := range x.S.Tx(name).Ins {
			if ledgerHas(lt, in) {
				continue
			}
			made := false
			for _, n := range x.p2 {
				for _, o := range x.S.Tx(n).Outs {
					made = made || o == in
				}
			}
			complete = complete && made
		}
		if complete && len(out) > 0 && out[len(out)-1].ID() == txn.ID() {
			ms := consensus.NewMidState(lt.CS)
			for _, o := range out {
				if err := consensus.ValidateV2Transaction(ms, o); err != nil {
					x.mismatch("audit:c13:txset:set-invalid", "V2TransactionSet(basis %d, transaction %d) returned %v, which is not a valid set at the tip: %v", basis, name, ids, err)
					break
				}
				ms.ApplyV2Transaction(o)
			}
		}
	}
	if r == "ok" && len(out) > 1 {
		// the parents are copies: mutating them must not reach the pool
		poolBefore := x.N.CM.V2PoolTransactions()
		for i := range out {
			scramble(&out[i])
		}
		if !sameV2(poolBefore, x.N.CM.V2PoolTransactions()) {
			x.mismatch("audit:c14:alias:txset-parents", "mutating the set returned by V2TransactionSet changed the pool")
		}
	}
	if r == "ok" && basis == x.Tip {
		// the pooled ancestors that must still be there (accepted, not confirmed, no input spent or
		// reverted) belong to the set, whether or not anybody looked at the pool since the last block
		need := map[types.Hash256]bool{}
		for _, in := range x.S.Tx(name).Ins {
			need[in] = true
		}
		got := map[int]bool{}
		for _, n := range ids {
			got[n] = true
		}
		for changed := true; changed; {
			changed = false
			for id := range x.keep {
				p := x.S.ByID[id]
				if !p.V2 || got[-p.Name] {
					continue
				}
				for _, o := range p.Outs {
					if need[o] {
						got[-p.Name] = true // visited
						for _, in := range p.Ins {
							need[in] = true
						}
						changed = true
						if !got[p.Name] {
							x.mismatch("audit:c13:txset:kept-ancestor-missing", "V2TransactionSet(transaction %d) returned %v without its pooled ancestor %d, which was accepted, is not confirmed and had no input spent or reverted (tip %d)", name, ids, p.Name, x.Tip)
						}
						break
					}
				}
			}
		}
	}
	if !bytes.Equal(v2Bytes(before), v2Bytes(txn)) {
		x.mismatch("audit:c13:txset:modified-input", "V2TransactionSet modified the caller's transaction %d", name)
	}
	if r == "err" && basis != x.Tip && len(eph) > 0 && strings.Contains(detail, "references element that does not exist in our chain") {
		x.mismatch("audit:c13:txset:ephemeral-input-rejected", "V2TransactionSet(basis %d != tip %d, transaction %d with an unconfirmed parent) fails with %q", basis, x.Tip, name, detail)
	}
	if r == "err" && basis != x.Tip && len(eph) > 0 && strings.Contains(detail, "parent has invalid Merkle proof") && x.rebaseShouldSucceed([]int{name}, []map[string]any{{"eph": x.S.leaves(eph)}}, basis, x.Tip) {
		x.mismatch("audit:c13:txset:stale-basis-pooled-parents-rejected", "V2TransactionSet(basis %d != tip %d, transaction %d with pooled parents) fails with %q: the caller's transaction is valid at the basis, but the pooled parents (whose proofs are valid at the TIP) are validated and rebased from the basis as well", basis, x.Tip, name, detail)
	}
	x.emit(map[string]any{"op": "TxSet", "x": map[string]any{"t": name, "eph": x.S.leaves(eph)}, "basis": basis, "r": r, "ids": ids, "k": k,
		"proofs": proofs, "nopanic": panicked == "", "detail": trunc(detail, 120)})
	x.note("txset %d basis %d -> %s %v", name, basis, r, ids)
	x.Res.Eval(fmt.Sprintf("%s|txset|%d|%d|%v|%s", x.S.Name, name, basis, x.p2, r))
}

var _ = chain.ErrMissingBlock
