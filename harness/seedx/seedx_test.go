// Package seedx binds spec/Seed.tla to the real seed-phrase code of /repo/wallet (property C20):
// encodeBIP39Phrase / decodeBIP39Phrase (through wallet/verif_export.go, build tag verif),
// NewSeedPhrase, SeedFromPhrase, KeyFromSeed.
//
// TestDriver (Leg T) records one NDJSON event per call for TLC (spec/SeedTrace.tla).
// TestReplay (Leg R) steps the real codec through paths of calls whose results were computed by TLC
// from the spec (spec/SeedGen.tla) and compares every reply.
//
// What the harness computes itself (never with the code under test): the bits of an entropy, the
// entropy spelled by a word sequence (math/big packing) and the SHA-256 checksum nibble
// (crypto/sha256).  The packing is logged and re-checked by TLC (HarnessPacking), so a harness error
// is rejected as such instead of masking or faking a defect.
package seedx

import (
	"crypto/sha256"
	"encoding/binary"
	"encoding/hex"
	"encoding/json"
	"fmt"
	"math/big"
	"math/rand"
	"os"
	"path/filepath"
	"strconv"
	"strings"
	"testing"

	"go.sia.tech/core/types"
	"go.sia.tech/coreutils/wallet"
	"verifharness/hx"
)

// ---------------------------------------------------------------- codec under test (and stubs)

type codec struct {
	name   string
	encode func(e *[16]byte) string
	decode func(e *[16]byte, phrase string) error
	seed   func(s *[32]byte, phrase string) error
	key    func(s *[32]byte, i uint64) types.PrivateKey
	newp   func() string
}

func realCodec() *codec {
	return &codec{"real", wallet.VerifEncodeBIP39Phrase, wallet.VerifDecodeBIP39Phrase,
		wallet.SeedFromPhrase, wallet.KeyFromSeed, wallet.NewSeedPhrase}
}

// getCodec returns the real functions, or (self-test only) the real functions with one deliberate
// deviation wrapped around them.
func getCodec(name string) (*codec, error) {
	c := realCodec()
	c.name = name
	switch name {
	case "", "real":
		c.name = "real"
	case "stub-shift": // the classic: one group is cut at 10 instead of 11 bits
		c.encode = func(e *[16]byte) string {
			hi := binary.BigEndian.Uint64(e[:8])
			lo := binary.BigEndian.Uint64(e[8:])
			words := make([]string, 12)
			h := sha256.Sum256(e[:])
			words[11] = wordList[((lo&0x7F)<<4)|uint64(h[0]>>4)]
			lo = lo>>7 | hi<<(64-7)
			hi >>= 7
			for i := 10; i >= 0; i-- {
				words[i] = wordList[lo&0x7FF]
				sh := uint(11)
				if i == 5 {
					sh = 10
				}
				lo = lo>>sh | hi<<(64-sh)
				hi >>= sh
			}
			return strings.Join(words, " ")
		}
	case "stub-nocheck": // decode accepts any checksum
		c.decode = func(e *[16]byte, p string) error {
			err := wallet.VerifDecodeBIP39Phrase(e, p)
			if err != nil && err.Error() == "invalid checksum" {
				return nil
			}
			return err
		}
		c.seed = func(s *[32]byte, p string) error {
			err := wallet.SeedFromPhrase(s, p)
			if err != nil && err.Error() == "invalid checksum" {
				return nil
			}
			return err
		}
	case "stub-split": // tokenises on single spaces only
		canon := func(p string) bool { return p == strings.Join(strings.Fields(p), " ") }
		c.decode = func(e *[16]byte, p string) error {
			if !canon(p) {
				return fmt.Errorf("wrong number of words in seed phrase")
			}
			return wallet.VerifDecodeBIP39Phrase(e, p)
		}
		c.seed = func(s *[32]byte, p string) error {
			if !canon(p) {
				return fmt.Errorf("wrong number of words in seed phrase")
			}
			return wallet.SeedFromPhrase(s, p)
		}
	case "stub-key32": // the key index is truncated to 32 bits
		c.key = func(s *[32]byte, i uint64) types.PrivateKey { return wallet.KeyFromSeed(s, uint64(uint32(i))) }
	case "stub-count": // accepts phrases of 12 or more words, reading the first 12
		c.decode = func(e *[16]byte, p string) error {
			f := strings.Fields(p)
			if len(f) > 12 {
				p = strings.Join(f[:12], " ")
			}
			return wallet.VerifDecodeBIP39Phrase(e, p)
		}
		c.seed = func(s *[32]byte, p string) error {
			f := strings.Fields(p)
			if len(f) > 12 {
				p = strings.Join(f[:12], " ")
			}
			return wallet.SeedFromPhrase(s, p)
		}
	default:
		return nil, fmt.Errorf("unknown codec %q", name)
	}
	return c, nil
}

// ---------------------------------------------------------------- word list (anchored independently)

var (
	wordList  []string
	wordIndex map[string]int
)

// SHA-256 of the reference BIP39 english.txt (2048 lines, "\n" after each) and bitcoinj's
// BIP39_ENGLISH_SHA256 (the words concatenated); neither value comes from /repo.
const (
	anchorLines  = "2f5eed53a4727b4bf8880d8f3f199efc90e58503646d9ff8eff3a2ed3b24dbda"
	anchorConcat = "ad90bf3beb7b0eb7e5acd74727dc0da96e0a280a258354e7293fb7e211ac03db"
)

func loadWordList() error {
	wordList = wallet.VerifBIP39WordList()
	if len(wordList) != 2048 {
		return fmt.Errorf("word list has %d entries", len(wordList))
	}
	wordIndex = make(map[string]int, 2048)
	for i, w := range wordList {
		if _, dup := wordIndex[w]; dup {
			return fmt.Errorf("duplicate word %q", w)
		}
		if i > 0 && wordList[i-1] >= w {
			return fmt.Errorf("word list not sorted at %d", i)
		}
		wordIndex[w] = i
	}
	a := sha256.Sum256([]byte(strings.Join(wordList, "\n") + "\n"))
	b := sha256.Sum256([]byte(strings.Join(wordList, "")))
	if hex.EncodeToString(a[:]) != anchorLines || hex.EncodeToString(b[:]) != anchorConcat {
		return fmt.Errorf("word list is not the BIP39 English list (sha256 %x / %x)", a, b)
	}
	return nil
}

// ---------------------------------------------------------------- the harness's own arithmetic

type bits []int

func (b bits) MarshalJSON() ([]byte, error) {
	out := make([]byte, 0, 2*len(b)+2)
	out = append(out, '[')
	for i, v := range b {
		if i > 0 {
			out = append(out, ',')
		}
		out = append(out, byte('0'+v))
	}
	return append(out, ']'), nil
}

func bitsOfBytes(p []byte) bits {
	b := make(bits, 0, 8*len(p))
	for _, x := range p {
		for j := 7; j >= 0; j-- {
			b = append(b, int(x>>uint(j))&1)
		}
	}
	return b
}

func bytesOfBits(b []int) (e [16]byte, ok bool) {
	if len(b) != 128 {
		return e, false
	}
	for i, v := range b {
		if v != 0 && v != 1 {
			return e, false
		}
		e[i/8] |= byte(v) << uint(7-i%8)
	}
	return e, true
}

// nibble returns the first four bits of SHA-256(entropy), computed here with crypto/sha256.
func nibble(e *[16]byte) bits {
	h := sha256.Sum256(e[:])
	n := int(h[0] >> 4)
	return bits{n >> 3 & 1, n >> 2 & 1, n >> 1 & 1, n & 1}
}

func nibbleVal(e *[16]byte) int { h := sha256.Sum256(e[:]); return int(h[0] >> 4) }

// packWords is the harness's own packing of 12 word indices into the 128 entropy bits they spell.
func packWords(t []int) (e [16]byte) {
	n := new(big.Int)
	for _, w := range t {
		n.Mul(n, big.NewInt(2048))
		n.Add(n, big.NewInt(int64(w)))
	}
	n.Div(n, big.NewInt(16)) // drop the four checksum bits
	n.FillBytes(e[:])
	return
}

func wellFormed(t []int) bool {
	if len(t) != 12 {
		return false
	}
	for _, w := range t {
		if w < 0 {
			return false
		}
	}
	return true
}

// tokensOf: indices of whitespace-free tokens (-1 = not a list word).
func tokensOf(toks []string) []int {
	t := make([]int, len(toks))
	for i, s := range toks {
		if k, ok := wordIndex[s]; ok {
			t[i] = k
		} else {
			t[i] = -1
		}
	}
	return t
}

func phraseOf(t []int) string {
	s := make([]string, len(t))
	for i, w := range t {
		s[i] = wordList[w]
	}
	return strings.Join(s, " ")
}

// parseCanonical reads a phrase returned by the code: exactly single spaces, list words.
func parseCanonical(p string) (t []int, wf bool) {
	t = tokensOf(strings.Split(p, " "))
	return t, wellFormed(t)
}

// ---------------------------------------------------------------- events

type evReset struct {
	Op   string `json:"op"`
	G    int    `json:"g"`
	Kind string `json:"kind"`
	Pin  bool   `json:"pin"`
}
type evEnc struct {
	Op     string `json:"op"`
	E      bits   `json:"e"`
	C      bits   `json:"c"`
	Wf     bool   `json:"wf"`
	W      []int  `json:"w"`
	Phrase string `json:"phrase"`
}
type evDec struct {
	Op  string `json:"op"`
	Raw string `json:"raw"`
	T   []int  `json:"t"`
	Eb  bits   `json:"eb"`
	C   bits   `json:"c"`
	Ok  bool   `json:"ok"`
	D   bits   `json:"d"`
	Sok bool   `json:"sok"`
	S   string `json:"s"`
	Err string `json:"err"`
	Sf  bool   `json:"sf"` // SeedFromPhrase was called before decode (history-independence groups)
}
type evSfp struct {
	Op  string `json:"op"`
	Raw string `json:"raw"`
	T   []int  `json:"t"`
	Eb  bits   `json:"eb"`
	C   bits   `json:"c"`
	Sok bool   `json:"sok"`
	S   string `json:"s"`
	Err string `json:"err"`
}
type evNew struct {
	Op    string `json:"op"`
	Raw   string `json:"raw"`
	T     []int  `json:"t"`
	Eb    bits   `json:"eb"`
	C     bits   `json:"c"`
	Canon bool   `json:"canon"`
}
type evKey struct {
	Op string `json:"op"`
	S  string `json:"s"`
	I  string `json:"i"`
	K  string `json:"k"`
	A  string `json:"a"`
}
type evVar struct {
	Op string `json:"op"`
	T  []int  `json:"t"`
}

// recorder performs calls on the codec and emits the events.
type recorder struct {
	c   *codec
	tw  *hx.TraceWriter
	res *hx.Result
	cur string // current group (for panic reports)
	// seedFirst: dec calls the public SeedFromPhrase before the unexported decode (default: after)
	seedFirst bool
}

func (r *recorder) guard(what string, arg any) {
	if p := recover(); p != nil {
		r.res.Mismatch("direct:panic:"+what, fmt.Sprintf("%s panicked: %v (group %s)", what, p, r.cur), map[string]any{"kind": "call", "op": what, "arg": arg})
	}
}

func (r *recorder) enc(e [16]byte) (phrase string, t []int, wf bool) {
	defer r.guard("Enc", hex.EncodeToString(e[:]))
	in := e
	phrase = r.c.encode(&in)
	if in != e {
		r.res.Mismatch("direct:Enc:mutates-argument", "encode modified its entropy argument", map[string]any{"kind": "call", "op": "Enc", "arg": hex.EncodeToString(e[:])})
	}
	t, wf = parseCanonical(phrase)
	r.tw.Emit(evEnc{"Enc", bitsOfBytes(e[:]), nibble(&e), wf, t, phrase})
	r.res.Eval("Enc:" + string(e[:]))
	r.res.Count("Enc", 1)
	return
}

// dec decodes raw, whose whitespace-free tokens are toks BY CONSTRUCTION (the caller built raw from
// them; props/C20.py re-tokenises raw independently).  Returns the decoded entropy and the seed.
func (r *recorder) dec(raw string, toks []string) (ok bool, d [16]byte, sok bool, seed [32]byte) {
	defer r.guard("Dec", raw)
	t := tokensOf(toks)
	ev := evDec{Op: "Dec", Raw: raw, T: t, Eb: bits{}, C: bits{}, D: bits{}}
	if wellFormed(t) {
		eb := packWords(t)
		ev.Eb, ev.C = bitsOfBytes(eb[:]), nibble(&eb)
	}
	var err, serr error
	if r.seedFirst {
		ev.Sf = true
		serr = r.c.seed(&seed, raw)
		err = r.c.decode(&d, raw)
	} else {
		err = r.c.decode(&d, raw)
		serr = r.c.seed(&seed, raw)
	}
	ok = err == nil
	ev.Ok = ok
	if ok {
		ev.D = bitsOfBytes(d[:])
	} else {
		ev.Err = err.Error()
	}
	sok = serr == nil
	ev.Sok = sok
	if sok {
		ev.S = hex.EncodeToString(seed[:])
	}
	r.tw.Emit(ev)
	r.res.Eval("Dec:" + raw)
	r.res.Count("Dec", 1)
	if ok {
		r.res.Count("Dec.ok", 1)
	}
	return
}

// sfp calls the public SeedFromPhrase ALONE (no decode call next to it) on raw.
func (r *recorder) sfp(raw string, toks []string) (sok bool, seed [32]byte) {
	defer r.guard("Sfp", raw)
	t := tokensOf(toks)
	ev := evSfp{Op: "Sfp", Raw: raw, T: t, Eb: bits{}, C: bits{}}
	if wellFormed(t) {
		eb := packWords(t)
		ev.Eb, ev.C = bitsOfBytes(eb[:]), nibble(&eb)
	}
	err := r.c.seed(&seed, raw)
	sok = err == nil
	ev.Sok = sok
	if sok {
		ev.S = hex.EncodeToString(seed[:])
	} else {
		ev.Err = err.Error()
	}
	r.tw.Emit(ev)
	r.res.Eval("Sfp:" + raw)
	r.res.Count("Sfp", 1)
	return
}

func (r *recorder) sfpIdx(t []int) (bool, [32]byte) {
	toks := toksOfIdx(t)
	return r.sfp(strings.Join(toks, " "), toks)
}

func (r *recorder) decIdx(t []int) (bool, [16]byte, bool, [32]byte) {
	toks := make([]string, len(t))
	for i, w := range t {
		toks[i] = wordList[w]
	}
	return r.dec(strings.Join(toks, " "), toks)
}

func (r *recorder) newPhrase() { r.newPhraseThen(true) }

// newPhraseThen calls NewSeedPhrase, records it, and (thenDec) decodes the result right away.
func (r *recorder) newPhraseThen(thenDec bool) (eb [16]byte, wf bool) {
	defer r.guard("New", nil)
	p := r.c.newp()
	toks := strings.Fields(p) // harness tokenisation; canon = it was already in canonical form
	t := tokensOf(toks)
	ev := evNew{Op: "New", Raw: p, T: t, Eb: bits{}, C: bits{}, Canon: p == strings.Join(toks, " ")}
	if wf = wellFormed(t); wf {
		eb = packWords(t)
		ev.Eb, ev.C = bitsOfBytes(eb[:]), nibble(&eb)
	}
	r.tw.Emit(ev)
	r.res.Eval("New:" + p)
	r.res.Count("New", 1)
	if thenDec {
		r.dec(p, toks)
	}
	return
}

func (r *recorder) key(seed [32]byte, i uint64) {
	defer r.guard("Key", []any{hex.EncodeToString(seed[:]), i})
	in := seed
	k := r.c.key(&in, i)
	if in != seed {
		r.res.Mismatch("direct:Key:mutates-argument", "KeyFromSeed modified its seed argument", map[string]any{"kind": "call", "op": "Key"})
	}
	addr := types.StandardUnlockHash(k.PublicKey())
	r.tw.Emit(evKey{"Key", hex.EncodeToString(seed[:]), strconv.FormatUint(i, 10), hex.EncodeToString(k), addr.String()})
	r.res.Eval("Key:" + string(seed[:]) + strconv.FormatUint(i, 10))
	r.res.Count("Key", 1)
}

// ---------------------------------------------------------------- input families

var wsRunes = []string{" ", "\t", "\n", "\r", "\v", "\f"}

// wsVariant joins toks with whitespace in one of several styles.
func wsVariant(toks []string, style int, rng *rand.Rand) string {
	switch style {
	case 0:
		return " " + strings.Join(toks, " ")
	case 1:
		return strings.Join(toks, " ") + " "
	case 2:
		return strings.Join(toks, "  ")
	case 3:
		return strings.Join(toks, "\t")
	case 4:
		return strings.Join(toks, "\n") + "\n"
	case 5:
		return strings.Join(toks, "\r\n")
	case 6:
		return "\n\t " + strings.Join(toks, " ") + " \t\n"
	default:
		run := func(min int) string {
			n := min + rng.Intn(3)
			s := ""
			for i := 0; i < n; i++ {
				s += wsRunes[rng.Intn(len(wsRunes))]
			}
			return s
		}
		var sb strings.Builder
		sb.WriteString(run(0))
		for i, tk := range toks {
			if i > 0 {
				sb.WriteString(run(1))
			}
			sb.WriteString(tk)
		}
		sb.WriteString(run(0))
		return sb.String()
	}
}

const nStyles = 8

var keyIndices = []uint64{0, 1, 2, 255, 256, 65535, 65536, 1<<31 - 1, 1 << 31, 1<<32 - 1, 1 << 32, 1<<32 + 1,
	1<<63 - 1, 1 << 63, 1<<64 - 2, 1<<64 - 1}

func toksOfIdx(t []int) []string {
	s := make([]string, len(t))
	for i, w := range t {
		s[i] = wordList[w]
	}
	return s
}

// malformed returns phrases (raw, tokens) that are not 12 list words.
func malformed(t []int, rng *rand.Rand, n int) (out [][2]any) {
	toks := toksOfIdx(t)
	add := func(tk []string) { out = append(out, [2]any{wsVariant(tk, pick(rng), rng), tk}) }
	cp := func() []string { return append([]string(nil), toks...) }
	j := rng.Intn(12)
	extra := wordList[rng.Intn(2048)]
	all := []func(){
		func() { add(toks[:11]) },                                                 // last word missing
		func() { add(toks[1:]) },                                                  // first word missing
		func() { add(append(cp(), extra)) },                                       // a 13th word
		func() { add(append(cp(), toks...)) },                                     // 24 words
		func() { add([]string{}) },                                                // empty / only whitespace
		func() { add(toks[:1+rng.Intn(10)]) },                                     // a short prefix
		func() { x := cp(); x[j] = strings.ToUpper(x[j][:1]) + x[j][1:]; add(x) }, // capitalised
		func() { x := cp(); x[j] = strings.ToUpper(x[j]); add(x) },                // upper case
		func() { x := cp(); x[j] = x[j] + "x"; add(x) },                           // not a list word (no list word + "x" is one: checked below)
		func() { x := cp(); x[j] = x[j] + ","; add(x) },                           // punctuation
		func() { x := cp(); x[j] = strconv.Itoa(t[j]); add(x) },                   // the index instead of the word
		func() { x := cp(); x[j] = "zoö"; add(x) },                                // non-ASCII
		func() { x := cp(); x[j] = x[j] + x[(j+1)%12]; add(x) },                   // two words glued (may be a list word: spec judges)
		func() { x := append(cp()[:j:j], toks[j+1:]...); add(x) },                 // a middle word missing
	}
	for _, k := range rng.Perm(len(all))[:n] {
		all[k]()
	}
	return
}

func pick(rng *rand.Rand) int { return rng.Intn(nStyles) }

// heavy runs the full battery for one entropy.
func (r *recorder) heavy(e [16]byte, rng *rand.Rand, nws, nmal, nkey int) {
	phrase, t, wf := r.enc(e)
	if !wf {
		// still decode what we got; the spec has already rejected the Enc event
		r.dec(phrase, strings.Fields(phrase))
		return
	}
	toks := toksOfIdx(t)
	ok, d, sok, seed := r.dec(phrase, toks)
	// all 16 checksum variants of the last word
	for v := 0; v < 16; v++ {
		u := append([]int(nil), t...)
		u[11] = t[11]&^15 | v
		r.decIdx(u)
	}
	r.tw.Emit(evVar{"Var", t})
	r.res.Count("Var", 1)
	if ok {
		r.enc(d) // re-encode
	}
	// whitespace variants (also of one wrong-checksum variant)
	var seed2 [32]byte
	sok2 := false
	for _, st := range rng.Perm(nStyles)[:nws] {
		_, _, sok2, seed2 = r.dec(wsVariant(toks, st, rng), toks)
	}
	bad := append([]int(nil), t...)
	bad[11] = t[11] ^ (1 + rng.Intn(15))
	r.dec(wsVariant(toksOfIdx(bad), pick(rng), rng), toksOfIdx(bad))
	// malformed
	for _, m := range malformed(t, rng, nmal) {
		r.dec(m[0].(string), m[1].([]string))
	}
	// keys: twice from the same buffer, once from the seed of a whitespace variant
	if sok {
		idx := []uint64{keyIndices[rng.Intn(len(keyIndices))], rng.Uint64(), uint64(rng.Intn(4))}
		for k := 0; k < nkey; k++ {
			i := idx[k%len(idx)]
			if k >= len(idx) {
				i = keyIndices[rng.Intn(len(keyIndices))]
			}
			r.key(seed, i)
			if sok2 {
				r.key(seed2, i)
			} else {
				r.key(seed, i)
			}
		}
		// index sensitivity around the 32-bit boundary
		r.key(seed, 1<<32)
		r.key(seed, 0)
	}
}

// ---- history independence: (previous call) x (boundary phrase), enumerated
//
// The replies specified by Seed.tla are a function of the call alone.  A hist group makes one
// "previous call" of a given kind and then, immediately, a call on a boundary entropy B: decode of
// the valid phrase of B (public SeedFromPhrase first), encode of B, and decode of the last-word
// variants of B (all 16, or in the reduced form the two most telling ones) -- the previous call is
// repeated before every one of them, so each follow-up sees the state left by exactly that call.

// prevKinds: every kind of call that can precede.  Each returns the entropy of the phrase it
// handled successfully (nil if none), used to aim one wrong variant at "checksum of the previous".
var prevKinds = []struct {
	name string
	run  func(r *recorder, rng *rand.Rand, b [16]byte) *[16]byte
}{
	{"new", func(r *recorder, _ *rand.Rand, _ [16]byte) *[16]byte {
		if e, wf := r.newPhraseThen(false); wf {
			return &e
		}
		return nil
	}},
	{"seed-7f", func(r *recorder, _ *rand.Rand, _ [16]byte) *[16]byte { return r.sfpEntropy(fill(0x7f)) }}, // legal winner ... yellow
	{"seed-80", func(r *recorder, _ *rand.Rand, _ [16]byte) *[16]byte { return r.sfpEntropy(fill(0x80)) }}, // letter advice ... above
	{"seed-ff", func(r *recorder, _ *rand.Rand, _ [16]byte) *[16]byte { return r.sfpEntropy(fill(0xff)) }}, // zoo ... wrong
	{"seed-00", func(r *recorder, _ *rand.Rand, _ [16]byte) *[16]byte { return r.sfpEntropy(fill(0x00)) }}, // abandon ... about
	{"seed-rand", func(r *recorder, rng *rand.Rand, _ [16]byte) *[16]byte {
		var e [16]byte
		rng.Read(e[:])
		return r.sfpEntropy(e)
	}},
	{"seed-neighbour", func(r *recorder, _ *rand.Rand, b [16]byte) *[16]byte { // same first 11 words as B
		b[15] ^= 1
		return r.sfpEntropy(b)
	}},
	{"dec-rand", func(r *recorder, rng *rand.Rand, _ [16]byte) *[16]byte { // decode, then SeedFromPhrase
		var e [16]byte
		rng.Read(e[:])
		return r.decEntropy(e)
	}},
	{"seeddec-rand", func(r *recorder, rng *rand.Rand, _ [16]byte) *[16]byte { // SeedFromPhrase, then decode
		var e [16]byte
		rng.Read(e[:])
		r.seedFirst = true
		defer func() { r.seedFirst = false }()
		return r.decEntropy(e)
	}},
	{"enc-rand", func(r *recorder, rng *rand.Rand, _ [16]byte) *[16]byte {
		var e [16]byte
		rng.Read(e[:])
		r.enc(e)
		return &e
	}},
	{"key", func(r *recorder, rng *rand.Rand, _ [16]byte) *[16]byte {
		var s [32]byte
		rng.Read(s[:])
		r.key(s, keyIndices[rng.Intn(len(keyIndices))])
		return nil
	}},
	{"badsum", func(r *recorder, rng *rand.Rand, _ [16]byte) *[16]byte { // a decode that fails on the checksum
		var e [16]byte
		rng.Read(e[:])
		t := packIdx(e)
		t[11] ^= 1 + rng.Intn(15)
		r.decIdx(t)
		return nil
	}},
	{"malformed", func(r *recorder, rng *rand.Rand, _ [16]byte) *[16]byte {
		var e [16]byte
		rng.Read(e[:])
		m := malformed(packIdx(e), rng, 1)[0]
		r.dec(m[0].(string), m[1].([]string))
		return nil
	}},
}

func fill(x byte) (e [16]byte) {
	for i := range e {
		e[i] = x
	}
	return
}

// sfpEntropy: SeedFromPhrase alone on the valid phrase of e, built by the harness.
func (r *recorder) sfpEntropy(e [16]byte) *[16]byte {
	r.sfpIdx(packIdx(e))
	return &e
}

// decEntropy decodes (decode + SeedFromPhrase) the valid phrase of e, built by the harness.
func (r *recorder) decEntropy(e [16]byte) *[16]byte {
	r.decIdx(packIdx(e))
	return &e
}

func (r *recorder) hist(pk int, b [16]byte, full bool, rng *rand.Rand) {
	prev := func() *[16]byte { return prevKinds[pk].run(r, rng, b) }
	tb := packIdx(b)
	variant := func(v int) []int {
		u := append([]int(nil), tb...)
		u[11] = tb[11]&^15 | v&15
		return u
	}
	// every follow-up is made twice, each time directly after the previous call: through the public
	// SeedFromPhrase alone, and through decode + SeedFromPhrase
	both := func(t []int) (pe *[16]byte) {
		prev()
		r.sfpIdx(t)
		pe = prev()
		r.decIdx(t)
		return
	}
	both(tb)
	prev()
	r.enc(b)
	if full {
		for v := 0; v < 16; v++ {
			both(variant(v))
		}
		both(tb)
		return
	}
	// reduced: one wrong variant -- the checksum of the previous phrase -- and the valid phrase again
	pe := prev()
	v := tb[11]&15 ^ 1
	if pe != nil && nibbleVal(pe) != tb[11]&15 {
		v = nibbleVal(pe)
	}
	r.sfpIdx(variant(v))
	if pe2 := prev(); pe2 != nil && nibbleVal(pe2) != tb[11]&15 {
		v = nibbleVal(pe2)
	}
	r.decIdx(variant(v))
	both(tb)
}

// histGroups enumerates prevKinds x boundary entropies.  Core boundaries always get the full form;
// the other single-bit entropies get it only when histFull is set (thorough tier).
func histGroups(histFull bool) (gs []group) {
	type bnd struct {
		e    [16]byte
		core bool
	}
	bs := []bnd{{fill(0), true}, {fill(0xff), true}, {fill(0x7f), true}, {fill(0x80), true}}
	for i := 0; i < 128; i++ {
		var e [16]byte
		setBit(&e, i)
		core := i == 0 || i == 63 || i == 64 || i == 120 || i == 121 || i == 127
		bs = append(bs, bnd{e, core})
	}
	for pk := range prevKinds {
		for _, b := range bs {
			pk, b := pk, b
			gs = append(gs, group{"hist-" + prevKinds[pk].name, func(r *recorder, rng *rand.Rand) {
				r.hist(pk, b.e, b.core || histFull, rng)
			}})
		}
	}
	return
}

// fixup returns t with the checksum bits of the last word set to the harness's nibble.
func fixup(t []int) []int {
	u := append([]int(nil), t...)
	e := packWords(u)
	u[11] = u[11]&^15 | nibbleVal(&e)
	return u
}

type group struct {
	kind string
	run  func(r *recorder, rng *rand.Rand)
}

func entropyGroup(kind string, e [16]byte, nws, nmal, nkey int) group {
	return group{kind, func(r *recorder, rng *rand.Rand) { r.heavy(e, rng, nws, nmal, nkey) }}
}

func setBit(e *[16]byte, i int) { e[i/8] |= 1 << uint(7-i%8) }

type params struct {
	Uniform, Sweep, SweepFix, Pattern, NewN, Shards, Bits, Hist int
	Nws, Nmal, Nkey                                             int
}

func buildGroups(p params, rng *rand.Rand) (gs []group) {
	// boundary entropies
	var zero, ones, alt [16]byte
	for i := range ones {
		ones[i] = 0xff
		alt[i] = 0xaa
	}
	for _, e := range [][16]byte{zero, ones, alt} {
		gs = append(gs, entropyGroup("boundary", e, p.Nws, p.Nmal, p.Nkey))
	}
	// every single-bit and every two-adjacent-bit entropy (and their complements)
	for i := 0; i < 128 && p.Bits > 0; i++ {
		var e, f [16]byte
		setBit(&e, i)
		gs = append(gs, entropyGroup("bit1", e, 1, 1, 1))
		for j := range f {
			f[j] = ^e[j]
		}
		gs = append(gs, entropyGroup("bit1c", f, 1, 1, 1))
		if i < 127 {
			var a [16]byte
			setBit(&a, i)
			setBit(&a, i+1)
			gs = append(gs, entropyGroup("bit2", a, 1, 1, 1))
		}
	}
	// uniform samples
	for n := 0; n < p.Uniform; n++ {
		var e [16]byte
		rng.Read(e[:])
		gs = append(gs, entropyGroup("uniform", e, p.Nws, p.Nmal, p.Nkey))
	}
	// NewSeedPhrase (the public generator; random by nature, judged call by call)
	for n := 0; n < p.NewN; n += 8 {
		gs = append(gs, group{"new", func(r *recorder, _ *rand.Rand) {
			for k := 0; k < 8; k++ {
				r.newPhrase()
			}
		}})
	}
	// every value of every word position, the other words fixed (base: a valid random phrase)
	for b := 0; b < p.Sweep; b++ {
		var e [16]byte
		rng.Read(e[:])
		base := packIdx(e)
		for pos := 0; pos < 12; pos++ {
			for v0 := 0; v0 < 2048; v0 += 16 {
				pos, v0 := pos, v0
				gs = append(gs, group{"sweep", func(r *recorder, rng *rand.Rand) {
					for v := v0; v < v0+16; v++ {
						t := append([]int(nil), base...)
						t[pos] = v
						r.decIdx(t)
						if pos < 11 && (p.SweepFix > 0 && v%p.SweepFix == 0) {
							u := fixup(t)
							if ok, d, _, _ := r.decIdx(u); ok {
								r.enc(d)
							}
						}
					}
					if pos == 11 {
						t := append([]int(nil), base...)
						t[11] = v0
						r.tw.Emit(evVar{"Var", t})
						r.res.Count("Var", 1)
					}
				}})
			}
		}
	}
	// boundary words: every phrase over {0, 2047} (sampled), checksum fixed up as well
	for n := 0; n < p.Pattern; n += 8 {
		n := n
		gs = append(gs, group{"pattern", func(r *recorder, rng *rand.Rand) {
			for k := n; k < n+8; k++ {
				m := k
				if p.Pattern < 4096 {
					m = rng.Intn(4096)
				}
				t := make([]int, 12)
				for i := range t {
					if m>>uint(i)&1 == 1 {
						t[i] = 2047
					}
				}
				r.decIdx(t)
				u := fixup(t)
				if ok, d, _, _ := r.decIdx(u); ok {
					r.enc(d)
				}
			}
		}})
	}
	return
}

// packIdx: the harness's own encoding of an entropy as 12 indices (math/big; used only to build
// inputs -- every use is judged by TLC through the Dec event it produces).
func packIdx(e [16]byte) []int {
	n := new(big.Int).SetBytes(e[:])
	n.Mul(n, big.NewInt(16))
	n.Add(n, big.NewInt(int64(nibbleVal(&e))))
	t := make([]int, 12)
	m := new(big.Int)
	for i := 11; i >= 0; i-- {
		n.DivMod(n, big.NewInt(2048), m)
		t[i] = int(m.Int64())
	}
	return t
}

// ---------------------------------------------------------------- Leg T driver

func TestDriver(t *testing.T) {
	res := hx.NewResult()
	defer res.Write()
	if err := loadWordList(); err != nil {
		res.Mismatch("direct:wordlist", err.Error(), map[string]any{"kind": "wordlist"})
		t.Fatal(err)
	}
	c, err := getCodec(hx.Env("VERIF_CODEC", "real"))
	if err != nil {
		t.Fatal(err)
	}
	p := params{
		Uniform: hx.EnvInt("VERIF_UNIFORM", 100), Sweep: hx.EnvInt("VERIF_SWEEP", 1), SweepFix: hx.EnvInt("VERIF_SWEEPFIX", 4),
		Pattern: hx.EnvInt("VERIF_PATTERN", 256), NewN: hx.EnvInt("VERIF_NEW", 64), Shards: hx.EnvInt("VERIF_SHARDS", 8), Bits: hx.EnvInt("VERIF_BITS", 1), Hist: hx.EnvInt("VERIF_HIST", 1),
		Nws: hx.EnvInt("VERIF_NWS", 3), Nmal: hx.EnvInt("VERIF_NMAL", 3), Nkey: hx.EnvInt("VERIF_NKEY", 3),
	}
	dir := hx.Env("VERIF_WORK", os.TempDir())
	if b, err := json.Marshal(wordList); err == nil {
		os.WriteFile(filepath.Join(dir, "wordlist.json"), b, 0o644)
	}
	gs := buildGroups(p, hx.Rand(20))
	if p.Hist > 0 { // 1: enumerated, reduced form for non-core boundaries; 2: full form everywhere
		gs = append(gs, histGroups(p.Hist > 1)...)
	}
	// deal the groups to the shards (shuffled, so every shard has every family)
	hx.Rand(21).Shuffle(len(gs), func(i, j int) { gs[i], gs[j] = gs[j], gs[i] })
	// each shard starts with a heavy group that is pinned and repeated verbatim at the end
	for s := 0; s < p.Shards; s++ {
		tw, err := hx.NewTraceWriter(filepath.Join(dir, fmt.Sprintf("seedtrace-%02d.ndjson", s)))
		if err != nil {
			t.Fatal(err)
		}
		r := &recorder{c: c, tw: tw, res: res}
		var pinE [16]byte
		hx.Rand(int64(1000 + s)).Read(pinE[:])
		mine := []group{entropyGroup("pinned", pinE, p.Nws, p.Nmal, p.Nkey)}
		for i := s; i < len(gs); i += p.Shards {
			mine = append(mine, gs[i])
		}
		mine = append(mine, mine[0])
		for i, g := range mine {
			gid := s*1000000 + i
			seedOf := int64(gid)
			if i == len(mine)-1 {
				seedOf = int64(s * 1000000) // the repeat uses the RNG of the pinned group
			}
			r.cur = fmt.Sprintf("%s#%d", g.kind, gid)
			tw.Emit(evReset{"Reset", gid, g.kind, i == 1})
			g.run(r, hx.Rand(5000+seedOf))
			res.Traces++
			res.Count("group."+g.kind, 1)
		}
		if err := tw.Close(); err != nil {
			t.Fatal(err)
		}
		res.Count("events", tw.N)
	}
	// a sample for the evidence file
	{
		var e [16]byte
		hx.Rand(22).Read(e[:])
		ph := c.encode(&e)
		var d [16]byte
		err := c.decode(&d, ph)
		res.Sample(map[string]any{"entropy": hex.EncodeToString(e[:]), "sha256_nibble": nibbleVal(&e), "phrase": ph,
			"decoded": hex.EncodeToString(d[:]), "decode_err": fmt.Sprint(err)})
	}
	res.Count("shards", p.Shards)
}

// ---------------------------------------------------------------- Leg R replay

type gcall struct {
	Op string `json:"op"`
	E  []int  `json:"e"`
	C  []int  `json:"c"`
	T  []int  `json:"t"`
	Eb []int  `json:"eb"`
}

type greply struct {
	W        []int `json:"w"`
	Ok       bool  `json:"ok"`
	E        []int `json:"e"`
	Wf       bool  `json:"wf"`
	Contract bool  `json:"contract"`
}

type gstep struct {
	K     int    `json:"k"`
	Op    string `json:"op"`
	Reply greply `json:"reply"`
	Mode  *int   `json:"mode,omitempty"` // how to perform a Dec step; absent: the harness cycles through the modes
}

type replayIn struct {
	Codec string    `json:"codec"`
	Calls []gcall   `json:"calls"` // 1-based in the spec: call k is Calls[k-1]
	Paths [][]gstep `json:"paths"`
	// Probes: boundary calls (with the reply computed by TLC) that are interleaved after the path
	// steps: replies are a function of the call alone, so a probe must get its specified reply
	// whatever call came before.  Each kind of previous call cycles through all probes.
	Probes []gstep `json:"probes"`
}

func eqInts(a, b []int) bool {
	if len(a) != len(b) {
		return false
	}
	for i := range a {
		if a[i] != b[i] {
			return false
		}
	}
	return true
}

// stepReal performs call k on the codec and compares with the reply computed by TLC.
// How a Dec step is performed on the real code (the spec's reply covers both functions).
const (
	modeDecodeSeed = iota // decode, then SeedFromPhrase
	modeSeedOnly          // the public SeedFromPhrase alone
	modeSeedDecode        // SeedFromPhrase, then decode
	modeDecodeOnly        // decode alone
	nModes
)

func stepReal(c *codec, call gcall, want greply, mode int) (sig, desc string) {
	defer func() {
		if p := recover(); p != nil {
			sig, desc = "replay:"+call.Op+":panic", fmt.Sprint(p)
		}
	}()
	switch call.Op {
	case "Enc":
		e, ok := bytesOfBits(call.E)
		if !ok {
			return "infra", "bad entropy bits in call"
		}
		got := c.encode(&e)
		t, wf := parseCanonical(got)
		if !wf || !eqInts(t, want.W) {
			return "replay:Enc:words", fmt.Sprintf("encode(%x) = %q = %v, spec: %v", e, got, t, want.W)
		}
	case "Dec":
		toks := make([]string, len(call.T))
		for i, w := range call.T {
			if w >= 0 && w < 2048 {
				toks[i] = wordList[w]
			} else {
				toks[i] = "notaword" // index -1: a token outside the list
			}
		}
		raw := strings.Join(toks, " ")
		var d [16]byte
		var s [32]byte
		var err, serr error
		doDec, doSeed := mode != modeSeedOnly, mode != modeDecodeOnly
		if mode == modeSeedDecode {
			serr = c.seed(&s, raw)
			err = c.decode(&d, raw)
		} else {
			if doDec {
				err = c.decode(&d, raw)
			}
			if doSeed {
				serr = c.seed(&s, raw)
			}
		}
		if doDec && (err == nil) != want.Ok {
			return "replay:Dec:ok", fmt.Sprintf("decode(%q): err=%v, spec ok=%v", raw, err, want.Ok)
		}
		if doSeed && (serr == nil) != want.Ok {
			return "replay:Dec:seed-ok", fmt.Sprintf("SeedFromPhrase(%q): err=%v, spec ok=%v", raw, serr, want.Ok)
		}
		if want.Ok && doDec {
			if got := []int(bitsOfBytes(d[:])); !eqInts(got, want.E) {
				return "replay:Dec:entropy", fmt.Sprintf("decode(%q) = %x, spec: %v", raw, d, want.E)
			}
		}
	default:
		return "infra", "unknown op " + call.Op
	}
	return "", ""
}

func TestReplay(t *testing.T) {
	res := hx.NewResult()
	defer res.Write()
	if err := loadWordList(); err != nil {
		res.Mismatch("direct:wordlist", err.Error(), map[string]any{"kind": "wordlist"})
		t.Fatal(err)
	}
	var in replayIn
	if err := hx.ReadIn(&in); err != nil {
		t.Fatal(err)
	}
	c, err := getCodec(in.Codec)
	if err != nil {
		t.Fatal(err)
	}
	probeN := map[string]int{}
	stepN := 0
	for pi, path := range in.Paths {
		for si, st := range path {
			if st.Op == "Reset" {
				continue
			}
			if st.K < 1 || st.K > len(in.Calls) {
				t.Fatalf("path %d step %d: call %d out of range", pi, si, st.K)
			}
			call := in.Calls[st.K-1]
			if !st.Reply.Contract {
				t.Fatalf("call %d: the orchestrator's packing/checksum was rejected by the spec", st.K)
			}
			mode := stepN % nModes
			if st.Mode != nil {
				mode = *st.Mode
			}
			stepN++
			sig, desc := stepReal(c, call, st.Reply, mode)
			if sig == "infra" {
				t.Fatalf("call %d: %s", st.K, desc)
			}
			res.Eval(fmt.Sprintf("%s:%d", call.Op, st.K))
			res.Count("replay."+call.Op, 1)
			if sig != "" {
				res.Mismatch(sig, desc, map[string]any{"kind": "path", "codec": c.name, "calls": []gcall{call},
					"paths": [][]gstep{{{K: 1, Op: st.Op, Reply: st.Reply, Mode: &mode}}}})
			} else if len(res.Samples) < 2 {
				res.Sample(map[string]any{"call": call.Op, "k": st.K, "spec_reply_matches_real": true, "t": call.T, "w": st.Reply.W})
			}
			if len(in.Probes) > 0 {
				kind := "enc"
				if call.Op == "Dec" {
					switch {
					case st.Reply.Ok:
						kind = "dec-ok"
					case st.Reply.Wf:
						kind = "dec-badsum"
					default:
						kind = "dec-malformed"
					}
					kind += [nModes]string{"/decode+seed", "/seed", "/seed+decode", "/decode"}[mode]
				}
				// each (kind of previous call) cycles through all probes; the probe is made through the
				// public SeedFromPhrase alone on the first cycle, then through the other modes
				pr := in.Probes[probeN[kind]%len(in.Probes)]
				pmode := [nModes]int{modeSeedOnly, modeDecodeSeed, modeDecodeOnly, modeSeedDecode}[probeN[kind]/len(in.Probes)%nModes]
				probeN[kind]++
				pcall := in.Calls[pr.K-1]
				psig, pdesc := stepReal(c, pcall, pr.Reply, pmode)
				if psig == "infra" {
					t.Fatalf("probe %d: %s", pr.K, pdesc)
				}
				res.Eval(fmt.Sprintf("%s:%d after %s:%d", pcall.Op, pr.K, call.Op, st.K))
				res.Count("probe.after-"+kind, 1)
				if psig != "" {
					res.Mismatch(psig+":after-"+kind, pdesc+fmt.Sprintf(" -- directly after call %d (%s, %s)", st.K, call.Op, kind),
						map[string]any{"kind": "path", "codec": c.name, "calls": []gcall{call, pcall},
							"paths": [][]gstep{{{K: 1, Op: st.Op, Reply: st.Reply, Mode: &mode}, {K: 2, Op: pr.Op, Reply: pr.Reply, Mode: &pmode}}}})
				}
			}
		}
	}
	res.Traces = len(in.Paths)
}

// ---------------------------------------------------------------- re-execution of a recorded group

// TestReexec re-issues the calls of a recorded (rejected) group on the real code and records them
// again; props/C20.py validates the new recording with TLC.  Dec tokens are re-derived from raw with
// strings.Fields (the recording's own `t` is by construction).
func TestReexec(t *testing.T) {
	res := hx.NewResult()
	defer res.Write()
	if err := loadWordList(); err != nil {
		t.Fatal(err)
	}
	var in struct {
		Codec  string           `json:"codec"`
		Events []map[string]any `json:"events"`
	}
	if err := hx.ReadIn(&in); err != nil {
		t.Fatal(err)
	}
	c, err := getCodec(in.Codec)
	if err != nil {
		t.Fatal(err)
	}
	tw, err := hx.NewTraceWriter(filepath.Join(hx.Env("VERIF_WORK", os.TempDir()), "seedtrace-reexec.ndjson"))
	if err != nil {
		t.Fatal(err)
	}
	r := &recorder{c: c, tw: tw, res: res, cur: "reexec"}
	ints := func(v any) []int {
		a, _ := v.([]any)
		out := make([]int, len(a))
		for i, x := range a {
			f, _ := x.(float64)
			out[i] = int(f)
		}
		return out
	}
	for _, ev := range in.Events {
		switch ev["op"] {
		case "Reset":
			pin, _ := ev["pin"].(bool)
			tw.Emit(evReset{"Reset", 0, "reexec", pin})
		case "Enc":
			e, ok := bytesOfBits(ints(ev["e"]))
			if !ok {
				t.Fatal("bad entropy in recorded Enc event")
			}
			r.enc(e)
		case "Dec":
			raw, _ := ev["raw"].(string)
			r.seedFirst, _ = ev["sf"].(bool)
			r.dec(raw, strings.Fields(raw))
			r.seedFirst = false
		case "Sfp":
			raw, _ := ev["raw"].(string)
			r.sfp(raw, strings.Fields(raw))
		case "New":
			r.newPhraseThen(false) // a decode that followed was recorded as its own event
		case "Key":
			sh, _ := ev["s"].(string)
			b, _ := hex.DecodeString(sh)
			var seed [32]byte
			copy(seed[:], b)
			is, _ := ev["i"].(string)
			i, _ := strconv.ParseUint(is, 10, 64)
			r.key(seed, i)
		case "Var":
			tw.Emit(evVar{"Var", ints(ev["t"])})
		}
	}
	if err := tw.Close(); err != nil {
		t.Fatal(err)
	}
	res.Count("events", tw.N)
}
