// Package memnet is an in-memory RHP4 transport: it implements rhp4.TransportMux (server side)
// and rhp4.TransportClient (renter side) over net.Pipe pairs, with an optional man-in-the-middle
// handler per stream.  No sockets, no encryption: the real client functions of rhp/v4/rpc.go talk
// to the real rhp4.Server through it, and a harness can sit on every stream to pass through, cut,
// mutate or replay messages (DESIGN.md section 3.4).
package memnet

import (
	"context"
	"errors"
	"io"
	"net"
	"sync"
	"sync/atomic"
	"time"

	"go.sia.tech/core/types"
)

// A Proxy handles one stream: client is the pipe end connected to the renter-side code, server the
// end connected to the host-side handler.  It must return when the exchange is over; both ends are
// closed afterwards.  streamNo counts DialStream calls from 1.
type Proxy func(streamNo int, client, server net.Conn)

// PassThrough copies bytes in both directions until either side closes.
func PassThrough(_ int, client, server net.Conn) {
	done := make(chan struct{}, 2)
	go func() { io.Copy(server, client); server.Close(); done <- struct{}{} }()
	go func() { io.Copy(client, server); client.Close(); done <- struct{}{} }()
	<-done
	<-done
}

// Net connects one renter to one host.
type Net struct {
	hostKey types.PublicKey
	accept  chan net.Conn
	closed  chan struct{}
	once    sync.Once

	mu      sync.Mutex
	proxy   Proxy
	streams int32
	wg      sync.WaitGroup // live proxies
	// serverDone[n] is closed when the server side of stream n has been closed by the host
	// handler (the only reliable "handler has fully returned" signal).
	serverDone map[int]chan struct{}
}

// New returns a Net whose client reports hostKey as the peer key.
func New(hostKey types.PublicKey) *Net {
	return &Net{hostKey: hostKey, accept: make(chan net.Conn, 64), closed: make(chan struct{}), serverDone: map[int]chan struct{}{}}
}

// SetProxy installs the man-in-the-middle for subsequently dialed streams (nil = direct pipe).
func (n *Net) SetProxy(p Proxy) { n.mu.Lock(); n.proxy = p; n.mu.Unlock() }

// Streams returns the number of streams dialed so far.
func (n *Net) Streams() int { return int(atomic.LoadInt32(&n.streams)) }

// AcceptStream implements rhp4.TransportMux.
func (n *Net) AcceptStream() (net.Conn, error) {
	select {
	case c := <-n.accept:
		return c, nil
	case <-n.closed:
		return nil, net.ErrClosed
	}
}

// Close implements rhp4.TransportMux and rhp4.TransportClient.
func (n *Net) Close() error { n.once.Do(func() { close(n.closed) }); return nil }

// notifyConn signals when Close is called on it.
type notifyConn struct {
	net.Conn
	once sync.Once
	ch   chan struct{}
}

func (c *notifyConn) Close() error { c.once.Do(func() { close(c.ch) }); return c.Conn.Close() }

// DialStream implements rhp4.TransportClient.
func (n *Net) DialStream(ctx context.Context) (net.Conn, error) {
	select {
	case <-n.closed:
		return nil, errors.New("memnet: closed")
	case <-ctx.Done():
		return nil, ctx.Err()
	default:
	}
	no := int(atomic.AddInt32(&n.streams, 1))
	n.mu.Lock()
	p := n.proxy
	done := make(chan struct{})
	n.serverDone[no] = done
	n.mu.Unlock()
	if p == nil {
		c, s := net.Pipe()
		ns := &notifyConn{Conn: s, ch: done}
		select {
		case n.accept <- ns:
		case <-n.closed:
			return nil, errors.New("memnet: closed")
		}
		return c, nil
	}
	c, pc := net.Pipe() // renter <-> proxy
	ps, s := net.Pipe() // proxy <-> host
	ns := &notifyConn{Conn: s, ch: done}
	select {
	case n.accept <- ns:
	case <-n.closed:
		return nil, errors.New("memnet: closed")
	}
	n.wg.Add(1)
	go func() {
		defer n.wg.Done()
		p(no, pc, ps)
		pc.Close()
		ps.Close()
	}()
	return c, nil
}

// WaitServerDone blocks until the host handler has closed its side of stream no (or timeout).
func (n *Net) WaitServerDone(no int, timeout time.Duration) bool {
	n.mu.Lock()
	ch := n.serverDone[no]
	n.mu.Unlock()
	if ch == nil {
		return false
	}
	select {
	case <-ch:
		return true
	case <-time.After(timeout):
		return false
	}
}

// WaitLastServerDone waits for the most recently dialed stream.
func (n *Net) WaitLastServerDone(timeout time.Duration) bool {
	return n.WaitServerDone(n.Streams(), timeout)
}

// WaitAllServerDone waits until the host handlers of all streams dialed so far have closed their
// side (or the timeout passes); for drivers that run several renters concurrently.
func (n *Net) WaitAllServerDone(timeout time.Duration) bool {
	deadline := time.Now().Add(timeout)
	for no := 1; no <= n.Streams(); no++ {
		left := time.Until(deadline)
		if left <= 0 || !n.WaitServerDone(no, left) {
			return false
		}
	}
	return true
}

// WaitProxies waits until all proxy goroutines have returned.
func (n *Net) WaitProxies() { n.wg.Wait() }

// FrameSize implements rhp4.TransportClient.
func (n *Net) FrameSize() int { return 1440 }

// PeerKey implements rhp4.TransportClient.
func (n *Net) PeerKey() types.PublicKey { return n.hostKey }
