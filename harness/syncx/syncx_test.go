package syncx

import (
	"fmt"
	"os"
	"path/filepath"
	"strings"
	"sync"
	"testing"

	"verifharness/hx"
)

type convergeIn struct {
	Scenarios []Scenario `json:"scenarios"`
	Width     int        `json:"width"`
	Retry     bool       `json:"retry"`
}

// TestConverge (C12 Leg T): runs every scenario of $VERIF_IN on real syncers, Width at a time;
// a liveness failure is retried once (fresh world) before it is reported.  Every node's
// ChainManager/PeerStore call log goes to synctrace-<shard>.ndjson for TLC (SyncTrace.tla).
func TestConverge(t *testing.T) {
	res := hx.NewResult()
	defer res.Write()
	var in convergeIn
	if err := hx.ReadIn(&in); err != nil {
		t.Fatal(err)
	}
	if in.Width <= 0 {
		in.Width = 12
	}
	dir := os.Getenv("VERIF_WORK")
	shards := 8
	tws := make([]*hx.TraceWriter, shards)
	for i := range tws {
		tw, err := hx.NewTraceWriter(filepath.Join(dir, fmt.Sprintf("synctrace-%d.ndjson", i)))
		if err != nil {
			t.Fatal(err)
		}
		tws[i] = tw
	}
	var mu sync.Mutex
	var wg sync.WaitGroup
	sem := make(chan struct{}, in.Width)
	var slotN int
	outcomes := make([]*Outcome, len(in.Scenarios))
	for i, sc := range in.Scenarios {
		wg.Add(1)
		sem <- struct{}{}
		mu.Lock()
		slotN++
		slot := slotN
		mu.Unlock()
		go func(i int, sc Scenario, slot int) {
			defer wg.Done()
			defer func() { <-sem }()
			out := RunConverge(sc, slot)
			retried := false
			if in.Retry && hasLive(out) {
				mu.Lock()
				slotN++
				slot2 := slotN
				mu.Unlock()
				first := out
				out = RunConverge(sc, slot2)
				retried = true
				if dir != "" {
					os.WriteFile(filepath.Join(dir, "retry-"+sc.ID+".log"), []byte(fmt.Sprintf("%v\n%s\n", first.Problems, strings.Join(first.Log, "\n"))), 0o644)
				}
				if hasLive(out) {
					out.Log = append(append(first.Log, "---- retry ----"), out.Log...)
				}
			}
			mu.Lock()
			defer mu.Unlock()
			outcomes[i] = out
			res.Eval(sc.Shape + "|" + sc.ID)
			res.Count("events", out.NEvents)
			res.Count("blocks", out.Blocks)
			if retried {
				res.Count("retried", 1)
				res.Note("scenario %s (%s) needed a retry", sc.ID, sc.Shape)
			}
			if out.Converged {
				res.Count("converged", 1)
				res.Count("converge_ms_total", int(out.Ms))
			}
			infra := false
			for _, p := range out.Problems {
				if len(p.Sig) > 6 && p.Sig[:6] == "infra:" {
					infra = true
					res.Note("INFRA %s: %s %s", sc.ID, p.Sig, p.Desc)
					res.Count("infra", 1)
					continue
				}
				res.Mismatch(p.Sig, fmt.Sprintf("scenario %s: %s", sc.ID, p.Desc), map[string]any{"kind": "converge", "scenario": sc, "log": out.Log, "tips": out.Tips, "heaviest": out.Heaviest})
			}
			if !infra && len(out.Events) > 0 {
				tw := tws[i%shards]
				// keep one scenario's events contiguous
				for _, ev := range out.Events {
					tw.Emit(ev)
				}
				res.Traces += len(sc.Nodes)
			}
			if i == 0 {
				res.Sample(map[string]any{"scenario": sc, "heaviest": out.Heaviest, "tips": out.Tips, "ms": out.Ms, "log": out.Log})
			}
		}(i, sc, slot)
	}
	wg.Wait()
	for _, tw := range tws {
		if err := tw.Close(); err != nil {
			t.Fatal(err)
		}
	}
	res.Count("scenarios", len(in.Scenarios))
}

func hasLive(o *Outcome) bool {
	for _, p := range o.Problems {
		if p.Live {
			return true
		}
	}
	return false
}
