package syncx

import (
	"fmt"
	"os"
	"path/filepath"
	"strings"
	"sync"
	"testing"

	"verifharness/hx"
)

type convergeIn struct {
	Scenarios []Scenario `json:"scenarios"`
	Width     int        `json:"width"`
	Retry     bool       `json:"retry"`
}

// TestConverge (C12 Leg T): runs every scenario of $VERIF_IN on real syncers, Width at a time;
// a liveness failure is retried once (fresh world) before it is reported.  Every node's
// ChainManager/PeerStore call log goes to synctrace-<shard>.ndjson for TLC (SyncTrace.tla).
func TestConverge(t *testing.T) {
	res := hx.NewResult()
	defer res.Write()
	var in convergeIn
	if err := hx.ReadIn(&in); err != nil {
		t.Fatal(err)
	}
	if in.Width <= 0 {
		in.Width = 12
	}
	dir := os.Getenv("VERIF_WORK")
	shards := 8
	tws := make([]*hx.TraceWriter, shards)
	for i := range tws {
		tw, err := hx.NewTraceWriter(filepath.Join(dir, fmt.Sprintf("synctrace-%d.ndjson", i)))
		if err != nil {
			t.Fatal(err)
		}
		tws[i] = tw
	}
	var mu sync.Mutex
	var wg sync.WaitGroup
	sem := make(chan struct{}, in.Width)
	var slotN int
	outcomes := make([]*Outcome, len(in.Scenarios))
	type lateRun struct {
		i   int
		sc  Scenario
		log []string
	}
	var late []lateRun
	report := func(i int, sc Scenario, out *Outcome, retried bool) {
		outcomes[i] = out
		res.Eval(sc.Shape + "|" + sc.ID)
		res.Count("events", out.NEvents)
		res.Count("blocks", out.Blocks)
		if retried {
			res.Count("retried", 1)
			res.Note("scenario %s (%s) needed a retry", sc.ID, sc.Shape)
		}
		if out.Converged {
			res.Count("converged", 1)
			res.Count("converge_ms_total", int(out.Ms))
		}
		infra := false
		for _, p := range out.Problems {
			if len(p.Sig) > 6 && p.Sig[:6] == "infra:" {
				infra = true
				res.Note("INFRA %s: %s %s", sc.ID, p.Sig, p.Desc)
				res.Count("infra", 1)
				continue
			}
			res.Mismatch(p.Sig, fmt.Sprintf("scenario %s: %s", sc.ID, p.Desc), map[string]any{"kind": "converge", "scenario": sc, "log": out.Log, "tips": out.Tips, "heaviest": out.Heaviest})
		}
		if !infra && len(out.Events) > 0 {
			tw := tws[i%shards]
			// keep one scenario's events contiguous
			for _, ev := range out.Events {
				tw.Emit(ev)
			}
			res.Traces += len(sc.Nodes)
		}
		if i == 0 {
			res.Sample(map[string]any{"scenario": sc, "heaviest": out.Heaviest, "tips": out.Tips, "ms": out.Ms, "log": out.Log})
		}
	}
	for i, sc := range in.Scenarios {
		wg.Add(1)
		sem <- struct{}{}
		mu.Lock()
		slotN++
		slot := slotN
		mu.Unlock()
		go func(i int, sc Scenario, slot int) {
			defer wg.Done()
			defer func() { <-sem }()
			out := RunConverge(sc, slot)
			retried := false
			if in.Retry && !sc.NoRetry && hasLive(out) {
				mu.Lock()
				slotN++
				slot2 := slotN
				mu.Unlock()
				first := out
				out = RunConverge(sc, slot2)
				retried = true
				if dir != "" {
					os.WriteFile(filepath.Join(dir, "retry-"+sc.ID+".log"), []byte(fmt.Sprintf("%v\n%s\n", first.Problems, strings.Join(first.Log, "\n"))), 0o644)
				}
				if hasLive(out) {
					// still failing: one more attempt later, on its own, when the machine is quieter
					mu.Lock()
					late = append(late, lateRun{i, sc, append(first.Log, "---- retry ----")})
					mu.Unlock()
					return
				}
			}
			mu.Lock()
			defer mu.Unlock()
			report(i, sc, out, retried)
		}(i, sc, slot)
	}
	wg.Wait()
	for _, lr := range late {
		slotN++
		out := RunConverge(lr.sc, slotN)
		if hasLive(out) {
			out.Log = append(append(lr.log, out.Log...), "---- (third attempt, run alone) ----")
		}
		report(lr.i, lr.sc, out, true)
	}
	wg.Wait()
	for _, tw := range tws {
		if err := tw.Close(); err != nil {
			t.Fatal(err)
		}
	}
	res.Count("scenarios", len(in.Scenarios))
}

func hasLive(o *Outcome) bool {
	for _, p := range o.Problems {
		if p.Live {
			return true
		}
	}
	return false
}

type byzIn struct {
	Scenarios []ByzScenario `json:"scenarios"`
	Width     int           `json:"width"`
	Retry     bool          `json:"retry"`
}

// TestByz (C11): a real victim syncer with honest peers and scripted Byzantine peers; a liveness
// failure is retried once before it is reported.  The call logs of the victim and of the honest
// peers go to byztrace-<shard>.ndjson for TLC (SyncTrace.tla).  A journal of started/finished
// scenarios (byz-journal.txt) lets the check attribute a process crash to a scenario.
func TestByz(t *testing.T) {
	res := hx.NewResult()
	defer res.Write()
	var in byzIn
	if err := hx.ReadIn(&in); err != nil {
		t.Fatal(err)
	}
	if in.Width <= 0 {
		in.Width = 12
	}
	dir := os.Getenv("VERIF_WORK")
	shards := 8
	tws := make([]*hx.TraceWriter, shards)
	for i := range tws {
		tw, err := hx.NewTraceWriter(filepath.Join(dir, fmt.Sprintf("byztrace-%d.ndjson", i)))
		if err != nil {
			t.Fatal(err)
		}
		tws[i] = tw
	}
	journal, err := os.OpenFile(filepath.Join(dir, "byz-journal.txt"), os.O_CREATE|os.O_WRONLY|os.O_APPEND, 0o644)
	if err != nil {
		t.Fatal(err)
	}
	defer journal.Close()
	var mu sync.Mutex
	var wg sync.WaitGroup
	sem := make(chan struct{}, in.Width)
	var slotN int
	live := func(o *ByzOutcome) bool {
		for _, p := range o.Problems {
			if p.Live {
				return true
			}
		}
		return false
	}
	type lateRun struct {
		i   int
		sc  ByzScenario
		log []string
	}
	var late []lateRun
	report := func(i int, sc ByzScenario, out *ByzOutcome, retried bool) {
		fmt.Fprintf(journal, "done %s\n", sc.ID)
		res.Eval(sc.Shape)
		res.Count("events", out.NEvents)
		nf := 0
		for k, n := range out.Fired {
			res.Count("fired:"+k, n)
			nf += n
		}
		if nf == 0 && len(sc.Z) > 0 {
			res.Count("vacuous", 1)
			res.Note("scenario %s (%s): no corrupted answer was delivered", sc.ID, sc.Shape)
		}
		if retried {
			res.Count("retried", 1)
			res.Note("scenario %s (%s) needed a retry", sc.ID, sc.Shape)
		}
		if out.Reached {
			res.Count("reached", 1)
			res.Count("reach_ms_total", int(out.Ms))
		}
		res.Count("bans", len(out.Bans))
		infra := false
		for _, p := range out.Problems {
			if strings.HasPrefix(p.Sig, "infra:") {
				infra = true
				res.Note("INFRA %s: %s %s", sc.ID, p.Sig, p.Desc)
				res.Count("infra", 1)
				continue
			}
			res.Mismatch(p.Sig, fmt.Sprintf("scenario %s (%s): %s", sc.ID, sc.Shape, p.Desc),
				map[string]any{"kind": "byz", "scenario": sc, "log": out.Log, "tips": out.Tips, "fired": out.Fired, "bans": out.Bans, "served": out.Served})
		}
		if !infra && len(out.Events) > 0 {
			tw := tws[i%shards]
			for _, ev := range out.Events {
				tw.Emit(ev)
			}
			res.Traces += 1 + max(1, sc.Honest)
		}
		if i < 2 {
			res.Sample(map[string]any{"scenario": sc, "tips": out.Tips, "ms": out.Ms, "fired": out.Fired, "bans": out.Bans, "log": out.Log})
		}
	}
	for i, sc := range in.Scenarios {
		wg.Add(1)
		sem <- struct{}{}
		mu.Lock()
		slotN++
		slot := slotN
		fmt.Fprintf(journal, "start %s\n", sc.ID)
		mu.Unlock()
		go func(i int, sc ByzScenario, slot int) {
			defer wg.Done()
			defer func() { <-sem }()
			out := RunByz(sc, slot)
			retried := false
			if in.Retry && live(out) {
				mu.Lock()
				slotN++
				slot2 := slotN
				mu.Unlock()
				first := out
				out = RunByz(sc, slot2)
				retried = true
				if dir != "" {
					os.WriteFile(filepath.Join(dir, "retry-"+sc.ID+".log"), []byte(fmt.Sprintf("%v\n%s\n", first.Problems, strings.Join(first.Log, "\n"))), 0o644)
				}
				if live(out) {
					// still failing: one more attempt later, on its own, when the machine is quieter
					mu.Lock()
					late = append(late, lateRun{i, sc, append(first.Log, "---- retry ----")})
					mu.Unlock()
					return
				}
			}
			mu.Lock()
			defer mu.Unlock()
			report(i, sc, out, retried)
		}(i, sc, slot)
	}
	wg.Wait()
	for _, lr := range late {
		slotN++
		out := RunByz(lr.sc, slotN)
		if live(out) {
			out.Log = append(append(lr.log, out.Log...), "---- (third attempt, run alone) ----")
		}
		report(lr.i, lr.sc, out, true)
	}
	for _, tw := range tws {
		if err := tw.Close(); err != nil {
			t.Fatal(err)
		}
	}
	res.Count("scenarios", len(in.Scenarios))
}

// TestReplay (Leg R): steps a real victim through every path of $VERIF_IN (macro-steps of Sync.tla's
// explored graph) and compares the projected real state with the specification's after every step.
func TestReplay(t *testing.T) {
	res := hx.NewResult()
	defer res.Write()
	var in replayIn
	if err := hx.ReadIn(&in); err != nil {
		t.Fatal(err)
	}
	if in.Width <= 0 {
		in.Width = 12
	}
	var mu sync.Mutex
	var wg sync.WaitGroup
	sem := make(chan struct{}, in.Width)
	for i, p := range in.Paths {
		wg.Add(1)
		sem <- struct{}{}
		go func(i int, p RPath) {
			defer wg.Done()
			defer func() { <-sem }()
			steps, diverged, sig, desc, lg := RunReplay(in.Family, p, 300+i, in.Stub)
			if sig != "" && !strings.HasPrefix(sig, "infra:") {
				// timing: retry once before reporting
				steps2, div2, sig2, desc2, lg2 := RunReplay(in.Family, p, 3000+i, in.Stub)
				if sig2 == "" {
					mu.Lock()
					res.Count("retried", 1)
					mu.Unlock()
				}
				steps, diverged, sig, desc, lg = steps2, div2, sig2, desc2, append(append(lg, "---- retry ----"), lg2...)
			}
			mu.Lock()
			defer mu.Unlock()
			for k := 0; k < steps; k++ {
				res.Eval(in.Family + "|" + hx.JSON(p.Steps[k].Act) + "|" + hx.JSON(p.Steps[k].Want))
			}
			if diverged {
				res.Count("diverged", 1)
			}
			if strings.HasPrefix(sig, "infra:") {
				res.Count("infra", 1)
				res.Note("INFRA path %d: %s %s", i, sig, desc)
			} else if sig != "" {
				res.Mismatch(sig, fmt.Sprintf("path %d: %s", i, desc), map[string]any{"kind": "path", "family": in.Family, "path": p, "log": lg})
			}
			if i == 0 {
				res.Sample(map[string]any{"family": in.Family, "path": p})
			}
		}(i, p)
	}
	wg.Wait()
	res.Count("paths", len(in.Paths))
}
