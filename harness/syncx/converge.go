package syncx

import (
	"fmt"
	"sort"
	"strings"
	"sync"
	"time"

	"go.sia.tech/core/gateway"
	"go.sia.tech/core/types"
	"go.sia.tech/coreutils/chain"
	"verifharness/hx"
)

// A Branch is a run of honest blocks forking off another branch.
type Branch struct {
	Name string `json:"name"` // one letter; blocks are named <name><height>
	From string `json:"from"` // parent branch ("" for the trunk, which starts at genesis)
	At   int    `json:"at"`   // height on the parent branch where this branch forks off
	Len  int    `json:"len"`  // number of blocks
	Pace string `json:"pace"` // fast | slow | "" (World.Pace)
}

// NodeSpec places a real node on the tree.
type NodeSpec struct {
	Name          string `json:"name"`
	Tip           string `json:"tip"`           // abstract block name, e.g. "a35"; "" = tip of Branch
	Branch        string `json:"branch"`        // branch whose tip the node holds (resolved after mining)
	Back          int    `json:"back"`          // ... minus this many blocks
	Checkpoint    int    `json:"checkpoint"`    // >0: bootstrap from NewDBStoreAtCheckpoint at this height of its own chain
	MaxSendBlocks uint64 `json:"maxSendBlocks"` // 0 = default
	MaxInbound    int    `json:"maxInbound"`
	MaxOutbound   int    `json:"maxOutbound"`
	MaxInflightSubnet int `json:"maxInflightSubnet"` // WithMaxInflightRPCsPerSubnet on this node
	MaxInflight       int `json:"maxInflight"`       // WithMaxInflightRPCs (per peer)
}

// Scenario is one network of honest nodes (property C12).
type Scenario struct {
	ID         string     `json:"id"`
	Allow      uint64     `json:"allow"`
	Require    uint64     `json:"require"`
	Final      uint64     `json:"final"`
	Branches   []Branch   `json:"branches"`
	Nodes      []NodeSpec `json:"nodes"`
	Edges      [][2]int   `json:"edges"` // connection order; [i,j]: node i dials node j
	GapMs      int        `json:"gapMs"` // pause between connections
	AnnounceMs int        `json:"announceMs"`
	DeadlineMs int        `json:"deadlineMs"`
	Winner     string     `json:"winner"` // branch that must be the heaviest (extended until it is)
	Shape      string     `json:"shape"`  // free-text label for signatures
	NoAnnounce bool       `json:"noAnnounce"`
	Announce   string     `json:"announce"` // header | outline | both (default both)
	NoRetry    bool       `json:"noRetry"`
	Spend      *SpendSpec `json:"spend"` // the two forks a and b spend the same pre-fork output (spend.go); replaces Branches
	Grow       *GrowSpec  `json:"grow"` // second phase: once every link is synced a node mines and relays new blocks
	ShorterWinner bool    `json:"shorterWinner"` // premise of the scenario: the heaviest tip is NOT the longest
	HardTarget bool       `json:"hardTarget"` // InitialTarget {0x00,0x10}: work per block diverges from 1, heaviest != longest
	V1Window   string     `json:"v1Window"` // which heights in [allow, require) are v1 blocks (World.V1Window)
	Probe      string     `json:"probe"` // directed reproduction, see probeOutlineSidechain
}

// GrowSpec: after the network has settled on its initial (possibly equal-height, undecided) tips,
// node Node mines N more blocks on its own tip and announces them with the given relay kind.
type GrowSpec struct {
	Node  int    `json:"node"`
	N     int    `json:"n"`
	Relay string `json:"relay"` // outline | header | both
}

// Outcome of one scenario run.
type Outcome struct {
	ID        string            `json:"id"`
	Converged bool              `json:"converged"`
	Ms        int64             `json:"ms"`
	Heaviest  string            `json:"heaviest"`
	Tips      map[string]string `json:"tips"`
	Problems  []Problem         `json:"problems"`
	Events    []Event           `json:"-"`
	Log       []string          `json:"log"`
	NEvents   int               `json:"nevents"`
	Blocks    int               `json:"blocks"`
}

type Problem struct {
	Sig  string `json:"sig"`
	Desc string `json:"desc"`
	Live bool   `json:"live"` // liveness (timing-dependent): retried once before it is reported
}

type tlog struct {
	mu    sync.Mutex
	start time.Time
	lines []string
}

func (l *tlog) add(format string, a ...any) {
	l.mu.Lock()
	defer l.mu.Unlock()
	l.lines = append(l.lines, fmt.Sprintf("%6dms ", time.Since(l.start).Milliseconds())+fmt.Sprintf(format, a...))
}

// buildTree mines the scenario's branches and returns branch -> manager holding it.
func buildTree(w *World, branches []Branch) (map[string]*chain.Manager, error) {
	mgr := map[string]*chain.Manager{}
	for _, br := range branches {
		var cm *chain.Manager
		if br.From == "" {
			cm = w.NewManager()
		} else {
			base := "g"
			if br.At > 0 {
				base = fmt.Sprintf("%s%d", br.From, br.At)
				if w.ID(base) == (types.BlockID{}) {
					return nil, fmt.Errorf("branch %s forks off unknown block %s", br.Name, base)
				}
			}
			cm = w.ManagerAt(base)
		}
		w.Extend(cm, br.Name, br.Len)
		mgr[br.Name] = cm
	}
	return mgr, nil
}

// RunConverge executes one honest-network scenario on real syncers.
func RunConverge(sc Scenario, slot int) (out *Outcome) {
	start := time.Now()
	out = &Outcome{ID: sc.ID, Tips: map[string]string{}}
	lg := &tlog{start: start}
	defer func() { out.Log = lg.lines }()
	fail := func(sig, format string, a ...any) {
		out.Problems = append(out.Problems, Problem{Sig: sig, Desc: fmt.Sprintf(format, a...)})
	}
	w := NewWorld(sc.Allow, sc.Require, sc.Final)
	w.Seed = fmt.Sprintf("%d|%s", hx.Seed(), sc.ID)
	w.V1Window = sc.V1Window
	w.Pace = map[string]string{}
	for _, br := range sc.Branches {
		w.Pace[br.Name] = br.Pace
	}
	if sc.HardTarget {
		w.Net.InitialTarget = types.BlockID{0x00, 0x10}
		// the genesis state depends on the target
		_, cs, err := chain.NewDBStore(chain.NewMemDB(), w.Net, w.Genesis, nil)
		if err != nil {
			fail("infra:world", "%v", err)
			return
		}
		w.state[w.Genesis.ID()] = cs
	}
	var mgr map[string]*chain.Manager
	var err error
	if sc.Spend != nil {
		mgr, err = buildSpendTree(w, *sc.Spend)
	} else {
		mgr, err = buildTree(w, sc.Branches)
	}
	if err != nil {
		fail("infra:tree", "%v", err)
		return
	}
	// resolve node tips
	tips := make([]string, len(sc.Nodes))
	resolve := func() {
		for i, ns := range sc.Nodes {
			if ns.Tip != "" {
				tips[i] = ns.Tip
				continue
			}
			h := int(mgr[ns.Branch].Tip().Height) - ns.Back
			if h <= 0 {
				tips[i] = "g"
			} else {
				tips[i] = w.Name(mustBest(mgr[ns.Branch], uint64(h)))
			}
		}
	}
	resolve()
	// the winner must be sufficiently heavier (core's reorg criterion) than every other tip
	heaviest := ""
	if sc.Grow != nil {
		// decided in the second phase
	} else if sc.Winner != "" {
		for iter := 0; ; iter++ {
			resolve()
			wt := w.Name(mgr[sc.Winner].Tip().ID)
			ok := true
			for _, t := range tips {
				if t != wt && !w.SufficientlyHeavier(wt, t) {
					ok = false
				}
			}
			if wb := w.Block(wt); ok && wb.V2 == nil {
				// the final tip must be a v2 block: a v1 block has no outline, it can only be
				// announced by header, and a header that attaches to the receiver's tip is merely
				// relayed on (peer.go:373-380) -- a node one block behind would never fetch it
				ok = false
			}
			if ok {
				heaviest = wt
				break
			}
			if iter > 60 {
				fail("infra:winner", "cannot make branch %s sufficiently heavier", sc.Winner)
				return
			}
			if h := w.HeightOf(wt); h < sc.Allow {
				w.Extend(mgr[sc.Winner], sc.Winner, int(sc.Allow-h))
			} else {
				w.Extend(mgr[sc.Winner], sc.Winner, 1)
			}
		}
	} else {
		// the unique tip that is sufficiently heavier than all others, if any
		for _, t := range tips {
			ok := true
			for _, u := range tips {
				if u != t && !w.SufficientlyHeavier(t, u) {
					ok = false
				}
			}
			if ok {
				heaviest = t
			}
		}
		if heaviest == "" {
			fail("infra:winner", "no tip is sufficiently heavier than all others: %v", tips)
			return
		}
	}
	out.Heaviest = heaviest
	if sc.ShorterWinner {
		longer := false
		for _, t := range tips {
			longer = longer || w.HeightOf(t) > w.HeightOf(heaviest)
		}
		if !longer {
			fail("infra:winner", "the heaviest tip %s is also the longest: the scenario's premise is broken", heaviest)
			return
		}
	}

	// start the nodes
	addrRole := map[string]string{}
	roles := func(host string) string {
		if r, ok := addrRole[host]; ok {
			return r
		}
		return "unknown"
	}
	nodes := make([]*Node, len(sc.Nodes))
	for i, ns := range sc.Nodes {
		ip := fmt.Sprintf("127.%d.%d.%d", 1+slot%200, 1+(slot/200)%250, 10+i)
		addrRole[ip] = "honest:" + ns.Name
		o := NodeOpts{Name: ns.Name, IP: ip, Tip: tips[i], MaxSendBlocks: ns.MaxSendBlocks, MaxInbound: ns.MaxInbound, MaxOutbound: ns.MaxOutbound,
			MaxInflightSubnet: ns.MaxInflightSubnet, MaxInflight: ns.MaxInflight}
		if ns.Checkpoint > 0 {
			// the checkpoint is the block at that height on the node's own chain
			chainBlocks := w.ChainOf(tips[i])
			if ns.Checkpoint > len(chainBlocks) {
				fail("infra:checkpoint", "checkpoint height %d above the tip of node %s", ns.Checkpoint, ns.Name)
				return
			}
			o.Checkpoint = w.Name(chainBlocks[ns.Checkpoint-1].ID())
		}
		n, err := NewNode(w, o, start, roles)
		if err != nil {
			fail("infra:node", "%v", err)
			return
		}
		nodes[i] = n
		lg.add("node %s up at %s tip=%s base=%s", ns.Name, n.Addr(), tips[i], n.Base)
	}
	closed := false
	closeAll := func() {
		if closed {
			return
		}
		closed = true
		var wg sync.WaitGroup
		for _, n := range nodes {
			wg.Add(1)
			go func(n *Node) { defer wg.Done(); n.Close() }(n)
		}
		wg.Wait()
	}
	defer closeAll()
	if sc.Probe == "outline-sidechain" {
		if err := probeOutlineSidechain(w, nodes, tips, lg); err != nil {
			fail("infra:probe", "%v", err)
			return
		}
	}
	initKnown := make([][]string, len(nodes))
	for i, n := range nodes {
		initKnown[i] = n.KnownNames()
	}

	// connect in the scenario's order
	for _, e := range sc.Edges {
		var err error
		for try := 0; try < 3; try++ {
			if err = nodes[e[0]].Connect(nodes[e[1]].Addr()); err == nil {
				break
			}
			time.Sleep(50 * time.Millisecond)
		}
		if err != nil {
			fail("infra:connect", "%s -> %s: %v", sc.Nodes[e[0]].Name, sc.Nodes[e[1]].Name, err)
			return
		}
		lg.add("connected %s -> %s", sc.Nodes[e[0]].Name, sc.Nodes[e[1]].Name)
		if sc.GapMs > 0 {
			time.Sleep(time.Duration(sc.GapMs) * time.Millisecond)
		}
	}

	if sc.Grow != nil {
		// phase 1: every link up and every peer marked synced (the nodes have exchanged their forks
		// and, none being sufficiently heavier, stay where they are), tips re-announced meanwhile
		deg := make([]int, len(nodes))
		for _, e := range sc.Edges {
			deg[e[0]]++
			deg[e[1]]++
		}
		settleEnd := time.Now().Add(time.Duration(sc.DeadlineMs/3) * time.Millisecond)
		lastA := time.Time{}
		for time.Now().Before(settleEnd) {
			ok := true
			for i, n := range nodes {
				ps := n.S.Peers()
				if len(ps) != deg[i] {
					ok = false
				}
				for _, p := range ps {
					ok = ok && p.Synced()
				}
			}
			if ok {
				break
			}
			if time.Since(lastA) > 300*time.Millisecond {
				lastA = time.Now()
				for _, n := range nodes {
					go n.Announce(sc.Grow.Relay)
				}
			}
			time.Sleep(25 * time.Millisecond)
		}
		time.Sleep(300 * time.Millisecond)
		for i, n := range nodes {
			if got := w.Name(n.CM.Tip().ID); got != tips[i] {
				lg.add("phase 1: %s moved from %s to %s", sc.Nodes[i].Name, tips[i], got)
			}
			lg.add("phase 1 peers of %s: %s", sc.Nodes[i].Name, peerSummary(n))
		}
		// phase 2: the node mines on its tip and relays
		g := nodes[sc.Grow.Node]
		for k := 0; k < max(1, sc.Grow.N); k++ {
			cs := g.CM.TipState()
			pname := w.Name(cs.Index.ID)
			b := mineOnV(cs, w.minerAddr("grow"), []byte(fmt.Sprintf("grow-%d-%s", k, w.Seed)), cs.PrevTimestamps[0].Add(time.Second), false)
			oracle := w.ManagerAt(pname)
			if err := oracle.AddBlocks([]types.Block{b}); err != nil || oracle.Tip().ID != b.ID() {
				fail("infra:grow", "mined block rejected by the oracle: %v", err)
				return
			}
			name := fmt.Sprintf("m%d", cs.Index.Height+1)
			w.register(name, b, cs.Index.Height+1, "ok", oracle.TipState())
			if err := g.RCM.AddBlocks([]types.Block{b}); err != nil {
				fail("infra:grow", "node rejected its own block: %v", err)
				return
			}
			heaviest = name
			lg.add("%s mined %s on %s", sc.Nodes[sc.Grow.Node].Name, name, pname)
			g.Announce(sc.Grow.Relay)
		}
		for i, n := range nodes {
			if t := w.Name(n.CM.Tip().ID); i != sc.Grow.Node && t != heaviest && !w.SufficientlyHeavier(heaviest, t) {
				fail("infra:grow", "the mined tip %s is not sufficiently heavier than %s", heaviest, t)
				return
			}
		}
		out.Heaviest = heaviest
		sc.Announce = sc.Grow.Relay
	}

	// wait for convergence, re-announcing tips periodically
	deadline := time.Now().Add(time.Duration(sc.DeadlineMs) * time.Millisecond)
	annEvery := time.Duration(sc.AnnounceMs) * time.Millisecond
	if annEvery == 0 {
		annEvery = 250 * time.Millisecond
	}
	lastAnn := time.Time{}
	var annWG sync.WaitGroup
	annBusy := make([]bool, len(nodes))
	var annMu sync.Mutex
	allAt := func() bool {
		for _, n := range nodes {
			if w.Name(n.CM.Tip().ID) != heaviest {
				return false
			}
		}
		return true
	}
	lastTips := make([]string, len(nodes))
	var banSeen time.Time
	for {
		for i, n := range nodes {
			if t := w.Name(n.CM.Tip().ID); t != lastTips[i] {
				lastTips[i] = t
				lg.add("tip %s = %s", sc.Nodes[i].Name, t)
			}
		}
		if allAt() {
			out.Converged = true
			out.Ms = time.Since(start).Milliseconds()
			break
		}
		if time.Now().After(deadline) {
			break
		}
		// a ban is permanent: once an honest peer has been banned the network only gets a short
		// grace period (it may still converge over other links)
		if banSeen.IsZero() {
			for _, n := range nodes {
				if n.PS.honestBans() > 0 {
					banSeen = time.Now()
				}
			}
		} else if time.Since(banSeen) > 8*time.Second {
			break
		}
		if !sc.NoAnnounce && time.Since(lastAnn) >= annEvery {
			lastAnn = time.Now()
			for i, n := range nodes {
				annMu.Lock()
				busy := annBusy[i]
				if !busy {
					annBusy[i] = true
				}
				annMu.Unlock()
				if busy {
					continue
				}
				annWG.Add(1)
				go func(i int, n *Node) {
					defer annWG.Done()
					n.Announce(sc.Announce)
					annMu.Lock()
					annBusy[i] = false
					annMu.Unlock()
				}(i, n)
			}
		}
		time.Sleep(20 * time.Millisecond)
	}
	if out.Converged {
		// stability (the [] of <>[]): tips must stay put while the nodes keep running
		time.Sleep(400 * time.Millisecond)
		if !allAt() {
			out.Converged = false
			fail("converge:unstable", "tips left the heaviest tip %s after convergence", heaviest)
		}
	}
	annWG.Wait()
	// quiescence audit of the in-flight RPC accounting (only meaningful once the network is at rest)
	if out.Converged {
		for i, n := range nodes {
			m, sum := n.InflightAtRest(4 * time.Second)
			n.RecordIdle(sum)
			if sum != 0 {
				fail("converge:inflight-leak", "node %s is at rest but its per-subnet in-flight RPC counters are %v (a counter is the number of running handlers)", sc.Nodes[i].Name, m)
			}
		}
	}
	for i, n := range nodes {
		out.Tips[sc.Nodes[i].Name] = w.Name(n.CM.Tip().ID)
		lg.add("peers of %s: %s", sc.Nodes[i].Name, peerSummary(n))
	}
	if !out.Converged && len(out.Problems) == 0 {
		var ts []string
		for i := range nodes {
			ts = append(ts, sc.Nodes[i].Name+"="+out.Tips[sc.Nodes[i].Name])
		}
		sig := "converge:stall:" + sc.Shape
		live := true
		for _, n := range nodes {
			for _, ev := range n.Rec.Events() {
				if ev.Op == "Ban" && strings.HasPrefix(ev.Who, "honest:") {
					// a ban is permanent: the stall is explained, a retry cannot help
					sig = "converge:stall-after-ban-honest:" + banKind(ev.Why) + ":" + sc.Shape
					live = false
				}
			}
		}
		out.Problems = append(out.Problems, Problem{Sig: sig, Live: live,
			Desc: fmt.Sprintf("nodes did not converge to the heaviest tip %s within %d ms: %s", heaviest, sc.DeadlineMs, strings.Join(ts, " "))})
	}
	closeAll()

	// safety audits
	for i, n := range nodes {
		if err := n.Audit(); err != nil {
			fail("converge:audit", "node %s: %v", sc.Nodes[i].Name, err)
		}
		if p := n.Panics.Load(); p > 0 {
			fail("converge:panic", "node %s recovered %d handler panics", sc.Nodes[i].Name, p)
		}
		var prev string = tips[i]
		for _, ev := range n.Rec.Events() {
			switch ev.Op {
			case "Ban":
				fail("converge:ban-honest:"+banKind(ev.Why), "node %s banned %s in an all-honest network: %s", sc.Nodes[i].Name, ev.Who, ev.Why)
			case "AddBlocks", "AddValidated":
				if ev.Tip != prev {
					if w.TotalWorkOf(ev.Tip).Cmp(w.TotalWorkOf(prev)) < 0 {
						fail("converge:work-decreased", "node %s moved from %s to the lighter tip %s", sc.Nodes[i].Name, prev, ev.Tip)
					}
					prev = ev.Tip
				}
			}
		}
	}
	// trace: Tree, then per node: Node + its events + End
	out.Events = append(out.Events, Event{Op: "Tree", Tree: w.TreeJSON(), Req: int(sc.Require), Why: sc.ID})
	for i, n := range nodes {
		out.Events = append(out.Events, Event{Op: "Node", Node: sc.Nodes[i].Name, Known: initKnown[i], Tip: tips[i], Base: n.Base})
		evs := n.Rec.Events()
		out.Events = append(out.Events, evs...)
		out.Events = append(out.Events, Event{Op: "End", Node: sc.Nodes[i].Name, Tip: out.Tips[sc.Nodes[i].Name]})
		out.NEvents += len(evs)
	}
	for i := range out.Events {
		if out.Events[i].Bs == nil {
			out.Events[i].Bs = []string{}
		}
		if out.Events[i].Known == nil {
			out.Events[i].Known = []string{}
		}
	}
	w.mu.Lock()
	out.Blocks = len(w.order)
	w.mu.Unlock()
	return
}

func mustBest(cm *chain.Manager, h uint64) types.BlockID {
	idx, ok := cm.BestIndex(h)
	if !ok {
		panic(fmt.Sprintf("no best index at %d", h))
	}
	return idx.ID
}

func peerSummary(n *Node) string {
	var ps []string
	for _, p := range n.S.Peers() {
		s := p.String()
		if p.Synced() {
			s += "(synced)"
		} else {
			s += "(unsynced)"
		}
		ps = append(ps, s)
	}
	sort.Strings(ps)
	return strings.Join(ps, " ")
}

// banKind abbreviates a ban reason for signatures.
func banKind(why string) string {
	switch {
	case strings.Contains(why, "outline with insufficient work"):
		return "outline-insufficient-work"
	case strings.Contains(why, "header with insufficient work"):
		return "header-insufficient-work"
	case strings.Contains(why, "wrong missing transactions"):
		return "wrong-missing-txns"
	case strings.Contains(why, "empty transaction set"):
		return "empty-txset"
	case strings.Contains(why, "too many strikes"):
		return "strikes"
	case strings.Contains(why, "invalid"):
		return "invalid-block"
	}
	return "other"
}

// probeOutlineSidechain sets up, deterministically, the situation in which a node receives the
// outline of a block whose parent it holds only as an unapplied side-chain block (header state):
// nodes[0] (on the heavier branch) is given nodes[1]'s whole chain as a side chain, and nodes[1]
// mines one more honest block, chosen among candidates such that the id nodes[0] derives for the
// outline from its header-only parent state misses the PoW target.
func probeOutlineSidechain(w *World, nodes []*Node, tips []string, lg *tlog) error {
	n0, n1 := nodes[0], nodes[1]
	if err := addAll(n0.CM, w.ChainOf(tips[1])); err != nil {
		return err
	}
	if w.Name(n0.CM.Tip().ID) != tips[0] {
		return fmt.Errorf("probe: side chain displaced the tip of %s", n0.Opts.Name)
	}
	hdr, ok := n0.CM.State(w.ID(tips[1]))
	if !ok {
		return fmt.Errorf("probe: side-chain state missing")
	}
	cs := n1.CM.TipState()
	h := types.NewHasher()
	h.E.WriteString("verif-miner|" + w.Seed + "|probe")
	addr := types.Address(h.Sum())
	for j := 0; j < 200000; j++ {
		b := mineOn(cs, addr, []byte(fmt.Sprintf("probe-%d-%s", j, w.Seed)), cs.PrevTimestamps[0].Add(time.Second))
		o := gateway.OutlineBlock(b, nil, nil)
		if wrong := o.ID(hdr); wrong.CmpWork(hdr.PoWTarget()) < 0 {
			if err := n1.CM.AddBlocks([]types.Block{b}); err != nil {
				return err
			}
			name := fmt.Sprintf("b%d", cs.Index.Height+1)
			w.register(name, b, cs.Index.Height+1, "ok", n1.CM.TipState())
			tips[1] = name
			if !w.SufficientlyHeavier(tips[0], name) {
				return fmt.Errorf("probe: winner no longer sufficiently heavier")
			}
			lg.add("probe: %s mined %s after %d candidates (its outline id derived from a header-only parent state misses the target)", n1.Opts.Name, name, j+1)
			return nil
		}
	}
	return fmt.Errorf("probe: no candidate found")
}
