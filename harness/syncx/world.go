// Package syncx binds spec/Sync.tla and spec/SyncTrace.tla to the real P2P syncer
// (properties C12 and C11): real syncer.Syncer + real chain.Manager nodes on loopback TCP, fork
// trees mined on separate managers, recording wrappers around syncer.ChainManager and
// syncer.PeerStore, a linear-replay twin for the final audit, and a scripted (Byzantine or
// honest) gateway peer built on go.sia.tech/core/gateway (byz.go).
package syncx

import (
	"bytes"
	"fmt"
	"math/big"
	"sort"
	"strings"
	"sync"
	"time"

	"go.sia.tech/core/consensus"
	"go.sia.tech/core/types"
	"go.sia.tech/coreutils"
	"go.sia.tech/coreutils/chain"
)

// A World is one consensus network plus every block the harness ever built for a scenario
// (honest forks and Byzantine-crafted blocks), with small abstract names.
type World struct {
	Net     *consensus.Network
	Genesis types.Block
	Seed    string // makes block ids reproducible
	// V1Window selects which heights in [AllowHeight, RequireHeight) are mined as (still legal) v1
	// blocks: "" none (what coreutils.MineBlock does), "all", "alt" (even heights), "first", "last"
	V1Window string
	// Pace maps a branch prefix to its block pace: "fast" (every block reuses its parent's timestamp:
	// ahead of schedule, difficulty rises), "slow" (wall-clock timestamps, years behind schedule:
	// difficulty falls); default: parent + 1 s (on schedule)
	Pace map[string]string

	mu     sync.Mutex
	name   map[types.BlockID]string
	id     map[string]types.BlockID
	block  map[types.BlockID]types.Block
	parent map[types.BlockID]types.BlockID
	height map[types.BlockID]uint64
	class  map[types.BlockID]string          // ok | bad (body invalid) | hdr (rejected at submission)
	state  map[types.BlockID]consensus.State // true post-state for ok blocks, header state otherwise
	order  []types.BlockID
	xn     int
	cpState map[types.BlockID]consensus.State // crafted checkpoint parent states (bogus-binding attack)
	content  map[types.BlockID]types.Hash256
	cpBlock  map[types.BlockID]types.Block // altered copies of checkpoint blocks (same id) served with a crafted fork
	variants map[types.Hash256]*variant // blocks with a known id but different content
}

// A variant is a block that carries the id of a known block but not its content (a v2 id covers
// neither the miner payout value nor -- except through the commitment -- the body).
type variant struct {
	name, parent, class string
	height              uint64
	cs                  consensus.State
}

func contentHash(b types.Block) types.Hash256 {
	h := types.NewHasher()
	if b.V2 != nil {
		types.V2Block(b).EncodeTo(h.E)
	} else {
		types.V1Block(b).EncodeTo(h.E)
	}
	return h.Sum()
}

// NewWorld returns a copy of the repository's test network (testutil.Network) with the v2
// hardfork heights chosen by the scenario.
func NewWorld(allow, require, final uint64) *World {
	n, genesis := chain.TestnetZen()
	n.InitialTarget = types.BlockID{0xFF}
	n.BlockInterval = time.Second
	n.MaturityDelay = 5
	n.HardforkDevAddr.Height = 1
	n.HardforkTax.Height = 1
	n.HardforkStorageProof.Height = 1
	n.HardforkOak.Height = 1
	n.HardforkASIC.Height = 1
	n.HardforkFoundation.Height = 1
	n.HardforkV2.AllowHeight = allow
	n.HardforkV2.RequireHeight = require
	n.HardforkV2.FinalCutHeight = final
	w := &World{Net: n, Genesis: genesis,
		name: map[types.BlockID]string{}, id: map[string]types.BlockID{}, block: map[types.BlockID]types.Block{},
		parent: map[types.BlockID]types.BlockID{}, height: map[types.BlockID]uint64{}, class: map[types.BlockID]string{},
		state: map[types.BlockID]consensus.State{}}
	gid := genesis.ID()
	w.name[gid] = "g"
	w.id["g"] = gid
	w.block[gid] = genesis
	w.class[gid] = "ok"
	w.order = append(w.order, gid)
	_, cs, err := chain.NewDBStore(chain.NewMemDB(), n, genesis, nil)
	if err != nil {
		panic(err)
	}
	w.state[gid] = cs
	return w
}

// NewManager returns a fresh chain.Manager at genesis.
func (w *World) NewManager() *chain.Manager {
	store, cs, err := chain.NewDBStore(chain.NewMemDB(), w.Net, w.Genesis, nil)
	if err != nil {
		panic(err)
	}
	return chain.NewManager(store, cs)
}

// register records a block under an abstract name.
func (w *World) register(name string, b types.Block, h uint64, class string, cs consensus.State) {
	w.mu.Lock()
	defer w.mu.Unlock()
	id := b.ID()
	if _, ok := w.name[id]; ok {
		return
	}
	w.name[id] = name
	w.id[name] = id
	w.block[id] = b
	w.parent[id] = b.ParentID
	w.height[id] = h
	w.class[id] = class
	w.state[id] = cs
	w.order = append(w.order, id)
	if w.content == nil {
		w.content = map[types.BlockID]types.Hash256{}
	}
	w.content[id] = contentHash(b)
}

// Name returns the abstract name of a block id ("?xxxx" for ids the harness never built).
func (w *World) Name(id types.BlockID) string {
	w.mu.Lock()
	defer w.mu.Unlock()
	if n, ok := w.name[id]; ok {
		return n
	}
	return "?" + id.String()[:8]
}

func (w *World) Known(id types.BlockID) bool {
	w.mu.Lock()
	defer w.mu.Unlock()
	_, ok := w.name[id]
	return ok
}

func (w *World) ID(name string) types.BlockID {
	w.mu.Lock()
	defer w.mu.Unlock()
	return w.id[name]
}

func (w *World) Block(name string) types.Block {
	w.mu.Lock()
	defer w.mu.Unlock()
	return w.block[w.id[name]]
}

func (w *World) StateOf(id types.BlockID) (consensus.State, bool) {
	w.mu.Lock()
	defer w.mu.Unlock()
	cs, ok := w.state[id]
	return cs, ok
}

// mineOn builds (like coreutils.MineBlock) one block on top of cs; unique by miner address and
// a salt in the v2 arbitrary data / v1 arbitrary-data transaction.
// v1At reports whether the block at the given height is to be mined as a v1 block.
func (w *World) v1At(pattern string, h uint64) bool {
	a, r := w.Net.HardforkV2.AllowHeight, w.Net.HardforkV2.RequireHeight
	if h < a {
		return true
	} else if h >= r {
		return false
	}
	switch pattern {
	case "all":
		return true
	case "alt":
		return h%2 == 0
	case "first":
		return h == a
	case "last":
		return h == r-1
	}
	return false
}

func mineOn(cs consensus.State, addr types.Address, salt []byte, ts time.Time) types.Block {
	return mineOnV(cs, addr, salt, ts, false)
}

// mineOnV is mineOn with the choice of a v1 block inside the [allow, require) window.
func mineOnV(cs consensus.State, addr types.Address, salt []byte, ts time.Time, v1 bool) types.Block {
	b := types.Block{
		ParentID:     cs.Index.ID,
		Timestamp:    ts,
		MinerPayouts: []types.SiacoinOutput{{Value: cs.BlockReward(), Address: addr}},
	}
	childHeight := cs.Index.Height + 1
	if childHeight >= cs.Network.HardforkV2.AllowHeight && !(v1 && childHeight < cs.Network.HardforkV2.RequireHeight) {
		b.V2 = &types.V2BlockData{
			Height:       childHeight,
			Transactions: []types.V2Transaction{{ArbitraryData: salt}},
		}
		b.V2.Commitment = cs.Commitment(addr, b.Transactions, b.V2Transactions())
	} else {
		b.Transactions = []types.Transaction{{ArbitraryData: [][]byte{salt}}}
	}
	if !coreutils.FindBlockNonce(cs, &b, 10*time.Second) {
		panic("no nonce found")
	}
	return b
}

// Extend mines n honest blocks named prefix<height> on top of the manager's tip, adds them to
// the manager and registers them.  Block ids are a pure function of (world seed, prefix, height):
// the miner address is derived from the seed and timestamps are parent + 1 s (genesis-relative,
// always in the past), so a scenario is bit-reproducible for a given VERIF_SEED.
func (w *World) Extend(cm *chain.Manager, prefix string, n int) []types.Block {
	var out []types.Block
	h := types.NewHasher()
	h.E.WriteString(fmt.Sprintf("verif-miner|%s|%s", w.Seed, prefix))
	addr := types.Address(h.Sum())
	for i := 0; i < n; i++ {
		cs := cm.TipState()
		salt := []byte(fmt.Sprintf("%s-%d-%s", prefix, cs.Index.Height+1, w.Seed))
		ts := cs.PrevTimestamps[0].Add(time.Second)
		switch w.Pace[prefix] {
		case "fast":
			ts = cs.PrevTimestamps[0]
		case "slow":
			ts = types.CurrentTimestamp()
		}
		b := mineOnV(cs, addr, salt, ts, w.v1At(w.V1Window, cs.Index.Height+1))
		if err := cm.AddBlocks([]types.Block{b}); err != nil {
			panic(fmt.Sprintf("mined block rejected: %v", err))
		}
		ns := cm.TipState()
		if ns.Index.ID != b.ID() {
			panic("mined block did not become the tip")
		}
		w.register(fmt.Sprintf("%s%d", prefix, ns.Index.Height), b, ns.Index.Height, "ok", ns)
		out = append(out, b)
	}
	return out
}

// ChainOf returns the blocks from genesis (exclusive) to the block with the given name.
func (w *World) ChainOf(name string) []types.Block {
	w.mu.Lock()
	defer w.mu.Unlock()
	var rev []types.Block
	id := w.id[name]
	gid := w.Genesis.ID()
	for id != gid {
		b, ok := w.block[id]
		if !ok {
			panic("ChainOf: unknown block " + name)
		}
		rev = append(rev, b)
		id = b.ParentID
	}
	for i, j := 0, len(rev)-1; i < j; i, j = i+1, j-1 {
		rev[i], rev[j] = rev[j], rev[i]
	}
	return rev
}

// ManagerAt returns a fresh manager holding exactly the chain ending in the named block.
func (w *World) ManagerAt(name string) *chain.Manager {
	cm := w.NewManager()
	if err := addAll(cm, w.ChainOf(name)); err != nil {
		panic(err)
	}
	return cm
}

func addAll(cm *chain.Manager, blocks []types.Block) error {
	for len(blocks) > 0 {
		n := min(len(blocks), 500)
		if err := cm.AddBlocks(blocks[:n]); err != nil {
			return err
		}
		blocks = blocks[n:]
	}
	return nil
}

// StateHash digests a complete consensus state.
func StateHash(cs consensus.State) types.Hash256 {
	h := types.NewHasher()
	cs.EncodeTo(h.E)
	return h.Sum()
}

// TreeJSON renders the world for the trace specification: per block parent, height, class and
// two integer ranks lo/hi such that  a is sufficiently heavier than b  <=>  lo[a] > hi[b]
// (core's State.SufficientlyHeavierThan: TotalWork(a) > TotalWork(b) + Difficulty(b)/5).
func (w *World) TreeJSON() map[string]any {
	w.mu.Lock()
	defer w.mu.Unlock()
	type val struct {
		v    *big.Int
		name string
		hi   bool
	}
	var vals []val
	addVals := func(name string, cs consensus.State) {
		tw, diff := workInt(cs.TotalWork), workInt(cs.Difficulty)
		vals = append(vals, val{tw, name, false})
		hi := new(big.Int).Add(tw, new(big.Int).Div(diff, big.NewInt(5)))
		vals = append(vals, val{hi, name, true})
	}
	for _, id := range w.order {
		addVals(w.name[id], w.state[id])
	}
	for _, v := range w.variants {
		addVals(v.name, v.cs)
	}
	sort.SliceStable(vals, func(i, j int) bool { return vals[i].v.Cmp(vals[j].v) < 0 })
	lo, hi := map[string]int{}, map[string]int{}
	rank := 0
	for i, v := range vals {
		if i > 0 && v.v.Cmp(vals[i-1].v) != 0 {
			rank++
		}
		if v.hi {
			hi[v.name] = rank
		} else {
			lo[v.name] = rank
		}
	}
	par, ht, cls := map[string]string{}, map[string]int{}, map[string]string{}
	// "?" stands for every parent the oracle does not know (orphans hang off it)
	par["?"], ht["?"], cls["?"], lo["?"], hi["?"] = "?", 0, "orphan", 0, 0
	for _, id := range w.order {
		n := w.name[id]
		if n == "g" {
			par[n] = "g"
		} else if pn, ok := w.name[w.parent[id]]; ok {
			par[n] = pn
		} else {
			par[n] = "?"
		}
		ht[n] = int(w.height[id])
		cls[n] = w.class[id]
	}
	idof := map[string]string{}
	for n := range par {
		idof[n] = n
	}
	for _, v := range w.variants {
		par[v.name], ht[v.name], cls[v.name] = v.parent, int(v.height), v.class
		idof[v.name] = v.name[:strings.Index(v.name, "~")]
	}
	return map[string]any{"id": idof, "par": par, "h": ht, "cls": cls, "lo": lo, "hi": hi}
}

func workInt(wk consensus.Work) *big.Int {
	// consensus.Work encodes as 32 big-endian bytes
	var buf bytes.Buffer
	e := types.NewEncoder(&buf)
	wk.EncodeTo(e)
	e.Flush()
	return new(big.Int).SetBytes(buf.Bytes())
}

// Classify registers a block the harness did not mine honestly (crafted by a scripted peer, or
// reconstructed by a victim from a crafted outline) under the given name, with the class the
// ORACLE assigns -- a fresh chain.Manager that holds exactly the parent chain and is offered the
// block through full AddBlocks validation: ok (accepted and applied), hdr (rejected by
// ValidateOrphan: work, timestamp, payouts, v2 height), bad (header-valid, body invalid or built
// on an invalid block).
func (w *World) Classify(name string, b types.Block) string {
	id := b.ID()
	w.mu.Lock()
	if _, ok := w.name[id]; ok {
		c := w.class[id]
		w.mu.Unlock()
		return c
	}
	pname, pok := w.name[b.ParentID]
	pclass := w.class[b.ParentID]
	pcs := w.state[b.ParentID]
	ph := w.height[b.ParentID]
	w.mu.Unlock()
	if !pok {
		w.register(name, b, 0, "orphan", consensus.State{})
		return "orphan"
	}
	if pclass != "ok" {
		// only the header state of the parent exists
		class := "bad"
		if consensus.ValidateOrphan(pcs, b) != nil {
			class = "hdr"
		}
		w.register(name, b, ph+1, class, consensus.ApplyHeader(pcs, b.Header(), time.Time{}))
		return class
	}
	cm := w.ManagerAt(pname)
	if err := cm.AddBlocks([]types.Block{b}); err == nil && cm.Tip().ID == id {
		w.register(name, b, ph+1, "ok", cm.TipState())
		return "ok"
	}
	class := "bad"
	if consensus.ValidateOrphan(pcs, b) != nil {
		class = "hdr"
	}
	w.register(name, b, ph+1, class, consensus.ApplyHeader(pcs, b.Header(), time.Time{}))
	return class
}

func (w *World) classifyUnknown(blocks []types.Block) {
	for i := range blocks {
		if !w.Known(blocks[i].ID()) {
			w.mu.Lock()
			w.xn++
			name := fmt.Sprintf("x%d", w.xn)
			w.mu.Unlock()
			w.Classify(name, blocks[i])
		}
	}
}

// SufficientlyHeavier reports core's reorg criterion between two named blocks.
func (w *World) SufficientlyHeavier(a, b string) bool {
	w.mu.Lock()
	defer w.mu.Unlock()
	return w.state[w.id[a]].SufficientlyHeavierThan(w.state[w.id[b]])
}

func (w *World) HeightOf(name string) uint64 {
	w.mu.Lock()
	defer w.mu.Unlock()
	return w.height[w.id[name]]
}

func (w *World) ClassOf(name string) string {
	w.mu.Lock()
	defer w.mu.Unlock()
	return w.class[w.id[name]]
}

// TotalWorkOf returns the cumulative work of the named block as an integer.
func (w *World) TotalWorkOf(name string) *big.Int {
	w.mu.Lock()
	defer w.mu.Unlock()
	return workInt(w.state[w.id[name]].TotalWork)
}

func (w *World) setCheckpointState(id types.BlockID, cs consensus.State) {
	w.mu.Lock()
	defer w.mu.Unlock()
	if w.cpState == nil {
		w.cpState = map[types.BlockID]consensus.State{}
	}
	w.cpState[id] = cs
}

func (w *World) checkpointState(id types.BlockID) (consensus.State, bool) {
	w.mu.Lock()
	defer w.mu.Unlock()
	cs, ok := w.cpState[id]
	return cs, ok
}

// NameOfBlock names a block by id AND content: a block that carries a known id with different
// content is a variant "<name>~k", classified by the oracle like any crafted block.
func (w *World) NameOfBlock(b types.Block) string {
	id := b.ID()
	ch := contentHash(b)
	w.mu.Lock()
	name, ok := w.name[id]
	same := ok && w.content[id] == ch
	if v, okv := w.variants[ch]; okv {
		w.mu.Unlock()
		return v.name
	}
	pname, pok := w.name[b.ParentID]
	pclass := w.class[b.ParentID]
	pcs := w.state[b.ParentID]
	ph := w.height[b.ParentID]
	nvar := len(w.variants)
	w.mu.Unlock()
	if !ok {
		return "?" + id.String()[:8]
	} else if same {
		return name
	}
	v := &variant{name: fmt.Sprintf("%s~%d", name, nvar+1), parent: "?", class: "orphan"}
	if pok {
		v.parent, v.height = pname, ph+1
		v.cs = consensus.ApplyHeader(pcs, b.Header(), time.Time{})
		v.class = "bad"
		if consensus.ValidateOrphan(pcs, b) != nil {
			v.class = "hdr"
		} else if pclass == "ok" {
			cm := w.ManagerAt(pname)
			if err := cm.AddBlocks([]types.Block{b}); err == nil && cm.Tip().ID == id {
				v.class = "ok"
				v.cs = cm.TipState()
			}
		}
	}
	w.mu.Lock()
	defer w.mu.Unlock()
	if w.variants == nil {
		w.variants = map[types.Hash256]*variant{}
	}
	if old, ok := w.variants[ch]; ok {
		return old.name
	}
	w.variants[ch] = v
	return v.name
}

func (w *World) setCheckpointBlock(id types.BlockID, b types.Block) {
	w.mu.Lock()
	defer w.mu.Unlock()
	if w.cpBlock == nil {
		w.cpBlock = map[types.BlockID]types.Block{}
	}
	w.cpBlock[id] = b
}

func (w *World) checkpointBlock(id types.BlockID) (types.Block, bool) {
	w.mu.Lock()
	defer w.mu.Unlock()
	b, ok := w.cpBlock[id]
	return b, ok
}
