package syncx

import (
	"context"
	"fmt"
	"net"
	"sync"
	"time"

	"go.sia.tech/core/consensus"
	"go.sia.tech/core/gateway"
	"go.sia.tech/core/types"
)

// A View is the chain a scripted peer pretends to hold: a best chain from genesis, possibly
// containing crafted (invalid) blocks that no chain.Manager would accept.
type View struct {
	W      *World
	Blocks []types.Block // heights 1..n
	index  map[types.BlockID]int
}

func NewView(w *World, blocks []types.Block) *View {
	v := &View{W: w, Blocks: blocks, index: map[types.BlockID]int{w.Genesis.ID(): 0}}
	for i := range blocks {
		v.index[blocks[i].ID()] = i + 1
	}
	return v
}

// ViewOf returns the view ending in the named block.
func ViewOf(w *World, tip string) *View { return NewView(w, w.ChainOf(tip)) }

func (v *View) Tip() types.ChainIndex {
	if len(v.Blocks) == 0 {
		return types.ChainIndex{ID: v.W.Genesis.ID()}
	}
	return types.ChainIndex{Height: uint64(len(v.Blocks)), ID: v.Blocks[len(v.Blocks)-1].ID()}
}

// headers after index (which must be on the view), like Manager.Headers
func (v *View) headers(index types.ChainIndex, max uint64) ([]types.BlockHeader, uint64, bool) {
	h, ok := v.index[index.ID]
	if !ok || uint64(h) != index.Height {
		return nil, 0, false
	}
	n := min(max, uint64(len(v.Blocks)-h))
	out := make([]types.BlockHeader, n)
	for i := range out {
		out[i] = v.Blocks[h+i].Header()
	}
	return out, uint64(len(v.Blocks)-h) - n, true
}

// blocks after the first history id on the view (else genesis), like Manager.BlocksForHistory
func (v *View) blocksFor(history []types.BlockID, max uint64) ([]types.Block, uint64) {
	attach := 0
	for _, id := range history {
		if h, ok := v.index[id]; ok {
			attach = h
			break
		}
	}
	n := min(max, uint64(len(v.Blocks)-attach))
	out := append([]types.Block(nil), v.Blocks[attach:attach+int(n)]...)
	return out, uint64(len(v.Blocks)-attach) - n
}

// A Rule corrupts the answer to one kind of RPC.
type Rule struct {
	RPC  string `json:"rpc"`  // SendHeaders | SendV2Blocks | SendCheckpoint | SendTransactions
	Kind string `json:"kind"` // see serve*
	Pos  int    `json:"pos"`  // position inside the answer (header / block index), where applicable
	Nth  int    `json:"nth"`  // apply to the n-th matching request only (1-based); 0: to every one
	From int    `json:"from"` // apply from the n-th matching request on (1-based); 0: not used
}

// Served is one RPC the scripted peer answered.
type Served struct {
	RPC  string `json:"rpc"`
	Kind string `json:"kind"` // corruption applied ("" = honest answer)
	Info string `json:"info"`
	T    int64  `json:"t"`
}

// A ScriptedPeer is a gateway endpoint built on go.sia.tech/core/gateway that serves scripted
// answers -- honest ones from its View, or corrupted ones per its Rules -- and issues scripted relays.
type ScriptedPeer struct {
	Name  string
	W     *World
	IP    string
	View  *View
	Alt   *View // another chain, for "blocks that do not match the headers"
	Rules []Rule
	Pool  []types.V2Transaction // transactions served for outlines it relayed
	Gate  func(rpc string) bool // optional: called before answering; false = drop the stream
	// Custom (Leg R) sees every SendHeaders / SendV2Blocks / SendCheckpoint request first; true = handled
	Custom func(rpc string, req gateway.Object, s *gateway.Stream) bool
	// HangupOn: hang up (close the connection) right after delivering an answer / relay of this kind --
	// before the victim has reached its verdict
	HangupOn func(kind string) bool
	hung     bool
	armed    bool
	held     []*gateway.Stream // half-open streams of a flood

	mu      sync.Mutex
	t       *gateway.Transport
	l       net.Listener
	uid     gateway.UniqueID
	served  []Served
	counts  map[string]int
	start   time.Time
	closed  bool
	stallCh chan struct{}
	conns   []net.Conn
}

func NewScriptedPeer(w *World, name, ip string, view *View, start time.Time) *ScriptedPeer {
	return &ScriptedPeer{Name: name, W: w, IP: ip, View: view, counts: map[string]int{}, start: start,
		uid: gateway.GenerateUniqueID(), stallCh: make(chan struct{})}
}

func (z *ScriptedPeer) header(addr string) gateway.Header {
	return gateway.Header{GenesisID: z.W.Genesis.ID(), UniqueID: z.uid, NetAddress: addr}
}

// Listen makes the peer dialable; the victim connects with Syncer.Connect.
func (z *ScriptedPeer) Listen() (string, error) {
	l, err := net.Listen("tcp", z.IP+":0")
	if err != nil {
		return "", err
	}
	z.l = l
	go func() {
		for {
			conn, err := l.Accept()
			if err != nil {
				return
			}
			go func() {
				conn.SetDeadline(time.Now().Add(5 * time.Second))
				t, err := gateway.Accept(conn, z.header(l.Addr().String()))
				if err != nil {
					conn.Close()
					return
				}
				conn.SetDeadline(time.Time{})
				z.attach(t, conn)
			}()
		}
	}()
	return l.Addr().String(), nil
}

// DialTo connects to the victim (the scripted peer is the outbound side).
func (z *ScriptedPeer) DialTo(addr string) error {
	d := net.Dialer{LocalAddr: &net.TCPAddr{IP: net.ParseIP(z.IP)}, Timeout: 5 * time.Second}
	conn, err := d.DialContext(context.Background(), "tcp", addr)
	if err != nil {
		return err
	}
	conn.SetDeadline(time.Now().Add(5 * time.Second))
	t, err := gateway.Dial(conn, z.header(z.IP+":9981"))
	if err != nil {
		conn.Close()
		return err
	}
	conn.SetDeadline(time.Time{})
	z.attach(t, conn)
	return nil
}

func (z *ScriptedPeer) attach(t *gateway.Transport, conn net.Conn) {
	z.mu.Lock()
	z.t = t
	z.hung = false
	z.conns = append(z.conns, conn)
	z.mu.Unlock()
	go z.serve(t)
}

// WaitConnected waits until the handshake has completed on the scripted peer's side.
func (z *ScriptedPeer) WaitConnected(max time.Duration) bool {
	end := time.Now().Add(max)
	for time.Now().Before(end) {
		if z.Connected() {
			return true
		}
		time.Sleep(5 * time.Millisecond)
	}
	return false
}

// Connected reports whether the transport to the victim is still up (the last accept loop runs).
func (z *ScriptedPeer) Connected() bool {
	z.mu.Lock()
	defer z.mu.Unlock()
	return z.t != nil
}

func (z *ScriptedPeer) Close() {
	z.mu.Lock()
	if !z.closed {
		z.closed = true
		close(z.stallCh)
	}
	t, l := z.t, z.l
	conns := z.conns
	z.mu.Unlock()
	if l != nil {
		l.Close()
	}
	if t != nil {
		t.Close()
	}
	for _, c := range conns {
		c.Close()
	}
}

func (z *ScriptedPeer) isClosed() bool {
	z.mu.Lock()
	defer z.mu.Unlock()
	return z.closed
}

func (z *ScriptedPeer) Served() []Served {
	z.mu.Lock()
	defer z.mu.Unlock()
	return append([]Served(nil), z.served...)
}

// Fired counts the corrupted answers / relays actually delivered.
func (z *ScriptedPeer) Fired(kind string) int {
	z.mu.Lock()
	defer z.mu.Unlock()
	n := 0
	for _, s := range z.served {
		if s.Kind != "" && (kind == "" || s.Kind == kind) {
			n++
		}
	}
	return n
}

func (z *ScriptedPeer) note(rpc, kind, info string) {
	z.mu.Lock()
	z.served = append(z.served, Served{rpc, kind, info, time.Since(z.start).Milliseconds()})
	arm := kind != "" && z.HangupOn != nil && z.HangupOn(kind) && !z.hung && !z.armed
	if arm {
		z.armed = true
	}
	z.mu.Unlock()
	if arm {
		// the victim must first RECEIVE the data: the scenario hangs up from the victim's verdict gate
		// (HangupIfArmed); where no ChainManager call precedes the verdict this timer does it
		go func() {
			time.Sleep(300 * time.Millisecond)
			z.HangupIfArmed()
		}()
	}
}

// HangupIfArmed hangs up if a marked answer / relay has been delivered and the peer is still connected.
func (z *ScriptedPeer) HangupIfArmed() bool {
	z.mu.Lock()
	do := z.armed && !z.hung
	z.armed = false
	z.mu.Unlock()
	if do {
		z.hangup()
	}
	return do
}

// hangup closes the connection to the victim (the listener stays: the peer may come back).
func (z *ScriptedPeer) hangup() {
	z.mu.Lock()
	z.hung = true
	t := z.t
	conns := z.conns
	z.conns = nil
	z.served = append(z.served, Served{"hangup", "", "connection closed by the scripted peer", time.Since(z.start).Milliseconds()})
	z.mu.Unlock()
	if t != nil {
		t.Close()
	}
	for _, c := range conns {
		c.Close()
	}
}

// Hung reports whether the peer has hung up on the victim.
func (z *ScriptedPeer) Hung() bool {
	z.mu.Lock()
	defer z.mu.Unlock()
	return z.hung
}

// rule returns the corruption for this request, if any.
func (z *ScriptedPeer) rule(rpc string) *Rule {
	z.mu.Lock()
	defer z.mu.Unlock()
	z.counts[rpc]++
	n := z.counts[rpc]
	for i := range z.Rules {
		r := &z.Rules[i]
		if r.RPC != rpc {
			continue
		}
		if (r.Nth == 0 && r.From == 0) || r.Nth == n || (r.From > 0 && n >= r.From) {
			return r
		}
	}
	return nil
}

func (z *ScriptedPeer) serve(t *gateway.Transport) {
	defer func() {
		z.mu.Lock()
		if z.t == t {
			z.t = nil
		}
		z.mu.Unlock()
	}()
	for {
		s, err := t.AcceptStream()
		if err != nil {
			return
		}
		go func() {
			defer s.Close()
			defer func() {
				if r := recover(); r != nil {
					z.note("panic", "", fmt.Sprint(r))
				}
			}()
			s.SetDeadline(time.Now().Add(120 * time.Second))
			id, err := s.ReadID()
			if err != nil {
				return
			}
			z.handle(id, s)
		}()
	}
}

// malformed answers: a response of the wrong type (the only way to put arbitrary bytes on a
// gateway.Stream through the package's public API)
func garbage(s *gateway.Stream, variant int) {
	switch variant % 3 {
	case 0:
		// a length prefix of 2^40 followed by junk
		s.WriteResponse(&gateway.RPCShareNodes{Peers: []string{string(make([]byte, 300)), "\xff\xff\xff\xff\xff\xff"}})
	case 1:
		b := make([]byte, 97)
		for i := range b {
			b[i] = byte(0xA5 ^ i)
		}
		s.WriteResponse(&gateway.RPCDiscoverIP{IP: string(b)})
	default:
		// zero-length frame pieces
		s.WriteResponse(&gateway.RPCDiscoverIP{IP: ""})
	}
}

func (z *ScriptedPeer) stall() {
	<-z.stallCh
}

func (z *ScriptedPeer) handle(id types.Specifier, s *gateway.Stream) {
	switch r := gateway.ObjectForID(id).(type) {
	case *gateway.RPCShareNodes:
		s.WriteResponse(r)
	case *gateway.RPCDiscoverIP:
		r.IP = "127.0.0.1"
		s.WriteResponse(r)
	case *gateway.RPCSendHeaders:
		if s.ReadRequest(r) != nil {
			return
		}
		if z.Custom != nil && z.Custom("SendHeaders", r, s) {
			return
		}
		z.serveHeaders(r, s)
	case *gateway.RPCSendV2Blocks:
		if s.ReadRequest(r) != nil {
			return
		}
		if z.Custom != nil && z.Custom("SendV2Blocks", r, s) {
			return
		}
		z.serveBlocks(r, s)
	case *gateway.RPCSendCheckpoint:
		if s.ReadRequest(r) != nil {
			return
		}
		if z.Custom != nil && z.Custom("SendCheckpoint", r, s) {
			return
		}
		z.serveCheckpoint(r, s)
	case *gateway.RPCSendTransactions:
		if s.ReadRequest(r) != nil {
			return
		}
		z.serveTransactions(r, s)
	case *gateway.RPCRelayV2Header:
		s.ReadRequest(r)
	case *gateway.RPCRelayV2BlockOutline:
		s.ReadRequest(r)
	case *gateway.RPCRelayV2TransactionSet:
		s.ReadRequest(r)
	}
}

func (z *ScriptedPeer) serveHeaders(r *gateway.RPCSendHeaders, s *gateway.Stream) {
	if z.Gate != nil && !z.Gate("SendHeaders") {
		return
	}
	hs, rem, ok := z.View.headers(r.Index, min(r.Max, 10000))
	if !ok {
		// like an honest node: "index is not on our best chain" -> the stream is closed
		return
	}
	rule := z.rule("SendHeaders")
	if rule == nil {
		r.Headers, r.Remaining = hs, rem
		s.WriteResponse(r)
		kind := ""
		for i := range hs {
			// headers of the peer's own crafted fork
			n := z.W.Name(hs[i].ID())
			if c := z.W.ClassOf(n); c == "hdr" || c == "bad" {
				kind = "hdr-crafted-" + c
				break
			} else if len(n) > 0 && n[0] == 'z' {
				kind = "hdr-ownfork"
			}
		}
		z.note("SendHeaders", kind, fmt.Sprintf("%d headers from %s", len(hs), z.W.Name(r.Index.ID)))
		return
	}
	pos := rule.Pos
	if pos >= len(hs) {
		pos = len(hs) - 1
	}
	kind := "hdr-" + rule.Kind
	switch rule.Kind {
	case "malformed":
		garbage(s, rule.Pos)
	case "close":
	case "stall":
		z.note("SendHeaders", kind, "")
		z.stall()
		return
	case "empty":
		r.Headers, r.Remaining = nil, 0
		s.WriteResponse(r)
	case "remaining-lie":
		r.Headers, r.Remaining = hs, rem+7
		s.WriteResponse(r)
	case "toomany":
		for len(hs) > 0 && uint64(len(hs)) <= r.Max+8 {
			hs = append(hs, hs...)
		}
		r.Headers = hs
		s.WriteResponse(r)
	case "lowwork":
		if len(hs) == 0 {
			kind = ""
		} else if cs, ok := z.W.StateOf(hs[pos].ParentID); ok {
			if h, found := lowWorkHeader(cs, hs[pos]); found {
				hs[pos] = h
			} else {
				kind = "" // the target is maximal at this height: insufficient work is impossible
			}
		}
		r.Headers, r.Remaining = hs, rem
		s.WriteResponse(r)
	case "unlinked":
		if len(hs) > 0 {
			hs[pos].ParentID[7] ^= 0x55
		} else {
			kind = ""
		}
		r.Headers, r.Remaining = hs, rem
		s.WriteResponse(r)
	case "badtime":
		if len(hs) > 0 {
			hs[pos].Timestamp = z.W.Genesis.Timestamp.Add(-time.Hour)
		} else {
			kind = ""
		}
		r.Headers, r.Remaining = hs, rem
		s.WriteResponse(r)
	default:
		panic("unknown SendHeaders corruption " + rule.Kind)
	}
	z.note("SendHeaders", kind, fmt.Sprintf("%d headers from %s pos %d", len(hs), z.W.Name(r.Index.ID), pos))
}

// lowWorkHeader returns bh with a nonce whose id misses the PoW target of cs's child.
func lowWorkHeader(cs consensus.State, bh types.BlockHeader) (types.BlockHeader, bool) {
	factor := cs.NonceFactor()
	target := cs.PoWTarget()
	for i := uint64(1); i < 200000; i++ {
		bh.Nonce = i * factor
		if bh.ID().CmpWork(target) < 0 {
			return bh, true
		}
	}
	return bh, false
}

func (z *ScriptedPeer) serveBlocks(r *gateway.RPCSendV2Blocks, s *gateway.Stream) {
	if z.Gate != nil && !z.Gate("SendV2Blocks") {
		return
	}
	max := min(r.Max, 100)
	bs, rem := z.View.blocksFor(r.History, max)
	rule := z.rule("SendV2Blocks")
	info := fmt.Sprintf("%d blocks", len(bs))
	if len(r.History) > 0 {
		info += " after " + z.W.Name(r.History[0])
	}
	if rule == nil {
		r.Blocks, r.Remaining = bs, rem
		s.WriteResponse(r)
		kind := ""
		for i := range bs {
			// a crafted block of the peer's own fork is part of the answer
			if c := z.W.ClassOf(z.W.Name(bs[i].ID())); c != "ok" && c != "" {
				kind = "blk-crafted-" + c
				info += fmt.Sprintf(" (%s at position %d)", c, i)
				break
			}
		}
		z.note("SendV2Blocks", kind, info)
		return
	}
	pos := rule.Pos
	if pos >= len(bs) {
		pos = len(bs) - 1
	}
	kind := "blk-" + rule.Kind
	switch rule.Kind {
	case "malformed":
		garbage(s, rule.Pos)
	case "close":
	case "stall":
		z.note("SendV2Blocks", kind, info)
		z.stall()
		return
	case "mismatch":
		// the same number of (valid) blocks of another chain
		if z.Alt != nil {
			alt, _ := z.Alt.blocksFor(r.History, max)
			if len(alt) >= len(bs) {
				alt = alt[:len(bs)]
			}
			bs = alt
		} else if len(bs) > 1 {
			bs[0], bs[len(bs)-1] = bs[len(bs)-1], bs[0]
		} else {
			kind = ""
		}
		r.Blocks, r.Remaining = bs, rem
		s.WriteResponse(r)
	case "reorder":
		if len(bs) > 1 && pos > 0 {
			bs[pos-1], bs[pos] = bs[pos], bs[pos-1]
		} else {
			kind = ""
		}
		r.Blocks, r.Remaining = bs, rem
		s.WriteResponse(r)
	case "short":
		if len(bs) > 0 {
			bs = bs[:len(bs)-1]
		}
		r.Blocks, r.Remaining = bs, rem+1
		s.WriteResponse(r)
	case "long":
		if len(bs) > 0 {
			bs = append(bs, bs[len(bs)-1])
		}
		r.Blocks, r.Remaining = bs, rem
		s.WriteResponse(r)
	case "zero":
		r.Blocks, r.Remaining = nil, rem+uint64(len(bs))
		s.WriteResponse(r)
	case "twin-address", "twin-txns":
		// an ID TWIN: the honest header (same block id -- a v2 id covers only the header) with
		// another body.  Header-valid (ValidateOrphan passes: work, height, payout sum), so AddBlocks
		// stores it; the commitment mismatch only shows when a reorg applies the block.
		if len(bs) > 0 && bs[pos].V2 != nil {
			b := bs[pos]
			if rule.Kind == "twin-address" {
				b.MinerPayouts = []types.SiacoinOutput{{Address: types.Address{0x7e, 0x57}, Value: b.MinerPayouts[0].Value}}
			} else {
				v2 := *b.V2
				v2.Transactions = []types.V2Transaction{{ArbitraryData: []byte("body swapped by the peer")}}
				b.V2 = &v2
			}
			bs[pos] = b
		} else {
			kind = ""
		}
		r.Blocks, r.Remaining = bs, rem
		s.WriteResponse(r)
	case "payout":
		// same id (a v2 id does not cover the payout value), wrong miner payout: rejected at submission
		if len(bs) > 0 && bs[pos].V2 != nil {
			b := bs[pos]
			b.MinerPayouts = append([]types.SiacoinOutput(nil), b.MinerPayouts...)
			b.MinerPayouts[0].Value = b.MinerPayouts[0].Value.Add(types.Siacoins(1))
			bs[pos] = b
		} else {
			kind = ""
		}
		r.Blocks, r.Remaining = bs, rem
		s.WriteResponse(r)
	default:
		panic("unknown SendV2Blocks corruption " + rule.Kind)
	}
	z.note("SendV2Blocks", kind, info)
}

func (z *ScriptedPeer) serveCheckpoint(r *gateway.RPCSendCheckpoint, s *gateway.Stream) {
	if z.Gate != nil && !z.Gate("SendCheckpoint") {
		return
	}
	h, ok := z.View.index[r.Index.ID]
	if !ok || h == 0 {
		return
	}
	b := z.View.Blocks[h-1]
	cs, ok := z.W.StateOf(b.ParentID)
	if !ok || b.V2 == nil {
		return
	}
	if alt, ok := z.W.checkpointBlock(b.ID()); ok {
		// a crafted fork that is consistent with an ALTERED copy of the base block (same id)
		b = alt
		z.note("SendCheckpoint", "cp-altered-block", "checkpoint "+z.W.Name(r.Index.ID))
	}
	if bogus, ok := z.W.checkpointState(b.ID()); ok {
		// the crafted block commits to this (bogus) state: the pair passes the id + commitment binding
		cs = bogus
		z.note("SendCheckpoint", "cp-bogus-binding", "checkpoint "+z.W.Name(r.Index.ID))
	}
	rule := z.rule("SendCheckpoint")
	info := "checkpoint " + z.W.Name(r.Index.ID)
	if rule == nil {
		r.Block, r.State = b, cs
		s.WriteResponse(r)
		z.note("SendCheckpoint", "", info)
		return
	}
	kind := "cp-" + rule.Kind
	switch rule.Kind {
	case "malformed":
		garbage(s, rule.Pos)
	case "close":
	case "stall":
		z.note("SendCheckpoint", kind, info)
		z.stall()
		return
	case "state-revenue":
		cs.SiafundTaxRevenue = cs.SiafundTaxRevenue.Add(types.Siacoins(1000))
		r.Block, r.State = b, cs
		s.WriteResponse(r)
	case "state-attestations":
		cs.Attestations += 3
		r.Block, r.State = b, cs
		s.WriteResponse(r)
	case "state-elements":
		cs.Elements.NumLeaves++
		r.Block, r.State = b, cs
		s.WriteResponse(r)
	case "state-work":
		// a state claiming more work, otherwise consistent
		cs.Difficulty = cs.TotalWork
		r.Block, r.State = b, cs
		s.WriteResponse(r)
	case "wrong-block":
		// another v2 block together with ITS true parent state: a consistent pair for the wrong index
		if h >= 2 && z.View.Blocks[h-2].V2 != nil {
			b2 := z.View.Blocks[h-2]
			cs2, _ := z.W.StateOf(b2.ParentID)
			r.Block, r.State = b2, cs2
		} else {
			kind = ""
			r.Block, r.State = b, cs
		}
		s.WriteResponse(r)
	case "payouts-empty":
		// header and transactions intact (the id still matches), MinerPayouts emptied
		b.MinerPayouts = nil
		r.Block, r.State = b, cs
		s.WriteResponse(r)
	case "payout-value":
		// one payout, as required, but an inflated value: neither the v2 id nor the commitment
		// (which binds the miner ADDRESS) covers it
		b.MinerPayouts = []types.SiacoinOutput{{Address: b.MinerPayouts[0].Address, Value: b.MinerPayouts[0].Value.Add(types.Siacoins(1000000))}}
		r.Block, r.State = b, cs
		s.WriteResponse(r)
	case "payout-address":
		b.MinerPayouts = []types.SiacoinOutput{{Address: types.Address{0xbd}, Value: b.MinerPayouts[0].Value}}
		r.Block, r.State = b, cs
		s.WriteResponse(r)
	case "two-payouts", "payouts-extra":
		// the genuine payout first (id and commitment checks still pass), a made-up one appended
		b.MinerPayouts = append(append([]types.SiacoinOutput(nil), b.MinerPayouts...), types.SiacoinOutput{Address: types.Address{0xee}, Value: types.Siacoins(1000000)})
		r.Block, r.State = b, cs
		s.WriteResponse(r)
	case "body":
		// the right header, another body: commitment no longer matches
		b.V2 = &types.V2BlockData{Height: b.V2.Height, Commitment: b.V2.Commitment, Transactions: []types.V2Transaction{{ArbitraryData: []byte("swapped body")}}}
		r.Block, r.State = b, cs
		s.WriteResponse(r)
	default:
		panic("unknown SendCheckpoint corruption " + rule.Kind)
	}
	z.note("SendCheckpoint", kind, info)
}

func (z *ScriptedPeer) serveTransactions(r *gateway.RPCSendTransactions, s *gateway.Stream) {
	rule := z.rule("SendTransactions")
	want := map[types.Hash256]bool{}
	for _, h := range r.Hashes {
		want[h] = true
	}
	var honest []types.V2Transaction
	for _, txn := range z.Pool {
		if want[txn.MerkleLeafHash()] {
			honest = append(honest, txn)
		}
	}
	if rule == nil {
		r.V2Transactions = honest
		s.WriteResponse(r)
		z.note("SendTransactions", "", fmt.Sprintf("%d of %d", len(honest), len(r.Hashes)))
		return
	}
	kind := "txn-" + rule.Kind
	switch rule.Kind {
	case "wrong":
		r.V2Transactions = []types.V2Transaction{{ArbitraryData: []byte("not what you asked for")}}
		s.WriteResponse(r)
	case "none":
		s.WriteResponse(r)
	case "close":
	case "malformed":
		garbage(s, rule.Pos)
	case "stall":
		z.note("SendTransactions", kind, "")
		z.stall()
		return
	default:
		panic("unknown SendTransactions corruption " + rule.Kind)
	}
	z.note("SendTransactions", kind, fmt.Sprintf("%d hashes", len(r.Hashes)))
}

// call performs one RPC towards the victim.
func (z *ScriptedPeer) call(r gateway.Object, timeout time.Duration) error {
	z.mu.Lock()
	t := z.t
	z.mu.Unlock()
	if t == nil {
		return fmt.Errorf("not connected")
	}
	s, err := t.DialStream()
	if err != nil {
		return err
	}
	defer s.Close()
	s.SetDeadline(time.Now().Add(timeout))
	if err := s.WriteID(r); err != nil {
		return err
	} else if err := s.WriteRequest(r); err != nil {
		return err
	}
	return s.ReadResponse(r)
}

// callRaw sends the id of one RPC followed by the request of another: a malformed frame.
func (z *ScriptedPeer) callRaw(id, body gateway.Object, timeout time.Duration) error {
	z.mu.Lock()
	t := z.t
	z.mu.Unlock()
	if t == nil {
		return fmt.Errorf("not connected")
	}
	s, err := t.DialStream()
	if err != nil {
		return err
	}
	defer s.Close()
	s.SetDeadline(time.Now().Add(timeout))
	if err := s.WriteID(id); err != nil {
		return err
	}
	return s.WriteRequest(body)
}

func (z *ScriptedPeer) RelayHeader(bh types.BlockHeader, kind string) error {
	err := z.call(&gateway.RPCRelayV2Header{Header: bh}, 3*time.Second)
	if err == nil {
		z.note("RelayV2Header", kind, z.W.Name(bh.ID()))
	}
	return err
}

func (z *ScriptedPeer) RelayOutline(o gateway.V2BlockOutline, kind string) error {
	err := z.call(&gateway.RPCRelayV2BlockOutline{Block: o}, 3*time.Second)
	if err == nil {
		z.note("RelayV2BlockOutline", kind, fmt.Sprintf("height %d", o.Height))
	}
	return err
}

func (z *ScriptedPeer) RelayTxSet(index types.ChainIndex, txns []types.V2Transaction, kind string) error {
	err := z.call(&gateway.RPCRelayV2TransactionSet{Index: index, Transactions: txns}, 3*time.Second)
	if err == nil {
		z.note("RelayV2TransactionSet", kind, fmt.Sprintf("%d txns", len(txns)))
	}
	return err
}

// Flood exhausts the victim's per-subnet in-flight RPC budget: halfOpen streams carry an RPC id and
// never the request (the victim's handlers stay in flight, waiting), then `extra` complete RPCs are
// sent while the budget is full (the victim drops them).  The streams are kept until the peer closes.
func (z *ScriptedPeer) Flood(halfOpen, extra int) error {
	z.mu.Lock()
	t := z.t
	z.mu.Unlock()
	if t == nil {
		return fmt.Errorf("not connected")
	}
	for i := 0; i < halfOpen; i++ {
		s, err := t.DialStream()
		if err != nil {
			return err
		}
		s.SetDeadline(time.Now().Add(30 * time.Second))
		if err := s.WriteID(&gateway.RPCSendHeaders{}); err != nil {
			return err
		}
		z.mu.Lock()
		z.held = append(z.held, s)
		z.mu.Unlock()
	}
	z.note("flood", "flood-halfopen", fmt.Sprintf("%d RPC ids without a request", halfOpen))
	time.Sleep(150 * time.Millisecond) // let the victim start the handlers
	for i := 0; i < extra; i++ {
		s, err := t.DialStream()
		if err != nil {
			return err
		}
		s.SetDeadline(time.Now().Add(2 * time.Second))
		r := &gateway.RPCSendHeaders{Index: types.ChainIndex{ID: z.W.Genesis.ID()}, Max: 10}
		if err := s.WriteID(r); err == nil {
			if err := s.WriteRequest(r); err == nil {
				s.ReadResponse(r) // dropped by the victim while the subnet is over budget
			}
		}
		s.Close()
	}
	z.note("flood", "flood-overbudget", fmt.Sprintf("%d RPCs while the budget is full", extra))
	return nil
}
