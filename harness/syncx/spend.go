package syncx

import (
	"fmt"
	"time"

	"go.sia.tech/core/consensus"
	"go.sia.tech/core/types"
	"go.sia.tech/coreutils"
	"go.sia.tech/coreutils/chain"
)

// SpendSpec: two competing forks that both SPEND THE SAME pre-fork output (the miner payout of
// block 1, paid to a key the harness holds): fork "a" at height SpendA, fork "b" at height SpendB.
// Below the v2 require height the spending block is a v1 block with a v1 transaction, from the
// require height on a v2 block with a v2 transaction.  A node that reorgs from one fork to the
// other must revert the spend exactly -- across the allow / require boundaries of the store's
// v1 element bookkeeping.
type SpendSpec struct {
	ForkAt int `json:"forkAt"` // height of the fork point (the trunk has ForkAt blocks)
	LenA   int `json:"lenA"`   // blocks of fork a above the fork point
	LenB   int `json:"lenB"`   // blocks of fork b above the fork point
	SpendA int `json:"spendA"` // height of the spending block on fork a (0: no spend)
	SpendB int `json:"spendB"` // height of the spending block on fork b (0: no spend)
}

// elementAt returns the siacoin element `id` with a proof valid at cm's tip.
func elementAt(cm *chain.Manager, id types.SiacoinOutputID) (types.SiacoinElement, error) {
	_, applied, err := cm.UpdatesSince(types.ChainIndex{}, 100000)
	if err != nil {
		return types.SiacoinElement{}, err
	}
	var el types.SiacoinElement
	found := false
	for _, cau := range applied {
		if found {
			cau.UpdateElementProof(&el.StateElement)
		}
		for _, d := range cau.SiacoinElementDiffs() {
			if d.SiacoinElement.ID == id {
				if d.Spent {
					return types.SiacoinElement{}, fmt.Errorf("element %v already spent", id)
				}
				el = d.SiacoinElement.Copy()
				found = true
			}
		}
	}
	if !found {
		return el, fmt.Errorf("element %v not found", id)
	}
	return el, nil
}

// mineSpend mines one block on cm's tip that spends output `id` (value val, owned by priv):
// a v1 block with a v1 transaction if v1, else a v2 block with a v2 transaction.
func mineSpend(cm *chain.Manager, addr types.Address, priv types.PrivateKey, id types.SiacoinOutputID, val types.Currency, v1 bool, salt []byte) (types.Block, error) {
	cs := cm.TipState()
	uc := types.StandardUnlockConditions(priv.PublicKey())
	dest := types.Address{0x5e, 0x9d}
	b := types.Block{
		ParentID:     cs.Index.ID,
		Timestamp:    cs.PrevTimestamps[0].Add(time.Second),
		MinerPayouts: []types.SiacoinOutput{{Value: cs.BlockReward(), Address: addr}},
	}
	h := cs.Index.Height + 1
	if v1 {
		if h >= cs.Network.HardforkV2.RequireHeight {
			return b, fmt.Errorf("no v1 block at height %d", h)
		}
		txn := types.Transaction{
			SiacoinInputs:  []types.SiacoinInput{{ParentID: id, UnlockConditions: uc}},
			SiacoinOutputs: []types.SiacoinOutput{{Value: val, Address: dest}},
			ArbitraryData:  [][]byte{salt},
			Signatures:     []types.TransactionSignature{{ParentID: types.Hash256(id), CoveredFields: types.CoveredFields{WholeTransaction: true}}},
		}
		sig := priv.SignHash(cs.WholeSigHash(txn, types.Hash256(id), 0, 0, nil))
		txn.Signatures[0].Signature = sig[:]
		b.Transactions = []types.Transaction{txn}
	} else {
		el, err := elementAt(cm, id)
		if err != nil {
			return b, err
		}
		txn := types.V2Transaction{
			SiacoinInputs:  []types.V2SiacoinInput{{Parent: el, SatisfiedPolicy: types.SatisfiedPolicy{Policy: types.SpendPolicy{Type: types.PolicyTypeUnlockConditions(uc)}}}},
			SiacoinOutputs: []types.SiacoinOutput{{Value: val, Address: dest}},
			ArbitraryData:  salt,
		}
		txn.SiacoinInputs[0].SatisfiedPolicy.Signatures = []types.Signature{priv.SignHash(cs.InputSigHash(txn))}
		b.V2 = &types.V2BlockData{Height: h, Transactions: []types.V2Transaction{txn}}
		b.V2.Commitment = cs.Commitment(addr, b.Transactions, b.V2Transactions())
	}
	if !coreutils.FindBlockNonce(cs, &b, 10*time.Second) {
		return b, fmt.Errorf("no nonce")
	}
	return b, nil
}

// buildSpendTree mines the trunk (paying the harness key) and the two forks with their spends.
func buildSpendTree(w *World, sp SpendSpec) (map[string]*chain.Manager, error) {
	priv := types.NewPrivateKeyFromSeed(make([]byte, 32))
	keyAddr := types.StandardUnlockHash(priv.PublicKey())
	mgr := map[string]*chain.Manager{}
	// block 1 pays the key; the rest of the trunk is ordinary
	mt := w.NewManager()
	cs := mt.TipState()
	b1 := mineOnV(cs, keyAddr, []byte("spend-src-"+w.Seed), cs.PrevTimestamps[0].Add(time.Second), w.v1At(w.V1Window, 1))
	if err := mt.AddBlocks([]types.Block{b1}); err != nil {
		return nil, err
	}
	w.register("t1", b1, 1, "ok", mt.TipState())
	src := b1.ID().MinerOutputID(0)
	val := cs.BlockReward()
	if sp.ForkAt < 1+int(w.Net.MaturityDelay)+1 {
		return nil, fmt.Errorf("fork point below the maturity of the spent output")
	}
	w.Extend(mt, "t", sp.ForkAt-1)
	mgr["t"] = mt
	base := fmt.Sprintf("t%d", sp.ForkAt)
	for _, br := range []struct {
		name       string
		n, spendAt int
	}{{"a", sp.LenA, sp.SpendA}, {"b", sp.LenB, sp.SpendB}} {
		cm := w.ManagerAt(base)
		for cm.Tip().Height < uint64(sp.ForkAt+br.n) {
			h := cm.Tip().Height + 1
			if int(h) == br.spendAt {
				v1 := h < w.Net.HardforkV2.AllowHeight || (h < w.Net.HardforkV2.RequireHeight && w.v1At(w.V1Window, h))
				b, err := mineSpend(cm, w.minerAddr("spend-"+br.name), priv, src, val, v1, []byte(fmt.Sprintf("spend-%s-%d-%s", br.name, h, w.Seed)))
				if err != nil {
					return nil, fmt.Errorf("spend on %s at %d: %w", br.name, h, err)
				}
				if err := cm.AddBlocks([]types.Block{b}); err != nil || cm.Tip().ID != b.ID() {
					return nil, fmt.Errorf("spending block on %s at %d rejected: %v", br.name, h, err)
				}
				w.register(fmt.Sprintf("%s%d", br.name, h), b, h, "ok", cm.TipState())
			} else {
				w.Extend(cm, br.name, 1)
			}
		}
		mgr[br.name] = cm
	}
	return mgr, nil
}

var _ = consensus.State{}
