package syncx

import (
	"context"
	"fmt"
	"net"
	"strings"
	"sync"
	"sync/atomic"
	"time"

	"go.sia.tech/core/consensus"
	"go.sia.tech/core/gateway"
	"go.sia.tech/core/types"
	"go.sia.tech/coreutils/chain"
	"go.sia.tech/coreutils/syncer"
	"go.uber.org/zap"
	"go.uber.org/zap/zapcore"
)

// An Event is one recorded call of a node's syncer on its ChainManager / PeerStore (one spec
// action of SyncTrace.tla), or an observation made by the driver.
type Event struct {
	Op   string   `json:"op"`
	Node string   `json:"node,omitempty"`
	Seq  int      `json:"seq"`
	Bs   []string `json:"bs"`            // AddBlocks / AddValidated: abstract block names, in call order
	Err  bool     `json:"err"`           // the call returned an error
	Tip  string   `json:"tip,omitempty"` // Manager.Tip right after the call (under the recorder's lock)
	Sok  bool     `json:"sok"`           // AddValidated: every supplied state equals the oracle's true state
	N    int      `json:"n"`             // AddV2Pool: number of transactions
	Inflight int  `json:"inflight"`      // Idle: sum of the per-subnet in-flight RPC counters while no handler is running
	Bk   bool     `json:"bk"`            // AddV2Pool: basis block is known to the manager
	Who  string   `json:"who,omitempty"` // Ban: role of the banned address (honest:<name> | byz:<name> | subnet | unknown)
	Why  string   `json:"why,omitempty"` // error text / ban reason (not interpreted by the spec)
	Kind string   `json:"kind"`          // Ban: abbreviated reason (banKind)
	T    int64    `json:"t"`             // ms since scenario start (not interpreted by the spec)

	// Tree / Node events
	Tree  map[string]any `json:"tree,omitempty"`
	Req   int            `json:"req"`
	Known []string       `json:"known"`
	Base  string         `json:"base,omitempty"`
}

// Recorder collects the events of one node in the order the component performed them.
type Recorder struct {
	mu     sync.Mutex
	node   string
	w      *World
	start  time.Time
	seq    int
	events []Event
	roles  func(addr string) string
}

func (r *Recorder) emit(ev Event) {
	r.seq++
	ev.Seq = r.seq
	ev.Node = r.node
	ev.T = time.Since(r.start).Milliseconds()
	if ev.Bs == nil {
		ev.Bs = []string{}
	}
	if ev.Known == nil {
		ev.Known = []string{}
	}
	r.events = append(r.events, ev)
}

func (r *Recorder) Events() []Event {
	r.mu.Lock()
	defer r.mu.Unlock()
	return append([]Event(nil), r.events...)
}

// recCM wraps the real chain.Manager: every mutating call the syncer makes is recorded together
// with the manager's tip right after it.
type recCM struct {
	*chain.Manager
	rec *Recorder
	// gate, if set, is called before every AddBlocks / AddValidatedV2Blocks: it lets a scenario hold
	// the verdict back until the victim has noticed that the serving peer hung up
	gate func()
}

var _ syncer.ChainManager = (*recCM)(nil)

func errText(err error) string {
	if err == nil {
		return ""
	}
	s := err.Error()
	if len(s) > 160 {
		s = s[:160]
	}
	return s
}

func (c *recCM) names(blocks []types.Block) []string {
	out := make([]string, len(blocks))
	for i := range blocks {
		out[i] = c.rec.w.NameOfBlock(blocks[i])
	}
	return out
}

func (c *recCM) AddBlocks(blocks []types.Block) error {
	if c.gate != nil {
		c.gate()
	}
	c.rec.mu.Lock()
	defer c.rec.mu.Unlock()
	// blocks the harness never built (mutated by a scripted peer) are registered with their
	// oracle class so that the trace specification can judge the call
	c.rec.w.classifyUnknown(blocks)
	err := c.Manager.AddBlocks(blocks)
	c.rec.emit(Event{Op: "AddBlocks", Bs: c.names(blocks), Err: err != nil, Tip: c.rec.w.Name(c.Manager.Tip().ID), Why: errText(err)})
	return err
}

func (c *recCM) AddValidatedV2Blocks(blocks []types.Block, states []consensus.State) error {
	if c.gate != nil {
		c.gate()
	}
	c.rec.mu.Lock()
	defer c.rec.mu.Unlock()
	c.rec.w.classifyUnknown(blocks)
	sok := len(states) == len(blocks)
	for i := range blocks {
		if !sok {
			break
		}
		want, ok := c.rec.w.StateOf(blocks[i].ID())
		if !ok || StateHash(want) != StateHash(states[i]) || states[i].Index != want.Index {
			sok = false
		}
	}
	err := c.Manager.AddValidatedV2Blocks(blocks, states)
	c.rec.emit(Event{Op: "AddValidated", Bs: c.names(blocks), Err: err != nil, Sok: sok, Tip: c.rec.w.Name(c.Manager.Tip().ID), Why: errText(err)})
	return err
}

func (c *recCM) AddV2PoolTransactions(basis types.ChainIndex, txns []types.V2Transaction) (bool, error) {
	c.rec.mu.Lock()
	defer c.rec.mu.Unlock()
	_, bk := c.Manager.Block(basis.ID)
	known, err := c.Manager.AddV2PoolTransactions(basis, txns)
	c.rec.emit(Event{Op: "AddV2Pool", N: len(txns), Bk: bk, Err: err != nil, Tip: c.rec.w.Name(c.Manager.Tip().ID), Why: errText(err)})
	return known, err
}

// recPS is an in-memory PeerStore that honours bans (by IP or CIDR) and records every Ban call.
type recPS struct {
	mu    sync.Mutex
	peers map[string]syncer.PeerInfo
	ips   map[string]bool
	nets  []*net.IPNet
	rec   *Recorder
	nban  int
	nhon  int // bans of honest peers
}

func (ps *recPS) honestBans() int {
	ps.mu.Lock()
	defer ps.mu.Unlock()
	return ps.nhon
}

var _ syncer.PeerStore = (*recPS)(nil)

func newRecPS(rec *Recorder) *recPS {
	return &recPS{peers: map[string]syncer.PeerInfo{}, ips: map[string]bool{}, rec: rec}
}

func (ps *recPS) AddPeer(addr string) error {
	ps.mu.Lock()
	defer ps.mu.Unlock()
	if _, ok := ps.peers[addr]; !ok {
		ps.peers[addr] = syncer.PeerInfo{Address: addr}
	}
	return nil
}

// Peers returns nothing: the harness forms every connection itself (no autonomous dialing).
func (ps *recPS) Peers() ([]syncer.PeerInfo, error) { return nil, nil }

func (ps *recPS) PeerInfo(addr string) (syncer.PeerInfo, error) {
	ps.mu.Lock()
	defer ps.mu.Unlock()
	p, ok := ps.peers[addr]
	if !ok {
		return syncer.PeerInfo{}, syncer.ErrPeerNotFound
	}
	return p, nil
}

func (ps *recPS) UpdatePeerInfo(addr string, fn func(*syncer.PeerInfo)) error {
	ps.mu.Lock()
	defer ps.mu.Unlock()
	p := ps.peers[addr]
	fn(&p)
	ps.peers[addr] = p
	return nil
}

func (ps *recPS) Ban(addr string, _ time.Duration, reason string) error {
	ps.mu.Lock()
	who := "unknown"
	if strings.Contains(addr, "/") {
		if _, ipnet, err := net.ParseCIDR(addr); err == nil {
			ps.nets = append(ps.nets, ipnet)
		}
		who = "subnet"
	} else {
		host, _, err := net.SplitHostPort(addr)
		if err != nil {
			host = addr
		}
		ps.ips[host] = true
		if ps.rec.roles != nil {
			who = ps.rec.roles(host)
		}
		if strings.HasPrefix(who, "honest:") {
			ps.nhon++
		}
	}
	ps.nban++
	ps.mu.Unlock()
	ps.rec.mu.Lock()
	ps.rec.emit(Event{Op: "Ban", Who: who, Why: reason, Kind: banKind(reason)})
	ps.rec.mu.Unlock()
	return nil
}

func (ps *recPS) Banned(addr string) (bool, error) {
	ps.mu.Lock()
	defer ps.mu.Unlock()
	host := addr
	if h, _, err := net.SplitHostPort(addr); err == nil {
		host = h
	}
	if ps.ips[host] {
		return true, nil
	}
	if ip := net.ParseIP(host); ip != nil {
		for _, n := range ps.nets {
			if n.Contains(ip) {
				return true, nil
			}
		}
	}
	return false, nil
}

// NodeOpts configures a real node.
type NodeOpts struct {
	Name          string
	IP            string // loopback address to listen on (every node has its own)
	Tip           string // abstract name of the initial tip
	Checkpoint    string // if set: bootstrap with NewDBStoreAtCheckpoint at this block (on the chain of Tip)
	Extra         []string
	MaxSendBlocks uint64
	MaxInbound    int
	MaxOutbound   int
	Quiet         bool // SyncInterval = 1h: the node serves but never syncs on its own
	SyncInterval  time.Duration
	Timeouts      time.Duration // SendBlocks/SendBlock/relay timeouts (0: 3s)
	MaxInflightSubnet int       // WithMaxInflightRPCsPerSubnet (0: default 256)
	MaxInflight       int       // WithMaxInflightRPCs, the per-peer cap (0: default 64)
	SubnetV4Bits      int       // WithInflightRPCSubnetPrefixes(bits, 48) (0: default /32)
}

// A Node is a real syncer.Syncer over a real chain.Manager, with recorders.
type Node struct {
	Opts    NodeOpts
	W       *World
	CM      *chain.Manager
	RCM     *recCM
	PS      *recPS
	Rec     *Recorder
	S       *syncer.Syncer
	L       net.Listener
	UID     gateway.UniqueID
	Panics  atomic.Int64 // "panic in RPC handler" log lines (recovered handler panics)
	runDone chan error
	Base    string // lowest block the node holds ("g" unless bootstrapped from a checkpoint)
}

type panicCore struct {
	zapcore.LevelEnabler
	n *Node
}

func (c panicCore) With([]zapcore.Field) zapcore.Core { return c }
func (c panicCore) Check(e zapcore.Entry, ce *zapcore.CheckedEntry) *zapcore.CheckedEntry {
	if c.Enabled(e.Level) {
		return ce.AddCore(e, c)
	}
	return ce
}
func (c panicCore) Write(e zapcore.Entry, _ []zapcore.Field) error {
	if strings.Contains(e.Message, "panic") {
		c.n.Panics.Add(1)
	}
	return nil
}
func (c panicCore) Sync() error { return nil }

// NewNode builds the node's chain state, wraps it in the recorders and starts the syncer.
func NewNode(w *World, o NodeOpts, start time.Time, roles func(string) string) (*Node, error) {
	n := &Node{Opts: o, W: w, Base: "g"}
	chainBlocks := w.ChainOf(o.Tip)
	if o.Checkpoint == "" {
		n.CM = w.NewManager()
	} else {
		cpID := w.ID(o.Checkpoint)
		cpBlock := w.Block(o.Checkpoint)
		pcs, ok := w.StateOf(cpBlock.ParentID)
		if !ok {
			return nil, fmt.Errorf("no parent state for checkpoint %s", o.Checkpoint)
		}
		store, cs, err := chain.NewDBStoreAtCheckpoint(chain.NewMemDB(), pcs, cpBlock, nil)
		if err != nil {
			return nil, fmt.Errorf("NewDBStoreAtCheckpoint: %w", err)
		}
		n.CM = chain.NewManager(store, cs)
		n.Base = o.Checkpoint
		for i := range chainBlocks {
			if chainBlocks[i].ID() == cpID {
				chainBlocks = chainBlocks[i+1:]
				break
			}
		}
	}
	if err := addAll(n.CM, chainBlocks); err != nil {
		return nil, fmt.Errorf("initial chain: %w", err)
	}
	for _, x := range o.Extra {
		if err := addAll(n.CM, w.ChainOf(x)); err != nil {
			return nil, fmt.Errorf("extra chain: %w", err)
		}
	}
	if got := n.CM.Tip().ID; got != w.ID(o.Tip) && len(o.Extra) == 0 {
		return nil, fmt.Errorf("node %s: initial tip %s, want %s", o.Name, w.Name(got), o.Tip)
	}
	n.Rec = &Recorder{node: o.Name, w: w, start: start, roles: roles}
	n.RCM = &recCM{Manager: n.CM, rec: n.Rec}
	n.PS = newRecPS(n.Rec)
	ip := o.IP
	if ip == "" {
		ip = "127.0.0.1"
	}
	l, err := net.Listen("tcp", ip+":0")
	if err != nil {
		return nil, err
	}
	n.L = l
	n.UID = gateway.GenerateUniqueID()
	to := o.Timeouts
	if to == 0 {
		to = 3 * time.Second
	}
	si := o.SyncInterval
	if si == 0 {
		si = 100 * time.Millisecond
	}
	if o.Quiet {
		si = time.Hour
	}
	opts := []syncer.Option{
		syncer.WithSyncInterval(si),
		syncer.WithPeerDiscoveryInterval(time.Hour),
		syncer.WithSendBlocksTimeout(to),
		syncer.WithSendBlockTimeout(to),
		syncer.WithSendTransactionsTimeout(to),
		syncer.WithRelayHeaderTimeout(to),
		syncer.WithRelayBlockOutlineTimeout(to),
		syncer.WithRelayTransactionSetTimeout(to),
		syncer.WithConnectTimeout(5 * time.Second),
		syncer.WithLogger(zap.New(panicCore{zapcore.ErrorLevel, n})),
		syncer.WithDialer(&net.Dialer{LocalAddr: &net.TCPAddr{IP: net.ParseIP(ip)}}),
	}
	if o.MaxSendBlocks != 0 {
		opts = append(opts, syncer.WithMaxSendBlocks(o.MaxSendBlocks))
	}
	if o.MaxInflightSubnet != 0 {
		opts = append(opts, syncer.WithMaxInflightRPCsPerSubnet(o.MaxInflightSubnet))
	}
	if o.MaxInflight != 0 {
		opts = append(opts, syncer.WithMaxInflightRPCs(o.MaxInflight))
	}
	if o.SubnetV4Bits != 0 {
		opts = append(opts, syncer.WithInflightRPCSubnetPrefixes(o.SubnetV4Bits, 48))
	}
	if o.MaxInbound != 0 {
		opts = append(opts, syncer.WithMaxInboundPeers(o.MaxInbound))
	}
	if o.MaxOutbound != 0 {
		opts = append(opts, syncer.WithMaxOutboundPeers(o.MaxOutbound))
	}
	n.S = syncer.New(l, n.RCM, n.PS, gateway.Header{GenesisID: w.Genesis.ID(), UniqueID: n.UID, NetAddress: l.Addr().String()}, opts...)
	n.runDone = make(chan error, 1)
	go func() { n.runDone <- n.S.Run() }()
	return n, nil
}

func (n *Node) Addr() string { return n.L.Addr().String() }

func (n *Node) Close() {
	n.S.Close()
	select {
	case <-n.runDone:
	case <-time.After(10 * time.Second):
	}
}

// Connect dials the other node (n is the outbound side).
func (n *Node) Connect(addr string) error {
	ctx, cancel := context.WithTimeout(context.Background(), 5*time.Second)
	defer cancel()
	_, err := n.S.Connect(ctx, addr)
	return err
}

// Announce re-announces the node's tip to all its peers (the premise "tips are announced"):
// the header always, the outline too when the tip is a v2 block -- as the repository's own
// synced() test helper does.
func (n *Node) Announce(mode string) {
	tip := n.CM.Tip()
	b, ok := n.CM.Block(tip.ID)
	if !ok || tip.Height == 0 {
		return
	}
	if mode != "outline" || b.V2 == nil {
		n.S.BroadcastV2Header(b.Header())
	}
	if mode != "header" && b.V2 != nil {
		n.S.BroadcastV2BlockOutline(gateway.OutlineBlock(b, n.CM.PoolTransactions(), n.CM.V2PoolTransactions()))
	}
}

// InitialKnown lists the abstract names of every block whose state the manager holds.
func (n *Node) KnownNames() []string {
	var out []string
	n.W.mu.Lock()
	ids := append([]types.BlockID(nil), n.W.order...)
	n.W.mu.Unlock()
	for _, id := range ids {
		if _, ok := n.CM.State(id); ok {
			if _, ok2 := n.CM.Block(id); ok2 {
				out = append(out, n.W.Name(id))
			}
		}
	}
	return out
}

// BestChain returns the node's best chain, lowest block first (from genesis or its base).
func (n *Node) BestChain() ([]types.Block, error) {
	tip := n.CM.Tip()
	var out []types.Block
	baseH := uint64(0)
	if n.Base != "g" {
		n.W.mu.Lock()
		baseH = n.W.height[n.W.id[n.Base]]
		n.W.mu.Unlock()
	}
	for h := baseH; h <= tip.Height; h++ {
		idx, ok := n.CM.BestIndex(h)
		if !ok {
			return nil, fmt.Errorf("BestIndex(%d) missing (tip %v)", h, tip)
		}
		b, ok := n.CM.Block(idx.ID)
		if !ok {
			return nil, fmt.Errorf("block %v of the best chain missing", idx)
		}
		if len(out) > 0 && b.ParentID != out[len(out)-1].ID() {
			return nil, fmt.Errorf("best chain not linked at height %d", h)
		}
		out = append(out, b)
	}
	return out, nil
}

// Audit replays the node's best chain into a FRESH chain.Manager (the linear twin: it only ever
// saw this chain, in order, through full AddBlocks validation) and compares the tip state.
// For a checkpoint node the part below its base is taken from the world (the harness built it).
func (n *Node) Audit() error {
	best, err := n.BestChain()
	if err != nil {
		return err
	}
	twin := n.W.NewManager()
	var blocks []types.Block
	if n.Base != "g" {
		pre := n.W.ChainOf(n.Base)
		if len(best) == 0 || pre[len(pre)-1].ID() != best[0].ID() {
			return fmt.Errorf("best chain does not start at the node's base %s", n.Base)
		}
		blocks = append(pre[:len(pre)-1:len(pre)-1], best...)
	} else {
		if len(best) == 0 || best[0].ID() != n.W.Genesis.ID() {
			return fmt.Errorf("best chain does not start at genesis")
		}
		blocks = best[1:]
	}
	for i := range blocks {
		if err := twin.AddBlocks(blocks[i : i+1]); err != nil {
			return fmt.Errorf("twin rejects block %s at position %d of the node's best chain: %v", n.W.Name(blocks[i].ID()), i, err)
		}
	}
	a, b := n.CM.TipState(), twin.TipState()
	if a.Index != b.Index {
		return fmt.Errorf("twin tip %v != node tip %v", b.Index, a.Index)
	}
	if StateHash(a) != StateHash(b) {
		return fmt.Errorf("tip state differs from the linear twin's at %v", a.Index)
	}
	return nil
}

// InflightAtRest audits the accounting contract of the per-subnet in-flight RPC budget: a counter is
// the number of RUNNING inbound handlers of that subnet, always -- so once the network is quiet (every
// peer synced, no announcements, scripted peers gone) every counter must be back to 0, whatever mix of
// accepted, rejected-over-budget and erroring RPCs went before.  Read through the verif hook
// syncer.VerifInflightSubnet.  Polls up to max for the handlers still running to finish.
func (n *Node) InflightAtRest(max time.Duration) (map[string]int, int) {
	end := time.Now().Add(max)
	for {
		m := n.S.VerifInflightSubnet()
		sum := 0
		for _, v := range m {
			sum += v
		}
		if sum == 0 || time.Now().After(end) {
			return m, sum
		}
		time.Sleep(50 * time.Millisecond)
	}
}

// RecordIdle logs the audit into the node's trace (SyncTrace: an Idle event must carry 0).
func (n *Node) RecordIdle(sum int) {
	n.Rec.mu.Lock()
	n.Rec.emit(Event{Op: "Idle", Inflight: sum, Tip: n.W.Name(n.CM.Tip().ID)})
	n.Rec.mu.Unlock()
}
