package syncx

import (
	"encoding/json"
	"fmt"
	"sort"
	"strings"
	"sync"
	"time"

	"go.sia.tech/core/gateway"
	"go.sia.tech/core/types"
	"verifharness/hx"
)

// Leg R: a path of quiescent macro-steps of Sync.tla (computed by props/C12.py from TLC's
// exported graph) is replayed on a REAL victim syncer "v" against passive real honest peers
// ("p", "q": real syncers whose own sync loop never ticks) and a scripted Byzantine peer "z"
// whose answers the driver releases one at a time.  After every macro-step the projection
// (tip, known, link, banned) of the real nodes must equal the specification's.

// Proj is the projection of the specification's state that the real nodes expose.
type Proj struct {
	Tip    map[string]string            `json:"tip"`
	Known  map[string][]string          `json:"known"`
	Link   map[string]map[string]string `json:"link"`
	Banned []string                     `json:"banned"`
}

type RAct struct {
	Op   string `json:"op"`
	A    string `json:"a,omitempty"`
	B    string `json:"b,omitempty"`
	N    string `json:"n,omitempty"`
	P    string `json:"p,omitempty"`
	W    string `json:"w,omitempty"`
	Z    string `json:"z,omitempty"`
	Kind string `json:"kind,omitempty"`
	Res  string `json:"res,omitempty"`
	Eff  string `json:"eff,omitempty"`
	X    string `json:"x,omitempty"`
	Base string `json:"base,omitempty"`
	Top  string `json:"top,omitempty"`
}

type RStep struct {
	Act   RAct   `json:"act"`
	Succs []Proj `json:"succs"`
	Want  Proj   `json:"want"`
	Hint  struct {
		SyncOn  bool     `json:"syncOn"`  // the victim's parallelSync is running in the target state
		SyncSrc string   `json:"syncSrc"` // ... on the headers of this peer
		Round   []string `json:"round"`   // peers whose SendHeaders answer the victim is waiting for
	} `json:"hint"`
}

type RPath struct {
	Init  map[string]string `json:"init"`
	Steps []RStep           `json:"steps"`
}

type replayIn struct {
	Family string  `json:"family"` // honest | byz
	Paths  []RPath `json:"paths"`
	Width  int     `json:"width"`
	Stub   string  `json:"stub"` // self-test: a deliberately wrong oracle ("tip-a4-is-a3")
}

// replayWorld materialises SyncMC.tla's TreeB / TreeC with real blocks (allow = 1, require = 3:
// a batch based at height >= 3 goes through checkpoint + pre-validation).
func replayWorld(family, seed string) (*World, error) {
	w := NewWorld(1, 3, 1000)
	w.Seed = seed
	mt := w.NewManager()
	w.Extend(mt, "t", 1)
	ma := w.ManagerAt("t1")
	w.Extend(ma, "a", 3)
	if family == "honest" {
		mb := w.ManagerAt("t1")
		w.Extend(mb, "b", 2)
		mc := w.ManagerAt("a2")
		w.Extend(mc, "c", 1)
		return w, nil
	}
	mv := w.ManagerAt("t1")
	w.Extend(mv, "v", 2)
	if _, err := w.CraftFork("t1", "z", 2, 0, "badtxn"); err != nil {
		return nil, err
	}
	if _, err := w.CraftFork("t1", "y", 1, 0, "height"); err != nil {
		return nil, err
	}
	if _, err := w.CraftFork("a3", "w", 1, 0, "badtxn"); err != nil {
		return nil, err
	}
	want := map[string]string{"z2": "bad", "z3": "bad", "y2": "hdr", "w4": "bad", "v2": "ok", "v3": "ok", "a4": "ok"}
	for n, c := range want {
		if got := w.ClassOf(n); got != c {
			return nil, fmt.Errorf("replay world: block %s classified %q, the model says %q", n, got, c)
		}
	}
	return w, nil
}

// zDriver lets the replay driver release the scripted peer's answers one at a time.
type zDriver struct {
	mu      sync.Mutex
	z       *ScriptedPeer
	w       *World
	hdrPlan *RAct // how to answer SendHeaders requests (nil: hold them)
	hdrCond *sync.Cond
	blkPlan string // "" hold | "serve" | "fail"
	serveTo string
	pending int // SendHeaders requests held
	blkPend int // SendV2Blocks / SendCheckpoint requests held
}

// waitPending waits until the scripted peer holds a request of the given kind.
func (d *zDriver) waitPending(blocks bool, max time.Duration) bool {
	end := time.Now().Add(max)
	for time.Now().Before(end) {
		d.mu.Lock()
		n := d.pending
		if blocks {
			n = d.blkPend
		}
		d.mu.Unlock()
		if n > 0 {
			return true
		}
		time.Sleep(10 * time.Millisecond)
	}
	return false
}

func (d *zDriver) setHdr(a *RAct) {
	d.mu.Lock()
	d.hdrPlan = a
	d.mu.Unlock()
	d.hdrCond.Broadcast()
}

func (d *zDriver) setBlk(plan string) {
	d.mu.Lock()
	d.blkPlan = plan
	d.mu.Unlock()
	d.hdrCond.Broadcast()
}

// install hooks the scripted peer: every request waits for the driver's plan.
func (d *zDriver) install() {
	d.hdrCond = sync.NewCond(&d.mu)
	z := d.z
	z.Custom = func(rpc string, req gateway.Object, s *gateway.Stream) bool {
		switch r := req.(type) {
		case *gateway.RPCSendHeaders:
			d.mu.Lock()
			d.pending++
			for d.hdrPlan == nil && !z.isClosed() {
				d.hdrCond.Wait()
			}
			plan := d.hdrPlan
			d.pending--
			if plan == nil {
				d.mu.Unlock()
				return true
			}
			switch plan.Res {
			case "err":
				d.hdrPlan = nil
				d.mu.Unlock()
				// a header that does not link to the offered id: ValidateHeader fails, the peer is dropped
				// (a frame that merely fails to decode ends in EOF, which the victim reads as "id not
				// on the peer's best chain" and answers by offering its next history id)
				blk := d.w.Block("a2")
				bh := blk.Header()
				bh.ParentID[3] ^= 0x42
				r.Headers, r.Remaining = []types.BlockHeader{bh}, 0
				s.WriteResponse(r)
				z.note("SendHeaders", "hdr-unlinked", "replay")
				return true
			case "empty":
				d.hdrPlan = nil
				d.mu.Unlock()
				r.Headers, r.Remaining = nil, 0
				s.WriteResponse(r)
				z.note("SendHeaders", "hdr-empty", "replay")
				return true
			default: // sync / dup: headers base..top, only for the request that offers `base`
				if d.w.Name(r.Index.ID) != plan.Base {
					d.mu.Unlock()
					return true // closed: "not on our best chain", the victim offers its next id
				}
				d.hdrPlan = nil
				d.mu.Unlock()
				var hs []types.BlockHeader
				for _, b := range d.w.ChainOf(plan.Top) {
					if d.w.HeightOf(d.w.Name(b.ID())) > r.Index.Height {
						hs = append(hs, b.Header())
					}
				}
				r.Headers, r.Remaining = hs, 0
				s.WriteResponse(r)
				z.note("SendHeaders", "hdr-replay", fmt.Sprintf("%s..%s", plan.Base, plan.Top))
				d.mu.Lock()
				d.serveTo = plan.Top
				d.mu.Unlock()
				return true
			}
		case *gateway.RPCSendV2Blocks, *gateway.RPCSendCheckpoint:
			d.mu.Lock()
			d.blkPend++
			for d.blkPlan == "" && !z.isClosed() {
				d.hdrCond.Wait()
			}
			plan, top := d.blkPlan, d.serveTo
			d.blkPend--
			d.mu.Unlock()
			if plan != "serve" {
				return true // closed: the worker fails
			}
			// serve exactly the announced chain
			z.View = ViewOf(d.w, top)
			return false
		}
		return false
	}
}

func project(w *World, nodes map[string]*Node, zname string, zaddrIP string, names []string) Proj {
	p := Proj{Tip: map[string]string{}, Known: map[string][]string{}, Link: map[string]map[string]string{}, Banned: []string{}}
	ipName := map[string]string{}
	for n, nd := range nodes {
		ipName[nd.Opts.IP] = n
	}
	if zname != "" {
		ipName[zaddrIP] = zname
	}
	for n, nd := range nodes {
		p.Tip[n] = w.Name(nd.CM.Tip().ID)
		ks := []string{}
		for _, bn := range names {
			if _, ok := nd.CM.State(w.ID(bn)); ok {
				ks = append(ks, bn)
			}
		}
		sort.Strings(ks)
		p.Known[n] = ks
		l := map[string]string{}
		for m := range nodes {
			if m != n {
				l[m] = "off"
			}
		}
		if zname != "" {
			l[zname] = "off"
		}
		for _, peer := range nd.S.Peers() {
			host := peer.ConnAddr
			if i := strings.LastIndex(host, ":"); i >= 0 {
				host = host[:i]
			}
			m, ok := ipName[host]
			if !ok || peer.Err() != nil {
				continue
			}
			if peer.Synced() {
				l[m] = "synced"
			} else {
				l[m] = "unsynced"
			}
		}
		p.Link[n] = l
		for _, ev := range nd.Rec.Events() {
			if ev.Op == "Ban" && ev.Who != "subnet" {
				who := ev.Who
				if i := strings.Index(who, ":"); i >= 0 {
					who = who[i+1:]
				}
				b := n + ">" + who
				dup := false
				for _, x := range p.Banned {
					dup = dup || x == b
				}
				if !dup {
					p.Banned = append(p.Banned, b)
				}
			}
		}
	}
	sort.Strings(p.Banned)
	return p
}

func projEq(a, b Proj) bool {
	ja, _ := json.Marshal(a)
	jb, _ := json.Marshal(b)
	return string(ja) == string(jb)
}

// RunReplay executes one path; returns the number of macro-steps compared, whether the run
// diverged to another allowed successor, and a mismatch description ("" if none).
func RunReplay(family string, path RPath, slot int, stub string) (steps int, diverged bool, sig, desc string, lg []string) {
	start := time.Now()
	tl := &tlog{start: start}
	defer func() { lg = tl.lines }()
	w, err := replayWorld(family, fmt.Sprintf("%d|replay", hx.Seed()))
	if err != nil {
		return 0, false, "infra:world", err.Error(), nil
	}
	var names []string
	w.mu.Lock()
	for _, id := range w.order {
		names = append(names, w.name[id])
	}
	w.mu.Unlock()
	addrRole := map[string]string{}
	roles := func(h string) string {
		if r, ok := addrRole[h]; ok {
			return r
		}
		return "unknown"
	}
	nodes := map[string]*Node{}
	i := 0
	var order []string
	for n := range path.Init {
		order = append(order, n)
	}
	sort.Strings(order)
	for _, n := range order {
		ip := fmt.Sprintf("127.%d.%d.%d", 1+slot%200, 1+(slot/200)%250, 10+i)
		i++
		addrRole[ip] = "honest:" + n
		nd, err := NewNode(w, NodeOpts{Name: n, IP: ip, Tip: path.Init[n], Quiet: n != "v", Timeouts: 1500 * time.Millisecond}, start, roles)
		if err != nil {
			return 0, false, "infra:node", err.Error(), nil
		}
		nodes[n] = nd
	}
	var z *ScriptedPeer
	var zd *zDriver
	zname, zip := "", ""
	if family == "byz" {
		zname = "z"
		zip = fmt.Sprintf("127.%d.%d.%d", 201+slot%50, 1+(slot/50)%250, 10)
		addrRole[zip] = "byz:z"
		z = NewScriptedPeer(w, "z", zip, ViewOf(w, "g"), start)
		zd = &zDriver{z: z, w: w}
		zd.install()
	}
	defer func() {
		if z != nil {
			z.Close()
			zd.hdrCond.Broadcast()
		}
		for _, nd := range nodes {
			nd.Close()
		}
	}()
	cur := func() Proj { return project(w, nodes, zname, zip, names) }
	nrelay := 0
	for si, st := range path.Steps {
		a := st.Act
		tl.add("step %d: %s", si, hx.JSON(a))
		var err error
		switch a.Op {
		case "Connect":
			if a.A == "z" {
				err = z.DialTo(nodes[a.B].Addr())
			} else if a.B == "z" {
				var addr string
				if addr, err = z.Listen(); err == nil {
					err = nodes[a.A].Connect(addr)
				}
				z.WaitConnected(2 * time.Second)
			} else {
				err = nodes[a.A].Connect(nodes[a.B].Addr())
			}
		case "Announce":
			mode := "header"
			if a.Kind == "outline" {
				mode = "outline"
			}
			nodes[a.A].Announce(mode)
		case "ZRelay":
			nrelay++
			switch a.Eff {
			case "ban":
				err = doRelay(w, z, nodes[a.N], "txset-empty", nrelay)
			case "resync":
				err = doRelay(w, z, nodes[a.N], "hdr-unknownparent", nrelay)
			case "block":
				err = z.RelayOutline(gateway.OutlineBlock(w.Block(a.X), nil, nil), "relay-outline-"+a.X)
			}
		case "Headers":
			if !zd.waitPending(false, 6*time.Second) {
				tl.add("  no SendHeaders request reached the scripted peer")
			}
			zd.setHdr(&a)
		case "Fetch":
			if !zd.waitPending(true, 4*time.Second) {
				tl.add("  no block request reached the scripted peer")
			}
			zd.setBlk("serve")
		case "SyncAbort":
			if !zd.waitPending(true, 4*time.Second) {
				tl.add("  no block request reached the scripted peer")
			}
			zd.setBlk("fail")
		default:
			return steps, diverged, "infra:act", "unknown action " + a.Op, nil
		}
		if err != nil {
			tl.add("  action error: %v", err)
		}
		// wait for the real nodes to reach one of the specification's successors and stay there
		deadline := time.Now().Add(8 * time.Second)
		var got Proj
		matched := -1
		var since time.Time
		for {
			got = cur()
			m := -1
			if projEq(got, st.Want) {
				m = 0
			} else {
				for k := range st.Succs {
					if projEq(got, st.Succs[k]) {
						m = k + 1
					}
				}
			}
			if m >= 0 {
				if m != matched {
					matched, since = m, time.Now()
				} else if time.Since(since) > 250*time.Millisecond {
					break
				}
			} else {
				matched = -1
			}
			if time.Now().After(deadline) {
				break
			}
			time.Sleep(25 * time.Millisecond)
		}
		if a.Op == "Fetch" || a.Op == "SyncAbort" {
			// the running parallelSync must be over before the next answer is planned: its end has no
			// visible effect of its own, but the victim's next SendHeaders request (or the end of
			// all held block requests) shows it
			end := time.Now().Add(4 * time.Second)
			for time.Now().Before(end) {
				zd.mu.Lock()
				bp, hp := zd.blkPend, zd.pending
				zd.mu.Unlock()
				wantHdr := false
				for _, x := range st.Hint.Round {
					wantHdr = wantHdr || x == "z"
				}
				if bp == 0 && (!wantHdr || hp > 0) {
					break
				}
				time.Sleep(15 * time.Millisecond)
			}
			zd.setBlk("")
		}
		if zd != nil && st.Hint.SyncOn && st.Hint.SyncSrc == "z" && st.Want.Link["v"]["z"] == "unsynced" {
			// the victim must have reached the point where its worker asks the scripted peer for blocks
			if !zd.waitPending(true, 4*time.Second) {
				tl.add("  the victim did not ask the scripted peer for blocks")
			}
		}
		steps++
		want := st.Want
		if stub == "tip-a4-is-a3" {
			// self-test: a deliberately wrong oracle
			if want.Tip["v"] == "a4" {
				want.Tip = map[string]string{"v": "a3", "p": want.Tip["p"]}
				matched = -1
				if projEq(got, want) {
					matched = 0
				}
			}
		}
		if matched < 0 {
			return steps, diverged, fmt.Sprintf("replay:%s:%s:state", family, actLabel(a)),
				fmt.Sprintf("after %s the real nodes are in %s, the specification says %s", hx.JSON(a), hx.JSON(got), hx.JSON(want)), tl.lines
		}
		if matched > 0 && !projEq(got, st.Want) {
			diverged = true
			tl.add("  diverged to another allowed successor; path abandoned")
			return
		}
	}
	return
}

func actLabel(a RAct) string {
	s := a.Op
	for _, x := range []string{a.Res, a.Eff, a.Kind} {
		if x != "" {
			s += "-" + x
		}
	}
	return s
}
