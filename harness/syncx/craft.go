package syncx

import (
	"fmt"
	"strings"
	"time"

	"go.sia.tech/core/consensus"
	"go.sia.tech/core/types"
	"go.sia.tech/coreutils"
)

// craftOn builds one block on top of cs with a single corruption (the catalogue of invalid
// blocks); "" builds a valid block.  The block always carries a nonce that meets the PoW target
// except for kind "lowwork".
//
//	commitment  v2 commitment does not match the parent state                (class bad)
//	badtxn      a transaction that creates money (fee without inputs)        (class bad)
//	payout      miner payout exceeds reward + fees                           (class hdr)
//	height      v2 height field does not increment the parent height         (class hdr)
//	timestamp   timestamp before the median of the previous blocks           (class hdr)
//	lowwork     id misses the PoW target                                     (class hdr)
func craftOn(cs consensus.State, addr types.Address, salt []byte, kind string) (types.Block, bool) {
	ts := cs.PrevTimestamps[0].Add(time.Second)
	b := types.Block{
		ParentID:     cs.Index.ID,
		Timestamp:    ts,
		MinerPayouts: []types.SiacoinOutput{{Value: cs.BlockReward(), Address: addr}},
	}
	childHeight := cs.Index.Height + 1
	v2 := childHeight >= cs.Network.HardforkV2.AllowHeight
	if v2 {
		b.V2 = &types.V2BlockData{Height: childHeight, Transactions: []types.V2Transaction{{ArbitraryData: salt}}}
	} else {
		b.Transactions = []types.Transaction{{ArbitraryData: [][]byte{salt}}}
	}
	switch kind {
	case "", "commitment", "lowwork":
	case "badtxn":
		if v2 {
			b.V2.Transactions = append(b.V2.Transactions, types.V2Transaction{MinerFee: types.Siacoins(1)})
		} else {
			b.Transactions = append(b.Transactions, types.Transaction{MinerFees: []types.Currency{types.Siacoins(1)}})
		}
		b.MinerPayouts[0].Value = b.MinerPayouts[0].Value.Add(types.Siacoins(1))
	case "payout":
		b.MinerPayouts[0].Value = b.MinerPayouts[0].Value.Add(types.Siacoins(7))
	case "height":
		if !v2 {
			return b, false
		}
		b.V2.Height += 5
	case "timestamp":
		b.Timestamp = cs.PrevTimestamps[0].Add(-1000 * time.Hour)
	default:
		panic("unknown block corruption " + kind)
	}
	if v2 {
		b.V2.Commitment = cs.Commitment(addr, b.Transactions, b.V2Transactions())
		if kind == "commitment" {
			b.V2.Commitment[3] ^= 0x5a
		}
	}
	if kind == "lowwork" {
		bh, ok := lowWorkHeader(cs, b.Header())
		if !ok {
			return b, false
		}
		b.Nonce = bh.Nonce
		return b, true
	}
	if !coreutils.FindBlockNonce(cs, &b, 10*time.Second) {
		return b, false
	}
	return b, true
}

func (w *World) minerAddr(tag string) types.Address {
	h := types.NewHasher()
	h.E.WriteString("verif-miner|" + w.Seed + "|" + tag)
	return types.Address(h.Sum())
}

// CraftFork builds a scripted peer's own fork of n blocks named prefix<height> on top of the
// named base: valid blocks except for the one at position badAt (0-based; <0: none), which
// carries the given corruption.  Blocks after a corrupted one are built on header-only states
// (valid work, linkage and timestamps; nobody can validate their bodies).  Every block is
// classified by the oracle (World.Classify), never by assumption.
func (w *World) CraftFork(base, prefix string, n, badAt int, kind string) ([]types.Block, error) {
	cs, ok := w.StateOf(w.ID(base))
	if !ok {
		return nil, fmt.Errorf("CraftFork: unknown base %s", base)
	}
	addr := w.minerAddr("craft-" + prefix)
	cm := w.ManagerAt(base) // oracle for the valid prefix
	var out []types.Block
	bogusChain := false
	asifChain := false
	_ = bogusChain
	if kind == "extrapayoutbase" || kind == "payoutvaluebase" {
		// instant-sync attack through the checkpoint BLOCK: the honest base block is served with its
		// genuine state but with an extra made-up miner payout appended (or the single payout's value
		// inflated) -- the v2 id and the commitment do not cover either -- and every block of the fork
		// is valid relative to the state derived from that altered block.
		bb := w.Block(base)
		pcs, ok := w.StateOf(bb.ParentID)
		if !ok || bb.V2 == nil {
			return nil, fmt.Errorf("CraftFork: %s needs a v2 base block", kind)
		}
		alt := bb
		if kind == "extrapayoutbase" {
			alt.MinerPayouts = append(append([]types.SiacoinOutput(nil), bb.MinerPayouts...), types.SiacoinOutput{Address: types.Address{0xee}, Value: types.Siacoins(1000000)})
		} else {
			alt.MinerPayouts = []types.SiacoinOutput{{Address: bb.MinerPayouts[0].Address, Value: bb.MinerPayouts[0].Value.Add(types.Siacoins(1000000))}}
		}
		if alt.ID() != bb.ID() {
			return nil, fmt.Errorf("CraftFork: altered base block changed its id")
		}
		w.setCheckpointBlock(bb.ID(), alt)
		cs, _ = consensus.ApplyBlock(pcs, alt, consensus.V1BlockSupplement{}, time.Time{})
		bogusChain = true
		badAt = -2
	}
	if kind == "bogusbase" {
		// instant-sync attack on the FIRST request: the checkpoint for the (honest) base block is
		// served with a bogus parent state, and every block of the fork is valid relative to the
		// state derived from it.  Only the commitment binding of Peer.SendCheckpoint stands
		// between this fork and AddValidatedV2Blocks.
		bb := w.Block(base)
		pcs, ok := w.StateOf(bb.ParentID)
		if !ok || bb.V2 == nil {
			return nil, fmt.Errorf("CraftFork: bogusbase needs a v2 base block")
		}
		bogus := pcs
		bogus.SiafundTaxRevenue = bogus.SiafundTaxRevenue.Add(types.Siacoins(654321))
		w.setCheckpointState(bb.ID(), bogus)
		cs, _ = consensus.ApplyBlock(bogus, bb, consensus.V1BlockSupplement{}, time.Time{})
		bogusChain = true
		badAt = -2
	}
	for i := 0; i < n; i++ {
		k := ""
		if i == badAt {
			k = kind
		}
		salt := []byte(fmt.Sprintf("%s-%d-%s", prefix, cs.Index.Height+1, w.Seed))
		name := fmt.Sprintf("%s%d", prefix, cs.Index.Height+1)
		if k == "bogusstate" {
			// instant-sync binding attack: a v2 block, valid in everything but its commitment, which
			// binds a BOGUS parent state (inflated siafund tax revenue).  Served as a checkpoint
			// (bogus state, this block) it passes the id + commitment check of Peer.SendCheckpoint.
			bogus := cs
			bogus.SiafundTaxRevenue = bogus.SiafundTaxRevenue.Add(types.Siacoins(123456))
			b, ok := craftOn(cs, addr, salt, "")
			if !ok || b.V2 == nil {
				return nil, fmt.Errorf("CraftFork: bogusstate needs a v2 block")
			}
			b.V2.Commitment = bogus.Commitment(addr, b.Transactions, b.V2Transactions())
			if !coreutils.FindBlockNonce(cs, &b, 10*time.Second) {
				return nil, fmt.Errorf("CraftFork: no nonce")
			}
			if class := w.Classify(name, b); class != "bad" {
				return nil, fmt.Errorf("CraftFork: bogus-commitment block classified %s", class)
			}
			w.setCheckpointState(b.ID(), bogus)
			cs, _ = consensus.ApplyBlock(bogus, b, consensus.V1BlockSupplement{}, time.Time{})
			bogusChain = true
			out = append(out, b)
			continue
		}
		if asifChain {
			// built on an invalid ancestor "as if it were valid": valid relative to the full state obtained
			// by applying the ancestors blindly -- exactly what a victim derives from a checkpoint.  Class
			// "asif": passes pre-validation, but no chain through its invalid ancestor is valid.
			b, ok := craftOn(cs, addr, salt, "")
			if !ok {
				return nil, fmt.Errorf("CraftFork: cannot build block at height %d", cs.Index.Height+1)
			}
			w.setCheckpointState(b.ID(), cs)
			ns, _ := consensus.ApplyBlock(cs, b, consensus.V1BlockSupplement{}, time.Time{})
			w.register(name, b, cs.Index.Height+1, "asif", ns)
			cs = ns
			out = append(out, b)
			continue
		}
		asif := strings.HasSuffix(k, "-asif")
		b, ok := craftOn(cs, addr, salt, strings.TrimSuffix(k, "-asif"))
		if !ok {
			return nil, fmt.Errorf("CraftFork: cannot build %q block at height %d", k, cs.Index.Height+1)
		}
		if asif {
			if class := w.Classify(name, b); class != "bad" {
				return nil, fmt.Errorf("CraftFork: %q block classified %s", k, class)
			}
			if b.V2 == nil {
				return nil, fmt.Errorf("CraftFork: asif needs a v2 block")
			}
			// the state the attacker pretends: the invalid block applied blindly
			cs, _ = consensus.ApplyBlock(cs, b, consensus.V1BlockSupplement{}, time.Time{})
			asifChain = true
			out = append(out, b)
			continue
		}
		if bogusChain {
			// valid relative to the bogus-derived state (what the victim computes from the checkpoint)
			if class := w.Classify(name, b); class == "ok" {
				return nil, fmt.Errorf("CraftFork: block built on a bogus state classified ok")
			}
			cs, _ = consensus.ApplyBlock(cs, b, consensus.V1BlockSupplement{}, time.Time{})
			out = append(out, b)
			continue
		}
		if badAt < 0 || i < badAt {
			if err := cm.AddBlocks([]types.Block{b}); err != nil || cm.Tip().ID != b.ID() {
				return nil, fmt.Errorf("CraftFork: clean block rejected by the oracle: %v", err)
			}
			w.register(name, b, cs.Index.Height+1, "ok", cm.TipState())
		} else if class := w.Classify(name, b); i == badAt && class == "ok" {
			return nil, fmt.Errorf("CraftFork: corruption %q produced a valid block", kind)
		}
		cs, _ = w.StateOf(b.ID())
		out = append(out, b)
	}
	return out, nil
}
