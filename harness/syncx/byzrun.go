package syncx

import (
	"context"
	"fmt"
	"strings"
	"sync"
	"time"

	"go.sia.tech/core/consensus"
	"go.sia.tech/core/gateway"
	"go.sia.tech/core/types"
	"go.sia.tech/coreutils"
	"go.sia.tech/coreutils/chain"
	"go.sia.tech/coreutils/syncer"
	"verifharness/hx"
)

// RelaySpec is one relay a scripted peer issues on its own.
type RelaySpec struct {
	Kind string `json:"kind"` // see doRelay
	When string `json:"when"` // "connected" (right after the handshake) | "synced" (after the victim reached the honest tip)
}

// FloodSpec: the victim runs with a small per-subnet in-flight RPC cap and a /24 subnet key that the Byzantine
// peer SHARES with the honest peer.  Once the victim has synced (honest peer marked synced) the Byzantine peer
// fills the budget with half-open RPCs, sends further RPCs while it is full (dropped by the victim), disconnects;
// then the honest peer mines Grow blocks and relays them: the victim must still follow.
type FloodSpec struct {
	Cap      int `json:"cap"`      // WithMaxInflightRPCsPerSubnet on the victim
	HalfOpen int `json:"halfOpen"` // RPC ids sent without a request
	Extra    int `json:"extra"`    // complete RPCs sent while the budget is full
	Rounds   int `json:"rounds"`   // connect / flood / disconnect cycles
	Grow     int `json:"grow"`     // blocks the honest peer mines afterwards
}

// ZSpec describes one Byzantine peer.
type ZSpec struct {
	Name    string      `json:"name"`
	Prefix  int         `json:"prefix"`  // honest-prefix: number of blocks of the honest branch (above the trunk) the peer holds
	View    string      `json:"view"`    // "honest": the honest peer's chain | "fork": its own crafted fork | "victim": the victim's chain
	ForkAt  int         `json:"forkAt"`  // fork: height of the base block on the honest chain
	ForkLen int         `json:"forkLen"` // fork: number of blocks
	BadAt   int         `json:"badAt"`   // fork: position of the corrupted block (-1: none)
	BadKind string      `json:"badKind"` // fork: craftOn kind
	Rules   []Rule      `json:"rules"`
	Relays  []RelaySpec `json:"relays"`
	Expect  string      `json:"expect"` // ban: provable misbehaviour, a PeerStore.Ban call must be recorded | "": nothing required
	Hangup  string      `json:"hangup"`  // hang up right after delivering an answer / relay whose kind has one of these prefixes (comma separated)
	Tag     string      `json:"tag"`     // free label that goes into signatures
	Dials   bool        `json:"dials"`  // the Byzantine peer dials the victim (else the victim dials it)
}

// ByzScenario is one C11 scenario: a real victim, >= 1 honest peer with a heavier valid chain,
// >= 1 scripted Byzantine peer.
type ByzScenario struct {
	ID         string  `json:"id"`
	Shape      string  `json:"shape"`
	Allow      uint64  `json:"allow"`
	Require    uint64  `json:"require"`
	Final      uint64  `json:"final"`
	Trunk      int     `json:"trunk"`     // common trunk
	VictimLen  int     `json:"victimLen"` // victim's own branch "b" above the trunk (0: victim sits on the trunk tip)
	HonestLen  int     `json:"honestLen"` // honest peer's branch "a" above the trunk (made sufficiently heavier)
	Honest     int     `json:"honest"`    // number of honest peers (default 1)
	Z          []ZSpec `json:"z"`
	Order      string  `json:"order"` // zfirst | pfirst | together
	DeadlineMs int     `json:"deadlineMs"`
	Announce   string  `json:"announce"`
	QuietP     bool    `json:"quietP"`
	VictimCheckpoint int `json:"victimCheckpoint"` // >0: the victim is bootstrapped with NewDBStoreAtCheckpoint at this height of its own chain
	Flood      *FloodSpec `json:"flood"` // in-flight budget flood by the Byzantine peer(s), then the honest peer mines and relays
	Retrieve   bool    `json:"retrieve"` // instant sync: the victim bootstraps with syncer.RetrieveCheckpoint from the Byzantine peer(s)
}

type ByzOutcome struct {
	ID       string            `json:"id"`
	Reached  bool              `json:"reached"`
	Ms       int64             `json:"ms"`
	Problems []Problem         `json:"problems"`
	Log      []string          `json:"log"`
	Events   []Event           `json:"-"`
	NEvents  int               `json:"nevents"`
	Fired    map[string]int    `json:"fired"`
	Bans     []string          `json:"bans"`
	Tips     map[string]string `json:"tips"`
	Served   map[string][]Served
}

// doRelay crafts and sends one relay on top of the victim's CURRENT state.
func doRelay(w *World, z *ScriptedPeer, v *Node, kind string, n int) error {
	cs := v.CM.TipState()
	addr := w.minerAddr("relay-" + z.Name)
	salt := []byte(fmt.Sprintf("relay-%s-%s-%d", z.Name, kind, n))
	name := fmt.Sprintf("r%s%d", z.Name, n)
	craft := func(k string) (types.Block, error) {
		b, ok := craftOn(cs, addr, salt, k)
		if !ok {
			return b, fmt.Errorf("cannot craft %q on height %d", k, cs.Index.Height)
		}
		w.Classify(name, b)
		return b, nil
	}
	switch kind {
	case "hdr-lowwork":
		b, err := craft("lowwork")
		if err != nil {
			return err
		}
		return z.RelayHeader(b.Header(), "relay-"+kind)
	case "hdr-attach":
		b, err := craft("")
		if err != nil {
			return err
		}
		return z.RelayHeader(b.Header(), "relay-"+kind)
	case "hdr-unknownparent":
		b, err := craft("")
		if err != nil {
			return err
		}
		bh := b.Header()
		bh.ParentID[5] ^= 0x77
		return z.RelayHeader(bh, "relay-"+kind)
	case "hdr-sidechain":
		// a valid header on top of the PARENT of the victim's tip: known parent, not attaching
		tb, ok := v.CM.Block(cs.Index.ID)
		if !ok {
			return fmt.Errorf("tip block missing")
		}
		ps, ok := v.CM.State(tb.ParentID)
		if !ok {
			return fmt.Errorf("parent state missing")
		}
		b, ok := craftOn(ps, addr, salt, "")
		if !ok {
			return fmt.Errorf("cannot craft")
		}
		w.Classify(name, b)
		return z.RelayHeader(b.Header(), "relay-"+kind)
	case "hdr-malformed":
		z.note("RelayV2Header", "relay-"+kind, "")
		return z.callRaw(&gateway.RPCRelayV2Header{}, &gateway.RPCSendV2Blocks{History: []types.BlockID{{1}, {2}, {3}}, Max: 1 << 62}, 3*time.Second)
	case "outline-lowwork":
		b, err := craft("lowwork")
		if err != nil {
			return err
		}
		if b.V2 == nil {
			return fmt.Errorf("no outline for a v1 block")
		}
		return z.RelayOutline(gateway.OutlineBlock(b, nil, nil), "relay-"+kind)
	case "outline-valid", "outline-badtxn", "outline-height":
		k := map[string]string{"outline-valid": "", "outline-badtxn": "badtxn", "outline-height": "height"}[kind]
		b, err := craft(k)
		if err != nil {
			return err
		}
		if b.V2 == nil {
			return fmt.Errorf("no outline for a v1 block")
		}
		o := gateway.OutlineBlock(b, nil, nil)
		if kind == "outline-height" {
			o.Height = b.V2.Height
		}
		return z.RelayOutline(o, "relay-"+kind)
	case "outline-missing-ok", "outline-missing-wrong", "outline-missing-close", "outline-missing-none":
		// a valid block whose second transaction is withheld: the victim must ask for it
		if cs.Index.Height+1 < cs.Network.HardforkV2.AllowHeight {
			return fmt.Errorf("no outline for a v1 block")
		}
		b := types.Block{ParentID: cs.Index.ID, Timestamp: cs.PrevTimestamps[0].Add(time.Second),
			MinerPayouts: []types.SiacoinOutput{{Value: cs.BlockReward(), Address: addr}},
			V2: &types.V2BlockData{Height: cs.Index.Height + 1, Transactions: []types.V2Transaction{{ArbitraryData: salt}, {ArbitraryData: append([]byte("withheld-"), salt...)}}}}
		b.V2.Commitment = cs.Commitment(addr, nil, b.V2.Transactions)
		if !findNonce(cs, &b) {
			return fmt.Errorf("no nonce")
		}
		w.Classify(name, b)
		z.mu.Lock()
		z.Pool = append(z.Pool, b.V2.Transactions[1])
		z.mu.Unlock()
		return z.RelayOutline(gateway.OutlineBlock(b, nil, b.V2.Transactions[1:]), "relay-"+kind)
	case "outline-malformed":
		z.note("RelayV2BlockOutline", "relay-"+kind, "")
		return z.callRaw(&gateway.RPCRelayV2BlockOutline{}, &gateway.RPCRelayV2TransactionSet{Index: cs.Index, Transactions: []types.V2Transaction{{ArbitraryData: make([]byte, 333)}}}, 3*time.Second)
	case "txset-empty":
		return z.RelayTxSet(cs.Index, nil, "relay-"+kind)
	case "txset-unknownbasis":
		return z.RelayTxSet(types.ChainIndex{Height: cs.Index.Height + 3, ID: types.BlockID{9, 9, 9}}, []types.V2Transaction{{ArbitraryData: salt}}, "relay-"+kind)
	case "txset-invalid":
		return z.RelayTxSet(cs.Index, []types.V2Transaction{{MinerFee: types.Siacoins(1)}}, "relay-"+kind)
	case "txset-valid":
		return z.RelayTxSet(cs.Index, []types.V2Transaction{{ArbitraryData: salt}}, "relay-"+kind)
	case "txset-malformed":
		z.note("RelayV2TransactionSet", "relay-"+kind, "")
		return z.callRaw(&gateway.RPCRelayV2TransactionSet{}, &gateway.RPCSendHeaders{Index: cs.Index, Max: 1 << 63}, 3*time.Second)
	}
	return fmt.Errorf("unknown relay kind %q", kind)
}

func findNonce(cs consensus.State, b *types.Block) bool {
	return coreutils.FindBlockNonce(cs, b, 10*time.Second)
}

// RunByz executes one C11 scenario.
func RunByz(sc ByzScenario, slot int) (out *ByzOutcome) {
	start := time.Now()
	out = &ByzOutcome{ID: sc.ID, Fired: map[string]int{}, Tips: map[string]string{}, Served: map[string][]Served{}}
	lg := &tlog{start: start}
	defer func() { out.Log = lg.lines }()
	fail := func(live bool, sig, format string, a ...any) {
		out.Problems = append(out.Problems, Problem{Sig: sig, Desc: fmt.Sprintf(format, a...), Live: live})
	}
	w := NewWorld(sc.Allow, sc.Require, sc.Final)
	w.Seed = fmt.Sprintf("%d|%s", hx.Seed(), sc.ID)
	branches := []Branch{{Name: "t", Len: sc.Trunk}, {Name: "a", From: "t", At: sc.Trunk, Len: sc.HonestLen}}
	if sc.VictimLen > 0 {
		branches = append(branches, Branch{Name: "b", From: "t", At: sc.Trunk, Len: sc.VictimLen})
	}
	mgr, err := buildTree(w, branches)
	if err != nil {
		fail(false, "infra:tree", "%v", err)
		return
	}
	vtip := "g"
	if sc.VictimLen > 0 {
		vtip = w.Name(mgr["b"].Tip().ID)
	} else if sc.Trunk > 0 {
		vtip = fmt.Sprintf("t%d", sc.Trunk)
	}
	// the honest chain must be a v2 tip sufficiently heavier than the victim's
	for iter := 0; ; iter++ {
		ht := w.Name(mgr["a"].Tip().ID)
		if w.SufficientlyHeavier(ht, vtip) && w.HeightOf(ht) >= sc.Allow {
			break
		}
		if iter > 300 {
			fail(false, "infra:winner", "cannot make the honest chain heavier")
			return
		}
		w.Extend(mgr["a"], "a", 1)
	}
	htip := w.Name(mgr["a"].Tip().ID)

	// Byzantine peers
	addrRole := map[string]string{}
	roles := func(host string) string {
		if r, ok := addrRole[host]; ok {
			return r
		}
		return "unknown"
	}
	ipOf := func(i int) string { return fmt.Sprintf("127.%d.%d.%d", 1+slot%200, 1+(slot/200)%250, 10+i) }
	var zs []*ScriptedPeer
	for i, zspec := range sc.Z {
		var view *View
		switch zspec.View {
		case "honest", "":
			view = ViewOf(w, htip)
		case "victim":
			view = ViewOf(w, vtip)
		case "honest-prefix":
			// the first Prefix blocks of the honest branch: a fork that is still LIGHTER than the victim's
			hb := w.ChainOf(htip)
			n := min(len(hb), sc.Trunk+zspec.Prefix)
			view = NewView(w, hb[:n])
		case "fork":
			base := "g"
			if zspec.ForkAt > 0 {
				base = w.Name(mustBest(mgr["a"], uint64(zspec.ForkAt)))
			}
			blocks, err := w.CraftFork(base, "z"+fmt.Sprint(i), zspec.ForkLen, zspec.BadAt, zspec.BadKind)
			if err != nil {
				fail(false, "infra:craft", "%v", err)
				return
			}
			view = NewView(w, append(w.ChainOf(base), blocks...))
		case "planted":
			// plant-then-serve: this peer connects only after the first Byzantine peer has relayed
			// its (invalid) block; its view is the victim's chain plus that block (connectPlanted)
			view = ViewOf(w, vtip)
		case "same0":
			// colluding peers: the same crafted fork as the first Byzantine peer
			if len(zs) == 0 {
				fail(false, "infra:view", "same0 needs a first peer")
				return
			}
			view = zs[0].View
		default:
			fail(false, "infra:view", "unknown view %q", zspec.View)
			return
		}
		// Byzantine peers live in their own /24 so that subnet strikes never touch honest peers
		ip := fmt.Sprintf("127.%d.%d.%d", 201+slot%50, 1+(slot/50)%250, 10+i)
		if sc.Flood != nil {
			// the same /24 as the honest nodes: one subnet key under WithInflightRPCSubnetPrefixes(24, 48)
			ip = fmt.Sprintf("127.%d.%d.%d", 1+slot%200, 1+(slot/200)%250, 60+i)
		}
		z := NewScriptedPeer(w, zspec.Name, ip, view, start)
		z.Alt = ViewOf(w, vtip)
		if zspec.View == "victim" || vtip == "g" {
			z.Alt = ViewOf(w, htip)
		}
		z.Rules = zspec.Rules
		if zspec.Hangup != "" {
			prefixes := strings.Split(zspec.Hangup, ",")
			z.HangupOn = func(kind string) bool {
				for _, p := range prefixes {
					if strings.HasPrefix(kind, p) {
						return true
					}
				}
				return false
			}
		}
		addrRole[ip] = "byz:" + zspec.Name
		zs = append(zs, z)
	}
	defer func() {
		for _, z := range zs {
			z.Close()
		}
	}()
	if sc.Retrieve {
		runRetrieve(sc, w, zs, htip, out, lg, fail)
		return
	}

	// honest nodes
	nh := sc.Honest
	if nh <= 0 {
		nh = 1
	}
	mk := func(i int, name, tip string, quiet bool) (*Node, error) {
		ip := ipOf(i)
		addrRole[ip] = "honest:" + name
		o := NodeOpts{Name: name, IP: ip, Tip: tip, Quiet: quiet, Timeouts: 2 * time.Second}
		if sc.Flood != nil && name == "v" {
			o.MaxInflightSubnet, o.SubnetV4Bits = sc.Flood.Cap, 24
		}
		if sc.VictimCheckpoint > 0 && name == "v" {
			cb := w.ChainOf(tip)
			if sc.VictimCheckpoint > len(cb) {
				return nil, fmt.Errorf("checkpoint height %d above the victim's tip", sc.VictimCheckpoint)
			}
			o.Checkpoint = w.Name(cb[sc.VictimCheckpoint-1].ID())
		}
		return NewNode(w, o, start, roles)
	}
	v, err := mk(0, "v", vtip, false)
	if err != nil {
		fail(false, "infra:node", "%v", err)
		return
	}
	nodes := []*Node{v}
	var ps []*Node
	for i := 0; i < nh; i++ {
		p, err := mk(1+i, fmt.Sprintf("p%d", i), htip, sc.QuietP)
		if err != nil {
			fail(false, "infra:node", "%v", err)
			return
		}
		ps = append(ps, p)
		nodes = append(nodes, p)
	}
	closed := false
	closeAll := func() {
		if closed {
			return
		}
		closed = true
		for _, z := range zs {
			z.Close()
		}
		var wg sync.WaitGroup
		for _, n := range nodes {
			wg.Add(1)
			go func(n *Node) { defer wg.Done(); n.Close() }(n)
		}
		wg.Wait()
	}
	defer closeAll()
	// check-then-act: the victim's verdict on submitted blocks is held back until it has noticed that
	// the peer that served them is gone -- the ban is owed for the misbehaviour, not for the connection
	v.RCM.gate = func() {
		for _, z := range zs {
			z.HangupIfArmed() // the data has arrived (the victim is about to judge it): now hang up
		}
		end := time.Now().Add(3 * time.Second)
		for time.Now().Before(end) {
			waiting := false
			for _, z := range zs {
				if !z.Hung() {
					continue
				}
				for _, p := range v.S.Peers() {
					if strings.HasPrefix(p.ConnAddr, z.IP+":") && p.Err() == nil {
						waiting = true
					}
				}
			}
			if !waiting {
				return
			}
			time.Sleep(5 * time.Millisecond)
		}
	}
	initKnown := make([][]string, len(nodes))
	initTips := make([]string, len(nodes))
	for i, n := range nodes {
		initKnown[i] = n.KnownNames()
		initTips[i] = w.Name(n.CM.Tip().ID)
	}
	lg.add("victim tip=%s honest tip=%s", vtip, htip)

	dial := func(i int, z *ScriptedPeer) {
		var err error
		if sc.Z[i].Dials {
			err = z.DialTo(v.Addr())
		} else {
			var addr string
			if addr, err = z.Listen(); err == nil {
				err = v.Connect(addr)
			}
		}
		if err != nil {
			lg.add("connect %s: %v", z.Name, err)
		} else if !z.WaitConnected(3 * time.Second) {
			lg.add("connect %s: handshake did not complete", z.Name)
		} else {
			lg.add("connected %s", z.Name)
		}
	}
	plantedDone := false
	// connectPlanted: once the first peer's relayed block exists (and that peer has been dealt with),
	// the accomplices connect and offer the victim's chain extended by exactly that block
	connectPlanted := func() {
		if plantedDone || len(zs) == 0 {
			return
		}
		name := fmt.Sprintf("r%s%d", zs[0].Name, 1)
		if w.ID(name) == (types.BlockID{}) {
			name = fmt.Sprintf("r%s%d", zs[0].Name, 101)
		}
		if w.ID(name) == (types.BlockID{}) {
			return
		}
		end := time.Now().Add(3 * time.Second)
		for time.Now().Before(end) && zs[0].Connected() {
			time.Sleep(20 * time.Millisecond) // the relayer is banned / dropped first
		}
		for i, z := range zs {
			if sc.Z[i].View == "planted" {
				plantedDone = true
				z.View = ViewOf(w, name)
				lg.add("%s offers the planted block %s (%s)", z.Name, name, w.ClassOf(name))
				dial(i, z)
			}
		}
	}
	connectZ := func() {
		for i, z := range zs {
			if sc.Z[i].View == "planted" {
				continue
			}
			var err error
			if sc.Z[i].Dials {
				err = z.DialTo(v.Addr())
			} else {
				var addr string
				if addr, err = z.Listen(); err == nil {
					err = v.Connect(addr)
				}
			}
			if err != nil {
				lg.add("connect %s: %v", z.Name, err)
			} else if !z.WaitConnected(3 * time.Second) {
				lg.add("connect %s: handshake did not complete", z.Name)
			} else {
				lg.add("connected %s", z.Name)
			}
			n := 0
			for _, rs := range sc.Z[i].Relays {
				if rs.When != "synced" {
					n++
					if err := doRelay(w, z, v, rs.Kind, n); err != nil {
						lg.add("relay %s by %s: %v", rs.Kind, z.Name, err)
					} else {
						lg.add("relay %s by %s sent", rs.Kind, z.Name)
					}
				}
			}
		}
		connectPlanted()
	}
	connectP := func() {
		for _, p := range ps {
			if err := v.Connect(p.Addr()); err != nil {
				lg.add("connect %s: %v", p.Opts.Name, err)
			} else {
				lg.add("connected %s", p.Opts.Name)
			}
		}
	}
	banned := func(name string) bool {
		for _, ev := range v.Rec.Events() {
			if ev.Op == "Ban" && ev.Who == "byz:"+name {
				return true
			}
		}
		return false
	}
	// zSettled: the Byzantine peers' scripts have played out (fired and either banned, dropped or idle)
	zSettle := func(max time.Duration) {
		end := time.Now().Add(max)
		for time.Now().Before(end) {
			done := true
			for i, z := range zs {
				if z.Fired("") == 0 {
					done = false
				} else if sc.Z[i].Expect == "ban" && !banned(z.Name) {
					done = false
				}
			}
			if done {
				time.Sleep(150 * time.Millisecond)
				return
			}
			time.Sleep(25 * time.Millisecond)
		}
	}
	switch sc.Order {
	case "pfirst":
		connectP()
		time.Sleep(300 * time.Millisecond)
		connectZ()
	case "together":
		connectZ()
		connectP()
	default: // zfirst
		connectZ()
		zSettle(4 * time.Second)
		connectP()
	}

	// the victim must reach (at least the work of) the honest tip
	deadline := time.Now().Add(time.Duration(sc.DeadlineMs) * time.Millisecond)
	reached := func() bool {
		t := w.Name(v.CM.Tip().ID)
		return t == htip || (w.Known(v.CM.Tip().ID) && w.TotalWorkOf(t).Cmp(w.TotalWorkOf(htip)) >= 0)
	}
	lastAnn := time.Time{}
	last := ""
	var banSeen time.Time
	for {
		if t := w.Name(v.CM.Tip().ID); t != last {
			last = t
			lg.add("tip v = %s", t)
		}
		if reached() {
			out.Reached = true
			out.Ms = time.Since(start).Milliseconds()
			break
		}
		if time.Now().After(deadline) {
			break
		}
		if banSeen.IsZero() {
			if v.PS.honestBans() > 0 {
				banSeen = time.Now()
			}
		} else if time.Since(banSeen) > 8*time.Second {
			break
		}
		if time.Since(lastAnn) > 250*time.Millisecond {
			lastAnn = time.Now()
			for _, p := range ps {
				go p.Announce(sc.Announce)
			}
		}
		time.Sleep(20 * time.Millisecond)
	}
	// relays that are to be sent once the victim is synced
	if out.Reached {
		for i, z := range zs {
			n := 100
			for _, rs := range sc.Z[i].Relays {
				if rs.When == "synced" {
					n++
					if !z.Connected() {
						if sc.Z[i].Dials {
							z.DialTo(v.Addr())
						} else if z.l != nil {
							v.Connect(z.l.Addr().String())
						}
						z.WaitConnected(2 * time.Second)
					}
					if err := doRelay(w, z, v, rs.Kind, n); err != nil {
						lg.add("relay %s by %s: %v", rs.Kind, z.Name, err)
					} else {
						lg.add("relay %s by %s sent", rs.Kind, z.Name)
					}
				}
			}
		}
		connectPlanted()
		zSettle(3 * time.Second)
		time.Sleep(200 * time.Millisecond)
		if !reached() {
			out.Reached = false
			fail(false, "byz:tip-lost", "victim left the honest tip after the relays: now at %s", w.Name(v.CM.Tip().ID))
		}
	}
	if sc.Flood != nil && out.Reached {
		// the honest peer is synced now; flood, disconnect, then let the honest chain grow
		for r := 0; r < max(1, sc.Flood.Rounds); r++ {
			for i, z := range zs {
				if !z.Connected() {
					dial(i, z)
				}
				if err := z.Flood(sc.Flood.HalfOpen, sc.Flood.Extra); err != nil {
					lg.add("flood by %s: %v", z.Name, err)
				} else {
					lg.add("flood by %s: %d half-open, %d over budget; counters %v", z.Name, sc.Flood.HalfOpen, sc.Flood.Extra, v.S.VerifInflightSubnet())
				}
				z.hangup()
			}
			time.Sleep(300 * time.Millisecond)
		}
		p := ps[0]
		for k := 0; k < sc.Flood.Grow; k++ {
			cs := p.CM.TipState()
			pname := w.Name(cs.Index.ID)
			b := mineOnV(cs, w.minerAddr("grow"), []byte(fmt.Sprintf("grow-%d-%s", k, w.Seed)), cs.PrevTimestamps[0].Add(time.Second), false)
			oracle := w.ManagerAt(pname)
			if err := oracle.AddBlocks([]types.Block{b}); err != nil {
				fail(false, "infra:grow", "%v", err)
				return
			}
			htip = fmt.Sprintf("m%d", cs.Index.Height+1)
			w.register(htip, b, cs.Index.Height+1, "ok", oracle.TipState())
			if err := p.RCM.AddBlocks([]types.Block{b}); err != nil {
				fail(false, "infra:grow", "%v", err)
				return
			}
			p.Announce("both")
		}
		lg.add("honest peer grew to %s", htip)
		out.Reached = false
		end := time.Now().Add(time.Duration(sc.DeadlineMs) * time.Millisecond / 2)
		for time.Now().Before(end) {
			if reached() {
				out.Reached = true
				break
			}
			go p.Announce("both")
			time.Sleep(250 * time.Millisecond)
		}
		lg.add("tip v = %s", w.Name(v.CM.Tip().ID))
	}
	// quiescence audit of the in-flight RPC accounting: scripted peers gone, honest peers synced
	if out.Reached {
		for _, z := range zs {
			z.Close()
		}
		time.Sleep(200 * time.Millisecond)
		for _, n := range nodes {
			m, sum := n.InflightAtRest(4 * time.Second)
			n.RecordIdle(sum)
			if sum != 0 {
				fail(false, "byz:inflight-leak:"+strings.Join(zKinds(sc), "+"), "node %s is at rest but its per-subnet in-flight RPC counters are %v (a counter is the number of running handlers)", n.Opts.Name, m)
			}
		}
	}
	for _, n := range nodes {
		out.Tips[n.Opts.Name] = w.Name(n.CM.Tip().ID)
		lg.add("peers of %s: %s", n.Opts.Name, peerSummary(n))
	}
	var kinds []string
	for i, z := range zs {
		out.Served[z.Name] = z.Served()
		for _, s := range z.Served() {
			if s.Kind != "" {
				out.Fired[s.Kind]++
			}
		}
		kinds = append(kinds, zKind(sc.Z[i]))
	}
	if !out.Reached && len(out.Problems) == 0 {
		sig := "byz:stall:" + strings.Join(kinds, "+")
		live := true
		for _, ev := range v.Rec.Events() {
			if ev.Op == "Ban" && strings.HasPrefix(ev.Who, "honest:") {
				sig = "byz:stall-after-ban-honest:" + ev.Kind + ":" + strings.Join(kinds, "+")
				live = false
			}
		}
		fail(live, sig, "victim did not reach the honest tip %s within %d ms (tip %s)", htip, sc.DeadlineMs, out.Tips["v"])
	}
	closeAll()

	// safety checks on the victim (and the honest peers)
	for i, n := range nodes {
		if err := n.Audit(); err != nil {
			fail(false, "byz:audit:"+strings.Join(kinds, "+"), "node %s: %v", n.Opts.Name, err)
		}
		if p := n.Panics.Load(); p > 0 {
			lg.add("node %s recovered %d handler panics", n.Opts.Name, p)
			fail(false, "byz:handler-panic:"+strings.Join(kinds, "+"), "node %s: %d handler panics (recovered)", n.Opts.Name, p)
		}
		prev := initTips[i]
		for _, ev := range n.Rec.Events() {
			switch ev.Op {
			case "Ban":
				out.Bans = append(out.Bans, n.Opts.Name+"->"+ev.Who+":"+ev.Kind)
				if strings.HasPrefix(ev.Who, "honest:") {
					fail(false, "byz:ban-honest:"+ev.Kind+":"+strings.Join(kinds, "+"), "node %s banned %s: %s", n.Opts.Name, ev.Who, ev.Why)
				}
			case "AddBlocks", "AddValidated":
				if ev.Tip != prev {
					if w.TotalWorkOf(ev.Tip).Cmp(w.TotalWorkOf(prev)) < 0 {
						fail(false, "byz:work-decreased", "node %s moved from %s to the lighter tip %s", n.Opts.Name, prev, ev.Tip)
					}
					if c := w.ClassOf(ev.Tip); c != "ok" {
						fail(false, "byz:adopted-invalid:"+strings.Join(kinds, "+"), "node %s adopted the %s block %s", n.Opts.Name, c, ev.Tip)
					}
					prev = ev.Tip
				}
			}
		}
	}
	// provable misbehaviour must have been reported
	for i, z := range zs {
		if sc.Z[i].Expect == "ban" && z.Fired("") > 0 && !banned(z.Name) {
			fail(false, "byz:not-banned:"+zKind(sc.Z[i]), "Byzantine peer %s delivered %v but no PeerStore.Ban was recorded", z.Name, out.Fired)
		}
	}
	out.Events = append(out.Events, Event{Op: "Tree", Tree: w.TreeJSON(), Req: int(sc.Require), Why: sc.ID, Kind: strings.Join(kinds, "+")})
	for i, n := range nodes {
		out.Events = append(out.Events, Event{Op: "Node", Node: n.Opts.Name, Known: initKnown[i], Tip: initTips[i], Base: n.Base})
		evs := n.Rec.Events()
		out.Events = append(out.Events, evs...)
		out.Events = append(out.Events, Event{Op: "End", Node: n.Opts.Name, Tip: out.Tips[n.Opts.Name]})
		out.NEvents += len(evs)
	}
	for i := range out.Events {
		if out.Events[i].Bs == nil {
			out.Events[i].Bs = []string{}
		}
		if out.Events[i].Known == nil {
			out.Events[i].Known = []string{}
		}
	}
	return
}

func zKinds(sc ByzScenario) []string {
	var out []string
	for _, z := range sc.Z {
		out = append(out, zKind(z))
	}
	if sc.Flood != nil {
		out = append(out, "flood")
	}
	return out
}

// zKind labels a Byzantine peer's script for signatures.
func zKind(z ZSpec) string {
	var parts []string
	if z.View == "fork" && z.BadAt >= 0 {
		parts = append(parts, "fork-"+z.BadKind)
	} else if z.View == "planted" {
		parts = append(parts, "serve-planted")
	} else if z.View == "honest-prefix" {
		parts = append(parts, "prefix")
	}
	if z.Hangup != "" {
		parts = append(parts, "hangup")
	}
	if z.Tag != "" {
		parts = append(parts, z.Tag)
	}
	for _, r := range z.Rules {
		parts = append(parts, r.RPC+"-"+r.Kind)
	}
	for _, r := range z.Relays {
		parts = append(parts, r.Kind)
	}
	if len(parts) == 0 {
		return "honestlike"
	}
	return strings.Join(parts, ",")
}

// runRetrieve: instant sync.  The victim asks the Byzantine peer(s) for the checkpoint at a trusted
// index with syncer.RetrieveCheckpoint; whatever comes back without an error must be the genuine
// (parent state, block) pair -- it is what NewDBStoreAtCheckpoint will apply WITHOUT validation.
// A genuine answer is then used to bootstrap a real node, which must verify against the twin.
func runRetrieve(sc ByzScenario, w *World, zs []*ScriptedPeer, htip string, out *ByzOutcome, lg *tlog, fail func(bool, string, string, ...any)) {
	var addrs []string
	for _, z := range zs {
		addr, err := z.Listen()
		if err != nil {
			fail(false, "infra:listen", "%v", err)
			return
		}
		addrs = append(addrs, addr)
	}
	// the trusted index: three blocks below the honest tip (a v2 block)
	chainBlocks := w.ChainOf(htip)
	cb := chainBlocks[len(chainBlocks)-4]
	name := w.Name(cb.ID())
	index := types.ChainIndex{Height: w.HeightOf(name), ID: cb.ID()}
	want, _ := w.StateOf(cb.ParentID)
	ctx, cancel := context.WithTimeout(context.Background(), 6*time.Second)
	defer cancel()
	cs, b, err := syncer.RetrieveCheckpoint(ctx, addrs, index, w.Net, w.Genesis.ID())
	var kinds []string
	for i, z := range zs {
		out.Served[z.Name] = z.Served()
		for _, sv := range z.Served() {
			if sv.Kind != "" {
				out.Fired[sv.Kind]++
			}
		}
		kinds = append(kinds, zKind(sc.Z[i]))
	}
	label := strings.Join(kinds, "+")
	if err != nil {
		lg.add("RetrieveCheckpoint(%s): rejected: %v", name, err)
		out.Reached = true // nothing was adopted; the caller would try other peers
		return
	}
	lg.add("RetrieveCheckpoint(%s): accepted", name)
	if contentHash(b) != contentHash(cb) {
		fail(false, "byz:checkpoint-accepted:block:"+label, "RetrieveCheckpoint returned a block with the id of %s but different content (%d miner payouts, first value %v; genuine: %d, %v)",
			name, len(b.MinerPayouts), firstPayout(b), len(cb.MinerPayouts), firstPayout(cb))
		return
	}
	if StateHash(cs) != StateHash(want) || cs.Index != want.Index {
		fail(false, "byz:checkpoint-accepted:state:"+label, "RetrieveCheckpoint returned a state that is not the parent state of %s", name)
		return
	}
	// genuine: bootstrap a node from it and compare with the linear twin
	store, tipState, err := chain.NewDBStoreAtCheckpoint(chain.NewMemDB(), cs, b, nil)
	if err != nil {
		fail(false, "byz:checkpoint-bootstrap:"+label, "NewDBStoreAtCheckpoint: %v", err)
		return
	}
	cm := chain.NewManager(store, tipState)
	if got, ok := w.StateOf(cb.ID()); !ok || StateHash(got) != StateHash(cm.TipState()) {
		fail(false, "byz:checkpoint-bootstrap:"+label, "state after the checkpoint block differs from the linear twin's")
		return
	}
	out.Reached = true
}

func firstPayout(b types.Block) any {
	if len(b.MinerPayouts) == 0 {
		return "none"
	}
	return b.MinerPayouts[0].Value
}
