package renterx

import (
	"bytes"
	"context"
	"errors"
	"fmt"
	"slices"

	proto4 "go.sia.tech/core/rhp/v4"
	"go.sia.tech/core/types"
	rhp4 "go.sia.tech/coreutils/rhp/v4"
)

var errUnknownFault = errors.New("fault not implemented by the harness")

// ---------------------------------------------------------------- generic field mutations

func cloneHashes(h []types.Hash256) []types.Hash256 { return append([]types.Hash256(nil), h...) }

// mutHashes implements flip / truncate / extend on a hash list.
func (s *session) mutHashes(list *[]types.Hash256, how, tag string) bool {
	switch how {
	case "flip":
		if len(*list) > 0 {
			l := cloneHashes(*list)
			l[len(l)/2][7] ^= 0x04
			*list = l
		}
	case "truncate":
		if len(*list) > 0 {
			*list = cloneHashes((*list)[:len(*list)-1])
		}
	case "extend":
		*list = append(cloneHashes(*list), s.garbageHash("extend/"+tag))
	case "wrongCount":
		*list = nil
	default:
		return false
	}
	return true
}

func flipSig(sig *types.Signature) { sig[9] ^= 0x20 }

func (s *session) hostSign(rev types.V2FileContract) types.Signature {
	return s.e.hostKey.SignHash(s.e.cs.ContractSigHash(rev))
}

// mutSig implements flip / swapFromOtherExchange / resign on a host signature: `swap` replays the
// (valid) host signature of the previous revision, `resign` is a valid host signature over a
// different revision `alt` than the one the renter computed.
func (s *session) mutSig(sig *types.Signature, how string, alt types.V2FileContract) bool {
	switch how {
	case "flip":
		flipSig(sig)
	case "swapFromOtherExchange":
		*sig = s.e.contract.Revision.HostSignature
	case "resign":
		*sig = s.hostSign(alt)
	case "transportKey":
		// the answering host signs the revision the renter expects -- with the key of its
		// transport identity, which (in this regime) is not the contract's host key
		rev, ok := s.expectRev()
		if !ok {
			rev = alt
		}
		*sig = s.e.transportKey.SignHash(s.e.cs.ContractSigHash(rev))
	default:
		return false
	}
	return true
}

// overcharge moves one more hasting from the renter to the host than the renter agreed to.
func overcharge(rev types.V2FileContract) types.V2FileContract {
	one := types.NewCurrency64(1)
	if rev.RenterOutput.Value.Cmp(one) >= 0 {
		rev.RenterOutput.Value = rev.RenterOutput.Value.Sub(one)
		rev.HostOutput.Value = rev.HostOutput.Value.Add(one)
	}
	return rev
}

// otherRoots is a different sector-root list of the same length (another contract's tree).
func (s *session) otherRoots(n int) []types.Hash256 {
	out := make([]types.Hash256, n)
	for i := range out {
		out[i] = s.e.roots[(i+5)%numSectors]
	}
	return out // out[i] differs from e.roots[i] for every i (numSectors does not divide 5)
}

// revisionOK: the returned revision carries a valid host signature, charges the renter no more
// than maxCost relative to the revision the renter started from, and has the expected Merkle root
// and file size.  All amounts are compared with types.Currency (128-bit) arithmetic.
func (s *session) revisionOK(rev types.V2FileContract, maxCost types.Currency, root types.Hash256, filesize uint64, d map[string]bool) bool {
	old := s.e.contract.Revision
	sigHash := s.e.cs.ContractSigHash(rev)
	d["hostSigValid"] = s.e.hostKey.PublicKey().VerifyHash(sigHash, rev.HostSignature)
	d["renterSigValid"] = s.e.renterKey.PublicKey().VerifyHash(sigHash, rev.RenterSignature)
	charged, underflow := old.RenterOutput.Value.SubWithUnderflow(rev.RenterOutput.Value)
	d["chargeWithinPrice"] = !underflow && charged.Cmp(maxCost) <= 0
	d["rootAsExpected"] = rev.FileMerkleRoot == root
	d["filesizeAsExpected"] = rev.Filesize == filesize
	d["revisionNumberAdvances"] = rev.RevisionNumber >= old.RevisionNumber
	return d["hostSigValid"] && d["chargeWithinPrice"] && d["rootAsExpected"] && d["filesizeAsExpected"]
}

// ---------------------------------------------------------------- ReadSector

type readParams struct {
	sector         int
	offset, length uint64
}

var readVariants = []readParams{
	{0, 0, 64},
	{1, 5*4096 + 128, 320},
	{2, proto4.SectorSize - 4096, 4096},
	{3, 64 * 1000, 128},
	{4, 0, proto4.SectorSize / 2},   // half a sector: a one-hash proof
	{5, proto4.SectorSize - 64, 64}, // the last leaf
	// whole-sector reads (empty proof), of zero-tailed sectors and of a random one
	{numSectors + 0, 0, proto4.SectorSize},
	{numSectors + 1, 0, proto4.SectorSize},
	{numSectors + 2, 0, proto4.SectorSize},
	{6, 0, proto4.SectorSize},
	// partial ranges that straddle / lie in the zero tail
	{numSectors + 0, 512, 1024},
	{numSectors + 1, proto4.SectorSize/2 - 4096, 8192},
}

func (e *env) hostRead(sector int, offset, length uint64) ([]byte, []types.Hash256) {
	data, proof, err := e.ss.ReadSector(e.roots[sector], offset, length)
	if err != nil {
		e.tb.Fatal("donor read: ", err)
	}
	return append([]byte(nil), data...), proof
}

func newReadSession(e *env, c Case) *session {
	p := readVariants[c.Variant%len(readVariants)]
	s := &session{e: e, c: c}
	root := e.roots[p.sector]
	truth := e.sectors[p.sector][p.offset : p.offset+p.length]
	whole := p.length == proto4.SectorSize
	otherOff := p.offset + p.length
	if whole {
		otherOff = 0
	} else if otherOff+p.length > proto4.SectorSize {
		otherOff = p.offset - p.length
	}
	type donor struct {
		data  []byte
		proof []types.Hash256
	}
	mk := func(sector int, off uint64) donor {
		d, pr := e.hostRead(sector, off, p.length)
		return donor{d, pr}
	}
	donors := map[string]donor{
		"otherRange":            mk(p.sector, otherOff),
		"otherRoot":             mk((p.sector+1)%numSectors, p.offset),
		"swapFromOtherExchange": mk((p.sector+2)%numSectors, otherOff),
	}
	if whole {
		// there is no other range of a whole sector: its two halves in the wrong order
		h := proto4.SectorSize / 2
		d := donors["otherRange"]
		d.data = append(append([]byte(nil), truth[h:]...), truth[:h]...)
		donors["otherRange"] = d
	}
	// where the host closes the stream early (DataLength honest): cutLeaf is leaf-aligned -- at the end
	// of the sector's non-zero bytes if that falls inside the range, else in the middle of the range
	cutLeaf := (p.length / 2) &^ 63
	if z := nonZeroPrefix(p.sector); z > p.offset && z < p.offset+p.length {
		cutLeaf = z - p.offset
	}
	cutMid := cutLeaf + 13
	if cutMid >= p.length {
		cutMid = p.length - 13
	}
	cuts := map[string]uint64{"cutLeaf": cutLeaf, "cutMid": cutMid, "cutFirstLeaf": 64, "cutLastLeaf": p.length - 64}
	if p.length == 64 {
		cuts["cutFirstLeaf"] = 32
	}
	var dataLen int
	var dataOverride []byte
	s.steps = []stepDef{
		{"resp", func() proto4.Object { return new(proto4.RPCReadSectorResponse) }},
		{"data", nil},
	}
	s.rawLen = func() int { return dataLen }
	var buf bytes.Buffer
	s.call = func(ctx context.Context) (any, error) {
		return rhp4.RPCReadSector(ctx, e.tc, e.prices, e.token(), &buf, root, p.offset, p.length)
	}
	s.wireOK = func() bool {
		var req proto4.RPCReadSectorRequest
		return s.wireRequest(&req) && req.Root == root && req.Offset == p.offset && req.Length == p.length
	}
	s.synth = func(msg string, in inMsg) proto4.Object {
		if msg == "resp" && in.obj != nil {
			dataLen = int(in.obj.(*proto4.RPCReadSectorResponse).DataLength)
		}
		return nil
	}
	s.mutate = func(msg string, obj proto4.Object, raw *[]byte, f Fault) error {
		if msg == "resp" {
			r := obj.(*proto4.RPCReadSectorResponse)
			switch f.Field {
			case "Proof":
				if d, ok := donors[f.How]; ok {
					r.Proof = d.proof
				} else if !s.mutHashes(&r.Proof, f.How, "proof") {
					return errUnknownFault
				}
			case "DataLength":
				switch f.How {
				case "flip":
					r.DataLength ^= 64
				case "truncate":
					r.DataLength -= 64
				case "extend":
					r.DataLength += 64
				case "wrongCount":
					r.DataLength = 0
				default:
					return errUnknownFault
				}
			case "All":
				if f.How == "wrongCount" {
					// altered bytes under an empty proof
					r.Proof = nil
					dataOverride = append([]byte(nil), truth...)
					dataOverride[len(dataOverride)-1] ^= 0x80
					return nil
				}
				d, ok := donors[f.How]
				if !ok {
					return errUnknownFault
				}
				r.Proof, r.DataLength, dataOverride = d.proof, uint64(len(d.data)), d.data
			default:
				return errUnknownFault
			}
			return nil
		}
		// raw data
		if f.Field == "Stream" {
			// the host sends a prefix of the (possibly altered) data and closes the stream
			k, ok := cuts[f.How]
			if !ok {
				return errUnknownFault
			}
			if uint64(len(*raw)) > k {
				*raw = (*raw)[:k]
			}
			return nil
		}
		if f.Field != "Bytes" {
			return errUnknownFault
		}
		switch f.How {
		case "flip":
			if len(*raw) > 0 {
				(*raw)[len(*raw)/2] ^= 0x01
			}
		case "truncate":
			if len(*raw) >= 64 {
				*raw = (*raw)[:len(*raw)-64]
			}
		case "extend":
			*raw = append(*raw, s.garbage("data-extend", 64)...)
		default:
			d, ok := donors[f.How]
			if !ok {
				return errUnknownFault
			}
			*raw = append([]byte(nil), d.data...)
		}
		return nil
	}
	s.bound = func(any) (bool, map[string]bool) {
		// delivered to the caller's writer == exactly the requested range: same length, same bytes
		d := map[string]bool{"bytesEqualTruth": bytes.Equal(buf.Bytes(), truth), "deliveredRequestedLength": uint64(buf.Len()) == p.length}
		return d["bytesEqualTruth"] && d["deliveredRequestedLength"], d
	}
	// the "All" fault of the first message also replaces the data that follows it
	s.dataHook = func(raw []byte) []byte {
		if dataOverride != nil {
			return append([]byte(nil), dataOverride...)
		}
		return raw
	}
	return s
}

// ---------------------------------------------------------------- ReadSector at an unaligned offset

// A read whose offset is not a multiple of the leaf size (core's request validation only wants
// offset+length aligned).  The only correct outcome is an error: the client refuses it without
// dialing (rpc.go since ff651f4); the reference host would refuse it too.  A host could also answer
// with the enclosing leaf-aligned range and its valid proof (fault resp.All:otherRange): a client
// that dials and accepts that delivers other bytes than requested.
var unalignedVariants = []readParams{
	{0, 32, 32},
	{1, 100, 28},
	{2, 64*7 + 1, 64*3 - 1},
	{3, proto4.SectorSize - 10, 10},
}

func newReadUnalignedSession(e *env, c Case) *session {
	p := unalignedVariants[c.Variant%len(unalignedVariants)]
	s := &session{e: e, c: c}
	root := e.roots[p.sector]
	truth := e.sectors[p.sector][p.offset : p.offset+p.length]
	start, end := p.offset/proto4.LeafSize, (p.offset+p.length+proto4.LeafSize-1)/proto4.LeafSize
	wide, proof := e.hostRead(p.sector, start*proto4.LeafSize, (end-start)*proto4.LeafSize)
	lying := false
	for _, f := range c.Faults {
		if f.Msg == "resp" && f.Field == "All" && f.How == "otherRange" {
			lying = true
		}
	}
	s.steps = []stepDef{
		{"resp", func() proto4.Object { return new(proto4.RPCReadSectorResponse) }},
		{"data", nil},
	}
	s.rawLen = func() int { return 0 }
	var buf bytes.Buffer
	s.call = func(ctx context.Context) (any, error) {
		return rhp4.RPCReadSector(ctx, e.tc, e.prices, e.token(), &buf, root, p.offset, p.length)
	}
	s.synth = func(msg string, in inMsg) proto4.Object {
		if msg == "resp" && lying {
			return &proto4.RPCReadSectorResponse{Proof: proof, DataLength: uint64(len(wide))}
		}
		return nil
	}
	s.dataHook = func(raw []byte) []byte {
		if lying {
			return append([]byte(nil), wide...)
		}
		return raw
	}
	s.mutate = func(msg string, obj proto4.Object, raw *[]byte, f Fault) error {
		if msg == "resp" && f.Field == "All" && f.How == "otherRange" {
			return nil // done by synth: the honest host sent an error, not a response
		}
		return errUnknownFault
	}
	s.bound = func(any) (bool, map[string]bool) {
		d := map[string]bool{"bytesEqualTruth": bytes.Equal(buf.Bytes(), truth), "deliveredRequestedLength": uint64(buf.Len()) == p.length}
		return d["bytesEqualTruth"], d
	}
	return s
}

// ---------------------------------------------------------------- WriteSector

var writeLengths = []uint64{192, 8192, proto4.SectorSize, 64}

func newWriteSession(e *env, c Case) *session {
	length := writeLengths[c.Variant%len(writeLengths)]
	s := &session{e: e, c: c}
	data := detBytes(fmt.Sprintf("write/%d/%d", c.Variant, length), int(length))
	var sector [proto4.SectorSize]byte
	copy(sector[:], data)
	truth := proto4.SectorRoot(&sector)
	s.steps = []stepDef{{"resp", func() proto4.Object { return new(proto4.RPCWriteSectorResponse) }}}
	s.call = func(ctx context.Context) (any, error) {
		return rhp4.RPCWriteSector(ctx, e.tc, e.prices, e.token(), bytes.NewReader(data), length)
	}
	s.wireOK = func() bool {
		var req proto4.RPCWriteSectorRequest
		return s.wireRequest(&req) && req.DataLength == length && bytes.HasSuffix(s.sc.request(), data)
	}
	s.mutate = func(msg string, obj proto4.Object, _ *[]byte, f Fault) error {
		r := obj.(*proto4.RPCWriteSectorResponse)
		if f.Field != "Root" {
			return errUnknownFault
		}
		switch f.How {
		case "flip":
			r.Root[3] ^= 0x80
		case "swapFromOtherExchange":
			r.Root = e.roots[4] // the root a previous write exchange returned
		case "otherRoot":
			// the root of the unpadded data: right bytes, wrong tree (full sector: one byte off)
			if length == proto4.SectorSize {
				sec := sector
				sec[proto4.SectorSize-1] ^= 1
				r.Root = proto4.SectorRoot(&sec)
			} else if rr, err := proto4.ReaderRoot(bytes.NewReader(data)); err != nil {
				return err
			} else {
				r.Root = rr
			}
		default:
			return errUnknownFault
		}
		return nil
	}
	s.bound = func(res any) (bool, map[string]bool) {
		d := map[string]bool{"rootIsRootOfBytesSent": res.(rhp4.RPCWriteSectorResult).Root == truth}
		return d["rootIsRootOfBytesSent"], d
	}
	return s
}

// ---------------------------------------------------------------- VerifySector

func newVerifySession(e *env, c Case) *session {
	sector := (2 + c.Variant) % numSectors
	s := &session{e: e, c: c}
	root := e.roots[sector]
	s.steps = []stepDef{{"resp", func() proto4.Object { return new(proto4.RPCVerifySectorResponse) }}}
	s.call = func(ctx context.Context) (any, error) {
		return rhp4.RPCVerifySector(ctx, e.tc, e.prices, e.token(), root)
	}
	s.wireOK = func() bool {
		var req proto4.RPCVerifySectorRequest
		return s.wireRequest(&req) && req.Root == root && req.LeafIndex < proto4.LeavesPerSector
	}
	leafIndex := func() uint64 {
		// the client draws the leaf index itself; read it from the request it sent
		r := bytes.NewReader(s.sc.request())
		if _, err := proto4.ReadID(r); err != nil {
			e.tb.Fatal("verify: cannot read request id: ", err)
		}
		var req proto4.RPCVerifySectorRequest
		if err := proto4.ReadRequest(r, &req); err != nil {
			e.tb.Fatal("verify: cannot decode request: ", err)
		}
		return req.LeafIndex
	}
	donor := func(how string) ([64]byte, []types.Hash256, bool) {
		idx := leafIndex()
		other := idx + 1
		if other >= proto4.LeavesPerSector {
			other = idx - 1
		}
		var sec int
		var li uint64
		switch how {
		case "otherRange":
			sec, li = sector, other
		case "otherRoot":
			sec, li = (sector+1)%numSectors, idx
		case "swapFromOtherExchange":
			sec, li = (sector+2)%numSectors, other
		default:
			return [64]byte{}, nil, false
		}
		d, pr := e.hostRead(sec, li*64, 64)
		return [64]byte(d), pr, true
	}
	var forwarded *[64]byte
	s.synth = func(msg string, in inMsg) proto4.Object {
		if in.obj != nil {
			forwarded = &in.obj.(*proto4.RPCVerifySectorResponse).Leaf
		}
		return nil
	}
	s.mutate = func(msg string, obj proto4.Object, _ *[]byte, f Fault) error {
		r := obj.(*proto4.RPCVerifySectorResponse)
		leaf, proof, isDonor := donor(f.How)
		switch f.Field {
		case "Proof":
			if isDonor {
				r.Proof = proof
			} else if !s.mutHashes(&r.Proof, f.How, "proof") {
				return errUnknownFault
			}
		case "Leaf":
			if isDonor {
				r.Leaf = leaf
			} else if f.How == "flip" {
				r.Leaf[17] ^= 0x02
			} else {
				return errUnknownFault
			}
		case "All":
			if f.How == "wrongCount" {
				r.Proof = nil
				r.Leaf[40] ^= 0x08
				return nil
			}
			if !isDonor {
				return errUnknownFault
			}
			r.Leaf, r.Proof = leaf, proof
		default:
			return errUnknownFault
		}
		return nil
	}
	s.bound = func(any) (bool, map[string]bool) {
		// the call returns nothing but a cost: what it vouches for is the leaf it accepted
		d := map[string]bool{}
		if forwarded == nil {
			d["leafSeen"] = false
			return false, d
		}
		idx := leafIndex()
		d["leafIsRequestedLeaf"] = bytes.Equal(forwarded[:], e.sectors[sector][idx*64:idx*64+64])
		in := false
		for i := 0; i+64 <= len(e.sectors[sector]); i += 64 {
			if bytes.Equal(forwarded[:], e.sectors[sector][i:i+64]) {
				in = true
				break
			}
		}
		d["leafBelongsToSector"] = in
		return in, d
	}
	return s
}

// ---------------------------------------------------------------- SectorRoots

type rootsParams struct {
	n, offset, length int
}

var rootsVariants = []rootsParams{{5, 1, 2}, {8, 5, 3}, {6, 0, 5}, {7, 3, 1}, {8, 0, 1}, {4, 3, 1}}

func newRootsSession(e *env, c Case) *session {
	p := rootsVariants[c.Variant%len(rootsVariants)]
	s := &session{e: e, c: c}
	croots := cloneHashes(e.roots[:p.n])
	e.normalize(croots)
	old := e.contract
	truth := croots[p.offset : p.offset+p.length]
	otherOff := p.offset + 1
	if otherOff+p.length > p.n {
		otherOff = p.offset - 1
	}
	if otherOff < 0 {
		otherOff = 0 // whole range requested: "other range" degenerates to the same range
	}
	type donor struct{ proof, roots []types.Hash256 }
	mk := func(tree []types.Hash256, off, length int) donor {
		return donor{proto4.BuildSectorRootsProof(tree, uint64(off), uint64(off+length)), cloneHashes(tree[off : off+length])}
	}
	other := s.otherRoots(p.n)
	donors := map[string]donor{
		"otherRange":            mk(croots, otherOff, p.length),
		"otherRoot":             mk(other, p.offset, p.length),
		"swapFromOtherExchange": mk(other, otherOff, p.length),
	}
	wl := p.length + 1
	if p.offset+wl > p.n {
		wl = p.length - 1
	}
	if wl > 0 {
		donors["wrongCount"] = mk(croots, p.offset, wl)
	} else {
		donors["wrongCount"] = donor{nil, nil}
	}
	s.steps = []stepDef{{"resp", func() proto4.Object { return new(proto4.RPCSectorRootsResponse) }}}
	s.call = func(ctx context.Context) (any, error) {
		return rhp4.RPCSectorRoots(ctx, e.tc, e.cs, e.prices, e.signer, old, uint64(p.offset), uint64(p.length))
	}
	s.wireOK = func() bool {
		var req proto4.RPCSectorRootsRequest
		return s.wireRequest(&req) && req.ContractID == old.ID && req.Offset == uint64(p.offset) && req.Length == uint64(p.length)
	}
	s.mutate = func(msg string, obj proto4.Object, _ *[]byte, f Fault) error {
		r := obj.(*proto4.RPCSectorRootsResponse)
		d, isDonor := donors[f.How]
		switch f.Field {
		case "Proof":
			if isDonor && f.How != "wrongCount" {
				r.Proof = d.proof
			} else if !s.mutHashes(&r.Proof, f.How, "proof") {
				return errUnknownFault
			}
		case "Roots":
			if f.How == "wrongCount" {
				r.Roots, r.Proof = d.roots, d.proof
			} else if isDonor {
				r.Roots = d.roots
			} else if !s.mutHashes(&r.Roots, f.How, "roots") {
				return errUnknownFault
			}
		case "HostSignature":
			s.expectRev = func() (types.V2FileContract, bool) {
				rev, _, err := proto4.ReviseForSectorRoots(old.Revision, e.prices, uint64(p.length))
				return rev, err == nil
			}
			alt, _, err := proto4.ReviseForSectorRoots(old.Revision, e.prices, uint64(p.length)*1000)
			if err != nil {
				return err
			}
			if !s.mutSig(&r.HostSignature, f.How, alt) {
				return errUnknownFault
			}
		case "All":
			if f.How == "wrongCount" {
				r.Proof = nil
				r.Roots = cloneHashes(r.Roots)
				r.Roots[0][1] ^= 0x10
				return nil
			}
			if !isDonor {
				return errUnknownFault
			}
			r.Roots, r.Proof = d.roots, d.proof
		default:
			return errUnknownFault
		}
		return nil
	}
	s.bound = func(res any) (bool, map[string]bool) {
		r := res.(rhp4.RPCSectorRootsResult)
		d := map[string]bool{"rootsAreActualRoots": slices.Equal(r.Roots, truth)}
		ok := s.revisionOK(r.Revision, e.prices.RPCSectorRootsCost(uint64(p.length)).RenterCost(), old.Revision.FileMerkleRoot, old.Revision.Filesize, d)
		return ok && d["rootsAreActualRoots"], d
	}
	return s
}

// ---------------------------------------------------------------- AppendSectors

type appendParams struct {
	n       int   // sectors in the contract
	add     []int // indices into e.roots; -1 = a root the host does not store
	dropIdx int   // index (into add) of an accepted sector the coherent liar drops
}

var appendVariants = []appendParams{
	{5, []int{5, -1, 6}, 2},
	{8, []int{8}, 0},
	{0, []int{0, 1}, 1},
	{3, []int{-1, 4, 5, 6}, 1},
	{1, []int{1, 2}, 0},
	{8, []int{8, 9, -1}, 1},
}

func subtreeRootsOf(tree []types.Hash256) []types.Hash256 {
	sr, _ := proto4.BuildAppendProof(tree, nil)
	return sr
}

func newAppendSession(e *env, c Case) *session {
	p := appendVariants[c.Variant%len(appendVariants)]
	s := &session{e: e, c: c}
	croots := cloneHashes(e.roots[:p.n])
	e.normalize(croots)
	old := e.contract
	var req []types.Hash256
	for _, i := range p.add {
		if i < 0 {
			req = append(req, e.missing)
		} else {
			req = append(req, e.roots[i])
		}
	}
	duration := old.Revision.ExpirationHeight - e.prices.TipHeight
	appendedOf := func(accepted []bool) []types.Hash256 {
		var out []types.Hash256
		for i := range accepted {
			if accepted[i] && i < len(req) {
				out = append(out, req[i])
			}
		}
		return out
	}
	other := s.otherRoots(p.n + 1)
	var sent *proto4.RPCAppendSectorsResponse // what the renter received as first response
	s.steps = []stepDef{
		{"resp", func() proto4.Object { return new(proto4.RPCAppendSectorsResponse) }},
		{"sig", func() proto4.Object { return new(proto4.RPCAppendSectorsThirdResponse) }},
	}
	s.call = func(ctx context.Context) (any, error) {
		return rhp4.RPCAppendSectors(ctx, e.tc, e.signer, e.cs, e.prices, old, req)
	}
	s.wireOK = func() bool {
		var w proto4.RPCAppendSectorsRequest
		return s.wireRequest(&w) && w.ContractID == old.ID && slices.Equal(w.Sectors, req)
	}
	// the revision the renter derives from the first response it received
	derived := func(prices proto4.HostPrices) (types.V2FileContract, bool) {
		if sent == nil || len(sent.Accepted) != len(req) {
			return types.V2FileContract{}, false
		}
		rev, _, err := proto4.ReviseForAppendSectors(old.Revision, prices, sent.NewMerkleRoot, uint64(len(appendedOf(sent.Accepted))))
		return rev, err == nil
	}
	s.synth = func(msg string, in inMsg) proto4.Object {
		if msg == "sig" && s.corrupted {
			// a malicious host signs whatever the renter derived from the corrupted response
			if rev, ok := derived(e.prices); ok {
				return &proto4.RPCAppendSectorsThirdResponse{HostSignature: s.hostSign(rev)}
			}
		}
		return nil
	}
	s.mutate = func(msg string, obj proto4.Object, _ *[]byte, f Fault) error {
		if msg == "sig" {
			r := obj.(*proto4.RPCAppendSectorsThirdResponse)
			if f.Field != "HostSignature" {
				return errUnknownFault
			}
			s.expectRev = func() (types.V2FileContract, bool) { return derived(e.prices) }
			alt, ok := derived(e.prices)
			alt = overcharge(alt)
			if !ok {
				alt = old.Revision
				alt.RevisionNumber += 2
			}
			if !s.mutSig(&r.HostSignature, f.How, alt) {
				return errUnknownFault
			}
			return nil
		}
		r := obj.(*proto4.RPCAppendSectorsResponse)
		sent = r
		switch f.Field {
		case "Accepted":
			switch f.How {
			case "flip":
				a := append([]bool(nil), r.Accepted...)
				a[p.dropIdx] = !a[p.dropIdx]
				r.Accepted = a
			case "truncate":
				r.Accepted = append([]bool(nil), r.Accepted[:len(r.Accepted)-1]...)
			case "extend":
				r.Accepted = append(append([]bool(nil), r.Accepted...), true)
			case "wrongCount":
				r.Accepted = nil
			case "resign":
				// coherent liar: claims not to store one sector, proves the smaller append
				a := append([]bool(nil), r.Accepted...)
				a[p.dropIdx] = false
				r.Accepted = a
				r.SubtreeRoots, r.NewMerkleRoot = proto4.BuildAppendProof(croots, appendedOf(a))
			default:
				return errUnknownFault
			}
		case "SubtreeRoots":
			switch f.How {
			case "swapFromOtherExchange":
				r.SubtreeRoots = subtreeRootsOf(other)
			case "otherRoot":
				r.SubtreeRoots = subtreeRootsOf(other[:p.n])
			default:
				if !s.mutHashes(&r.SubtreeRoots, f.How, "subtree") {
					return errUnknownFault
				}
			}
		case "All":
			if f.How != "wrongCount" {
				return errUnknownFault
			}
			r.SubtreeRoots, r.NewMerkleRoot = nil, s.garbageHash("newroot-all")
		case "NewMerkleRoot":
			switch f.How {
			case "flip":
				r.NewMerkleRoot[30] ^= 0x01
			case "swapFromOtherExchange":
				r.NewMerkleRoot = proto4.MetaRoot(other)
			case "otherRoot":
				// everything requested appended, including the sector the host does not have
				r.NewMerkleRoot = proto4.MetaRoot(append(cloneHashes(croots), append(cloneHashes(req), e.roots[11])...))
			case "resign":
				r.NewMerkleRoot = s.garbageHash("newroot")
			default:
				return errUnknownFault
			}
		default:
			return errUnknownFault
		}
		return nil
	}
	inner := s.synth
	s.synth = func(msg string, in inMsg) proto4.Object {
		if msg == "resp" && in.obj != nil {
			sent = in.obj.(*proto4.RPCAppendSectorsResponse)
		}
		return inner(msg, in)
	}
	s.bound = func(res any) (bool, map[string]bool) {
		r := res.(rhp4.RPCAppendSectorsResult)
		d := map[string]bool{}
		// the sectors reported as appended are a subsequence of the requested ones
		j := 0
		for _, h := range r.Sectors {
			for j < len(req) && req[j] != h {
				j++
			}
			if j == len(req) {
				break
			}
			j++
		}
		sub := true
		{
			k := 0
			for _, h := range req {
				if k < len(r.Sectors) && r.Sectors[k] == h {
					k++
				}
			}
			sub = k == len(r.Sectors)
		}
		d["sectorsSubsequenceOfRequest"] = sub
		d["noUnstoredSectorAppended"] = !slices.Contains(r.Sectors, e.missing)
		expect := append(cloneHashes(croots), r.Sectors...)
		ok := s.revisionOK(r.Revision, e.prices.RPCAppendSectorsCost(uint64(len(req)), duration).RenterCost(),
			proto4.MetaRoot(expect), uint64(len(expect))*proto4.SectorSize, d)
		return ok && sub, d
	}
	return s
}

// ---------------------------------------------------------------- FreeSectors

type freeParams struct {
	n            int
	indices, alt []uint64 // alt: the indices a lying host frees instead
}

var freeVariants = []freeParams{
	{5, []uint64{1, 3}, []uint64{0, 2}},
	{8, []uint64{7}, []uint64{2}},
	{6, []uint64{5, 0, 2}, []uint64{1, 3, 4}},
	{4, []uint64{0, 0, 2}, []uint64{1, 3}},    // adjacent duplicate
	{5, []uint64{4, 0, 4}, []uint64{1, 2}},    // duplicate with another index in between
	{6, []uint64{0, 4, 0, 4}, []uint64{1, 5}}, // two of them
}

func normIndices(in []uint64) []uint64 {
	out := slices.Clone(in)
	slices.SortFunc(out, func(a, b uint64) int {
		if a > b {
			return -1
		} else if a < b {
			return 1
		}
		return 0
	})
	return slices.Compact(out)
}

// applyFree is the specification of "free": swap each freed root (highest index first) with the
// current last root, then drop the tail.
func applyFree(roots []types.Hash256, indices []uint64) []types.Hash256 {
	out := cloneHashes(roots)
	for _, i := range normIndices(indices) {
		out[i] = out[len(out)-1]
		out = out[:len(out)-1]
	}
	return out
}

func newFreeSession(e *env, c Case) *session {
	p := freeVariants[c.Variant%len(freeVariants)]
	s := &session{e: e, c: c}
	croots := cloneHashes(e.roots[:p.n])
	e.normalize(croots)
	old := e.contract
	want := applyFree(croots, p.indices)
	nFreed := len(normIndices(p.indices))
	altIdx := normIndices(p.alt)
	altSub, altLeaf := proto4.BuildFreeSectorsProof(croots, altIdx)
	altRoot := proto4.MetaRoot(applyFree(croots, p.alt))
	other := s.otherRoots(p.n)
	otherSub, otherLeaf := proto4.BuildFreeSectorsProof(other, normIndices(p.indices))
	var sent *proto4.RPCFreeSectorsResponse
	s.steps = []stepDef{
		{"resp", func() proto4.Object { return new(proto4.RPCFreeSectorsResponse) }},
		{"sig", func() proto4.Object { return new(proto4.RPCFreeSectorsThirdResponse) }},
	}
	s.call = func(ctx context.Context) (any, error) {
		return rhp4.RPCFreeSectors(ctx, e.tc, e.signer, e.cs, e.prices, old, p.indices)
	}
	// normal form of the request: the distinct indices, highest first
	s.wireOK = func() bool {
		var w proto4.RPCFreeSectorsRequest
		return s.wireRequest(&w) && w.ContractID == old.ID && slices.Equal(w.Indices, normIndices(p.indices))
	}
	nWire := nFreed // number of indices the client actually sent (it prices and signs that many)
	derived := func(prices proto4.HostPrices) (types.V2FileContract, bool) {
		if sent == nil {
			return types.V2FileContract{}, false
		}
		rev, _, err := proto4.ReviseForFreeSectors(old.Revision, prices, sent.NewMerkleRoot, nWire)
		return rev, err == nil
	}
	servedAsSent := false
	s.synth = func(msg string, in inMsg) (out proto4.Object) {
		if msg == "resp" {
			var w proto4.RPCFreeSectorsRequest
			if s.wireRequest(&w) {
				nWire = len(w.Indices)
			}
			if in.obj != nil {
				sent = in.obj.(*proto4.RPCFreeSectorsResponse)
			} else if s.hasFault("resp", "All", "asSent") && in.rpcErr != nil {
				// the honest host refused (duplicate indices ...): a host without that
				// validation serves the list exactly as received -- the honest handler's
				// code path: proof for the list, swap-with-tail once per index, trim
				defer func() {
					if recover() != nil {
						out = nil
					}
				}()
				for _, i := range w.Indices {
					if i >= uint64(len(croots)) {
						return nil
					}
				}
				sub, leaf := proto4.BuildFreeSectorsProof(croots, w.Indices)
				roots := cloneHashes(croots)
				for i, n := range w.Indices {
					roots[n] = roots[len(roots)-i-1]
				}
				roots = roots[:len(roots)-len(w.Indices)]
				sent = &proto4.RPCFreeSectorsResponse{OldSubtreeHashes: sub, OldLeafHashes: leaf, NewMerkleRoot: proto4.MetaRoot(roots)}
				servedAsSent = true
				return sent
			}
		}
		if msg == "sig" && s.corrupted {
			if rev, ok := derived(e.prices); ok {
				return &proto4.RPCFreeSectorsThirdResponse{HostSignature: s.hostSign(rev)}
			}
		}
		return nil
	}
	s.mutate = func(msg string, obj proto4.Object, _ *[]byte, f Fault) error {
		if msg == "sig" {
			r := obj.(*proto4.RPCFreeSectorsThirdResponse)
			if f.Field != "HostSignature" {
				return errUnknownFault
			}
			s.expectRev = func() (types.V2FileContract, bool) { return derived(e.prices) }
			alt, ok := derived(e.prices)
			alt = overcharge(alt)
			if !ok {
				alt = old.Revision
				alt.RevisionNumber += 2
			}
			if !s.mutSig(&r.HostSignature, f.How, alt) {
				return errUnknownFault
			}
			return nil
		}
		r := obj.(*proto4.RPCFreeSectorsResponse)
		sent = r
		switch f.Field {
		case "OldSubtreeHashes":
			switch f.How {
			case "swapFromOtherExchange":
				r.OldSubtreeHashes = altSub
			case "otherRoot":
				r.OldSubtreeHashes = otherSub
			default:
				if !s.mutHashes(&r.OldSubtreeHashes, f.How, "oldsub") {
					return errUnknownFault
				}
			}
		case "OldLeafHashes":
			switch f.How {
			case "swapFromOtherExchange":
				r.OldLeafHashes = altLeaf
			case "otherRoot":
				r.OldLeafHashes = otherLeaf
			case "wrongCount":
				r.OldLeafHashes = nil
			default:
				if !s.mutHashes(&r.OldLeafHashes, f.How, "oldleaf") {
					return errUnknownFault
				}
			}
		case "NewMerkleRoot":
			switch f.How {
			case "flip":
				r.NewMerkleRoot[0] ^= 0x40
			case "swapFromOtherExchange":
				r.NewMerkleRoot = proto4.MetaRoot(applyFree(other, p.indices))
			case "otherRange", "resign":
				// the root after freeing OTHER sectors than requested
				r.NewMerkleRoot = altRoot
			case "otherRoot":
				// plain truncation instead of swap-remove; if that happens to be right, nothing freed
				t := proto4.MetaRoot(croots[:len(croots)-nFreed])
				if t == proto4.MetaRoot(want) {
					t = old.Revision.FileMerkleRoot
				}
				r.NewMerkleRoot = t
			default:
				return errUnknownFault
			}
		case "All":
			switch f.How {
			case "asSent":
				if !servedAsSent {
					s.noop[f.String()] = true // the honest host served the request: nothing to add
				}
			case "otherRange":
				// a complete, internally consistent proof -- for freeing other sectors
				r.OldSubtreeHashes, r.OldLeafHashes, r.NewMerkleRoot = altSub, altLeaf, altRoot
			case "wrongCount":
				r.OldSubtreeHashes, r.OldLeafHashes, r.NewMerkleRoot = nil, nil, altRoot
			default:
				return errUnknownFault
			}
		default:
			return errUnknownFault
		}
		return nil
	}
	s.bound = func(res any) (bool, map[string]bool) {
		r := res.(rhp4.RPCFreeSectorsResult)
		d := map[string]bool{}
		ok := s.revisionOK(r.Revision, e.prices.RPCFreeSectorsCost(nFreed).RenterCost(), proto4.MetaRoot(want), uint64(len(want))*proto4.SectorSize, d)
		return ok, d
	}
	return s
}

// ---------------------------------------------------------------- FreeSectors with an index out of range

// The caller names a sector index the contract does not have.  The only correct outcome is an
// error: the client refuses without dialing (rpc.go since 60c450d); the reference host would refuse
// too.  A host could also answer with a valid proof of the old root for the in-range part and any
// new root (fault resp.All:otherRange): a client that dials and trusts that panics in core.
var freeOORVariants = [][]uint64{{9}, {5}, {2, 7}, {100, 101}}

func newFreeOutOfRangeSession(e *env, c Case) *session {
	indices := freeOORVariants[c.Variant%len(freeOORVariants)]
	s := &session{e: e, c: c}
	croots := cloneHashes(e.roots[:5])
	e.normalize(croots)
	old := e.contract
	lying := false
	for _, f := range c.Faults {
		if f.Msg == "resp" && f.Field == "All" && f.How == "otherRange" {
			lying = true
		}
	}
	var sub, leaf []types.Hash256
	func() {
		defer func() { recover() }() // core's builder may itself choke on the indices
		sub, leaf = proto4.BuildFreeSectorsProof(croots, normIndices(indices))
	}()
	newRoot := proto4.MetaRoot(croots[:4])
	s.steps = []stepDef{
		{"resp", func() proto4.Object { return new(proto4.RPCFreeSectorsResponse) }},
		{"sig", func() proto4.Object { return new(proto4.RPCFreeSectorsThirdResponse) }},
	}
	s.call = func(ctx context.Context) (any, error) {
		return rhp4.RPCFreeSectors(ctx, e.tc, e.signer, e.cs, e.prices, old, indices)
	}
	s.synth = func(msg string, in inMsg) proto4.Object {
		if !lying {
			return nil
		}
		if msg == "resp" {
			return &proto4.RPCFreeSectorsResponse{OldSubtreeHashes: sub, OldLeafHashes: leaf, NewMerkleRoot: newRoot}
		}
		if rev, _, err := proto4.ReviseForFreeSectors(old.Revision, e.prices, newRoot, len(normIndices(indices))); err == nil {
			return &proto4.RPCFreeSectorsThirdResponse{HostSignature: s.hostSign(rev)}
		}
		return nil
	}
	s.mutate = func(msg string, obj proto4.Object, raw *[]byte, f Fault) error {
		if msg == "resp" && f.Field == "All" && f.How == "otherRange" {
			return nil // done by synth: the honest host sent an error, not a response
		}
		return errUnknownFault
	}
	s.bound = func(res any) (bool, map[string]bool) {
		// no revision can be "the old root with the requested change applied": the change is not defined
		return false, map[string]bool{"requestedChangeDefined": false}
	}
	return s
}

// ---------------------------------------------------------------- further argument edges (unservable)

// RPCSectorRoots with an empty range or one that leaves the contract: the client refuses it itself
// (request validation); a host could answer all the same (fault resp.All:otherRange).
var rootsOORVariants = [][2]uint64{{4, 2}, {5, 1}, {0, 6}, {2, 0}, {6, 1}, {0, 0}}

func newRootsOutOfRangeSession(e *env, c Case) *session {
	p := rootsOORVariants[c.Variant%len(rootsOORVariants)]
	offset, length := p[0], p[1]
	s := &session{e: e, c: c}
	croots := cloneHashes(e.roots[:5])
	e.normalize(croots)
	old := e.contract
	lying := s.hasFault("resp", "All", "otherRange")
	s.steps = []stepDef{{"resp", func() proto4.Object { return new(proto4.RPCSectorRootsResponse) }}}
	s.call = func(ctx context.Context) (any, error) {
		return rhp4.RPCSectorRoots(ctx, e.tc, e.cs, e.prices, e.signer, old, offset, length)
	}
	s.synth = func(msg string, in inMsg) proto4.Object {
		if !lying {
			return nil
		}
		roots := make([]types.Hash256, length)
		for i := range roots {
			roots[i] = e.roots[(int(offset)+i)%numSectors]
		}
		resp := &proto4.RPCSectorRootsResponse{Roots: roots, Proof: []types.Hash256{proto4.MetaRoot(croots[:4])}}
		if rev, _, err := proto4.ReviseForSectorRoots(old.Revision, e.prices, length); err == nil {
			resp.HostSignature = s.hostSign(rev)
		}
		return resp
	}
	s.mutate = func(msg string, obj proto4.Object, raw *[]byte, f Fault) error {
		if f.Field == "All" && f.How == "otherRange" {
			return nil // done by synth
		}
		return errUnknownFault
	}
	s.bound = func(any) (bool, map[string]bool) {
		return false, map[string]bool{"requestedRangeExists": false}
	}
	return s
}

// RPCReadSector with an empty range, a range that ends unaligned or leaves the sector: refused by
// the client itself; a host could answer with some leaf and its proof.
var readInvalidVariants = []readParams{
	{0, 0, 32},
	{1, proto4.SectorSize - 64, 128},
	{2, 0, 0},
	{3, proto4.SectorSize, 64},
}

func newReadInvalidSession(e *env, c Case) *session {
	p := readInvalidVariants[c.Variant%len(readInvalidVariants)]
	s := &session{e: e, c: c}
	leaf, proof := e.hostRead(p.sector, 0, 64)
	lying := s.hasFault("resp", "All", "otherRange")
	s.steps = []stepDef{
		{"resp", func() proto4.Object { return new(proto4.RPCReadSectorResponse) }},
		{"data", nil},
	}
	s.rawLen = func() int { return 0 }
	var buf bytes.Buffer
	s.call = func(ctx context.Context) (any, error) {
		return rhp4.RPCReadSector(ctx, e.tc, e.prices, e.token(), &buf, e.roots[p.sector], p.offset, p.length)
	}
	s.synth = func(msg string, in inMsg) proto4.Object {
		if msg == "resp" && lying {
			return &proto4.RPCReadSectorResponse{Proof: proof, DataLength: 64}
		}
		return nil
	}
	s.dataHook = func(raw []byte) []byte {
		if lying {
			return append([]byte(nil), leaf...)
		}
		return raw
	}
	s.mutate = func(msg string, obj proto4.Object, raw *[]byte, f Fault) error {
		if f.Field == "All" && f.How == "otherRange" {
			return nil
		}
		return errUnknownFault
	}
	s.bound = func(any) (bool, map[string]bool) {
		return false, map[string]bool{"requestedRangeExists": false}
	}
	return s
}

// RPCAppendSectors with no roots: sent as it is; the honest host refuses; a host that serves the
// request as sent (fault resp.All:asSent) proves and signs the append of nothing -- which is bound.
func newAppendEmptySession(e *env, c Case) *session {
	n := []int{5, 0, 8, 3, 1, 6}[c.Variant%6]
	s := &session{e: e, c: c}
	croots := cloneHashes(e.roots[:n])
	e.normalize(croots)
	old := e.contract
	lying := s.hasFault("resp", "All", "asSent")
	s.steps = []stepDef{
		{"resp", func() proto4.Object { return new(proto4.RPCAppendSectorsResponse) }},
		{"sig", func() proto4.Object { return new(proto4.RPCAppendSectorsThirdResponse) }},
	}
	s.call = func(ctx context.Context) (any, error) {
		return rhp4.RPCAppendSectors(ctx, e.tc, e.signer, e.cs, e.prices, old, nil)
	}
	s.synth = func(msg string, in inMsg) proto4.Object {
		if !lying || in.obj != nil {
			return nil
		}
		root := proto4.MetaRoot(croots)
		if msg == "resp" {
			return &proto4.RPCAppendSectorsResponse{Accepted: []bool{}, SubtreeRoots: subtreeRootsOf(croots), NewMerkleRoot: root}
		}
		if rev, _, err := proto4.ReviseForAppendSectors(old.Revision, e.prices, root, 0); err == nil {
			return &proto4.RPCAppendSectorsThirdResponse{HostSignature: s.hostSign(rev)}
		}
		return nil
	}
	s.mutate = func(msg string, obj proto4.Object, raw *[]byte, f Fault) error {
		if f.Field == "All" && f.How == "asSent" {
			return nil
		}
		return errUnknownFault
	}
	s.bound = func(res any) (bool, map[string]bool) {
		r := res.(rhp4.RPCAppendSectorsResult)
		d := map[string]bool{"nothingAppended": len(r.Sectors) == 0}
		ok := s.revisionOK(r.Revision, types.ZeroCurrency, proto4.MetaRoot(croots), uint64(n)*proto4.SectorSize, d)
		return ok && d["nothingAppended"], d
	}
	return s
}

// ---------------------------------------------------------------- FundAccounts

func newFundSession(e *env, c Case) *session {
	nDep := []int{1, 3, 2, 5}[c.Variant%4]
	s := &session{e: e, c: c}
	e.normalize(cloneHashes(e.roots[:3]))
	old := e.contract
	var deposits []proto4.AccountDeposit
	var total types.Currency
	for i, a := range e.freshAccounts(nDep) {
		amt := types.NewCurrency64(uint64(1000 + 100*i))
		deposits = append(deposits, proto4.AccountDeposit{Account: a, Amount: amt})
		total = total.Add(amt)
	}
	s.steps = []stepDef{{"resp", func() proto4.Object { return new(proto4.RPCFundAccountsResponse) }}}
	s.call = func(ctx context.Context) (any, error) {
		return rhp4.RPCFundAccounts(ctx, e.tc, e.cs, e.signer, old, deposits)
	}
	s.wireOK = func() bool {
		var w proto4.RPCFundAccountsRequest
		return s.wireRequest(&w) && w.ContractID == old.ID && slices.Equal(w.Deposits, deposits)
	}
	s.mutate = func(msg string, obj proto4.Object, _ *[]byte, f Fault) error {
		r := obj.(*proto4.RPCFundAccountsResponse)
		switch f.Field {
		case "Balances":
			b := append([]types.Currency(nil), r.Balances...)
			switch f.How {
			case "flip":
				b[0].Lo ^= 1 << 20
			case "truncate":
				b = b[:len(b)-1]
			case "extend":
				b = append(b, types.NewCurrency64(1))
			case "wrongCount":
				b = nil
			case "swapFromOtherExchange":
				for i := range b {
					b[i] = types.Siacoins(50)
				}
			default:
				return errUnknownFault
			}
			r.Balances = b
		case "HostSignature":
			s.expectRev = func() (types.V2FileContract, bool) {
				rev, _, err := proto4.ReviseForFundAccounts(old.Revision, total)
				return rev, err == nil
			}
			alt, _, err := proto4.ReviseForFundAccounts(old.Revision, total.Add(types.NewCurrency64(1)))
			if err != nil {
				return err
			}
			if !s.mutSig(&r.HostSignature, f.How, alt) {
				return errUnknownFault
			}
		default:
			return errUnknownFault
		}
		return nil
	}
	s.bound = func(res any) (bool, map[string]bool) {
		r := res.(rhp4.RPCFundAccountResult)
		d := map[string]bool{}
		ok := s.revisionOK(r.Revision, total, old.Revision.FileMerkleRoot, old.Revision.Filesize, d)
		truthBal, _ := e.ec.AccountBalances(accountsOf(deposits))
		eq := len(truthBal) == len(r.Balances)
		for i := 0; eq && i < len(truthBal); i++ {
			eq = truthBal[i] == r.Balances[i].Balance
		}
		d["balancesAreTrueBalances"] = eq // informational: the statement makes no claim
		return ok, d
	}
	return s
}

func accountsOf(ds []proto4.AccountDeposit) []proto4.Account {
	out := make([]proto4.Account, len(ds))
	for i := range ds {
		out[i] = ds[i].Account
	}
	return out
}

// ---------------------------------------------------------------- ReplenishAccounts / ReplenishPools

func newReplenishSession(e *env, c Case, pools bool) *session {
	s := &session{e: e, c: c}
	e.normalize(cloneHashes(e.roots[:3]))
	target := types.NewCurrency64(1000)
	var accounts []proto4.Account
	replenish := func(ctx context.Context, accs []proto4.Account, tgt types.Currency) (types.V2FileContract, []proto4.AccountDeposit, error) {
		if pools {
			r, err := rhp4.RPCReplenishPools(ctx, e.tc, rhp4.RPCReplenishPoolsParams{Pools: accs, Target: tgt, Contract: e.contract}, e.cs, e.signer)
			return r.Revision, r.Deposits, err
		}
		r, err := rhp4.RPCReplenishAccounts(ctx, e.tc, rhp4.RPCReplenishAccountsParams{Accounts: accs, Target: tgt, Contract: e.contract}, e.cs, e.signer)
		return r.Revision, r.Deposits, err
	}
	switch c.Variant % 3 {
	case 0:
		accounts = e.freshAccounts(2)
	case 1:
		// one empty, one partially funded (400), one already at the target: honest deposits 1000, 600, 0
		accounts = e.freshAccounts(3)
		for i, amt := range []uint64{0, 400, 1000} {
			if amt == 0 {
				continue
			}
			rev, _, err := replenish(context.Background(), accounts[i:i+1], types.NewCurrency64(amt))
			if err != nil {
				e.tb.Fatal("replenish setup: ", err)
			}
			e.waitServer()
			e.contract.Revision = rev
		}
	case 2:
		accounts = e.freshAccounts(1)
	}
	old := e.contract
	foreign := e.freshAccounts(len(accounts) + 1)
	maxCost := target.Mul64(uint64(len(accounts)))
	var sent *proto4.RPCReplenishAccountsResponse
	s.steps = []stepDef{
		{"resp", func() proto4.Object { return new(proto4.RPCReplenishAccountsResponse) }},
		{"sig", func() proto4.Object { return new(proto4.RPCReplenishAccountsThirdResponse) }},
	}
	type result struct {
		rev      types.V2FileContract
		deposits []proto4.AccountDeposit
	}
	s.call = func(ctx context.Context) (any, error) {
		rev, deps, err := replenish(ctx, accounts, target)
		return result{rev, deps}, err
	}
	s.wireOK = func() bool {
		var w proto4.RPCReplenishAccountsRequest
		return s.wireRequest(&w) && w.ContractID == old.ID && w.Target == target && slices.Equal(w.Accounts, accounts)
	}
	derived := func(extra uint64) (types.V2FileContract, bool) {
		if sent == nil {
			return types.V2FileContract{}, false
		}
		var total types.Currency
		for _, d := range sent.Deposits {
			var of bool
			total, of = total.AddWithOverflow(d.Amount)
			if of {
				return types.V2FileContract{}, false
			}
		}
		rev, _, err := proto4.ReviseForReplenish(old.Revision, total.Add(types.NewCurrency64(extra)))
		return rev, err == nil
	}
	s.synth = func(msg string, in inMsg) proto4.Object {
		if msg == "resp" && in.obj != nil {
			sent = in.obj.(*proto4.RPCReplenishAccountsResponse)
		}
		if msg == "sig" && s.corrupted {
			if rev, ok := derived(0); ok {
				return &proto4.RPCReplenishAccountsThirdResponse{HostSignature: s.hostSign(rev)}
			}
		}
		return nil
	}
	s.mutate = func(msg string, obj proto4.Object, _ *[]byte, f Fault) error {
		if msg == "sig" {
			r := obj.(*proto4.RPCReplenishAccountsThirdResponse)
			if f.Field != "HostSignature" {
				return errUnknownFault
			}
			s.expectRev = func() (types.V2FileContract, bool) { return derived(0) }
			alt, ok := derived(1)
			if !ok {
				alt = old.Revision
				alt.RevisionNumber += 2
			}
			if !s.mutSig(&r.HostSignature, f.How, alt) {
				return errUnknownFault
			}
			return nil
		}
		r := obj.(*proto4.RPCReplenishAccountsResponse)
		sent = r
		if f.Field != "Deposits" {
			return errUnknownFault
		}
		ds := append([]proto4.AccountDeposit(nil), r.Deposits...)
		switch f.How {
		case "flip":
			ds[0].Amount.Lo ^= 1 << 40 // far above the target
		case "truncate":
			ds = ds[:len(ds)-1]
		case "extend":
			ds = append(ds, proto4.AccountDeposit{Account: foreign[len(foreign)-1], Amount: types.NewCurrency64(1)})
		case "wrongCount":
			// twice as many deposits as accounts, each within the target
			for i := range accounts {
				ds[i].Amount = target
				ds = append(ds, proto4.AccountDeposit{Account: foreign[i], Amount: target})
			}
		case "swapFromOtherExchange":
			// the deposits of an exchange about other accounts
			for i := range ds {
				ds[i].Account = foreign[i]
			}
		case "resign":
			// overcharge inside the bound: every account is "topped up" by the full target
			for i := range ds {
				ds[i].Amount = target
			}
		default:
			return errUnknownFault
		}
		r.Deposits = ds
		return nil
	}
	s.bound = func(res any) (bool, map[string]bool) {
		r := res.(result)
		d := map[string]bool{}
		ok := s.revisionOK(r.rev, maxCost, old.Revision.FileMerkleRoot, old.Revision.Filesize, d)
		own := len(r.deposits) == len(accounts)
		for i := 0; own && i < len(accounts); i++ {
			own = r.deposits[i].Account == accounts[i]
		}
		d["depositsAreForRequestedAccounts"] = own // informational: the statement bounds the cost only
		return ok, d
	}
	return s
}

// ---------------------------------------------------------------- informational RPCs

// RPCLatestRevision and RPCAccountBalance hand the host's answer to the caller verbatim; the
// statement of C10 makes no binding claim for them.  They are exercised for HonestSucceeds and for
// robustness (no panic); `bound` records whether the answer was the truth.

func newLatestRevisionSession(e *env, c Case) *session {
	s := &session{e: e, c: c}
	e.normalize(cloneHashes(e.roots[:2+c.Variant%3]))
	prev := e.contract.Revision
	e.normalize(cloneHashes(e.roots[:4]))
	truth := e.contract.Revision
	s.steps = []stepDef{{"resp", func() proto4.Object { return new(proto4.RPCLatestRevisionResponse) }}}
	s.call = func(ctx context.Context) (any, error) {
		return rhp4.RPCLatestRevision(ctx, e.tc, e.contract.ID)
	}
	s.mutate = func(msg string, obj proto4.Object, _ *[]byte, f Fault) error {
		r := obj.(*proto4.RPCLatestRevisionResponse)
		switch {
		case f.Field == "Contract" && f.How == "flip":
			flipSig(&r.Contract.HostSignature)
		case f.Field == "Contract" && f.How == "swapFromOtherExchange":
			r.Contract = prev
		case f.Field == "Contract" && f.How == "resign":
			r.Contract.RevisionNumber++
			r.Contract.RenterOutput.Value = r.Contract.RenterOutput.Value.Div64(2)
			r.Contract.HostSignature = s.hostSign(r.Contract)
		case f.Field == "Revisable" && f.How == "flip":
			r.Revisable = !r.Revisable
		case f.Field == "Renewed" && f.How == "flip":
			r.Renewed = !r.Renewed
		default:
			return errUnknownFault
		}
		return nil
	}
	s.bound = func(res any) (bool, map[string]bool) {
		r := res.(proto4.RPCLatestRevisionResponse)
		sigHash := e.cs.ContractSigHash(r.Contract)
		d := map[string]bool{
			"isLatestRevision": r.Contract == truth && r.Revisable && !r.Renewed,
			"hostSigValid":     e.hostKey.PublicKey().VerifyHash(sigHash, r.Contract.HostSignature),
			"renterSigValid":   e.renterKey.PublicKey().VerifyHash(sigHash, r.Contract.RenterSignature),
		}
		return d["isLatestRevision"] && d["hostSigValid"] && d["renterSigValid"], d
	}
	return s
}

func newAccountBalanceSession(e *env, c Case) *session {
	s := &session{e: e, c: c}
	truth, _ := e.ec.AccountBalance(e.account)
	s.steps = []stepDef{{"resp", func() proto4.Object { return new(proto4.RPCAccountBalanceResponse) }}}
	s.call = func(ctx context.Context) (any, error) {
		return rhp4.RPCAccountBalance(ctx, e.tc, e.account)
	}
	s.mutate = func(msg string, obj proto4.Object, _ *[]byte, f Fault) error {
		r := obj.(*proto4.RPCAccountBalanceResponse)
		if f.Field != "Balance" || f.How != "flip" {
			return errUnknownFault
		}
		r.Balance.Lo ^= 1 << 30
		return nil
	}
	s.bound = func(res any) (bool, map[string]bool) {
		d := map[string]bool{"balanceIsTrueBalance": res.(types.Currency) == truth}
		return d["balanceIsTrueBalance"], d
	}
	return s
}

// ---------------------------------------------------------------- dispatch

func (e *env) newSession(c Case) (*session, error) {
	switch c.RPC {
	case "ReadSector":
		return newReadSession(e, c), nil
	case "ReadUnaligned":
		return newReadUnalignedSession(e, c), nil
	case "FreeOutOfRange":
		return newFreeOutOfRangeSession(e, c), nil
	case "RootsOutOfRange":
		return newRootsOutOfRangeSession(e, c), nil
	case "ReadInvalid":
		return newReadInvalidSession(e, c), nil
	case "AppendEmpty":
		return newAppendEmptySession(e, c), nil
	case "WriteSector":
		return newWriteSession(e, c), nil
	case "VerifySector":
		return newVerifySession(e, c), nil
	case "SectorRoots":
		return newRootsSession(e, c), nil
	case "AppendSectors":
		return newAppendSession(e, c), nil
	case "FreeSectors":
		return newFreeSession(e, c), nil
	case "FundAccounts":
		return newFundSession(e, c), nil
	case "ReplenishAccounts":
		return newReplenishSession(e, c, false), nil
	case "ReplenishPools":
		return newReplenishSession(e, c, true), nil
	case "FormContract":
		return newLifecycleSession(e, c, lifeForm), nil
	case "RenewContract":
		return newLifecycleSession(e, c, lifeRenew), nil
	case "RefreshFull":
		return newLifecycleSession(e, c, lifeRefreshFull), nil
	case "RefreshPartial":
		return newLifecycleSession(e, c, lifeRefreshPartial), nil
	case "LatestRevision":
		return newLatestRevisionSession(e, c), nil
	case "AccountBalance":
		return newAccountBalanceSession(e, c), nil
	}
	return nil, fmt.Errorf("unknown rpc %q", c.RPC)
}
