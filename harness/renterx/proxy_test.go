package renterx

import (
	"bytes"
	"errors"
	"io"
	"net"
	"sync"

	proto4 "go.sia.tech/core/rhp/v4"
)

// The RHP4 stream is not length-framed: a man in the middle has to know the message sequence of
// the RPC.  A script lists the host->renter messages of one exchange; the proxy decodes each of
// them with core's ReadResponse into the right type, lets the session apply the corruption plan,
// re-encodes with WriteResponse and forwards.  Renter->host bytes are forwarded verbatim (and
// captured, so that the harness can read the request the client actually sent).

type stepDef struct {
	name   string
	newObj func() proto4.Object // nil: raw sector data (length given by script.rawLen)
}

// inMsg is what the honest host sent for one step.
type inMsg struct {
	obj    proto4.Object    // decoded message, nil if the host did not send one
	raw    []byte           // raw data step
	rpcErr *proto4.RPCError // the host answered with an RPC error instead
	ioErr  error            // the host closed the stream
}

// outMsg is what the proxy forwards to the renter for that step.
type outMsg struct {
	bytes []byte
	cut   bool // close the stream after writing bytes
}

type script struct {
	steps  []stepDef
	rawLen func() int
	handle func(i int, in inMsg) outMsg

	mu        sync.Mutex
	captured  bytes.Buffer // renter -> host bytes
	delivered int          // number of host messages forwarded (fully written) to the renter
	hostErrs  []string
}

func (sc *script) request() []byte {
	sc.mu.Lock()
	defer sc.mu.Unlock()
	return append([]byte(nil), sc.captured.Bytes()...)
}

func encodeResponse(o proto4.Object) []byte {
	var buf bytes.Buffer
	if err := proto4.WriteResponse(&buf, o); err != nil {
		panic(err)
	}
	return buf.Bytes()
}

// proxy implements memnet.Proxy.
func (sc *script) proxy(_ int, client, server net.Conn) {
	done := make(chan struct{})
	go func() { // renter -> host, verbatim
		defer close(done)
		buf := make([]byte, 64<<10)
		for {
			n, err := client.Read(buf)
			if n > 0 {
				sc.mu.Lock()
				sc.captured.Write(buf[:n])
				sc.mu.Unlock()
				if _, werr := server.Write(buf[:n]); werr != nil {
					break
				}
			}
			if err != nil {
				break
			}
		}
		server.Close() // the renter is gone: let the host handler see EOF
	}()
	for i, st := range sc.steps {
		var in inMsg
		if st.newObj != nil {
			obj := st.newObj()
			if err := proto4.ReadResponse(server, obj); err != nil {
				var re *proto4.RPCError
				if errors.As(err, &re) {
					in.rpcErr = re
					sc.mu.Lock()
					sc.hostErrs = append(sc.hostErrs, st.name+": "+re.Error())
					sc.mu.Unlock()
				} else {
					in.ioErr = err
				}
			} else {
				in.obj = obj
			}
		} else {
			buf := make([]byte, sc.rawLen())
			n, err := io.ReadFull(server, buf)
			in.raw = buf[:n]
			if err != nil {
				in.ioErr = err
			}
		}
		out := sc.handle(i, in)
		if len(out.bytes) > 0 {
			if _, err := client.Write(out.bytes); err != nil {
				break
			}
		}
		if out.cut {
			break
		}
		sc.mu.Lock()
		sc.delivered++
		sc.mu.Unlock()
	}
	client.Close()
	server.Close()
	<-done
}
