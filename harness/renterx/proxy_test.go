package renterx

import (
	"bytes"
	"errors"
	"io"
	"net"
	"sync"
	"sync/atomic"
	"time"

	proto4 "go.sia.tech/core/rhp/v4"
)

// The RHP4 stream is not length-framed: a man in the middle has to know the message sequence of
// the RPC.  A script lists the host->renter messages of one exchange; the proxy decodes each of
// them with core's ReadResponse into the right type, lets the session apply the corruption plan,
// re-encodes with WriteResponse and forwards.  Renter->host bytes are forwarded verbatim (and
// captured, so that the harness can read the request the client actually sent).

type stepDef struct {
	name   string
	newObj func() proto4.Object // nil: raw sector data (length given by script.rawLen)
}

// inMsg is what the honest host sent for one step.
type inMsg struct {
	obj    proto4.Object    // decoded message, nil if the host did not send one
	raw    []byte           // raw data step
	rpcErr *proto4.RPCError // the host answered with an RPC error instead
	ioErr  error            // the host closed the stream
}

// outMsg is what the proxy forwards to the renter for that step.
type outMsg struct {
	bytes []byte
	cut   bool // close the stream after writing bytes
}

type script struct {
	steps  []stepDef
	rawLen func() int
	handle func(i int, in inMsg) outMsg

	// stall > 0: a watchdog closes both sides when no byte has moved in either direction for
	// that long (a host that sends a message promising more bytes than it delivers, and then
	// goes silent, would otherwise keep the renter waiting for its own deadline).
	stall time.Duration

	mu        sync.Mutex
	captured  bytes.Buffer // renter -> host bytes
	delivered int          // number of host messages forwarded (fully written) to the renter
	consumed  []int        // bytes of each forwarded message the renter actually read
	hostErrs  []string
	stalled   bool
	last      atomic.Int64 // unix nanos of the last byte moved
}

func (sc *script) touch() { sc.last.Store(time.Now().UnixNano()) }

func (sc *script) request() []byte {
	sc.mu.Lock()
	defer sc.mu.Unlock()
	return append([]byte(nil), sc.captured.Bytes()...)
}

func encodeResponse(o proto4.Object) []byte {
	var buf bytes.Buffer
	if err := proto4.WriteResponse(&buf, o); err != nil {
		panic(err)
	}
	return buf.Bytes()
}

// proxy implements memnet.Proxy.
func (sc *script) proxy(_ int, client, server net.Conn) {
	done := make(chan struct{})
	sc.touch()
	finished := make(chan struct{})
	defer close(finished)
	if sc.stall > 0 {
		go func() {
			tick := time.NewTicker(sc.stall / 10)
			defer tick.Stop()
			for {
				select {
				case <-finished:
					return
				case <-tick.C:
					if time.Since(time.Unix(0, sc.last.Load())) > sc.stall {
						sc.mu.Lock()
						sc.stalled = true
						sc.mu.Unlock()
						client.Close()
						server.Close()
						return
					}
				}
			}
		}()
	}
	go func() { // renter -> host, verbatim
		defer close(done)
		buf := make([]byte, 64<<10)
		for {
			n, err := client.Read(buf)
			sc.touch()
			if n > 0 {
				sc.mu.Lock()
				sc.captured.Write(buf[:n])
				sc.mu.Unlock()
				if _, werr := server.Write(buf[:n]); werr != nil {
					break
				}
			}
			if err != nil {
				break
			}
		}
		server.Close() // the renter is gone: let the host handler see EOF
	}()
	for i, st := range sc.steps {
		var in inMsg
		if st.newObj != nil {
			obj := st.newObj()
			if err := proto4.ReadResponse(server, obj); err != nil {
				var re *proto4.RPCError
				if errors.As(err, &re) {
					in.rpcErr = re
					sc.mu.Lock()
					sc.hostErrs = append(sc.hostErrs, st.name+": "+re.Error())
					sc.mu.Unlock()
				} else {
					in.ioErr = err
				}
			} else {
				in.obj = obj
			}
		} else {
			buf := make([]byte, sc.rawLen())
			n, err := io.ReadFull(server, buf)
			in.raw = buf[:n]
			if err != nil {
				in.ioErr = err
			}
		}
		sc.touch()
		out := sc.handle(i, in)
		if len(out.bytes) > 0 {
			n, err := client.Write(out.bytes)
			sc.touch()
			sc.mu.Lock()
			sc.consumed = append(sc.consumed, n)
			sc.mu.Unlock()
			if err != nil {
				break
			}
		} else {
			sc.mu.Lock()
			sc.consumed = append(sc.consumed, -1) // nothing offered (a message truncated to nothing)
			sc.mu.Unlock()
		}
		if out.cut {
			break
		}
		sc.mu.Lock()
		sc.delivered++
		sc.mu.Unlock()
	}
	client.Close()
	server.Close()
	<-done
}
