package renterx

import (
	"testing"

	"verifharness/hx"
)

// TestHonest runs one honest exchange per RPC and variant (development smoke test).
func TestHonest(t *testing.T) {
	res := hx.NewResult()
	defer res.Write()
	var cases []Case
	for _, rpc := range []string{"ReadSector", "WriteSector", "VerifySector", "SectorRoots", "AppendSectors", "FreeSectors", "FundAccounts", "ReplenishAccounts", "ReplenishPools", "LatestRevision", "AccountBalance", "FormContract", "RenewContract", "RefreshFull", "RefreshPartial"} {
		for v := 0; v < 4; v++ {
			cases = append(cases, Case{RPC: rpc, Variant: v, SameKey: v%2 == 0 || rpc == "ReadSector" || rpc == "WriteSector" || rpc == "VerifySector", Must: "ok", Info: rpc == "LatestRevision" || rpc == "AccountBalance"})
		}
	}
	runCases(t, replayIn{Cases: cases}, res, nil)
	for _, m := range res.Mismatches {
		t.Errorf("%s: %s", m.Sig, m.Desc)
	}
	t.Logf("%d evaluations, counts %v", res.Evaluations, res.Counts)
}
