// Package renterx is the Leg R/T harness of property C10 ("a successful renter RPC is
// cryptographically bound, whatever the host does").  The REAL client functions of
// /repo/rhp/v4/rpc.go talk to a REAL honest rhp4.Server through harness/memnet; a scripted
// man-in-the-middle (proxy_test.go) applies the corruption plan of each case that TLC enumerated
// from spec/Renter.tla (catalog_test.go); `bound` is evaluated from ground truth owned by the
// harness (ground_test.go).
package renterx

import (
	"context"
	"encoding/binary"
	"fmt"
	"sync"
	"testing"
	"time"

	"go.sia.tech/core/consensus"
	proto4 "go.sia.tech/core/rhp/v4"
	"go.sia.tech/core/types"
	"go.sia.tech/coreutils"
	"go.sia.tech/coreutils/chain"
	rhp4 "go.sia.tech/coreutils/rhp/v4"
	"go.sia.tech/coreutils/testutil"
	"go.sia.tech/coreutils/wallet"
	"go.uber.org/zap"

	"verifharness/hx"
	"verifharness/memnet"
)

// cloneContractor wraps the reference contractor: LockV2Contract hands out a COPY of the sector
// roots (as any database-backed contractor does), so the server's in-place root shuffling in an
// aborted FreeSectors exchange (a C09 matter) cannot contaminate the ground truth of this check.
type cloneContractor struct {
	*testutil.EphemeralContractor
}

func (c *cloneContractor) LockV2Contract(id types.FileContractID) (rhp4.RevisionState, func(), error) {
	rs, unlock, err := c.EphemeralContractor.LockV2Contract(id)
	if err != nil {
		return rs, unlock, err
	}
	rs.Roots = append([]types.Hash256(nil), rs.Roots...)
	return rs, unlock, nil
}

// fundAndSign is the renter's signer (as in /repo/rhp/v4/rpc_test.go).
type fundAndSign struct {
	w  *wallet.SingleAddressWallet
	pk types.PrivateKey
}

func (fs *fundAndSign) FundV2Transaction(txn *types.V2Transaction, amount types.Currency) (types.ChainIndex, []int, error) {
	return fs.w.FundV2Transaction(txn, amount, true)
}
func (fs *fundAndSign) RecommendedFee() types.Currency                  { return fs.w.RecommendedFee() }
func (fs *fundAndSign) ReleaseInputs(txns []types.V2Transaction)        { fs.w.ReleaseInputs(nil, txns) }
func (fs *fundAndSign) SignV2Inputs(txn *types.V2Transaction, ts []int) { fs.w.SignV2Inputs(txn, ts) }
func (fs *fundAndSign) SignHash(h types.Hash256) types.Signature        { return fs.pk.SignHash(h) }

const numSectors = 12 // ground-truth sectors of random bytes owned by the harness (indices 0..11)

// zeroTail[i]: length of the non-zero prefix of ground-truth sector numSectors+i
var zeroTail = []int{1024, proto4.SectorSize / 2, proto4.SectorSize - 64}

// nonZeroPrefix returns the length of the non-zero prefix of a ground-truth sector.
func nonZeroPrefix(sector int) uint64 {
	if sector >= numSectors {
		return uint64(zeroTail[sector-numSectors])
	}
	return proto4.SectorSize
}

type env struct {
	tb           testing.TB
	syncWallet   func()
	lifeCases    int
	life         *env // a second, independent host/chain for the contract lifecycle RPCs (lazily built)
	cm           *chain.Manager
	w            *wallet.SingleAddressWallet
	hostKey      types.PrivateKey
	transportKey types.PrivateKey     // key of the transport identity in the different-keys regime
	tc           rhp4.TransportClient // the transport the client functions of the current case use
	renterKey    types.PrivateKey
	net          *memnet.Net
	server       *rhp4.Server
	ec           *testutil.EphemeralContractor
	ss           *testutil.EphemeralSectorStore
	signer       *fundAndSign
	cs           consensus.State

	prices    proto4.HostPrices
	pricesAt  time.Time
	contract  rhp4.ContractRevision // the renter's view
	account   proto4.Account
	sectors   [][]byte        // ground truth: sector data ...
	roots     []types.Hash256 // ... and roots; all stored on the host
	missing   types.Hash256   // a root the host does not store
	acctCount uint64
	mu        sync.Mutex
}

func seedKey(role string) types.PrivateKey {
	h := types.HashBytes([]byte(fmt.Sprintf("verif/C10/%d/%s", hx.Seed(), role)))
	return types.NewPrivateKeyFromSeed(h[:])
}

// detBytes fills a deterministic pseudo-random byte string (function of VERIF_SEED and tag).
func detBytes(tag string, n int) []byte {
	out := make([]byte, 0, n+32)
	var ctr [8]byte
	seed := types.HashBytes([]byte(fmt.Sprintf("verif/C10/%d/%s", hx.Seed(), tag)))
	for i := uint64(0); len(out) < n; i++ {
		binary.LittleEndian.PutUint64(ctr[:], i)
		h := types.HashBytes(append(seed[:], ctr[:]...))
		out = append(out, h[:]...)
	}
	return out[:n]
}

func detHash(tag string) types.Hash256 { return types.Hash256(detBytes(tag, 32)) }

func waitFor(tb testing.TB, what string, cond func() bool) {
	deadline := time.Now().Add(30 * time.Second)
	for !cond() {
		if time.Now().After(deadline) {
			tb.Fatalf("timeout waiting for %s", what)
		}
		time.Sleep(time.Millisecond)
	}
}

func newEnv(tb testing.TB) *env { return newEnvWith(tb, true) }

// newEnvWith builds a host/chain/contract; withSectors=false skips the ground-truth sectors (the
// contract lifecycle environment does not read or write sector data).
func newEnvWith(tb testing.TB, withSectors bool) *env {
	e := &env{tb: tb}
	n, genesis := testutil.V2Network()
	e.hostKey, e.renterKey = seedKey("host"), seedKey("renter")
	e.transportKey = seedKey("transport-identity")

	db, tipstate, err := chain.NewDBStore(chain.NewMemDB(), n, genesis, nil)
	if err != nil {
		tb.Fatal(err)
	}
	e.cm = chain.NewManager(db, tipstate)
	ws := testutil.NewEphemeralWalletStore()
	e.w, err = wallet.NewSingleAddressWallet(seedKey("wallet"), e.cm, ws, &testutil.MockSyncer{})
	if err != nil {
		tb.Fatal(err)
	}
	tb.Cleanup(func() { e.w.Close() })
	var syncWallet func()
	defer func() { e.syncWallet = syncWallet }()
	syncWallet = func() {
		for {
			tip, err := ws.Tip()
			if err != nil {
				tb.Fatal(err)
			}
			if tip == e.cm.Tip() {
				return
			}
			reverted, applied, err := e.cm.UpdatesSince(tip, 1000)
			if err != nil {
				tb.Fatal(err)
			}
			if err := ws.UpdateChainState(func(tx wallet.UpdateTx) error {
				return e.w.UpdateChainState(tx, reverted, applied)
			}); err != nil {
				tb.Fatal(err)
			}
		}
	}
	testutil.MineBlocks(tb, e.cm, e.w.Address(), int(n.MaturityDelay+20))
	syncWallet()

	sr := testutil.NewEphemeralSettingsReporter()
	sr.Update(proto4.HostSettings{
		Release:             "verif",
		AcceptingContracts:  true,
		WalletAddress:       e.w.Address(),
		MaxCollateral:       types.Siacoins(10000),
		MaxContractDuration: 1000,
		RemainingStorage:    1000 * proto4.SectorSize,
		TotalStorage:        1000 * proto4.SectorSize,
		Prices: proto4.HostPrices{
			ContractPrice:   types.Siacoins(1).Div64(5),
			StoragePrice:    types.NewCurrency64(100),
			IngressPrice:    types.NewCurrency64(100),
			EgressPrice:     types.NewCurrency64(100),
			Collateral:      types.NewCurrency64(200),
			FreeSectorPrice: types.NewCurrency64(1000),
		},
	})
	e.ss = testutil.NewEphemeralSectorStore()
	e.ec = testutil.NewEphemeralContractor(e.cm)
	tb.Cleanup(func() { e.ec.Close() })
	e.server = rhp4.NewServer(e.hostKey, e.cm, &cloneContractor{e.ec}, e.w, sr, e.ss, rhp4.WithPriceTableValidity(time.Hour))
	e.net = memnet.New(e.hostKey.PublicKey())
	e.tc = e.net
	go e.server.Serve(e.net, zap.NewNop())
	tb.Cleanup(func() { e.net.Close(); e.server.Close() })

	e.signer = &fundAndSign{e.w, e.renterKey}
	e.refreshPrices()

	form, err := rhp4.RPCFormContract(context.Background(), e.net, e.cm, e.signer, e.cm.TipState(), e.prices, e.hostKey.PublicKey(), e.w.Address(), proto4.RPCFormContractParams{
		RenterPublicKey: e.renterKey.PublicKey(),
		RenterAddress:   e.w.Address(),
		Allowance:       types.Siacoins(500),
		Collateral:      types.Siacoins(1000),
		ProofHeight:     e.cm.Tip().Height + 500,
	})
	if err != nil {
		tb.Fatal("form contract: ", err)
	}
	e.waitServer()
	e.contract = form.Contract
	testutil.MineBlocks(tb, e.cm, types.VoidAddress, 1)
	syncWallet()
	waitFor(tb, "contractor tip", func() bool { t, _ := e.ec.Tip(); return t == e.cm.Tip() })
	e.cs = e.cm.TipState()
	e.refreshPrices()

	// ground-truth sectors, stored on the host directly through the Sectors interface
	// sectors numSectors.. are ZERO-TAILED: random bytes up to zeroTail[i], zeros from there on -- what
	// a host stores for any RPCWriteSector upload shorter than a sector
	for i := 0; withSectors && i < numSectors+len(zeroTail); i++ {
		var sector [proto4.SectorSize]byte
		n := proto4.SectorSize
		if i >= numSectors {
			n = zeroTail[i-numSectors]
		}
		copy(sector[:], detBytes(fmt.Sprintf("sector/%d", i), n))
		root := proto4.SectorRoot(&sector)
		if err := e.ss.StoreSector(root, &sector, nil, e.cm.Tip().Height+10000); err != nil {
			tb.Fatal(err)
		}
		e.sectors = append(e.sectors, sector[:])
		e.roots = append(e.roots, root)
	}
	e.missing = detHash("missing-sector")

	// fund the renter's account (honest exchange)
	e.account = proto4.Account(e.renterKey.PublicKey())
	fund, err := rhp4.RPCFundAccounts(context.Background(), e.net, e.cs, e.signer, e.contract, []proto4.AccountDeposit{{Account: e.account, Amount: types.Siacoins(50)}})
	if err != nil {
		tb.Fatal("fund account: ", err)
	}
	e.waitServer()
	e.contract.Revision = fund.Revision
	return e
}

func (e *env) waitServer() {
	if !e.net.WaitLastServerDone(20 * time.Second) {
		e.tb.Fatal("host handler did not return")
	}
	e.net.WaitProxies()
}

// refreshPrices fetches a freshly signed price table (honest exchange, no proxy).
func (e *env) refreshPrices() {
	e.net.SetProxy(nil)
	s, err := rhp4.RPCSettings(context.Background(), e.net)
	if err != nil {
		e.tb.Fatal("settings: ", err)
	}
	e.waitServer()
	e.prices = s.Prices
	e.pricesAt = time.Now()
}

func (e *env) token() proto4.AccountToken {
	return proto4.NewAccountToken(e.renterKey, e.hostKey.PublicKey())
}

// hostState reads the host's current contract state straight from the contractor.
func (e *env) hostState() rhp4.RevisionState {
	var rs rhp4.RevisionState
	var unlock func()
	var err error
	for i := 0; ; i++ {
		rs, unlock, err = e.ec.LockV2Contract(e.contract.ID)
		if err == nil {
			break
		}
		if i > 2000 {
			e.tb.Fatal("lock contract: ", err)
		}
		time.Sleep(time.Millisecond)
	}
	rs.Roots = append([]types.Hash256(nil), rs.Roots...)
	unlock()
	return rs
}

// normalize puts the contract into a canonical state with the given sector roots: the harness
// holds both keys, so it revises the contract directly through the Contractor interface.  Every
// case therefore starts from a known state and is replayable on its own.
func (e *env) normalize(roots []types.Hash256) {
	rs := e.hostState()
	rev := rs.Revision
	rev.RevisionNumber++
	rev.Filesize = uint64(len(roots)) * proto4.SectorSize
	rev.Capacity = rev.Filesize // no spare capacity: an append always has to pay for growth
	rev.FileMerkleRoot = proto4.MetaRoot(roots)
	sigHash := e.cs.ContractSigHash(rev)
	rev.RenterSignature = e.renterKey.SignHash(sigHash)
	rev.HostSignature = e.hostKey.SignHash(sigHash)
	if err := e.ec.ReviseV2Contract(e.contract.ID, rev, roots, proto4.Usage{}); err != nil {
		e.tb.Fatal("normalize: ", err)
	}
	e.contract.Revision = rev
	if time.Since(e.pricesAt) > 20*time.Minute {
		e.refreshPrices()
	}
}

// freshAccounts returns n never-used accounts (deterministic in VERIF_SEED and call order).
func (e *env) freshAccounts(n int) []proto4.Account {
	out := make([]proto4.Account, n)
	for i := range out {
		e.acctCount++
		out[i] = proto4.Account(detHash(fmt.Sprintf("account/%d", e.acctCount)))
	}
	return out
}

// mine mines n blocks paying the wallet and brings wallet and contractor up to the new tip.
func (e *env) mine(n int) {
	for ; n > 0; n-- {
		b, ok := coreutils.MineBlock(e.cm, e.w.Address(), 30*time.Second)
		if !ok {
			e.tb.Fatal("failed to mine a block")
		} else if err := e.cm.AddBlocks([]types.Block{b}); err != nil {
			e.tb.Fatal(err)
		}
	}
	e.syncWallet()
	waitFor(e.tb, "contractor tip", func() bool { t, _ := e.ec.Tip(); return t == e.cm.Tip() })
}

// lifeEnv returns the environment of the contract lifecycle RPCs (form, renew, refresh): they mine a
// block or two per case, which must not age the contract the other RPCs work on.
// The difficulty adjusts upwards while blocks are mined within milliseconds of each other, so the
// environment is replaced after a few hundred cases.
func (e *env) lifeEnv() *env {
	if e.life == nil || e.lifeCases >= 250 {
		e.life = newEnvWith(e.tb, false)
		e.lifeCases = 0
	}
	e.lifeCases++
	return e.life
}

// otherKeyTransport is the same stream transport presented under another identity: PeerKey() is not
// the host key of the contract (separate / rotated transport identity, pooled connection, ...).
type otherKeyTransport struct {
	*memnet.Net
	key types.PublicKey
}

func (t *otherKeyTransport) PeerKey() types.PublicKey { return t.key }

func (e *env) transport(sameKey bool) rhp4.TransportClient {
	if sameKey {
		return e.net
	}
	return &otherKeyTransport{e.net, e.transportKey.PublicKey()}
}
