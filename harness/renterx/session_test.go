package renterx

import (
	"bytes"
	"context"
	"fmt"
	"sort"
	"time"

	proto4 "go.sia.tech/core/rhp/v4"
	"go.sia.tech/core/types"

	"verifharness/hx"
)

// A Fault is one corruption of one field of one host message, as enumerated by TLC from
// spec/Renter.tla (Catalog).  How = "random" (field "Bytes"/"Raw") is the K-th seeded random
// byte-level mutation of the encoded message.
type Fault struct {
	Msg   string `json:"msg"`
	Field string `json:"field"`
	How   string `json:"how"`
	K     int    `json:"k"`
}

func (f Fault) String() string {
	if f.How == "random" {
		return fmt.Sprintf("%s.%s:random#%d", f.Msg, f.Field, f.K)
	}
	return fmt.Sprintf("%s.%s:%s", f.Msg, f.Field, f.How)
}

// A Case is one behaviour of Renter.tla: an RPC, a parameter variant and a fault plan.
type Case struct {
	RPC     string  `json:"rpc"`
	Variant int     `json:"variant"`
	Faults  []Fault `json:"faults"`
	Must    string  `json:"must"`  // acceptance rule of the spec: "ok" | "err" | "any"
	Model   string  `json:"model"` // outcome of the spec's abstract client (informational)
	Info    bool    `json:"info"`  // informational RPC: the statement makes no binding claim
	// SameKey: the transport's peer key is the contract's host key (false: the renter talks to the
	// host over a transport identity with a different key).
	SameKey bool `json:"samekey"`
	// Unservable: a request the client accepts but the honest reference host refuses.
	Unservable bool `json:"unservable"`
	// Classes maps Fault.String() to the class the spec's Catalog gives the fault
	// ("unbind" | "evidence" | "neutral" | "coherent" | "info" | "random").
	Classes map[string]string `json:"classes"`
}

func (c Case) Key() string {
	fs := make([]string, len(c.Faults))
	for i, f := range c.Faults {
		fs[i] = f.String()
	}
	sort.Strings(fs)
	regime := ""
	if !c.SameKey {
		regime = "dk" // different keys
	}
	return fmt.Sprintf("%s/v%d%s/%v", c.RPC, c.Variant, regime, fs)
}

// A session is one prepared exchange: parameters chosen, contract normalised, ground truth and
// donor values computed.  The closures are the RPC-specific parts.
type session struct {
	e     *env
	c     Case
	steps []stepDef
	// call invokes the real client function.
	call func(ctx context.Context) (any, error)
	// mutate applies one field-level fault to the decoded message of step `msg` (raw != nil for
	// the raw data step).  It returns an error for a (msg, field, how) it does not know.
	mutate func(msg string, obj proto4.Object, raw *[]byte, f Fault) error
	// synth may replace the host's message of a step (nil: keep).  Used where the malicious
	// host has to answer something the honest host would not: a host signature over the
	// revision the renter derives from a corrupted first response.
	synth func(msg string, in inMsg) proto4.Object
	// bound evaluates the ground-truth predicate of the statement on a successful result.
	bound func(res any) (bool, map[string]bool)
	// rawLen gives the length of the raw data step (ReadSector).
	rawLen func() int

	sc         *script
	noop       map[string]bool // faults that did not change the forwarded bytes
	unknown    []string
	corrupted  bool            // some host message was altered
	void       map[string]bool // faults that were applied to a message the host sent and left its bytes unchanged
	noWatchdog bool
	// expectRev: the revision the renter derives in this exchange (what a host signs, with whatever key)
	expectRev func() (types.V2FileContract, bool)
	// wireOK reports whether the request the client put on the wire is the normal form of the
	// caller's arguments (nil: not checked).  Evaluated after the exchange, if a stream was dialed.
	wireOK   func() bool
	extendAt map[int]int // step -> offset at which Raw/extend garbage begins
	// dataHook may replace the honest raw data of a raw step before field faults are applied.
	dataHook func([]byte) []byte
}

func faultRank(f Fault) int {
	switch {
	case f.Field == "All":
		return 0
	case f.Field == "Raw" || f.How == "random":
		return 2
	case f.Field == "Stream": // closing the stream early comes last: it cuts whatever is being sent
		return 3
	}
	return 1
}

func (s *session) faultsFor(msg string) []Fault {
	var out []Fault
	for _, f := range s.c.Faults {
		if f.Msg == msg {
			out = append(out, f)
		}
	}
	sort.SliceStable(out, func(i, j int) bool { return faultRank(out[i]) < faultRank(out[j]) })
	return out
}

func (s *session) garbage(tag string, n int) []byte {
	return detBytes(fmt.Sprintf("garbage/%s/%s", s.c.Key(), tag), n)
}

func (s *session) garbageHash(tag string) types.Hash256 { return types.Hash256(s.garbage(tag, 32)) }

// randomMutation applies the K-th seeded byte-level mutation to b.
func (s *session) randomMutation(b []byte, f Fault) []byte {
	if len(b) == 0 {
		return b
	}
	h := types.HashBytes([]byte(fmt.Sprintf("%s/%s/%d/%d", s.c.RPC, f.Msg, s.c.Variant, f.K)))
	var salt int64
	for i := 0; i < 8; i++ {
		salt = salt<<8 | int64(h[i])
	}
	rng := hx.Rand(salt)
	b = append([]byte(nil), b...)
	switch rng.Intn(5) {
	case 0: // flip one bit
		b[rng.Intn(len(b))] ^= 1 << uint(rng.Intn(8))
	case 1: // overwrite one byte
		b[rng.Intn(len(b))] = byte(rng.Intn(256))
	case 2: // flip bits at up to three places
		for i := 0; i < 1+rng.Intn(3); i++ {
			b[rng.Intn(len(b))] ^= 1 << uint(rng.Intn(8))
		}
	case 3: // swap two bytes
		i, j := rng.Intn(len(b)), rng.Intn(len(b))
		b[i], b[j] = b[j], b[i]
	case 4: // overwrite a short run
		i := rng.Intn(len(b))
		for j := i; j < len(b) && j < i+1+rng.Intn(8); j++ {
			b[j] = byte(rng.Intn(256))
		}
	}
	return b
}

// wireRequest decodes the request the client actually sent (captured by the proxy) into obj.
func (s *session) wireRequest(obj proto4.Object) bool {
	r := bytes.NewReader(s.sc.request())
	if _, err := proto4.ReadID(r); err != nil {
		return false
	}
	return proto4.ReadRequest(r, obj) == nil
}

func (s *session) hasFault(msg, field, how string) bool {
	for _, f := range s.c.Faults {
		if f.Msg == msg && f.Field == field && f.How == how {
			return true
		}
	}
	return false
}

// handle is the script's per-message hook.
func (s *session) handle(i int, in inMsg) (out outMsg) {
	out.cut = true
	name := s.steps[i].name
	faults := s.faultsFor(name)
	obj := in.obj
	if s.synth != nil {
		if o := s.synth(name, in); o != nil {
			obj = o
		}
	}
	isRaw := s.steps[i].newObj == nil
	var cur []byte
	switch {
	case isRaw:
		cur = in.raw
		if s.dataHook != nil {
			cur = s.dataHook(cur)
		}
	case obj != nil:
		cur = encodeResponse(obj)
	case in.rpcErr != nil:
		// the host refused: forward its error unchanged
		return outMsg{bytes: encodeResponse(in.rpcErr), cut: true}
	default:
		return outMsg{cut: true}
	}
	honest := cur
	if isRaw {
		honest = in.raw
	} else if in.obj != nil {
		honest = encodeResponse(in.obj)
	} else {
		honest = nil // synthesized where the host sent nothing
	}
	cut := false
	defer func() {
		// a fault the harness cannot apply (e.g. on a message the host never sent) must not
		// take the process down: it is reported and fails the run as an infrastructure error
		if r := recover(); r != nil {
			s.unknown = append(s.unknown, fmt.Sprintf("mutation of %s panicked: %v", name, r))
		}
	}()
	for _, f := range faults {
		before := append([]byte(nil), cur...)
		switch {
		case f.How == "random":
			cur = s.randomMutation(cur, f)
		case f.Field == "Raw" && f.How == "truncate":
			n := len(cur) / 2
			if n >= len(cur) {
				n = len(cur) - 1
			}
			cur = cur[:n]
			cut = true
		case f.Field == "Raw" && f.How == "extend":
			s.extendAt[i] = len(cur)
			cur = append(append([]byte(nil), cur...), s.garbage("raw-extend/"+name, 72)...)
		case isRaw:
			raw := append([]byte(nil), cur...)
			if err := s.mutate(name, nil, &raw, f); err != nil {
				s.unknown = append(s.unknown, f.String()+": "+err.Error())
			}
			cur = raw
		default:
			if err := s.mutate(name, obj, nil, f); err != nil {
				s.unknown = append(s.unknown, f.String()+": "+err.Error())
			}
			cur = encodeResponse(obj)
		}
		if bytes.Equal(before, cur) && !(f.Field == "All") {
			s.noop[f.String()] = true
			s.void[f.String()] = true
		}
	}
	if honest == nil || !bytes.Equal(honest, cur) {
		s.corrupted = true
	}
	if isRaw && len(cur) < len(in.raw) {
		cut = true
	}
	return outMsg{bytes: cur, cut: cut}
}

// Outcome is the recorded result of one case.
type Outcome struct {
	Outcome   string          `json:"outcome"` // ok | err | panic
	Bound     bool            `json:"bound"`
	Err       string          `json:"err,omitempty"`
	Detail    map[string]bool `json:"detail,omitempty"`
	Delivered int             `json:"delivered"`
	Consumed  []int           `json:"consumed"`
	Stalled   bool            `json:"stalled,omitempty"`
	// Dialed: the client opened a stream.  A client that refuses a request locally (an error
	// without any exchange) never meets the host, whatever the fault plan says.
	Dialed bool `json:"dialed"`
	// Wire: the request on the wire was the normal form of the arguments (true if nothing was sent).
	Wire bool `json:"wire"`
	// Noop: faults that did not change the bytes on the wire, or sit on a message the renter
	// never read a byte of (it had returned already)
	Noop []string `json:"noop,omitempty"`
	// Void: the subset of Noop that WAS applied to a delivered message without changing a byte
	// (a catalogue entry the harness failed to make effective -- never the client's doing)
	Void      []string `json:"void,omitempty"`
	Corrupted bool     `json:"corrupted"`
	HostErrs  []string `json:"hostErrs,omitempty"`
	Unknown   []string `json:"unknown,omitempty"`
	Millis    float64  `json:"ms"`
}

// run executes the exchange through the proxy and evaluates the outcome.
func (s *session) run() Outcome {
	e := s.e
	s.noop = map[string]bool{}
	s.void = map[string]bool{}
	s.extendAt = map[int]int{}
	s.sc = &script{steps: s.steps, handle: s.handle, rawLen: s.rawLen}
	if !s.noWatchdog {
		for _, f := range s.c.Faults {
			if f.Field == "Raw" || f.How == "random" {
				s.sc.stall = time.Duration(hx.EnvInt("VERIF_STALL_MS", 1500)) * time.Millisecond
			}
		}
	}
	e.net.SetProxy(s.sc.proxy)
	defer e.net.SetProxy(nil)
	t0 := time.Now()
	var out Outcome
	streams := e.net.Streams()
	func() {
		defer func() {
			if r := recover(); r != nil {
				out.Outcome = "panic"
				out.Err = fmt.Sprint(r)
			}
		}()
		ctx, cancel := context.WithTimeout(context.Background(), time.Duration(hx.EnvInt("VERIF_CALL_TIMEOUT_MS", 30000))*time.Millisecond)
		defer cancel()
		res, err := s.call(ctx)
		if err != nil {
			out.Outcome = "err"
			out.Err = err.Error()
			if len(out.Err) > 300 {
				out.Err = out.Err[:300]
			}
			return
		}
		out.Outcome = "ok"
		out.Bound, out.Detail = s.bound(res)
	}()
	out.Millis = float64(time.Since(t0).Microseconds()) / 1000
	out.Dialed = e.net.Streams() > streams
	out.Wire = true
	if out.Dialed && s.wireOK != nil {
		func() {
			defer func() {
				if recover() != nil {
					out.Wire = false
				}
			}()
			out.Wire = s.wireOK()
		}()
	}
	e.waitServer()
	s.sc.mu.Lock()
	out.Delivered = s.sc.delivered
	out.HostErrs = s.sc.hostErrs
	out.Consumed = append([]int(nil), s.sc.consumed...)
	out.Stalled = s.sc.stalled
	s.sc.mu.Unlock()
	for _, f := range s.c.Faults {
		for i, st := range s.steps {
			if st.name != f.Msg {
				continue
			}
			if i >= len(out.Consumed) || out.Consumed[i] == 0 {
				s.noop[f.String()] = true // the renter never read a byte of that message
			} else if at, ok := s.extendAt[i]; ok && f.Field == "Raw" && f.How == "extend" && out.Consumed[i] <= at {
				s.noop[f.String()] = true // ... or of the garbage appended to it
			}
		}
	}
	for k := range s.noop {
		out.Noop = append(out.Noop, k)
	}
	sort.Strings(out.Noop)
	for k := range s.void {
		out.Void = append(out.Void, k)
	}
	sort.Strings(out.Void)
	out.Corrupted = s.corrupted
	out.Unknown = s.unknown
	return out
}
