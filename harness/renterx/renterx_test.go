package renterx

import (
	"context"
	"encoding/json"
	"fmt"
	"os"
	"path/filepath"
	"slices"
	"sort"
	"strings"
	"testing"

	"verifharness/hx"
)

type replayIn struct {
	Cases []Case `json:"cases"`
	// Stub switches on a deliberately wrong ground-truth oracle / client stub (selftest only).
	Stub string `json:"stub"`
}

// traceEvent is one line of the NDJSON trace validated by spec/RenterTrace.tla.
type traceEvent struct {
	Op      string  `json:"op"`
	RPC     string  `json:"rpc"`
	Variant int     `json:"variant"`
	Faults  []Fault `json:"faults"`
	Eff     []Fault `json:"eff"` // the faults that changed the forwarded bytes
	Outcome string  `json:"outcome"`
	Bound   bool    `json:"bound"`
	SameKey bool    `json:"samekey"`
	Wire    bool    `json:"wire"` // the request on the wire was the normal form of the arguments
	Note    string  `json:"note"` // slug of the panic message, if any (not read by the spec)
}

// slug turns a panic message into a short signature component.
func slug(s string) string {
	var b strings.Builder
	for _, r := range s {
		switch {
		case r >= 'a' && r <= 'z', r >= 'A' && r <= 'Z', r >= '0' && r <= '9':
			b.WriteRune(r)
		default:
			if str := b.String(); len(str) > 0 && str[len(str)-1] != '-' {
				b.WriteByte('-')
			}
		}
		if b.Len() >= 60 {
			break
		}
	}
	return strings.Trim(b.String(), "-")
}

func faultSig(fs []Fault) string {
	if len(fs) == 0 {
		return "honest"
	}
	parts := make([]string, len(fs))
	for i, f := range fs {
		parts[i] = f.Msg + "." + f.Field + ":" + f.How
	}
	sort.Strings(parts)
	return strings.Join(parts, "+")
}

// effective splits the plan into effective and no-op faults.
func effective(c Case, o Outcome) (eff []Fault) {
	noop := map[string]bool{}
	for _, n := range o.Noop {
		noop[n] = true
	}
	for _, f := range c.Faults {
		if !noop[f.String()] {
			eff = append(eff, f)
		}
	}
	return
}

// must re-derives the spec's acceptance rule (Renter.tla, MustOf) for the effective faults.
func must(c Case, eff []Fault) string {
	if len(eff) == 0 {
		if c.Unservable {
			return "any" // the reference host refuses the request: HonestSucceeds does not apply
		}
		return "ok"
	}
	for _, f := range eff {
		if c.Classes[f.String()] == "unbind" {
			return "err"
		}
	}
	return "any"
}

// judge applies the acceptance rule to a recorded outcome; "" = accepted.
func judge(c Case, o Outcome) (kind, desc string) {
	eff := effective(c, o)
	m := must(c, eff)
	switch {
	case o.Outcome == "panic":
		return "panic:" + slug(o.Err), "the client function panicked instead of returning an error: " + o.Err
	case o.Outcome == "ok" && !o.Bound && !c.Info:
		return "accepted-unbound", fmt.Sprintf("the client reported success but the result is not bound to the request (ground truth: %v)", o.Detail)
	case !o.Wire:
		return "request-not-normal-form", "the request the client put on the wire is not the normal form of the caller's arguments (outcome " + o.Outcome + " " + o.Err + ")"
	case m == "ok" && o.Outcome != "ok":
		return "honest-failed", "an exchange with an honest host failed: " + o.Err
	case m == "err" && o.Outcome == "ok" && !c.Info:
		return "accepted-must-reject", fmt.Sprintf("the client accepted a response whose result-bearing field was corrupted (ground truth says bound: %v)", o.Detail)
	}
	return "", ""
}

// flaggedKeys collects the Key() of every case reported as a mismatch (hx caps the mismatch list).
var flaggedKeys []string

func runCases(t *testing.T, in replayIn, res *hx.Result, tw *hx.TraceWriter) {
	e := newEnv(t)
	sampled := map[string]bool{}
	for _, c := range in.Cases {
		e.tc = e.transport(c.SameKey)
		s, err := e.newSession(c)
		if err != nil {
			t.Fatal(err)
		}
		applyStub(in.Stub, s)
		o := s.run()
		if k, _ := judge(c, o); k == "honest-failed" && (o.Stalled || len(c.Faults) > 0) && in.Stub == "" {
			// real timing was involved (stall watchdog): retry once without it before reporting
			res.Count("retried", 1)
			s, _ = e.newSession(c)
			s.noWatchdog = true
			o = s.run()
		}
		if len(o.Unknown) > 0 {
			res.Note("case %s: %v", c.Key(), o.Unknown)
			res.Count("unknown_faults", len(o.Unknown))
		}
		eff := effective(c, o)
		for _, f := range c.Faults {
			// (a client that returned an error without opening a stream never met the host: the
			// fault is unseen because of the client, not because the catalogue entry is void)
			if len(c.Faults) == 1 && c.Classes[f.String()] == "unbind" && slices.Contains(o.Void, f.String()) {
				res.Count("noop_unbind", 1)
				res.Note("catalog entry without effect: %s %s", c.Key(), f)
			}
		}
		res.Eval(c.Key())
		if !o.Dialed {
			if c.Unservable && o.Outcome == "err" {
				res.Count("unservable_refused_locally", 1) // "in every other case the call returns an error"
			} else {
				res.Count("not_dialed", 1)
			}
		}
		if o.Millis > float64(hx.EnvInt("VERIF_SLOW_MS", 3000)) {
			res.Count("slow_cases", 1)
			res.Note("slow case (%.0f ms): %s -> %s %s", o.Millis, c.Key(), o.Outcome, o.Err)
		}
		res.Count("outcome_"+o.Outcome, 1)
		if o.Dialed && s.wireOK != nil {
			res.Count("wire_requests_checked", 1)
		}
		res.Count("rpc_"+c.RPC, 1)
		if len(eff) < len(c.Faults) {
			res.Count("faults_noop_or_unseen", len(c.Faults)-len(eff))
		}
		if len(eff) > 0 && o.Outcome == "ok" && o.Bound {
			res.Count("corrupted_but_bound_accepted", 1)
		}
		if c.Info && o.Outcome == "ok" && !o.Bound {
			res.Count("informational_unverified_accepted", 1)
		}
		if len(eff) > 0 && o.Outcome == "err" {
			res.Count("corrupted_rejected", 1)
		}
		if c.Model != "" && len(eff) == len(c.Faults) && c.Model != o.Outcome && o.Outcome != "panic" {
			res.Count("abstract_client_differs", 1)
		}
		if tw != nil {
			ev := traceEvent{Op: "Case", RPC: c.RPC, Variant: c.Variant, Faults: c.Faults, Eff: eff, Outcome: o.Outcome, Bound: o.Bound, Wire: o.Wire, SameKey: c.SameKey}
			if o.Outcome == "panic" {
				ev.Note = slug(o.Err)
			}
			if ev.Faults == nil {
				ev.Faults = []Fault{}
			}
			if ev.Eff == nil {
				ev.Eff = []Fault{}
			}
			tw.Emit(ev)
		}
		if len(c.Faults) > 0 && !c.Info && !sampled[c.RPC] && (c.RPC == "ReadSector" || c.RPC == "AppendSectors" || c.RPC == "SectorRoots" || c.RPC == "ReplenishAccounts") {
			sampled[c.RPC] = true
			res.Sample(map[string]any{"case": c.Key(), "must": must(c, eff), "outcome": o.Outcome, "bound": o.Bound, "err": o.Err, "detail": o.Detail, "delivered": o.Delivered})
		}
		if kind, desc := judge(c, o); kind != "" {
			flaggedKeys = append(flaggedKeys, c.Key())
			sig := fmt.Sprintf("renter:%s:%s:%s", c.RPC, faultSig(c.Faults), kind)
			res.Mismatch(sig, fmt.Sprintf("%s v%d [%s]: %s (outcome=%s bound=%v hostErrs=%v)", c.RPC, c.Variant, faultSig(c.Faults), desc, o.Outcome, o.Bound, o.HostErrs),
				map[string]any{"kind": "case", "case": c, "outcome": o})
		}
	}
}

func containsFault(fs []Fault, f Fault) bool {
	for _, g := range fs {
		if g == f {
			return true
		}
	}
	return false
}

// applyStub installs a deliberately wrong component (selftest): the check must notice.
func applyStub(stub string, s *session) {
	switch stub {
	case "":
	case "lenient-client":
		// a "client" that reports success whatever the host sent: wraps the real call and
		// swallows its error, returning whatever partial result there is
		call := s.call
		s.call = func(ctx context.Context) (any, error) {
			res, _ := call(ctx)
			return res, nil
		}
	case "rejecting-client":
		s.call = func(ctx context.Context) (any, error) { return nil, fmt.Errorf("stub: rejects everything") }
	}
}

// TestReplay executes the cases TLC enumerated (VERIF_IN) against the real client and server and
// writes the NDJSON trace for RenterTrace.tla.
func TestReplay(t *testing.T) {
	res := hx.NewResult()
	defer res.Write()
	var in replayIn
	if err := hx.ReadIn(&in); err != nil {
		t.Fatal(err)
	}
	tw, err := hx.NewTraceWriter(filepath.Join(hx.Env("VERIF_WORK", os.TempDir()), hx.Env("VERIF_TRACE", "rentertrace.ndjson")))
	if err != nil {
		t.Fatal(err)
	}
	defer tw.Close()
	runCases(t, in, res, tw)
	res.Traces = tw.N
	if b, err := json.Marshal(flaggedKeys); err == nil {
		os.WriteFile(filepath.Join(hx.Env("VERIF_WORK", os.TempDir()), hx.Env("VERIF_TRACE", "rentertrace.ndjson")+".flagged.json"), b, 0o644)
	}
}

// TestReplayOne re-executes one recorded mismatch (./check C10 --replay file).
func TestReplayOne(t *testing.T) {
	res := hx.NewResult()
	defer res.Write()
	var mm struct {
		Replay struct {
			Case Case `json:"case"`
		} `json:"replay"`
	}
	if err := hx.ReadIn(&mm); err != nil {
		t.Fatal(err)
	}
	runCases(t, replayIn{Cases: []Case{mm.Replay.Case}}, res, nil)
}
