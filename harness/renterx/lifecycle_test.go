package renterx

import (
	"context"
	"fmt"

	proto4 "go.sia.tech/core/rhp/v4"
	"go.sia.tech/core/types"
	rhp4 "go.sia.tech/coreutils/rhp/v4"
)

// Contract lifecycle RPCs: RPCFormContract, RPCRenewContract, RPCRefreshContractFullRollover and
// RPCRefreshContractPartialRollover.  Host messages: "inputs" (the host's siacoin inputs) and
// "final" (basis + finalized transaction set, after the renter has sent its signatures).  The
// catalogue tampers with the final message ONE FIELD AT A TIME while the honest signatures are
// replayed: every field of the returned (new) contract and of the renewal, the transaction around
// it, the set and the signatures.  The oracle judges the RETURNED revision itself: it equals the
// negotiated contract field by field (recomputed by the harness from the arguments with core's
// constructors), carries valid host signatures, costs what was agreed, and the returned contract
// transaction is the one the honest host finalized (same transaction ID).

type lifeKind int

const (
	lifeForm lifeKind = iota
	lifeRenew
	lifeRefreshFull
	lifeRefreshPartial
)

// contractMutators: one deviation per field of a V2FileContract.
var contractMutators = map[string]func(fc *types.V2FileContract){
	"Capacity":         func(fc *types.V2FileContract) { fc.Capacity += proto4.SectorSize },
	"Filesize":         func(fc *types.V2FileContract) { fc.Filesize += proto4.SectorSize },
	"FileMerkleRoot":   func(fc *types.V2FileContract) { fc.FileMerkleRoot[5] ^= 0x10 },
	"ProofHeight":      func(fc *types.V2FileContract) { fc.ProofHeight += 7 },
	"ExpirationHeight": func(fc *types.V2FileContract) { fc.ExpirationHeight += 7 },
	"RenterOutputValue": func(fc *types.V2FileContract) {
		fc.RenterOutput.Value = fc.RenterOutput.Value.Sub(types.NewCurrency64(1))
	},
	"RenterOutputAddress": func(fc *types.V2FileContract) { fc.RenterOutput.Address[3] ^= 0x01 },
	"HostOutputValue":     func(fc *types.V2FileContract) { fc.HostOutput.Value = fc.HostOutput.Value.Add(types.NewCurrency64(1)) },
	"HostOutputAddress":   func(fc *types.V2FileContract) { fc.HostOutput.Address[3] ^= 0x01 },
	"MissedHostValue":     func(fc *types.V2FileContract) { fc.MissedHostValue = fc.MissedHostValue.Add(types.NewCurrency64(1)) },
	"TotalCollateral":     func(fc *types.V2FileContract) { fc.TotalCollateral = fc.TotalCollateral.Add(types.NewCurrency64(1)) },
	"RenterPublicKey":     func(fc *types.V2FileContract) { fc.RenterPublicKey[7] ^= 0x02 },
	"HostPublicKey":       func(fc *types.V2FileContract) { fc.HostPublicKey[7] ^= 0x02 },
	"RevisionNumber":      func(fc *types.V2FileContract) { fc.RevisionNumber++ },
}

func sameContract(a, b types.V2FileContract) bool {
	a.RenterSignature, a.HostSignature = types.Signature{}, types.Signature{}
	b.RenterSignature, b.HostSignature = types.Signature{}, types.Signature{}
	return a == b
}

func newLifecycleSession(main *env, c Case, kind lifeKind) *session {
	e := main.lifeEnv()
	e.tc = e.transport(c.SameKey)
	s := &session{e: e, c: c}
	e.net.SetProxy(nil)
	e.mine(1) // confirm whatever the previous case left in the pool
	e.refreshPrices()
	cs := e.cm.TipState()
	hostAddr := e.w.Address()
	minerFee := e.signer.RecommendedFee().Mul64(1000)

	var existing rhp4.ContractRevision
	if kind != lifeForm {
		// a fresh, confirmed contract to renew / refresh
		form, err := rhp4.RPCFormContract(context.Background(), e.net, e.cm, e.signer, cs, e.prices, e.hostKey.PublicKey(), hostAddr, proto4.RPCFormContractParams{
			RenterPublicKey: e.renterKey.PublicKey(),
			RenterAddress:   e.w.Address(),
			Allowance:       types.Siacoins(20),
			Collateral:      types.Siacoins(40),
			ProofHeight:     e.cm.Tip().Height + 200,
		})
		if err != nil {
			e.tb.Fatal("lifecycle: form: ", err)
		}
		e.waitServer()
		existing = form.Contract
		e.mine(1)
		e.refreshPrices()
		cs = e.cm.TipState()
	}

	// the negotiated contract, recomputed by the harness from the arguments
	var negotiated types.V2FileContract
	var negRenewal types.V2FileContractRenewal
	var expectCost types.Currency
	formParams := proto4.RPCFormContractParams{
		RenterPublicKey: e.renterKey.PublicKey(),
		RenterAddress:   e.w.Address(),
		Allowance:       types.Siacoins(10 + uint32(c.Variant)),
		Collateral:      types.Siacoins(20),
		ProofHeight:     e.cm.Tip().Height + 150,
	}
	renewParams := proto4.RPCRenewContractParams{ContractID: existing.ID, Allowance: types.Siacoins(15), Collateral: types.Siacoins(30), ProofHeight: existing.Revision.ProofHeight + 40}
	refreshParams := proto4.RPCRefreshContractParams{ContractID: existing.ID, Allowance: types.Siacoins(15), Collateral: types.Siacoins(30)}
	switch kind {
	case lifeForm:
		negotiated, _ = proto4.NewContract(e.prices, formParams, e.hostKey.PublicKey(), hostAddr)
		expectCost, _ = proto4.ContractCost(cs, negotiated, minerFee)
	case lifeRenew:
		negRenewal, _ = proto4.RenewContract(existing.Revision, e.prices, hostAddr, renewParams)
		negotiated = negRenewal.NewContract
		expectCost, _ = proto4.RenewalCost(cs, negRenewal, minerFee)
	case lifeRefreshFull:
		negRenewal, _ = proto4.RefreshContractFullRollover(existing.Revision, e.prices, hostAddr, refreshParams)
		negotiated = negRenewal.NewContract
		expectCost, _ = proto4.RefreshCost(cs, e.prices, negRenewal, minerFee)
	case lifeRefreshPartial:
		negRenewal, _ = proto4.RefreshContractPartialRollover(existing.Revision, e.prices, hostAddr, refreshParams)
		negotiated = negRenewal.NewContract
		expectCost, _ = proto4.RefreshCost(cs, e.prices, negRenewal, minerFee)
	}

	switch kind {
	case lifeForm:
		s.steps = []stepDef{
			{"inputs", func() proto4.Object { return new(proto4.RPCFormContractResponse) }},
			{"final", func() proto4.Object { return new(proto4.RPCFormContractThirdResponse) }},
		}
	case lifeRenew:
		s.steps = []stepDef{
			{"inputs", func() proto4.Object { return new(proto4.RPCRenewContractResponse) }},
			{"final", func() proto4.Object { return new(proto4.RPCRenewContractThirdResponse) }},
		}
	default:
		s.steps = []stepDef{
			{"inputs", func() proto4.Object { return new(proto4.RPCRefreshContractResponse) }},
			{"final", func() proto4.Object { return new(proto4.RPCRefreshContractThirdResponse) }},
		}
	}

	type result struct {
		contract rhp4.ContractRevision
		set      rhp4.TransactionSet
		cost     types.Currency
	}
	s.call = func(ctx context.Context) (any, error) {
		switch kind {
		case lifeForm:
			r, err := rhp4.RPCFormContract(ctx, e.tc, e.cm, e.signer, cs, e.prices, e.hostKey.PublicKey(), hostAddr, formParams)
			return result{r.Contract, r.FormationSet, r.Cost}, err
		case lifeRenew:
			r, err := rhp4.RPCRenewContract(ctx, e.tc, e.cm, e.signer, cs, e.prices, hostAddr, existing.Revision, renewParams)
			return result{r.Contract, r.RenewalSet, r.Cost}, err
		case lifeRefreshFull:
			r, err := rhp4.RPCRefreshContractFullRollover(ctx, e.tc, e.cm, e.signer, cs, e.prices, hostAddr, existing.Revision, refreshParams)
			return result{r.Contract, r.RenewalSet, r.Cost}, err
		default:
			r, err := rhp4.RPCRefreshContractPartialRollover(ctx, e.tc, e.cm, e.signer, cs, e.prices, hostAddr, existing.Revision, refreshParams)
			return result{r.Contract, r.RenewalSet, r.Cost}, err
		}
	}

	// access to the parts of the decoded messages
	inputsOf := func(obj proto4.Object) *[]types.V2SiacoinInput {
		switch r := obj.(type) {
		case *proto4.RPCFormContractResponse:
			return &r.HostInputs
		case *proto4.RPCRenewContractResponse:
			return &r.HostInputs
		case *proto4.RPCRefreshContractResponse:
			return &r.HostInputs
		}
		return nil
	}
	finalOf := func(obj proto4.Object) (*types.ChainIndex, *[]types.V2Transaction) {
		switch r := obj.(type) {
		case *proto4.RPCFormContractThirdResponse:
			return &r.Basis, &r.TransactionSet
		case *proto4.RPCRenewContractThirdResponse:
			return &r.Basis, &r.TransactionSet
		case *proto4.RPCRefreshContractThirdResponse:
			return &r.Basis, &r.TransactionSet
		}
		return nil, nil
	}
	var honestID types.TransactionID // of the contract transaction the honest host finalized
	var haveHonest bool
	s.synth = func(msg string, in inMsg) proto4.Object {
		if msg == "final" && in.obj != nil {
			if _, set := finalOf(in.obj); set != nil && len(*set) > 0 {
				honestID, haveHonest = (*set)[len(*set)-1].ID(), true
			}
		}
		return nil
	}
	s.mutate = func(msg string, obj proto4.Object, _ *[]byte, f Fault) error {
		if msg == "inputs" {
			in := inputsOf(obj)
			if in == nil || f.Field != "HostInputs" {
				return errUnknownFault
			}
			switch f.How {
			case "truncate":
				if len(*in) > 0 {
					*in = append([]types.V2SiacoinInput(nil), (*in)[:len(*in)-1]...)
				}
			case "wrongCount":
				*in = nil
			default:
				return errUnknownFault
			}
			return nil
		}
		basis, set := finalOf(obj)
		if set == nil {
			return errUnknownFault
		}
		switch f.Field {
		case "Basis":
			basis.Height++
			return nil
		case "TransactionSet":
			switch f.How {
			case "truncate":
				*set = append([]types.V2Transaction(nil), (*set)[:len(*set)-1]...)
			case "wrongCount":
				*set = nil
			case "extend":
				*set = append([]types.V2Transaction{{ArbitraryData: []byte("verif: a transaction nobody asked for")}}, *set...)
			default:
				return errUnknownFault
			}
			return nil
		}
		if len(*set) == 0 {
			return nil // nothing to tamper with (reported as a fault without effect)
		}
		txn := &(*set)[len(*set)-1]
		// the contract inside the transaction
		var fc *types.V2FileContract
		var renewal *types.V2FileContractRenewal
		if kind == lifeForm {
			if len(txn.FileContracts) > 0 {
				fc = &txn.FileContracts[0]
			}
		} else if len(txn.FileContractResolutions) > 0 {
			if r, ok := txn.FileContractResolutions[0].Resolution.(*types.V2FileContractRenewal); ok {
				cp := *r // do not share the host's object
				renewal = &cp
				txn.FileContractResolutions[0].Resolution = renewal
				fc = &renewal.NewContract
			}
		}
		one := types.NewCurrency64(1)
		switch f.Field {
		case "FinalRenterOutput", "FinalHostOutput", "RenterRollover", "HostRollover", "RenewalHostSignature", "RenewalRenterSignature":
			if renewal == nil {
				return nil // another fault of the plan has removed the renewal: nothing left to tamper with
			}
		case "MinerFee", "SiacoinInputs", "SiacoinOutputs", "ParentID", "Resolution":
		default:
			if fc == nil {
				return nil // ... or the contract
			}
		}
		switch f.Field {
		case "MinerFee":
			txn.MinerFee = txn.MinerFee.Add(one)
		case "SiacoinInputs":
			if len(txn.SiacoinInputs) > 0 {
				txn.SiacoinInputs = txn.SiacoinInputs[:len(txn.SiacoinInputs)-1]
			}
		case "SiacoinOutputs":
			txn.SiacoinOutputs = append(txn.SiacoinOutputs, types.SiacoinOutput{Address: hostAddr, Value: one})
		case "FileContracts": // form: a second contract rides along
			txn.FileContracts = append(txn.FileContracts, *fc)
		case "ParentID":
			if len(txn.FileContractResolutions) == 0 {
				return errUnknownFault
			}
			txn.FileContractResolutions[0].Parent.ID[9] ^= 0x04
		case "Resolution": // another kind of resolution for the same contract
			if len(txn.FileContractResolutions) == 0 {
				return errUnknownFault
			}
			txn.FileContractResolutions[0].Resolution = &types.V2FileContractExpiration{}
		case "FinalRenterOutput":
			renewal.FinalRenterOutput.Value = renewal.FinalRenterOutput.Value.Add(one)
		case "FinalHostOutput":
			renewal.FinalHostOutput.Value = renewal.FinalHostOutput.Value.Add(one)
		case "RenterRollover":
			renewal.RenterRollover = renewal.RenterRollover.Add(one)
		case "HostRollover":
			renewal.HostRollover = renewal.HostRollover.Add(one)
		case "RenewalHostSignature":
			switch f.How {
			case "flip":
				flipSig(&renewal.HostSignature)
			case "swapFromOtherExchange": // a valid host signature -- over the contract, not the renewal
				renewal.HostSignature = renewal.NewContract.HostSignature
			case "transportKey": // signed with the transport identity's key, not the contract's host key
				renewal.HostSignature = e.transportKey.SignHash(cs.RenewalSigHash(negRenewal))
			default:
				return errUnknownFault
			}
		case "RenewalRenterSignature":
			flipSig(&renewal.RenterSignature)
		case "ContractHostSignature":
			switch f.How {
			case "flip":
				flipSig(&fc.HostSignature)
			case "swapFromOtherExchange": // a valid host signature over the previous revision / the price table
				fc.HostSignature = e.contract.Revision.HostSignature
			case "transportKey":
				fc.HostSignature = e.transportKey.SignHash(cs.ContractSigHash(negotiated))
			default:
				return errUnknownFault
			}
		case "ContractRenterSignature":
			flipSig(&fc.RenterSignature)
		default:
			m, ok := contractMutators[f.Field]
			if !ok {
				return errUnknownFault
			}
			switch f.How {
			case "flip":
				m(fc) // the honest signatures are replayed
			case "resign":
				// the host moves allowance to itself and signs what it now returns
				if f.Field != "RenterOutputValue" {
					return errUnknownFault
				}
				sc := types.Siacoins(1)
				fc.RenterOutput.Value = fc.RenterOutput.Value.Sub(sc)
				fc.HostOutput.Value = fc.HostOutput.Value.Add(sc)
				fc.HostSignature = e.hostKey.SignHash(cs.ContractSigHash(*fc))
				if renewal != nil {
					renewal.HostSignature = e.hostKey.SignHash(cs.RenewalSigHash(*renewal))
				}
			default:
				return errUnknownFault
			}
		}
		return nil
	}
	s.bound = func(res any) (bool, map[string]bool) {
		r := res.(result)
		d := map[string]bool{}
		rev := r.contract.Revision
		sigHash := cs.ContractSigHash(rev)
		d["hostSigValid"] = e.hostKey.PublicKey().VerifyHash(sigHash, rev.HostSignature)
		d["renterSigValid"] = e.renterKey.PublicKey().VerifyHash(sigHash, rev.RenterSignature)
		d["contractIsNegotiated"] = sameContract(rev, negotiated)
		d["costAsAgreed"] = r.cost.Cmp(expectCost) <= 0
		d["contractTxnIsFinalized"] = false
		d["renewalHostSigValid"] = kind == lifeForm
		if n := len(r.set.Transactions); n > 0 && haveHonest {
			txn := r.set.Transactions[n-1]
			d["contractTxnIsFinalized"] = txn.ID() == honestID
			if kind != lifeForm && len(txn.FileContractResolutions) == 1 {
				if rn, ok := txn.FileContractResolutions[0].Resolution.(*types.V2FileContractRenewal); ok {
					d["renewalHostSigValid"] = e.hostKey.PublicKey().VerifyHash(cs.RenewalSigHash(negRenewal), rn.HostSignature)
				}
			}
		}
		known, err := e.cm.AddV2PoolTransactions(r.set.Basis, r.set.Transactions)
		d["setAcceptedByPool"] = err == nil // informational: known=%v
		_ = known
		return d["hostSigValid"] && d["contractIsNegotiated"] && d["costAsAgreed"] && d["contractTxnIsFinalized"] && d["renewalHostSigValid"], d
	}
	_ = fmt.Sprint
	return s
}
