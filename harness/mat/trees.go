package mat

import (
	"bytes"
	"fmt"
	"math/rand"
	"time"

	"go.sia.tech/core/consensus"
	"go.sia.tech/core/types"
)

// A Node is one block of a fork tree.
type Node struct {
	ID     int    // 1 = genesis; the small name the specifications use
	Parent int    // 0 for genesis
	Height uint64 // block height
	Block  types.Block
	// Cls is the class computed with core against the parent's state (never assumed):
	// "ok", "badhdr" (rejected at submission), "badbody" (stored as header, rejected on apply),
	// "future" (timestamp beyond MaxFutureTimestamp).
	Cls     string
	Corrupt string   // name of the corruption applied, "" if none
	Ops     []string // transaction script of the block
	// L is the linear ledger after this block if the whole chain down to genesis is valid.
	L *Ledger
	// Hdr is the header-derived state (ApplyHeader), defined whenever the parent has a state.
	Hdr      consensus.State
	HasState bool
	ValidChain bool // all blocks from genesis to this one are "ok"
	// Alias is the node whose block ID this node shares (an ID twin: same header, another body);
	// a node's own ID otherwise.
	Alias int
}

// IDMap maps block IDs to the node that represents the ID in the specifications (for an ID twin,
// the node it is an alias of).
func (t *Tree) IDMap() map[types.BlockID]int {
	m := map[types.BlockID]int{}
	for _, nd := range t.Nodes {
		m[nd.Block.ID()] = nd.Alias
	}
	return m
}

// SameBody reports whether b is byte for byte the block of the node.
func (n *Node) SameBody(b types.Block) bool {
	return bytes.Equal(BlockBytes(n.Block), BlockBytes(b))
}

// BlockBytes is the canonical encoding of a block (v2 encoding; covers every field of the body).
func BlockBytes(b types.Block) []byte {
	var buf bytes.Buffer
	e := types.NewEncoder(&buf)
	types.V2Block(b).EncodeTo(e)
	e.Flush()
	return buf.Bytes()
}

// AddTwin appends an ID twin of node canon: the same header (hence the same block ID, parent,
// height and weight) with another body -- the miner payout address is changed, which a v2 header
// does not cover but the commitment does, so the twin fails ValidateBlock ("badbody") while
// passing every header check.  Returns nil if canon cannot have such a twin (v1 block, not "ok",
// parent chain not valid).
func (t *Tree) AddTwin(canon int) *Node {
	c := t.Node(canon)
	if canon == 1 || c.Block.V2 == nil || c.Cls != "ok" || c.Alias != c.ID {
		return nil
	}
	p := t.Node(c.Parent)
	if p.L == nil {
		return nil
	}
	blk := cloneBlock(c.Block)
	blk.MinerPayouts[0].Address = t.W.Other
	if blk.MinerPayouts[0].Address == c.Block.MinerPayouts[0].Address {
		blk.MinerPayouts[0].Address[0] ^= 1
	}
	if blk.ID() != c.Block.ID() {
		panic("mat: twin does not share the block ID")
	}
	n := &Node{ID: len(t.Nodes) + 1, Parent: c.Parent, Height: c.Height, Block: blk, Corrupt: "twin-payout-addr", Alias: canon,
		Hdr: c.Hdr, HasState: c.HasState}
	n.Cls = classify(p.L, p.State(), blk)
	if n.Cls != "badbody" {
		panic("mat: a body twin must fail ValidateBlock only, got " + n.Cls)
	}
	t.Nodes = append(t.Nodes, n)
	return n
}

// A Tree is a fork tree of real blocks.
type Tree struct {
	W     *World
	Nodes []*Node // Nodes[i].ID == i+1
}

func (t *Tree) Node(id int) *Node { return t.Nodes[id-1] }

// PathTo returns the ids from genesis to id, inclusive.
func (t *Tree) PathTo(id int) []int {
	var p []int
	for id != 0 {
		p = append([]int{id}, p...)
		id = t.Node(id).Parent
	}
	return p
}

// State returns the state a node stores for the block once it knows it: the full state for a
// valid chain, the header-derived one otherwise.
func (n *Node) State() consensus.State {
	if n.L != nil {
		return n.L.CS
	}
	return n.Hdr
}

// Corruptions is the catalogue of single-field block corruptions.
var Corruptions = []string{"nonce", "ts-past", "ts-future", "payout-value", "payout-count", "v2-height", "v2-commitment",
	"tx-double-spend", "tx-missing-output", "tx-bad-signature", "tx-overspend", "v2-bad-proof", "v2-bad-leafindex", "v2-empty-commitment"}

func remine(w *World, parent consensus.State, b *types.Block, fixCommitment bool) {
	if b.V2 != nil && fixCommitment {
		b.V2.Commitment = parent.Commitment(b.MinerPayouts[0].Address, b.Transactions, b.V2Transactions())
	}
	Mine(parent, b)
}

// CopyTxn deep-copies a v1 transaction (encode/decode round trip).
func CopyTxn(t types.Transaction) (c types.Transaction) {
	var buf bytes.Buffer
	e := types.NewEncoder(&buf)
	t.EncodeTo(e)
	e.Flush()
	d := types.NewBufDecoder(buf.Bytes())
	c.DecodeFrom(d)
	if d.Err() != nil {
		panic(d.Err())
	}
	return
}

func cloneBlock(b types.Block) types.Block {
	c := b
	c.MinerPayouts = append([]types.SiacoinOutput(nil), b.MinerPayouts...)
	c.Transactions = make([]types.Transaction, len(b.Transactions))
	for i := range b.Transactions {
		c.Transactions[i] = CopyTxn(b.Transactions[i])
	}
	if b.V2 != nil {
		v := *b.V2
		v.Transactions = make([]types.V2Transaction, len(b.V2.Transactions))
		for i := range b.V2.Transactions {
			v.Transactions[i] = b.V2.Transactions[i].DeepCopy()
		}
		c.V2 = &v
	}
	return c
}

// Corrupt applies the named single-field corruption to a copy of b (a child of parent). It
// reports false if the corruption does not apply to this block.
func Corrupt(w *World, parent consensus.State, b types.Block, kind string, rng *rand.Rand) (types.Block, bool) {
	c := cloneBlock(b)
	switch kind {
	case "nonce":
		c.Nonce++
		return c, true
	case "ts-past":
		c.Timestamp = w.Genesis.Timestamp.Add(-time.Hour)
		remine(w, parent, &c, false)
		return c, true
	case "ts-future":
		c.Timestamp = time.Now().Add(4 * time.Hour).Truncate(time.Second)
		remine(w, parent, &c, false)
		return c, true
	case "payout-value":
		c.MinerPayouts[0].Value = c.MinerPayouts[0].Value.Add(types.NewCurrency64(1))
		remine(w, parent, &c, true)
		return c, true
	case "payout-count":
		c.MinerPayouts = append(c.MinerPayouts, types.SiacoinOutput{Address: w.Other})
		remine(w, parent, &c, true)
		return c, true
	case "v2-height":
		if c.V2 == nil {
			return c, false
		}
		c.V2.Height++
		remine(w, parent, &c, false)
		return c, true
	case "v2-commitment":
		if c.V2 == nil {
			return c, false
		}
		c.V2.Commitment[3] ^= 0x40
		remine(w, parent, &c, false)
		return c, true
	case "v2-empty-commitment":
		// a block WITHOUT any transaction whose commitment is wrong: nothing but the commitment
		// check of ValidateBlock can reject it
		if c.V2 == nil {
			return c, false
		}
		c.Transactions = nil
		c.V2.Transactions = nil
		c.V2.Commitment = parent.Commitment(c.MinerPayouts[0].Address, nil, nil)
		c.V2.Commitment[rng.Intn(32)] ^= byte(1 + rng.Intn(255))
		Mine(parent, &c)
		return c, true
	case "tx-double-spend":
		for i := range c.Transactions {
			if len(c.Transactions[i].SiacoinInputs) > 0 {
				c.Transactions = append(c.Transactions, CopyTxn(c.Transactions[i]))
				remine(w, parent, &c, true)
				return c, true
			}
		}
		if c.V2 != nil {
			for i := range c.V2.Transactions {
				if len(c.V2.Transactions[i].SiacoinInputs) > 0 {
					d := c.V2.Transactions[i].DeepCopy()
					d.ArbitraryData = []byte("dup")
					c.V2.Transactions = append(c.V2.Transactions, d)
					remine(w, parent, &c, true)
					return c, true
				}
			}
		}
		return c, false
	case "tx-missing-output":
		for i := range c.Transactions {
			if len(c.Transactions[i].SiacoinInputs) > 0 {
				c.Transactions[i].SiacoinInputs[0].ParentID[5] ^= 0x21
				remine(w, parent, &c, true)
				return c, true
			}
		}
		return c, false
	case "tx-bad-signature":
		for i := range c.Transactions {
			if len(c.Transactions[i].Signatures) > 0 {
				c.Transactions[i].Signatures[0].Signature[7] ^= 0x10
				remine(w, parent, &c, true)
				return c, true
			}
		}
		if c.V2 != nil {
			for i := range c.V2.Transactions {
				if ins := c.V2.Transactions[i].SiacoinInputs; len(ins) > 0 && len(ins[0].SatisfiedPolicy.Signatures) > 0 {
					ins[0].SatisfiedPolicy.Signatures[0][7] ^= 0x10
					remine(w, parent, &c, true)
					return c, true
				}
			}
		}
		return c, false
	case "tx-overspend":
		for i := range c.Transactions {
			if len(c.Transactions[i].SiacoinOutputs) > 0 && len(c.Transactions[i].SiacoinInputs) > 0 {
				// the signatures cover the whole transaction, so this also invalidates them; either
				// way the block body is invalid for exactly one reason class: this transaction
				c.Transactions[i].SiacoinOutputs[0].Value = c.Transactions[i].SiacoinOutputs[0].Value.Add(types.Siacoins(1))
				remine(w, parent, &c, true)
				return c, true
			}
		}
		return c, false
	case "v2-bad-proof":
		if c.V2 == nil {
			return c, false
		}
		for i := range c.V2.Transactions {
			if ins := c.V2.Transactions[i].SiacoinInputs; len(ins) > 0 && len(ins[0].Parent.StateElement.MerkleProof) > 0 {
				ins[0].Parent.StateElement.MerkleProof[0][1] ^= 0x08
				remine(w, parent, &c, true)
				return c, true
			}
		}
		return c, false
	case "v2-bad-leafindex":
		if c.V2 == nil {
			return c, false
		}
		for i := range c.V2.Transactions {
			if ins := c.V2.Transactions[i].SiacoinInputs; len(ins) > 0 && ins[0].Parent.StateElement.LeafIndex != types.UnassignedLeafIndex {
				ins[0].Parent.StateElement.LeafIndex ^= 1
				remine(w, parent, &c, true)
				return c, true
			}
		}
		return c, false
	}
	return c, false
}

// NewTree starts a tree with the genesis block.
func NewTree(w *World) *Tree {
	l := NewLedger(w.N, w.Genesis)
	g := &Node{ID: 1, Parent: 0, Height: 0, Block: w.Genesis, Cls: "ok", L: l, Hdr: l.CS, HasState: true, ValidChain: true, Alias: 1}
	return &Tree{W: w, Nodes: []*Node{g}}
}

// classify computes the class of b as a child of parent (nil ledger: parent chain not valid).
func classify(parentL *Ledger, parentState consensus.State, b types.Block) string {
	if b.Timestamp.After(parentState.MaxFutureTimestamp(time.Now())) {
		return "future"
	}
	if err := consensus.ValidateOrphan(parentState, b); err != nil {
		return "badhdr"
	}
	if parentL == nil {
		return "ok" // body can never be judged: the parent chain is invalid
	}
	if err := consensus.ValidateBlock(parentState, b, parentL.BlockSupplement(b)); err != nil {
		return "badbody"
	}
	return "ok"
}

// Add mines a child of node parent with nOps random operations (or the given script), offsets its
// timestamp by tsOffset seconds, optionally applies a corruption, classifies it with core and
// appends it to the tree.
func (t *Tree) Add(parent int, rng *rand.Rand, nOps int, script []string, tsOffset int, corrupt string) *Node {
	p := t.Node(parent)
	n := &Node{ID: len(t.Nodes) + 1, Parent: parent, Height: p.Height + 1}
	n.Alias = n.ID
	var blk types.Block
	if p.L != nil {
		bld := NewBuilder(t.W, p.L, rng)
		for _, op := range script {
			bld.Do(op)
		}
		bld.RandomOps(nOps)
		blk = bld.Block(tsOffset)
		n.Ops = bld.Ops
	} else {
		// parent chain invalid or header-only: an empty block on the header-derived state
		cs := p.Hdr
		blk = types.Block{ParentID: p.Block.ID(), Timestamp: t.W.Genesis.Timestamp.Add(time.Duration(10*n.Height+uint64(tsOffset)) * time.Second),
			MinerPayouts: []types.SiacoinOutput{{Address: t.W.Addr, Value: cs.BlockReward()}}}
		tag := []byte(fmt.Sprintf("orphan-%d-%d", n.ID, rng.Int63()))
		if n.Height >= t.W.N.HardforkV2.AllowHeight {
			blk.V2 = &types.V2BlockData{Height: n.Height, Transactions: []types.V2Transaction{{ArbitraryData: tag}}}
			blk.V2.Commitment = cs.Commitment(t.W.Addr, nil, blk.V2Transactions())
		} else {
			blk.Transactions = []types.Transaction{{ArbitraryData: [][]byte{tag}}}
		}
		Mine(cs, &blk)
	}
	pstate := p.State()
	if corrupt != "" {
		if c, ok := Corrupt(t.W, pstate, blk, corrupt, rng); ok {
			blk = c
			n.Corrupt = corrupt
		}
	}
	n.Block = blk
	for _, o := range t.Nodes {
		if o.Block.ID() == blk.ID() {
			// two node numbers for one block ID would make every ID->node mapping ambiguous:
			// build the node again at another timestamp
			return t.Add(parent, rng, nOps, script, tsOffset+1+rng.Intn(3), corrupt)
		}
	}
	n.Cls = classify(p.L, pstate, blk)
	{
		// header-derived state: what AddBlocks records first for a storable block; also computed
		// for unstorable blocks so that (never storable) descendants can still be built on it
		var ats time.Time
		if p.L != nil {
			ats = p.L.AncestorTS()
		}
		n.Hdr = consensus.ApplyHeader(pstate, blk.Header(), ats)
		n.HasState = p.HasState && (n.Cls == "ok" || n.Cls == "badbody")
	}
	if p.L != nil && p.ValidChain && n.Cls == "ok" {
		l := p.L.Clone()
		if err := l.Apply(blk); err != nil {
			panic(fmt.Sprintf("mat: block classified ok does not apply: %v", err))
		}
		n.L = l
		n.ValidChain = true
	}
	t.Nodes = append(t.Nodes, n)
	return n
}

// AddAtTime mines an empty (or randomly filled) valid child of parent with an explicit timestamp
// (used to build branches whose difficulty, and therefore total work, diverges from their length).
func (t *Tree) AddAtTime(parent int, rng *rand.Rand, nOps int, ts time.Time) *Node {
	p := t.Node(parent)
	canonical := t.W.Genesis.Timestamp.Add(time.Duration(10*(p.Height+1)) * time.Second)
	return t.Add(parent, rng, nOps, nil, int(ts.Sub(canonical)/time.Second), "")
}

// Heavier reports SufficientlyHeavierThan between the states of two nodes (false if undefined).
func (t *Tree) Heavier(a, b int) bool {
	na, nb := t.Node(a), t.Node(b)
	if !na.HasState || !nb.HasState {
		return false
	}
	return na.State().SufficientlyHeavierThan(nb.State())
}

// GenSpec describes how to grow a random tree.
type GenSpec struct {
	Blocks     int     // non-genesis blocks
	ForkProb   float64 // probability that a new block forks off a random earlier block
	MaxLeaves  int
	BadBlocks  int // at most this many corrupted blocks
	OpsPerBlk  int
	Warmup     int // linear valid prefix (lets outputs mature and regimes be reached)
	Twins      int // ID twins (same header, another body) added for random valid v2 blocks
}

// RandomTree grows a tree: mostly extends the most recent tip of some branch, sometimes forks.
func RandomTree(w *World, rng *rand.Rand, g GenSpec) *Tree {
	t := NewTree(w)
	tip := 1
	for i := 0; i < g.Warmup; i++ {
		tip = t.Add(tip, rng, g.OpsPerBlk, nil, 0, "").ID
	}
	GrowRandom(t, rng, g, []int{tip})
	return t
}

// GrowRandom adds g.Blocks blocks to t starting from the given branch tips.
func GrowRandom(t *Tree, rng *rand.Rand, g GenSpec, tips []int) {
	bad := 0
	for i := 0; i < g.Blocks; i++ {
		var parent int
		fork := rng.Float64() < g.ForkProb && len(tips) < g.MaxLeaves
		if fork {
			// fork below some tip, at most 4 blocks back, never below the warm-up prefix
			tip := tips[rng.Intn(len(tips))]
			back := 1 + rng.Intn(4)
			parent = tip
			for k := 0; k < back && t.Node(parent).Parent != 0 && t.Node(parent).Height > uint64(g.Warmup); k++ {
				parent = t.Node(parent).Parent
			}
		} else {
			parent = tips[rng.Intn(len(tips))]
		}
		corrupt := ""
		if bad < g.BadBlocks && rng.Float64() < 0.2 {
			corrupt = Corruptions[rng.Intn(len(Corruptions))]
		}
		n := t.Add(parent, rng, g.OpsPerBlk, nil, rng.Intn(5), corrupt)
		if n.Corrupt != "" {
			bad++
		}
		replaced := false
		for j := range tips {
			if tips[j] == parent {
				tips[j] = n.ID
				replaced = true
			}
		}
		if !replaced {
			tips = append(tips, n.ID)
		}
	}
	for k := 0; k < g.Twins; k++ {
		var cand []int
		for _, nd := range t.Nodes {
			if nd.ID > 1 && nd.Block.V2 != nil && nd.Cls == "ok" && nd.Alias == nd.ID && t.Node(nd.Parent).L != nil && !t.hasTwin(nd.ID) {
				cand = append(cand, nd.ID)
			}
		}
		if len(cand) == 0 {
			break
		}
		t.AddTwin(cand[rng.Intn(len(cand))])
	}
}

func (t *Tree) hasTwin(id int) bool {
	for _, nd := range t.Nodes {
		if nd.Alias == id && nd.ID != id {
			return true
		}
	}
	return false
}
