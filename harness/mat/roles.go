package mat

// Role-aware scenario building (added for property C06; nothing in mat.go / trees.go / ledger.go
// is changed and nothing there calls into this file).
//
// The catalogue of mat.go pays everything to W.Addr (the owner key) and W.Other (never spent).
// A wallet-ledger check needs the address under test in EVERY role: miner, plain payee, spender,
// v1 contract party (valid and missed proof outputs), v2 renter / host (renewal, storage proof,
// expiration), siafund owner, siafund CLAIM address only, Foundation subsidy address.  A RoleWorld
// therefore has three personas, each with its own key and funds, and every operation of the
// RoleBuilder takes the personas that play its roles as arguments.  Scripts name operations as
// "op" (random personas) or "op:a,b,c" (persona indices 0..2).

import (
	"bytes"
	"encoding/binary"
	"fmt"
	"math/rand"
	"strconv"
	"strings"
	"time"

	"go.sia.tech/core/consensus"
	"go.sia.tech/core/types"
)

// A Persona is an address with its key.
type Persona struct {
	Name string
	Key  types.PrivateKey
	Addr types.Address
}

func (p Persona) uc() types.UnlockConditions {
	return types.StandardUnlockConditions(p.Key.PublicKey())
}

func (p Persona) policy() types.SpendPolicy {
	return types.SpendPolicy{Type: types.PolicyTypeUnlockConditions(p.uc())}
}

// RoleParams selects regime and Foundation schedule of a RoleWorld.
type RoleParams struct {
	Params
	// FoundationHeight is the Foundation hardfork height (>= 1): the first subsidy is paid in the
	// block of this height.
	FoundationHeight uint64
	// FoundationTo is the persona that is the initial subsidy address.
	FoundationTo int
	// SubsidyEvery, if > 0, makes the network's "month" this many blocks long (by choosing the block
	// interval accordingly), so that a subsidy is paid every SubsidyEvery blocks after the first.
	SubsidyEvery uint64
}

// A RoleWorld is a World with three personas: 0 = owner (W.Key / W.Addr), 1 = other (W.Other),
// 2 = third.
type RoleWorld struct {
	*World
	RP RoleParams
	P  []Persona
}

// NewRoleWorld builds a world whose genesis block funds all three personas with siacoins, the
// owner and `other` with siafunds, and whose Foundation subsidy is managed by the owner.
func NewRoleWorld(rp RoleParams) *RoleWorld {
	w := NewWorld(rp.Params)
	rw := &RoleWorld{World: w, RP: rp}
	ok := seedKey(rp.Seed, "other")
	tk := seedKey(rp.Seed, "third")
	rw.P = []Persona{
		{Name: "owner", Key: w.Key, Addr: w.Addr},
		{Name: "other", Key: ok, Addr: w.Other},
		{Name: "third", Key: tk, Addr: types.StandardUnlockHash(tk.PublicKey())},
	}
	if rp.FoundationHeight == 0 {
		rp.FoundationHeight = 1
	}
	w.N.HardforkFoundation.Height = rp.FoundationHeight
	w.N.HardforkFoundation.PrimaryAddress = rw.P[rp.FoundationTo%3].Addr
	w.N.HardforkFoundation.FailsafeAddress = rw.P[0].Addr
	if rp.SubsidyEvery > 0 {
		w.N.BlockInterval = 365 * 24 * time.Hour / time.Duration(12*rp.SubsidyEvery)
	}
	var sco []types.SiacoinOutput
	for i := 0; i < 10; i++ {
		sco = append(sco, types.SiacoinOutput{Address: rw.P[0].Addr, Value: types.Siacoins(uint32(1000 + 100*i))})
	}
	for i := 0; i < 4; i++ {
		sco = append(sco, types.SiacoinOutput{Address: rw.P[1].Addr, Value: types.Siacoins(uint32(700 + 50*i))})
		sco = append(sco, types.SiacoinOutput{Address: rw.P[2].Addr, Value: types.Siacoins(uint32(400 + 30*i))})
	}
	w.Genesis.Transactions = []types.Transaction{{
		SiacoinOutputs: sco,
		SiafundOutputs: []types.SiafundOutput{{Address: rw.P[0].Addr, Value: 5000}, {Address: rw.P[0].Addr, Value: 2500},
			{Address: rw.P[0].Addr, Value: 1500}, {Address: rw.P[1].Addr, Value: 1000}},
	}}
	return rw
}

// PersonaOf returns the index of the persona owning addr (-1 if none).
func (rw *RoleWorld) PersonaOf(addr types.Address) int {
	for i, p := range rw.P {
		if p.Addr == addr {
			return i
		}
	}
	return -1
}

func (rw *RoleWorld) personaOfKey(pk types.PublicKey) int {
	for i, p := range rw.P {
		if p.Key.PublicKey() == pk {
			return i
		}
	}
	return -1
}

// A RoleBuilder assembles the body of a child of L's tip; like Builder, every operation only
// touches elements no earlier operation of the block has touched, and the real verdict is always
// computed with core.
type RoleBuilder struct {
	RW    *RoleWorld
	L     *Ledger
	rng   *rand.Rand
	used  map[types.Hash256]bool
	ends  map[uint64]bool
	v1    []types.Transaction
	v2    []types.V2Transaction
	Ops   []string
	salt  uint64
	fees  types.Currency
	Miner []int // personas receiving the miner payout (two only in blocks without v2 data)
}

func NewRoleBuilder(rw *RoleWorld, l *Ledger, rng *rand.Rand) *RoleBuilder {
	b := &RoleBuilder{RW: rw, L: l, rng: rng, used: map[types.Hash256]bool{}, ends: map[uint64]bool{}, salt: rng.Uint64(), Miner: []int{rng.Intn(3)}}
	if rng.Intn(4) == 0 {
		b.Miner = append(b.Miner, rng.Intn(3))
	}
	return b
}

func (b *RoleBuilder) childHeight() uint64 { return b.L.Height() + 1 }
func (b *RoleBuilder) v1OK() bool          { return b.childHeight() < b.RW.N.HardforkV2.RequireHeight }
func (b *RoleBuilder) v2OK() bool          { return b.childHeight() >= b.RW.N.HardforkV2.AllowHeight }

func (b *RoleBuilder) pickSC(a int) (types.SiacoinElement, bool) {
	var cands []types.SiacoinElement
	for _, e := range b.L.SortedSC() {
		if e.SiacoinOutput.Address == b.RW.P[a].Addr && e.MaturityHeight <= b.childHeight() && !b.used[types.Hash256(e.ID)] &&
			e.SiacoinOutput.Value.Cmp(types.Siacoins(40)) >= 0 {
			cands = append(cands, e)
		}
	}
	if len(cands) == 0 {
		return types.SiacoinElement{}, false
	}
	e := cands[b.rng.Intn(len(cands))]
	b.used[types.Hash256(e.ID)] = true
	return e.Copy(), true
}

func (b *RoleBuilder) pickSF(a int) (types.SiafundElement, bool) {
	for _, e := range b.L.SortedSF() {
		if e.SiafundOutput.Address == b.RW.P[a].Addr && !b.used[types.Hash256(e.ID)] {
			b.used[types.Hash256(e.ID)] = true
			return e.Copy(), true
		}
	}
	return types.SiafundElement{}, false
}

// signV1 signs every input / revision with the key of the persona whose unlock conditions it
// carries.
func (b *RoleBuilder) signV1(txn *types.Transaction) {
	type need struct {
		id types.Hash256
		uc types.UnlockConditions
	}
	var needs []need
	for _, in := range txn.SiacoinInputs {
		needs = append(needs, need{types.Hash256(in.ParentID), in.UnlockConditions})
	}
	for _, in := range txn.SiafundInputs {
		needs = append(needs, need{types.Hash256(in.ParentID), in.UnlockConditions})
	}
	for _, r := range txn.FileContractRevisions {
		needs = append(needs, need{types.Hash256(r.ParentID), r.UnlockConditions})
	}
	for _, n := range needs {
		txn.Signatures = append(txn.Signatures, types.TransactionSignature{ParentID: n.id, CoveredFields: types.CoveredFields{WholeTransaction: true}})
	}
	for i, n := range needs {
		p := b.RW.PersonaOf(n.uc.UnlockHash())
		h := b.L.CS.WholeSigHash(*txn, txn.Signatures[i].ParentID, 0, 0, nil)
		sig := b.RW.P[p].Key.SignHash(h)
		txn.Signatures[i].Signature = sig[:]
	}
}

func (b *RoleBuilder) signV2(txn *types.V2Transaction) {
	h := b.L.CS.InputSigHash(*txn)
	for i := range txn.SiacoinInputs {
		p := b.RW.P[b.RW.PersonaOf(txn.SiacoinInputs[i].Parent.SiacoinOutput.Address)]
		txn.SiacoinInputs[i].SatisfiedPolicy = types.SatisfiedPolicy{Policy: p.policy(), Signatures: []types.Signature{p.Key.SignHash(h)}}
	}
	for i := range txn.SiafundInputs {
		p := b.RW.P[b.RW.PersonaOf(txn.SiafundInputs[i].Parent.SiafundOutput.Address)]
		txn.SiafundInputs[i].SatisfiedPolicy = types.SatisfiedPolicy{Policy: p.policy(), Signatures: []types.Signature{p.Key.SignHash(h)}}
	}
}

func (b *RoleBuilder) op(name string, args ...int) {
	s := name
	for i, a := range args {
		if i == 0 {
			s += ":"
		} else {
			s += ","
		}
		s += strconv.Itoa(a)
	}
	b.Ops = append(b.Ops, s)
}

// ---- plain payments: a pays b a third of one of its outputs, change to a; fee: also a miner fee

func (b *RoleBuilder) OpPay(ver, a, to int, fee bool) bool {
	if (ver == 1 && !b.v1OK()) || (ver == 2 && !b.v2OK()) {
		return false
	}
	e, ok := b.pickSC(a)
	if !ok {
		return false
	}
	v := e.SiacoinOutput.Value
	amt := v.Div64(3)
	f := types.ZeroCurrency
	if fee {
		f = v.Div64(100)
	}
	outs := []types.SiacoinOutput{{Address: b.RW.P[to].Addr, Value: amt}, {Address: b.RW.P[a].Addr, Value: v.Sub(amt).Sub(f)}}
	if ver == 1 {
		txn := types.Transaction{SiacoinInputs: []types.SiacoinInput{{ParentID: e.ID, UnlockConditions: b.RW.P[a].uc()}}, SiacoinOutputs: outs}
		if fee {
			txn.MinerFees = []types.Currency{f}
		}
		b.signV1(&txn)
		b.v1 = append(b.v1, txn)
	} else {
		txn := types.V2Transaction{SiacoinInputs: []types.V2SiacoinInput{{Parent: e}}, SiacoinOutputs: outs, MinerFee: f}
		b.signV2(&txn)
		b.v2 = append(b.v2, txn)
	}
	b.fees = b.fees.Add(f)
	if fee {
		b.op(fmt.Sprintf("payf%d", ver), a, to)
	} else {
		b.op(fmt.Sprintf("pay%d", ver), a, to)
	}
	return true
}

// OpEph: a parent and a child transaction in one block; the child (signed by `to`) spends the
// output the parent pays to `to` (an ephemeral element) and pays it on to a.
func (b *RoleBuilder) OpEph(ver, a, to int) bool {
	if (ver == 1 && !b.v1OK()) || (ver == 2 && !b.v2OK()) {
		return false
	}
	e, ok := b.pickSC(a)
	if !ok {
		return false
	}
	v := e.SiacoinOutput.Value
	half := v.Div64(2)
	outs := []types.SiacoinOutput{{Address: b.RW.P[to].Addr, Value: half}, {Address: b.RW.P[a].Addr, Value: v.Sub(half)}}
	if ver == 1 {
		parent := types.Transaction{SiacoinInputs: []types.SiacoinInput{{ParentID: e.ID, UnlockConditions: b.RW.P[a].uc()}}, SiacoinOutputs: outs}
		b.signV1(&parent)
		child := types.Transaction{SiacoinInputs: []types.SiacoinInput{{ParentID: parent.SiacoinOutputID(0), UnlockConditions: b.RW.P[to].uc()}},
			SiacoinOutputs: []types.SiacoinOutput{{Address: b.RW.P[a].Addr, Value: half}}}
		b.signV1(&child)
		b.v1 = append(b.v1, parent, child)
	} else {
		parent := types.V2Transaction{SiacoinInputs: []types.V2SiacoinInput{{Parent: e}}, SiacoinOutputs: outs}
		b.signV2(&parent)
		child := types.V2Transaction{SiacoinInputs: []types.V2SiacoinInput{{Parent: parent.EphemeralSiacoinOutput(0)}},
			SiacoinOutputs: []types.SiacoinOutput{{Address: b.RW.P[a].Addr, Value: half}}}
		b.signV2(&child)
		b.v2 = append(b.v2, parent, child)
	}
	b.op(fmt.Sprintf("eph%d", ver), a, to)
	return true
}

// ---- siafunds: a spends one of its siafund outputs, the siafunds go to `to`, the accrued claim is
// paid to persona c.  withSC: the same transaction also moves siacoins of a (so that it is a
// siacoin transaction of a as well).

func (b *RoleBuilder) OpSF(ver, a, to, c int, withSC bool) bool {
	if (ver == 1 && !b.v1OK()) || (ver == 2 && !b.v2OK()) {
		return false
	}
	e, ok := b.pickSF(a)
	if !ok {
		return false
	}
	var sce types.SiacoinElement
	if withSC {
		if sce, ok = b.pickSC(a); !ok {
			return false
		}
	}
	f := types.ZeroCurrency
	var scouts []types.SiacoinOutput
	if withSC {
		f = sce.SiacoinOutput.Value.Div64(200)
		scouts = []types.SiacoinOutput{{Address: b.RW.P[a].Addr, Value: sce.SiacoinOutput.Value.Sub(f)}}
	}
	sfouts := []types.SiafundOutput{{Address: b.RW.P[to].Addr, Value: e.SiafundOutput.Value}}
	if e.SiafundOutput.Value >= 2 && to != a {
		// keep half: the personas keep holding siafunds over long histories
		h := e.SiafundOutput.Value / 2
		sfouts = []types.SiafundOutput{{Address: b.RW.P[to].Addr, Value: h}, {Address: b.RW.P[a].Addr, Value: e.SiafundOutput.Value - h}}
	}
	if ver == 1 {
		txn := types.Transaction{
			SiafundInputs:  []types.SiafundInput{{ParentID: e.ID, UnlockConditions: b.RW.P[a].uc(), ClaimAddress: b.RW.P[c].Addr}},
			SiafundOutputs: sfouts,
		}
		if withSC {
			txn.SiacoinInputs = []types.SiacoinInput{{ParentID: sce.ID, UnlockConditions: b.RW.P[a].uc()}}
			txn.SiacoinOutputs = scouts
			txn.MinerFees = []types.Currency{f}
		}
		b.signV1(&txn)
		b.v1 = append(b.v1, txn)
	} else {
		txn := types.V2Transaction{
			SiafundInputs:  []types.V2SiafundInput{{Parent: e, ClaimAddress: b.RW.P[c].Addr}},
			SiafundOutputs: sfouts,
		}
		if withSC {
			txn.SiacoinInputs = []types.V2SiacoinInput{{Parent: sce}}
			txn.SiacoinOutputs = scouts
			txn.MinerFee = f
		}
		b.signV2(&txn)
		b.v2 = append(b.v2, txn)
	}
	b.fees = b.fees.Add(f)
	if withSC {
		b.op(fmt.Sprintf("sfs%d", ver), a, to, c)
	} else {
		b.op(fmt.Sprintf("sf%d", ver), a, to, c)
	}
	return true
}

// endFree reports whether a v1 contract may take window end e.  A contract expiring exactly at the
// v2 require height would make every block of that height invalid (core rejects a non-empty
// supplement there, and node and ledger both list the expiring contracts), so that end is never used.
func (b *RoleBuilder) endFree(e uint64) bool {
	if e == b.RW.N.HardforkV2.RequireHeight {
		return false
	}
	if !b.RW.UniqueWindows {
		return true
	}
	return len(b.L.Exp[e]) == 0 && !b.ends[e]
}

// ---- v1 contracts: a is the renter (funds the contract, holds the revision key), h the host.
// Valid proof outputs: renter part to a, host part to h; missed: renter part to a, half the host
// part to h, the rest to the void.

func (b *RoleBuilder) OpFC1(a, h int, span uint64) bool {
	if !b.v1OK() {
		return false
	}
	e, ok := b.pickSC(a)
	if !ok {
		return false
	}
	ht := b.childHeight()
	for !b.endFree(ht + span + 2) {
		span++
	}
	b.ends[ht+span+2] = true
	renter, host := types.Siacoins(10), types.Siacoins(5)
	payout := taxAdjustedPayout(renter.Add(host))
	if e.SiacoinOutput.Value.Cmp(payout) < 0 {
		return false
	}
	fc := types.FileContract{
		Filesize: 0, WindowStart: ht + span, WindowEnd: ht + span + 2, Payout: payout,
		UnlockHash:         b.RW.P[a].Addr,
		ValidProofOutputs:  []types.SiacoinOutput{{Address: b.RW.P[a].Addr, Value: renter}, {Address: b.RW.P[h].Addr, Value: host}},
		MissedProofOutputs: []types.SiacoinOutput{{Address: b.RW.P[a].Addr, Value: renter}, {Address: b.RW.P[h].Addr, Value: host.Div64(2)}, {Address: types.VoidAddress, Value: host.Sub(host.Div64(2))}},
	}
	binary.LittleEndian.PutUint64(fc.FileMerkleRoot[:], b.salt+uint64(len(b.v1)))
	txn := types.Transaction{
		SiacoinInputs:  []types.SiacoinInput{{ParentID: e.ID, UnlockConditions: b.RW.P[a].uc()}},
		SiacoinOutputs: []types.SiacoinOutput{{Address: b.RW.P[a].Addr, Value: e.SiacoinOutput.Value.Sub(payout)}},
		FileContracts:  []types.FileContract{fc},
	}
	b.signV1(&txn)
	b.v1 = append(b.v1, txn)
	b.op("fc1", a, h)
	return true
}

func (b *RoleBuilder) pickFC(open bool) (types.FileContractElement, bool) {
	h := b.childHeight()
	for _, e := range b.L.SortedFC() {
		if b.used[types.Hash256(e.ID)] || b.RW.PersonaOf(e.FileContract.UnlockHash) < 0 {
			continue
		}
		if open && e.FileContract.WindowStart <= h && h < e.FileContract.WindowEnd {
			b.used[types.Hash256(e.ID)] = true
			return e.Copy(), true
		}
		if !open && e.FileContract.WindowStart > h {
			b.used[types.Hash256(e.ID)] = true
			return e.Copy(), true
		}
	}
	return types.FileContractElement{}, false
}

func (b *RoleBuilder) OpRev1(shift uint64) bool {
	if !b.v1OK() {
		return false
	}
	e, ok := b.pickFC(false)
	if !ok {
		return false
	}
	fc := e.FileContract
	fc.RevisionNumber++
	if shift != 0 {
		for !b.endFree(fc.WindowEnd + shift) {
			shift++
		}
		b.ends[fc.WindowEnd+shift] = true
	}
	fc.WindowEnd += shift
	p := b.RW.PersonaOf(fc.UnlockHash)
	txn := types.Transaction{FileContractRevisions: []types.FileContractRevision{{ParentID: e.ID, UnlockConditions: b.RW.P[p].uc(), FileContract: fc}}}
	b.signV1(&txn)
	b.v1 = append(b.v1, txn)
	b.op("rev1")
	return true
}

func (b *RoleBuilder) OpSP1() bool {
	if !b.v1OK() {
		return false
	}
	e, ok := b.pickFC(true)
	if !ok {
		return false
	}
	b.v1 = append(b.v1, types.Transaction{StorageProofs: []types.StorageProof{{ParentID: e.ID}}})
	b.op("sp1")
	return true
}

// ---- v2 contracts: a renter, h host

func (b *RoleBuilder) signContract(fc *types.V2FileContract) {
	fc.RenterSignature, fc.HostSignature = types.Signature{}, types.Signature{}
	h := b.L.CS.ContractSigHash(*fc)
	fc.RenterSignature = b.RW.P[b.RW.personaOfKey(fc.RenterPublicKey)].Key.SignHash(h)
	fc.HostSignature = b.RW.P[b.RW.personaOfKey(fc.HostPublicKey)].Key.SignHash(h)
}

func (b *RoleBuilder) newV2Contract(a, h int, span uint64) types.V2FileContract {
	ht := b.childHeight()
	return types.V2FileContract{
		Capacity: 64, Filesize: 64, FileMerkleRoot: b.L.CS.StorageProofLeafHash(Leaf64[:]),
		ProofHeight: ht + span, ExpirationHeight: ht + span + 2,
		RenterOutput: types.SiacoinOutput{Address: b.RW.P[a].Addr, Value: types.Siacoins(10)},
		HostOutput:   types.SiacoinOutput{Address: b.RW.P[h].Addr, Value: types.Siacoins(5)},
		MissedHostValue: types.Siacoins(2), TotalCollateral: types.Siacoins(3),
		RenterPublicKey: b.RW.P[a].Key.PublicKey(), HostPublicKey: b.RW.P[h].Key.PublicKey(),
	}
}

func (b *RoleBuilder) OpFC2(a, h int, span uint64) bool {
	if !b.v2OK() || a == h {
		return false
	}
	e, ok := b.pickSC(a)
	if !ok {
		return false
	}
	fc := b.newV2Contract(a, h, span)
	fc.RevisionNumber = b.salt % 1000
	b.signContract(&fc)
	cost := fc.RenterOutput.Value.Add(fc.HostOutput.Value).Add(b.L.CS.V2FileContractTax(fc))
	if e.SiacoinOutput.Value.Cmp(cost) < 0 {
		return false
	}
	txn := types.V2Transaction{
		SiacoinInputs:  []types.V2SiacoinInput{{Parent: e}},
		SiacoinOutputs: []types.SiacoinOutput{{Address: b.RW.P[a].Addr, Value: e.SiacoinOutput.Value.Sub(cost)}},
		FileContracts:  []types.V2FileContract{fc},
	}
	b.signV2(&txn)
	b.v2 = append(b.v2, txn)
	b.op("fc2", a, h)
	return true
}

func (b *RoleBuilder) pickV2(phase string) (types.V2FileContractElement, bool) {
	h := b.childHeight()
	for _, e := range b.L.SortedV2() {
		if b.used[types.Hash256(e.ID)] {
			continue
		}
		fc := e.V2FileContract
		if b.RW.personaOfKey(fc.RenterPublicKey) < 0 || b.RW.personaOfKey(fc.HostPublicKey) < 0 {
			continue
		}
		ok := false
		switch phase {
		case "rev":
			ok = fc.ProofHeight >= h
		case "proof":
			ok = h >= fc.ProofHeight && h <= fc.ExpirationHeight && fc.ProofHeight <= b.L.Height()
		case "exp":
			ok = h > fc.ExpirationHeight
		}
		if ok {
			b.used[types.Hash256(e.ID)] = true
			return e.Copy(), true
		}
	}
	return types.V2FileContractElement{}, false
}

func (b *RoleBuilder) OpRev2() bool {
	if !b.v2OK() {
		return false
	}
	e, ok := b.pickV2("rev")
	if !ok {
		return false
	}
	rev := e.V2FileContract
	rev.RevisionNumber++
	one := types.Siacoins(1)
	if rev.RenterOutput.Value.Cmp(one) >= 0 {
		rev.RenterOutput.Value = rev.RenterOutput.Value.Sub(one)
		rev.HostOutput.Value = rev.HostOutput.Value.Add(one)
	}
	b.signContract(&rev)
	b.v2 = append(b.v2, types.V2Transaction{FileContractRevisions: []types.V2FileContractRevision{{Parent: e, Revision: rev}}})
	b.op("rev2")
	return true
}

// OpRenew2 renews a v2 contract.  redirect >= 0: the FINAL outputs of the old contract are paid to
// that persona instead of the contract's renter / host addresses (consensus does not tie the
// final outputs' addresses to the contract's).
func (b *RoleBuilder) OpRenew2(redirect int) bool {
	if !b.v2OK() {
		return false
	}
	e, ok := b.pickV2("rev")
	if !ok {
		return false
	}
	old := e.V2FileContract
	a, h := b.RW.personaOfKey(old.RenterPublicKey), b.RW.personaOfKey(old.HostPublicKey)
	in, ok := b.pickSC(a)
	if !ok {
		return false
	}
	nc := b.newV2Contract(a, h, 3)
	nc.RenterOutput.Address, nc.HostOutput.Address = old.RenterOutput.Address, old.HostOutput.Address
	nc.RevisionNumber = 0
	b.signContract(&nc)
	ren := types.V2FileContractRenewal{
		FinalRenterOutput: old.RenterOutput, FinalHostOutput: old.HostOutput,
		RenterRollover: types.ZeroCurrency, HostRollover: types.ZeroCurrency, NewContract: nc,
	}
	if redirect >= 0 {
		ren.FinalRenterOutput.Address = b.RW.P[redirect].Addr
		ren.FinalHostOutput.Address = b.RW.P[redirect].Addr
	}
	sh := b.L.CS.RenewalSigHash(ren)
	ren.RenterSignature = b.RW.P[a].Key.SignHash(sh)
	ren.HostSignature = b.RW.P[h].Key.SignHash(sh)
	cost := nc.RenterOutput.Value.Add(nc.HostOutput.Value).Add(b.L.CS.V2FileContractTax(nc))
	if in.SiacoinOutput.Value.Cmp(cost) < 0 {
		return false
	}
	txn := types.V2Transaction{
		SiacoinInputs:           []types.V2SiacoinInput{{Parent: in}},
		SiacoinOutputs:          []types.SiacoinOutput{{Address: b.RW.P[a].Addr, Value: in.SiacoinOutput.Value.Sub(cost)}},
		FileContractResolutions: []types.V2FileContractResolution{{Parent: e, Resolution: &ren}},
	}
	b.signV2(&txn)
	b.v2 = append(b.v2, txn)
	if redirect >= 0 {
		b.op("renew2x", redirect)
	} else {
		b.op("renew2")
	}
	return true
}

func (b *RoleBuilder) OpSP2() bool {
	if !b.v2OK() {
		return false
	}
	e, ok := b.pickV2("proof")
	if !ok {
		return false
	}
	cie, ok := b.L.CI[e.V2FileContract.ProofHeight]
	if !ok {
		return false
	}
	sp := types.V2StorageProof{ProofIndex: cie.Copy(), Leaf: Leaf64}
	b.v2 = append(b.v2, types.V2Transaction{FileContractResolutions: []types.V2FileContractResolution{{Parent: e, Resolution: &sp}}})
	b.op("sp2")
	return true
}

func (b *RoleBuilder) OpExp2() bool {
	if !b.v2OK() {
		return false
	}
	e, ok := b.pickV2("exp")
	if !ok {
		return false
	}
	b.v2 = append(b.v2, types.V2Transaction{FileContractResolutions: []types.V2FileContractResolution{{Parent: e, Resolution: &types.V2FileContractExpiration{}}}})
	b.op("exp2")
	return true
}

// ---- Foundation: the persona holding the management address moves the subsidy to persona `to`

func (b *RoleBuilder) OpFnd(ver, to int) bool {
	if (ver == 1 && !b.v1OK()) || (ver == 2 && !b.v2OK()) {
		return false
	}
	if ver == 1 && b.childHeight() <= b.RW.N.HardforkFoundation.Height {
		return false // v1 updates are only interpreted after the hardfork height
	}
	m := b.RW.PersonaOf(b.L.CS.FoundationManagementAddress)
	if m < 0 || b.RW.P[to].Addr == b.L.CS.FoundationSubsidyAddress {
		return false
	}
	for _, t := range b.v1 {
		for _, arb := range t.ArbitraryData {
			if bytes.HasPrefix(arb, types.SpecifierFoundation[:]) {
				return false // one update per block
			}
		}
	}
	for _, t := range b.v2 {
		if t.NewFoundationAddress != nil {
			return false
		}
	}
	e, ok := b.pickSC(m)
	if !ok {
		return false
	}
	outs := []types.SiacoinOutput{{Address: b.RW.P[m].Addr, Value: e.SiacoinOutput.Value}}
	if ver == 1 {
		var buf bytes.Buffer
		enc := types.NewEncoder(&buf)
		types.SpecifierFoundation.EncodeTo(enc)
		types.FoundationAddressUpdate{NewPrimary: b.RW.P[to].Addr, NewFailsafe: b.RW.P[m].Addr}.EncodeTo(enc)
		enc.Flush()
		txn := types.Transaction{SiacoinInputs: []types.SiacoinInput{{ParentID: e.ID, UnlockConditions: b.RW.P[m].uc()}}, SiacoinOutputs: outs,
			ArbitraryData: [][]byte{buf.Bytes()}}
		b.signV1(&txn)
		b.v1 = append(b.v1, txn)
	} else {
		addr := b.RW.P[to].Addr
		txn := types.V2Transaction{SiacoinInputs: []types.V2SiacoinInput{{Parent: e}}, SiacoinOutputs: outs, NewFoundationAddress: &addr}
		b.signV2(&txn)
		b.v2 = append(b.v2, txn)
	}
	b.op(fmt.Sprintf("fnd%d", ver), to)
	return true
}

// Block finishes the block.  The miner payout goes to the personas in b.Miner (two payouts only in
// a block without v2 data).
func (b *RoleBuilder) Block(tsOffset int) types.Block {
	cs := b.L.CS
	h := b.childHeight()
	total := cs.BlockReward().Add(b.fees)
	blk := types.Block{
		ParentID:     cs.Index.ID,
		Timestamp:    b.RW.Genesis.Timestamp.Add(time.Duration(10*h) * time.Second).Add(time.Duration(tsOffset) * time.Second),
		Transactions: b.v1,
	}
	if len(b.Miner) >= 2 && !b.v2OK() {
		part := total.Div64(3)
		blk.MinerPayouts = []types.SiacoinOutput{{Address: b.RW.P[b.Miner[0]].Addr, Value: part}, {Address: b.RW.P[b.Miner[1]].Addr, Value: total.Sub(part)}}
	} else {
		blk.MinerPayouts = []types.SiacoinOutput{{Address: b.RW.P[b.Miner[0]].Addr, Value: total}}
	}
	if b.v2OK() {
		tag := make([]byte, 8)
		binary.LittleEndian.PutUint64(tag, b.salt)
		blk.V2 = &types.V2BlockData{Height: h, Transactions: append([]types.V2Transaction{{ArbitraryData: tag}}, b.v2...)}
		blk.V2.Commitment = cs.Commitment(blk.MinerPayouts[0].Address, blk.Transactions, blk.V2Transactions())
	} else {
		// sibling v1 blocks built from the same operations must not be the same block (same ID)
		tag := make([]byte, 8)
		binary.LittleEndian.PutUint64(tag, b.salt)
		blk.Transactions = append(append([]types.Transaction(nil), b.v1...), types.Transaction{ArbitraryData: [][]byte{tag}})
	}
	Mine(cs, &blk)
	return blk
}

// RoleOps is the catalogue of role-aware operation names (arguments are persona indices).
var RoleOps = []string{"pay1", "payf1", "eph1", "sf1", "sfs1", "fc1", "rev1", "sp1", "fnd1",
	"pay2", "payf2", "eph2", "sf2", "sfs2", "fc2", "rev2", "renew2", "renew2x", "sp2", "exp2", "fnd2"}

// Do applies the operation "name" or "name:a,b,c"; missing arguments are drawn at random.
func (b *RoleBuilder) Do(op string) bool {
	name, rest, _ := strings.Cut(op, ":")
	var args []int
	if rest != "" {
		for _, s := range strings.Split(rest, ",") {
			v, err := strconv.Atoi(s)
			if err != nil {
				panic("mat: bad role op " + op)
			}
			args = append(args, v)
		}
	}
	arg := func(i int) int {
		if i < len(args) {
			return args[i]
		}
		return b.rng.Intn(3)
	}
	ver := 1
	if strings.HasSuffix(name, "2") || name == "renew2x" {
		ver = 2
	}
	switch name {
	case "miner":
		b.Miner = append([]int{}, args...)
		return true
	case "pay1", "pay2":
		return b.OpPay(ver, arg(0), arg(1), false)
	case "payf1", "payf2":
		return b.OpPay(ver, arg(0), arg(1), true)
	case "eph1", "eph2":
		return b.OpEph(ver, arg(0), arg(1))
	case "sf1", "sf2":
		return b.OpSF(ver, arg(0), arg(1), arg(2), false)
	case "sfs1", "sfs2":
		return b.OpSF(ver, arg(0), arg(1), arg(2), true)
	case "fc1":
		a, h := arg(0), arg(1)
		span := uint64(1 + b.rng.Intn(3))
		if len(args) > 2 {
			span = uint64(args[2])
		} else if !b.RW.UniqueWindows {
			// worlds in which contracts may share a window end (pinned expiration order): make them
			// share it often -- one span for the contracts of a block, alternating between blocks
			span = 2 + b.childHeight()%2
		}
		return b.OpFC1(a, h, span)
	case "rev1":
		return b.OpRev1(uint64(b.rng.Intn(2)))
	case "sp1":
		return b.OpSP1()
	case "fc2":
		a, h := arg(0), arg(1)
		if len(args) < 2 && a == h {
			h = (a + 1 + b.rng.Intn(2)) % 3
		}
		span := uint64(1 + b.rng.Intn(3))
		if len(args) > 2 {
			span = uint64(args[2])
		}
		return b.OpFC2(a, h, span)
	case "rev2":
		return b.OpRev2()
	case "renew2":
		return b.OpRenew2(-1)
	case "renew2x":
		return b.OpRenew2(arg(0))
	case "sp2":
		return b.OpSP2()
	case "exp2":
		return b.OpExp2()
	case "fnd1", "fnd2":
		return b.OpFnd(ver, arg(0))
	}
	return false
}

// RandomOps applies up to n random operations of the role catalogue (skip lists operation names not
// to draw).
func (b *RoleBuilder) RandomOps(n int, skip map[string]bool) {
	if n > 0 && !b.RW.UniqueWindows && b.v1OK() && !skip["fc1"] && b.rng.Intn(2) == 0 {
		// worlds with a pinned expiration order: contracts that expire together are the point
		b.Do("fc1")
		b.Do("fc1")
	}
	for i := 0; i < n; i++ {
		for try := 0; try < 8; try++ {
			op := RoleOps[b.rng.Intn(len(RoleOps))]
			if skip[op] {
				continue
			}
			if b.Do(op) {
				break
			}
		}
	}
}

// A RoleTree is a fork tree whose blocks are built with the role-aware catalogue.
type RoleTree struct {
	*Tree
	RW   *RoleWorld
	Skip map[string]bool // operation names never drawn at random
	// PinMode ("" | "linear" | "reverse" | "rotate", see PinOrder): every block in which two or more v1
	// contracts expire is applied by the tree's ledgers with that permutation of the linear order,
	// and Pin records it -- the argument of chain.WithExpiringContractOrder for a manager whose
	// chain state is to equal these ledgers.
	PinMode string
	Pin     map[types.BlockID][]types.FileContractID
	// Pinned counts the blocks whose pinned order differs from the linear one.
	Pinned int
}

func NewRoleTree(rw *RoleWorld) *RoleTree {
	return &RoleTree{Tree: NewTree(rw.World), RW: rw, Pin: map[types.BlockID][]types.FileContractID{}}
}

// Add mirrors Tree.Add with the role-aware builder: a child of `parent` with the scripted
// operations plus nOps random ones, classified with core.
func (t *RoleTree) Add(parent int, rng *rand.Rand, nOps int, script []string, tsOffset int, corrupt string) *Node {
	p := t.Node(parent)
	n := &Node{ID: len(t.Nodes) + 1, Parent: parent, Height: p.Height + 1, Alias: len(t.Nodes) + 1}
	var blk types.Block
	if p.L != nil {
		bld := NewRoleBuilder(t.RW, p.L, rng)
		for _, op := range script {
			bld.Do(op)
		}
		bld.RandomOps(nOps, t.Skip)
		blk = bld.Block(tsOffset)
		n.Ops = bld.Ops
	} else {
		cs := p.Hdr
		blk = types.Block{ParentID: p.Block.ID(), Timestamp: t.W.Genesis.Timestamp.Add(time.Duration(10*n.Height+uint64(tsOffset)) * time.Second),
			MinerPayouts: []types.SiacoinOutput{{Address: t.W.Addr, Value: cs.BlockReward()}}}
		tag := []byte(fmt.Sprintf("orphan-%d-%d", n.ID, rng.Int63()))
		if n.Height >= t.W.N.HardforkV2.AllowHeight {
			blk.V2 = &types.V2BlockData{Height: n.Height, Transactions: []types.V2Transaction{{ArbitraryData: tag}}}
			blk.V2.Commitment = cs.Commitment(t.W.Addr, nil, blk.V2Transactions())
		} else {
			blk.Transactions = []types.Transaction{{ArbitraryData: [][]byte{tag}}}
		}
		Mine(cs, &blk)
	}
	pstate := p.State()
	if corrupt != "" {
		if c, ok := Corrupt(t.W, pstate, blk, corrupt, rng); ok {
			blk = c
			n.Corrupt = corrupt
		}
	}
	n.Block = blk
	for _, o := range t.Nodes {
		if o.Block.ID() == blk.ID() {
			// two node numbers for one block ID would make every ID -> node mapping ambiguous
			return t.Add(parent, rng, nOps, script, tsOffset+1+rng.Intn(3), corrupt)
		}
	}
	n.Cls = classify(p.L, pstate, blk)
	var ats time.Time
	if p.L != nil {
		ats = p.L.AncestorTS()
	}
	n.Hdr = consensus.ApplyHeader(pstate, blk.Header(), ats)
	n.HasState = p.HasState && (n.Cls == "ok" || n.Cls == "badbody")
	if p.L != nil && p.ValidChain && n.Cls == "ok" {
		l := p.L.Clone()
		pinned, err := l.ApplyOrdered(blk, PinOrder(t.PinMode))
		if err != nil {
			panic(fmt.Sprintf("mat: role block classified ok does not apply: %v", err))
		}
		if pinned != nil {
			t.Pin[blk.ID()] = pinned
			lin := p.L.BlockSupplement(blk).ExpiringFileContracts
			for i := range pinned {
				if lin[i].ID != pinned[i] {
					t.Pinned++
					break
				}
			}
		}
		n.L = l
		n.ValidChain = true
	}
	t.Nodes = append(t.Nodes, n)
	return n
}

// GrowRandom adds g.Blocks blocks below/on the given tips (same policy as mat.GrowRandom).
func (t *RoleTree) GrowRandom(rng *rand.Rand, g GenSpec, tips []int) {
	bad := 0
	for i := 0; i < g.Blocks; i++ {
		var parent int
		fork := rng.Float64() < g.ForkProb && len(tips) < g.MaxLeaves
		if fork {
			tip := tips[rng.Intn(len(tips))]
			back := 1 + rng.Intn(4)
			parent = tip
			for k := 0; k < back && t.Node(parent).Parent != 0 && t.Node(parent).Height > uint64(g.Warmup); k++ {
				parent = t.Node(parent).Parent
			}
		} else {
			parent = tips[rng.Intn(len(tips))]
		}
		corrupt := ""
		if bad < g.BadBlocks && rng.Float64() < 0.2 {
			corrupt = Corruptions[rng.Intn(len(Corruptions))]
		}
		n := t.Add(parent, rng, g.OpsPerBlk, nil, rng.Intn(5), corrupt)
		if n.Corrupt != "" {
			bad++
		}
		replaced := false
		for j := range tips {
			if tips[j] == parent {
				tips[j] = n.ID
				replaced = true
			}
		}
		if !replaced {
			tips = append(tips, n.ID)
		}
	}
}
