package mat

import (
	"math/rand"
	"testing"
)

// TestMaterialiser is the materialiser's own sanity test: trees in the three regimes, every
// operation kind occurring, ledger proofs verifying at every tip.
func TestMaterialiser(t *testing.T) {
	ops := map[string]int{}
	cls := map[string]int{}
	for seed := int64(1); seed <= 6; seed++ {
		for _, p := range []Params{{Allow: 100, Require: 110, Final: 120}, {Allow: 6, Require: 12, Final: 16}, {Allow: 1, Require: 1, Final: 1}} {
			p.Seed = seed
			w := NewWorld(p)
			rng := rand.New(rand.NewSource(seed))
			tr := RandomTree(w, rng, GenSpec{Blocks: 30, ForkProb: 0.25, MaxLeaves: 3, BadBlocks: 3, OpsPerBlk: 3, Warmup: 3})
			for _, n := range tr.Nodes {
				cls[n.Cls+"/"+n.Corrupt]++
				for _, o := range n.Ops {
					ops[o]++
				}
				if n.L != nil {
					if err := n.L.ProofsVerify(); err != nil {
						t.Fatalf("seed %d node %d: %v", seed, n.ID, err)
					}
				}
			}
		}
	}
	t.Log("ops:", ops)
	t.Log("classes:", cls)
	for _, o := range AllOps {
		if ops[o] == 0 {
			t.Errorf("operation %s never generated", o)
		}
	}
}
